import TabulaModel.Lemmas.DocxRender
import TabulaModel.Props.C16
/-!
# C16 — the DOCX reader's public views present the body in document order

Theorems about `Model/DocxRender.lean` (`TextWithOptions`, `MarkdownWithOptions`,
`MarkdownWithRAGOptions`, `Document`), and their composition with `body_interleave`
into the end-to-end statement of the property over the public API's model: from the
authored tree of word/document.xml to the plain text, the Markdown and the document model.
-/
namespace Tabula.C16Render
open Tabula.Xml Tabula.Docx Tabula.Render

/-! ### plain text -/

/-- **docx_text_pieces**. `TextWithOptions` is one piece per element of the reader, in the
reader's order, joined by newlines. -/
theorem docx_text_pieces (rd : Reader) (opts : ExtractOptions) :
    textWithOptions rd opts = joinWith [10] (textPieces rd opts (rd.elements.map (·.1)) [])
    ∧ (textPieces rd opts (rd.elements.map (·.1)) []).length = rd.elements.length := by
  refine ⟨rfl, ?_⟩
  rw [textPieces_length]; simp

/-- **docx_text_in_order**. The plain text shows, one after the other and without overlap,
the text of every paragraph that is not excluded and every cell of every table (row by row),
in the order of the reader's elements - whatever the options, the numbering and the list
counters. -/
theorem docx_text_in_order (rd : Reader) (opts : ExtractOptions) :
    InOrder ((rd.elements.map (·.1)).map (textTexts rd opts)).flatten (textWithOptions rd opts) :=
  inOrder_joinWith [10] _ _ (textPieces_pieces rd opts _ _)

/-- **docx_text_list_nesting**. A list item is written as two spaces per level, its bullet or
number, and its text; any other paragraph as its text alone. -/
theorem docx_text_list_nesting (nm : Numbering) (p : Para) (cs : Counters) :
    (∀ numId level, p.list = some (numId, level) →
      (writeParagraphText nm p cs).1 = indent level ++ textMarker nm numId level cs ++ p.text)
    ∧ (p.list = none → (writeParagraphText nm p cs).1 = p.text) := by
  refine ⟨fun numId level h => writeParagraphText_item nm p cs numId level h, fun h => ?_⟩
  rw [writeParagraphText_plain nm p cs h]

example : (indent 2).length = 4 := by decide

/-! ### Markdown -/

/-- **docx_markdown_in_order**. The Markdown buffer shows, in the order of the reader's
elements, the text of every paragraph that is not excluded (heading, list item or plain)
and the text of every own cell of every table, row by row. -/
theorem docx_markdown_in_order (rd : Reader) (opts : ExtractOptions) (o : MdOptions) :
    InOrder ((rd.elements.map (·.1)).map (mdTexts rd opts)).flatten (markdownRaw rd opts o) := by
  obtain ⟨chunk, hc, ho⟩ := mdLoop_chunk rd opts o (rd.elements.map (·.1)) 0
    { out := [], inList := false, lastNumId := [], cs := [] }
  unfold markdownRaw
  rw [hc]
  simpa using ho

/-- **docx_markdown_trim**. What `MarkdownWithRAGOptions` returns is that buffer without the
newlines at its two ends - nothing else is cut (the indentation of a leading nested item stays). -/
theorem docx_markdown_trim (rd : Reader) (opts : ExtractOptions) (o : MdOptions) :
    ∃ a b, markdownRaw rd opts o = a ++ markdownWithRAGOptions rd opts o ++ b ∧ (∀ c ∈ a, c = 10) ∧ (∀ c ∈ b, c = 10) :=
  trimNL_split _

/-- `Markdown()` and `MarkdownWithOptions` are `MarkdownWithRAGOptions` without offset and cap -/
theorem docx_markdown_is_rag_default (rd : Reader) (opts : ExtractOptions) :
    markdownWithOptions rd opts = markdownWithRAGOptions rd opts {} ∧ markdown rd = markdownWithRAGOptions rd {} {} :=
  ⟨rfl, rfl⟩

/-- **docx_md_heading_line**. A heading that is not excluded is written as `#` repeated
`mdHeadingLevel` times, a space, its text and a blank line, after what was written before
(and the blank line that ends a list). -/
theorem docx_md_heading_line (rd : Reader) (opts : ExtractOptions) (o : MdOptions) (i : Nat) (p : Para) (l : Nat) (s : MdState)
    (hex : excluded opts rd.headerTexts rd.footerTexts p.text = false) (hh : p.heading = some l) :
    ∃ sep, (sep = [] ∨ sep = [10]) ∧
      (mdStep rd opts o i (.para p) s).out = s.out ++ sep ++ repeatStr [35] (mdHeadingLevel o l) ++ [32] ++ p.text ++ [10, 10] := by
  simp only [mdStep, hex, Bool.false_eq_true, if_false, hh]
  split
  · exact ⟨[10], Or.inr rfl, by simp [List.append_assoc]⟩
  · exact ⟨[], Or.inl rfl, by simp [List.append_assoc]⟩

/-- the number of `#`: between 1 and 6; without options the heading's level, capped at 6 -/
theorem docx_md_heading_level (o : MdOptions) (l : Nat) :
    (1 ≤ mdHeadingLevel o l ∧ mdHeadingLevel o l ≤ 6) ∧ mdHeadingLevel {} l = min (max l 1) 6 :=
  ⟨mdHeadingLevel_range o l, mdHeadingLevel_default l⟩

/-- **docx_md_item_line**. A list item that is no heading and not excluded is written as a line
of its own: two spaces per level, `- ` or its number and `. `, its text. -/
theorem docx_md_item_line (rd : Reader) (opts : ExtractOptions) (o : MdOptions) (i : Nat) (p : Para) (numId : Str) (level : Nat)
    (s : MdState) (hex : excluded opts rd.headerTexts rd.footerTexts p.text = false)
    (hh : p.heading = none) (hl : p.list = some (numId, level)) :
    ∃ sep cs, (sep = [] ∨ sep = [10]) ∧
      (mdStep rd opts o i (.para p) s).out = s.out ++ sep ++ indent level ++ mdMarker rd.numbering numId level cs ++ p.text ++ [10] := by
  simp only [mdStep, hex, Bool.false_eq_true, if_false, hh, hl]
  split
  · exact ⟨[10], s.cs, Or.inr rfl, by rw [mdListItem_line]; simp [List.append_assoc]⟩
  · exact ⟨[], s.cs, Or.inl rfl, by rw [mdListItem_line]; simp [List.append_assoc]⟩

/-- the marker is `- ` or a decimal number followed by `. ` -/
theorem docx_md_marker (nm : Numbering) (numId : Str) (level : Nat) (cs : Counters) :
    mdMarker nm numId level cs = [45, 32] ∨ ∃ n : Int, mdMarker nm numId level cs = intToDec n ++ [46, 32] := by
  unfold mdMarker
  simp only
  split
  · exact Or.inr ⟨_, rfl⟩
  · exact Or.inl rfl

/-! ### the document model -/

/-- **docx_document_flatten**. The page `Document()` builds, with its lists taken apart into
their items, is the reader's elements in order: a paragraph without text is left out, a list
item keeps its level and text, a heading its level and text, a plain paragraph its text, a
table its grid (`ToModelTable`; a table without rows is left out). -/
theorem docx_document_flatten (rd : Reader) : flattenDoc (document rd) = rd.elements.filterMap entryOf := by
  unfold document
  have h1 := flatState_finalize (docLoop rd.numbering rd.elements { page := [], cur := none })
  rw [flatState, finalize_cur] at h1
  simp only [List.append_nil] at h1
  rw [h1, docLoop_flat]
  simp [flatState, flattenDoc]

/-! ### the table grid of the document model -/

theorem foldl_add_eq (f : Cell → Nat) : ∀ (l : List Cell) (a : Nat), l.foldl (fun s c => s + f c) a = a + (l.map f).sum := by
  intro l
  induction l with
  | nil => intro a; simp
  | cons c cs ih => intro a; simp only [List.foldl_cons, List.map_cons, List.sum_cons]; rw [ih]; omega

theorem foldl_max_ge (f : List Cell → Nat) : ∀ (rows : List (List Cell)) (a : Nat),
    a ≤ rows.foldl (fun m row => max m (f row)) a ∧ ∀ row ∈ rows, f row ≤ rows.foldl (fun m row => max m (f row)) a := by
  intro rows
  induction rows with
  | nil => intro a; simp
  | cons r rs ih =>
    intro a
    simp only [List.foldl_cons]
    obtain ⟨h1, h2⟩ := ih (max a (f r))
    refine ⟨by omega, ?_⟩
    intro row hrow
    cases hrow with
    | head => omega
    | tail _ hm => exact h2 row hm

/-- a cell at least one column wide starts inside the widest row -/
theorem startCol_lt_colCount (rows : List (List Cell)) (r i : Nat) (row : List Cell) (c : Cell)
    (hr : rows[r]? = some row) (hc : row[i]? = some c) (hw : 1 ≤ c.colSpan) :
    startCol (fun c : Cell => c.colSpan) row i < colCount rows := by
  have hmem : row ∈ rows := List.mem_of_getElem? hr
  have h1 := (foldl_max_ge (fun row => row.foldl (fun s c => s + c.colSpan) 0) rows 0).2 row hmem
  have h2 : row.foldl (fun s c => s + c.colSpan) 0 = 0 + (row.map (fun c : Cell => c.colSpan)).sum :=
    foldl_add_eq (fun c => c.colSpan) row 0
  have h3 := startCol_add_le (fun c : Cell => c.colSpan) row i c hc
  unfold colCount
  omega

/-- **docx_model_table_cell**. In the table `ToModelTable` hands to the document model, the
cell number `i` of parsed row `r` that is no merge continuation and at least one column wide
stands at row `r`, column = the grid spans of the cells before it in its row added up, with
its text (the cell's paragraphs joined), its row span and its column span - provided it
starts inside the grid (`w:tblGrid` may declare fewer columns; without `w:tblGrid` it always does). -/
theorem docx_model_table_cell (rows : List (List Cell)) (gridCols r i : Nat) (row : List Cell) (c : Cell)
    (hr : rows[r]? = some row) (hc : row[i]? = some c) (hcont : c.cont = false) (hw : 1 ≤ c.colSpan)
    (hcc : gridCols = 0 ∨ startCol (fun c : Cell => c.colSpan) row i < gridCols) :
    ((toModelTable rows gridCols)[r]?).bind (·[startCol (fun c : Cell => c.colSpan) row i]?)
      = some { text := c.text, rowSpan := c.rowSpan, colSpan := c.colSpan } := by
  have hne : rows ≠ [] := by intro h; rw [h] at hr; simp at hr
  unfold toModelTable
  simp only [hne, if_false]
  have hlt : startCol (fun c : Cell => c.colSpan) row i < (if gridCols ≠ 0 then gridCols else colCount rows) := by
    by_cases hg : gridCols = 0
    · simp only [hg, ne_eq, not_true_eq_false, if_false]
      exact startCol_lt_colCount rows r i row c hr hc hw
    · simp only [hg, ne_eq, not_false_eq_true, if_true]
      cases hcc with
      | inl h => exact absurd h hg
      | inr h => exact h
  exact model_grid_cell (fun c : Cell => c.colSpan) (fun c : Cell => c.cont) mcellOf _ rows r i row c hr hc hcont hw hlt

/-- every cell of a parsed DOCX table is 1..1024 columns wide (after `limitTableGrid` and the
vertical-merge pass too: a span is the authored one, which is bounded, or reset to 1) -/
theorem parseTable_span_pos (tbl : Node) (row : List Cell) (c : Cell) (hrow : row ∈ parseTable tbl) (hc : c ∈ row) :
    1 ≤ c.colSpan ∧ c.colSpan ≤ 1024 := by
  have hg := C16.table_grid_any tbl
  have h1 : row.map strip ∈ stripRows (parseTable tbl) := List.mem_map_of_mem hrow
  rw [hg] at h1
  obtain ⟨row0, hrow0, hr0⟩ := List.mem_map.mp h1
  have h2 : strip c ∈ row.map strip := List.mem_map_of_mem hc
  rw [← hr0] at h2
  obtain ⟨c0, hc0, hc0e⟩ := List.mem_map.mp h2
  have hspan : c0.colSpan = c.colSpan := by
    have := congrArg (fun t : Str × Nat × Bool => t.2.1) hc0e
    simpa [strip] using this
  rw [← hspan]
  cases limit_cases (parseRows tbl) with
  | inl he =>
    rw [he] at hrow0
    simp only [parseRows, List.mem_map] at hrow0
    obtain ⟨tr, _, rfl⟩ := hrow0
    simp only [List.mem_map] at hc0
    obtain ⟨tc, _, rfl⟩ := hc0
    exact C16.docx_span_bounded tc
  | inr he =>
    rw [he] at hrow0
    simp only [resetSpans, List.mem_map] at hrow0
    obtain ⟨r1, _, rfl⟩ := hrow0
    simp only [List.mem_map] at hc0
    obtain ⟨c1, _, rfl⟩ := hc0
    exact ⟨Nat.le_refl 1, by show 1 ≤ 1024; omega⟩

/-- non-vacuity: a 2x3 table, first row one cell two columns wide and a plain cell, second row a
continuation under the wide cell and a plain cell; the document model's grid -/
example :
    let c (t : Str) (cs rs : Nat) (cont : Bool) : Cell := { text := t, colSpan := cs, rowSpan := rs, cont := cont }
    toModelTable [[c [65] 2 2 false, c [66] 1 1 false], [c [] 2 1 true, c [67] 1 1 false]] 0
      = [[⟨[65], 2, 2⟩, blankCell, ⟨[66], 1, 1⟩], [blankCell, blankCell, ⟨[67], 1, 1⟩]] := by decide +kernel

/-! ### header and footer parts -/

theorem excluded_default (hdr ftr : List Str) (t : Str) : excluded {} hdr ftr t = false := by
  unfold excluded Tabula.HF.shouldExcludeParagraph
  simp

theorem textPieces_default_headers (rd rd' : Reader) (hn : rd.numbering = rd'.numbering) :
    ∀ (els : List Elem) (cs : Counters), textPieces rd {} els cs = textPieces rd' {} els cs := by
  intro els
  induction els with
  | nil => intro cs; rfl
  | cons e rest ih =>
    intro cs
    have hp : textPiece rd {} e cs = textPiece rd' {} e cs := by
      cases e with
      | para p => simp only [textPiece, excluded_default, Bool.false_eq_true, if_false, hn]
      | table rows => rfl
    simp only [textPieces, hp, ih]

theorem mdLoop_default_headers (rd rd' : Reader) (hn : rd.numbering = rd'.numbering) (o : MdOptions) :
    ∀ (els : List Elem) (i : Nat) (s : MdState), mdLoop rd {} o els i s = mdLoop rd' {} o els i s := by
  intro els
  induction els with
  | nil => intro i s; rfl
  | cons e rest ih =>
    intro i s
    have hp : mdStep rd {} o i e s = mdStep rd' {} o i e s := by
      cases e with
      | para p => simp only [mdStep, excluded_default, Bool.false_eq_true, if_false, hn]
      | table rows => rfl
    simp only [mdLoop, hp, ih]

/-- **docx_headers_never_leak**. With the default options the plain text, the Markdown and
the document model of a package are those of the same package without any header or footer
part: whatever the parts contain, nothing of it reaches the body. -/
theorem docx_headers_never_leak (doc : Node) (styles numbering : Option Node) (headers footers : List Node) (o : MdOptions) :
    text (openReader doc styles numbering headers footers) = text (openReader doc styles numbering [] [])
    ∧ markdownWithRAGOptions (openReader doc styles numbering headers footers) {} o
        = markdownWithRAGOptions (openReader doc styles numbering [] []) {} o
    ∧ document (openReader doc styles numbering headers footers) = document (openReader doc styles numbering [] []) := by
  have he : (openReader doc styles numbering headers footers).elements = (openReader doc styles numbering [] []).elements := rfl
  have hn : (openReader doc styles numbering headers footers).numbering = (openReader doc styles numbering [] []).numbering := rfl
  refine ⟨?_, ?_, rfl⟩
  · unfold text textWithOptions
    rw [he, textPieces_default_headers _ _ hn]
  · unfold markdownWithRAGOptions markdownRaw
    rw [he, mdLoop_default_headers _ _ hn]

/-! ### the end-to-end statement over the public API's model -/

/-- the texts a body element shows with the default options -/
def shownText (st : Styles) (n : Node) : List Str :=
  if n.loc == sTbl then tableTextCells (rrows (parseTable n)) else [(processParagraph st n).text]

/-- **docx_end_to_end**. For every document tree whose root holds one `body`, every styles,
numbering, header and footer part: the reader's elements are the `w:p` / `w:tbl` elements at
the block level of the body - its direct children and the blocks inside block-level containers
(`w:sdt` / `w:sdtContent`, `w:customXml`, nested to any depth; `C16.bodyBlocks`,
`C16.body_container_transparent`), each at the place of its container - in source order, each
processed by itself; `Text()` shows their texts (paragraph
texts = runs and inline content in source order, `para_inline_order`; cell texts row by row)
in that order; so does the Markdown buffer, of which `Markdown()` cuts only newlines at the
ends; and the page of `Document()`, lists taken apart, is these elements in that order with
their heading levels, list levels and table grids. (About the reader `Open` builds when it
succeeds; `docx_end_to_end` below says when it does.) -/
theorem docx_reader_end_to_end (docTag bodyTag : Str) (da ba : List (Str × Str)) (pre kids post : List Node)
    (styles numbering : Option Node) (headers footers : List Node)
    (hdoc : localName docTag ≠ sBody) (hbody : localName bodyTag = sBody)
    (hpre : noBodyList pre = true) (hpost : noBodyList post = true) :
    let rd := openReader (.elem docTag da (pre ++ [.elem bodyTag ba kids] ++ post)) styles numbering headers footers
    let body := C16.bodyBlocks kids
    rd.elements = body.map (fun n => (processElement (stylesOf styles) n, gridColsOf n))
    ∧ InOrder (body.map (shownText (stylesOf styles))).flatten (text rd)
    ∧ InOrder ((body.map (processElement (stylesOf styles))).map (mdTexts rd {})).flatten (markdownRaw rd {} {})
    ∧ (∃ a b, markdownRaw rd {} {} = a ++ markdown rd ++ b ∧ (∀ c ∈ a, c = 10) ∧ (∀ c ∈ b, c = 10))
    ∧ flattenDoc (document rd) = (body.map (fun n => (processElement (stylesOf styles) n, gridColsOf n))).filterMap entryOf := by
  intro rd body
  have hels : rd.elements = body.map (fun n => (processElement (stylesOf styles) n, gridColsOf n)) := by
    show (openReader _ styles numbering headers footers).elements = _
    unfold openReader
    simp only
    rw [C16.body_interleave docTag bodyTag da ba pre kids post hdoc hbody hpre hpost]
  have hfst : rd.elements.map (·.1) = body.map (processElement (stylesOf styles)) := by
    rw [hels]; simp [List.map_map, Function.comp_def]
  refine ⟨hels, ?_, ?_, docx_markdown_trim rd {} {}, ?_⟩
  · have := docx_text_in_order rd {}
    rw [hfst] at this
    have hshown : (body.map (processElement (stylesOf styles))).map (textTexts rd {}) = body.map (shownText (stylesOf styles)) := by
      rw [List.map_map]
      apply List.map_congr_left
      intro n _
      simp only [Function.comp, processElement, shownText]
      split
      · rfl
      · simp [textTexts, excluded_default]
    rw [hshown] at this
    exact this
  · have := docx_markdown_in_order rd {} {}
    rw [hfst] at this
    exact this
  · rw [docx_document_flatten, hels]

/-- **docx_end_to_end**. RESTATED (was: for every document tree with one body; the statement
of `docx_reader_end_to_end`): `paragraphXML.decodeContent` now refuses the 10001st level of
nested inline containers, `decodeBlocks` the 10001st level of nested block containers, and
`docx.Open` then fails. With `hdec` - every paragraph `xml.Unmarshal` decodes (body paragraphs,
paragraphs of the cells of body tables) nests its inline containers at most `maxInlineDepth` =
10000 deep, and the block containers of the body and of every decoded cell nest at most that
deep (`documentDecodes`, decidable; `C16Bounds.docx_open_iff_depth`) - `Open` succeeds and the
reader presents the body as stated. Beyond the bound `docx_refused`: `Open` returns an error, nothing is presented. -/
theorem docx_end_to_end (docTag bodyTag : Str) (da ba : List (Str × Str)) (pre kids post : List Node)
    (styles numbering : Option Node) (headers footers : List Node)
    (hdoc : localName docTag ≠ sBody) (hbody : localName bodyTag = sBody)
    (hpre : noBodyList pre = true) (hpost : noBodyList post = true)
    (hdec : documentDecodes (.elem docTag da (pre ++ [.elem bodyTag ba kids] ++ post)) = true) :
    ∃ rd, openReader? (.elem docTag da (pre ++ [.elem bodyTag ba kids] ++ post)) styles numbering headers footers = some rd ∧
      (let body := C16.bodyBlocks kids
       rd.elements = body.map (fun n => (processElement (stylesOf styles) n, gridColsOf n))
       ∧ InOrder (body.map (shownText (stylesOf styles))).flatten (text rd)
       ∧ InOrder ((body.map (processElement (stylesOf styles))).map (mdTexts rd {})).flatten (markdownRaw rd {} {})
       ∧ (∃ a b, markdownRaw rd {} {} = a ++ markdown rd ++ b ∧ (∀ c ∈ a, c = 10) ∧ (∀ c ∈ b, c = 10))
       ∧ flattenDoc (document rd) = (body.map (fun n => (processElement (stylesOf styles) n, gridColsOf n))).filterMap entryOf) := by
  refine ⟨openReader (.elem docTag da (pre ++ [.elem bodyTag ba kids] ++ post)) styles numbering headers footers, ?_, ?_⟩
  · unfold openReader?
    rw [if_pos hdec]
  · exact docx_reader_end_to_end docTag bodyTag da ba pre kids post styles numbering headers footers hdoc hbody hpre hpost

/-- **docx_refused**. A document.xml in which a decoded paragraph nests inline containers deeper
than `maxInlineDepth` is refused: `docx.Open` returns the error of `xml.Unmarshal`, so there is
no element list and no view (the three `tabula.Open(f)` views return the error). -/
theorem docx_refused (doc : Node) (styles numbering : Option Node) (headers footers : List Node)
    (h : documentDecodes doc = false) :
    openElements doc styles = none ∧ openReader? doc styles numbering headers footers = none := by
  simp [openElements, openReader?, h]

/-- whether `Open` succeeds depends on document.xml alone, and when it does the element list is
`Docx.elements` - the function the theorems of `Props/C16.lean` are about -/
theorem docx_open_elements (doc : Node) (styles numbering : Option Node) (headers footers : List Node) :
    (openReader? doc styles numbering headers footers).map (·.elements.map (·.1)) = openElements doc styles := by
  unfold openReader? openElements
  split
  · simp [openReader, elements, List.map_map, Function.comp_def]
  · rfl

/-- **docx_headers_never_leak** through `Open`: whether the package opens and, with the default
options, what its three views show do not depend on the header and footer parts (a part that
cannot be decoded is left out, it never makes `Open` fail). -/
theorem docx_headers_never_leak_open (doc : Node) (styles numbering : Option Node) (headers footers : List Node) (o : MdOptions) :
    (openReader? doc styles numbering headers footers).map text = (openReader? doc styles numbering [] []).map text
    ∧ (openReader? doc styles numbering headers footers).map (markdownWithRAGOptions · {} o)
        = (openReader? doc styles numbering [] []).map (markdownWithRAGOptions · {} o)
    ∧ (openReader? doc styles numbering headers footers).map document = (openReader? doc styles numbering [] []).map document := by
  have h := docx_headers_never_leak doc styles numbering headers footers o
  unfold openReader?
  split
  · simp only [Option.map_some]
    exact ⟨congrArg some h.1, congrArg some h.2.1, congrArg some h.2.2⟩
  · exact ⟨rfl, rfl, rfl⟩

/-- non-vacuity: the witness document of `Props/C16.lean` (a table with a two-paragraph cell, a
table, a paragraph) through the three views -/
example :
    let rd := openReader C16.witnessDoc none none [] []
    text rd = [65, 32, 66, 10, 67, 10, 68]
    ∧ markdown rd = [124, 32, 65, 32, 66, 32, 124, 10, 124, 32, 45, 45, 45, 32, 124, 10, 10, 124, 32, 67, 32, 124, 10, 124, 32, 45, 45, 45, 32, 124, 10, 10, 68]
    ∧ document rd = [.table [[⟨[65, 10, 66], 1, 1⟩]], .table [[⟨[67], 1, 1⟩]], .para [68]] := by
  decide +kernel

/-! ### the public API layer -/

theorem mdHeadingLevel_api (l : Nat) : mdHeadingLevel { offset := 0, maxLevel := 6 } l = mdHeadingLevel {} l := by
  unfold mdHeadingLevel
  simp only
  repeat' split
  all_goals omega

theorem mdLoop_congr (rd : Reader) (opts : ExtractOptions) (o o' : MdOptions) (hl : ∀ l, mdHeadingLevel o l = mdHeadingLevel o' l) :
    ∀ (els : List Elem) (i : Nat) (s : MdState), mdLoop rd opts o els i s = mdLoop rd opts o' els i s := by
  intro els
  induction els with
  | nil => intro i s; rfl
  | cons e rest ih =>
    intro i s
    have hp : mdStep rd opts o i e s = mdStep rd opts o' i e s := by
      cases e with
      | para p => simp only [mdStep, hl]
      | table rows => rfl
    simp only [mdLoop, hp, ih]

/-- **api_views**. `tabula.Open(f).Text()` is the reader's `TextWithOptions` with the
extractor's switches; `.ToMarkdown()` - which passes `rag.DefaultMarkdownOptions()`, heading
cap 6 - is the reader's `MarkdownWithOptions`; `.Document()` is the reader's `Document()`.
With no switch set they are `Text()`, `Markdown()` and `Document()`. -/
theorem api_views (rd : Reader) (a : ApiOptions) :
    apiText rd a = textWithOptions rd { excludeHeaders := a.excludeHeaders, excludeFooters := a.excludeFooters }
    ∧ apiMarkdown rd a = markdownWithOptions rd { excludeHeaders := a.excludeHeaders, excludeFooters := a.excludeFooters }
    ∧ apiDocument rd = document rd
    ∧ apiText rd {} = text rd ∧ apiMarkdown rd {} = markdown rd := by
  have h : ∀ opts, markdownWithRAGOptions rd opts { offset := 0, maxLevel := 6 } = markdownWithOptions rd opts := by
    intro opts
    unfold markdownWithOptions markdownWithRAGOptions markdownRaw
    rw [mdLoop_congr rd opts _ {} mdHeadingLevel_api]
  exact ⟨rfl, h _, rfl, rfl, h _⟩

/-! ### calls on one reader: the views do not depend on what was asked before -/

inductive View where
  | text | markdown | rag | document | modelTables | parsed
deriving Repr, DecidableEq

inductive Answer where
  | str (s : Str)
  | doc (d : List DocElem)
  | tables (t : List (List (List MCell)))
  | elems (e : List Elem)
deriving Repr, DecidableEq

/-- the answer of one view of the reader -/
def answer (rd : Reader) (opts : ExtractOptions) (o : MdOptions) : View → Answer
  | .text => .str (textWithOptions rd opts)
  | .markdown => .str (markdownWithOptions rd opts)
  | .rag => .str (markdownWithRAGOptions rd opts o)
  | .document => .doc (document rd)
  | .modelTables => .tables (modelTables rd)
  | .parsed => .elems (rd.elements.map (·.1))

/-- one call: the views only read the reader (the list counters live in the call) -/
def call (rd : Reader) (opts : ExtractOptions) (o : MdOptions) (v : View) : Reader × Answer := (rd, answer rd opts o v)

/-- a sequence of calls on one reader, answers in call order -/
def session (opts : ExtractOptions) (o : MdOptions) : Reader → List View → List Answer
  | _, [] => []
  | rd, v :: rest => (call rd opts o v).2 :: session opts o (call rd opts o v).1 rest

/-- **docx_views_history_independent**. Whatever views were asked for before, in whatever
order and how often, the k-th call answers what that view answers on a fresh reader. -/
theorem docx_views_history_independent (rd : Reader) (opts : ExtractOptions) (o : MdOptions) (calls : List View) :
    session opts o rd calls = calls.map (answer rd opts o) := by
  induction calls with
  | nil => rfl
  | cons v rest ih => simp [session, call, ih]

end Tabula.C16Render
