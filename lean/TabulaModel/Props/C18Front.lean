import TabulaModel.Props.C18Api
import TabulaModel.Lemmas.PackageSort
/-!
# C18 — the statement of the property over the front door

The end-to-end form of C18 over the model of `tabula.Open(f).PageCount()/Text()/
Document()` (`Model/PackageApi.lean`), composed from `Props/C18.lean` (part list) and
`Props/C18Api.lean` (reader API):

* `front_xlsx` / `front_pptx` / `front_epub` — count, text and pages as EQUATIONS in the
  declaration (so also: the front door fails exactly when no declared part is readable);
* `front_archive_perm_invariant` — nothing observable depends on the ZIP member order;
* `front_decoys_ignored` — nothing observable depends on members the declaration does
  not lead to;
* `names_irrelevant_*` — nothing observable depends on the member NAMES: two packages
  whose declarations resolve, entry by entry, to the same contents are read alike
  (whatever the parts are called, wherever they are stored).
-/
namespace Tabula.C18Front
open Tabula.Package Tabula.PackageApi Tabula.C18 Tabula.C18Api

/-! ## the three front doors as equations in the declaration -/

/-- **front_xlsx** — for every archive, parse table and per-member parse result: with
`parts` = the declared sheets in workbook order, each resolved (r:id → target → normalised
name) and looked up, unreadable ones dropped:
`PageCount()` = `|parts|`; `Text()` = the cell texts of `parts` in that order, blank-line
separated; `Document().Pages` = one page per part, numbered by declared position, built
from that part's grid; all three fail together, exactly when `parts` is empty. -/
theorem front_xlsx (a : Archive) (x : Docs) (grid : Nat → Grid) (o : FrontOpts)
    (rels sheets : List (Str × Str)) (h : xlsxDeclared (lookup a) x = some (rels, sheets)) :
    let parts := sheets.zipIdx.filterMap (xlsxSpecPart a x rels)
    frontCountXlsx a x grid = (if parts = [] then none else some parts.length) ∧
    frontTextXlsx a x grid o =
      (if parts = [] then none else some (joinWith sNL2 (parts.map fun p => sheetBody [9] (grid p.2.1)))) ∧
    frontDocXlsx a x grid =
      (if parts = [] then none else some (parts.map fun p => ⟨p.1 + 1, p.2.1, grid p.2.1⟩)) := by
  intro parts
  have hr := xlsx_reader_follows_declaration a x grid rels sheets h
  simp only at hr
  unfold frontCountXlsx frontTextXlsx frontDocXlsx
  rw [hr]
  by_cases hp : sheets.zipIdx.filterMap (xlsxSpecPart a x rels) = []
  · simp [parts, hp]
  · simp only [parts, hp, if_false, Option.map_some, List.length_map, xlsxText, selectParts, if_true,
      List.map_map, xlsxDocument, true_and]
    exact ⟨rfl, rfl⟩

/-- **front_pptx** — the same for a presentation that declares its slides: `parts` = the
`sldIdLst` entries in list order, each resolved (r:id → target joined to `ppt/`) and looked
up, with the notes part its OWN relationship part leads to. -/
theorem front_pptx (a : Archive) (x : Docs) (body : Nat → SlideBody) (nt : Nat → Str) (o : FrontOpts)
    (declared : List Str) (h : pptxDeclared (lookup a) x = some declared) (hne : declared ≠ []) :
    let parts := declared.zipIdx.filterMap (pptxSpecPartN a x)
    frontCountPptx a x body nt = (if parts = [] then none else some parts.length) ∧
    frontTextPptx a x body nt o =
      (if parts = [] then none
       else some (joinWith sNL2 (parts.map fun p => slideText (frontPOpts o) (mkSlide body nt p)))) ∧
    frontDocPptx a x body nt =
      (if parts = [] then none else some (parts.map fun p => ⟨p.1 + 1, p.2.1, body p.2.1⟩)) := by
  intro parts
  have hr := pptx_reader_follows_declaration a x body nt declared h hne
  simp only at hr
  unfold frontCountPptx frontTextPptx frontDocPptx
  rw [hr]
  by_cases hp : declared.zipIdx.filterMap (pptxSpecPartN a x) = []
  · simp [parts, hp]
  · simp only [parts, hp, if_false, Option.map_some, List.length_map, pptxText, selectParts, if_true,
      List.map_map, pptxDocument, true_and]
    exact ⟨rfl, rfl⟩

/-- **front_epub** — `parts` = the spine in its own order, later repetitions of an already
listed resource removed (`spineFirsts`: restated after c53b79e, before it was the whole
spine; for a spine without repeated resources it still is, `spineFirsts_of_unrepeated`), each
idref resolved (manifest href → percent-decoded → joined to the package document's
directory) and looked up. -/
theorem front_epub (hv : HtmlViews) (a : Archive) (x : Docs) (o : FrontOpts) (base : Str)
    (manifest : List (Str × Str)) (spine : List Str)
    (h : epubDeclared (lookup a) x = some (base, manifest, spine)) :
    let parts := (spineFirsts base manifest spine).filterMap (epubSpecPart a base manifest)
    frontCountEpub a x = (if parts = [] then none else some parts.length) ∧
    frontTextEpub hv a x o =
      (if parts = [] then none
       else some (joinWith sNL2 ((parts.map mkChapter).filterMap (chapterSegment hv 0)))) ∧
    frontDocEpub hv a x =
      (if parts = [] then none else some (epubDocument hv (parts.map mkChapter))) := by
  intro parts
  have hr := epub_reader_follows_declaration a x base manifest spine h
  simp only at hr
  unfold frontCountEpub frontTextEpub frontDocEpub
  rw [hr]
  by_cases hp : (spineFirsts base manifest spine).filterMap (epubSpecPart a base manifest) = []
  · simp [parts, hp]
  · simp only [parts, hp, if_false, Option.map_some, List.length_map, epubText, keepTexts_eq_filterMap, true_and]
    exact ⟨rfl, trivial⟩

/-! ## never in archive order -/

/-- **front_archive_perm_invariant** — count, text and pages of all three front doors are
the same for EVERY permutation of the ZIP member list (member names distinct; PPTX: the
presentation declares its slides). -/
theorem front_archive_perm_invariant (a a' : Archive) (x : Docs)
    (hn : (a.map Prod.fst).Nodup) (hp : a.Perm a') :
    (∀ grid o, frontCountXlsx a x grid = frontCountXlsx a' x grid ∧
      frontTextXlsx a x grid o = frontTextXlsx a' x grid o ∧ frontDocXlsx a x grid = frontDocXlsx a' x grid) ∧
    (pptxDeclared (lookup a) x ≠ some [] → ∀ body nt o,
      frontCountPptx a x body nt = frontCountPptx a' x body nt ∧
      frontTextPptx a x body nt o = frontTextPptx a' x body nt o ∧
      frontDocPptx a x body nt = frontDocPptx a' x body nt) ∧
    (∀ hv o, frontCountEpub a x = frontCountEpub a' x ∧
      frontTextEpub hv a x o = frontTextEpub hv a' x o ∧ frontDocEpub hv a x = frontDocEpub hv a' x) := by
  obtain ⟨hx, he, _⟩ := archive_perm_invariant a a' x hn hp
  refine ⟨?_, ?_, ?_⟩
  · intro grid o
    unfold frontCountXlsx frontTextXlsx frontDocXlsx xlsxReader
    rw [hx]
    exact ⟨rfl, rfl, rfl⟩
  · intro hd body nt o
    have hN := archive_perm_invariant_notes a a' x hn hp hd
    unfold frontCountPptx frontTextPptx frontDocPptx pptxReader
    rw [hN]
    exact ⟨rfl, rfl, rfl⟩
  · intro hv o
    unfold frontCountEpub frontTextEpub frontDocEpub epubReader
    rw [he]
    exact ⟨rfl, rfl, rfl⟩

/-! ## never an undeclared part -/

/-- **front_decoys_ignored** — members under names the declaration does not lead to
(left-over sheets / slides with their relationship parts and notes, unlisted or
non-spine content documents, NCX, nav, CSS …) change nothing observable. -/
theorem front_decoys_ignored (a extra : Archive) (x : Docs) :
    ((∀ m ∈ extra, m.1 ∉ xlsxConsulted (lookup a) x) → ∀ grid o,
      frontCountXlsx (a ++ extra) x grid = frontCountXlsx a x grid ∧
      frontTextXlsx (a ++ extra) x grid o = frontTextXlsx a x grid o ∧
      frontDocXlsx (a ++ extra) x grid = frontDocXlsx a x grid) ∧
    (pptxDeclared (lookup a) x ≠ some [] → (∀ m ∈ extra, m.1 ∉ pptxConsultedN (lookup a) x) → ∀ body nt o,
      frontCountPptx (a ++ extra) x body nt = frontCountPptx a x body nt ∧
      frontTextPptx (a ++ extra) x body nt o = frontTextPptx a x body nt o ∧
      frontDocPptx (a ++ extra) x body nt = frontDocPptx a x body nt) ∧
    ((∀ m ∈ extra, m.1 ∉ epubConsulted (lookup a) x) → ∀ hv o,
      frontCountEpub (a ++ extra) x = frontCountEpub a x ∧
      frontTextEpub hv (a ++ extra) x o = frontTextEpub hv a x o ∧
      frontDocEpub hv (a ++ extra) x = frontDocEpub hv a x) := by
  refine ⟨?_, ?_, ?_⟩
  · intro h grid o
    have := decoys_ignored_xlsx a extra x h
    unfold frontCountXlsx frontTextXlsx frontDocXlsx xlsxReader
    rw [this]
    exact ⟨rfl, rfl, rfl⟩
  · intro hd h body nt o
    have := decoys_ignored_pptx_notes a extra x hd h
    unfold frontCountPptx frontTextPptx frontDocPptx pptxReader
    rw [this]
    exact ⟨rfl, rfl, rfl⟩
  · intro h hv o
    have := decoys_ignored_epub a extra x h
    unfold frontCountEpub frontTextEpub frontDocEpub epubReader
    rw [this]
    exact ⟨rfl, rfl, rfl⟩

/-! ## never in file-name order: member names are irrelevant -/

/-- **names_irrelevant_xlsx** — two workbooks (any member names, any r:ids, any targets, any
ZIP order) whose sheet lists have the same sheet names and whose `i`-th entries resolve
to the same content are read as the same sheet list: where a part is stored and what it
is called has no influence beyond what the declaration resolves to. -/
theorem names_irrelevant_xlsx (a a' : Archive) (x : Docs) (rels rels' sheets sheets' : List (Str × Str))
    (hl : sheets.length = sheets'.length)
    (h : ∀ (k : Nat) (s s' : Str × Str), sheets[k]? = some s → sheets'[k]? = some s' →
      s.1 = s'.1 ∧ xlsxRead (lookup a) (xlsxTarget rels k s.2) = xlsxRead (lookup a') (xlsxTarget rels' k s'.2)) :
    xlsxLoop (lookup a) x rels 0 sheets = xlsxLoop (lookup a') x rels' 0 sheets' := by
  unfold xlsxLoop
  apply loopIdx_pointwise _ _ _ _ 0 hl
  intro k s s' hs hs'
  obtain ⟨h1, h2⟩ := h k s s' hs hs'
  simp only [Nat.zero_add, xlsxPart, h1, h2]

/-- **names_irrelevant_pptx** — two decks whose slide path lists resolve, position by
position, to the same contents (slide part, its relationship part's notes) present the
same slides with the same notes: neither the file name of a slide part (its number
included) nor its directory matters. -/
theorem names_irrelevant_pptx (a a' : Archive) (x : Docs) (paths paths' : List Str)
    (hl : paths.length = paths'.length)
    (h : ∀ (k : Nat) (p p' : Str), paths[k]? = some p → paths'[k]? = some p' →
      lookup a p = lookup a' p' ∧ slideNotes (lookup a) x p = slideNotes (lookup a') x p') :
    loopIdx (pptxPartN (lookup a) x) 0 paths = loopIdx (pptxPartN (lookup a') x) 0 paths' := by
  apply loopIdx_pointwise _ _ _ _ 0 hl
  intro k p p' hp hp'
  obtain ⟨h1, h2⟩ := h k p p' hp hp'
  simp only [Nat.zero_add, pptxPartN, pptxPart, h1, h2]

/-- **names_irrelevant_epub** — two publications whose spines resolve, position by position,
to the same member name and content present the same chapters (a chapter records its
resolved href and manifest id, so those are part of what is compared); the set of
resources already loaded evolves identically in both. -/
theorem names_irrelevant_epub (a a' : Archive) (base base' : Str) (manifest manifest' : List (Str × Str))
    (spine spine' : List Str) (hl : spine.length = spine'.length)
    (h : ∀ (k : Nat) (r r' : Str), spine[k]? = some r → spine'[k]? = some r' →
      r = r' ∧ chapterPath base manifest r = chapterPath base' manifest' r' ∧
      ∀ p, chapterPath base manifest r = some p → lookup a p = lookup a' p) :
    epubLoop (lookup a) base manifest 0 spine = epubLoop (lookup a') base' manifest' 0 spine' := by
  unfold epubLoop
  exact epubLoopS_pointwise (lookup a) (lookup a') base base' manifest manifest' [] 0 spine spine' hl h

/-- non-vacuity of `names_irrelevant_pptx`: `ppt/slides/slide2.xml` in one deck, `deck/z.xml`
in the other, same content, neither has a relationship part -/
example :
    loopIdx (pptxPartN (lookup [([112, 112, 116, 47, 115, 108, 105, 100, 101, 115, 47, 115, 108, 105, 100, 101, 50, 46, 120, 109, 108], 12)])
      (fun c => if c = 12 then .slide else .opaque)) 0 [[112, 112, 116, 47, 115, 108, 105, 100, 101, 115, 47, 115, 108, 105, 100, 101, 50, 46, 120, 109, 108]]
    = loopIdx (pptxPartN (lookup [([100, 101, 99, 107, 47, 122, 46, 120, 109, 108], 12)])
      (fun c => if c = 12 then .slide else .opaque)) 0 [[100, 101, 99, 107, 47, 122, 46, 120, 109, 108]] := by decide

/-- non-vacuity of `names_irrelevant_xlsx`: `sheet2.xml` under r:id `rB` and
`data/zz.xml` under r:id `r9` with the same content -/
example :
    xlsxLoop (lookup [([120, 108, 47, 119, 115, 47, 115, 50, 46, 120, 109, 108], 12)]) (fun c => if c = 12 then .sheet else .opaque)
      [([114, 66], [119, 115, 47, 115, 50, 46, 120, 109, 108])] 0 [([84], [114, 66])]
    = xlsxLoop (lookup [([120, 108, 47, 100, 47, 122, 46, 120, 109, 108], 12)]) (fun c => if c = 12 then .sheet else .opaque)
      [([114, 57], [100, 47, 122, 46, 120, 109, 108])] 0 [([84], [114, 57])] := by decide

/-! ## what a declared reference denotes (resolution composed with lookup) -/

/-- EPUB: a spine entry whose manifest href is the percent-encoding (any of the two
encoders of `Lemmas/Package.lean`: everything but unreserved, or path-style with `/`, `+`
and the other sub-delimiters literal) of the relative path `rel` presents the member
`path.Join(package directory, rel)` — `+`, space, `%`, non-ASCII and dot segments included. -/
theorem epub_encoded_href_denotes_member (a : Archive) (base : Str) (manifest : List (Str × Str))
    (idref rel : Str) (i c : Nat) (hb : ∀ b ∈ rel, b < 256)
    (hm : mapLast? manifest idref = some (pctEncode rel) ∨ mapLast? manifest idref = some (pctEncodePath rel))
    (hl : lookup a (join2 base rel) = some c) :
    epubSpecPart a base manifest (idref, i) = some (i, c, join2 base rel, idref) := by
  unfold epubSpecPart chapterPath
  rcases hm with hm | hm
  · rw [hm]
    simp only [Option.map_some, href_resolution base rel hb, Option.bind_some, hl]
  · rw [hm]
    simp only [Option.map_some, href_resolution_literal_plus base rel hb, Option.bind_some, hl]

/-- non-vacuity: `c%2B1` and `c+1` both spell `c+1`; in `exEArchive` the manifest item `i2`
(`ch/c+1.xhtml`, path-style encoding of itself) denotes member 12 -/
example : pctEncode [99, 43, 49] = [99, 37, 50, 66, 49] ∧ pctEncodePath [99, 43, 49] = [99, 43, 49] := by decide
example :
    let rel : Str := [99, 104, 47, 99, 43, 49, 46, 120, 104, 116, 109, 108]
    let manifest : List (Str × Str) := [([105, 49], [99, 49]), ([105, 50], rel), ([105, 51], [99, 50])]
    (∀ b ∈ rel, b < 256) ∧ mapLast? manifest [105, 50] = some (pctEncodePath rel) ∧
      lookup exEArchive (join2 [79, 69, 66, 80, 83] rel) = some 12 := by decide
example : mapLast [([114], [115])] [114] ≠ [] := by decide

/-- PPTX: a `sldId` whose relationship target is relative denotes `path.Join("ppt", target)`;
a target starting with `/` denotes the cleaned path from the package root -/
theorem pptx_target_denotes (rels : List (Str × Str)) (rid : Str) (h : mapLast rels rid ≠ []) :
    slidePath rels rid =
      some (if hasPrefix [47] (mapLast rels rid) then (clean (mapLast rels rid)).drop 1
            else join2 sPpt (mapLast rels rid)) := by
  unfold slidePath
  simp only [h, if_false]
  split <;> rfl

/-- XLSX: the name asked for first is the relationship target (default
`worksheets/sheet<i+1>.xml` when the r:id has none) made relative to the package root:
`xl/` is prepended unless the target starts with `xl/` or `/`, and a leading `/` is dropped -/
theorem xlsx_target_denotes (rels : List (Str × Str)) (i : Nat) (rid : Str) :
    xlsxTarget rels i rid =
      (let t := if mapLast rels rid = [] then sSheetPre ++ dec (i + 1) ++ sXml else mapLast rels rid
       if hasPrefix [47] t then t.drop 1 else if hasPrefix sXl t then t else sXl ++ t) := by
  unfold xlsxTarget trimPrefix
  simp only
  generalize (if mapLast rels rid = [] then sSheetPre ++ dec (i + 1) ++ sXml else mapLast rels rid) = t
  by_cases h1 : hasPrefix [47] t = true
  · simp [h1]
  · by_cases h2 : hasPrefix sXl t = true
    · simp [h1, h2]
    · have h3 : hasPrefix [47] (sXl ++ t) = false := by
        simp [hasPrefix, sXl, List.isPrefixOf]
      simp [h1, h2, h3]

/-- `worksheets/sheet2.xml ↦ xl/worksheets/sheet2.xml`, `/xl/ws/s.xml ↦ xl/ws/s.xml`,
no target at position 4 `↦ xl/worksheets/sheet5.xml` -/
example : xlsxTarget [([114], [119, 47, 115])] 0 [114] = [120, 108, 47, 119, 47, 115] := by decide
example : xlsxTarget [([114], [47, 120, 108, 47, 115])] 0 [114] = [120, 108, 47, 115] := by decide
example : xlsxTarget [] 4 [114] = sXl ++ sSheetPre ++ [53] ++ sXml := by decide

/-! ## the file-name fallback (nothing declared) -/

/-- when the presentation declares nothing usable the slide paths are the conventional
part names `ppt/slides/slide*.xml` (no `_rels`), each exactly once, ascending by the number
in the name -/
theorem fallback_paths_sorted_candidates (names : List Str) :
    (fallbackSlidePaths names).Perm (fallbackCandidates names) ∧
      (fallbackSlidePaths names).Pairwise (fun p q => extractSlideNumber p ≤ extractSlideNumber q) :=
  ⟨sortByNumber_perm _, sortByNumber_sorted _⟩

/-- **archive_perm_invariant_fallback** — `archive_perm_invariant` without the hypothesis
that the presentation declares its slides: when the candidate part names carry pairwise
distinct numbers, the fallback too is independent of the ZIP member order (slide list
and notes). (With equal numbers — `slide1.xml`, `slide01.xml` — the tie is broken by
archive position: `pptx_fallback_tie_counterexample`.) -/
theorem archive_perm_invariant_fallback (a a' : Archive) (x : Docs)
    (hn : (a.map Prod.fst).Nodup) (hp : a.Perm a')
    (hnum : ∀ p ∈ fallbackCandidates (a.map Prod.fst), ∀ q ∈ fallbackCandidates (a.map Prod.fst),
      extractSlideNumber p = extractSlideNumber q → p = q) :
    pptxOpen a x = pptxOpen a' x ∧ pptxOpenN a x = pptxOpenN a' x := by
  have hl := lookup_perm_fun hn hp
  have hf := fallback_perm_invariant (a.map Prod.fst) (a'.map Prod.fst) (hp.map Prod.fst) hnum
  unfold pptxOpen pptxOpenL pptxOpenN pptxOpenNL
  rw [← hl, ← hf]
  exact ⟨rfl, rfl⟩

/-- two left-over parts whose names scan to the same number (`slide1.xml`, `slide01.xml`):
the fallback presents them in archive order, so swapping the two members swaps the slides -/
theorem pptx_fallback_tie_counterexample :
    let s1 : Str := [112, 112, 116, 47, 115, 108, 105, 100, 101, 115, 47, 115, 108, 105, 100, 101, 49, 46, 120, 109, 108]
    let s01 : Str := [112, 112, 116, 47, 115, 108, 105, 100, 101, 115, 47, 115, 108, 105, 100, 101, 48, 49, 46, 120, 109, 108]
    let x : Docs := fun c => if c = 2 then .presentation none else if c = 11 ∨ c = 12 then .slide else .opaque
    pptxOpen [(sCT, 1), (sPres, 2), (s1, 11), (s01, 12)] x = some [(0, 11), (1, 12)] ∧
    pptxOpen [(sCT, 1), (sPres, 2), (s01, 12), (s1, 11)] x = some [(0, 12), (1, 11)] := by decide

/-- the hypothesis of `archive_perm_invariant_fallback` is satisfiable: `exArchive`'s
candidates slide1, slide9, slide2 have distinct numbers -/
example : ∀ p ∈ fallbackCandidates (exArchive.map Prod.fst), ∀ q ∈ fallbackCandidates (exArchive.map Prod.fst),
    extractSlideNumber p = extractSlideNumber q → p = q := by decide

end Tabula.C18Front
