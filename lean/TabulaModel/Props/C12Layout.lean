import TabulaModel.Lemmas.ChunkLayoutSections
import TabulaModel.Lemmas.ChunkAtomic
/-!
# C12, layout-based chunker (`rag.NewChunker().Chunk`): the clauses of the property, all inputs

`Props/C12.lean` proves the cover of the layout-based chunker under two hypotheses (the sentence
splitter conserves text; no list exceeds `MaxChunkSize`) and leaves indices, ids, total, page
range and section path to the correspondence. Here

* `splitIntoSentences` is part of the model (`Model/ChunkSent.lean`, `chunkS`), so the first
  hypothesis is a theorem (`sentences_conserve`);
* the second hypothesis is replaced by the description of what the code does when it fails
  (`emitOrder`: an introducing paragraph is emitted behind its over-long list), which is still
  "every element exactly once, each kind in document order" (`layout_emit_order`);
* indices, ids and total (`layout_indices_ids_total`), the section path
  (`layout_section_path`, against the declarative `openSpec`) and the page range
  (`layout_page_range_partial`: for pages numbered upwards) are proved for every document and
  configuration;
* `layout_chunker_property` chains them into the statement of the property for `Chunker.Chunk`.

What stays outside: a section-opening heading is never part of a chunk text (known finding,
`C12.layout_heading_counterexample`).
-/
namespace Tabula.C12Layout
open Tabula.Chunk Tabula.ChunkLayout Tabula.ChunkSent

/-- **`splitIntoSentences` conserves its text**, white space aside: for every text and every
classification of the non-ASCII characters (the Unicode table is the only parameter left). -/
theorem sentences_conserve (low : Str → Bool) (text : Str) :
    strip (splitIntoSentences low text).flatten = strip text :=
  splitIntoSentences_strip low text

/-- no sentence is empty -/
theorem sentences_nonempty (low : Str → Bool) (text : Str) : ∀ s ∈ splitIntoSentences low text, s ≠ [] :=
  sentScan_nonempty low text []

/-- an initial (`J.`: a single capital behind a blank) and an end followed by a lower-case
letter (`e.g`) are no sentence ends; an end without a following blank is one -/
example :
    splitIntoSentences (fun _ => false) (ofString "See e.g. J. Doe. It works!Yes") =
      [ofString "See e.g.", ofString "J. Doe.", ofString "It works!", ofString "Yes"] := by decide +kernel

/-- filling in the sentences changes no kind, text, page or introduction flag -/
theorem layout_sentences_transparent (low : Str → Bool) (cfg : Cfg) (d : LDoc) :
    (canon cfg (withSents low d)).map CE.core = (canon cfg d).map CE.core :=
  withSents_canon low cfg d

/-- **Cover, layout-based chunker, every document and configuration** (`Chunker.Chunk` with
`splitIntoSentences`, sections split by paragraphs and sentences, orphan merging, atomic list
blocks, the `chunkByParagraphs` fallback): the chunk texts concatenate, white space aside, to
the texts of the document's paragraphs, lists and non-section headings in the order `emitted`. -/
theorem layout_chunker_cover (low : Str → Bool) (cfg : Cfg) (title : Str) (d : LDoc) :
    strip (textsOf (chunkS low cfg title d)) = strip (ceTexts (emitted cfg (withSents low d))) :=
  chunk_cover_full cfg title (withSents low d)
    (fun e he => sentsOK_of_model low cfg e (withSents_model low cfg d e he))

/-- **The emission order** is the canonical order of the document (per page: non-section
headings, paragraphs, lists) up to exchanging an introducing paragraph with its over-long
list: every element exactly once (`Perm`), each kind in document order, and no exchange at
all when every list is within `MaxChunkSize`. -/
theorem layout_emit_order (cfg : Cfg) (d : LDoc) :
    (emitted cfg d).Perm (canon cfg d) ∧
    (∀ k, (emitted cfg d).filter (fun e => e.kind == k) = (canon cfg d).filter (fun e => e.kind == k)) ∧
    ((∀ e ∈ canon cfg d, ListFits cfg e) → emitted cfg d = canon cfg d) :=
  ⟨emitted_perm cfg d, fun k => emitted_kind cfg k d, emitted_of_listFits cfg d⟩

/-- the full cover statement of `C12.layout_chunker_cover_partial` without the hypothesis on the
sentence splitter: when no list exceeds the maximum, the chunk texts are the document's content
in canonical order -/
theorem layout_chunker_cover_lists_fit (low : Str → Bool) (cfg : Cfg) (title : Str) (d : LDoc)
    (h : ∀ e ∈ canon cfg d, ListFits cfg e) :
    strip (textsOf (chunkS low cfg title d)) = strip (ceTexts (canon cfg d)) := by
  rw [layout_chunker_cover, emitted_of_listFits, withSents_texts]
  -- `ListFits` reads kind and text only
  have hc := withSents_canon low cfg d
  intro e he
  have : CE.core e ∈ (canon cfg d).map CE.core := by
    rw [← hc]; exact List.mem_map.mpr ⟨e, he, rfl⟩
  obtain ⟨e0, he0, hcore⟩ := List.mem_map.mp this
  have hk : e0.kind = e.kind := congrArg (·.1) hcore
  have ht : e0.text = e.text := congrArg (·.2.1) hcore
  have := h e0 he0
  unfold ListFits at *
  rw [← hk, ← ht]; exact this

/-- the hypothesis is satisfiable, and the reordering it excludes is real (max 8): paragraph
"a:" introduces a list longer than the maximum; the list's sentence chunk comes out first -/
example :
    let cfg : Cfg := ⟨8, 0, 3, true, [99]⟩
    let d : LDoc := [⟨1, some ⟨[], [⟨[97, 58], true, []⟩], [⟨[(0, [98, 99, 100, 101, 102, 103, 104])], []⟩]⟩⟩]
    (chunkS (fun _ => false) cfg [] d).map (·.text) = [[45, 32, 98, 99, 100, 101, 102, 103, 104], [97, 58]] ∧
    (emitted cfg d).map (·.text) = [[45, 32, 98, 99, 100, 101, 102, 103, 104], [97, 58]] ∧
    (canon cfg d).map (·.text) = [[97, 58], [45, 32, 98, 99, 100, 101, 102, 103, 104]] := by decide +kernel

/-- **Indices, ids, total** for `Chunker.Chunk`: indices are `0..n-1` in order, the ids
`<IDPrefix>_<index>` are pairwise distinct, every chunk reports `n` — for every document,
configuration and sentence parameter (sentence chunks, merged orphans and atomic blocks included). -/
theorem layout_indices_ids_total (cfg : Cfg) (title : Str) (d : LDoc) :
    (chunk cfg title d).map (·.idx) = List.range (chunk cfg title d).length ∧
    ((chunk cfg title d).map (·.id)).Nodup ∧
    ∀ c ∈ chunk cfg title d, c.total = (chunk cfg title d).length := by
  obtain ⟨hseq, hid⟩ := chunkRaw_seq cfg title d
  have hidx : (chunk cfg title d).map (·.idx) = List.range (chunk cfg title d).length := by
    rw [chunk_eq_raw, setTotal_idx, setTotal_length, List.range_eq_range']
    exact hseq
  refine ⟨hidx, ?_, ?_⟩
  · have hids : (chunk cfg title d).map (·.id) = ((chunk cfg title d).map (·.idx)).map (layoutId cfg) := by
      rw [chunk_eq_raw, setTotal_id, setTotal_idx, List.map_map]
      apply List.map_congr_left
      intro c hc
      exact hid c hc
    rw [hids, hidx, List.nodup_iff_pairwise_ne, List.pairwise_map]
    have := @List.nodup_range (chunk cfg title d).length
    rw [List.nodup_iff_pairwise_ne] at this
    exact this.imp (fun hne he => hne (layoutId_injective cfg he))
  · intro c hc
    rw [chunk_eq_raw] at hc ⊢
    rw [setTotal_length]
    simp only [setTotal, List.mem_map] at hc
    obtain ⟨c0, _, e⟩ := hc
    rw [← e]

/-- **Section path.** `buildSections` puts every content element into a section whose `Path` is
the chain of section-opening headings enclosing it: `labelled` walks the document in canonical
order, remembers every section-opening heading passed so far and labels each element with
`chain` of that history — the headings all of whose successors are strictly deeper
(`C12.open_iff`), any level sequence, skipped levels included. The labelled elements are
exactly the document's content (`labelled_content`). -/
theorem layout_section_path (cfg : Cfg) (d : LDoc) :
    labelsOf (flatForest (buildSections cfg d)) = labelled cfg d :=
  buildSections_labels cfg d

theorem labelled_content (cfg : Cfg) (d : LDoc) : (labelled cfg d).map (·.1) = canon cfg d :=
  labelled_fst cfg d

/-- what `chain` means (it is `openSpec` of the element-based chunker's specification) -/
theorem chain_iff (hist : List H) (t : Str) :
    t ∈ chain hist ↔ ∃ l pre post, hist = pre ++ (l, t) :: post ∧ ∀ r ∈ post, l < r.1 := by
  unfold chain
  constructor
  · intro h
    obtain ⟨⟨l, t'⟩, hm, e⟩ := List.mem_map.mp h
    simp only at e; subst e
    obtain ⟨pre, post, e1, e2⟩ := (mem_openSpec hist (l, t')).mp hm
    exact ⟨l, pre, post, e1, e2⟩
  · rintro ⟨l, pre, post, e1, e2⟩
    exact List.mem_map.mpr ⟨(l, t), (mem_openSpec hist (l, t)).mpr ⟨pre, post, e1, e2⟩, rfl⟩

/-- H1 A, (minor H4 m), para x | H3 C, para y | H2 B, para z (MinHeadingLevel 3): y lies under
[A, C], z under [A, B] -/
example :
    let cfg : Cfg := ⟨2000, 100, 3, true, [99]⟩
    let d : LDoc := [⟨1, some ⟨[⟨1, [65], []⟩, ⟨4, [109], []⟩], [⟨[120], false, []⟩], []⟩⟩,
                     ⟨2, some ⟨[⟨3, [67], []⟩], [⟨[121], false, []⟩], []⟩⟩,
                     ⟨3, some ⟨[⟨2, [66], []⟩], [⟨[122], false, []⟩], []⟩⟩]
    (labelled cfg d).map (fun x => (x.1.text, x.2)) =
      [([109], [[65]]), ([120], [[65]]), ([121], [[65], [67]]), ([122], [[65], [66]])] := by decide +kernel

/- Full statement (not true of the code, see `layout_page_range_counterexample`):
     ∀ cfg d, ∀ x ∈ flatForest (buildSections cfg d), SecPagesOK (d.map (·.number)) x
   `PageEnd` is the page of the element added last and `PageStart` the page of the heading, so the
   range encloses the content only when page numbers never decrease; 0 is the "unset" mark of the
   preamble's start page, so numbers start at 1. Extraction and `Document.AddPage` number pages
   that way (`C12Api.addPages_ascending`). -/

/-- **Page range.** For pages numbered from 1 upwards in non-decreasing order (`AscFrom`), every
section's `PageStart` and `PageEnd` are numbers of pages of the document, `PageStart <= PageEnd`,
and the page of every element of the section's content lies between them. (A section's range
starts on the page of its heading, which is not part of the chunk text — the range covers the
pages the content came from, it need not be the smallest such range.) -/
theorem layout_page_range_partial (cfg : Cfg) (d : LDoc) (b : Int) (hasc : AscFrom b d) :
    ∀ x ∈ flatForest (buildSections cfg d), SecPagesOK (d.map (·.number)) x :=
  buildSections_pages cfg d b hasc

/-- `AscFrom` is satisfiable by a page selection (pages 2, 2, 5) -/
example : AscFrom 1 [⟨2, none⟩, ⟨2, none⟩, ⟨5, none⟩] :=
  ⟨by decide, by decide, by decide, by decide, by decide, by decide, trivial⟩

/-- without the order on the page numbers the range need not cover the content: H1 on page 3,
a paragraph on page 3, another on page 1 — the section reports 3-1 -/
theorem layout_page_range_counterexample :
    let cfg : Cfg := ⟨2000, 100, 3, true, [99]⟩
    let d : LDoc := [⟨3, some ⟨[⟨1, [65], []⟩], [⟨[120], false, []⟩], []⟩⟩, ⟨1, some ⟨[], [⟨[121], false, []⟩], []⟩⟩]
    (chunk cfg [] d).map (fun c => (c.pageStart, c.pageEnd)) = [(3, 1)] := by decide +kernel

theorem ascFrom_withSents (low : Str → Bool) (b : Int) (d : LDoc) (h : AscFrom b d) :
    AscFrom b (withSents low d) := by
  induction d generalizing b with
  | nil => trivial
  | cons pg pgs ih =>
    obtain ⟨h1, h2, h3⟩ := h
    exact ⟨h1, h2, ih _ h3⟩

theorem numbers_withSents (low : Str → Bool) (d : LDoc) :
    (withSents low d).map (·.number) = d.map (·.number) := by
  simp [withSents, List.map_map, Function.comp_def]

/-! ### atomic blocks, as the code finds and looks them up -/

open Tabula.ChunkAtomic in
/-- **`FindAtomicBlocks` / `GetAtomicBlockAt` refine the list recursion.** `Chunker.Chunk`
modelled with the atomic blocks computed up front by `FindAtomicBlocks`, looked up by
`GetAtomicBlockAt` and an index-driven main loop (`chunkAt`, the shape of the Go code) is the
`chunk` all the theorems above speak about — for every document and configuration. -/
theorem atomic_blocks_refine (cfg : Cfg) (title : Str) (d : LDoc) : chunkAt cfg title d = chunk cfg title d :=
  chunkAt_eq cfg title d

open Tabula.ChunkAtomic in
/-- every atomic block of a section lies inside the content and is one element (a list) or two
(a list and the paragraph before it); without `KeepListsIntact` there is none -/
theorem atomic_blocks_shape (keep : Bool) (content : List CE) :
    (∀ b ∈ findAtomicBlocks keep content, b.1 ≤ b.2 ∧ b.2 ≤ b.1 + 1 ∧ b.2 < content.length) ∧
    findAtomicBlocks false content = [] := by
  refine ⟨fun b hb => ?_, ?_⟩
  · obtain ⟨h1, h2⟩ := findFrom_shape keep none 0 content b hb
    obtain ⟨_, h3, _⟩ := findFrom_bounds keep none 0 content b hb
    exact ⟨h1, h2, by omega⟩
  · unfold findAtomicBlocks
    generalize (none : Option CE) = prev
    generalize 0 = j
    induction content generalizing prev j with
    | nil => rfl
    | cons e es ih => simp only [findFrom, Bool.false_and, Bool.false_eq_true, if_false]; exact ih _ _

open Tabula.ChunkAtomic in
/-- paragraph, introducing paragraph, list, list: the blocks [1,2] and [3,3] -/
example :
    findAtomicBlocks true [⟨.para, [120], 1, false, []⟩, ⟨.para, [121, 58], 1, true, []⟩,
      ⟨.list, [45, 32, 97], 1, false, []⟩, ⟨.list, [45, 32, 98], 1, false, []⟩] = [(1, 2), (3, 3)] := by decide

/-- **The property for `Chunker.Chunk`, end to end** (`chunkS` = `Chunk` with
`splitIntoSentences`; `d` any document whose pages are numbered upwards; any configuration):

1. the chunks are the groups of the sections (pre-order of the section tree, subsections
   included), with the total stamped on; when no section yields a chunk the document has no
   content, white space aside, and `chunkByParagraphs` takes over;
2. every chunk of a section's group carries the section's `Path`, `PageStart`, `PageEnd`, and the
   group's texts are, white space aside, the section's content in emission order;
3. the sections hold every content element exactly once in canonical order, each under the
   chain of section-opening headings enclosing it;
4. every section's page range lies on pages of the document and covers the pages of its content;
5. the concatenated chunk texts are the content in emission order, a permutation of the
   canonical order that keeps every kind in order;
6. indices are `0..n-1`, ids pairwise distinct, every chunk reports `n`. -/
theorem layout_chunker_property (low : Str → Bool) (cfg : Cfg) (title : Str) (d0 : LDoc) (hasc : AscFrom 1 d0) :
    let d := withSents low d0
    let secs := flatForest (buildSections cfg d)
    let forest := chunkForest cfg (buildSections cfg d) 0
    (chunkS low cfg title d0 = setTotal (if forest.isEmpty then chunkByParagraphs cfg title d else forest) ∧
      forest = (secGroups cfg secs 0).flatten ∧ (forest = [] → strip (ceTexts (canon cfg d)) = [])) ∧
    GroupsOK cfg secs (secGroups cfg secs 0) ∧
    (labelsOf secs = labelled cfg d ∧ (labelled cfg d).map (·.1) = canon cfg d ∧
      (canon cfg d).map CE.core = (canon cfg d0).map CE.core) ∧
    (∀ x ∈ secs, SecPagesOK (d0.map (·.number)) x) ∧
    (strip (textsOf (chunkS low cfg title d0)) = strip (ceTexts (emitted cfg d)) ∧
      (emitted cfg d).Perm (canon cfg d) ∧
      ∀ k, (emitted cfg d).filter (fun e => e.kind == k) = (canon cfg d).filter (fun e => e.kind == k)) ∧
    ((chunkS low cfg title d0).map (·.idx) = List.range (chunkS low cfg title d0).length ∧
      ((chunkS low cfg title d0).map (·.id)).Nodup ∧
      ∀ c ∈ chunkS low cfg title d0, c.total = (chunkS low cfg title d0).length) := by
  have hs : ∀ e ∈ canon cfg (withSents low d0), SentsOK cfg e :=
    fun e he => sentsOK_of_model low cfg e (withSents_model low cfg d0 e he)
  refine ⟨⟨rfl, ?_, forest_empty_blank cfg _ hs⟩, ?_, ⟨buildSections_labels cfg _, labelled_fst cfg _,
    withSents_canon low cfg d0⟩, ?_, ⟨layout_chunker_cover low cfg title d0, emitted_perm cfg _,
    fun k => emitted_kind cfg k _⟩, layout_indices_ids_total cfg title _⟩
  · rw [chunkForest_flat, chunkFlat_groups]
  · apply secGroups_ok
    intro x hx e he
    apply hs
    rw [← buildSections_contents]
    exact List.mem_flatMap.mpr ⟨x, hx, he⟩
  · have := buildSections_pages cfg (withSents low d0) 1 (ascFrom_withSents low 1 d0 hasc)
    rw [numbers_withSents] at this
    exact this

end Tabula.C12Layout
