import TabulaModel.Props.C19Api
import TabulaModel.Lemmas.HtmlMd
/-!
# C19 — the Markdown view, and the element list with tables whole

`atoms` (Props/C19.lean) opens a table into its cells and forgets the kind of list an item was
met in — enough for the plain-text view.  The Markdown view shows both (the separator line of a
pipe table, `1.` against `-`), so this file re-proves the refinement and the monotonicity for the
finer specification `blocks` (Lemmas/HtmlBlocks.lean: same traversal, tables whole, item kinds
kept) and chains them into statements about `MarkdownWithOptions`, `Markdown()` and
`tabula.Extractor.ToMarkdown`.
-/
namespace Tabula.C19Md
open Tabula.Html Tabula.C19 Tabula.C19Api

/-- the stateful traversal refines `blocks`: its element list, with list elements opened into
their items (each with the kind of its own list) and everything else left whole, is exactly the
specification — a table is never split, merged, emptied or re-ordered by the list state machine -/
theorem traverse_refines_blocks (p : Pos → Dom → Bool) (body : Dom) :
    flattenB (extractWith p body) = blocksOf p body :=
  extract_blocks p body

/-- `blocks` only narrows under a stricter predicate, whole blocks at a time: a table or an item
is kept entirely or dropped entirely -/
theorem blocks_monotone (p q : Pos → Dom → Bool) (h : ∀ pos n, p pos n = true → q pos n = true)
    (w : Bool) (pos : Pos) (lc : LCB) (t : Dom) :
    (blocks q w pos lc t).Sublist (blocks p w pos lc t) :=
  blocks_mono p q h w t pos lc

example : ∀ pos n, excluded .standard pos n = true → excluded .aggressive pos n = true :=
  fun pos n => (mode_lattice pos n).2

/-- up to white space the Markdown view is the blocks one after the other, each in its Markdown
form (`#`s, list marker, pipe table, code fence, `>` lines) -/
theorem markdown_is_blocks (m : Int) (doc : Dom) :
    squeeze (markdownWithOptions m doc) =
      (blocksOf (excluded (clampMode m)) (bodyOf doc)).flatMap fun b => squeeze (b.md id) := by
  unfold markdownWithOptions
  rw [squeeze_renderMd, extractI_clamp]
  unfold extract
  rw [extract_blocks]
  rfl

/-- MONOTONE, END TO END, Markdown: for raw mode values `a`, `b` with `b` at least as strict as `a`,
what `MarkdownWithOptions` returns for `b` is (white space aside) a subsequence of what it returns
for `a` — whole headings, items, tables, code blocks and quotes are dropped, nothing is added. -/
theorem markdown_monotone (a b : Int) (h : (clampMode a).rank ≤ (clampMode b).rank) (doc : Dom) :
    (squeeze (markdownWithOptions b doc)).Sublist (squeeze (markdownWithOptions a doc)) := by
  rw [markdown_is_blocks, markdown_is_blocks]
  apply sublist_flatMap
  unfold blocksOf
  exact blocks_mono _ _ (fun pos n => excluded_mono_rank _ _ h pos n) _ _ _ _

theorem markdown_mode_chain (doc : Dom) :
    (squeeze (markdownWithOptions 3 doc)).Sublist (squeeze (markdownWithOptions 2 doc)) ∧
    (squeeze (markdownWithOptions 2 doc)).Sublist (squeeze (markdownWithOptions 1 doc)) ∧
    (squeeze (markdownWithOptions 1 doc)).Sublist (squeeze (markdownWithOptions 0 doc)) ∧
    (∀ m : Int, (squeeze (markdownWithOptions m doc)).Sublist (squeeze (markdownWithOptions 0 doc))) :=
  ⟨markdown_monotone 2 3 (by decide) doc, markdown_monotone 1 2 (by decide) doc,
   markdown_monotone 0 1 (by decide) doc,
   fun m => markdown_monotone 0 m (by simp [clampMode, Mode.rank]) doc⟩

/-- `tabula.FromHTMLString(…).ToMarkdown()` IS `MarkdownWithOptions` with mode None, exactly (not
only up to white space): the heading-level adjustment of the default RAG options is the identity
on the levels 1..6, and no heading element of a parsed document has another level. -/
theorem extractor_markdown_is_mode_none (doc : Dom) :
    extractorMarkdown doc = markdownWithOptions 0 doc := by
  unfold extractorMarkdown markdownWithOptions
  apply renderMd_congr
  intro l t hm
  have := extract_heading_levels _ _ l t hm
  unfold adjustDefault
  have h1 : ¬ l < 1 := by omega
  have h2 : ¬ l > 6 := by omega
  simp [h1, h2]

/-- the Document view at block level: monotone with tables whole (a table of the stricter mode is a
table of the weaker mode, with all its rows, spans and header flags) -/
theorem elements_monotone (a b : Int) (h : (clampMode a).rank ≤ (clampMode b).rank) (doc : Dom) :
    (flattenB (extractI b doc)).Sublist (flattenB (extractI a doc)) := by
  rw [extractI_clamp, extractI_clamp]
  unfold extract
  rw [extract_blocks, extract_blocks]
  unfold blocksOf
  exact blocks_mono _ _ (fun pos n => excluded_mono_rank _ _ h pos n) _ _ _ _

/-- the two specifications are one: `atoms` is `blocks` with every table opened into its cells and
the kind of list forgotten, for every tree, predicate, position and list context — so the
block-level statements of this file refine the cell-level ones of Props/C19.lean -/
theorem blocks_refine_atoms (p : Pos → Dom → Bool) (w : Bool) (pos : Pos) (lc : LCB) (t : Dom) :
    (blocks p w pos lc t).flatMap Block.atoms = atoms p w pos lc.toLC t :=
  blocks_atoms p w t pos lc

/-- EPUB Markdown: up to white space, the non-empty chapter views joined by `---` … -/
theorem epub_markdown_is_chapters (m : Int) (chapters : List Dom) :
    squeeze (epubMarkdown m chapters) =
      joinWith [45, 45, 45] ((chapters.map fun d => squeeze (markdownWithOptions m d)).filter (· != [])) := by
  unfold epubMarkdown
  rw [squeeze_joinWith_map, epubParts_map_squeeze]
  rfl

/-- … and monotone in the raw mode value like every other view: a chapter that becomes empty under the
stricter mode vanishes together with its separator -/
theorem epub_markdown_monotone (a b : Int) (h : (clampMode a).rank ≤ (clampMode b).rank) (chapters : List Dom) :
    (squeeze (epubMarkdown b chapters)).Sublist (squeeze (epubMarkdown a chapters)) := by
  rw [epub_markdown_is_chapters, epub_markdown_is_chapters]
  exact (joinWith_filter_sublist _ _ _ (fun d => markdown_monotone a b h d) chapters).1

end Tabula.C19Md
