import TabulaModel.Props.C19Api
import TabulaModel.Lemmas.HtmlMd
/-!
# C19 — the Markdown view, and the element list with tables whole

`atoms` (Props/C19.lean) opens a table into its cells and forgets the kind of list an item was
met in — enough for the plain-text view.  The Markdown view shows both (the separator line of a
pipe table, `1.` against `-`), so this file re-proves the refinement and the monotonicity for the
finer specification `blocks` (Lemmas/HtmlBlocks.lean: same traversal, tables whole, item kinds
kept) and chains them into statements about `MarkdownWithOptions`, `Markdown()` and
`tabula.Extractor.ToMarkdown`.

Depth limit (fix a65974f, see Props/C19Api.lean): the statements about the Markdown view of a reader
that exists are kept verbatim as `view_…`; the statements about the public calls including
`OpenReader` (`openMarkdown`, `extractorMarkdownE`) carry the hypothesis `depth doc ≤ maxTreeDepth`;
the EPUB statements range over the admitted chapters.
-/
namespace Tabula.C19Md
open Tabula.Html Tabula.C19 Tabula.C19Api

/-- the stateful traversal refines `blocks`: its element list, with list elements opened into
their items (each with the kind of its own list) and everything else left whole, is exactly the
specification — a table is never split, merged, emptied or re-ordered by the list state machine -/
theorem traverse_refines_blocks (p : Pos → Dom → Bool) (body : Dom) :
    flattenB (extractWith p body) = blocksOf p body :=
  extract_blocks p body

/-- `blocks` only narrows under a stricter predicate, whole blocks at a time: a table or an item
is kept entirely or dropped entirely -/
theorem blocks_monotone (p q : Pos → Dom → Bool) (h : ∀ pos n, p pos n = true → q pos n = true)
    (w : Bool) (pos : Pos) (lc : LCB) (t : Dom) :
    (blocks q w pos lc t).Sublist (blocks p w pos lc t) :=
  blocks_mono p q h w t pos lc

example : ∀ pos n, excluded .standard pos n = true → excluded .aggressive pos n = true :=
  fun pos n => (mode_lattice pos n).2

/-- up to white space the Markdown view is the blocks one after the other, each in its Markdown
form (`#`s, list marker, pipe table, code fence, `>` lines) -/
theorem view_markdown_is_blocks (m : Int) (doc : Dom) :
    squeeze (markdownWithOptions m doc) =
      (blocksOf (excluded (clampMode m)) (bodyOf doc)).flatMap fun b => squeeze (b.md id) := by
  unfold markdownWithOptions
  rw [squeeze_renderMd, extractI_clamp]
  unfold extract
  rw [extract_blocks]
  rfl

/-- MONOTONE, END TO END, Markdown: for raw mode values `a`, `b` with `b` at least as strict as `a`,
what `MarkdownWithOptions` returns for `b` is (white space aside) a subsequence of what it returns
for `a` — whole headings, items, tables, code blocks and quotes are dropped, nothing is added. -/
theorem view_markdown_monotone (a b : Int) (h : (clampMode a).rank ≤ (clampMode b).rank) (doc : Dom) :
    (squeeze (markdownWithOptions b doc)).Sublist (squeeze (markdownWithOptions a doc)) := by
  rw [view_markdown_is_blocks, view_markdown_is_blocks]
  apply sublist_flatMap
  unfold blocksOf
  exact blocks_mono _ _ (fun pos n => excluded_mono_rank _ _ h pos n) _ _ _ _

theorem view_markdown_mode_chain (doc : Dom) :
    (squeeze (markdownWithOptions 3 doc)).Sublist (squeeze (markdownWithOptions 2 doc)) ∧
    (squeeze (markdownWithOptions 2 doc)).Sublist (squeeze (markdownWithOptions 1 doc)) ∧
    (squeeze (markdownWithOptions 1 doc)).Sublist (squeeze (markdownWithOptions 0 doc)) ∧
    (∀ m : Int, (squeeze (markdownWithOptions m doc)).Sublist (squeeze (markdownWithOptions 0 doc))) :=
  ⟨view_markdown_monotone 2 3 (by decide) doc, view_markdown_monotone 1 2 (by decide) doc,
   view_markdown_monotone 0 1 (by decide) doc,
   fun m => view_markdown_monotone 0 m (by simp [clampMode, Mode.rank]) doc⟩

/-- RESTATED with the depth hypothesis (was: for every tree): up to white space `OpenReader` +
`MarkdownWithOptions` returns the blocks one after the other, each in its Markdown form. -/
theorem markdown_is_blocks (m : Int) (doc : Dom) (hd : depth doc ≤ maxTreeDepth) :
    (openMarkdown m doc).map squeeze =
      some ((blocksOf (excluded (clampMode m)) (bodyOf doc)).flatMap fun b => squeeze (b.md id)) := by
  rw [((open_within doc hd).2.2.1 m).2.1, Option.map_some, view_markdown_is_blocks]

/-- MONOTONE, END TO END, Markdown, RESTATED with the depth hypothesis (beyond the limit both calls
return the error of `OpenReader`, `open_refuses_beyond`). -/
theorem markdown_monotone (a b : Int) (h : (clampMode a).rank ≤ (clampMode b).rank) (doc : Dom)
    (hd : depth doc ≤ maxTreeDepth) :
    ∃ ma mb, openMarkdown a doc = some ma ∧ openMarkdown b doc = some mb ∧ (squeeze mb).Sublist (squeeze ma) :=
  ⟨_, _, ((open_within doc hd).2.2.1 a).2.1, ((open_within doc hd).2.2.1 b).2.1, view_markdown_monotone a b h doc⟩

theorem markdown_mode_chain (doc : Dom) (hd : depth doc ≤ maxTreeDepth) :
    ∃ m0 m1 m2 m3, openMarkdown 0 doc = some m0 ∧ openMarkdown 1 doc = some m1 ∧ openMarkdown 2 doc = some m2 ∧
      openMarkdown 3 doc = some m3 ∧
      (squeeze m3).Sublist (squeeze m2) ∧ (squeeze m2).Sublist (squeeze m1) ∧ (squeeze m1).Sublist (squeeze m0) ∧
      ∀ m : Int, ∃ t, openMarkdown m doc = some t ∧ (squeeze t).Sublist (squeeze m0) := by
  have w := open_within doc hd
  have c := view_markdown_mode_chain doc
  exact ⟨_, _, _, _, (w.2.2.1 0).2.1, (w.2.2.1 1).2.1, (w.2.2.1 2).2.1, (w.2.2.1 3).2.1, c.1, c.2.1, c.2.2.1,
    fun m => ⟨_, (w.2.2.1 m).2.1, c.2.2.2 m⟩⟩

example : depth (nestedDoc 5 [120]) ≤ maxTreeDepth := by rw [depth_nestedDoc]; decide

/-- `tabula.FromHTMLString(…).ToMarkdown()` IS `MarkdownWithOptions` with mode None, exactly (not
only up to white space): the heading-level adjustment of the default RAG options is the identity
on the levels 1..6, and no heading element of a parsed document has another level. -/
theorem view_extractor_markdown_is_mode_none (doc : Dom) :
    extractorMarkdown doc = markdownWithOptions 0 doc := by
  unfold extractorMarkdown markdownWithOptions
  apply renderMd_congr
  intro l t hm
  have := extract_heading_levels _ _ l t hm
  unfold adjustDefault
  have h1 : ¬ l < 1 := by omega
  have h2 : ¬ l > 6 := by omega
  simp [h1, h2]

/-- the same for the calls from the bytes: `ToMarkdown()` and `OpenReader` + `MarkdownWithOptions{None}`
agree for EVERY tree — the same text within the depth limit, the same error beyond it -/
theorem extractor_markdown_is_mode_none (doc : Dom) :
    extractorMarkdownE doc = openMarkdown 0 doc := by
  unfold extractorMarkdownE openMarkdown
  rw [view_extractor_markdown_is_mode_none]

/-- the Document view at block level: monotone with tables whole (a table of the stricter mode is a
table of the weaker mode, with all its rows, spans and header flags) -/
theorem elements_monotone (a b : Int) (h : (clampMode a).rank ≤ (clampMode b).rank) (doc : Dom) :
    (flattenB (extractI b doc)).Sublist (flattenB (extractI a doc)) := by
  rw [extractI_clamp, extractI_clamp]
  unfold extract
  rw [extract_blocks, extract_blocks]
  unfold blocksOf
  exact blocks_mono _ _ (fun pos n => excluded_mono_rank _ _ h pos n) _ _ _ _

/-- the two specifications are one: `atoms` is `blocks` with every table opened into its cells and
the kind of list forgotten, for every tree, predicate, position and list context — so the
block-level statements of this file refine the cell-level ones of Props/C19.lean -/
theorem blocks_refine_atoms (p : Pos → Dom → Bool) (w : Bool) (pos : Pos) (lc : LCB) (t : Dom) :
    (blocks p w pos lc t).flatMap Block.atoms = atoms p w pos lc.toLC t :=
  blocks_atoms p w t pos lc

/-- EPUB Markdown, RESTATED over the admitted chapters (was: all chapters; a chapter nested deeper
than `maxTreeDepth` is left out together with its separator): up to white space, the non-empty
views of the admitted chapters joined by `---` … -/
theorem epub_markdown_is_chapters (m : Int) (chapters : List Dom) :
    squeeze (epubMarkdown m chapters) =
      joinWith [45, 45, 45]
        (((chapters.filter admitted).map fun d => squeeze (markdownWithOptions m d)).filter (· != [])) := by
  unfold epubMarkdown
  rw [squeeze_joinWith_map, epubParts_map_squeeze]
  rfl

/-- … and monotone in the raw mode value like every other view (verbatim): a chapter that becomes
empty under the stricter mode vanishes together with its separator -/
theorem epub_markdown_monotone (a b : Int) (h : (clampMode a).rank ≤ (clampMode b).rank) (chapters : List Dom) :
    (squeeze (epubMarkdown b chapters)).Sublist (squeeze (epubMarkdown a chapters)) := by
  rw [epub_markdown_is_chapters, epub_markdown_is_chapters]
  exact (joinWith_filter_sublist _ _ _ (fun d => view_markdown_monotone a b h d) _).1

end Tabula.C19Md
