import TabulaModel.Lemmas.ChunkApi
import TabulaModel.Props.C12Layout
/-!
# C12: the glue around the chunkers — `updateSectionPath`, `Document.AddPage`, configurations

* `updateSectionPath` is the heading-stack step the property's anchors name. Since the C12 fixes
  `chunkPage` keeps the level of every open heading (`pushSection`), and `updateSectionPath`
  remains for a caller that knows only the innermost level. Over a *history* of calls it yields
  the chain of enclosing headings exactly when no heading is more than one level deeper than its
  predecessor (`update_history_partial`); with a skipped level it closes too much
  (`update_history_counterexample`). No public entry point reaches it.
* `Document.AddPage` numbers unnumbered pages 1, 2, 3, … and keeps preset numbers, so documents
  built with it meet the hypothesis of `layout_page_range_partial`.
-/
namespace Tabula.C12Api
open Tabula.Chunk Tabula.ChunkLayout Tabula.ChunkApi

/-- one call on a consistent state is `pushSection` on the real stack: when the open headings
`st` are one level apart with the innermost at `cur`, `updateSectionPath` returns the path of
`pushSection st` -/
theorem update_step (st : List H) (cur lvl : Int) (text : Str) (h : Consec cur st) :
    updateSectionPath (st.reverse.map (·.2)) cur lvl text = ((pushSection st lvl text).reverse.map (·.2), lvl) := by
  unfold updateSectionPath
  have : (st.reverse.map (·.2)).reverse = st.map (·.2) := by
    rw [← List.map_reverse, List.reverse_reverse]
  rw [this, assumed_of_consec st cur h]

/- Full statement (not true of the code, see the counterexample):
     ∀ c0 hs, (runUpdate [] c0 hs).1 = (openSpec (trimmed hs)).map (·.2) -/

/-- **`updateSectionPath` over a history of headings** (any start level, any number of calls):
if no heading is more than one level deeper than the one before it, the path after the last
call is the chain of enclosing headings — the headings all of whose successors are strictly
deeper (`openSpec`, `C12.open_iff`). -/
theorem update_history_partial (c0 : Int) (hs : List (Int × Str)) (h : NoSkip none hs) :
    (runUpdate [] c0 hs).1 = (openSpec (trimmed hs)).map (·.2) := by
  have := runUpdate_spec [] [] c0 hs rfl trivial (by simpa using h)
  simpa using this

/-- H1 a, H2 b, H3 c, H2 d, H1 e, H2 f: no level skipped on the way down (going up any number
of levels is allowed) -/
example : NoSkip none [(1, [97]), (2, [98]), (3, [99]), (2, [100]), (1, [101]), (2, [102])] ∧
    (runUpdate [] 0 [(1, [97]), (2, [98]), (3, [99]), (2, [100]), (1, [101]), (2, [102])]).1 = [[101], [102]] := by
  refine ⟨⟨by decide, by decide, by decide, by decide, by decide, trivial⟩, by decide⟩

/-- **With a skipped level the path loses an open heading**: H1 a, H3 b, H2 c. The caller knows
only that the innermost open heading has level 3 and takes `a` to be at level 2, so the H2
closes it; the chain of enclosing headings is [a, c]. -/
theorem update_history_counterexample :
    (runUpdate [] 0 [(1, [97]), (3, [98]), (2, [99])]).1 = [[99]] ∧
    (openSpec (trimmed [(1, [97]), (3, [98]), (2, [99])])).map (·.2) = [[97], [99]] := by decide

/-- **`Document.AddPage` on pages without a number** (`Number == 0`) numbers them 1, 2, 3, … -/
theorem addPages_unnumbered (k : Nat) :
    addPages [] (List.replicate k 0) = (List.range' 1 k).map Int.ofNat := by
  have := addPages_unset [] k
  simpa using this

/-- preset numbers (a page selection) are kept as they are -/
theorem addPages_numbered (ns : List Int) (h : ∀ n ∈ ns, n ≠ 0) : addPages [] ns = ns := by
  have := addPages_preset [] ns h
  simpa using this

example : addPages [] [0, 0, 7, 0] = [1, 2, 7, 4] := by decide

/-- a document whose pages were numbered by `AddPage` meets the hypothesis of
`C12Layout.layout_page_range_partial` / `layout_chunker_property` -/
theorem addPages_ascending (d : LDoc)
    (h : d.map (·.number) = addPages [] (List.replicate d.length 0)) : AscFrom 1 d := by
  rw [addPages_unnumbered] at h
  exact ascFrom_of_range d 1 1 (by decide) (by decide) h

/-- so for such a document every section's page range covers the pages of its content -/
theorem layout_page_range_addPage (cfg : Cfg) (d : LDoc)
    (h : d.map (·.number) = addPages [] (List.replicate d.length 0)) :
    ∀ x ∈ flatForest (buildSections cfg d), SecPagesOK (d.map (·.number)) x :=
  Tabula.C12Layout.layout_page_range_partial cfg d 1 (addPages_ascending d h)

example : (⟨1, none⟩ :: ⟨2, none⟩ :: ([] : LDoc)).map (·.number) = addPages [] (List.replicate 2 0) := by decide

end Tabula.C12Api
