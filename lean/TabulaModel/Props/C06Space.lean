import TabulaModel.Lemmas.PdfSpace
import TabulaModel.Lemmas.PdfErrors
/-!
# C06 — white space and comments, every input

`Props/C06.lean` proves that every LEGAL spelling (any mix of the six white-space bytes and `%…EOL`
comments with CR / LF / CR LF between tokens) reads back.  Here, for EVERY input, legal or not:

* the document-level parser sees the input only through its first non-comment token and what follows it,
  and the content-stream parser only through what `skipSpace` leaves — so white space and whole comments in
  front of ANY bytes change neither a single `ParseObject`, nor a whole run of `ParseObject` calls, nor
  `parseOperand`, nor `Parse` (results AND errors);
* both parsers skip the same bytes: the first token the document-level lexer finds is the token that starts
  at the byte `contentstream.skipSpace` stops at — a comment ends at the same place for both (the
  document-level lexer consumes the end-of-line marker, `skipSpace` leaves it to the white space after it);
* between complete tokens the same holds at every token boundary the parser reaches
  (`anywhere_between_tokens`).

The input-length-dependent fuel of the models is eliminated with the progress theorems
(`Props/C06Progress.lean`).  Helper lemmas: `Lemmas/PdfSpace.lean`, `Lemmas/PdfLexProgress.lean`.
-/
namespace Tabula.C06Space
open Tabula.Pdf

/-- the first token of the input that is not a comment, and the bytes behind it (what `(*Parser).nextToken`
gets from the lexer) -/
abbrev tok (inp : Str) : Option (Token × Str) := Prog.tok inp

/-! ## both parsers skip the same bytes -/

/-- **One view of the separators for both parsers, every input.**  If `contentstream.skipSpace` reaches the
end of the data, the document-level lexer reports the end of input; if it stops at the byte `c`, the first
non-comment token of the document-level lexer is the token that starts at that very byte. -/
theorem same_first_token (inp : Str) :
    (CS.skipSpace inp = [] → tok inp = some (.eof, [])) ∧
    (∀ c x, CS.skipSpace inp = c :: x → tok inp = Tok.dispatch c x ∧ isWs c = false ∧ c ≠ 37) :=
  ⟨(Prog.tok_of_skipSpace inp).1,
   fun c x h => ⟨(Prog.tok_of_skipSpace inp).2 c x h, Prog.skipSpace_head inp c x h⟩⟩

/-- a comment ends at the same place for both parsers, whatever the end-of-line marker (or none) -/
theorem comment_ends_alike (r : Str) : CS.skipSpace (CS.skipLine r) = CS.skipSpace (commentBody r).2 :=
  Prog.skipSpace_skipLine r

/-- `skipSpace` is idempotent (`parseNext`, `parseOperand`, the container loops all call it again) -/
theorem skipSpace_idempotent (inp : Str) : CS.skipSpace (CS.skipSpace inp) = CS.skipSpace inp :=
  Prog.skipSpace_idem inp

/-! ## the document-level parser -/

/-- white space in front of any bytes is invisible to the parser's lexer -/
theorem tok_white_space (w rest : Str) (h : AllWs w) : tok (w ++ rest) = tok rest :=
  Space.tok_ws w rest h

/-- a comment — `%`, any bytes but CR and LF, then CR, LF or CR LF — in front of any bytes is invisible too -/
theorem tok_comment (t e rest : Str) (ht : ∀ c ∈ t, c ≠ 10 ∧ c ≠ 13) (he : e = [10] ∨ e = [13] ∨ e = [13, 10]) :
    tok (37 :: (t ++ e) ++ rest) = tok rest :=
  Space.tok_comment t e rest ht he

example : AllWs [0, 9, 10, 12, 13, 32] := by
  intro c hc
  simp only [List.mem_cons, List.not_mem_nil, or_false] at hc
  rcases hc with h | h | h | h | h | h <;> subst h <;> decide
example : ∀ c ∈ [37, 40, 60], c ≠ 10 ∧ c ≠ 13 := by
  intro c hc
  simp only [List.mem_cons, List.not_mem_nil, or_false] at hc
  rcases hc with h | h | h <;> subst h <;> decide

/-- a comment that runs to the end of the input is followed by the end of input -/
theorem tok_comment_at_end (t : Str) (ht : ∀ c ∈ t, c ≠ 10 ∧ c ≠ 13) : tok (37 :: t) = some (.eof, []) :=
  Space.tok_comment_eof t ht

/-- **One `ParseObject` call depends on the input only through its first token and what follows it** — value,
state afterwards, or error alike. -/
theorem coreParse_congr (x y : Str) (h : tok x = tok y) : coreParse x = coreParse y :=
  Space.coreParse_congr x y h

/-- … and so does a whole run of `ParseObject` calls (all objects, and whether the run ends with `io.EOF` or
an error). -/
theorem coreParseAll_congr (x y : Str) (h : tok x = tok y) : coreParseAll x = coreParseAll y :=
  Space.coreParseAll_congr x y h

example : tok [32, 37, 65, 13, 10, 91, 93] = tok [91, 93] := by decide

/-- **Leading white space changes nothing, every input.** -/
theorem leading_white_space (w inp : Str) (h : AllWs w) :
    coreParse (w ++ inp) = coreParse inp ∧ coreParseAll (w ++ inp) = coreParseAll inp :=
  ⟨coreParse_congr _ _ (tok_white_space w inp h), coreParseAll_congr _ _ (tok_white_space w inp h)⟩

/-- **A leading comment changes nothing, every input** (any comment text, any of the three end-of-line
markers). -/
theorem leading_comment (t e inp : Str) (ht : ∀ c ∈ t, c ≠ 10 ∧ c ≠ 13) (he : e = [10] ∨ e = [13] ∨ e = [13, 10]) :
    coreParse (37 :: (t ++ e) ++ inp) = coreParse inp ∧ coreParseAll (37 :: (t ++ e) ++ inp) = coreParseAll inp :=
  ⟨coreParse_congr _ _ (tok_comment t e inp ht he), coreParseAll_congr _ _ (tok_comment t e inp ht he)⟩

/-- **Anywhere between tokens**: at every token boundary `y` a successful `ParseObject` / `parseArray` /
`parseDict` call reaches (`Props/C06Errors.lean`, landing), the parser's state is the window over `y`, and
that window is the same for every `y'` with the same first token and rest — in particular for `y` with white
space or a comment put in front.  So separators between complete tokens never matter, on any input. -/
theorem anywhere_between_tokens (f d : Nat) (x : Str) (o : Obj) (s' : PState)
    (h : parseObject f d (stateAt x) = .ok (o, s')) :
    ∃ y, Errs.Reach x y ∧ s' = stateAt y ∧
      ∀ y' t r, tok y = some (t, r) → tok y' = some (t, r) → s' = stateAt y' := by
  obtain ⟨y, hy, hr⟩ := (Errs.land f).1 d x o s' h
  refine ⟨y, hr, hy, ?_⟩
  intro y' t r h1 h2
  rw [hy]
  exact Prog.stateAt_congr y y' t r h1 h2

example : (parseObject 3 0 (stateAt [47, 65, 32, 49])).toOption.isSome = true := by decide +kernel

/-! ## the content-stream parser -/

/-- `skipSpace` skips white space … -/
theorem skipSpace_white_space (w rest : Str) (h : AllWs w) : CS.skipSpace (w ++ rest) = CS.skipSpace rest :=
  Space.skipSpace_allWs w rest h

/-- … and whole comments with any end-of-line marker. -/
theorem skipSpace_comment (t e rest : Str) (ht : ∀ c ∈ t, c ≠ 10 ∧ c ≠ 13)
    (he : e = [10] ∨ e = [13] ∨ e = [13, 10]) :
    CS.skipSpace (37 :: (t ++ e) ++ rest) = CS.skipSpace rest :=
  Space.skipSpace_comment_eol t e rest ht he

/-- **`parseOperand` and `Parse` depend on the data only through what `skipSpace` leaves of it.** -/
theorem cs_congr (x y : Str) (h : CS.skipSpace x = CS.skipSpace y) :
    (∀ f d, CS.parseOperand f d x = CS.parseOperand f d y) ∧ CS.csParse x = CS.csParse y :=
  ⟨fun f d => Space.cs_operand_congr f d x y h, Space.csParse_congr x y h⟩

/-- **Leading white space and leading comments change nothing for the content-stream parser, every input.** -/
theorem cs_leading_separators (w t e inp : Str) (hw : AllWs w) (ht : ∀ c ∈ t, c ≠ 10 ∧ c ≠ 13)
    (he : e = [10] ∨ e = [13] ∨ e = [13, 10]) :
    CS.csParse (w ++ inp) = CS.csParse inp ∧ CS.csParse (37 :: (t ++ e) ++ inp) = CS.csParse inp ∧
    (∀ f d, CS.parseOperand f d (w ++ inp) = CS.parseOperand f d inp) ∧
    (∀ f d, CS.parseOperand f d (37 :: (t ++ e) ++ inp) = CS.parseOperand f d inp) :=
  ⟨(cs_congr _ _ (skipSpace_white_space w inp hw)).2, (cs_congr _ _ (skipSpace_comment t e inp ht he)).2,
   (cs_congr _ _ (skipSpace_white_space w inp hw)).1, (cs_congr _ _ (skipSpace_comment t e inp ht he)).1⟩

end Tabula.C06Space
