import TabulaModel.Lemmas.PageSel
import TabulaModel.Lemmas.Builder
/-!
# C10 — every terminal operation, every format

`Props/C10.lean` states the life-cycle theorems (`terminal_releases`, `derive_preserves_parent`,
`close_idempotent`) for the store model; since the model now has all fourteen terminal
operations of `extractor.go`, the three non-terminal ones, the format of the file and the
`ensurePDFReader` path, those theorems already speak about all of them.  This file adds what
is specific to the wider model:

* the selection rule (`resolvePages`, then "no pages to process" where the code has it) is
  the same for every terminal operation on a PDF;
* for the other formats the selection is ignored (the code never reads `options.pages`
  there) — stated, not hidden;
* `ensurePDFReader` on a file of another format: an error, and nothing stays open (the
  pinned code left the DOCX/ODT/XLSX/PPTX/EPUB file open: `pdf_only_leak_pinned_counterexample`);
* `validateFormat` / the format switch of `ensureReader` as a function of what the format
  detectors and parsers say (`FileFacts`), and that a file that cannot be opened costs no
  descriptor whatever is called on it.
-/
namespace Tabula.C10Life
open Tabula.PageSel Tabula.Builder

/-! ## the selection rule is the same for every terminal operation on a PDF -/

/-- a non-empty selection inside the document selects at least one page -/
theorem specPages_ne_nil (sel : List Int) (n : Nat) (hne : sel ≠ []) (hr : InRange sel n) :
    specPages sel n ≠ [] := by
  cases sel with
  | nil => exact absurd rfl hne
  | cons p ps =>
    have hp := hr p (by simp)
    intro hnil
    have hmem : (p - 1).toNat ∈ specPages (p :: ps) n := by
      rw [mem_specPages]
      refine ⟨by omega, ?_⟩
      have : (((p - 1).toNat : Nat) : Int) + 1 = p := by omega
      rw [this]; simp
    rw [hnil] at hmem
    cases hmem

/-- resolvePages of a non-empty in-range selection, restated -/
theorem resolve_valid (sel : List Int) (n : Nat) (hne : sel ≠ []) (hr : InRange sel n) :
    resolvePages sel n = .ok (specPages sel n) := by
  have hemp : sel.isEmpty = false := by cases sel <;> simp_all
  obtain ⟨l, hl, hnd, hmem⟩ := convLoop_ok n sel hr []
  unfold resolvePages
  simp only [hemp, Bool.false_eq_true, if_false, hl]
  congr 1
  apply strictAsc_ext _ _ (isort_strictAsc l hnd) (specPages_strictAsc sel n)
  intro x
  rw [mem_isort, hmem, mem_specPages]
  constructor
  · rintro ⟨_, hx⟩
    have := hr _ hx
    exact ⟨by omega, hx⟩
  · rintro ⟨_, hx⟩
    exact ⟨by simp, hx⟩

theorem resolve_invalid (sel : List Int) (n : Nat) (hne : sel ≠ []) (hr : ¬ InRange sel n) :
    resolvePages sel n = .error .range := by
  have hemp : sel.isEmpty = false := by cases sel <;> simp_all
  unfold resolvePages
  simp only [hemp, Bool.false_eq_true, if_false, convLoop_error n sel hr []]

/-- **every_terminal_selects**: whichever of the fourteen terminal operations is called on a PDF
of `n` pages with a non-empty selection inside the document, it works on exactly the pages of
the selected set, ascending. -/
theorem every_terminal_selects (w : World) (k : Term) (o : Options) (n : Nat)
    (hn : w.pageCount = some n) (hne : o.pages ≠ []) (hr : InRange o.pages n) :
    termBody w k o = .pages (specPages o.pages n) := by
  unfold termBody
  simp only [hn, resolve_valid o.pages n hne hr]
  have : (specPages o.pages n).isEmpty = false := by
    have := specPages_ne_nil o.pages n hne hr
    cases h : specPages o.pages n with
    | nil => exact absurd h this
    | cons a as => rfl
  simp [this]

example : InRange [3, 1, 3] 4 ∧ ([3, 1, 3] : List Int) ≠ [] ∧
    ∀ k ∈ [Term.text, .lines, .analyze, .toMarkdown, .headings, .blocks],
      termBody ⟨true, some 4⟩ k { pages := [3, 1, 3] } = .pages [0, 2] := by
  refine ⟨?_, by simp, by decide⟩
  intro p hp; simp at hp; omega

/-- **every_terminal_out_of_range**: a page number outside the document is an error for every
terminal operation. -/
theorem every_terminal_out_of_range (w : World) (k : Term) (o : Options) (n : Nat)
    (hn : w.pageCount = some n) (hne : o.pages ≠ []) (hr : ¬ InRange o.pages n) :
    termBody w k o = .err := by
  unfold termBody
  simp only [hn, resolve_invalid o.pages n hne hr]

example : ¬ InRange [2, 5] 4 ∧ ∀ k ∈ [Term.text, .paragraphs, .readingOrder, .chunksWithConfig, .lists],
    termBody ⟨true, some 4⟩ k { pages := [2, 5] } = .err := by
  refine ⟨?_, by decide⟩
  intro h; have := h 5 (by simp); omega

/-- without a selection every page is processed; the operations that build a document or a
combined analysis refuse an empty one -/
theorem every_terminal_no_selection (w : World) (k : Term) (o : Options) (n : Nat)
    (hn : w.pageCount = some n) (hsel : o.pages = []) :
    termBody w k o = if k.needsPages && n == 0 then .err else .pages (List.range n) := by
  have hres : resolvePages [] n = .ok (List.range n) := rfl
  unfold termBody
  simp only [hn, hsel, hres]
  cases n <;> simp [List.range_succ]

example : ∀ k ∈ [Term.text, .fragments, .lines, .headings], termBody ⟨true, some 0⟩ k {} = .pages [] ∧
    ∀ k ∈ [Term.document, .chunks, .toMarkdown, .analyze, .elements, .readingOrder],
      termBody ⟨true, some 0⟩ k {} = .err ∧ termBody ⟨true, some 2⟩ k {} = .pages [0, 1] := by decide

/-- a document whose page tree cannot be read fails every terminal operation -/
theorem every_terminal_unreadable (w : World) (k : Term) (o : Options) (hn : w.pageCount = none) :
    termBody w k o = .err := by
  unfold termBody; simp only [hn]

/-! ## the other formats -/

/-- **nonpdf_ignores_selection**: for DOCX, ODT, XLSX, PPTX, HTML and EPUB the answer of a
terminal operation does not depend on the configured pages (nor on any other option as far
as success and failure go): the code hands the whole document to the format's reader.  In
particular `Open("a.docx").Pages(7).Text()` is not an error; the property quantifies over
PDFs, this theorem records what the code does elsewhere. -/
theorem nonpdf_ignores_selection (w : World) (k : Term) (e : Ext) (o' : Options)
    (hf : e.format ≠ .pdf) : termBodyF w k { e with opts := o' } = termBodyF w k e := by
  unfold termBodyF
  simp [hf]

example : termBodyF ⟨true, some 1⟩ .text { format := .docx, opts := { pages := [7] } } = .whole := by
  decide

/-- on a PDF `termBodyF` is the selection rule -/
theorem pdf_body (w : World) (k : Term) (e : Ext) (hf : e.format = .pdf) :
    termBodyF w k e = termBody w k e.opts := by
  unfold termBodyF; simp [hf]

/-! ## ensurePDFReader on a file of another format -/

/-- **pdf_only_elsewhere**: `Fragments`, `Lines`, `Paragraphs`, `ReadingOrder`, `Analyze`,
`Elements`, `Headings`, `Lists`, `Blocks` on an extractor of another format: an error (not a
nil dereference), the extractor owns nothing afterwards, and the number of open readers has
dropped by exactly what it held before — the file `ensureReader` opened for the format error
is closed again, and so is one an earlier `PageCount` opened. -/
theorem pdf_only_elsewhere (w : World) (k : Term) (s : Store) (hs : StoreInv s) (i : Nat)
    (e : Ext) (he : s.exts[i]? = some e) (hk : k.pdfOnly = true) (hf : e.format ≠ .pdf) :
    (terminal w k s i).2 = .err ∧
    ∃ e', (terminal w k s i).1.exts[i]? = some e' ∧ e'.owns = false ∧
      (terminal w k s i).1.fdCount + (if e.owns then 1 else 0) = s.fdCount := by
  constructor
  · rw [terminal_res]
    unfold termRes view
    simp only [he, Option.map_some]
    split
    · rfl
    · simp [hk, hf]
  · rw [terminal_fst w k s i e he]
    split
    · rename_i hc
      have herr : e.err = true := by
        simp only [Bool.and_eq_true] at hc; exact hc.2
      have := hs.errNoOwn i e he herr
      exact ⟨e, he, this, by simp [this]⟩
    · simp only [hk, Bool.true_and, bne_iff_ne, ne_eq, hf, not_false_eq_true, if_true]
      exact mismatch_releases w hs he

/-- non-vacuity: a DOCX extractor that already holds its file (PageCount), then Fragments -/
example : let w : World := ⟨true, some 1⟩
    let s := exec w (openBaseF .docx) [.nonTerm 0 .pageCount]
    StoreInv s ∧ s.fdCount = 1 ∧ (terminal w .fragments s 0).2 = .err ∧
      (terminal w .fragments s 0).1.fdCount = 0 := by
  refine ⟨inv_exec _ _ (inv_openBaseF .docx), by decide, by decide, by decide⟩

/-- the non-terminal PDF-only operations (`IsMultiColumn`, `IsCharacterLevel`) take the same
path: an error, and a file-based extractor has released its reader -/
theorem pdf_only_probe_elsewhere (w : World) (k : NonTerm) (s : Store) (hs : StoreInv s)
    (i : Nat) (e : Ext) (he : s.exts[i]? = some e) (hk : k.pdfOnly = true)
    (hf : e.format ≠ .pdf) (herr : e.err = false) :
    (nonTerminal w k s i).2 = .err ∧
    ∃ e', (nonTerminal w k s i).1.exts[i]? = some e' ∧ e'.owns = false ∧
      (nonTerminal w k s i).1.fdCount + (if e.owns then 1 else 0) = s.fdCount := by
  constructor
  · rw [nonTerminal_res]
    unfold nonTermRes view
    simp [he, herr, hk, hf]
  · rw [nonTerminal_fst w k s i e he]
    simp only [herr, Bool.false_eq_true, if_false, hk, Bool.true_and, bne_iff_ne, ne_eq, hf,
      not_false_eq_true, if_true]
    exact mismatch_releases w hs he

example : let w : World := ⟨true, some 2⟩
    let s := exec w (openBaseF .xlsx) [.nonTerm 0 .pageCount]
    StoreInv s ∧ s.fdCount = 1 ∧ (nonTerminal w .isMultiColumn s 0).2 = .err ∧
      (nonTerminal w .isMultiColumn s 0).1.fdCount = 0 ∧
      (step w (nonTerminal w .isMultiColumn s 0).1 (.term 0 .text)).2 = .whole := by
  refine ⟨inv_exec _ _ (inv_openBaseF .xlsx), by decide, by decide, by decide, by decide⟩

/-- before the fix the reader opened for the format error stayed open:
`Open("x.docx").Fragments()` failed and left one descriptor behind; now it leaves none -/
theorem pdf_only_leak_pinned_counterexample :
    let w : World := ⟨true, some 1⟩
    ((terminalLeaky w .fragments (openBaseF .docx) 0).2 = .err ∧
      (terminalLeaky w .fragments (openBaseF .docx) 0).1.fdCount = 1) ∧
    ((terminal w .fragments (openBaseF .docx) 0).2 = .err ∧
      (terminal w .fragments (openBaseF .docx) 0).1.fdCount = 0) := by decide

/-! ## validateFormat and the format switch -/

/-- **open_ok_iff**: `ensureReader` gets a reader exactly when the file opens, content
detection does not fail and does not contradict the extension, the extension names a
supported format, and that format's parser accepts the file. -/
theorem open_ok_iff (f : FileFacts) (fmt : Fmt) :
    openOkOf f fmt = true ↔
      f.present = true ∧ (f.detected = some .unknown ∨ f.detected = some fmt) ∧
      fmt ≠ .unknown ∧ f.parseOk = true := by
  unfold openOkOf validateFormat
  cases hp : f.present <;> cases ho : f.parseOk <;> cases hd : f.detected with
  | none => simp
  | some d => cases d <;> cases fmt <;> simp

/-- content of one format under the extension of another is refused before anything is opened -/
theorem mismatch_refused (f : FileFacts) (fmt d : Fmt) (hd : f.detected = some d)
    (hu : d ≠ .unknown) (hne : d ≠ fmt) : openOkOf f fmt = false := by
  cases h : openOkOf f fmt with
  | false => rfl
  | true =>
    have := (open_ok_iff f fmt).mp h
    rcases this.2.1 with h1 | h1
    · rw [hd] at h1; cases h1; exact absurd rfl hu
    · rw [hd] at h1; cases h1; exact absurd rfl hne

example : openOkOf ⟨true, some .docx, true⟩ .odt = false ∧ openOkOf ⟨true, some .unknown, true⟩ .odt = true ∧
    openOkOf ⟨true, some .pdf, true⟩ .unknown = false ∧ openOkOf ⟨true, none, true⟩ .pdf = false := by decide

/-- **unopenable_costs_nothing**: when the file cannot be opened (missing, unreadable, wrong
content, unsupported extension, rejected by the parser), every terminal and non-terminal
operation on an extractor that has not opened it yet fails and leaves the store exactly as it
was: no reader, no descriptor, no flag changed. -/
theorem unopenable_costs_nothing (w : World) (s : Store) (hs : StoreInv s) (i : Nat) (e : Ext)
    (he : s.exts[i]? = some e) (ho : e.opened = false) (hw : w.openOk = false) :
    (∀ k : Term, terminal w k s i = (s, .err)) ∧ (∀ k : NonTerm, nonTerminal w k s i = (s, .err)) := by
  have hens : ∃ x, ensureReader w s i e = .error x := by
    rcases ensureReader_cases w s i e with ⟨h1, _⟩ | ⟨_, _, x, hr⟩ | ⟨_, _, h3, _⟩
    · rw [ho] at h1; cases h1
    · exact ⟨x, hr⟩
    · rw [hw] at h3; cases h3
  obtain ⟨x, hx⟩ := hens
  have hmm : mismatchStore w s i e = s := by
    unfold mismatchStore
    rw [hx]
    simp only
    split
    · exact closeExt_unopened hs he ho
    · rfl
  constructor
  · intro k
    unfold terminal
    simp only [he]
    split
    · rfl
    · split
      · rw [hmm]
      · rw [hx]
  · intro k
    unfold nonTerminal
    simp only [he]
    split
    · rfl
    · split
      · rw [hmm]
      · rw [hx]

example : let w : World := ⟨openOkOf ⟨true, some .docx, true⟩ .pdf, some 2⟩
    StoreInv openBase ∧ w.openOk = false ∧
      (exec w openBase [.term 0 .text, .nonTerm 0 .pageCount, .term 0 .lines]) = openBase := by
  refine ⟨inv_openBase, by decide, by decide⟩

/-- HTML readers hold no descriptor at all (`htmldoc.Open` closes the file before it returns) -/
theorem html_holds_nothing (s : Store) : fdHeld .html s = 0 := rfl

/-- for every other format the descriptors are the open readers -/
theorem fd_is_readers (f : Fmt) (s : Store) (h : f ≠ .html) : fdHeld f s = s.fdCount := by
  unfold fdHeld; simp [h]

end Tabula.C10Life
