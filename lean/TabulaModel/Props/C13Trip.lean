import TabulaModel.Lemmas.OverlapApi
import TabulaModel.Props.C13Sentences
/-!
# C13, round 6, part 2 — reading the chunks back: `Chunk → ApplyOverlapToChunks → GetOriginalText`

The overlap clause of C13 speaks of "the previous chunk's own content".  The package offers
one way to get a chunk's own content back after `ApplyOverlapToChunks` rewrote its text:
`(*ChunkWithOverlap).GetOriginalText`, which searches the rewritten text for the first
occurrence of the overlap prefix (`strings.Index`) and returns what follows, trimmed.
Model: `Model/OverlapApi.lean` (`indexOf`, `getOriginalText`, `withSuffixes`,
`generateOverlapResult`); lemmas: `Lemmas/OverlapApi.lean`; ops `c13.orig`, `c13.gen`.
-/
set_option linter.unusedVariables false
namespace Tabula.C13Trip
open Tabula.Split Tabula.Overlap Tabula.OverlapApi Tabula.Sentences

/-! ## `strings.Index` -/

/-- **index_finds_first.** `strings.Index(s, sub) = k`: `sub` occurs at `k` and at no earlier
position. -/
theorem index_finds_first (s sub : Str) (k : Nat) (h : indexOf s sub = some k) :
    (∃ a b, s = a ++ sub ++ b ∧ a.length = k) ∧ ∀ j, j < k → ¬ sub <+: s.drop j :=
  ⟨indexOf_some s sub k h, indexOf_first s sub k h⟩

example : indexOf [1, 2, 1, 2, 3] [1, 2, 3] = some 2 ∧ indexOf [1, 2] [3] = none ∧ indexOf [] [] = some 0 := by
  decide

/-! ## the round trip through `ApplyOverlapToChunks` -/

/-- **original_text_round_trip.** For every list of chunks (any bytes), every overlap
configuration and class table: if section context is off or the chunk has no section title,
`GetOriginalText` of chunk `i` as `ApplyOverlapToChunks` returns it is the chunk's own
content — exactly when no overlap was put in front of it, trimmed (`strings.TrimSpace`)
when one was; in both cases it has exactly the own content's non-whitespace characters. -/
theorem original_text_round_trip (cl : Classes) (c : OverlapConfig) (items : List (Str × Str))
    (i : Nat) (own : Str × Str) (ho : items[i]? = some own)
    (ht : c.includeHeadingContext = false ∨ own.2 = []) :
    ∃ o, (applyOverlapAux cl c none items)[i]? = some o
      ∧ getOriginalText o = (if o.has then trimSpace own.1 else own.1)
      ∧ stripWs (getOriginalText o) = stripWs own.1 := by
  rw [applyOverlapAux_get, ho]
  simp only [Option.map_some]
  refine ⟨_, rfl, ?_, stripWs_getOriginalText_outOf c _ own.1 own.2 ht⟩
  rw [getOriginalText_outOf c _ own.1 own.2 ht]
  generalize overlapFrom cl c (prevText none items i) = ov
  unfold outOf
  by_cases he : ov = []
  · simp [he]
  · simp [he]

/-- **original_text_first_occurrence.** With a bracketed section title in front
(`IncludeHeadingContext` and a non-empty title) the same holds whenever the first occurrence
of the overlap in the rewritten text is the overlap itself (position `len(title) + 4`). -/
theorem original_text_first_occurrence (cl : Classes) (c : OverlapConfig) (items : List (Str × Str))
    (i : Nat) (own : Str × Str) (ho : items[i]? = some own)
    (hfirst : ∀ ov, ov = overlapFrom cl c (prevText none items i) → ov ≠ [] →
      indexOf (applyOverlap own.1 ov own.2 c.includeHeadingContext) ov
        = some (if c.includeHeadingContext ∧ own.2 ≠ [] then own.2.length + 4 else 0)) :
    ∃ o, (applyOverlapAux cl c none items)[i]? = some o
      ∧ getOriginalText o = (if o.pref = [] then own.1 else trimSpace own.1) := by
  rw [applyOverlapAux_get, ho]
  simp only [Option.map_some]
  refine ⟨_, rfl, ?_⟩
  rw [getOriginalText_of_first_occurrence c _ own.1 own.2 (hfirst _ rfl)]
  generalize overlapFrom cl c (prevText none items i) = ov
  unfold outOf
  by_cases he : ov = []
  · simp [he]
  · simp [he]

/-- **original_text_title_echo_counterexample.** The hypothesis is needed: when the bracketed
section title repeats the overlap (a running line "Results" right before the heading
"Results"), `strings.Index` finds the overlap inside the title and `GetOriginalText` returns
`]`, the overlap and the own content instead of the own content.  (Not a clause of C13:
`ApplyOverlapToChunks` itself takes every overlap from the snapshot of the original texts,
`C13.overlap_source`; reported as an aside.) -/
theorem original_text_title_echo_counterexample :
    let c : OverlapConfig := { strategy := 2, size := 2, minOverlap := 20, maxOverlap := 500, preserveWords := true, includeHeadingContext := true }
    let results : Str := "Results".toList.map Char.toNat
    let own : Str := "Only one sentence.".toList.map Char.toNat
    ((applyOverlapAux [] c none [(results, []), (own, results)]).map getOriginalText)
      = [results, "]\n\nResults\n\nOnly one sentence.".toList.map Char.toNat] := by
  decide +kernel

/-- **original_text_keeps_own.** What holds for ALL inputs — any bytes, any configuration, any
section titles, the echoing ones included: `GetOriginalText` never loses own content.  The
non-whitespace characters of the chunk's own text are a suffix of those of what it returns
(`strings.Index` finds the overlap at or before its real place, and the cut between what is
left of the prefix and the own content is the blank line). -/
theorem original_text_keeps_own (cl : Classes) (c : OverlapConfig) (items : List (Str × Str))
    (i : Nat) (own : Str × Str) (ho : items[i]? = some own) :
    ∃ o x, (applyOverlapAux cl c none items)[i]? = some o
      ∧ stripWs (getOriginalText o) = x ++ stripWs own.1 := by
  rw [applyOverlapAux_get, ho]
  simp only [Option.map_some]
  obtain ⟨x, hx⟩ := getOriginalText_keeps_own c (overlapFrom cl c (prevText none items i)) own.1 own.2
  exact ⟨_, x, rfl, hx⟩

/-- **original_text_conserves.** Whole lists: stripping the overlaps with `GetOriginalText`
recovers, chunk by chunk, the non-whitespace characters of every chunk's own content (section
context off, or no titles), for any bytes. -/
theorem original_text_conserves (cl : Classes) (c : OverlapConfig) (items : List (Str × Str))
    (h : ∀ it ∈ items, c.includeHeadingContext = false ∨ it.2 = []) :
    (applyOverlapAux cl c none items).map (fun o => stripWs (getOriginalText o))
      = items.map (fun it => stripWs it.1) :=
  applyOverlapAux_original_content cl c none items h

/-- non-vacuity: sentence overlap, three chunks, the middle one with surrounding white space -/
example :
    let c : OverlapConfig := { strategy := 2, size := 1, minOverlap := 0, maxOverlap := 100, preserveWords := true, includeHeadingContext := false }
    let a : Str := "First one. Second one.".toList.map Char.toNat
    let b : Str := "  Tiny. ".toList.map Char.toNat
    let d : Str := "Third chunk here.".toList.map Char.toNat
    (applyOverlapAux [] c none [(a, []), (b, []), (d, [])]).map (fun o => (o.has, getOriginalText o))
      = [(false, a), (true, "Tiny.".toList.map Char.toNat), (true, d)] := by
  decide +kernel

/-! ## end to end: `ChunkWithOverlapEnabled`, then `GetOriginalText` -/

/-- **cwe_original_text.** `NewChunkerWithConfig(c).ChunkWithOverlapEnabled(doc)` on a document
of paragraphs, for every `MaxChunkSize`, `MinChunkSize`, `OverlapSize`, `OverlapSentences`,
`IncludeSectionContext` and any bytes: `GetOriginalText` of output `i` is base chunk `i` of
`Chunker.Chunk` (trimmed when it received an overlap). -/
theorem cwe_original_text (cl : Classes) (max min overlapSize : Nat) (sentences ctx : Bool)
    (paras : List Str) (i : Nat) (t : Str)
    (hi : (chunkParagraphDoc cl max min paras)[i]? = some t) :
    ∃ o, (chunkWithOverlapEnabled cl max min overlapSize sentences ctx paras)[i]? = some o
      ∧ getOriginalText o = (if o.has then trimSpace t else t) := by
  have hout : chunkWithOverlapEnabled cl max min overlapSize sentences ctx paras
      = applyOverlapAux cl (chunkerOverlapConfig overlapSize sentences ctx) none
          ((chunkParagraphDoc cl max min paras).map fun t => (t, ([] : Str))) := by
    unfold chunkWithOverlapEnabled applyOverlapToChunks
    rw [zip_empty_titles]
  rw [hout]
  obtain ⟨o, h1, h2, _⟩ := original_text_round_trip cl (chunkerOverlapConfig overlapSize sentences ctx)
    ((chunkParagraphDoc cl max min paras).map fun t => (t, ([] : Str))) i (t, [])
    (by simp [hi]) (Or.inr rfl)
  exact ⟨o, h1, h2⟩

/-- **cwe_round_trip.** The composition `Chunk → ApplyOverlapToChunks → GetOriginalText` end to
end: for a document of valid UTF-8 paragraphs, the original texts of the chunks
`ChunkWithOverlapEnabled` returns contain exactly the non-whitespace characters of the
paragraphs, in order — every character once, although the chunk texts repeat the overlaps. -/
theorem cwe_round_trip (cl : Classes) (max min overlapSize : Nat) (sentences ctx : Bool)
    (paras : List Str) (hv : ∀ p ∈ paras, validUtf8 p = true) :
    ((chunkWithOverlapEnabled cl max min overlapSize sentences ctx paras).map getOriginalText).flatMap stripWs
      = paras.flatMap stripWs := by
  have hout : chunkWithOverlapEnabled cl max min overlapSize sentences ctx paras
      = applyOverlapAux cl (chunkerOverlapConfig overlapSize sentences ctx) none
          ((chunkParagraphDoc cl max min paras).map fun t => (t, ([] : Str))) := by
    unfold chunkWithOverlapEnabled applyOverlapToChunks
    rw [zip_empty_titles]
  have h := original_text_conserves cl (chunkerOverlapConfig overlapSize sentences ctx)
    ((chunkParagraphDoc cl max min paras).map fun t => (t, ([] : Str)))
    (by intro it hit; obtain ⟨t, _, e⟩ := List.mem_map.mp hit; subst e; exact Or.inr rfl)
  rw [← hout] at h
  have hc := (Tabula.C13Sentences.chunk_conserves cl max min paras hv).1
  rw [← hc]
  have e1 : ((chunkWithOverlapEnabled cl max min overlapSize sentences ctx paras).map getOriginalText).flatMap stripWs
      = ((chunkWithOverlapEnabled cl max min overlapSize sentences ctx paras).map
          (fun o => stripWs (getOriginalText o))).flatten := by
    rw [List.flatMap_def, List.map_map]; rfl
  have e2 : (chunkParagraphDoc cl max min paras).flatMap stripWs
      = (((chunkParagraphDoc cl max min paras).map fun t => (t, ([] : Str))).map (fun it => stripWs it.1)).flatten := by
    rw [List.flatMap_def, List.map_map]; rfl
  rw [e1, e2, h]

/-- non-vacuity: two paragraphs, the second packed by sentences, character overlap 6 -/
example :
    let paras : List Str := ["Alpha beta.".toList.map Char.toNat,
      "One two three. Four five six. Seven eight.".toList.map Char.toNat]
    (chunkWithOverlapEnabled [] 30 3 6 false false paras).map getOriginalText
      = chunkParagraphDoc [] 30 3 paras := by decide +kernel

/-! ## the other fields a caller reads -/

/-- **overlap_suffix_is_next_prefix.** `OverlapSuffix` / `HasOverlapSuffix` of chunk `i` are
`OverlapPrefix` / `HasOverlapPrefix` of chunk `i+1`; the last chunk has none.  So the suffix
field of a chunk is (by `C13Overlap.apply_overlap_property`) a content suffix of that very
chunk's own text. -/
theorem overlap_suffix_is_next_prefix (outs : List OverlapOut) (i : Nat) (o : OverlapOut)
    (ho : outs[i]? = some o) :
    ∃ f, (withSuffixes outs)[i]? = some f ∧ f.text = o.text ∧ f.pref = o.pref ∧ f.has = o.has
      ∧ f.suffix = ((outs[i + 1]?).map (·.pref)).getD []
      ∧ f.hasSuffix = ((outs[i + 1]?).map (·.has)).getD false := by
  induction outs generalizing i with
  | nil => simp at ho
  | cons x rest ih =>
    cases i with
    | zero =>
      simp only [List.getElem?_cons_zero, Option.some.injEq] at ho
      subst ho
      simp only [withSuffixes, List.getElem?_cons_zero]
      refine ⟨_, rfl, rfl, rfl, rfl, ?_, ?_⟩
      · cases rest <;> rfl
      · cases rest <;> rfl
    | succ j =>
      simp only [List.getElem?_cons_succ] at ho ⊢
      simp only [withSuffixes, List.getElem?_cons_succ]
      exact ih j ho

/-- **rewritten_metadata.** The counters `ApplyOverlapToChunks` leaves on a chunk describe its
(rewritten) text: `CharCount = len(Text)`, `WordCount = countWords(Text)`,
`EstimatedTokens = len(Text)/4` (chunks built by `NewChunk`). -/
theorem rewritten_metadata (outs : List OverlapOut) :
    ∀ f ∈ withSuffixes outs, f.charCount = f.text.length ∧ f.wordCount = countWords f.text
      ∧ f.tokens = f.text.length / 4 := by
  induction outs with
  | nil => intro f hf; cases hf
  | cons x rest ih =>
    intro f hf
    simp only [withSuffixes, List.mem_cons] at hf
    rcases hf with rfl | hf
    · exact ⟨rfl, rfl, rfl⟩
    · exact ih f hf

/-- the `EstimatedTokens` counter is the token estimate of `SizeCalculator` at the default ratio -/
theorem metadata_tokens_is_default_estimate (s : Str) :
    s.length / 4 = estimateTokens defaultSizeConfig s := by
  simp [estimateTokens, SizeConfig.ratio, defaultSizeConfig]

/-- **generate_overlap_result.** The whole `OverlapResult` of `GenerateOverlap`: `Text` is the
overlap of the theorems of `C13Overlap`; `CharCount` is its length, at most `MaxOverlap`;
`Strategy` is the configured one, or `OverlapNone` when nothing is generated. -/
theorem generate_overlap_result (cl : Classes) (c : OverlapConfig) (text : Str) :
    (generateOverlapResult cl c text).text = generateOverlap cl c text
      ∧ (generateOverlapResult cl c text).charCount = (generateOverlap cl c text).length
      ∧ (generateOverlapResult cl c text).charCount ≤ c.maxOverlap
      ∧ ((generateOverlapResult cl c text).strategy = c.strategy
          ∨ (generateOverlapResult cl c text).strategy = 0) := by
  have hle := generateOverlap_length_le cl c text
  unfold generateOverlapResult
  by_cases h1 : c.strategy = 0 ∨ c.size = 0
  · rw [if_pos h1]
    have : generateOverlap cl c text = [] := by
      unfold generateOverlap
      rw [if_pos (by rcases h1 with h | h <;> simp [h])]
    simp [this]
  · rw [if_neg h1]
    by_cases h2 : c.strategy > 3
    · rw [if_pos h2]
      have : generateOverlap cl c text = [] := by
        unfold generateOverlap
        rw [if_pos (Or.inr (Or.inr h2))]
      simp [this]
    · rw [if_neg h2]
      exact ⟨rfl, rfl, hle, Or.inl rfl⟩

example : (generateOverlapResult [] defaultOverlapConfig ("One. Two. Three.".toList.map Char.toNat)).sentenceCount = 2
    ∧ (generateOverlapResult [] defaultOverlapConfig ("One. Two. Three.".toList.map Char.toNat)).text
        = "Two. Three.".toList.map Char.toNat := by decide +kernel

end Tabula.C13Trip
