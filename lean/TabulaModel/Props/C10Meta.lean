import TabulaModel.Lemmas.PageSel
import TabulaModel.Props.C10Life
import TabulaModel.Props.C10E2E
/-!
# C10 — page-level metadata of the layout operations

"Page-level metadata refers to the true source page" beyond `Document`/`Chunks`
(`Props/C10.lean: page_number_true`):

* `Headings()` stamps every heading with `PageIndex` = the 0-based index of the page it was
  detected on (`heading_page_index_true`);
* `Analyze()` / `Elements()` renumber `Index`/`ZOrder` so that the combined list is numbered
  0, 1, 2, … across the selected pages, which come in ascending page order
  (`analyze_index_sequential`).
-/
namespace Tabula.C10Meta
open Tabula.PageSel

/-- **heading_page_index_true**: `Pages(S).Headings()` is the per-page heading lists of the
pages of `S` in ascending page order, and every heading carries the index of the page it came
from: `(p, h)` is in the result only if `p` is a selected page and `h` one of ITS headings. -/
theorem heading_page_index_true {H : Type} (pg : Nat → Except E (List H)) (f : Nat → List H)
    (sel : List Int) (n : Nat) (hne : sel ≠ []) (hr : InRange sel n)
    (hpg : ∀ k, k < n → pg k = .ok (f k)) :
    extractHeadings pg sel n = .ok ((specPages sel n).map fun k => stampPage k (f k)).flatten ∧
    ∀ r, extractHeadings pg sel n = .ok r → ∀ p h, (p, h) ∈ r → p ∈ specPages sel n ∧ h ∈ f p := by
  have hres : extractHeadings pg sel n = .ok ((specPages sel n).map fun k => stampPage k (f k)).flatten := by
    unfold extractHeadings headingsOf
    rw [C10Life.resolve_valid sel n hne hr]
    apply C10E2E.fragmentsOf_spec
    intro k hk
    rw [hpg k ((mem_specPages sel n k).mp hk).1]
  refine ⟨hres, ?_⟩
  intro r hr' p h hmem
  rw [hres] at hr'
  cases hr'
  simp only [List.mem_flatten, List.mem_map] at hmem
  obtain ⟨l, ⟨k, hk, rfl⟩, hin⟩ := hmem
  simp only [stampPage, List.mem_map, Prod.mk.injEq] at hin
  obtain ⟨h', hh', rfl, rfl⟩ := hin
  exact ⟨hk, hh'⟩

example : extractHeadings (fun k => .ok (if k = 1 then [] else [10 * k, 10 * k + 1])) [3, 1, 2] 3
    = .ok [(0, 0), (0, 1), (2, 20), (2, 21)] := by decide

theorem indexFrom_append {L : Type} (a b : List L) : ∀ s : Nat,
    indexFrom s (a ++ b) = indexFrom s a ++ indexFrom (s + a.length) b := by
  induction a with
  | nil => intro s; simp [indexFrom]
  | cons x xs ih =>
    intro s
    simp only [List.cons_append, indexFrom, ih, List.length_cons]
    have : s + 1 + xs.length = s + (xs.length + 1) := by omega
    rw [this]

theorem indexFrom_length {L : Type} (l : List L) : ∀ s : Nat, (indexFrom s l).length = l.length := by
  induction l with
  | nil => intro s; rfl
  | cons x xs ih => intro s; simp [indexFrom, ih]

theorem indexFrom_getElem? {L : Type} (l : List L) : ∀ (s j : Nat),
    (indexFrom s l)[j]? = (l[j]?).map fun x => (s + j, x) := by
  induction l with
  | nil => intro s j; simp [indexFrom]
  | cons x xs ih =>
    intro s j
    cases j with
    | zero => simp [indexFrom]
    | succ j =>
      simp only [indexFrom, List.getElem?_cons_succ, ih]
      have : s + 1 + j = s + (j + 1) := by omega
      rw [this]

theorem foldl_renumber {L : Type} (ess : List (List L)) : ∀ acc : List (Nat × L),
    ess.foldl renumber acc = acc ++ indexFrom acc.length ess.flatten := by
  induction ess with
  | nil => intro acc; simp [indexFrom]
  | cons es ess ih =>
    intro acc
    rw [List.foldl_cons, ih]
    simp only [renumber, List.length_append, indexFrom_length, List.flatten_cons, indexFrom_append,
      List.append_assoc]

/-- **analyze_index_sequential**: the elements `Analyze()` (and `Elements()`) returns for a
selection are the per-page element lists of the selected pages, ascending, concatenated — and
element number `j` of the combined list carries `Index = ZOrder = j`. -/
theorem analyze_index_sequential {L : Type} (pg : Nat → Except E (List L)) (f : Nat → List L)
    (sel : List Int) (n : Nat) (hne : sel ≠ []) (hr : InRange sel n)
    (hpg : ∀ k, k < n → pg k = .ok (f k)) :
    ∃ r, extractAnalysis pg sel n = .ok r ∧
      r.map (·.2) = ((specPages sel n).map f).flatten ∧
      ∀ j : Nat, (r[j]?).map (·.1) = if j < r.length then some j else none := by
  have hcol := collect_ok pg f (specPages sel n) (fun k hk => hpg k ((mem_specPages sel n k).mp hk).1)
  have hemp : (specPages sel n).isEmpty = false := by
    have := C10Life.specPages_ne_nil sel n hne hr
    cases h : specPages sel n with
    | nil => exact absurd h this
    | cons a as => rfl
  refine ⟨indexFrom 0 ((specPages sel n).map f).flatten, ?_, ?_, ?_⟩
  · unfold extractAnalysis analyzeOf
    rw [C10Life.resolve_valid sel n hne hr]
    simp only [hemp, Bool.false_eq_true, if_false, hcol, foldl_renumber, List.nil_append, List.length_nil]
  · apply List.ext_getElem?
    intro j
    rw [List.getElem?_map, indexFrom_getElem?]
    cases ((specPages sel n).map f).flatten[j]? <;> rfl
  · intro j
    rw [indexFrom_getElem?, indexFrom_length]
    generalize ((specPages sel n).map f).flatten = l
    by_cases hj : j < l.length
    · rw [List.getElem?_eq_getElem hj, if_pos hj]; simp
    · have : l[j]? = none := List.getElem?_eq_none_iff.mpr (by omega)
      rw [this, if_neg hj]; rfl

example : extractAnalysis (fun k => .ok (List.replicate (k + 1) (100 + k))) [3, 1] 3
    = .ok [(0, 100), (1, 102), (2, 102), (3, 102)] := by decide

/-- `Analyze` on an empty document is "no pages to process", and a page outside the document
is the range error, as for `Document` -/
theorem analysis_errors {L : Type} (pg : Nat → Except E (List L)) (sel : List Int) (n : Nat) :
    extractAnalysis pg [] 0 = .error .nopages ∧
    (sel ≠ [] → ¬ InRange sel n → extractAnalysis pg sel n = .error .range) := by
  refine ⟨rfl, ?_⟩
  intro hne hr
  unfold extractAnalysis
  rw [C10Life.resolve_invalid sel n hne hr]

/-! ## cross-page summaries: `ReadingOrder().ColumnCount / PageWidth / PageHeight`, `Analyze().Stats` -/

theorem foldl_roStep_cols (ps : List ROPage) : ∀ acc : ROPage,
    (ps.foldl roStep acc).cols = ps.foldl (fun m p => max m p.cols) acc.cols := by
  induction ps with
  | nil => intro acc; rfl
  | cons p ps ih =>
    intro acc
    simp only [List.foldl_cons]
    rw [ih]
    congr 1
    simp only [roStep]
    split <;> omega

theorem foldl_max_ge (l : List Nat) : ∀ m : Nat, m ≤ l.foldl max m ∧ ∀ x ∈ l, x ≤ l.foldl max m := by
  induction l with
  | nil => intro m; exact ⟨Nat.le_refl _, by intro x hx; cases hx⟩
  | cons a l ih =>
    intro m
    obtain ⟨h1, h2⟩ := ih (max m a)
    simp only [List.foldl_cons]
    refine ⟨by omega, ?_⟩
    intro x hx
    simp only [List.mem_cons] at hx
    rcases hx with rfl | hx
    · omega
    · exact h2 x hx

theorem foldl_max_attained (l : List Nat) : ∀ m : Nat, l.foldl max m = m ∨ l.foldl max m ∈ l := by
  induction l with
  | nil => intro m; left; rfl
  | cons a l ih =>
    intro m
    simp only [List.foldl_cons]
    rcases ih (max m a) with h | h
    · rw [h]
      by_cases hm : a ≤ m
      · left; omega
      · right; have : max m a = a := by omega
        rw [this]; exact List.mem_cons_self
    · right; exact List.mem_cons_of_mem _ h

theorem foldl_max_map (ps : List ROPage) (m : Nat) :
    ps.foldl (fun m p => max m p.cols) m = (ps.map (·.cols)).foldl max m := by
  induction ps generalizing m with
  | nil => rfl
  | cons p ps ih => simp only [List.foldl_cons, List.map_cons]; exact ih _

/-- once a non-zero width is recorded, the dimensions stay -/
theorem foldl_roStep_dims_fixed (ps : List ROPage) : ∀ acc : ROPage, acc.w ≠ 0 →
    (ps.foldl roStep acc).w = acc.w ∧ (ps.foldl roStep acc).h = acc.h := by
  induction ps with
  | nil => intro acc _; exact ⟨rfl, rfl⟩
  | cons p ps ih =>
    intro acc h
    simp only [List.foldl_cons]
    have hw : (roStep acc p).w = acc.w := by simp [roStep, h]
    have hh : (roStep acc p).h = acc.h := by simp [roStep, h]
    obtain ⟨a, b⟩ := ih (roStep acc p) (by rw [hw]; exact h)
    exact ⟨by rw [a, hw], by rw [b, hh]⟩

/-- **reading_order_summary**: for a valid selection of readable pages, `ReadingOrder()` reports
as `ColumnCount` the LARGEST column count among the selected pages (and of no other page), and
as `PageWidth` / `PageHeight` the size of the LOWEST selected page (every PDF page has a
non-zero width). -/
theorem reading_order_summary (pg : Nat → Except E ROPage) (f : Nat → ROPage)
    (sel : List Int) (n : Nat) (hne : sel ≠ []) (hr : InRange sel n)
    (hpg : ∀ k, k < n → pg k = .ok (f k)) (hw : ∀ k, k < n → (f k).w ≠ 0) :
    ∃ r k0 rest, extractReadingOrder pg sel n = .ok r ∧ specPages sel n = k0 :: rest ∧
      (∀ k ∈ specPages sel n, (f k).cols ≤ r.cols) ∧
      (r.cols = 0 ∨ ∃ k ∈ specPages sel n, (f k).cols = r.cols) ∧
      r.w = (f k0).w ∧ r.h = (f k0).h := by
  have hcol := collect_ok pg f (specPages sel n) (fun k hk => hpg k ((mem_specPages sel n k).mp hk).1)
  have hnil := C10Life.specPages_ne_nil sel n hne hr
  cases hsp : specPages sel n with
  | nil => exact absurd hsp hnil
  | cons k0 rest =>
    have hk0 : k0 < n := ((mem_specPages sel n k0).mp (by rw [hsp]; exact List.mem_cons_self)).1
    refine ⟨((k0 :: rest).map f).foldl roStep ⟨0, 0, 0⟩, k0, rest, ?_, rfl, ?_, ?_, ?_⟩
    · rw [hsp] at hcol
      unfold extractReadingOrder readingOrderOf
      rw [C10Life.resolve_valid sel n hne hr, hsp]
      simp only [List.isEmpty_cons, Bool.false_eq_true, if_false, hcol]
    · intro k hk
      rw [foldl_roStep_cols, foldl_max_map]
      exact (foldl_max_ge _ 0).2 _ (List.mem_map.mpr ⟨f k, List.mem_map.mpr ⟨k, hk, rfl⟩, rfl⟩)
    · rw [foldl_roStep_cols, foldl_max_map]
      rcases foldl_max_attained (((k0 :: rest).map f).map (·.cols)) 0 with h | h
      · left; exact h
      · right
        obtain ⟨p, hp, hpe⟩ := List.mem_map.mp h
        obtain ⟨k, hk, hkp⟩ := List.mem_map.mp hp
        exact ⟨k, hk, by rw [hkp]; exact hpe⟩
    · simp only [List.map_cons, List.foldl_cons]
      have h1 : (roStep ⟨0, 0, 0⟩ (f k0)).w = (f k0).w := by simp [roStep]
      have h2 : (roStep ⟨0, 0, 0⟩ (f k0)).h = (f k0).h := by simp [roStep]
      obtain ⟨a, b⟩ := foldl_roStep_dims_fixed (rest.map f) (roStep ⟨0, 0, 0⟩ (f k0)) (by rw [h1]; exact hw k0 hk0)
      exact ⟨by rw [a, h1], by rw [b, h2]⟩

example : extractReadingOrder (fun k => .ok ⟨k % 3, 600 + k, 800⟩) [4, 2, 4] 5 = .ok ⟨1, 601, 800⟩ := by decide

theorem foldl_anStep_proj (π : AStats → Nat) (hπ : ∀ a b, π (a.add b) = π a + π b) (ps : List APage) :
    ∀ acc : ASummary, π (ps.foldl anStep acc).stats = π acc.stats + (ps.map fun p => π p.stats).sum := by
  induction ps with
  | nil => intro acc; simp
  | cons p ps ih =>
    intro acc
    simp only [List.foldl_cons, List.map_cons, List.sum_cons]
    rw [ih]
    simp only [anStep, hπ]
    omega

theorem foldl_anStep_col (ps : List APage) : ∀ acc : ASummary, (ps.foldl anStep acc).colCount = acc.colCount := by
  induction ps with
  | nil => intro acc; rfl
  | cons p ps ih => intro acc; simp only [List.foldl_cons]; rw [ih]; rfl

theorem foldl_anStep_dims_fixed (ps : List APage) : ∀ acc : ASummary, acc.w ≠ 0 →
    (ps.foldl anStep acc).w = acc.w ∧ (ps.foldl anStep acc).h = acc.h := by
  induction ps with
  | nil => intro acc _; exact ⟨rfl, rfl⟩
  | cons p ps ih =>
    intro acc h
    simp only [List.foldl_cons]
    have hw : (anStep acc p).w = acc.w := by simp [anStep, h]
    have hh : (anStep acc p).h = acc.h := by simp [anStep, h]
    obtain ⟨a, b⟩ := ih (anStep acc p) (by rw [hw]; exact h)
    exact ⟨by rw [a, hw], by rw [b, hh]⟩

/-- **analysis_stats_sum**: for a valid selection of readable pages every counter of
`Analyze().Stats` is the SUM of that counter over the selected pages — each page once, however
often the selection names it — `Stats.ColumnCount` is 0 (the code never assigns it), and the
page size is that of the lowest selected page. -/
theorem analysis_stats_sum (pg : Nat → Except E APage) (f : Nat → APage)
    (sel : List Int) (n : Nat) (hne : sel ≠ []) (hr : InRange sel n)
    (hpg : ∀ k, k < n → pg k = .ok (f k)) (hw : ∀ k, k < n → (f k).w ≠ 0) :
    ∃ r k0 rest, extractAnalysisSummary pg sel n = .ok r ∧ specPages sel n = k0 :: rest ∧
      r.stats.frag = ((specPages sel n).map fun k => (f k).stats.frag).sum ∧
      r.stats.line = ((specPages sel n).map fun k => (f k).stats.line).sum ∧
      r.stats.block = ((specPages sel n).map fun k => (f k).stats.block).sum ∧
      r.stats.para = ((specPages sel n).map fun k => (f k).stats.para).sum ∧
      r.stats.head = ((specPages sel n).map fun k => (f k).stats.head).sum ∧
      r.stats.list = ((specPages sel n).map fun k => (f k).stats.list).sum ∧
      r.stats.elem = ((specPages sel n).map fun k => (f k).stats.elem).sum ∧
      r.colCount = 0 ∧ r.w = (f k0).w ∧ r.h = (f k0).h := by
  have hcol := collect_ok pg f (specPages sel n) (fun k hk => hpg k ((mem_specPages sel n k).mp hk).1)
  have hnil := C10Life.specPages_ne_nil sel n hne hr
  cases hsp : specPages sel n with
  | nil => exact absurd hsp hnil
  | cons k0 rest =>
    have hk0 : k0 < n := ((mem_specPages sel n k0).mp (by rw [hsp]; exact List.mem_cons_self)).1
    have proj : ∀ (π : AStats → Nat), (∀ a b, π (a.add b) = π a + π b) → π ⟨0, 0, 0, 0, 0, 0, 0⟩ = 0 →
        π (((k0 :: rest).map f).foldl anStep ⟨⟨0, 0, 0, 0, 0, 0, 0⟩, 0, 0, 0⟩).stats =
          ((k0 :: rest).map fun k => π (f k).stats).sum := by
      intro π hπ h0
      rw [foldl_anStep_proj π hπ, h0, List.map_map, Nat.zero_add]
      rfl
    refine ⟨((k0 :: rest).map f).foldl anStep ⟨⟨0, 0, 0, 0, 0, 0, 0⟩, 0, 0, 0⟩, k0, rest, ?_, rfl,
      proj (·.frag) (fun _ _ => rfl) rfl, proj (·.line) (fun _ _ => rfl) rfl,
      proj (·.block) (fun _ _ => rfl) rfl, proj (·.para) (fun _ _ => rfl) rfl,
      proj (·.head) (fun _ _ => rfl) rfl, proj (·.list) (fun _ _ => rfl) rfl,
      proj (·.elem) (fun _ _ => rfl) rfl, foldl_anStep_col _ _, ?_⟩
    · rw [hsp] at hcol
      unfold extractAnalysisSummary analysisSummaryOf
      rw [C10Life.resolve_valid sel n hne hr, hsp]
      simp only [List.isEmpty_cons, Bool.false_eq_true, if_false, hcol]
    · simp only [List.map_cons, List.foldl_cons]
      have h1 : (anStep ⟨⟨0, 0, 0, 0, 0, 0, 0⟩, 0, 0, 0⟩ (f k0)).w = (f k0).w := by simp [anStep]
      have h2 : (anStep ⟨⟨0, 0, 0, 0, 0, 0, 0⟩, 0, 0, 0⟩ (f k0)).h = (f k0).h := by simp [anStep]
      obtain ⟨a, b⟩ := foldl_anStep_dims_fixed (rest.map f) _ (by rw [h1]; exact hw k0 hk0)
      exact ⟨by rw [a, h1], by rw [b, h2]⟩

example : extractAnalysisSummary (fun k => .ok ⟨⟨k, 1, 1, 1, 0, 0, 2⟩, 600 + k, 800⟩) [3, 1, 3] 3
    = .ok ⟨⟨2, 2, 2, 2, 0, 0, 4⟩, 0, 600, 800⟩ := by decide

/-- the summaries fail as the operations do: nothing to process, or the range error -/
theorem summary_errors (pr : Nat → Except E ROPage) (pa : Nat → Except E APage) (sel : List Int) (n : Nat) :
    extractReadingOrder pr [] 0 = .error .nopages ∧ extractAnalysisSummary pa [] 0 = .error .nopages ∧
    (sel ≠ [] → ¬ InRange sel n →
      extractReadingOrder pr sel n = .error .range ∧ extractAnalysisSummary pa sel n = .error .range) := by
  refine ⟨rfl, rfl, ?_⟩
  intro hne hr
  unfold extractReadingOrder extractAnalysisSummary
  rw [C10Life.resolve_invalid sel n hne hr]
  exact ⟨rfl, rfl⟩

end Tabula.C10Meta
