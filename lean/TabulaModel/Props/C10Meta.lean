import TabulaModel.Lemmas.PageSel
import TabulaModel.Props.C10Life
import TabulaModel.Props.C10E2E
/-!
# C10 — page-level metadata of the layout operations

"Page-level metadata refers to the true source page" beyond `Document`/`Chunks`
(`Props/C10.lean: page_number_true`):

* `Headings()` stamps every heading with `PageIndex` = the 0-based index of the page it was
  detected on (`heading_page_index_true`);
* `Analyze()` / `Elements()` renumber `Index`/`ZOrder` so that the combined list is numbered
  0, 1, 2, … across the selected pages, which come in ascending page order
  (`analyze_index_sequential`).
-/
namespace Tabula.C10Meta
open Tabula.PageSel

/-- **heading_page_index_true**: `Pages(S).Headings()` is the per-page heading lists of the
pages of `S` in ascending page order, and every heading carries the index of the page it came
from: `(p, h)` is in the result only if `p` is a selected page and `h` one of ITS headings. -/
theorem heading_page_index_true {H : Type} (pg : Nat → Except E (List H)) (f : Nat → List H)
    (sel : List Int) (n : Nat) (hne : sel ≠ []) (hr : InRange sel n)
    (hpg : ∀ k, k < n → pg k = .ok (f k)) :
    extractHeadings pg sel n = .ok ((specPages sel n).map fun k => stampPage k (f k)).flatten ∧
    ∀ r, extractHeadings pg sel n = .ok r → ∀ p h, (p, h) ∈ r → p ∈ specPages sel n ∧ h ∈ f p := by
  have hres : extractHeadings pg sel n = .ok ((specPages sel n).map fun k => stampPage k (f k)).flatten := by
    unfold extractHeadings headingsOf
    rw [C10Life.resolve_valid sel n hne hr]
    apply C10E2E.fragmentsOf_spec
    intro k hk
    rw [hpg k ((mem_specPages sel n k).mp hk).1]
  refine ⟨hres, ?_⟩
  intro r hr' p h hmem
  rw [hres] at hr'
  cases hr'
  simp only [List.mem_flatten, List.mem_map] at hmem
  obtain ⟨l, ⟨k, hk, rfl⟩, hin⟩ := hmem
  simp only [stampPage, List.mem_map, Prod.mk.injEq] at hin
  obtain ⟨h', hh', rfl, rfl⟩ := hin
  exact ⟨hk, hh'⟩

example : extractHeadings (fun k => .ok (if k = 1 then [] else [10 * k, 10 * k + 1])) [3, 1, 2] 3
    = .ok [(0, 0), (0, 1), (2, 20), (2, 21)] := by decide

theorem indexFrom_append {L : Type} (a b : List L) : ∀ s : Nat,
    indexFrom s (a ++ b) = indexFrom s a ++ indexFrom (s + a.length) b := by
  induction a with
  | nil => intro s; simp [indexFrom]
  | cons x xs ih =>
    intro s
    simp only [List.cons_append, indexFrom, ih, List.length_cons]
    have : s + 1 + xs.length = s + (xs.length + 1) := by omega
    rw [this]

theorem indexFrom_length {L : Type} (l : List L) : ∀ s : Nat, (indexFrom s l).length = l.length := by
  induction l with
  | nil => intro s; rfl
  | cons x xs ih => intro s; simp [indexFrom, ih]

theorem indexFrom_getElem? {L : Type} (l : List L) : ∀ (s j : Nat),
    (indexFrom s l)[j]? = (l[j]?).map fun x => (s + j, x) := by
  induction l with
  | nil => intro s j; simp [indexFrom]
  | cons x xs ih =>
    intro s j
    cases j with
    | zero => simp [indexFrom]
    | succ j =>
      simp only [indexFrom, List.getElem?_cons_succ, ih]
      have : s + 1 + j = s + (j + 1) := by omega
      rw [this]

theorem foldl_renumber {L : Type} (ess : List (List L)) : ∀ acc : List (Nat × L),
    ess.foldl renumber acc = acc ++ indexFrom acc.length ess.flatten := by
  induction ess with
  | nil => intro acc; simp [indexFrom]
  | cons es ess ih =>
    intro acc
    rw [List.foldl_cons, ih]
    simp only [renumber, List.length_append, indexFrom_length, List.flatten_cons, indexFrom_append,
      List.append_assoc]

/-- **analyze_index_sequential**: the elements `Analyze()` (and `Elements()`) returns for a
selection are the per-page element lists of the selected pages, ascending, concatenated — and
element number `j` of the combined list carries `Index = ZOrder = j`. -/
theorem analyze_index_sequential {L : Type} (pg : Nat → Except E (List L)) (f : Nat → List L)
    (sel : List Int) (n : Nat) (hne : sel ≠ []) (hr : InRange sel n)
    (hpg : ∀ k, k < n → pg k = .ok (f k)) :
    ∃ r, extractAnalysis pg sel n = .ok r ∧
      r.map (·.2) = ((specPages sel n).map f).flatten ∧
      ∀ j : Nat, (r[j]?).map (·.1) = if j < r.length then some j else none := by
  have hcol := collect_ok pg f (specPages sel n) (fun k hk => hpg k ((mem_specPages sel n k).mp hk).1)
  have hemp : (specPages sel n).isEmpty = false := by
    have := C10Life.specPages_ne_nil sel n hne hr
    cases h : specPages sel n with
    | nil => exact absurd h this
    | cons a as => rfl
  refine ⟨indexFrom 0 ((specPages sel n).map f).flatten, ?_, ?_, ?_⟩
  · unfold extractAnalysis analyzeOf
    rw [C10Life.resolve_valid sel n hne hr]
    simp only [hemp, Bool.false_eq_true, if_false, hcol, foldl_renumber, List.nil_append, List.length_nil]
  · apply List.ext_getElem?
    intro j
    rw [List.getElem?_map, indexFrom_getElem?]
    cases ((specPages sel n).map f).flatten[j]? <;> rfl
  · intro j
    rw [indexFrom_getElem?, indexFrom_length]
    generalize ((specPages sel n).map f).flatten = l
    by_cases hj : j < l.length
    · rw [List.getElem?_eq_getElem hj, if_pos hj]; simp
    · have : l[j]? = none := List.getElem?_eq_none_iff.mpr (by omega)
      rw [this, if_neg hj]; rfl

example : extractAnalysis (fun k => .ok (List.replicate (k + 1) (100 + k))) [3, 1] 3
    = .ok [(0, 100), (1, 102), (2, 102), (3, 102)] := by decide

/-- `Analyze` on an empty document is "no pages to process", and a page outside the document
is the range error, as for `Document` -/
theorem analysis_errors {L : Type} (pg : Nat → Except E (List L)) (sel : List Int) (n : Nat) :
    extractAnalysis pg [] 0 = .error .nopages ∧
    (sel ≠ [] → ¬ InRange sel n → extractAnalysis pg sel n = .error .range) := by
  refine ⟨rfl, ?_⟩
  intro hne hr
  unfold extractAnalysis
  rw [C10Life.resolve_invalid sel n hne hr]

end Tabula.C10Meta
