import TabulaModel.Props.C01Reader
/-!
# C01 — reader-level laws for every file: page count, page by page, content order

`Props/C01Reader.lean` proves that `Reader.readPages` does not depend on the physical layout;
`read_render_partial` ties it to the logical document for files the reference writer emits.
This file proves, for EVERY abstract file / resolver (no writer, no well-formedness
hypothesis), the three remaining words of the statement at the level of the whole reader:

* "the reported page count equals the number of page leaves": `read_page_count_is_leaves`
  (`readPages`), `readWith_page_count` — so far proved only for `PdfDoc.traverse`
  (`C01.page_count_is_leaves`), i.e. below the resolver;
* "page by page": `pagesOfSpecs_ok_iff`, `pagesOfSpecs_error_iff`, `pagesOfSpecs_append`,
  `readWith_page` — page `i` of the answer is `pageStrings` of leaf `i`'s own `/Contents`
  and effective `/Resources`, nothing else; the answer is an error exactly when some page
  fails, and the error is that of the first failing page;
* "in content order": `run_append`, `run_frame`, `run_out_extends`, `run_prefix_stable` — the
  strings shown by a prefix of the operations are a prefix of the page's strings, whatever
  follows; `step_other`, `run_filter` — operators other than `q Q Tf Tj ' " TJ Do` never
  change the reported text.
Core Lean only.
-/
namespace Tabula.C01M
open Tabula.Reader
open Tabula.Pdf (Obj)

/-! ## 1 page count = number of page leaves, for the whole reader -/

mutual
theorem leafDicts_length (t : RTree) : (leafDicts t).length = PdfDoc.countLeaves (toPTree t) := by
  cases t with
  | leaf d => simp [leafDicts, toPTree, PdfDoc.countLeaves]
  | node d kids => simp only [leafDicts, toPTree, PdfDoc.countLeaves]; exact leafDictsList_length kids
theorem leafDictsList_length (ts : List RTree) :
    (leafDictsList ts).length = PdfDoc.countLeavesList (toPTreeList ts) := by
  cases ts with
  | nil => simp [leafDictsList, toPTreeList, PdfDoc.countLeavesList]
  | cons t ts =>
    simp only [leafDictsList, toPTreeList, PdfDoc.countLeavesList, List.length_append,
      leafDicts_length t, leafDictsList_length ts]
end

/-- one page specification per `/Page` leaf, on every resolved tree -/
theorem pageSpecs_length (t : RTree) : (pageSpecs t).length = PdfDoc.countLeaves (toPTree t) := by
  simp [pageSpecs, List.length_zip, leafDicts_length, C01.flatten_length]

/-- a successful answer has one entry per specification -/
theorem pagesOfSpecs_length (res : Res) (ext : Ext) (specs : List (Option Obj × Option Obj)) :
    ∀ ps, pagesOfSpecs res ext specs = .ok ps → ps.length = specs.length := by
  induction specs with
  | nil => intro ps h; cases h; rfl
  | cons s specs ih =>
    intro ps h
    obtain ⟨d, r⟩ := s
    simp only [pagesOfSpecs] at h
    split at h
    · cases h
    · split at h
      · cases h
      · next q hq => cases h; simp [ih q hq]

/-- non-vacuity: a page without `/Contents` is read as an empty page -/
example (res : Res) (ext : Ext) : pagesOfSpecs res ext [(none, none)] = .ok [[]] := rfl

/-- **page count = number of page leaves** above any resolver: when `readWith` answers, the
walk delivered a tree, the answer has one entry per `/Page` leaf of that tree, and the tree
has at most 10000 levels. -/
theorem readWith_page_count (res : Res) (ext : Ext) (fuel : Nat) (root : Option Nat) (pages : List (List Str))
    (h : readWith res ext fuel root = .ok pages) :
    ∃ t, pageTree res fuel root = .ok t ∧ pages.length = PdfDoc.countLeaves (toPTree t) ∧
      PdfDoc.height (toPTree t) ≤ PdfDoc.maxPageTreeDepth := by
  unfold readWith at h
  split at h
  · cases h
  · next t ht =>
    refine ⟨t, ht, ?_, pageTree_height res fuel root t ht⟩
    rw [pagesOfSpecs_length res ext (pageSpecs t) pages h, pageSpecs_length]

/-- **the reported page count equals the number of page leaves**, for every abstract file -/
theorem read_page_count_is_leaves (f : AbsFile) (ext : Ext) (pages : List (List Str))
    (h : readPages f ext = .ok pages) :
    ∃ t, pageTree (getObject f ext) (fuelOf f) (rootOf f) = .ok t ∧
      pages.length = PdfDoc.countLeaves (toPTree t) ∧
      PdfDoc.height (toPTree t) ≤ PdfDoc.maxPageTreeDepth := by
  unfold readPages at h
  split at h
  · cases h
  · exact readWith_page_count _ ext _ _ pages h

/-- a resolver holding a catalog (1), a `/Pages` node (2) and one `/Page` leaf (3) -/
def exRes : Res := fun n =>
  if n = 1 then .ok (.obj (.dict [(kPages, .ref 2 0)]))
  else if n = 2 then .ok (.obj (.dict [(kType, .name kPages), (kCount, .int 1), (kKids, .arr [.ref 3 0])]))
  else if n = 3 then .ok (.obj (.dict [(kType, .name kPage)]))
  else .error .err

/-- non-vacuity of `readWith_page_count` / `readWith_page`: one leaf, one (empty) page -/
example (ext : Ext) : readWith exRes ext 10 (some 1) = .ok [[]] := by
  simp [readWith, pageTree, exRes, dget, resolve, buildNode, buildKids, visitKidsRef, kPages, kType,
    kCount, kKids, kPage, PdfDoc.maxPageTreeDepth, pagesOfTree, pageSpecs, leafDicts, leafDictsList,
    toPTree, toPTreeList, PdfDoc.flatten, PdfDoc.flattenList, pagesOfSpecs, pageStrings, contentBytes,
    kContents]

/-! ## 2 page by page -/

/-- **each page is read on its own**: the answer is `ps` exactly when there is one entry per
specification and entry `i` is what `pageStrings` reports for specification `i` alone -/
theorem pagesOfSpecs_ok_iff (res : Res) (ext : Ext) (specs : List (Option Obj × Option Obj)) :
    ∀ ps, pagesOfSpecs res ext specs = .ok ps ↔
      ps.length = specs.length ∧ ∀ sp ∈ specs.zip ps, pageStrings res ext sp.1.1 sp.1.2 = .ok sp.2 := by
  induction specs with
  | nil =>
    intro ps
    cases ps with
    | nil => simp [pagesOfSpecs]
    | cons p ps => simp [pagesOfSpecs]
  | cons s specs ih =>
    intro ps
    obtain ⟨d, r⟩ := s
    cases ps with
    | nil =>
      constructor
      · intro h
        simp only [pagesOfSpecs] at h
        split at h
        · cases h
        · split at h <;> cases h
      · rintro ⟨hl, _⟩
        simp at hl
    | cons p ps =>
      have hih := ih ps
      simp only [List.length_cons, List.zip_cons_cons, List.mem_cons, forall_eq_or_imp,
        Nat.add_right_cancel_iff]
      constructor
      · intro h
        simp only [pagesOfSpecs] at h
        split at h
        · cases h
        · next p0 hp =>
          split at h
          · cases h
          · next q hq =>
            cases h
            have := hih.mp hq
            exact ⟨this.1, hp, this.2⟩
      · rintro ⟨hl, hp, hall⟩
        have hq := hih.mpr ⟨hl, hall⟩
        have hp' : pageStrings res ext d r = .ok p := hp
        simp only [pagesOfSpecs]
        rw [hp', hq]

/-- the pages of two runs of leaves are read independently and in order -/
theorem pagesOfSpecs_append (res : Res) (ext : Ext) (a b : List (Option Obj × Option Obj)) :
    pagesOfSpecs res ext (a ++ b) =
      match pagesOfSpecs res ext a with
      | .error e => .error e
      | .ok pa =>
        match pagesOfSpecs res ext b with
        | .error e => .error e
        | .ok pb => .ok (pa ++ pb) := by
  induction a with
  | nil =>
    simp only [List.nil_append, pagesOfSpecs]
    cases pagesOfSpecs res ext b <;> rfl
  | cons s a ih =>
    obtain ⟨d, r⟩ := s
    simp only [List.cons_append, pagesOfSpecs, ih]
    cases pageStrings res ext d r with
    | error e => rfl
    | ok p =>
      cases pagesOfSpecs res ext a with
      | error e => rfl
      | ok pa =>
        cases pagesOfSpecs res ext b with
        | error e => rfl
        | ok pb => rfl

/-- **the reader fails exactly when some page fails, with the error of the first such page**
(all pages before it are readable) -/
theorem pagesOfSpecs_error_iff (res : Res) (ext : Ext) (specs : List (Option Obj × Option Obj)) (e : Err) :
    pagesOfSpecs res ext specs = .error e ↔
      ∃ (a : List (Option Obj × Option Obj)) (s : Option Obj × Option Obj) (b : List (Option Obj × Option Obj)) (pa : List (List Str)),
        specs = a ++ s :: b ∧ pagesOfSpecs res ext a = .ok pa ∧
        pageStrings res ext s.1 s.2 = .error e := by
  constructor
  · induction specs with
    | nil => intro h; cases h
    | cons s specs ih =>
      intro h
      obtain ⟨d, r⟩ := s
      simp only [pagesOfSpecs] at h
      cases hp : pageStrings res ext d r with
      | error e' =>
        rw [hp] at h
        cases h
        exact ⟨[], (d, r), specs, [], rfl, rfl, hp⟩
      | ok p =>
        rw [hp] at h
        cases hq : pagesOfSpecs res ext specs with
        | ok q => rw [hq] at h; cases h
        | error e' =>
          rw [hq] at h
          cases h
          obtain ⟨a, s, b, pa, rfl, ha, hs⟩ := ih hq
          refine ⟨(d, r) :: a, s, b, p :: pa, rfl, ?_, hs⟩
          simp [pagesOfSpecs, hp, ha]
  · rintro ⟨a, s, b, pa, rfl, ha, hs⟩
    obtain ⟨d, r⟩ := s
    rw [pagesOfSpecs_append, ha]
    simp only [pagesOfSpecs]
    rw [hs]

/-- non-vacuity of the error side: a `/Contents` that names a missing object -/
example (ext : Ext) : pagesOfSpecs (fun _ => .error .err) ext [(none, none), (some (.ref 5 0), none)] = .error .err := by
  simp [pagesOfSpecs, pageStrings, contentBytes, resolve]

/-- page `i` of the answer is the text of specification `i` -/
theorem pagesOfSpecs_page (res : Res) (ext : Ext) (specs : List (Option Obj × Option Obj)) :
    ∀ ps, pagesOfSpecs res ext specs = .ok ps → ∀ (i : Nat) (s : Option Obj × Option Obj), specs[i]? = some s →
      ∃ p, ps[i]? = some p ∧ pageStrings res ext s.1 s.2 = .ok p := by
  induction specs with
  | nil => intro ps _ i s hs; simp at hs
  | cons s0 specs ih =>
    intro ps h i s hs
    obtain ⟨d, r⟩ := s0
    simp only [pagesOfSpecs] at h
    split at h
    · cases h
    · next p hp =>
      split at h
      · cases h
      · next q hq =>
        cases h
        cases i with
        | zero =>
          simp at hs
          subst hs
          exact ⟨p, by simp, hp⟩
        | succ i =>
          simp at hs
          obtain ⟨p', h1, h2⟩ := ih q hq i s hs
          exact ⟨p', by simpa using h1, h2⟩

/-- **page by page, at the reader**: when `readWith` answers, entry `i` of the answer is what
`pageStrings` reports for the `/Contents` entry of the `i`-th `/Page` leaf (left to right)
under that leaf's effective `/Resources` (`PdfDoc.flatten`: own entry, else the nearest
ancestor's). No other page, and nothing else of the leaf, has a say. -/
theorem readWith_page (res : Res) (ext : Ext) (fuel : Nat) (root : Option Nat) (pages : List (List Str))
    (h : readWith res ext fuel root = .ok pages) :
    ∃ t, pageTree res fuel root = .ok t ∧
      ∀ (i : Nat) (d : Dict) (a : PdfDoc.AttrsOf Obj), (leafDicts t)[i]? = some d → (PdfDoc.flatten (toPTree t) {})[i]? = some a →
        ∃ p, pages[i]? = some p ∧ pageStrings res ext (dget d kContents) a.res = .ok p := by
  unfold readWith at h
  split at h
  · cases h
  · next t ht =>
    refine ⟨t, ht, ?_⟩
    intro i d a hd ha
    have hs : (pageSpecs t)[i]? = some (dget d kContents, a.res) := by
      simp [pageSpecs, List.getElem?_zip_eq_some, List.getElem?_map, hd, ha]
    exact pagesOfSpecs_page res ext (pageSpecs t) pages h i _ hs

/-! ## 3 content order -/

/-- the state with `pre` put in front of the strings shown so far -/
def addOut (pre : List Str) (st : IState) : IState := { st with out := pre ++ st.out }

/-- `addOut` under a result -/
def liftOut (pre : List Str) : Except Err IState → Except Err IState
  | .ok s => .ok (addOut pre s)
  | .error e => .error e

theorem showOne_frame (env : Env) (pre : List Str) (st : IState) (data : Str) :
    showOne env (addOut pre st) data = liftOut pre (showOne env st data) := by
  have hc : (addOut pre st).cur = st.cur := rfl
  unfold showOne
  rw [hc]
  cases decodeShown env.res env.ext env.fonts st.cur data with
  | error e => rfl
  | ok s => simp [liftOut, addOut, List.append_assoc]

theorem showArray_frame (env : Env) (pre : List Str) (xs : List Obj) :
    ∀ st, showArray env (addOut pre st) xs = liftOut pre (showArray env st xs) := by
  induction xs with
  | nil => intro st; rfl
  | cons x xs ih =>
    intro st
    cases x with
    | str s =>
      simp only [showArray, showOne_frame]
      cases showOne env st s with
      | error e => rfl
      | ok st' => simp only [liftOut]; exact ih st'
    | _ => simp only [showArray]; exact ih st

/-- **one operation does not look at the strings shown before it**: it only appends -/
theorem step_frame (env : Env) (pre : List Str) (st : IState) (op : Pdf.CS.Operation) :
    step env (addOut pre st) op = liftOut pre (step env st op) := by
  have hc : (addOut pre st).cur = st.cur := rfl
  have hs : (addOut pre st).stack = st.stack := rfl
  unfold step
  rw [hc, hs]
  by_cases h1 : op.op = opq
  · simp only [if_pos h1]; rfl
  by_cases h2 : op.op = opQ
  · simp only [if_neg h1, if_pos h2]
    split <;> rfl
  by_cases h3 : op.op = opTf
  · simp only [if_neg h1, if_neg h2, if_pos h3]
    split
    · split <;> rfl
    · rfl
  by_cases h4 : op.op = opTj ∨ op.op = opQuote
  · simp only [if_neg h1, if_neg h2, if_neg h3, if_pos h4]
    split
    · exact showOne_frame env pre st _
    · rfl
  by_cases h5 : op.op = opTJ
  · simp only [if_neg h1, if_neg h2, if_neg h3, if_neg h4, if_pos h5]
    split
    · exact showArray_frame env pre _ st
    · rfl
  by_cases h6 : op.op = opDQuote
  · simp only [if_neg h1, if_neg h2, if_neg h3, if_neg h4, if_neg h5, if_pos h6]
    split
    · exact showOne_frame env pre st _
    · rfl
  by_cases h7 : op.op = opDo
  · simp only [if_neg h1, if_neg h2, if_neg h3, if_neg h4, if_neg h5, if_neg h6, if_pos h7]
    split
    · split
      · rfl
      · split <;> rfl
    · rfl
  simp only [if_neg h1, if_neg h2, if_neg h3, if_neg h4, if_neg h5, if_neg h6, if_neg h7]
  rfl

/-- the interpretation of a content stream does not look at the strings shown before -/
theorem run_frame (env : Env) (pre : List Str) (ops : List Pdf.CS.Operation) :
    ∀ st, run env (addOut pre st) ops = liftOut pre (run env st ops) := by
  induction ops with
  | nil => intro st; rfl
  | cons op ops ih =>
    intro st
    simp only [run, step_frame]
    cases step env st op with
    | error e => rfl
    | ok st' => simp only [liftOut]; exact ih st'

/-- interpreting `a ++ b` is interpreting `a`, then `b` from the state `a` left -/
theorem run_append (env : Env) (a b : List Pdf.CS.Operation) :
    ∀ st, run env st (a ++ b) =
      match run env st a with
      | .ok st' => run env st' b
      | .error e => .error e := by
  induction a with
  | nil => intro st; rfl
  | cons op a ih =>
    intro st
    simp only [List.cons_append, run]
    cases step env st op with
    | error e => rfl
    | ok st' => exact ih st'

/-- **shown strings are only ever appended**: after any operations, the strings shown before
are still there, in front and unchanged -/
theorem run_out_extends (env : Env) (ops : List Pdf.CS.Operation) (st st' : IState)
    (h : run env st ops = .ok st') : ∃ more, st'.out = st.out ++ more := by
  have hst : st = addOut st.out { st with out := [] } := by
    simp [addOut]
  rw [hst, run_frame] at h
  cases hr : run env { st with out := [] } ops with
  | error e => rw [hr] at h; cases h
  | ok s =>
    rw [hr] at h
    simp only [liftOut, Except.ok.injEq] at h
    exact ⟨s.out, by rw [← h]; rfl⟩

/-- **content order**: the strings shown by the first part of a content stream are reported
first, whatever operations follow (they form a prefix of the page's strings) -/
theorem run_prefix_stable (env : Env) (a b : List Pdf.CS.Operation) (st s : IState)
    (h : run env st (a ++ b) = .ok s) : ∃ sa, run env st a = .ok sa ∧ sa.out <+: s.out := by
  rw [run_append] at h
  cases ha : run env st a with
  | error e => rw [ha] at h; cases h
  | ok sa =>
    rw [ha] at h
    obtain ⟨more, hm⟩ := run_out_extends env b sa s h
    exact ⟨sa, rfl, more, hm.symm⟩

/-- non-vacuity: `(A) Tj` with no font shows one string -/
example (res : Res) (ext : Ext) :
    run ⟨res, ext, none, none⟩ {} ([⟨opTj, [.str [65]]⟩] ++ []) =
      .ok { out := [FontDecode.showTextNoFont ext.nfc [65]] } := rfl

/-- the operators that decide text -/
def textOps : List Str := [opq, opQ, opTf, opTj, opQuote, opTJ, opDQuote, opDo]

/-- any other operator leaves the state as it is -/
theorem step_other (env : Env) (st : IState) (op : Pdf.CS.Operation) (h : op.op ∉ textOps) :
    step env st op = .ok st := by
  simp only [textOps, List.mem_cons, List.not_mem_nil, or_false, not_or] at h
  obtain ⟨h1, h2, h3, h4, h5, h6, h7, h8⟩ := h
  simp only [step, h1, h2, h3, h4, h5, h6, h7, h8, or_self, ↓reduceIte]

/-- non-vacuity: `BT` is not a text-deciding operator -/
example : ([66, 84] : Str) ∉ textOps := by decide

/-- **operators other than `q Q Tf Tj ' " TJ Do` never change the reported text**: dropping
them from the operations of a page gives the same result -/
theorem run_filter (env : Env) (ops : List Pdf.CS.Operation) :
    ∀ st, run env st ops = run env st (ops.filter fun o => decide (o.op ∈ textOps)) := by
  induction ops with
  | nil => intro st; rfl
  | cons op ops ih =>
    intro st
    by_cases h : op.op ∈ textOps
    · simp only [List.filter_cons, h, decide_true, ↓reduceIte, run]
      cases step env st op with
      | error e => rfl
      | ok st' => exact ih st'
    · simp only [List.filter_cons, h, decide_false, run, step_other env st op h]
      exact ih st

/-- the same at `ExtractFromBytes`: the strings a content stream shows are decided by its
text-deciding operations alone (in their order) -/
theorem showStrings_text_ops (res : Res) (ext : Ext) (effRes : Option Obj) (content : Str)
    (ops : List Pdf.CS.Operation) (h : Pdf.CS.csParse content = some ops) :
    showStrings res ext effRes content =
      match run { res := res, ext := ext, rdict := resourcesDict res effRes,
                  fonts := fontsOf res (resourcesDict res effRes) } {}
              (ops.filter fun o => decide (o.op ∈ textOps)) with
      | .ok st => .ok st.out
      | .error e => .error e := by
  unfold showStrings
  rw [h]
  simp only
  rw [← run_filter]
  rfl

open Tabula.Pdf in
/-- non-vacuity: the empty content parses (to no operations) -/
example : ∃ ops, Pdf.CS.csParse [] = some ops := by
  have := C06.cs_roundtrip [] [] trivial (fun _ h => by cases h) (fun _ h => by cases h)
  simp only [renderOps, renderSep, List.flatMap_nil, List.append_nil, List.map_nil] at this
  exact ⟨_, this⟩

end Tabula.C01M
