import TabulaModel.Props.C14Statement
import TabulaModel.Lemmas.ExportDecode
/-!
# C14 (part 7) — parse-back gives the SAME CHUNKS

`Props/C14Statement.lean` shows that an export reads back to one record per chunk whose members /
cells are functions of the chunk's own fields.  Here the last step of the property text is made
explicit: the INVERSE READER of `Model/ExportDecode.lean` (what a consumer does with the parsed
records: `omitempty` member absent = zero value, `%d`, `%t`, level names, `[a,b,c]` cells) applied
to the parsed export returns the chunks themselves — id, text and all eighteen exported metadata
fields — for every collection and every configuration, up to the projection the configuration
itself asks for (`projectChunk`: no text without IncludeText, no field that IncludeMetadata /
MetadataFields exclude).  With the library's full configurations the projection is the identity,
so exports are INJECTIVE: two collections with the same JSON / JSON Lines text are equal.  For
CSV/TSV the same holds except for list-valued metadata with a comma inside an element (known
finding C14/csv-field-meta-list): `_partial` + a collection-level counterexample.
-/
namespace Tabula.C14Decode
open Tabula.Export Tabula.Csv Tabula.Json Tabula.C14 Tabula.C14Meta Tabula.C14Api Tabula.C14Json Tabula.C14S
open Tabula.Split (validUtf8)

/-! ## the conventions are invertible -/

/-- `%d` text reads back to the integer (strict reader: optional `-`, digits only), the four level
names read back to the level, `%t` text to the flag — for every value the exporter can write -/
theorem scalar_conventions_invert :
    (∀ i : Int, readInt (decInt i) = some i) ∧
    (∀ l : Int, 0 ≤ l → l ≤ 3 → levelOfString (levelString l) = some l) ∧
    (∀ b : Bool, readBoolCellS (boolStr b) = some b) ∧
    (∀ l : List Str, jStrsOpt (some (jStrs l)) = some l) :=
  ⟨readInt_decInt, levelOfString_levelString, readBoolCellS_boolStr,
    fun l => by simp only [jStrsOpt, jStrs]; exact jStrItems_map l⟩

/-- why the level must be one of the four constants: any other value is written `unknown`, which
no reader can map back (5 and 6 are written alike) -/
theorem level_out_of_range_counterexample :
    levelString 5 = levelString 6 ∧ levelOfString (levelString 5) = none := by decide

/-- with text and all metadata included (every configuration the library's `ToJSON`, `ToJSONL`,
`ToCSV`, `ToTSV`, `NewExporter`, `NewBatchExporter`, `NewStreamExporter` use) the projection is
the identity: nothing of a chunk is left out of an export -/
theorem project_full (b : Bool) (cfg : Config) (c : Chunk)
    (ht : cfg.includeText = true) (hm : cfg.includeMetadata = true) (hf : cfg.metadataFields = none) :
    projectChunk b cfg c = c := by
  have hk : ∀ k, keepMeta cfg k = true := by
    intro k; simp [keepMeta, hm, allowedField, hf]
  simp [projectChunk, hk, ht]

example : ∀ cfg ∈ [defaultExportConfig, jsonlExportConfig, csvExportConfig, tsvExportConfig, toJSONConfig],
    cfg.includeText = true ∧ cfg.includeMetadata = true ∧ cfg.metadataFields = none := by decide

/-! ## JSON records -/

/-- the `metadata` member of a record is absent or a JSON object (the filtered metadata map) -/
theorem record_metadata_member (cfg : Config) (c : Chunk) :
    (recordJ cfg c).get kMetadata =
      (match (prepareChunkForExport cfg c).metadata with
       | some m => if m.isEmpty then none else some (mapToJ m)
       | none => none) := by
  have hpath : getMember kMetadata (if (prepareChunkForExport cfg c).sectionPath.isEmpty then []
      else [(kSectionPath, jStrs (prepareChunkForExport cfg c).sectionPath)]) = none := by
    by_cases hp : (prepareChunkForExport cfg c).sectionPath.isEmpty = true
    · simp [hp, getMember]
    · simp (decide := true) [hp, getMember]
  simp only [recordJ, exportedToJ, J.get, getMember_append, hpath]
  simp (decide := true) only [getMember_omitStr, getMember_omitInt, getMember_omitBool]
  cases (prepareChunkForExport cfg c).metadata with
  | none => simp [getMember]
  | some m =>
    by_cases he : m.isEmpty = true
    · simp [he, getMember]
    · simp (decide := true) [he, getMember]

/-- ONE RECORD BACK TO ITS CHUNK (JSON, JSON Lines, stream): the decoder applied to the JSON object
of a chunk returns the chunk's id, its text (when included) and every metadata field the
configuration exports, with the chunk's own values; absent members are the zero values. -/
theorem json_record_decodes (cfg : Config) (c : Chunk) (hn : chunkNormal c = true) :
    decodeRecord (recordJ cfg c) = some (projectChunk true cfg c) := by
  obtain ⟨f1, f2, f3, f4, f5, f6, f7, f8, f9, f10, f11, f12, f13⟩ := record_json_fields cfg c
  have fm := record_metadata_member cfg c
  simp only [chunkNormal, Bool.and_eq_true, decide_eq_true_eq] at hn
  obtain ⟨⟨⟨⟨⟨⟨n1, n2⟩, n3⟩, n4⟩, n5⟩, n6⟩, n7⟩ := hn
  obtain ⟨ms, hms⟩ : ∃ ms, recordJ cfg c = .obj ms := ⟨_, rfl⟩
  rw [hms] at f1 f2 f3 f4 f5 f6 f7 f8 f9 f10 f11 f12 f13 fm ⊢
  simp only [J.get] at f1 f2 f3 f4 f5 f6 f7 f8 f9 f10 f11 f12 f13 fm
  have hmm : ∃ mm, metadataMembers ms = some mm ∧
      ∀ k, getMember k mm = (exportedMeta cfg c.md k).map valToJ := by
    cases hg : getMember kMetadata ms with
    | none =>
      refine ⟨[], by simp [metadataMembers, hg], ?_⟩
      intro k
      rw [f13 hg k]; rfl
    | some mj =>
      obtain ⟨_, hk⟩ := f12 mj hg
      rw [hg] at fm
      cases hmd : (prepareChunkForExport cfg c).metadata with
      | none => rw [hmd] at fm; cases fm
      | some m =>
        rw [hmd] at fm
        by_cases he : m.isEmpty = true
        · simp [he] at fm
        · simp only [he, Bool.false_eq_true, if_false, Option.some.injEq] at fm
          refine ⟨sortMembers (valsToJ m), by simp [metadataMembers, hg, fm, mapToJ], ?_⟩
          intro k
          have := hk k
          rw [fm] at this
          exact this
  obtain ⟨mm, hm1, hm2⟩ := hmm
  simp only [decodeRecord, hm1, Option.bind_some, f1, f2, f3, f4, f5, f6, f7, f8, f9, f10, f11, hm2,
    exportedMeta_keep, metaField_headingLevel, metaField_totalChunks, metaField_level, metaField_parentId,
    metaField_childIds, metaField_elementTypes, metaField_charCount, metaField_wordCount,
    metaField_estimatedTokens, jStrOpt_omit, jIntOpt_omit, jBoolOpt_omit, jStrsOpt_omit, jStrOpt_text,
    jIntOpt_positive _ _ n1, jIntOpt_positive _ _ n2, jIntOpt_positive _ _ n3, jIntOpt_positive _ _ n4,
    jIntOpt_positive _ _ n5, jLevelOpt_level _ _ n6 n7, jStrOpt_nonempty, jStrsOpt_nonempty]
  simp [projectChunk]

example : chunkNormal { id := [99], text := [34, 44], md := { headingLevel := 2, level := 3, pageStart := -4 } } = true := by
  decide

/-- why `chunkNormal`: a negative count is not exported (`if meta.CharCount > 0`), so it reads back
as 0 — the assumption "absent = zero" of the property, not a defect -/
theorem negative_count_counterexample :
    decodeRecord (recordJ defaultExportConfig { id := [99], text := [], md := { charCount := -1 } }) =
      some { id := [99], text := [], md := { charCount := 0 } } := by
  have := json_record_decodes defaultExportConfig { id := [99], text := [], md := {} } (by decide)
  rw [project_full true defaultExportConfig _ rfl rfl rfl] at this
  have e : recordJ defaultExportConfig { id := [99], text := [], md := { charCount := -1 } } =
      recordJ defaultExportConfig { id := [99], text := [], md := {} } := by
    simp (decide := true) [recordJ, prepareChunkForExport, chunkMetadataToMap, defaultExportConfig, filterMetadata]
  rw [e, this]

/-- all records of a JSON / JSON Lines export back to the collection -/
theorem json_records_decode (cfg : Config) (chunks : List Chunk) (hn : ∀ c ∈ chunks, chunkNormal c = true) :
    decodeRecords (chunks.map (recordJ cfg)) = some (chunks.map (projectChunk true cfg)) :=
  mapOpt_map' decodeRecord (recordJ cfg) (projectChunk true cfg) chunks
    (fun c hc => json_record_decodes cfg c (hn c hc))

/-- SAME CHUNKS (JSON and JSON Lines): for every collection of well-formed-UTF-8 chunks and every
configuration, the export text, read by the standard JSON reader and then by the decoder, is the
collection itself (up to the configuration's own projection), in order. -/
theorem export_json_same_chunks (cfg : Config) (hf : cfg.format = .json ∨ cfg.format = .jsonl)
    (chunks : List Chunk) (hv : ∀ c ∈ chunks, chunkValid c = true) (hn : ∀ c ∈ chunks, chunkNormal c = true) :
    ∃ text, exportToString cfg chunks = some text ∧
      decodeExport cfg text = some (chunks.map (projectChunk true cfg)) := by
  rcases hf with hf | hf
  · obtain ⟨text, h1, h2⟩ := export_json_parses_back cfg hf chunks hv
    exact ⟨text, h1, by simp only [decodeExport, hf, h2]; exact json_records_decode cfg chunks hn⟩
  · obtain ⟨text, h1, h2, _⟩ := export_jsonl_parses_back cfg hf chunks hv
    exact ⟨text, h1, by simp only [decodeExport, hf, h2, Option.bind_some]; exact json_records_decode cfg chunks hn⟩

/-- … and with a full configuration (text and all metadata) the collection comes back unchanged -/
theorem export_json_identity (cfg : Config) (hf : cfg.format = .json ∨ cfg.format = .jsonl)
    (ht : cfg.includeText = true) (hm : cfg.includeMetadata = true) (hfl : cfg.metadataFields = none)
    (chunks : List Chunk) (hv : ∀ c ∈ chunks, chunkValid c = true) (hn : ∀ c ∈ chunks, chunkNormal c = true) :
    ∃ text, exportToString cfg chunks = some text ∧ decodeExport cfg text = some chunks := by
  obtain ⟨text, h1, h2⟩ := export_json_same_chunks cfg hf chunks hv hn
  refine ⟨text, h1, ?_⟩
  rw [h2]
  congr 1
  conv => rhs; rw [← List.map_id chunks]
  exact List.map_congr_left (fun c _ => project_full true cfg c ht hm hfl)

/-- INJECTIVITY: under a full configuration two collections with the same JSON / JSON Lines text
are the same collection — no two different collections are confused by the export. -/
theorem export_json_injective (cfg : Config) (hf : cfg.format = .json ∨ cfg.format = .jsonl)
    (ht : cfg.includeText = true) (hm : cfg.includeMetadata = true) (hfl : cfg.metadataFields = none)
    (cs1 cs2 : List Chunk)
    (hv1 : ∀ c ∈ cs1, chunkValid c = true) (hn1 : ∀ c ∈ cs1, chunkNormal c = true)
    (hv2 : ∀ c ∈ cs2, chunkValid c = true) (hn2 : ∀ c ∈ cs2, chunkNormal c = true)
    (h : exportToString cfg cs1 = exportToString cfg cs2) : cs1 = cs2 := by
  obtain ⟨t1, a1, b1⟩ := export_json_identity cfg hf ht hm hfl cs1 hv1 hn1
  obtain ⟨t2, a2, b2⟩ := export_json_identity cfg hf ht hm hfl cs2 hv2 hn2
  rw [a1, a2] at h
  injection h with h
  subst h
  rw [b1] at b2
  injection b2

/-- PUBLIC API: `ToJSON` and `ToJSONL` of any collection decode to exactly that collection -/
theorem to_json_same_chunks (chunks : List Chunk)
    (hv : ∀ c ∈ chunks, chunkValid c = true) (hn : ∀ c ∈ chunks, chunkNormal c = true) :
    (∃ text, toJSON chunks = some text ∧ decodeExport toJSONConfig text = some chunks) ∧
    (∃ text, toJSONL chunks = some text ∧ decodeExport jsonlExportConfig text = some chunks) :=
  ⟨export_json_identity toJSONConfig (Or.inl rfl) rfl rfl rfl chunks hv hn,
   export_json_identity jsonlExportConfig (Or.inr rfl) rfl rfl rfl chunks hv hn⟩

/-! ## histories: streams and batches decode to the chunks written / exported -/

/-- HISTORY (stream): after ANY sequence of `WriteChunk` / `Close` calls on a JSON or JSON Lines
stream, the bytes written decode — line by line — to exactly the chunks written, in call order. -/
theorem stream_same_chunks (cfg : Config) (hf : cfg.format = .jsonl ∨ cfg.format = .json)
    (calls : List StreamCall) (hv : ∀ c ∈ writtenChunks calls, chunkValid c = true)
    (hn : ∀ c ∈ writtenChunks calls, chunkNormal c = true) :
    (jsonlRead (streamText (streamRun cfg calls ⟨[], []⟩).written)).bind decodeRecords =
      some ((writtenChunks calls).map (projectChunk true cfg)) := by
  rw [(stream_text_parses_back cfg hf calls hv).2]
  exact json_records_decode cfg _ hn

/-- HISTORY (batches): for a JSON / JSON Lines configuration, every batch size ≥ 1 and a callback
that never fails, decoding the `Data` of the delivered batches one after the other and
concatenating gives the collection — every chunk exactly once, in order, across batch boundaries. -/
theorem batch_same_chunks (cfg : Config) (hf : cfg.format = .json ∨ cfg.format = .jsonl)
    (size : Nat) (hs : 1 ≤ size) (chunks : List Chunk)
    (hv : ∀ c ∈ chunks, chunkValid c = true) (hn : ∀ c ∈ chunks, chunkNormal c = true) :
    ∃ calls, batchExportRun size (exportToString cfg) (fun _ _ => true) chunks = some (calls, .ok) ∧
      (mapOpt (fun p : Batch Chunk × Str => decodeExport cfg p.2) calls).map List.flatten =
        some (chunks.map (projectChunk true cfg)) := by
  obtain ⟨calls, hrun, hcat, hdata⟩ := batch_text_end_to_end cfg size hs chunks
    (by rcases hf with h | h; exact Or.inl h; exact Or.inr (Or.inl h))
  refine ⟨calls, hrun, ?_⟩
  have hmem : ∀ p ∈ calls, ∀ c ∈ p.1.items, c ∈ chunks := by
    intro p hp c hc
    rw [← hcat]
    exact List.mem_flatMap.mpr ⟨p, hp, hc⟩
  have hdec : ∀ p ∈ calls, decodeExport cfg p.2 = some (p.1.items.map (projectChunk true cfg)) := by
    intro p hp
    obtain ⟨t, h1, h2⟩ := export_json_same_chunks cfg hf p.1.items
      (fun c hc => hv c (hmem p hp c hc)) (fun c hc => hn c (hmem p hp c hc))
    rw [hdata p hp] at h1
    injection h1 with h1
    rw [h1]; exact h2
  have hall : mapOpt (fun p : Batch Chunk × Str => decodeExport cfg p.2) calls =
      some (calls.map (fun p => p.1.items.map (projectChunk true cfg))) := by
    have := mapOpt_map' (fun p : Batch Chunk × Str => decodeExport cfg p.2) id
      (fun p => p.1.items.map (projectChunk true cfg)) calls (fun p hp => hdec p hp)
    simpa using this
  rw [hall, ← hcat]
  simp [List.flatMap, List.map_flatten, List.map_map, Function.comp_def]

example : (1 : Nat) ≤ 2 ∧ (jsonlExportConfig.format = .json ∨ jsonlExportConfig.format = .jsonl) := by decide

/-! ## CSV / TSV rows -/

/-- no element of a list-valued metadata field (section_path, child_ids, element_types) contains a
comma — the condition under which the `[a,b,c]` cells are invertible (`list_cell_roundtrip_iff`) -/
def listsCommaFree (c : Chunk) : Prop :=
  ∀ s ∈ c.md.sectionPath ++ c.md.childIDs ++ c.md.elementTypes, 44 ∉ s

/-- the cell under `meta_<key>` of a chunk's row, whether or not the collection has that column -/
theorem meta_cell_at (cfg : Config) (chunks : List Chunk) (c : Chunk) (hc : c ∈ chunks)
    (hnames : namesOk cfg = true) (k : Str) (hs : isStandardColumn k = false) :
    cellAt (collectCSVColumns cfg chunks) ((collectCSVColumns cfg chunks).map (cellSpec cfg c)) (kMeta ++ k) =
      optCell (fun _ => []) (exportedMeta cfg c.md k) := by
  rw [cellAt_map]
  obtain ⟨_, _, _, _, _, _, _, _, _, _, _, hmeta⟩ := named_cells cfg c hnames
  by_cases hm : kMeta ++ k ∈ collectCSVColumns cfg chunks
  · simp only [hm, if_true]
    rw [hmeta k]
    cases exportedMeta cfg c.md k <;> rfl
  · simp only [hm, if_false]
    rw [missing_column_means_empty cfg chunks hnames k hs hm c hc]
    rfl

/-
FULL STATEMENT (what the property needs for CSV/TSV):
    ∀ cfg chunks, c ∈ chunks → namesOk cfg → chunkNormal c →
      decodeRow cfg cols (cols.map (cellSpec cfg c)) = some (projectChunk false cfg c)
FALSE for the code as it exists when a list element contains a comma (finding
C14/csv-field-meta-list); see `csv_same_chunks_counterexample`.
-/

/-- PARTIAL — ONE ROW BACK TO ITS CHUNK (CSV, TSV): under the header of the collection's export, the
row of a chunk decodes to the chunk's id, its text (when included), the positional fields and every
metadata field the configuration exports — provided no list element contains a comma. -/
theorem csv_row_decodes_partial (cfg : Config) (chunks : List Chunk) (c : Chunk) (hc : c ∈ chunks)
    (hnames : namesOk cfg = true) (hn : chunkNormal c = true) (hl : listsCommaFree c) :
    decodeRow cfg (collectCSVColumns cfg chunks) ((collectCSVColumns cfg chunks).map (cellSpec cfg c)) =
      some (projectChunk false cfg c) := by
  obtain ⟨c1, c2, c3, c4, c5, c6, c7, c8, c9, c10, _, _⟩ := named_cells cfg c hnames
  simp only [chunkNormal, Bool.and_eq_true, decide_eq_true_eq] at hn
  obtain ⟨⟨⟨⟨⟨⟨n1, n2⟩, n3⟩, n4⟩, n5⟩, n6⟩, n7⟩ := hn
  have l1 : ∀ s ∈ c.md.sectionPath, 44 ∉ s := fun s hs => hl s (by simp [hs])
  have l2 : ∀ s ∈ c.md.childIDs, 44 ∉ s := fun s hs => hl s (by simp [hs])
  have l3 : ∀ s ∈ c.md.elementTypes, 44 ∉ s := fun s hs => hl s (by simp [hs])
  have mem : ∀ x ∈ fixedColumns cfg, x ∈ collectCSVColumns cfg chunks := by
    intro x hx; simp [collectCSVColumns, hx]
  have g : ∀ x ∈ fixedColumns cfg,
      cellAt (collectCSVColumns cfg chunks) ((collectCSVColumns cfg chunks).map (cellSpec cfg c)) x = cellSpec cfg c x := by
    intro x hx; rw [cellAt_map]; simp [mem x hx]
  have gtext : cfg.includeText = true →
      cellAt (collectCSVColumns cfg chunks) ((collectCSVColumns cfg chunks).map (cellSpec cfg c)) cfg.textColumnName = c.text := by
    intro ht
    rw [g _ (by simp [fixedColumns, ht])]
    exact c2 ht
  have hm := meta_cell_at cfg chunks c hc hnames
  simp only [decodeRow, List.length_map, ne_eq, not_true_eq_false, if_false]
  simp only [
    g kChunkIndex (by simp [fixedColumns]), g kDocumentTitle (by simp [fixedColumns]),
    g kPageStart (by simp [fixedColumns]), g kPageEnd (by simp [fixedColumns]),
    g kSectionTitle (by simp [fixedColumns]), g kHasTable (by simp [fixedColumns]),
    g kHasList (by simp [fixedColumns]), g kHasImage (by simp [fixedColumns]),
    g cfg.chunkIDColumnName (by simp [fixedColumns]),
    c1, c3, c4, c5, c6, c7, c8, c9, c10,
    hm kSectionPath (by decide), hm kHeadingLevel (by decide), hm kTotalChunks (by decide), hm kLevel (by decide),
    hm kParentId (by decide), hm kChildIds (by decide), hm kElementTypes (by decide), hm kCharCount (by decide),
    hm kWordCount (by decide), hm kEstimatedTokens (by decide),
    exportedMeta_keep, metaField_sectionPath, metaField_headingLevel, metaField_totalChunks, metaField_level,
    metaField_parentId, metaField_childIds, metaField_elementTypes, metaField_charCount, metaField_wordCount,
    metaField_estimatedTokens,
    readIntCellS_decInt, readBoolCellS_boolStr,
    readIntCellS_positive _ _ _ n1, readIntCellS_positive _ _ _ n2, readIntCellS_positive _ _ _ n3,
    readIntCellS_positive _ _ _ n4, readIntCellS_positive _ _ _ n5, readLevelCellS_level _ _ _ n6 n7,
    strCell_nonempty, readListCellS_nonempty _ _ _ l1, readListCellS_nonempty _ _ _ l2,
    readListCellS_nonempty _ _ _ l3, Option.bind_some]
  by_cases ht : cfg.includeText = true
  · simp [projectChunk, ht, gtext ht]
  · simp [projectChunk, ht]

example : listsCommaFree { id := [], text := [], md := { sectionPath := [[97, 32, 98], [99]], childIDs := [[]] } } := by
  intro s hs
  simp at hs
  rcases hs with h | h | h <;> subst h <;> decide

/-- PARTIAL — SAME CHUNKS (CSV and TSV with header): the export text, read by the strict RFC 4180
reader and decoded row by row under its own header, is the collection itself (up to the
configuration's projection), in order — for all bytes in ids, texts, titles and section names,
provided no list element contains a comma. -/
theorem export_csv_same_chunks_partial (cfg : Config) (hf : cfg.format = .csv ∨ cfg.format = .tsv)
    (hh : cfg.includeHeader = true) (hd : validDelim (delimiter cfg)) (hnames : namesOk cfg = true)
    (chunks : List Chunk) (hn : ∀ c ∈ chunks, chunkNormal c = true) (hl : ∀ c ∈ chunks, listsCommaFree c) :
    ∃ text, exportToString cfg chunks = some text ∧
      decodeExport cfg text = some (chunks.map (projectChunk false cfg)) := by
  obtain ⟨text, h1, h2⟩ := export_csv_parses_back goMarshal cfg chunks hd
  have he : exportToString cfg chunks = some text := by
    rcases hf with h | h <;> simp [exportToString, h, h1]
  refine ⟨text, he, ?_⟩
  have hdec : decodeTable cfg (collectCSVColumns cfg chunks)
      (chunks.map (fun c => (collectCSVColumns cfg chunks).map (cellSpec cfg c))) =
      some (chunks.map (projectChunk false cfg)) :=
    mapOpt_map' _ _ _ chunks (fun c hc => csv_row_decodes_partial cfg chunks c hc hnames (hn c hc) (hl c hc))
  simp only [getColumnValue_fun, hh, if_true, List.singleton_append] at h2
  rcases hf with h | h <;> simp only [decodeExport, h, hh, if_true, h2] <;> exact hdec

/-- PUBLIC API: `ToCSV` / `ToTSV` of any collection (lists comma-free) decode to exactly that
collection -/
theorem to_csv_same_chunks_partial (chunks : List Chunk)
    (hn : ∀ c ∈ chunks, chunkNormal c = true) (hl : ∀ c ∈ chunks, listsCommaFree c) :
    (∃ text, toCSV chunks = some text ∧ decodeExport csvExportConfig text = some chunks) ∧
    (∃ text, toTSV chunks = some text ∧ decodeExport tsvExportConfig text = some chunks) := by
  have key : ∀ cfg : Config, (cfg.format = .csv ∨ cfg.format = .tsv) → cfg.includeHeader = true →
      validDelim (delimiter cfg) → namesOk cfg = true → cfg.includeText = true → cfg.includeMetadata = true →
      cfg.metadataFields = none →
      ∃ text, exportToString cfg chunks = some text ∧ decodeExport cfg text = some chunks := by
    intro cfg hf hh hd hnm ht hm hfl
    obtain ⟨text, h1, h2⟩ := export_csv_same_chunks_partial cfg hf hh hd hnm chunks hn hl
    refine ⟨text, h1, ?_⟩
    rw [h2]
    congr 1
    conv => rhs; rw [← List.map_id chunks]
    exact List.map_congr_left (fun c _ => project_full false cfg c ht hm hfl)
  exact ⟨key csvExportConfig (Or.inl rfl) rfl (by decide) (by decide) rfl rfl rfl,
         key tsvExportConfig (Or.inr rfl) rfl (by decide) (by decide) rfl rfl rfl⟩

/-- COUNTEREXAMPLE (pinned code, finding C14/csv-field-meta-list at collection level): two different
one-chunk collections — section paths `["a,b","c"]` and `["a","b,c"]` — have the same header and
the same rows under every configuration that exports all metadata fields (in particular `ToCSV`
and `ToTSV`), hence the same CSV / TSV text: the export is not injective, no reader whatsoever
can tell the two collections apart. -/
theorem csv_same_chunks_counterexample (cfg : Config) (hf : cfg.metadataFields = none) :
    let c1 : Chunk := { id := [120], text := [], md := { sectionPath := [[97, 44, 98], [99]] } }
    let c2 : Chunk := { id := [120], text := [], md := { sectionPath := [[97], [98, 44, 99]] } }
    c1.md.sectionPath ≠ c2.md.sectionPath ∧ chunkNormal c1 = true ∧ chunkNormal c2 = true ∧
    exportCSV goMarshal cfg [c1] = exportCSV goMarshal cfg [c2] ∧
    (cfg.format = .csv ∨ cfg.format = .tsv → exportToString cfg [c1] = exportToString cfg [c2]) := by
  intro c1 c2
  have hmeta : ∀ k, k ≠ kSectionPath → metaField c1.md k = metaField c2.md k := by
    intro k hk
    simp [metaField, hk, c1, c2]
  have hcell : cellSpec cfg c1 = cellSpec cfg c2 := by
    funext col
    unfold cellSpec
    cases stripMeta col with
    | none => rfl
    | some key =>
      by_cases hk : key = kSectionPath
      · subst hk
        simp only [exportedMeta_keep, metaField_sectionPath]
        by_cases hkeep : keepMeta cfg kSectionPath = true <;> simp [hkeep, c1, c2, formatValue, joinComma]
      · have e : exportedMeta cfg c1.md key = exportedMeta cfg c2.md key := by
          simp only [exportedMeta_keep, hmeta key hk]
        simp only [e]
        rfl
  have hkeys : chunkKeys cfg c1 = chunkKeys cfg c2 := by
    rw [(flatten_is_noop cfg c1 hf).2.2, (flatten_is_noop cfg c2 hf).2.2]
    simp (decide := true) [chunkMetadataToMap, mapKeys, c1, c2]
  have hcols : collectCSVColumns cfg [c1] = collectCSVColumns cfg [c2] := by
    simp only [collectCSVColumns, sortedMetaKeys, collectKeys, hkeys]
  have hrec : exportCSVRecords goMarshal cfg [c1] = exportCSVRecords goMarshal cfg [c2] := by
    rw [(rows_one_per_chunk_in_order goMarshal cfg [c1]).1, (rows_one_per_chunk_in_order goMarshal cfg [c2]).1]
    simp only [getColumnValue_fun, hcols, hcell, List.map_cons, List.map_nil]
  have hexp : exportCSV goMarshal cfg [c1] = exportCSV goMarshal cfg [c2] := by
    unfold exportCSV; rw [hrec]
  refine ⟨by decide, by decide, by decide, hexp, ?_⟩
  rintro (h | h) <;> simp [exportToString, h, hexp]

end Tabula.C14Decode
