import TabulaModel.Model.PdfDoc
/-!
# C01 — PDF text survives every physical file layout (page-tree and content-join layer)

The lower layers are decided by their own properties: object lookup across revisions,
object streams and xref kinds (C04 `getObject_refines`, `merge_newest`), filter chains
(C05), object/content syntax (C06), code → Unicode (C07). Proved here: the layer that is
new in C01 — flattening the page tree with inheritable attributes resolved to the nearest
definer, and splitting content over several streams.

Two resource bounds of the code (repairs made for C02) limit both statements, and they are
part of what is proved here:
* `traversePageNode` refuses a page tree of more than `maxPageTreeDepth = 10000` levels
  (86b42aa): `traverse` is the walk with its depth counter, `flatten` its specification.
  `flatten_leaves_nearest` / `page_count_is_leaves` hold for trees of at most 10000 levels;
  `traverse_beyond_limit` says the deeper ones are refused; `traverse_depth_bounded` that the
  recursion never goes deeper than the limit, on any tree.
* `extractTextWithFragments` refuses a page whose decoded content exceeds
  `maxPageContentBytes = 64 MiB` (36a165b): `joinBounded` is the loop with its check,
  `joinContents` its specification. `contents_split_bounded`, `joinBounded_within`,
  `joinBounded_beyond`, `joinBounded_bytes_kept`.
-/
namespace Tabula.C01
open Tabula.PdfDoc

theorem resolvePath_append {R : Type} (inh : AttrsOf R) (p q : List (AttrsOf R)) :
    resolvePath inh (p ++ q) = resolvePath (resolvePath inh p) q := by
  induction p generalizing inh with
  | nil => rfl
  | cons a p ih => simp [resolvePath, ih]

mutual
theorem flatten_spec {R : Type} (t : PTreeOf R) (inh : AttrsOf R) :
    flatten t inh = (leafPaths t).map (resolvePath inh) := by
  cases t with
  | leaf a => simp [flatten, leafPaths, resolvePath]
  | node a kids =>
    simp only [flatten, leafPaths, List.map_map]
    rw [flattenList_spec kids (a.over inh)]
    apply List.map_congr_left
    intro p _
    simp [resolvePath]
theorem flattenList_spec {R : Type} (ts : List (PTreeOf R)) (inh : AttrsOf R) :
    flattenList ts inh = (leafPathsList ts).map (resolvePath inh) := by
  cases ts with
  | nil => simp [flattenList, leafPathsList]
  | cons t ts =>
    simp only [flattenList, leafPathsList, List.map_append]
    rw [flatten_spec t inh, flattenList_spec ts inh]
end

/-! ### the depth limit of the walk (`maxPageTreeDepth`, 86b42aa) -/

theorem height_pos {R : Type} (t : PTreeOf R) : 1 ≤ height t := by
  cases t <;> simp [height]

mutual
theorem traverse_within {R : Type} (t : PTreeOf R) (dep : Nat) (inh : AttrsOf R)
    (h : dep + height t ≤ maxPageTreeDepth) : traverse dep t inh = some (flatten t inh) := by
  cases t with
  | leaf a =>
    simp only [height] at h
    have : ¬ dep ≥ maxPageTreeDepth := by omega
    simp [traverse, flatten, this]
  | node a kids =>
    simp only [height] at h
    have : ¬ dep ≥ maxPageTreeDepth := by omega
    simp only [traverse, flatten, this, if_false]
    exact traverseList_within kids (dep + 1) (a.over inh) (by omega)
theorem traverseList_within {R : Type} (ts : List (PTreeOf R)) (dep : Nat) (inh : AttrsOf R)
    (h : dep + heightList ts ≤ maxPageTreeDepth) : traverseList dep ts inh = some (flattenList ts inh) := by
  cases ts with
  | nil => simp [traverseList, flattenList]
  | cons t ts =>
    simp only [heightList] at h
    have h1 : dep + height t ≤ maxPageTreeDepth := by omega
    have h2 : dep + heightList ts ≤ maxPageTreeDepth := by omega
    simp only [traverseList, flattenList, traverse_within t dep inh h1, traverseList_within ts dep inh h2]
end

mutual
theorem traverse_beyond {R : Type} (t : PTreeOf R) (dep : Nat) (inh : AttrsOf R)
    (h : dep + height t > maxPageTreeDepth) : traverse dep t inh = none := by
  cases t with
  | leaf a =>
    simp only [height] at h
    have : dep ≥ maxPageTreeDepth := by omega
    simp [traverse, this]
  | node a kids =>
    simp only [height] at h
    by_cases hd : dep ≥ maxPageTreeDepth
    · simp [traverse, hd]
    · simp only [traverse, hd, if_false]
      exact traverseList_beyond kids (dep + 1) (a.over inh) (by omega) (by omega)
theorem traverseList_beyond {R : Type} (ts : List (PTreeOf R)) (dep : Nat) (inh : AttrsOf R)
    (h : dep + heightList ts > maxPageTreeDepth) (hp : 0 < heightList ts) : traverseList dep ts inh = none := by
  cases ts with
  | nil => simp [heightList] at hp
  | cons t ts =>
    simp only [heightList] at h
    by_cases h1 : dep + height t > maxPageTreeDepth
    · simp only [traverseList, traverse_beyond t dep inh h1]
    · have hpos := height_pos t
      have h2 : dep + heightList ts > maxPageTreeDepth := by omega
      have h3 : 0 < heightList ts := by omega
      simp only [traverseList, traverseList_beyond ts dep inh h2 h3]
      cases traverse dep t inh <;> rfl
end

mutual
theorem traverseT_fst {R : Type} (t : PTreeOf R) (dep : Nat) (inh : AttrsOf R) :
    (traverseT dep t inh).1 = traverse dep t inh := by
  cases t with
  | leaf a => simp [traverseT, traverse]
  | node a kids =>
    simp only [traverseT, traverse]
    split
    · rfl
    · exact traverseListT_fst kids (dep + 1) (a.over inh)
theorem traverseListT_fst {R : Type} (ts : List (PTreeOf R)) (dep : Nat) (inh : AttrsOf R) :
    (traverseListT dep ts inh).1 = traverseList dep ts inh := by
  cases ts with
  | nil => rfl
  | cons t ts =>
    have h1 := traverseT_fst t dep inh
    have h2 := traverseListT_fst ts dep inh
    simp only [traverseListT, traverseList]
    rw [← h1, ← h2]
    rcases traverseT dep t inh with ⟨_ | xs, m⟩
    · rfl
    · rcases traverseListT dep ts inh with ⟨_ | ys, m'⟩ <;> rfl
end

mutual
theorem traverseT_depth {R : Type} (t : PTreeOf R) (dep : Nat) (inh : AttrsOf R) :
    (traverseT dep t inh).2 ≤ max dep maxPageTreeDepth ∧ (traverseT dep t inh).2 < dep + height t := by
  cases t with
  | leaf a => simp [traverseT, height]; omega
  | node a kids =>
    simp only [traverseT, height]
    split
    · simp; omega
    · have := traverseListT_depth kids (dep + 1) (a.over inh)
      simp only
      omega
theorem traverseListT_depth {R : Type} (ts : List (PTreeOf R)) (dep : Nat) (inh : AttrsOf R) :
    (traverseListT dep ts inh).2 ≤ max dep maxPageTreeDepth ∧
      (traverseListT dep ts inh).2 ≤ dep + heightList ts - 1 := by
  cases ts with
  | nil => simp [traverseListT]
  | cons t ts =>
    have h1 := traverseT_depth t dep inh
    have h2 := traverseListT_depth ts dep inh
    simp only [traverseListT, heightList]
    generalize traverseT dep t inh = r at h1 ⊢
    generalize traverseListT dep ts inh = r' at h2 ⊢
    rcases r with ⟨_ | xs, m⟩
    · simp only at h1 ⊢; omega
    · rcases r' with ⟨_ | ys, m'⟩ <;> simp only at h1 h2 ⊢ <;> omega
end

/-- the walk is its specification `flatten` on a tree of at most 10000 levels and an error on a
deeper one — whatever the deep part consists of and wherever in the tree it is -/
theorem traverse_eq {R : Type} (t : PTreeOf R) (inh : AttrsOf R) :
    traverse 0 t inh = if height t ≤ maxPageTreeDepth then some (flatten t inh) else none := by
  split
  · exact traverse_within t 0 inh (by omega)
  · exact traverse_beyond t 0 inh (by omega)

/-- **flatten_leaves / inherit_nearest**: for a page tree of any fan-out and of at most
`maxPageTreeDepth` = 10000 levels, the page list is the left-to-right list of leaves, and each
leaf's effective attributes are, key by key, those of the nearest ancestor-or-self that
defines the key.

Restated (was: for every tree, about `flatten`): since 86b42aa `traversePageNode` counts its
depth and returns an error at `t.depth >= 10000`, so the statement about the code's walk
(`traverse`) needs `height t ≤ 10000`; beyond that see `traverse_beyond_limit`. The
unbounded statement still holds of the specification function (`flatten_spec`). -/
theorem flatten_leaves_nearest {R : Type} (t : PTreeOf R) (h : height t ≤ maxPageTreeDepth) :
    traverse 0 t {} = some ((leafPaths t).map (resolvePath {})) := by
  rw [traverse_within t 0 {} (by omega), flatten_spec t {}]

/-- **beyond the limit the code answers with an error**: a tree with more than 10000 levels —
be it one long branch among many short ones — is not traversed at all (`loadPages` drops the
pages collected before the deep branch was met) -/
theorem traverse_beyond_limit {R : Type} (t : PTreeOf R) (inh : AttrsOf R) (h : height t > maxPageTreeDepth) :
    traverse 0 t inh = none := traverse_beyond t 0 inh (by omega)

/-- **bounded work**: on EVERY tree the recursion of the walk is entered with a depth of at
most 10000 (`traverseT` reports the largest `t.depth` a call was entered with), and with no
more than the tree has levels: at most `min (height t) 10001` nested calls. -/
theorem traverse_depth_bounded {R : Type} (t : PTreeOf R) (inh : AttrsOf R) :
    (traverseT 0 t inh).1 = traverse 0 t inh ∧
    (traverseT 0 t inh).2 ≤ maxPageTreeDepth ∧ (traverseT 0 t inh).2 < height t := by
  have := traverseT_depth t 0 inh
  exact ⟨traverseT_fst t 0 inh, by omega, by omega⟩

/-- a page tree that is a list: `n` `/Pages` nodes with one kid each above one leaf
(`n + 1` levels) -/
def chain {R : Type} : Nat → PTreeOf R
  | 0 => .leaf {}
  | n + 1 => .node {} [chain n]

theorem height_chain {R : Type} (n : Nat) : height (chain n : PTreeOf R) = n + 1 := by
  induction n with
  | zero => rfl
  | succ n ih => simp [chain, height, heightList, ih]

/-- the edge: 10000 levels are traversed … -/
example : traverse 0 (chain 9999 : PTree) {} = some (flatten (chain 9999) {}) :=
  traverse_within _ 0 {} (by rw [height_chain]; decide)
/-- … 10001 levels are not -/
example : traverse 0 (chain 10000 : PTree) {} = none :=
  traverse_beyond_limit _ {} (by rw [height_chain]; decide)
/-- the hypothesis of `flatten_leaves_nearest` at a small tree, decided by evaluation -/
example : height (.node {} [.leaf {}, .node {} [.leaf {}]] : PTree) ≤ maxPageTreeDepth := by decide

mutual
theorem leafPaths_length {R : Type} (t : PTreeOf R) : (leafPaths t).length = countLeaves t := by
  cases t with
  | leaf a => simp [leafPaths, countLeaves]
  | node a kids => simp [leafPaths, countLeaves, leafPathsList_length kids]
theorem leafPathsList_length {R : Type} (ts : List (PTreeOf R)) :
    (leafPathsList ts).length = countLeavesList ts := by
  cases ts with
  | nil => simp [leafPathsList, countLeavesList]
  | cons t ts => simp [leafPathsList, countLeavesList, leafPaths_length t, leafPathsList_length ts]
end

/-- the specification function lists one entry per leaf (any tree) -/
theorem flatten_length {R : Type} (t : PTreeOf R) (inh : AttrsOf R) :
    (flatten t inh).length = countLeaves t := by
  rw [flatten_spec, List.length_map, leafPaths_length]

/-- **page count = number of page leaves**, whenever the walk delivers pages at all.

Restated (was: `(flatten t inh).length = countLeaves t` for every tree): the walk of the code
delivers no page list for a tree of more than 10000 levels (`traverse_beyond_limit`), so the
count is that of the leaves exactly when `height t ≤ 10000` — which is the case whenever the
walk succeeds. -/
theorem page_count_is_leaves {R : Type} (t : PTreeOf R) (inh : AttrsOf R) (ps : List (AttrsOf R))
    (h : traverse 0 t inh = some ps) : ps.length = countLeaves t ∧ height t ≤ maxPageTreeDepth := by
  rw [traverse_eq] at h
  split at h
  · next hh =>
    cases h
    exact ⟨flatten_length t inh, hh⟩
  · cases h

/-- satisfiability: a two-level tree with two leaves -/
example : traverse 0 (.node {} [.leaf {}, .leaf {}] : PTree) {} = some [{}, {}] := by decide

/-- a key's nearest definer decides: the deepest dictionary on the path that has `/MediaBox`
supplies it, whatever lies above -/
theorem nearest_mediabox {R : Type} (inh : AttrsOf R) (above : List (AttrsOf R)) (d : AttrsOf R)
    (below : List (AttrsOf R))
    (box : Int × Int × Int × Int) (hd : d.mb = some box) (hb : ∀ a ∈ below, a.mb = none) :
    (resolvePath inh (above ++ d :: below)).mb = some box := by
  rw [resolvePath_append]
  simp only [resolvePath]
  generalize resolvePath inh above = acc
  have h0 : (d.over acc).mb = some box := by simp [AttrsOf.over, hd]
  generalize d.over acc = cur at h0
  induction below generalizing cur with
  | nil => simpa [resolvePath] using h0
  | cons a rest ih =>
    simp only [resolvePath]
    apply ih (fun x hx => hb x (by simp [hx]))
    simp [AttrsOf.over, hb a (by simp), h0]

/-- moving an inheritable key between levels that keep the nearest definer fixed does not
change a leaf: only the resolved value matters (instance: grandparent vs parent) -/
example : flatten (.node { mb := some (0, 0, 612, 792) } [.node {} [.leaf {}]] : PTree) {} =
    flatten (.node {} [.node { mb := some (0, 0, 612, 792) } [.leaf {}]] : PTree) {} := by decide

/-! ### content split over several streams -/

theorem wordsAux_append_ws (a : List Nat) (cur : List Nat) (b : List Nat) :
    wordsAux (a ++ 10 :: b) cur = wordsAux (a ++ [10]) cur ++ wordsAux b [] := by
  induction a generalizing cur with
  | nil =>
    simp only [List.nil_append, wordsAux]
    have : isWs 10 = true := by decide
    simp only [this, if_true]
    split <;> simp [wordsAux]
  | cons c cs ih =>
    simp only [List.cons_append, wordsAux]
    split
    · split <;> simp [ih]
    · exact ih _

/-- **contents_split**: with the separator the reader inserts, the words of the joined
content are exactly the words of the parts in order — so splitting a page's content at
token boundaries into any number of streams (with or without trailing white space) does
not change what is parsed. -/
theorem wordsAux_trailing_ws (a cur : List Nat) : wordsAux (a ++ [10]) cur = wordsAux a cur := by
  induction a generalizing cur with
  | nil =>
    have h10 : isWs 10 = true := by decide
    simp only [List.nil_append, wordsAux, h10, if_true]
    split <;> simp
  | cons c cs ih =>
    simp only [List.cons_append, wordsAux]
    split
    · split <;> simp [ih]
    · exact ih _

theorem contents_split (parts : List (List Nat)) :
    words (joinContents parts) = parts.flatMap words := by
  induction parts with
  | nil => simp [joinContents, words, wordsAux]
  | cons p ps ih =>
    simp only [joinContents, List.flatMap_cons, words] at *
    by_cases hp : p.isEmpty = true
    · have : p = [] := by simpa using hp
      subst this
      simpa [wordsAux] using ih
    · simp only [hp, Bool.false_eq_true, if_false]
      have h := wordsAux_append_ws p []
        (List.flatMap (fun p => if p.isEmpty = true then [] else p ++ [10]) ps)
      simp only [List.append_assoc, List.singleton_append] at h ⊢
      rw [h, ih, wordsAux_trailing_ws]

/-! ### the size limit of a page's content (`maxPageContentBytes`, 36a165b) -/

theorem joinPiece_length (p : List Nat) :
    (joinPiece p).length = if p.length = 0 then 0 else p.length + 1 := by
  cases p <;> simp [joinPiece]

theorem joinContents_cons (p : List Nat) (ps : List (List Nat)) :
    joinContents (p :: ps) = joinPiece p ++ joinContents ps := by
  simp [joinContents, joinPiece]

/-- the loop is the unbounded join guarded by the length-only loop -/
theorem joinLoop_eq (ps : List (List Nat)) (n : Nat) :
    joinLoop n ps = if fitsLoop n (ps.map List.length) then some (joinContents ps) else none := by
  induction ps generalizing n with
  | nil => simp [joinLoop, fitsLoop, joinContents]
  | cons p ps ih =>
    simp only [joinLoop, List.map_cons, fitsLoop]
    by_cases h : n + p.length > maxPageContentBytes
    · simp [h]
    · simp only [h, if_false]
      rw [ih, joinPiece_length, joinContents_cons]
      cases fitsLoop (n + if p.length = 0 then 0 else p.length + 1) (List.map List.length ps) <;> rfl

theorem fitsLoop_of_le (ps : List (List Nat)) (n : Nat)
    (h : n + (joinContents ps).length ≤ maxPageContentBytes) : fitsLoop n (ps.map List.length) = true := by
  induction ps generalizing n with
  | nil => rfl
  | cons p ps ih =>
    rw [joinContents_cons, List.length_append, joinPiece_length] at h
    simp only [List.map_cons, fitsLoop]
    have h1 : ¬ n + p.length > maxPageContentBytes := by split at h <;> omega
    simp only [h1, if_false]
    apply ih
    split at h <;> simp_all <;> omega

/-- when the loop lets the parts pass, `allData` ends with at most one byte over the limit -/
theorem fitsLoop_bound (ps : List (List Nat)) (n : Nat) (h : fitsLoop n (ps.map List.length) = true) :
    n + (joinContents ps).length ≤ max n (maxPageContentBytes + 1) := by
  induction ps generalizing n with
  | nil => simp [joinContents]; omega
  | cons p ps ih =>
    simp only [List.map_cons, fitsLoop] at h
    by_cases h1 : n + p.length > maxPageContentBytes
    · simp [h1] at h
    · simp only [h1, if_false, Bool.false_eq_true] at h
      have := ih _ h
      rw [joinContents_cons, List.length_append, joinPiece_length]
      split at this <;> split <;> omega

/-- **contents_split for the code's join**: whenever the join of `extractTextWithFragments`
delivers a content at all, it is the specification join, so its words are the words of the
parts in order.

`contents_split` above is kept verbatim: it is about `joinContents`, which since 36a165b is the
specification of the join, no longer the code. The code's join `joinBounded` refuses a page
whose parts (with the separators) exceed 64 MiB. -/
theorem contents_split_bounded (parts : List (List Nat)) (r : List Nat) (h : joinBounded parts = some r) :
    r = joinContents parts ∧ words r = parts.flatMap words := by
  unfold joinBounded at h
  rw [joinLoop_eq] at h
  split at h
  · cases h
    exact ⟨rfl, contents_split parts⟩
  · cases h

/-- **within the limit nothing changes**: parts whose join (separators included) has at most
`maxPageContentBytes` bytes are joined as before -/
theorem joinBounded_within (parts : List (List Nat)) (h : (joinContents parts).length ≤ maxPageContentBytes) :
    joinBounded parts = some (joinContents parts) := by
  unfold joinBounded
  rw [joinLoop_eq, fitsLoop_of_le parts 0 (by omega)]
  rfl

/-- **beyond the limit the code answers with an error**: parts whose join would have more than
`maxPageContentBytes + 1` bytes are refused. (A join of exactly `maxPageContentBytes + 1`
bytes — the limit reached exactly by the last non-empty part, plus its separator — passes
unless another, empty, part follows; `fitsLoop` decides every case, see `joinLoop_eq`.) -/
theorem joinBounded_beyond (parts : List (List Nat)) (h : (joinContents parts).length > maxPageContentBytes + 1) :
    joinBounded parts = none := by
  unfold joinBounded
  rw [joinLoop_eq]
  cases hf : fitsLoop 0 (parts.map List.length) with
  | false => rfl
  | true =>
    have := fitsLoop_bound parts 0 hf
    omega

/-- **bounded work**: for EVERY list of parts, what the join keeps (`allData`) is at most
`maxPageContentBytes + 1` bytes — the parts' sizes may be anything -/
theorem joinBounded_bytes_kept (parts : List (List Nat)) (r : List Nat) (h : joinBounded parts = some r) :
    r.length ≤ maxPageContentBytes + 1 := by
  unfold joinBounded at h
  rw [joinLoop_eq] at h
  cases hf : fitsLoop 0 (parts.map List.length) with
  | false => rw [hf] at h; cases h
  | true =>
    rw [hf] at h
    cases h
    have := fitsLoop_bound parts 0 hf
    omega

/-- joining the concatenation of the parts as ONE stream never takes more bytes than joining
the parts (each non-empty part brings a separator of its own) -/
theorem joinContents_flat_le (ps : List (List Nat)) :
    (joinContents [ps.flatMap id]).length ≤ (joinContents ps).length := by
  have h1 : ∀ x : List Nat, joinContents [x] = joinPiece x := by
    intro x; simp [joinContents, joinPiece]
  rw [h1]
  induction ps with
  | nil => simp [joinPiece, joinContents]
  | cons p ps ih =>
    rw [joinContents_cons, List.length_append, List.flatMap_cons]
    rw [joinPiece_length] at ih ⊢
    rw [joinPiece_length]
    simp only [id, List.length_append]
    split at ih <;> split <;> split <;> omega
/-- one stream: exactly the streams of at most 64 MiB pass -/
theorem joinBounded_single (p : List Nat) :
    joinBounded [p] = if p.length ≤ maxPageContentBytes then some (joinPiece p) else none := by
  unfold joinBounded
  by_cases h : p.length ≤ maxPageContentBytes
  · have : ¬ (0 + p.length > maxPageContentBytes) := by omega
    simp [joinLoop, this, h]
  · have : 0 + p.length > maxPageContentBytes := by omega
    simp [joinLoop, this, h]

/-- the edge: a content stream of exactly 64 MiB is read … -/
example : joinBounded [List.replicate maxPageContentBytes 32] =
    some (joinPiece (List.replicate maxPageContentBytes 32)) := by
  rw [joinBounded_single, List.length_replicate, if_pos (Nat.le_refl _)]
/-- … one byte more is refused -/
example : joinBounded [List.replicate (maxPageContentBytes + 1) 32] = none := by
  rw [joinBounded_single, List.length_replicate, if_neg (by omega)]
/-- the same bytes split over two streams carry one more separator: the two-stream split of a
stream that just fits is refused (`allData` would have 64 MiB + 2 bytes) -/
example : joinBounded [List.replicate (maxPageContentBytes - 1) 32, [32]] = none := by
  unfold joinBounded
  rw [joinLoop_eq]
  simp only [List.map_cons, List.map_nil, List.length_replicate, List.length_cons, List.length_nil]
  have : fitsLoop 0 [maxPageContentBytes - 1, 0 + 1] = false := by decide
  rw [this]
  rfl
/-- an empty stream after a stream of exactly 64 MiB is refused too (the check precedes the
`len(data) > 0` test, and `allData` already holds 64 MiB + 1 bytes) -/
example : joinBounded [List.replicate maxPageContentBytes 32, []] = none := by
  unfold joinBounded
  rw [joinLoop_eq]
  simp only [List.map_cons, List.map_nil, List.length_replicate, List.length_nil]
  have : fitsLoop 0 [maxPageContentBytes, 0] = false := by decide
  rw [this]
  rfl
/-- the length-only loop on small numbers, decided by evaluation -/
example : fitsLoop 0 [3, 0, 5] = true ∧ fitsLoop 67108860 [3, 1] = false ∧ fitsLoop 0 [67108864, 0] = false := by
  decide

/-- without a separator the property fails: `… Tj` + `ET` reads as the single word `TjET`
(the pinned tree's behaviour before the repair 9d65264) -/
theorem concat_without_separator_counterexample :
    words ([84, 106] ++ [69, 84]) ≠ words [84, 106] ++ words [69, 84] := by decide

end Tabula.C01
