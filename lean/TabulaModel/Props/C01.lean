import TabulaModel.Model.PdfDoc
/-!
# C01 — PDF text survives every physical file layout (page-tree and content-join layer)

The lower layers are decided by their own properties: object lookup across revisions,
object streams and xref kinds (C04 `getObject_refines`, `merge_newest`), filter chains
(C05), object/content syntax (C06), code → Unicode (C07). Proved here: the layer that is
new in C01 — flattening the page tree at any depth with inheritable attributes resolved
to the nearest definer, and splitting content over several streams.
-/
namespace Tabula.C01
open Tabula.PdfDoc

theorem resolvePath_append {R : Type} (inh : AttrsOf R) (p q : List (AttrsOf R)) :
    resolvePath inh (p ++ q) = resolvePath (resolvePath inh p) q := by
  induction p generalizing inh with
  | nil => rfl
  | cons a p ih => simp [resolvePath, ih]

mutual
theorem flatten_spec {R : Type} (t : PTreeOf R) (inh : AttrsOf R) :
    flatten t inh = (leafPaths t).map (resolvePath inh) := by
  cases t with
  | leaf a => simp [flatten, leafPaths, resolvePath]
  | node a kids =>
    simp only [flatten, leafPaths, List.map_map]
    rw [flattenList_spec kids (a.over inh)]
    apply List.map_congr_left
    intro p _
    simp [resolvePath]
theorem flattenList_spec {R : Type} (ts : List (PTreeOf R)) (inh : AttrsOf R) :
    flattenList ts inh = (leafPathsList ts).map (resolvePath inh) := by
  cases ts with
  | nil => simp [flattenList, leafPathsList]
  | cons t ts =>
    simp only [flattenList, leafPathsList, List.map_append]
    rw [flatten_spec t inh, flattenList_spec ts inh]
end

/-- **flatten_leaves / inherit_nearest**: for a page tree of any depth and fan-out, the page
list is the left-to-right list of leaves, and each leaf's effective attributes are, key by
key, those of the nearest ancestor-or-self that defines the key. -/
theorem flatten_leaves_nearest {R : Type} (t : PTreeOf R) :
    flatten t {} = (leafPaths t).map (resolvePath {}) := flatten_spec t {}

mutual
theorem leafPaths_length {R : Type} (t : PTreeOf R) : (leafPaths t).length = countLeaves t := by
  cases t with
  | leaf a => simp [leafPaths, countLeaves]
  | node a kids => simp [leafPaths, countLeaves, leafPathsList_length kids]
theorem leafPathsList_length {R : Type} (ts : List (PTreeOf R)) :
    (leafPathsList ts).length = countLeavesList ts := by
  cases ts with
  | nil => simp [leafPathsList, countLeavesList]
  | cons t ts => simp [leafPathsList, countLeavesList, leafPaths_length t, leafPathsList_length ts]
end

/-- **page count = number of page leaves** -/
theorem page_count_is_leaves {R : Type} (t : PTreeOf R) (inh : AttrsOf R) :
    (flatten t inh).length = countLeaves t := by
  rw [flatten_spec, List.length_map, leafPaths_length]

/-- a key's nearest definer decides: the deepest dictionary on the path that has `/MediaBox`
supplies it, whatever lies above -/
theorem nearest_mediabox {R : Type} (inh : AttrsOf R) (above : List (AttrsOf R)) (d : AttrsOf R)
    (below : List (AttrsOf R))
    (box : Int × Int × Int × Int) (hd : d.mb = some box) (hb : ∀ a ∈ below, a.mb = none) :
    (resolvePath inh (above ++ d :: below)).mb = some box := by
  rw [resolvePath_append]
  simp only [resolvePath]
  generalize resolvePath inh above = acc
  have h0 : (d.over acc).mb = some box := by simp [AttrsOf.over, hd]
  generalize d.over acc = cur at h0
  induction below generalizing cur with
  | nil => simpa [resolvePath] using h0
  | cons a rest ih =>
    simp only [resolvePath]
    apply ih (fun x hx => hb x (by simp [hx]))
    simp [AttrsOf.over, hb a (by simp), h0]

/-- moving an inheritable key between levels that keep the nearest definer fixed does not
change a leaf: only the resolved value matters (instance: grandparent vs parent) -/
example : flatten (.node { mb := some (0, 0, 612, 792) } [.node {} [.leaf {}]] : PTree) {} =
    flatten (.node {} [.node { mb := some (0, 0, 612, 792) } [.leaf {}]] : PTree) {} := by decide

/-! ### content split over several streams -/

theorem wordsAux_append_ws (a : List Nat) (cur : List Nat) (b : List Nat) :
    wordsAux (a ++ 10 :: b) cur = wordsAux (a ++ [10]) cur ++ wordsAux b [] := by
  induction a generalizing cur with
  | nil =>
    simp only [List.nil_append, wordsAux]
    have : isWs 10 = true := by decide
    simp only [this, if_true]
    split <;> simp [wordsAux]
  | cons c cs ih =>
    simp only [List.cons_append, wordsAux]
    split
    · split <;> simp [ih]
    · exact ih _

/-- **contents_split**: with the separator the reader inserts, the words of the joined
content are exactly the words of the parts in order — so splitting a page's content at
token boundaries into any number of streams (with or without trailing white space) does
not change what is parsed. -/
theorem wordsAux_trailing_ws (a cur : List Nat) : wordsAux (a ++ [10]) cur = wordsAux a cur := by
  induction a generalizing cur with
  | nil =>
    have h10 : isWs 10 = true := by decide
    simp only [List.nil_append, wordsAux, h10, if_true]
    split <;> simp
  | cons c cs ih =>
    simp only [List.cons_append, wordsAux]
    split
    · split <;> simp [ih]
    · exact ih _

theorem contents_split (parts : List (List Nat)) :
    words (joinContents parts) = parts.flatMap words := by
  induction parts with
  | nil => simp [joinContents, words, wordsAux]
  | cons p ps ih =>
    simp only [joinContents, List.flatMap_cons, words] at *
    by_cases hp : p.isEmpty = true
    · have : p = [] := by simpa using hp
      subst this
      simpa [wordsAux] using ih
    · simp only [hp, Bool.false_eq_true, if_false]
      have h := wordsAux_append_ws p []
        (List.flatMap (fun p => if p.isEmpty = true then [] else p ++ [10]) ps)
      simp only [List.append_assoc, List.singleton_append] at h ⊢
      rw [h, ih, wordsAux_trailing_ws]

/-- without a separator the property fails: `… Tj` + `ET` reads as the single word `TjET`
(the pinned tree's behaviour before the repair) -/
theorem concat_without_separator_counterexample :
    words ([84, 106] ++ [69, 84]) ≠ words [84, 106] ++ words [69, 84] := by decide

end Tabula.C01
