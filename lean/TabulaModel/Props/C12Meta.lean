import TabulaModel.Lemmas.ChunkMeta
import TabulaModel.Lemmas.ChunkSeq
import TabulaModel.Lemmas.ChunkLayoutTitle
import TabulaModel.Props.C12Layout
import TabulaModel.Props.C12
/-!
# C12: the whole metadata of a chunk, and every clause that does not need the splitter's contract

`Props/C12.lean` states indices, ids, total and the page range under `SplitOK sp` (the hypothesis of
the cover clause) and keeps of a chunk only the fields the statement names. Here

* indices, ids, total and the page numbers are proved for **every** splitter — hence for every size
  configuration and every document, `DocNoWide` or not (`indices_ids_total_any`, `page_numbers_any`,
  `element_metadata_any`);
* the element walk is modelled with every chunk labelled by the `create*Chunk` function that made it
  (`Model/ChunkMeta.lean`); forgetting the label gives the chunker of the other theorems
  (`meta_refines`), and `SectionTitle`, `HeadingLevel`, `Level`, `ElementTypes`, `HasTable/HasList/
  HasImage`, `CharCount`, `WordCount` are functions of chunk and label;
* **every heading, heading-like paragraph, list, table and described image is one chunk of its own,
  with exactly its text, on its page, in document order — for any splitter** (`solo_elements_exact`);
  what `FilterWithTables` / `FilterWithLists` / `FilterWithImages` select are the document's tables,
  lists and described images (`tables_lists_images_exact`);
* a heading chunk closes its own section path, its `SectionTitle` is its own trimmed text
  (`heading_chunk_title`); a text chunk is the `strings.TrimSpace` of what `CharCount` counts
  (`text_chunk_counts`);
* layout-based chunker, every document: a section's `Title` is the last entry of its `Path`, its
  `PageEnd` is the page of the element added last (`layout_section_shape`) — the page-range clause
  without `AscFrom` as far as the code satisfies it.
-/
namespace Tabula.C12Meta
open Tabula.Chunk Tabula.ChunkMeta

/-- **Indices, ids, total — any splitter.** `C12.indices_ids_total` without its hypothesis: indices
are `0..n-1`, ids pairwise distinct, every chunk reports `n`, whatever `IsAboveMax`/`SplitToSize`
return. -/
theorem indices_ids_total_any (sp : Splitter) (d : Doc) :
    (chunkDocument sp d).map (·.idx) = List.range (chunkDocument sp d).length ∧
    ((chunkDocument sp d).map (·.id)).Nodup ∧
    ∀ c ∈ chunkDocument sp d, c.total = (chunkDocument sp d).length := by
  obtain ⟨hidx, hid, htot⟩ := chunkDocument_seq sp d
  refine ⟨hidx, ?_, htot⟩
  have hids : (chunkDocument sp d).map (·.id) = ((chunkDocument sp d).map (·.idx)).map chunkId := by
    rw [List.map_map]
    exact List.map_congr_left fun c hc => hid c hc
  rw [hids, hidx, List.nodup_iff_pairwise_ne, List.pairwise_map]
  have := @List.nodup_range (chunkDocument sp d).length
  rw [List.nodup_iff_pairwise_ne] at this
  exact this.imp (fun hne he => hne (chunkId_injective he))

/-- **Page numbers — any splitter.** One group of chunks per page, in page order; every chunk of
the group of page `p` reports `PageStart = PageEnd = p.number`. -/
theorem page_numbers_any (sp : Splitter) (d : Doc) :
    chunkDocument sp d = setTotal (pageGroups stackTracker sp d).flatten ∧
    PagesM d (pageGroups stackTracker sp d) :=
  ⟨rfl, (chunkPages_m stackTracker sp (tableOfContents d) (initSt stackTracker) d).1⟩

/-- `PagesM` spelled out for a two-page document -/
example (p q : Page) (g h : List Chunk) (hh : PagesM [p, q] [g, h]) :
    ∀ c ∈ h, c.pageStart = q.number ∧ c.pageEnd = q.number := hh.2.1

/-- **The metadata clauses for every size configuration and EVERY document** (no `DocNoWide`):
indices, ids, total, page numbers and section path of `rag.ChunkDocumentWithConfig`. -/
theorem element_metadata_any (c : Tabula.Split.SizeConfig) (d : Doc) :
    ((Tabula.ChunkSplit.chunkDocumentC c d).map (·.idx) = List.range (Tabula.ChunkSplit.chunkDocumentC c d).length ∧
      ((Tabula.ChunkSplit.chunkDocumentC c d).map (·.id)).Nodup ∧
      ∀ ch ∈ Tabula.ChunkSplit.chunkDocumentC c d, ch.total = (Tabula.ChunkSplit.chunkDocumentC c d).length) ∧
    PagesM d (pageGroups stackTracker (Tabula.ChunkSplit.splitterOf c) d) ∧
    Tabula.ChunkSplit.chunkDocumentC c d = chunkDocumentWith histTracker (Tabula.ChunkSplit.splitterOf c) d :=
  ⟨indices_ids_total_any _ d, (page_numbers_any _ d).2, Tabula.C12.section_path_enclosing _ d⟩

/-- a paragraph with a no-break space (outside `DocNoWide`) split at 10 characters: the metadata
clauses hold all the same -/
example :
    let c : Tabula.Split.SizeConfig := { maxValue := 10, maxUnit := .characters, tpcNum := 1, tpcDen := 4, sem := true }
    let d : Doc := [⟨3, none, [.para ([97, 97, 97, 97, 0xC2, 0xA0, 98, 98, 98, 98, 32, 99, 99, 99, 99])]⟩]
    (Tabula.ChunkSplit.chunkDocumentC c d).map (fun ch => (ch.idx, ch.total, ch.pageStart, ch.pageEnd)) =
      [(0, 2, 3, 3), (1, 2, 3, 3)] := by decide +kernel

/-! ### the labelled walk -/

/-- **Forgetting the label gives `ChunkDocument`**: the chunks of `chunkDocumentX`, without their
origin, are the chunks every other theorem of C12 speaks about. -/
theorem meta_refines (sp : Splitter) (d : Doc) : (chunkDocumentX sp d).map (·.c) = chunkDocument sp d :=
  chunkDocumentX_c sp d

/-- **Every heading, list, table and described image is one chunk of its own.** For any splitter
and any document: the chunks that no text block made — in index order, with origin (heading with
its level / list / table / image), text and page — are exactly what the elements of the document,
as `chunkPage` walks them, yield on their own (`solo`): each exactly once, with exactly its text
(heading text, formatted list, Markdown table, `[Image: alt]`), on the page it stands on, in
document order. -/
theorem solo_elements_exact (sp : Splitter) (d : Doc) : solos (chunkDocumentX sp d) = soloSpec d := by
  unfold chunkDocumentX pageGroupsX soloSpec
  rw [solos_setTotalX, solos_chunkPagesX]

/-- H1 a, paragraph x, table [[b]], image (no alt), image c on page 7 -/
example :
    solos (chunkDocumentX (fun _ => none)
      [⟨7, none, [.heading 1 [97], .para [120], .table [[[98]]], .image [], .image [99]]⟩]) =
      [(.heading 1, [97], 7), (.table, toMarkdown [[[98]]], 7), (.image, imageText [99], 7)] := by decide +kernel

/-- what `FilterWithTables` / `FilterWithLists` / `FilterWithImages` select from the collection
`ChunkDocument` returns: the document's tables as Markdown, its lists as formatted, its described
images — each once, in document order, with the page it stands on. -/
theorem tables_lists_images_exact (sp : Splitter) (d : Doc) :
    ((chunkDocumentX sp d).filter (·.hasTable)).map (fun x => (x.c.text, x.c.pageStart)) =
      d.flatMap (fun pg => pg.elems.filterMap fun e => match e with
        | .table rows => some (toMarkdown rows, pg.number) | _ => none) ∧
    ((chunkDocumentX sp d).filter (·.hasList)).map (fun x => (x.c.text, x.c.pageStart)) =
      d.flatMap (fun pg => pg.elems.filterMap fun e => match e with
        | .list o items => some (listText o items, pg.number) | _ => none) ∧
    ((chunkDocumentX sp d).filter (·.hasImage)).map (fun x => (x.c.text, x.c.pageStart)) =
      d.flatMap (fun pg => pg.elems.filterMap fun e => match e with
        | .image alt => if alt = [] then none else some (imageText alt, pg.number) | _ => none) := by
  have hx : solos (chunkDocumentX sp d) = d.flatMap fun pg => (resolveRepeatedHeadings pg).filterMap fun e =>
      (solo (tableOfContents d) pg.number e).map fun r => (r.1, r.2, pg.number) := solo_elements_exact sp d
  refine ⟨?_, ?_, ?_⟩
  · exact origin_exact _ d _ .table rfl hx
      (fun n e => match e with | .table rows => some (toMarkdown rows, n) | _ => none)
      (fun _ _ => rfl) (fun _ _ _ => rfl) (by
        intro page e
        cases e with
        | para t => simp only [solo]; split <;> rfl
        | heading l t => rfl
        | list o items => rfl
        | table rows => rfl
        | image alt => simp only [solo]; split <;> rfl)
  · exact origin_exact _ d _ .list rfl hx
      (fun n e => match e with | .list o items => some (listText o items, n) | _ => none)
      (fun _ _ => rfl) (fun _ _ _ => rfl) (by
        intro page e
        cases e with
        | para t => simp only [solo]; split <;> rfl
        | heading l t => rfl
        | list o items => rfl
        | table rows => rfl
        | image alt => simp only [solo]; split <;> rfl)
  · exact origin_exact _ d _ .image rfl hx
      (fun n e => match e with
        | .image alt => if alt = [] then none else some (imageText alt, n) | _ => none)
      (fun _ _ => rfl) (fun _ _ _ => rfl) (by
        intro page e
        cases e with
        | para t => simp only [solo]; split <;> rfl
        | heading l t => rfl
        | list o items => rfl
        | table rows => rfl
        | image alt => simp only [solo]; split <;> rfl)

/-- **A heading chunk closes its own section path**: for every chunk made from a heading or a
heading-like paragraph, the last entry of `SectionPath` — hence `SectionTitle` — is the heading's
own trimmed text, `HeadingLevel` is its level and `Level` is `ChunkLevelSection`. -/
theorem heading_chunk_title (sp : Splitter) (d : Doc) (x : XChunk) (hx : x ∈ chunkDocumentX sp d) (l : Int)
    (ho : x.o = .heading l) :
    x.c.path.getLast? = some (trim x.c.text) ∧ x.title = trim x.c.text ∧ x.headingLevel = l ∧ x.level = 1 := by
  have h := (ok_chunkDocumentX sp d x hx).1 l ho
  refine ⟨h, ?_, ?_, ?_⟩
  · simp only [XChunk.title, titleOf, h, Option.getD_some]
  · simp only [XChunk.headingLevel, ho]
  · simp only [XChunk.level, ho]

/-- **A text chunk is the trimmed form of what its `CharCount` counts**: `Text` is
`strings.TrimSpace(block.text)` while `CharCount`/`WordCount` are taken from `block.text` itself, so
`CharCount >= len(Text)`, with equality exactly when the block has no white space at its ends. -/
theorem text_chunk_counts (sp : Splitter) (d : Doc) (x : XChunk) (hx : x ∈ chunkDocumentX sp d) (raw : Str)
    (ho : x.o = .text raw) :
    x.c.text = trim raw ∧ x.charCount = raw.length ∧ x.c.text.length ≤ x.charCount ∧
    x.elementType = ofString "paragraph" ∧ x.hasTable = false ∧ x.hasList = false ∧ x.hasImage = false := by
  have h := (ok_chunkDocumentX sp d x hx).2 raw ho
  have hc : x.charCount = raw.length := by simp only [XChunk.charCount, XChunk.counted, ho]
  refine ⟨h, hc, ?_, by simp only [XChunk.elementType, ho], by simp [XChunk.hasTable, ho],
    by simp [XChunk.hasList, ho], by simp [XChunk.hasImage, ho]⟩
  rw [hc, h]
  unfold trim
  rw [List.length_reverse]
  have h1 := (List.dropWhile_sublist isSpace (l := (raw.dropWhile isSpace).reverse)).length_le
  have h2 := (List.dropWhile_sublist isSpace (l := raw)).length_le
  rw [List.length_reverse] at h1
  omega

/-- the paragraph " a " gives the text "a" and `CharCount` 3 -/
example :
    (chunkDocumentX (fun _ => none) [⟨1, none, [.para [32, 97, 32]]⟩]).map (fun x => (x.c.text, x.charCount, x.wordCount)) =
      [([97], 3, 1)] := by decide +kernel

/-! ### layout-based chunker: title and page range of a section, every document -/

open Tabula.ChunkLayout in
/-- **Every section `buildSections` makes — any document, any page numbers**: `Title` is the last
entry of `Path` (neither for the section without a heading); `PageEnd` is the page of the element
added last, i.e. a page the section's content came from (`PageStart` when the section has no
content); the section without a heading starts on the first page number other than 0 among its
elements. With `GroupsOK` (every chunk of a section's group carries the section's `Path`,
`PageStart`, `PageEnd`) this is the page-range clause as far as the code satisfies it without an
order on the page numbers (`C12Layout.layout_page_range_counterexample` shows what is missing). -/
theorem layout_section_shape (cfg : Cfg) (d : LDoc) :
    ∀ x ∈ flatForest (buildSections cfg d),
      x.1.title = titleOf x.1.path ∧ x.1.pageEnd = lastPage x.2 x.1.pageStart ∧
      (x.1.path = [] → x.1.pageStart = firstSetPage x.2) :=
  buildSections_shape cfg d

open Tabula.ChunkLayout in
/-- H1 A on page 3 with a paragraph on page 3 and one on page 1: the section reports 3-1, the
page of its heading and the page of its last element -/
example :
    let cfg : Cfg := ⟨2000, 100, 3, true, [99]⟩
    let d : LDoc := [⟨3, some ⟨[⟨1, [65], []⟩], [⟨[120], false, []⟩], []⟩⟩, ⟨1, some ⟨[], [⟨[121], false, []⟩], []⟩⟩]
    (flatForest (buildSections cfg d)).map (fun x => (x.1.title, x.1.pageStart, x.1.pageEnd, lastPage x.2 x.1.pageStart)) =
      [([65], 3, 1, 1)] := by decide +kernel

end Tabula.C12Meta
