import TabulaModel.Lemmas.PackageBind
import TabulaModel.Props.C18Front
/-!
# C18 — which attribute is the declaration (relationship-id binding), first rootfile,
OPC targets byte for byte

`Model/PackageBind.lean` models tabula's struct tags over the attribute lists that
`encoding/xml` produces. Here, for ALL attribute lists:

* PPTX `<sldId>`: the relationship id is the LAST attribute `id` of the Transitional
  relationships namespace when that is not empty, else the last one of the Strict
  namespace (`sldId_transitional`, `sldId_strict`); attributes without namespace (the
  numeric `id`), of foreign namespaces and `xmlns` declarations never play a part
  (`sldId_only_relationship_namespaces`, `sldId_unbound`); a Strict deck is read exactly
  like its Transitional spelling (`strict_read_as_transitional`).
* XLSX `<sheet>` (since 10098f7 bound like `<sldId>`: `sheetRefXML.relID()`): the
  relationship id is the `id` of the Transitional relationships namespace when that is not
  empty, else the one of the Strict namespace (`sheet_rid_transitional`, `sheet_rid_strict`,
  `sheet_rid_any_namespace`); `id`s of foreign namespaces or of none and `xmlns` declarations
  never matter, wherever they stand (`sheet_rid_only_relationship_namespaces`,
  `sheet_rid_foreign_id_ignored`, `sheet_rid_unbound`); every renaming of the foreign
  namespaces and the Strict spelling are read alike (`sheetRef_namespace_blind`,
  `sheetRef_strict_read_as_transitional`). The binding before the fix took the last
  attribute of local name `id` of ANY namespace, so a later foreign `id` or `xmlns:id`
  shadowed `r:id` (`sheet_rid_last_id_pinned_counterexample`, about `sheetRefOld`).
* composition with the part list: `pptx_paths_in_list_order`, `pptx_open_from_markup`,
  `xlsx_open_from_markup` — the presented parts are the declaring ELEMENTS in document
  order, each bound, resolved and looked up.
* EPUB `container.xml`: the package document is the first rootfile of the OPF media type
  (or without media type) with a path, whatever follows it (`rootfile_first_opf`,
  `rootfile_later_irrelevant`, `rootfile_fallback_first`, `rootfile_none_iff`,
  `epub_declared_from_first_rootfile`).
* OPC: an XLSX target is taken byte for byte — no cleaning, no percent-decoding
  (`xlsx_relative_target_exact`, `xlsx_absolute_target_exact`, `xlsx_sheet_member_exact`).
-/
namespace Tabula.C18Bind
open Tabula.Package Tabula.PackageBind Tabula.C18

/-! ## PPTX: `<sldId>` -/

/-- **sldId_transitional** — whatever else the element carries (the numeric `id`, an `id`
of the Strict or of a foreign namespace, declarations), a non-empty `id` of the Transitional
relationships namespace that no later such attribute follows IS the relationship id -/
theorem sldId_transitional (pre post : List Attr) (v : Str) (hv : v ≠ [])
    (hp : ∀ b ∈ post, ¬ (b.1 = nsRelT ∧ b.2.1 = lId)) :
    sldIdRel (pre ++ (nsRelT, lId, v) :: post) = v := by
  have h := attrField_last nsRelT lId pre post (nsRelT, lId, v) (by simp [takes])
    (fun b hb => takes_false_of nsRelT lId nsRelT_ne_nil b (hp b hb))
  unfold sldIdRel
  simp only [h]
  simp [hv]

/-- **sldId_strict** — an element without an `id` of the Transitional namespace (every
element of a Strict presentation) is bound through the Strict namespace: the last such
attribute is the relationship id -/
theorem sldId_strict (pre post : List Attr) (v : Str)
    (hT : ∀ b ∈ pre ++ (nsRelS, lId, v) :: post, ¬ (b.1 = nsRelT ∧ b.2.1 = lId))
    (hp : ∀ b ∈ post, ¬ (b.1 = nsRelS ∧ b.2.1 = lId)) :
    sldIdRel (pre ++ (nsRelS, lId, v) :: post) = v := by
  have h0 := attrField_none nsRelT lId _ (fun b hb => takes_false_of nsRelT lId nsRelT_ne_nil b (hT b hb))
  have h := attrField_last nsRelS lId pre post (nsRelS, lId, v) (by simp [takes])
    (fun b hb => takes_false_of nsRelS lId nsRelS_ne_nil b (hp b hb))
  unfold sldIdRel
  simp only [h0, h]
  simp

/-- is this an `id` of one of the two relationships namespaces? -/
def isRelId (a : Attr) : Bool := a.2.1 = lId && (a.1 = nsRelT || a.1 = nsRelS)

/-- **sldId_only_relationship_namespaces** — only the `id` attributes of the two
relationships namespaces play a part: the numeric `id` of the slide, attributes of foreign
namespaces and `xmlns` declarations (a prefix named `id` included) can all be dropped -/
theorem sldId_only_relationship_namespaces (attrs : List Attr) :
    sldIdRel (attrs.filter isRelId) = sldIdRel attrs := by
  unfold sldIdRel
  rw [attrField_filter nsRelT lId isRelId, attrField_filter nsRelS lId isRelId]
  · intro a ha
    have := (takes_ns nsRelS lId nsRelS_ne_nil a).1 ha
    simp [isRelId, this.1, this.2]
  · intro a ha
    have := (takes_ns nsRelT lId nsRelT_ne_nil a).1 ha
    simp [isRelId, this.1, this.2]

/-- **sldId_unbound** — an element without an `id` of either relationships namespace
declares no relationship (the empty id), whatever other attributes named `id` it has -/
theorem sldId_unbound (attrs : List Attr) (h : ∀ a ∈ attrs, isRelId a = false) :
    sldIdRel attrs = [] := by
  rw [← sldId_only_relationship_namespaces]
  have : attrs.filter isRelId = [] := by
    rw [List.filter_eq_nil_iff]
    intro a ha; simp [h a ha]
  rw [this]; rfl

/-- non-vacuity: `<p:sldId id="256" r:id="rId7"/>` and its Strict spelling, a foreign
`o:id` and a prefix named `id` beside `r:id` -/
example : sldIdRel [([], lId, [50, 53, 54]), (nsRelT, lId, [114, 55])] = [114, 55] := by decide
example : sldIdRel [(nsRelS, lId, [114, 55]), ([], lId, [50, 53, 54])] = [114, 55] := by decide
example : sldIdRel [(nsRelT, lId, [114, 55]), ([1], lId, [120]), (sXmlns, lId, [121])] = [114, 55] := by decide
example : sldIdRel [([], lId, [50, 53, 54]), ([1], lId, [120])] = [] := by decide

/-- **strict_read_as_transitional** — rewriting the Transitional relationships namespace
into the Strict one (what saving as "Strict Open XML Presentation" does to every `r:id`)
leaves the relationship id of every `<sldId>` unchanged -/
theorem strict_read_as_transitional (attrs : List Attr) (hS : ∀ a ∈ attrs, a.1 ≠ nsRelS) :
    sldIdRel (retag toStrict attrs) = sldIdRel attrs := by
  have hA : attrField nsRelT lId (retag toStrict attrs) = [] := by
    apply attrField_none
    intro b hb
    apply takes_false_of nsRelT lId nsRelT_ne_nil
    unfold retag at hb
    obtain ⟨a, _, rfl⟩ := List.mem_map.1 hb
    intro h
    have h1 : toStrict a.1 = nsRelT := h.1
    unfold toStrict at h1
    split at h1
    · exact nsRelS_ne_nsRelT h1
    · contradiction
  have hB : attrField nsRelS lId (retag toStrict attrs) = attrField nsRelT lId attrs := by
    rw [attrField_eq, attrField_eq, retag_foldl]
    apply foldl_congr_mem
    intro a ha acc
    have hs := hS a ha
    unfold step
    have : takes nsRelS lId (toStrict a.1, a.2.1, a.2.2) = takes nsRelT lId a := by
      unfold toStrict
      by_cases h : a.1 = nsRelT
      · simp [takes, h]
      · have h' : ¬ nsRelT = a.1 := fun e => h e.symm
        have hs' : ¬ nsRelS = a.1 := fun e => hs e.symm
        simp [takes, h, h', hs', nsRelT_ne_nil, nsRelS_ne_nil]
    rw [this]
  have hC : attrField nsRelS lId attrs = [] := by
    apply attrField_none
    intro a ha
    exact takes_false_of nsRelS lId nsRelS_ne_nil a (fun h => hS a ha h.1)
  unfold sldIdRel
  simp only [hA, hB, hC]
  by_cases h : attrField nsRelT lId attrs = [] <;> simp [h]

/-- non-vacuity of `strict_read_as_transitional` -/
example : (∀ a ∈ ([([], lId, [50]), (nsRelT, lId, [114, 55])] : List Attr), a.1 ≠ nsRelS) ∧
    retag toStrict [([], lId, [50]), (nsRelT, lId, [114, 55])] = [([], lId, [50]), (nsRelS, lId, [114, 55])] := by
  decide

/-! ## XLSX: `<sheet>` and `<Relationship>` -/

/-- since 10098f7 `sheetRefXML.relID()` is `slideIdXML.relID()` word for word -/
theorem sheetRef_rid (attrs : List Attr) : (sheetRef attrs).2 = sldIdRel attrs := rfl

/-- **sheet_rid_transitional** — whatever else the element carries (`sheetId`, an `id` of the
Strict, of a foreign or of no namespace, declarations), a non-empty `id` of the Transitional
relationships namespace that no later such attribute follows IS the relationship id -/
theorem sheet_rid_transitional (pre post : List Attr) (v : Str) (hv : v ≠ [])
    (hp : ∀ b ∈ post, ¬ (b.1 = nsRelT ∧ b.2.1 = lId)) :
    (sheetRef (pre ++ (nsRelT, lId, v) :: post)).2 = v := by
  rw [sheetRef_rid]; exact sldId_transitional pre post v hv hp

/-- **sheet_rid_strict** — an element without an `id` of the Transitional namespace (every
`<sheet>` of a Strict workbook) is bound through the Strict namespace -/
theorem sheet_rid_strict (pre post : List Attr) (v : Str)
    (hT : ∀ b ∈ pre ++ (nsRelS, lId, v) :: post, ¬ (b.1 = nsRelT ∧ b.2.1 = lId))
    (hp : ∀ b ∈ post, ¬ (b.1 = nsRelS ∧ b.2.1 = lId)) :
    (sheetRef (pre ++ (nsRelS, lId, v) :: post)).2 = v := by
  rw [sheetRef_rid]; exact sldId_strict pre post v hT hp

/-- **sheet_rid_only_relationship_namespaces** — only the `id` attributes of the two
relationships namespaces play a part: `id`s of foreign namespaces or of none and `xmlns`
declarations (a prefix named `id` included) can all be dropped -/
theorem sheet_rid_only_relationship_namespaces (attrs : List Attr) :
    (sheetRef (attrs.filter isRelId)).2 = (sheetRef attrs).2 := by
  rw [sheetRef_rid, sheetRef_rid]; exact sldId_only_relationship_namespaces attrs

/-- **sheet_rid_foreign_id_ignored** — the statement the old binding violated: an attribute
that is not an `id` of a relationships namespace — a foreign `o:id`, a bare `id`, the
declaration `xmlns:id="…"` — written ANYWHERE on the element leaves the relationship id as
it is -/
theorem sheet_rid_foreign_id_ignored (pre post : List Attr) (a : Attr) (ha : isRelId a = false) :
    (sheetRef (pre ++ a :: post)).2 = (sheetRef (pre ++ post)).2 := by
  rw [← sheet_rid_only_relationship_namespaces (pre ++ a :: post),
    ← sheet_rid_only_relationship_namespaces (pre ++ post)]
  have hn : ¬ isRelId a = true := by simp [ha]
  rw [List.filter_append, List.filter_cons_of_neg hn, ← List.filter_append]

/-- **sheet_rid_unbound** — a `<sheet>` without an `id` of either relationships namespace
declares no relationship (the empty id; `parseWorksheets` then tries the default part name),
whatever other attributes named `id` it has -/
theorem sheet_rid_unbound (attrs : List Attr) (h : ∀ a ∈ attrs, isRelId a = false) :
    (sheetRef attrs).2 = [] := by
  rw [sheetRef_rid]; exact sldId_unbound attrs h

/-- **sheet_rid_any_namespace** (restated after 10098f7; before, the id was the last
attribute of local name `id` of ANY namespace) — the relationship id of a `<sheet>` is its
`id` in one of the two relationships namespaces, whichever it is, and whatever `id`s of any
OTHER namespace, of none, or `xmlns` declarations stand before or after it -/
theorem sheet_rid_any_namespace (pre post : List Attr) (sp v : Str)
    (hsp : sp = nsRelT ∨ sp = nsRelS) (hv : v ≠ [])
    (hfree : ∀ b ∈ pre ++ post, isRelId b = false) :
    (sheetRef (pre ++ (sp, lId, v) :: post)).2 = v := by
  have hnot : ∀ ns, ∀ b ∈ pre ++ post, ¬ (b.1 = ns ∧ b.2.1 = lId) ∨ (ns ≠ nsRelT ∧ ns ≠ nsRelS) := by
    intro ns b hb
    by_cases h : b.1 = ns ∧ b.2.1 = lId
    · right
      have := hfree b hb
      simp only [isRelId, h.2, h.1, decide_true, Bool.true_and, Bool.or_eq_false_iff,
        decide_eq_false_iff_not] at this
      exact this
    · left; exact h
  have hT : ∀ b ∈ pre ++ post, ¬ (b.1 = nsRelT ∧ b.2.1 = lId) := fun b hb =>
    (hnot nsRelT b hb).elim id (fun h => absurd rfl h.1)
  have hS : ∀ b ∈ pre ++ post, ¬ (b.1 = nsRelS ∧ b.2.1 = lId) := fun b hb =>
    (hnot nsRelS b hb).elim id (fun h => absurd rfl h.2)
  rcases hsp with rfl | rfl
  · exact sheet_rid_transitional pre post v hv
      (fun b hb => hT b (List.mem_append_right _ hb))
  · apply sheet_rid_strict pre post v
    · intro b hb
      rcases List.mem_append.1 hb with h | h
      · exact hT b (List.mem_append_left _ h)
      · rcases List.mem_cons.1 h with rfl | h
        · intro hh; exact nsRelS_ne_nsRelT hh.1
        · exact hT b (List.mem_append_right _ h)
    · exact fun b hb => hS b (List.mem_append_right _ hb)

/-- the sheet name is the last attribute of local name `name` (the tag `name,attr` carries
no namespace; unchanged by 10098f7) -/
theorem sheet_name_last (pre post : List Attr) (sp v : Str) (hp : ∀ b ∈ post, b.2.1 ≠ lName) :
    (sheetRef (pre ++ (sp, lName, v) :: post)).1 = v := by
  unfold sheetRef
  exact attrField_last [] lName pre post (sp, lName, v) (by simp [takes])
    (fun b hb => by
      cases ht : takes [] lName b with
      | false => rfl
      | true => exact absurd ((takes_nil lName b).1 ht) (hp b hb))

theorem attrField_retag_blind (f : Str → Str) (loc : Str) (attrs : List Attr) :
    attrField [] loc (retag f attrs) = attrField [] loc attrs := by
  rw [attrField_eq, attrField_eq, retag_foldl]
  apply foldl_congr_mem
  intro a _ acc
  simp [step, takes]

/-- a field bound to the namespace `ns` reads a renamed element alike when the renaming
maps `ns`, and nothing else, to `ns` -/
theorem attrField_retag_fix (f : Str → Str) (ns loc : Str) (hns : ns ≠ [])
    (hf : ∀ x, f x = ns ↔ x = ns) (attrs : List Attr) :
    attrField ns loc (retag f attrs) = attrField ns loc attrs := by
  rw [attrField_eq, attrField_eq, retag_foldl]
  apply foldl_congr_mem
  intro a _ acc
  have : takes ns loc (f a.1, a.2.1, a.2.2) = takes ns loc a := by
    rw [Bool.eq_iff_iff, takes_ns ns loc hns, takes_ns ns loc hns]
    exact and_congr Iff.rfl (hf a.1)
  unfold step
  rw [this]

/-- **sheetRef_namespace_blind** (restated after 10098f7; before, EVERY renaming of the
attribute namespaces left a `<sheet>` unchanged, which is what let a foreign `id` in) — a
workbook is read alike under every renaming of the FOREIGN attribute namespaces, i.e.
every renaming that keeps the two relationships namespaces apart from the rest: name and
relationship id of every `<sheet>` are the same -/
theorem sheetRef_namespace_blind (f : Str → Str) (attrs : List Attr)
    (hT : ∀ x, f x = nsRelT ↔ x = nsRelT) (hS : ∀ x, f x = nsRelS ↔ x = nsRelS) :
    sheetRef (retag f attrs) = sheetRef attrs := by
  unfold sheetRef sheetRel
  rw [attrField_retag_blind, attrField_retag_fix f nsRelT lId nsRelT_ne_nil hT,
    attrField_retag_fix f nsRelS lId nsRelS_ne_nil hS]

/-- **sheetRef_strict_read_as_transitional** — rewriting the Transitional relationships
namespace into the Strict one (what saving as "Strict Open XML Spreadsheet" does to every
`r:id`) leaves name and relationship id of every `<sheet>` unchanged -/
theorem sheetRef_strict_read_as_transitional (attrs : List Attr) (hS : ∀ a ∈ attrs, a.1 ≠ nsRelS) :
    sheetRef (retag toStrict attrs) = sheetRef attrs := by
  have h1 : (sheetRef (retag toStrict attrs)).1 = (sheetRef attrs).1 :=
    attrField_retag_blind toStrict lName attrs
  have h2 : (sheetRef (retag toStrict attrs)).2 = (sheetRef attrs).2 := by
    rw [sheetRef_rid, sheetRef_rid]; exact strict_read_as_transitional attrs hS
  exact Prod.ext h1 h2

/-- a `<Relationship>` element is read alike under every renaming of the attribute
namespaces (its tags `Id,attr` / `Type,attr` / `Target,attr` carry none) -/
theorem relTriple_namespace_blind (f : Str → Str) (attrs : List Attr) :
    relTriple (retag f attrs) = relTriple attrs := by
  unfold relTriple; rw [attrField_retag_blind, attrField_retag_blind, attrField_retag_blind]

/-- **sheet_rid_last_id_pinned_counterexample** — the binding before 10098f7
(`sheetRefOld`: `RID string xml:"id,attr"`, no namespace) let a later attribute of local
name `id` — here the declaration of a prefix named `id` on the element — shadow `r:id`
(`<sheet name="A" r:id="r7" xmlns:id="u"/>`), and likewise a foreign `o:id`; the sheet lost
its relationship. The repaired binding reads `r7` in both (`sheet_rid_foreign_id_ignored`) -/
theorem sheet_rid_last_id_pinned_counterexample :
    (sheetRefOld [([], lName, [65]), (nsRelT, lId, [114, 55]), (sXmlns, lId, [117])]).2 = [117] ∧
    (sheetRefOld [([], lName, [65]), (nsRelT, lId, [114, 55]), ([1], lId, [120])]).2 = [120] ∧
    (sheetRef [([], lName, [65]), (nsRelT, lId, [114, 55]), (sXmlns, lId, [117])]).2 = [114, 55] ∧
    (sheetRef [([], lName, [65]), (nsRelT, lId, [114, 55]), ([1], lId, [120])]).2 = [114, 55] := by decide

/-- non-vacuity: a Strict `<sheet>` with `sheetId`; `r:id` between a bare `id` and a prefix
named `id`; the renaming of a foreign namespace; an element with foreign `id`s only -/
example : sheetRef [([], lName, [65]), ([], [115, 104, 101, 101, 116, 73, 100], [57]), (nsRelS, lId, [114, 55])]
    = ([65], [114, 55]) := by decide
example : (∀ b ∈ ([([], lId, [57])] ++ [(sXmlns, lId, [117])] : List Attr), isRelId b = false) ∧
    (sheetRef ([([], lId, [57])] ++ (nsRelT, lId, [114, 55]) :: [(sXmlns, lId, [117])])).2 = [114, 55] := by decide
example : (∀ x, (fun ns : Str => if ns = [1] then [2] else ns) x = nsRelT ↔ x = nsRelT) := by
  intro x; by_cases h : x = [1]
  · subst h; simp [nsRelT]
  · simp [h]
example : sheetRef [([], lName, [65]), ([], lId, [57]), ([1], lId, [120])] = ([65], []) := by decide

/-! ## composition with the part list -/

/-- **pptx_paths_in_list_order** — the declared slide paths are the `<sldId>` ELEMENTS in
document order, each bound (`sldIdRel`) and resolved (`slidePath`), unresolvable ones dropped -/
theorem pptx_paths_in_list_order (elems : List (List Attr)) (rels : List (Str × Str)) :
    declaredSlidePaths (some (elems.map sldIdRel)) (some rels) =
      elems.filterMap (fun e => slidePath rels (sldIdRel e)) := by
  show List.filterMap (slidePath rels) (elems.map sldIdRel) = _
  rw [List.filterMap_map]
  rfl

/-- the relationships a part given by its `<Relationship>` elements yields -/
def relPairsOf (relElems : List (List Attr)) : List (Str × Str) :=
  (relElems.map relTriple).map fun r => (r.1, r.2.2)

/-- **pptx_open_from_markup** — from the markup to the slide list, for every archive: with
the presentation given by its `<sldId>` elements and the relationship part by its
`<Relationship>` elements, `pptx.Open` presents the elements in document order — bound,
resolved, looked up byte for byte, kept when the member is a slide — and fails exactly
when none is readable (the hypothesis says that at least one element resolves to a path;
otherwise the file-name fallback applies) -/
theorem pptx_open_from_markup (a : Archive) (x : Docs) (ct pc rc : Nat)
    (elems relElems : List (List Attr))
    (h1 : lookup a sCT = some ct) (h2 : lookup a sPres = some pc) (h3 : lookup a sPresRels = some rc)
    (hp : x pc = bindPresentation (some elems)) (hr : x rc = bindRels relElems)
    (hne : elems.filterMap (fun e => slidePath (relPairsOf relElems) (sldIdRel e)) ≠ []) :
    pptxOpen a x =
      (let parts := (elems.filterMap (fun e => slidePath (relPairsOf relElems) (sldIdRel e))).zipIdx.filterMap
          (pptxSpecPart a x)
       if parts = [] then none else some parts) := by
  apply parts_follow_declaration_pptx a x _ _ hne
  unfold pptxDeclared pptxRels
  simp only [h1, h2, h3, hp, hr, bindPresentation, bindRels, Doc.relPairs?, Option.map_some]
  rw [pptx_paths_in_list_order]
  rfl

/-- **xlsx_open_from_markup** — the same for a workbook given by its `<sheet>` elements -/
theorem xlsx_open_from_markup (a : Archive) (x : Docs) (ct w rc : Nat)
    (sheetElems relElems : List (List Attr))
    (h1 : lookup a sCT = some ct) (h2 : lookup a sWorkbook = some w) (h3 : lookup a sXlRels = some rc)
    (hw : x w = bindWorkbook sheetElems) (hr : x rc = bindRels relElems) :
    xlsxOpen a x =
      (let parts := (sheetElems.map sheetRef).zipIdx.filterMap (xlsxSpecPart a x (relPairsOf relElems))
       if parts = [] then none else some parts) := by
  apply parts_follow_declaration_xlsx a x
  unfold xlsxDeclared xlsxRels
  simp only [h1, h2, h3, hw, hr, bindWorkbook, bindRels, Doc.relPairs?]
  rfl

/-- non-vacuity of `pptx_open_from_markup`: two slides declared in the order `b`, `a`
(Strict and Transitional spelling mixed), stored in the order `a`, `b` -/
example :
    let a : Archive := [(sCT, 1), ([112, 112, 116, 47, 97], 2), ([112, 112, 116, 47, 98], 3), (sPres, 4), (sPresRels, 5)]
    let elems : List (List Attr) := [[([], lId, [50]), (nsRelS, lId, [114, 50])], [(nsRelT, lId, [114, 49])]]
    let relElems : List (List Attr) := [[([], lIdCap, [114, 49]), ([], lTarget, [97])], [([], lTarget, [98]), ([], lIdCap, [114, 50])]]
    let x : Docs := fun c => if c = 4 then bindPresentation (some elems) else if c = 5 then bindRels relElems
      else if c = 2 ∨ c = 3 then .slide else .opaque
    elems.filterMap (fun e => slidePath (relPairsOf relElems) (sldIdRel e)) = [[112, 112, 116, 47, 98], [112, 112, 116, 47, 97]] ∧
      pptxOpen a x = some [(0, 3), (1, 2)] := by decide

/-! ## EPUB: the rootfile of `META-INF/container.xml` -/

/-- a rootfile entry `parseContainer` accepts in its first pass: the OPF media type or no
media type, and a path -/
def isOpfRoot (rf : Str × Str) : Prop := (rf.2 = sOebps ∨ rf.2 = []) ∧ rf.1 ≠ []

instance (rf : Str × Str) : Decidable (isOpfRoot rf) := by unfold isOpfRoot; infer_instance

/-- **rootfile_first_opf** — the package document is the FIRST rootfile of the OPF media
type (or without one) that has a path: entries before it that do not qualify and
everything after it are irrelevant -/
theorem rootfile_first_opf (pre post : List (Str × Str)) (rf : Str × Str)
    (hrf : isOpfRoot rf) (hpre : ∀ p ∈ pre, ¬ isOpfRoot p) :
    pickRootfile (pre ++ rf :: post) = some rf.1 := by
  unfold pickRootfile
  have h : (pre ++ rf :: post).find? (fun rf => (rf.2 = sOebps ∨ rf.2 = []) ∧ rf.1 ≠ []) = some rf := by
    rw [List.find?_append]
    have : pre.find? (fun rf => decide ((rf.2 = sOebps ∨ rf.2 = []) ∧ rf.1 ≠ [])) = none := by
      rw [List.find?_eq_none]
      intro p hp
      have := hpre p hp
      unfold isOpfRoot at this
      simpa using this
    rw [this]
    unfold isOpfRoot at hrf
    simp [hrf]
  rw [h]

/-- **rootfile_later_irrelevant** — what follows the chosen rootfile (further renditions,
left-over entries) does not influence the choice -/
theorem rootfile_later_irrelevant (pre post post' : List (Str × Str)) (rf : Str × Str)
    (hrf : isOpfRoot rf) (hpre : ∀ p ∈ pre, ¬ isOpfRoot p) :
    pickRootfile (pre ++ rf :: post) = pickRootfile (pre ++ rf :: post') := by
  rw [rootfile_first_opf pre post rf hrf hpre, rootfile_first_opf pre post' rf hrf hpre]

/-- **rootfile_fallback_first** — when no entry qualifies the first entry is taken as it is -/
theorem rootfile_fallback_first (rf : Str × Str) (rest : List (Str × Str))
    (h : ∀ p ∈ rf :: rest, ¬ isOpfRoot p) : pickRootfile (rf :: rest) = some rf.1 := by
  unfold pickRootfile
  have : (rf :: rest).find? (fun rf => decide ((rf.2 = sOebps ∨ rf.2 = []) ∧ rf.1 ≠ [])) = none := by
    rw [List.find?_eq_none]
    intro p hp
    have := h p hp
    unfold isOpfRoot at this
    simpa using this
  rw [this]

/-- **rootfile_none_iff** — only a container without rootfile entries names no package document -/
theorem rootfile_none_iff (roots : List (Str × Str)) : pickRootfile roots = none ↔ roots = [] := by
  constructor
  · intro h
    cases roots with
    | nil => rfl
    | cons rf rest =>
      unfold pickRootfile at h
      split at h <;> simp at h
  · intro h; subst h; rfl

/-- **epub_declared_from_first_rootfile** — the declaration of an EPUB is the package
document the first OPF rootfile names: manifest and spine of that member, whatever other
package documents the container lists after it and whatever they contain -/
theorem epub_declared_from_first_rootfile (a : Archive) (x : Docs) (c : Nat)
    (pre post : List (Str × Str)) (rf : Str × Str)
    (hc : lookup a sContainer = some c) (hx : x c = .container (pre ++ rf :: post))
    (hrf : isOpfRoot rf) (hpre : ∀ p ∈ pre, ¬ isOpfRoot p) :
    epubDeclared (lookup a) x = parseOPF (lookup a) x rf.1 := by
  unfold epubDeclared parseContainer
  simp only [hc, hx, rootfile_first_opf pre post rf hrf hpre]

/-- non-vacuity: an entry of another media type, the default rendition, a second rendition -/
example :
    let other : Str × Str := ([120], [116])
    let first : Str × Str := ([97, 46, 111, 112, 102], sOebps)
    let second : Str × Str := ([98, 46, 111, 112, 102], sOebps)
    isOpfRoot first ∧ (∀ p ∈ [other], ¬ isOpfRoot p) ∧
      pickRootfile ([other] ++ first :: [second]) = some [97, 46, 111, 112, 102] := by decide

/-! ## OPC: XLSX targets byte for byte -/

/-- **xlsx_relative_target_exact** — a relative Target `t` (not starting with `/` or `xl/`)
denotes the member `xl/` ++ `t`, byte for byte: no dot-segment cleaning, no
percent-decoding, no case folding — for EVERY byte string `t` -/
theorem xlsx_relative_target_exact (rels : List (Str × Str)) (i : Nat) (rid t : Str)
    (h : mapLast rels rid = t) (ht : t ≠ []) (h1 : hasPrefix [47] t = false) (h2 : hasPrefix sXl t = false) :
    xlsxTarget rels i rid = sXl ++ t := by
  rw [C18Front.xlsx_target_denotes]
  simp [h, ht, h1, h2]

/-- **xlsx_absolute_target_exact** — an absolute Target `/p` denotes the member `p`, byte
for byte -/
theorem xlsx_absolute_target_exact (rels : List (Str × Str)) (i : Nat) (rid p : Str)
    (h : mapLast rels rid = 47 :: p) : xlsxTarget rels i rid = p := by
  rw [C18Front.xlsx_target_denotes]
  simp [h, hasPrefix, List.isPrefixOf]

/-- **xlsx_sheet_member_exact** — the sheet declared at position `i` with a relative target
`t` is the member named exactly `xl/t` when there is one and it is a worksheet; members
under any other spelling of that name (percent-decoded, other letter case) are not asked for -/
theorem xlsx_sheet_member_exact (a : Archive) (x : Docs) (rels : List (Str × Str)) (i c : Nat) (s : Str × Str) (t : Str)
    (h : mapLast rels s.2 = t) (ht : t ≠ []) (h1 : hasPrefix [47] t = false) (h2 : hasPrefix sXl t = false)
    (hl : lookup a (sXl ++ t) = some c) (hs : x c = .sheet) :
    xlsxSpecPart a x rels (s, i) = some (i, c, s.1) := by
  unfold xlsxSpecPart xlsxRead
  simp only [xlsx_relative_target_exact rels i s.2 t h ht h1 h2, hl, Option.bind_some, hs, if_true]

/-- non-vacuity: the target `ws/a%20b.xml` denotes `xl/ws/a%20b.xml`; a member
`xl/ws/a b.xml` beside it is not the sheet -/
example :
    let t : Str := [119, 115, 47, 97, 37, 50, 48, 98, 46, 120, 109, 108]
    let a : Archive := [(sXl ++ [119, 115, 47, 97, 32, 98, 46, 120, 109, 108], 8), (sXl ++ t, 9)]
    let rels : List (Str × Str) := [([114], t)]
    mapLast rels [114] = t ∧ hasPrefix [47] t = false ∧ hasPrefix sXl t = false ∧
      xlsxSpecPart a (fun _ => .sheet) rels (([78], [114]), 0) = some (0, 9, [78]) := by decide

end Tabula.C18Bind
