import TabulaModel.Lemmas.HtmlSrc
import TabulaModel.Lemmas.HtmlWant
import TabulaModel.Props.C19
/-!
# C19 — content is kept: the text-node level

`Props/C19.lean` shows that the traversal returns the atoms of the specification, once and in
order.  This file goes below the atoms: what TEXT an atom carries, measured against the raw
text nodes of the parsed tree (`tn`, `tnFlat`, `directSrc`, `tableCellNodes`, `src` in
`Model/HtmlSpec.lean`, all written from the DOM alone).  White space is not fixed by the
property, so texts are compared through `squeeze` (all white space removed); the statements
about `pieces` are exact.  All theorems are for every tree, every predicate, every position.

Depth limit (fix a65974f): these are statements about the mechanism — `getTextContentRecursive`,
`traverseNodeFiltered`, `extractBodyWithMode` on a tree — whose code did not change; they stay
verbatim and hold for every tree.  A PUBLIC call only ever runs the mechanism on a tree
`OpenReader` admitted (height ≤ `maxTreeDepth` = 10000); the statements about the public calls,
with that hypothesis, are in Props/C19Api.lean (`text_is_source_text`, `open_refuses_beyond`).
-/
namespace Tabula.C19Text
open Tabula.Html

/-- `getTextContentRecursive` writes every text node of the subtree exactly once, in document
order, leaves out the content of script/style/… elements, and adds nothing but one "\n" per br
and one " " per closed block: its output is the rendering of `pieces`, and the text pieces are
exactly the text nodes `tn` (markup contributes no character). -/
theorem text_nodes_once_in_order (t : Dom) :
    textRec t = (pieces t).flatMap Piece.render ∧
    (pieces t).filterMap Piece.text? = tn t ∧
    tnFlat t = (tn t).flatten :=
  ⟨textRec_pieces t, pieces_texts t, tnFlat_eq t⟩

/-- hence, up to white space, the text of any element is the concatenation of its text nodes -/
theorem text_content_is_text_nodes (t : Dom) :
    squeeze (getTextContent t) = squeeze (tnFlat t) ∧
    (trim (getTextContent t) = [] ↔ squeeze (tnFlat t) = []) := by
  refine ⟨squeeze_getTextContent t, ?_⟩
  rw [trim_eq_nil_iff, squeeze_getTextContent]

/-- scripts, styles and the other skipped elements contribute no text node, no text, no atom and no
source text, whatever they contain and wherever they sit -/
theorem skipped_removed (p : Pos → Dom → Bool) (w : Bool) (pos : Pos) (lc : LC)
    (tag : Str) (attrs : List (Str × Str)) (kids : List Dom) (h : isSkip tag = true) :
    tn (.elem tag attrs kids) = [] ∧ getTextContent (.elem tag attrs kids) = [] ∧
    atoms p w pos lc (.elem tag attrs kids) = [] ∧ src p w pos (.elem tag attrs kids) = [] := by
  refine ⟨?_, ?_, ?_, ?_⟩
  · unfold tn; simp [h]
  · unfold getTextContent textRec; simp [h, trim, trimLeft, trimRight]
  · unfold atoms; simp [h]
  · unfold src; simp [h]

example : isSkip T.script = true := by decide

/-- up to white space the text of a list item is the text nodes of the `li` outside the nested lists
that are its direct children (those are returned as items of their own) -/
theorem item_text_is_direct_text_nodes (kids : List Dom) :
    squeeze (getDirectTextContent kids) = squeeze (kids.flatMap directSrc) :=
  squeeze_getDirectTextContent kids

/-- Tables: every td/th of every row (rows directly in the table or in its thead/tbody/tfoot) is
returned as exactly one cell, in document order, carrying the text of that td/th; rowspan/colspan
attributes of any value never change the text or the header flag. -/
theorem table_cells_complete (kids : List Dom) :
    (parseTable kids).1.flatten.map (·.text) = (tableCellNodes kids).map cellText ∧
    (parseTable kids).1.flatten.length = (tableCellNodes kids).length ∧
    (∀ attrs c, (applySpans attrs c).text = c.text ∧ (applySpans attrs c).isHeader = c.isHeader) := by
  refine ⟨parseTable_texts kids, ?_, applySpans_text⟩
  have := congrArg List.length (parseTable_texts kids)
  rw [List.length_map, List.length_map] at this
  exact this

/-- a non-excluded pre/code element is one code atom with the whole text of the element; an `li`
starts with one item atom carrying its own text; a table is the sequence of its cells -/
theorem code_item_table_atoms (p : Pos → Dom → Bool) (w : Bool) (pos : Pos) (lc : LC)
    (tag : Str) (attrs : List (Str × Str)) (kids : List Dom)
    (hs : isSkip tag = false) (hp : p pos (.elem tag attrs kids) = false) :
    (classify tag = .code → getTextContent (.elem tag attrs kids) ≠ [] →
      atoms p w pos lc (.elem tag attrs kids) = [.code (getTextContent (.elem tag attrs kids))]) ∧
    (classify tag = .li → getDirectTextContent kids ≠ [] →
      ∃ rest, atoms p w pos lc (.elem tag attrs kids) =
        .item lc.enter.level (getDirectTextContent kids) :: rest) ∧
    (classify tag = .table →
      atoms p w pos lc (.elem tag attrs kids) = (parseTable kids).1.flatten.map .cell) := by
  refine ⟨?_, ?_, ?_⟩
  · intro hc ht
    unfold atoms; simp only [hs, hp, hc, Bool.false_eq_true, if_false]; simp [ht]
  · intro hc ht
    refine ⟨atomsLi p w (pos.kid w tag) ⟨true, lc.enter.level + 1⟩ kids, ?_⟩
    unfold atoms; simp only [hs, hp, hc, Bool.false_eq_true, if_false]; simp [ht]
  · intro hc
    unfold atoms; simp only [hs, hp, hc, Bool.false_eq_true, if_false]

example : isSkip T.pre = false ∧ classify T.pre = .code ∧ getTextContent (.elem T.pre [] [.text [120]]) ≠ [] := by
  decide

/-- DOCUMENT LEVEL (composition of `traverse_refines_atoms` with the text-node lemmas): for every
document and every exclusion predicate, the text carried by the elements the traversal returns
is, up to white space, exactly the source text of the document: the text nodes of the
non-skipped, non-excluded content elements, each once, in the order of their content elements.
(Since fix 75d57dc a p/div with a block-level child contributes the whole text of its inline
children too: `srcM`, `mixed_block_text_kept`.) -/
theorem content_text_complete (p : Pos → Dom → Bool) (body : Dom) :
    squeeze (elementsText (extractWith p body)) = squeeze (src p (hasWrapper body) .root body) := by
  unfold elementsText
  have h := Tabula.Html.trav_refines p (hasWrapper body) body .root {} (fun _ => ⟨rfl, rfl⟩)
  have hf := flushList_flat (trav p (hasWrapper body) .root body {})
  have hi := flushList_items _ h.ok
  have e : flatten (extractWith p body) = atoms p (hasWrapper body) .root ⟨false, 0⟩ body := by
    unfold extractWith
    have e1 : (flushList (trav p (hasWrapper body) .root body {})).flat =
        flatten (flushList (trav p (hasWrapper body) .root body {})).out := by
      simp [St.flat, hi]
    rw [← e1, hf, h.flat]
    simp [St.flat, St.lc, flatten]
  rw [e]
  exact atoms_src p (hasWrapper body) body .root ⟨false, 0⟩

/-- … in particular for the element list of a reader (`extractBodyWithMode(doc, mode)`): whatever raw
mode value is asked for, from the document node the parser returned (a reader exists for trees of
height ≤ `maxTreeDepth` only, see `Tabula.C19Api.open_refuses_beyond`; the statement itself is about
the walk and holds for every tree) -/
theorem content_text_complete_api (m : Int) (doc : Dom) :
    squeeze (elementsText (extractI m doc)) = squeeze (srcOf m doc) := by
  unfold extractI srcOf
  exact content_text_complete _ _

/-- the source text is compositional: siblings contribute consecutive segments in sibling order,
so no text node is returned twice or out of the order of its content element -/
theorem src_siblings (p : Pos → Dom → Bool) (w : Bool) (kp : Pos) (a b : List Dom) (k : Dom) :
    srcL p w kp (a ++ k :: b) = srcL p w kp a ++ src p w kp k ++ srcL p w kp b := by
  induction a with
  | nil => simp [srcL]
  | cons x xs ih => simp [srcL, ih, List.append_assoc]

/-- OUTSIDE UNCHANGED, at the level of the source text: among siblings `a ++ k :: b`, if two
predicates decide alike on every node of `a` and of `b`, then whatever happens inside `k` (e.g.
one of them excludes it) the text contributed by `a` and by `b` is identical and stays in place. -/
theorem outside_unchanged_source (p q : Pos → Dom → Bool) (w : Bool) (kp : Pos) (a b : List Dom) (k : Dom)
    (ha : agreeL p q w kp a) (hb : agreeL p q w kp b) :
    srcL q w kp (a ++ k :: b) = srcL p w kp a ++ src q w kp k ++ srcL p w kp b := by
  rw [srcL_append]
  simp only [srcL]
  rw [srcL_agree p q w a kp ha, srcL_agree p q w b kp hb, List.append_assoc]

example : agreeL (excluded .none) (excluded .standard) false .bodyChild
    [.elem T.p [] [.text [120]], .text [32]] := by
  simp [agreeL, agree, excluded, excludedExplicit, excludedPattern, getAttr, Mode.rank]
  decide

/-- a subtree in which a mode excludes nothing has the same source text as under mode None -/
theorem nothing_excluded_same_source (p q : Pos → Dom → Bool) (w : Bool) (pos : Pos) (t : Dom)
    (h : agree p q w pos t) : src q w pos t = src p w pos t :=
  src_agree p q w t pos h

/-- LOCAL COMPLETENESS of the source text, content element by content element: for an element that is
neither skipped nor excluded, `src` holds ALL text nodes of a heading, of a pre/code, of a block
quote, of a p/div without block-level children, the own text of a list item followed by its
nested lists, and the text of every cell of a table.  With `content_text_complete` this is the
content half of the property for these content elements; a p/div that has a block-level child
follows in `mixed_block_text_kept`. -/
theorem source_text_complete (p : Pos → Dom → Bool) (w : Bool) (pos : Pos)
    (tag : Str) (attrs : List (Str × Str)) (kids : List Dom)
    (hs : isSkip tag = false) (hp : p pos (.elem tag attrs kids) = false) :
    (∀ l, classify tag = .heading l → src p w pos (.elem tag attrs kids) = tnFlat (.elem tag attrs kids)) ∧
    (classify tag = .code → src p w pos (.elem tag attrs kids) = tnFlat (.elem tag attrs kids)) ∧
    (classify tag = .quote → src p w pos (.elem tag attrs kids) = tnFlat (.elem tag attrs kids)) ∧
    (∀ isP, classify tag = .pdiv isP → isBlockContainer kids = false →
      squeeze (tnFlat (.elem tag attrs kids)) ≠ [] →
      src p w pos (.elem tag attrs kids) = tnFlat (.elem tag attrs kids)) ∧
    (classify tag = .li → src p w pos (.elem tag attrs kids) =
      kids.flatMap directSrc ++ srcLi p w (pos.kid w tag) kids) ∧
    (classify tag = .table → src p w pos (.elem tag attrs kids) = (tableCellNodes kids).flatMap tnFlat) := by
  have hflat : tnFlat (.elem tag attrs kids) = tnFlatL kids := tnFlat_elem tag attrs kids hs
  refine ⟨?_, ?_, ?_, ?_, ?_, ?_⟩
  · intro l hc; unfold src; simp only [hs, hp, hc, Bool.false_eq_true, if_false]; exact hflat.symm
  · intro hc; unfold src; simp only [hs, hp, hc, Bool.false_eq_true, if_false]; exact hflat.symm
  · intro hc; unfold src; simp only [hs, hp, hc, Bool.false_eq_true, if_false]; exact hflat.symm
  · intro isP hc hb ht
    rw [hflat] at ht ⊢
    unfold src; simp only [hs, hp, hc, Bool.false_eq_true, if_false]
    simp [ht, hb]
  · intro hc; unfold src; simp only [hs, hp, hc, Bool.false_eq_true, if_false]
  · intro hc; unfold src; simp only [hs, hp, hc, Bool.false_eq_true, if_false]

example : isSkip T.p = false ∧ classify T.p = .pdiv true ∧ isBlockContainer [.text [120]] = false ∧
    squeeze (tnFlat (.elem T.p [] [.text [120]])) ≠ [] := by decide

/-- … and a p/div WITH a block-level child (fix 75d57dc; before it, this was the one exception:
the source text was that of the children only and text nodes that are direct children were lost):
its source text is that of its children in order, where an INLINE child — a text node, an inline
element, anything that neither is nor contains an element the traversal handles itself —
contributes ALL its text nodes (`tnFlat k`), in place, and every other child its own source
text. -/
theorem mixed_block_text_kept (p : Pos → Dom → Bool) (w : Bool) (pos : Pos)
    (tag : Str) (attrs : List (Str × Str)) (kids : List Dom) (isP : Bool)
    (hs : isSkip tag = false) (hp : p pos (.elem tag attrs kids) = false)
    (hc : classify tag = .pdiv isP) (hb : isBlockContainer kids = true) :
    src p w pos (.elem tag attrs kids) = srcM p w (pos.kid w tag) kids ∧
    (∀ (a b : List Dom) (k : Dom), srcM p w (pos.kid w tag) (a ++ k :: b) =
      srcM p w (pos.kid w tag) a ++ (if isInline k then tnFlat k else src p w (pos.kid w tag) k) ++
        srcM p w (pos.kid w tag) b) ∧
    (∀ s, isInline (.text s) = true ∧ tnFlat (.text s) = s) := by
  refine ⟨?_, ?_, ?_⟩
  · unfold src; simp only [hs, hp, hc, Bool.false_eq_true, if_false]; simp [hb]
  · intro a b k
    rw [srcM_append]; simp only [srcM, List.append_assoc]
  · intro s; exact ⟨rfl, rfl⟩

example : isSkip T.div = false ∧ classify T.div = .pdiv false ∧
    isBlockContainer [.text [120], .elem T.p [] [.text [121]]] = true := by decide

/-! ## the content half of the property, as stated, wherever the code satisfies it

`want` (Model/HtmlSpec.lean) is written from the property text alone: every heading, paragraph,
list item, table cell, pre/code and block quote that is neither skipped nor excluded returns all
of its text — a paragraph also when it has block-level children: the content elements inside it
are read by their own rules, everything else in the paragraph is its own text and is wanted
whole, also where it sits in an element that merely wraps some of those content elements.
Before fix 75d57dc "returned text = wanted text" failed for every paragraph with a block-level
child and text of its own (`content_complete_pinned_counterexample`).  Since the fix it holds for
every document in which no wrapper inside such a paragraph has text of its own (`noWrapped`); it
still fails when the paragraph holds a wrapper (span, a, form, section, …) around a block-level
element and that wrapper has text (`content_complete_counterexample`). -/

/-- CONTENT, FULL STATEMENT under the one hypothesis the code needs: if inside the paragraphs that
have a block-level child no element that merely wraps content elements (anything but a `div` or a
content element itself) has text in its inline children (`noWrapped`), then for every exclusion
predicate the text carried by the returned elements is, up to white space,
exactly the wanted text — every text node of every content element, once, in content-element
order, nothing from script/style, nothing from excluded subtrees. -/
theorem content_complete_unless_wrapped_paragraph (p : Pos → Dom → Bool) (body : Dom)
    (h : noWrapped body = true) :
    squeeze (elementsText (extractWith p body)) = squeeze (want p (hasWrapper body) .root false body) := by
  rw [content_text_complete]
  exact src_want p (hasWrapper body) body .root false h

example : noWrapped (.elem T.body [] [.elem T.p [] [.text [120]], .elem T.ul [] [.elem T.li [] [.text [121]]]]) = true := by
  decide

/-- … for the element list of a reader, any raw mode value, from the document node (as above: a
statement about the walk, for every tree; a reader exists within the depth limit only) -/
theorem content_complete_unless_wrapped_paragraph_api (m : Int) (doc : Dom) (h : noWrapped (bodyOf doc) = true) :
    squeeze (elementsText (extractI m doc)) = squeeze (wantOf m doc) := by
  unfold extractI wantOf
  exact content_complete_unless_wrapped_paragraph _ _ h

/-- the documents of the repaired finding are covered now (they were excluded by the hypothesis
`noMixed` of the statement before the fix) -/
theorem content_complete_repaired_witness :
    noMixed Tabula.C19.witnessPTable = false ∧ noWrapped Tabula.C19.witnessPTable = true ∧
    squeeze (elementsText (extract .none Tabula.C19.witnessPTable)) =
      squeeze (want (excluded .none) false .root false Tabula.C19.witnessPTable) := by
  decide +kernel

/-- BEFORE fix 75d57dc (old traversal): at `<p>x<table><tr><td>c</td></tr></table></p>` the wanted
text is "xc", the returned text was "c" (finding C19/content-missing-para-with-block-child) -/
theorem content_complete_pinned_counterexample :
    noMixed Tabula.C19.witnessPTable = false ∧
    squeeze (want (excluded .none) false .root false Tabula.C19.witnessPTable) = [120, 99] ∧
    squeeze (elementsText (extractOld .none Tabula.C19.witnessPTable)) = [99] ∧
    squeeze (elementsText (extract .none Tabula.C19.witnessPTable)) = [120, 99] := by
  decide +kernel

/-- the hypothesis that is left cannot be dropped: at
`<p>x<table>…c…</table><span>y<table>…d…</table></span></p>` the wanted text is "xcyd", the
returned text is "xcd" (finding C19/content-missing-para-in-wrapper) -/
theorem content_complete_counterexample :
    noWrapped Tabula.C19.witnessPWrapper = false ∧
    squeeze (want (excluded .none) false .root false Tabula.C19.witnessPWrapper) = [120, 99, 121, 100] ∧
    squeeze (elementsText (extract .none Tabula.C19.witnessPWrapper)) = [120, 99, 100] := by
  decide +kernel

/-- … nor for a sectioning element inside the paragraph:
`<p>x<table><section>y<div>z</div></section>…c…</table></p>` wants "xyzc" and returns "xzc" -/
theorem content_complete_counterexample_section :
    noWrapped Tabula.C19.witnessPSection = false ∧
    squeeze (want (excluded .none) false .root false Tabula.C19.witnessPSection) = [120, 121, 122, 99] ∧
    squeeze (elementsText (extract .none Tabula.C19.witnessPSection)) = [120, 122, 99] := by
  decide +kernel

end Tabula.C19Text
