import TabulaModel.Lemmas.Xref
import TabulaModel.Props.C04
/-!
# C04, further all-input laws of the merged table, the lookup and the caches

All statements are about the executable model of Model/Xref.lean (`mergeTables`, `specGet`,
`stepGet`, `run`), for every list of revisions, every file and every cache:

* the merged entry of `n` is EXACTLY the entry of the last revision that mentions `n`
  (an iff with an explicit split of the history), merging may be done in batches, revisions
  that do not mention `n` and repeated revisions do not matter;
* frame laws of an incremental update: an object the update does not mention (and whose
  object stream it does not mention) keeps its answer; a deleted object stays an error and a
  replaced object keeps the new value through every later revision that is silent about it;
* the lookup reads the table only as a map (two assignment sequences with the same last
  assignments answer alike);
* cache laws without any soundness hypothesis: a failed lookup leaves the object cache as it
  was, a successful one adds at most the one pair asked for, nothing cached is ever
  overwritten, a repeated lookup is a pure cache hit;
* the (number, answer) pairs of a history are the same up to order for every rearrangement of
  the lookups, with cache clears anywhere.
-/
namespace Tabula.C04X
open Tabula.Xref

/-! ### the merged table -/

theorem merge_cons (t : Section) (ts : List Section) (n : Nat) :
    getLast (mergeTables (t :: ts)) n = (getLast (mergeTables ts) n).or (getLast t n) := by
  simp [mergeTables, getLast_append]

/-- **merge_batches**: merging all revisions at once is merging the older batch and the newer
batch separately and letting the newer batch decide wherever it has an entry. -/
theorem merge_batches (a b : List Section) (n : Nat) :
    getLast (mergeTables (a ++ b)) n =
      (getLast (mergeTables b) n).or (getLast (mergeTables a) n) := by
  simp [mergeTables, List.flatten_append, getLast_append]

/-- **merge_some_iff**: the merged table maps `n` to `e` exactly when the history splits into
older revisions, one revision that assigns `e` to `n`, and newer revisions that are all silent
about `n` — "the value from the newest revision defining it", as an equivalence. -/
theorem merge_some_iff (ts : List Section) (n : Nat) (e : Entry) :
    getLast (mergeTables ts) n = some e ↔
      ∃ older t newer, ts = older ++ t :: newer ∧ getLast t n = some e ∧
        ∀ u ∈ newer, getLast u n = none := by
  constructor
  · intro h
    induction ts with
    | nil => simp [mergeTables, getLast] at h
    | cons t ts ih =>
      rw [merge_cons] at h
      cases hr : getLast (mergeTables ts) n with
      | some e' =>
        rw [hr] at h
        simp at h
        subst h
        obtain ⟨older, t', newer, hts, h1, h2⟩ := ih hr
        exact ⟨t :: older, t', newer, by rw [hts]; rfl, h1, h2⟩
      | none =>
        rw [hr] at h
        simp at h
        exact ⟨[], t, ts, rfl, h, (C04.merge_none_iff ts n).mp hr⟩
  · rintro ⟨older, t, newer, rfl, h1, h2⟩
    have hn := (C04.merge_none_iff newer n).mpr h2
    have hsplit : older ++ t :: newer = older ++ ([t] ++ newer) := by simp
    rw [hsplit, merge_batches, merge_batches, hn]
    simp [mergeTables, h1]

/-- non-vacuity: object 1 added, replaced, then a revision silent about it -/
example : getLast (mergeTables [[(1, Entry.at 10)], [(1, .at 20)], [(2, .at 30)]]) 1
    = some (.at 20) := by decide

/-- **merge_ignores_silent_revisions**: dropping every revision that does not mention `n`
changes nothing for `n`. -/
theorem merge_ignores_silent_revisions (ts : List Section) (n : Nat) :
    getLast (mergeTables (ts.filter fun t => (getLast t n).isSome)) n =
      getLast (mergeTables ts) n := by
  induction ts with
  | nil => rfl
  | cons t ts ih =>
    rw [merge_cons]
    cases ht : getLast t n with
    | none => simp [ht, ih]
    | some e => simp [ht, merge_cons, ih]

/-- **merge_repeated_history_harmless**: reading the whole history twice (a `/Prev` chain
that is walked again) gives the same table. -/
theorem merge_repeated_history_harmless (ts : List Section) (n : Nat) :
    getLast (mergeTables (ts ++ ts)) n = getLast (mergeTables ts) n := by
  rw [merge_batches]
  cases getLast (mergeTables ts) n <;> rfl

/-! ### the lookup -/

/-- **lookup_reads_table_as_map**: two merged tables in which every number has the same last
assignment answer every lookup alike — the order and multiplicity of assignments (the Go map
is written entry by entry) is invisible. -/
theorem lookup_reads_table_as_map (x1 x2 : Section) (objs : Objects)
    (h : ∀ k, getLast x1 k = getLast x2 k) (n : Nat) :
    specGet ⟨x1, objs⟩ n = specGet ⟨x2, objs⟩ n := by
  have hl : ∀ s, loadObjStm ⟨x1, objs⟩ s = loadObjStm ⟨x2, objs⟩ s := by
    intro s
    simp only [loadObjStm, getUncompressed, h]
  simp only [specGet, hl, h, getUncompressed]

/-- non-vacuity: a table with an overwritten entry and its compacted form -/
example : ∀ k, getLast [(1, Entry.at 10), (1, .at 20)] k = getLast [(1, Entry.at 20)] k := by
  intro k
  by_cases hk : 1 = k <;> simp [getLast, hk]

theorem merge_snoc_silent (ts : List Section) (t : Section) (k : Nat)
    (hk : getLast t k = none) :
    getLast (mergeTables (ts ++ [t])) k = getLast (mergeTables ts) k := by
  rw [merge_batches]
  simp [mergeTables, hk]

/-- **untouched_object_unchanged** (frame law of an incremental update): a new revision that
mentions neither `n` nor — when `n` is compressed — the object stream holding it leaves the
answer for `n` exactly as it was: value, or error. -/
theorem untouched_object_unchanged (ts : List Section) (t : Section) (objs : Objects) (n : Nat)
    (hn : getLast t n = none)
    (hs : ∀ stm idx, getLast (mergeTables ts) n = some (.inStm stm idx) → getLast t stm = none) :
    specGet ⟨mergeTables (ts ++ [t]), objs⟩ n = specGet ⟨mergeTables ts, objs⟩ n := by
  simp only [specGet, merge_snoc_silent ts t n hn]
  cases hx : getLast (mergeTables ts) n with
  | none => rfl
  | some e =>
    cases e with
    | free nx => rfl
    | «at» off => simp [getUncompressed]
    | inStm stm idx =>
      simp [loadObjStm, getUncompressed, merge_snoc_silent ts t stm (hs stm idx hx)]

/-- non-vacuity: object 1 lives in object stream 5; the update adds object 2 only -/
example : getLast [(2, Entry.at 20)] 1 = none ∧
    ∀ stm idx, getLast (mergeTables [[(5, Entry.at 50), (1, .inStm 5 0)]]) 1 = some (.inStm stm idx) →
      getLast [(2, Entry.at 20)] stm = none := by
  refine ⟨by decide, ?_⟩
  intro stm idx h
  have h5 : getLast (mergeTables [[(5, Entry.at 50), (1, .inStm 5 0)]]) 1 = some (.inStm 5 0) := by
    decide
  rw [h5] at h
  simp at h
  rw [← h.1]
  decide

/-- **deleted_stays_deleted_until_redefined**: once a revision frees `n`, the lookup is an
error after that revision and after every further revision silent about `n` — whatever the
older revisions said and whatever stands in the file. -/
theorem deleted_stays_deleted_until_redefined (older newer : List Section) (t : Section)
    (objs : Objects) (n nx : Nat) (h : getLast t n = some (.free nx))
    (hsil : ∀ u ∈ newer, getLast u n = none) :
    specGet ⟨mergeTables (older ++ t :: newer), objs⟩ n = none := by
  have hm := (merge_some_iff (older ++ t :: newer) n (.free nx)).mpr
    ⟨older, t, newer, rfl, h, hsil⟩
  simp [specGet, hm]

/-- **replaced_value_until_redefined**: once a revision puts `n` at an offset where object `n`
stands, that object is the answer after every further revision silent about `n`. -/
theorem replaced_value_until_redefined (older newer : List Section) (t : Section)
    (objs : Objects) (n off : Nat) (v : Val) (h : getLast t n = some (.at off))
    (ho : getLast objs off = some (n, v)) (hsil : ∀ u ∈ newer, getLast u n = none) :
    specGet ⟨mergeTables (older ++ t :: newer), objs⟩ n = some v := by
  have hm := (merge_some_iff (older ++ t :: newer) n (.at off)).mpr
    ⟨older, t, newer, rfl, h, hsil⟩
  simp [specGet, hm, getUncompressed, ho]

/-- non-vacuity of both: add, delete / replace, then an unrelated revision -/
example : specGet ⟨mergeTables ([[(1, Entry.at 10)]] ++ [(1, .free 0)] :: [[(2, .at 30)]]),
    [(10, (1, .int 7)), (30, (2, .int 8))]⟩ 1 = none := by decide
example : specGet ⟨mergeTables ([[(1, Entry.at 10)]] ++ [(1, .at 20)] :: [[(2, .at 30)]]),
    [(10, (1, .int 7)), (20, (1, .int 9)), (30, (2, .int 8))]⟩ 1 = some (.int 9) := by decide

/-! ### the caches, with no soundness hypothesis -/

theorem getObjStm_obj (f : File) (c : Cache) (stm : Nat) : (getObjStm f c stm).2.obj = c.obj := by
  unfold getObjStm
  cases getLast c.stm stm with
  | some ms => rfl
  | none =>
    cases loadObjStm f stm with
    | none => rfl
    | some ms => rfl

theorem stepGet_hit (f : File) (c : Cache) (n : Nat) (v : Val) (h : getLast c.obj n = some v) :
    stepGet f c n = (some v, c) := by
  simp [stepGet, h]

/-- **lookup_cache_cases**: every `GetObject` call is one of three things — a pure cache hit
(nothing changes), a failure that leaves the object cache as it was, or a successful load that
appends exactly the pair (number asked, value answered). -/
theorem lookup_cache_cases (f : File) (c : Cache) (n : Nat) :
    (∃ v, getLast c.obj n = some v ∧ stepGet f c n = (some v, c)) ∨
    (getLast c.obj n = none ∧ (stepGet f c n).1 = none ∧ (stepGet f c n).2.obj = c.obj) ∨
    (∃ v, getLast c.obj n = none ∧ (stepGet f c n).1 = some v ∧
      (stepGet f c n).2.obj = c.obj ++ [(n, v)]) := by
  cases hc : getLast c.obj n with
  | some v => exact Or.inl ⟨v, rfl, stepGet_hit f c n v hc⟩
  | none =>
    refine Or.inr ?_
    unfold stepGet
    rw [hc]
    simp only
    cases hx : getLast f.xref n with
    | none => exact Or.inl ⟨trivial, rfl, rfl⟩
    | some e =>
      cases e with
      | free nx => exact Or.inl ⟨trivial, rfl, rfl⟩
      | «at» off =>
        simp only
        cases hu : getUncompressed f n off with
        | none => exact Or.inl ⟨trivial, rfl, rfl⟩
        | some v => exact Or.inr ⟨v, trivial, rfl, rfl⟩
      | inStm stm idx =>
        simp only
        have ho := getObjStm_obj f c stm
        cases hg : getObjStm f c stm with
        | mk r c' =>
          rw [hg] at ho
          simp only at ho
          cases r with
          | none => exact Or.inl ⟨trivial, rfl, ho⟩
          | some ms =>
            simp only
            cases hm : memberAt ms n idx with
            | none => exact Or.inl ⟨trivial, rfl, ho⟩
            | some v => exact Or.inr ⟨v, trivial, rfl, by simp [ho]⟩

/-- **failed_lookup_leaves_object_cache**: "caches are only filled with fully parsed objects" —
a lookup that answers an error leaves the object cache exactly as it was, from ANY cache. -/
theorem failed_lookup_leaves_object_cache (f : File) (c : Cache) (n : Nat)
    (h : (stepGet f c n).1 = none) : (stepGet f c n).2.obj = c.obj := by
  rcases lookup_cache_cases f c n with ⟨v, _, hv⟩ | ⟨_, _, ho⟩ | ⟨v, _, hv, _⟩
  · rw [hv]
  · exact ho
  · rw [hv] at h; cases h

/-- non-vacuity: a deleted object, looked up with something else cached -/
example : (stepGet ⟨[(1, .free 0)], []⟩ { obj := [(2, .int 5)] } 1).1 = none := by decide

/-- **cached_answers_never_overwritten**: whatever the object cache answers for `m` before a
lookup (of any number), it answers after it. -/
theorem cached_answers_never_overwritten (f : File) (c : Cache) (n m : Nat) (w : Val)
    (hw : getLast c.obj m = some w) : getLast (stepGet f c n).2.obj m = some w := by
  rcases lookup_cache_cases f c n with ⟨v, _, hv⟩ | ⟨_, _, ho⟩ | ⟨v, hn, _, ho⟩
  · rw [hv]; exact hw
  · rw [ho]; exact hw
  · rw [ho, getLast_append, getLast_single]
    have hne : n ≠ m := by
      intro e; subst e; rw [hn] at hw; cases hw
    simp [hne, hw]

example : getLast ({ obj := [(2, .int 5)] } : Cache).obj 2 = some (.int 5) := by decide

/-- **lookup_adds_at_most_the_pair_asked**: the object cache after a lookup is the cache
before it, followed by nothing or by the one pair (number asked, value answered). -/
theorem lookup_adds_at_most_the_pair_asked (f : File) (c : Cache) (n : Nat) :
    (stepGet f c n).2.obj = c.obj ∨
      ∃ v, (stepGet f c n).1 = some v ∧ (stepGet f c n).2.obj = c.obj ++ [(n, v)] := by
  rcases lookup_cache_cases f c n with ⟨v, _, hv⟩ | ⟨_, _, ho⟩ | ⟨v, _, hv, ho⟩
  · rw [hv]; exact Or.inl rfl
  · exact Or.inl ho
  · exact Or.inr ⟨v, hv, ho⟩

/-- **repeated_lookup_is_cache_hit**: after a successful lookup of `n`, looking `n` up again
gives the same value and changes nothing at all — from ANY cache, sound or not. -/
theorem repeated_lookup_is_cache_hit (f : File) (c : Cache) (n : Nat) (v : Val)
    (h : (stepGet f c n).1 = some v) :
    stepGet f (stepGet f c n).2 n = (some v, (stepGet f c n).2) := by
  apply stepGet_hit
  rcases lookup_cache_cases f c n with ⟨w, hw, hv⟩ | ⟨_, hno, _⟩ | ⟨w, _, hv, ho⟩
  · rw [hv] at h ⊢
    simp at h
    subst h
    exact hw
  · rw [hno] at h; cases h
  · rw [hv] at h
    simp at h
    subst h
    rw [ho, getLast_append, getLast_single]
    simp

example : (stepGet ⟨[(1, .at 10)], [(10, (1, .int 7))]⟩ {} 1).1 = some (.int 7) := by decide

/-! ### rearranging a history -/

/-- the object numbers a history asks for, in order -/
def asked : List Op → List Nat
  | [] => []
  | .get n :: ops => n :: asked ops
  | .clear :: ops => asked ops

theorem asked_zip_run (f : File) (ops : List Op) :
    (asked ops).zip (run f {} ops) = (asked ops).map fun n => (n, specGet f n) := by
  rw [C04.getObject_refines]
  induction ops with
  | nil => rfl
  | cons op ops ih =>
    cases op with
    | get n => simp [asked, specRun, ih]
    | clear => simpa [asked, specRun] using ih

/-- **answers_by_number_order_free**: take two histories — lookups in any order, repeated,
with cache clears anywhere — that ask for the same numbers the same number of times. Then
their (number, answer) pairs are the same up to that rearrangement. -/
theorem answers_by_number_order_free (f : File) (ops1 ops2 : List Op)
    (h : (asked ops1).Perm (asked ops2)) :
    ((asked ops1).zip (run f {} ops1)).Perm ((asked ops2).zip (run f {} ops2)) := by
  rw [asked_zip_run, asked_zip_run]
  exact h.map _

/-- non-vacuity: 1,2,1 against clear,1,1,clear,2 -/
example : (asked [.get 1, .get 2, .get 1]).Perm (asked [.clear, .get 1, .get 1, .clear, .get 2]) := by
  decide

/-- **same_number_same_answer_across_histories**: a number asked anywhere in one history and
anywhere in another history of the same file gets the same answer in both. -/
theorem same_number_same_answer_across_histories (f : File) (ops1 ops2 : List Op)
    (n : Nat) (a1 a2 : Option Val)
    (h1 : (n, a1) ∈ (asked ops1).zip (run f {} ops1))
    (h2 : (n, a2) ∈ (asked ops2).zip (run f {} ops2)) : a1 = a2 := by
  rw [asked_zip_run] at h1 h2
  simp only [List.mem_map, Prod.mk.injEq] at h1 h2
  obtain ⟨_, _, rfl, rfl⟩ := h1
  obtain ⟨_, _, rfl, rfl⟩ := h2
  rfl

example : (1, some (Val.int 7)) ∈
    (asked [.get 2, .get 1]).zip (run ⟨[(1, .at 10)], [(10, (1, .int 7))]⟩ {} [.get 2, .get 1]) := by
  decide

/-! ### the `/Prev` walk, for every section table (cyclic and dangling `/Prev` included) -/

theorem chainFrom_sections_from_file (secs : Sections) :
    ∀ (fuel : Nat) (visited : List Nat) (off : Nat) (s : Section),
      s ∈ chainFrom secs fuel visited off → ∃ o prev, getLast secs o = some (s, prev) := by
  intro fuel
  induction fuel with
  | zero => intro visited off s h; simp [chainFrom] at h
  | succ fuel ih =>
    intro visited off s h
    rw [chainFrom] at h
    by_cases hv : visited.contains off = true
    · rw [if_pos hv] at h; cases h
    · rw [if_neg hv] at h
      cases hg : getLast secs off with
      | none => rw [hg] at h; cases h
      | some sp =>
        obtain ⟨s0, prev⟩ := sp
        rw [hg] at h
        cases prev with
        | none =>
          simp at h; subst h; exact ⟨off, none, hg⟩
        | some p =>
          simp only [List.mem_cons] at h
          rcases h with h | h
          · subst h; exact ⟨off, some p, hg⟩
          · exact ih _ _ _ h

/-- **prev_walk_sections_come_from_file**: whatever the `/Prev` links look like — cyclic,
self-referencing, pointing nowhere — every table `ParseAllXRefs` hands to the merge is a
section that stands in the file; the walk invents nothing. -/
theorem prev_walk_sections_come_from_file (secs : Sections) (start : Nat) (s : Section)
    (h : s ∈ parseAllXRefs secs start) : ∃ off prev, getLast secs off = some (s, prev) := by
  unfold parseAllXRefs at h
  rw [List.mem_reverse] at h
  exact chainFrom_sections_from_file secs _ _ _ s h

example : [(1, Entry.at 5)] ∈
    parseAllXRefs [(100, ([(1, .at 10)], some 50)), (50, ([(1, .at 5)], some 100))] 100 := by
  decide

theorem chainFrom_fuel_step (secs : Sections) :
    ∀ (fuel : Nat) (visited : List Nat) (off : Nat), visited.Nodup →
      visited ⊆ secs.map Prod.fst → secs.length + 1 ≤ fuel + visited.length →
      chainFrom secs (fuel + 1) visited off = chainFrom secs fuel visited off := by
  intro fuel
  induction fuel with
  | zero =>
    intro visited off hnd hsub hlen
    have := List.Nodup.length_le_of_subset hnd hsub
    simp at this; omega
  | succ fuel ih =>
    intro visited off hnd hsub hlen
    rw [chainFrom, chainFrom]
    by_cases hv : visited.contains off = true
    · rw [if_pos hv, if_pos hv]
    · rw [if_neg hv, if_neg hv]
      cases hg : getLast secs off with
      | none => rfl
      | some sp =>
        obtain ⟨s0, prev⟩ := sp
        cases prev with
        | none => rfl
        | some p =>
          simp only
          have hoff : off ∉ visited := by simpa using hv
          have hrec := ih (off :: visited) p (List.nodup_cons.mpr ⟨hoff, hnd⟩)
            (by
              intro x hx
              simp only [List.mem_cons] at hx
              rcases hx with rfl | hx
              · exact getLast_mem_keys _ _ _ hg
              · exact hsub hx)
            (by simp only [List.length_cons]; omega)
          rw [hrec]

/-- **prev_walk_bound_never_cuts**: the bound of the model's `/Prev` walk (number of sections
+ 1) is never what ends it: with ANY larger bound the walk returns the same tables, on every
section table — the walk ends by itself because no offset is visited twice. -/
theorem prev_walk_bound_never_cuts (secs : Sections) (start k : Nat) :
    chainFrom secs (secs.length + 1 + k) [] start = chainFrom secs (secs.length + 1) [] start := by
  induction k with
  | zero => rfl
  | succ k ih =>
    rw [← ih]
    exact chainFrom_fuel_step secs (secs.length + 1 + k) [] start List.nodup_nil
      (by simp) (by simp only [List.length_nil]; omega)

end Tabula.C04X
