import TabulaModel.Lemmas.HtmlRepair
import TabulaModel.Props.C19Text
/-!
# C19 — fix 75d57dc against the traversal before it

The finding C19/content-missing-para-with-block-child (a p/div that has a block-level child
never returned its own direct text) was repaired by fix 75d57dc: while such a container is
traversed, the runs of inline children between its other children are emitted as paragraphs.
`Model/HtmlOld.lean` keeps the traversal as it was (`travOld`, `extractOldWith`); this file
relates the two, for every tree, every exclusion predicate and every list context:

* nothing is returned twice (an inline child is silent when traversed);
* the fix only ADDS paragraphs: what was returned before is still returned, unchanged and in
  the same order;
* on documents without a block container that has inline text the element lists are equal;
* the run paragraphs do not depend on the mode (inline children are not asked for exclusion,
  like the inline content of any paragraph), which is why the mode chain still holds atom by atom.
-/
namespace Tabula.C19Repair
open Tabula.Html

/-- NOTHING TWICE: a child that goes into a run (`isInline`: it neither is nor contains a
block-level element, `li` or `code`) would contribute nothing if it were traversed — no atom in
the specification, no change of the state of the traversal, under any predicate, before and
after the fix.  So the text of a run is in the run's paragraph and nowhere else, and (see
`travM`) a child that is traversed is in no run. -/
theorem inline_child_silent (p : Pos → Dom → Bool) (w : Bool) (pos : Pos) (lc : LC) (s : St) (k : Dom)
    (h : isInline k = true) :
    atoms p w pos lc k = [] ∧ trav p w pos k s = s ∧ atomsOld p w pos lc k = [] ∧ travOld p w pos k s = s :=
  ⟨atoms_inline p w k pos lc h, trav_inline p w k pos s h, atomsOld_inline p w k pos lc h,
   travOld_inline p w k pos s h⟩

example : isInline (.elem [98] [] [.text [120], .elem T.br [] []]) = true := by decide

/-- what makes a child NOT inline: it is a block-level element, an `li`, a `code`, or it holds one
(a skipped element — script, style, … — is inline whatever it holds: it has no text) -/
theorem not_inline_iff (tag : Str) (attrs : List (Str × Str)) (kids : List Dom) (hs : isSkip tag = false) :
    isInline (.elem tag attrs kids) = false ↔
      (isBlockTag tag = true ∨ tag = T.li ∨ tag = T.code ∨ isInlineL kids = false) := by
  simp only [isInline, hs, Bool.false_eq_true, if_false]
  by_cases hb : (isBlockTag tag || tag == T.li || tag == T.code) = true
  · simp only [hb, if_true, true_iff]
    simp only [Bool.or_eq_true, beq_iff_eq] at hb
    rcases hb with (hb | hb) | hb
    · exact Or.inl hb
    · exact Or.inr (Or.inl hb)
    · exact Or.inr (Or.inr (Or.inl hb))
  · simp only [hb, Bool.false_eq_true, if_false]
    simp only [Bool.or_eq_true, beq_iff_eq, not_or] at hb
    constructor
    · intro h; exact Or.inr (Or.inr (Or.inr h))
    · rintro (h | h | h | h)
      · exact absurd h (by simpa using hb.1.1)
      · exact absurd h hb.1.2
      · exact absurd h hb.2
      · exact h

/-- THE FIX ONLY ADDS: for every document and every exclusion predicate, the atoms the reader
returned before the fix are a sublist of the atoms it returns now — every heading, paragraph,
item, cell, code and quote atom that was returned is still returned with the same text, in the
same order; the only new atoms are the paragraphs of the inline runs. -/
theorem repair_only_adds (p : Pos → Dom → Bool) (body : Dom) :
    (flatten (extractOldWith p body)).Sublist (flatten (extractWith p body)) := by
  rw [extractOld_flatten, Tabula.C19.traverse_refines_atoms]
  exact atomsOld_sublist p (hasWrapper body) body .root ⟨false, 0⟩

/-- … for the four modes -/
theorem repair_only_adds_modes (m : Mode) (body : Dom) :
    (flatten (extractOld m body)).Sublist (flatten (extract m body)) :=
  repair_only_adds (excluded m) body

/-- NOTHING ELSE CHANGES: on a document in which no p/div that has a block-level child has an
inline child with text (`quiet`), the repaired reader returns exactly the element list the old
one returned — same elements, same grouping of list items, under every predicate. -/
theorem repair_unchanged_without_mixed (p : Pos → Dom → Bool) (body : Dom) (h : quiet body = true) :
    extractWith p body = extractOldWith p body := by
  unfold extractWith extractOldWith
  rw [trav_quiet p (hasWrapper body) body .root {} h]

example : quiet (.elem T.body [] [.elem T.div [] [.text [32], .elem T.p [] [.text [120]], .elem T.ul [] [.elem T.li [] [.text [121]]]]]) = true := by
  decide

/-- the witness of the finding is not such a document, and there the lists differ by the one
paragraph -/
theorem repair_changes_the_witness :
    quiet Tabula.C19.witnessPTable = false ∧
    extractOld .none Tabula.C19.witnessPTable = [.table false [[⟨[99], false, 1, 1⟩]]] ∧
    extract .none Tabula.C19.witnessPTable = [.para [120], .table false [[⟨[99], false, 1, 1⟩]]] := by
  decide +kernel

/-- THE RUNS DO NOT DEPEND ON THE MODE: which children form a run, and the text of the run, are
functions of the tree alone (`isInline`, `textRec` take no predicate); a predicate only decides
about the children that are traversed.  Hence between two predicates that agree on the traversed
children the whole child loop of a block container returns the same atoms, and under a stricter
predicate a sublist — run paragraphs are kept whole or (with their container) dropped whole. -/
theorem runs_mode_independent (p q : Pos → Dom → Bool) (w : Bool) (kp : Pos) (lc : LC) (kids : List Dom) (run : Str) :
    (agreeL p q w kp kids → atomsM q w kp lc kids run = atomsM p w kp lc kids run) ∧
    ((∀ pos n, p pos n = true → q pos n = true) → (atomsM q w kp lc kids run).Sublist (atomsM p w kp lc kids run)) :=
  ⟨atomsM_agree p q w kids kp lc run, fun h => atomsM_mono p q h w kids kp lc run⟩

/-- `<div>a <span class="menu">b</span> c<p class="sidebar">x</p>d</div>`: the run "a b c" is one
paragraph in every mode — the span inside it is inline content of that paragraph and is not asked
for exclusion — while the p is dropped by Standard and Aggressive -/
def witnessRunModes : Dom :=
  .elem T.body []
    [.elem T.div []
      [.text [97, 32], .elem Tabula.C19.tagSpan [(A.class, [109, 101, 110, 117])] [.text [98]], .text [32, 99],
       .elem T.p [(A.class, [115, 105, 100, 101, 98, 97, 114])] [.text [120]], .text [100]]]

theorem runs_mode_independent_witness :
    flatten (extract .none witnessRunModes) = [.para [97, 32, 98, 32, 99], .para [120], .para [100]] ∧
    flatten (extract .explicit witnessRunModes) = [.para [97, 32, 98, 32, 99], .para [120], .para [100]] ∧
    flatten (extract .standard witnessRunModes) = [.para [97, 32, 98, 32, 99], .para [100]] ∧
    flatten (extract .aggressive witnessRunModes) = [.para [97, 32, 98, 32, 99], .para [100]] := by
  decide +kernel

end Tabula.C19Repair
