import TabulaModel.Lemmas.PdfTokGrammar
import TabulaModel.Lemmas.PdfStream
/-!
# C06 — the token readers at full strength: every input

`Props/C06.lean` proves that every LEGAL spelling of a hex string, a name, a literal string and a comment reads
back.  Here the readers of both parsers are characterised for EVERY input — which inputs they accept, what they
return, where they stop — so that the differences between the two parsers are stated exactly, as differences in
what is ACCEPTED, never in the value of something both accept:

* hex strings: `readHexString` accepts exactly `body >` with a body of white space and hex digits — any number
  of digits, odd included; the value is ⌈n/2⌉ bytes, a missing last digit is 0.  `contentstream.parseHexString`
  accepts the same inputs with the same value, and in addition a body that runs to the end of the data;
* names: both readers consume exactly the run of regular characters; without `#` the name is the run itself;
  `readName` fails when a `#` is not followed by two hex digits, `parseName` then keeps the `#` — never two
  different names for one input both accept;
* comments: the text is everything up to the first CR or LF, and exactly one end-of-line marker (CR LF, CR or
  LF) is consumed; the content-stream parser stops in front of the marker (and treats it as white space);
* literal strings: the reader stops right behind a `)` of the input (and both parsers use the same function:
  `parsers_agree_literal_strings`);
* the keyword `stream` stops the parser's lookahead: nothing behind it is tokenized (the C06 half of the
  interplay with `parseStream` / `/Length`, whose other half is `Props/C04Bytes.lean`).

Helper lemmas: `Lemmas/PdfTokGrammar.lean`, `Lemmas/PdfStream.lean`.
-/
namespace Tabula.C06Lexer
open Tabula.Pdf

/-! ## hex strings (odd digit counts included) -/

/-- the body of a hex string: white space and hex digits only -/
abbrev HexBody (body : Str) : Prop := Gram.HexBody body
/-- the digits of a body, white space dropped -/
abbrev hexDigitsOf (body : Str) : Str := Gram.hexDigitsOf body

/-- **`readHexString`, every input**: it succeeds exactly on `body >`, returns the digits of the body in order,
and leaves what follows the `>`. -/
theorem hex_reader_iff (inp ds r : Str) :
    hexLoop inp = some (ds, r) ↔ ∃ body, inp = body ++ 62 :: r ∧ HexBody body ∧ ds = hexDigitsOf body :=
  Gram.hexLoop_iff inp ds r

example : HexBody [52, 32, 49, 10, 70] := by
  intro c hc
  simp only [List.mem_cons, List.not_mem_nil, or_false] at hc
  rcases hc with h | h | h | h | h <;> subst h <;> decide

/-- **The value of a hex string**: ⌈n/2⌉ bytes; byte `i` is 16·digit(2i) + digit(2i+1), a missing last digit
counts as 0 (ISO 32000-1 7.3.4.3). -/
theorem hex_value (ds : Str) :
    (hexPairs ds).length = (ds.length + 1) / 2 ∧
    ∀ i, i < (hexPairs ds).length →
      (hexPairs ds)[i]? = some (hexValue (ds.getD (2 * i) 48) * 16 + hexValue (ds.getD (2 * i + 1) 48)) :=
  ⟨Gram.hexPairs_length ds, fun i h => Gram.hexPairs_get ds i h⟩

/-- an odd digit count: the last byte is the lone digit times 16 -/
theorem hex_odd_digit (ds : Str) (d : Nat) (h : ds.length % 2 = 0) :
    hexPairs (ds ++ [d]) = hexPairs ds ++ [hexValue d * 16] :=
  Gram.hexPairs_odd ds d h

example : ([52, 49, 52, 50] : Str).length % 2 = 0 := by decide

/-- **`contentstream.parseHexString`, every input**: it succeeds exactly on `body >` — with the value the
document-level parser computes from the same body — or on a body that runs to the end of the data without `>`
(which the document-level lexer rejects: `hex_unterminated_rejected`). -/
theorem cs_hex_reader_iff (inp v r : Str) :
    CS.hexLoop inp = some (v, r) ↔
      (∃ body, inp = body ++ 62 :: r ∧ HexBody body ∧ v = hexPairs (hexDigitsOf body)) ∨
      (r = [] ∧ HexBody inp ∧ v = hexPairs (hexDigitsOf inp)) :=
  Gram.cs_hexLoop_iff inp v r

theorem hex_unterminated_rejected (inp : Str) (h : HexBody inp) : hexLoop inp = none :=
  Gram.hexLoop_unterminated inp h

/-! ## names (`#xx`) -/

/-- regular characters: neither white space nor delimiter -/
abbrev isRegular (c : Nat) : Bool := Gram.isRegular c

/-- **Both name readers consume exactly the run of regular characters** — `readName` whenever it succeeds,
`parseName` always. -/
theorem name_readers_consume (inp : Str) :
    (∀ v r, nameLoop inp = some (v, r) → r = inp.dropWhile isRegular ∧ inp = inp.takeWhile isRegular ++ r) ∧
    (CS.nameLoop inp).2 = inp.dropWhile isRegular :=
  ⟨fun v r h => Gram.nameLoop_consumes inp v r h, Gram.cs_nameLoop_consumes inp⟩

/-- a run without `#` is the name itself, for both parsers -/
theorem name_without_escape (inp : Str) (h : 35 ∉ inp.takeWhile isRegular) :
    nameLoop inp = some (inp.takeWhile isRegular, inp.dropWhile isRegular) ∧
    CS.nameLoop inp = (inp.takeWhile isRegular, inp.dropWhile isRegular) :=
  Gram.name_plain inp h

example : 35 ∉ ([84, 121, 112, 101, 32, 47] : Str).takeWhile isRegular := by decide

/-- **Never two names for one input**: whenever `readName` succeeds (every `#` is followed by two hex digits),
`parseName` returns the same bytes and stops at the same place. -/
theorem name_never_two_values (inp v r : Str) (h : nameLoop inp = some (v, r)) : CS.nameLoop inp = (v, r) :=
  Gram.name_never_two_values inp v r h

example : ∃ p, nameLoop [65, 35, 50, 48, 66, 47] = some p := Option.isSome_iff_exists.1 (by decide +kernel)

/-! ## comments -/

/-- **`readComment`, every input**: the text is everything up to the first CR or LF (or the end of the input),
and exactly one end-of-line marker — CR LF, CR or LF — is consumed behind it. -/
theorem comment_reader (r : Str) :
    (commentBody r).1 = r.takeWhile (fun c => c != 10 && c != 13) ∧
    (match r.dropWhile (fun c => c != 10 && c != 13) with
      | [] => (commentBody r).2 = []
      | 13 :: 10 :: rest => (commentBody r).2 = rest
      | _ :: rest => (commentBody r).2 = rest) :=
  Gram.commentBody_spec r

/-- the content-stream parser stops in front of the marker (which is white space to it) -/
theorem cs_comment_reader (r : Str) : CS.skipLine r = r.dropWhile (fun c => c != 10 && c != 13) :=
  Gram.skipLine_spec r

/-! ## literal strings -/

/-- **`readString`, every input**: when it succeeds, the unread rest starts right behind a `)` of the input. -/
theorem string_reader_ends_behind_paren (inp : Str) (d : Nat) (v r : Str) (h : strLoop d inp = some (v, r)) :
    ∃ body, inp = body ++ 41 :: r :=
  Gram.strLoop_ends_behind_paren inp d v r h

example : ∃ p, strLoop 1 [40, 92, 41, 41, 65, 41, 66] = some p := Option.isSome_iff_exists.1 (by decide +kernel)

/-! ## the keyword `stream` -/

/-- The window on bytes that start with the keyword `stream`: the keyword is current, the lookahead slot is
EMPTY, and the lexer stands exactly behind the keyword — nothing of the stream data has been tokenized. -/
theorem stream_stops_lookahead (y r : Str) (h : Prog.tok y = some (.keyword kwStream, r)) :
    stateAt y = { cur := some (.keyword kwStream), peek := none, inp := r, err := false } :=
  Strm.stateAt_stream y r h

example : Prog.tok [115, 116, 114, 101, 97, 109, 10, 255, 40] = some (.keyword kwStream, [10, 255, 40]) := by
  decide +kernel

/-- **`ParseObject` never consumes `stream`, and stops in front of it with the data untouched**: if after a
successful call the current token is `stream`, the state is exactly the one above for a rest `r` of the input —
the bytes `parseStream` then reads with `SkipStreamEOL` and `ReadBytes(/Length)`. -/
theorem parse_stops_at_stream (f d : Nat) (x : Str) (o : Obj) (s' : PState)
    (h : parseObject f d (stateAt x) = .ok (o, s')) (hc : s'.cur = some (.keyword kwStream)) :
    ∃ y r, Errs.Reach x y ∧ Prog.tok y = some (.keyword kwStream, r) ∧
      s' = { cur := some (.keyword kwStream), peek := none, inp := r, err := false } ∧ r <:+ x :=
  Strm.stops_at_stream f d x o s' h hc

example : ((parseObject 9 0 (stateAt [60, 60, 62, 62, 115, 116, 114, 101, 97, 109, 10, 255])).toOption.map
    (fun p => p.2.cur)) = some (some (.keyword kwStream)) := by decide +kernel

/-- With `stream` current every parse function fails: the keyword is only ever consumed by `parseStream`. -/
theorem stream_is_no_object (f d : Nat) (s : PState) (h : s.cur = some (.keyword kwStream)) :
    parseObject (f + 1) d s = .error .err ∧
    (∀ acc, parseArray (f + 1) d s acc = .error .err) ∧ (∀ acc, parseDict (f + 1) d s acc = .error .err) :=
  Strm.stream_is_no_object f d s h

end Tabula.C06Lexer
