import TabulaModel.Model.Filters
import TabulaModel.Gen.FilterTable
/-!
# C05 — regenerated tie: filter names and abbreviations

`Gen/FilterTable.lean` is rewritten from the filter-name switch of package core on
every check run.
-/
namespace Tabula.C05
open Tabula.Filters Tabula.Gen.Tables

/-- the names the source routes to each of the three modelled decoders are exactly the full
name and the abbreviation the model dispatches on -/
theorem filter_names_regenerated :
    (filterNameCasesB.filter (·.2 = "filters.FlateDecode")).map (·.1) = [[nFlateDecode, nFl]] ∧
    (filterNameCasesB.filter (·.2 = "filters.ASCIIHexDecode")).map (·.1) = [[nASCIIHexDecode, nAHx]] ∧
    (filterNameCasesB.filter (·.2 = "filters.ASCII85Decode")).map (·.1) = [[nASCII85Decode, nA85]] := by
  decide

end Tabula.C05
