import TabulaModel.Lemmas.Chunk
import TabulaModel.Lemmas.ChunkLayout
/-!
# C12 — RAG chunks cover the document once, in order, with true metadata

Theorems about the models of `Model/Chunk.lean` (element-based chunker,
`rag.ChunkDocument`) and `Model/ChunkLayout.lean` (layout-based chunker,
`rag.NewChunker().Chunk`). Helper lemmas: `Lemmas/Chunk.lean`, `Lemmas/ChunkLayout.lean`.

`sp` is the text splitter at its call boundary (`IsAboveMax` + `SplitToSize`, property C13);
the only thing assumed about it is `SplitOK sp`: the pieces concatenate to the input, white
space aside.
-/
namespace Tabula.C12
open Tabula.Chunk

/-- **Cover.** Concatenating the chunk texts in index order gives, white space aside, exactly
the concatenation of what every element of the document renders to (heading text, paragraph
text, formatted list, markdown table, `[Image: alt]`; an image without alt text renders to
nothing), in document order: nothing dropped, nothing repeated, nothing reordered. -/
theorem doc_chunks_cover (sp : Splitter) (hsp : SplitOK sp) (d : Doc) :
    strip (textsOf (chunkDocument sp d)) = strip ((d.flatMap (·.elems)).flatMap render) := by
  unfold chunkDocument chunkDocumentWith pageGroups
  rw [setTotal_texts, textsOf_flatten]
  have h := (chunkPages_ok stackTracker sp hsp (tableOfContents d) (initSt stackTracker) rfl d).1
  generalize initSt stackTracker = st at h
  generalize tableOfContents d = toc at h
  induction d generalizing st with
  | nil => rfl
  | cons pg pgs ih =>
    simp only [chunkPages, PagesOK] at h ⊢
    simp only [List.map_cons, List.flatten_cons, List.flatMap_cons, List.flatMap_append, strip_append]
    rw [h.1.2, ih _ h.2]

/-- non-vacuity of `SplitOK`: a splitter that cuts `"ab cd"` at the blank -/
example : SplitOK (fun t => if t = [97, 98, 32, 99, 100] then some [[97, 98], [99, 100]] else none) := by
  intro t ps h
  simp only at h
  split at h
  · rename_i e; cases h; subst e; decide
  · cases h

/-- what the rendering of a list contains: every item's text once, in order, each on its own
line behind its indentation and marker -/
theorem list_render_items (items : List (Int × Str)) :
    ∃ marks : List Str, marks.length = items.length ∧
      fmtListItems false items [] (-1) =
        (marks.zip items).flatMap (fun m => m.1 ++ m.2.2 ++ [10]) := by
  generalize (-1 : Int) = last
  generalize ([] : List (Int × Nat)) = ctrs
  induction items generalizing last ctrs with
  | nil => exact ⟨[], rfl, rfl⟩
  | cons it rest ih =>
    obtain ⟨lvl, txt⟩ := it
    obtain ⟨ms, hl, he⟩ := ih lvl (if lvl ≤ last then ctrs.filter (fun e => !(decide (lvl < e.1))) else ctrs)
    refine ⟨(indent lvl ++ [45, 32]) :: ms, by simp [hl], ?_⟩
    simp only [fmtListItems, Bool.false_eq_true, if_false, List.zip_cons_cons, List.flatMap_cons]
    rw [he]

/-- **Indices, ids, total.** Chunk indices are `0..n-1` in order, ids are pairwise distinct and
every chunk reports `n` as the total. -/
theorem indices_ids_total (sp : Splitter) (hsp : SplitOK sp) (d : Doc) :
    (chunkDocument sp d).map (·.idx) = List.range (chunkDocument sp d).length ∧
    ((chunkDocument sp d).map (·.id)).Nodup ∧
    ∀ c ∈ chunkDocument sp d, c.total = (chunkDocument sp d).length := by
  obtain ⟨_, hseq, hid⟩ := chunkPages_ok stackTracker sp hsp (tableOfContents d) (initSt stackTracker) rfl d
  have hidx : (chunkDocument sp d).map (·.idx) = List.range (chunkDocument sp d).length := by
    unfold chunkDocument chunkDocumentWith pageGroups
    rw [setTotal_idx, setTotal_length, List.range_eq_range']
    exact hseq
  refine ⟨hidx, ?_, ?_⟩
  · have hids : (chunkDocument sp d).map (·.id) = ((chunkDocument sp d).map (·.idx)).map chunkId := by
      unfold chunkDocument chunkDocumentWith pageGroups
      rw [setTotal_id, setTotal_idx, List.map_map]
      apply List.map_congr_left
      intro c hc
      exact hid c hc
    rw [hids, hidx]
    rw [List.nodup_iff_pairwise_ne, List.pairwise_map]
    have := @List.nodup_range (chunkDocument sp d).length
    rw [List.nodup_iff_pairwise_ne] at this
    exact this.imp (fun hne he => hne (chunkId_injective he))
  · intro c hc
    unfold chunkDocument chunkDocumentWith at hc ⊢
    rw [setTotal_length]
    simp only [setTotal, List.mem_map] at hc
    obtain ⟨c0, _, e⟩ := hc
    rw [← e]

/-- **Page range.** The chunks fall into consecutive groups, one per page in page order
(`pageGroups`; `chunkDocument` is their concatenation with the total stamped on). Every chunk
of the group of page `p` reports `PageStart = PageEnd = p.number`, and the group covers exactly
the elements of `p` — so the reported page is the page the chunk's content came from. -/
theorem page_range_true (sp : Splitter) (hsp : SplitOK sp) (d : Doc) :
    chunkDocument sp d = setTotal (pageGroups stackTracker sp d).flatten ∧
    PagesOK d (pageGroups stackTracker sp d) :=
  ⟨rfl, (chunkPages_ok stackTracker sp hsp (tableOfContents d) (initSt stackTracker) rfl d).1⟩

/-- `PagesOK` spelled out for a two-page document -/
example (p q : Page) (g h : List Chunk) (hh : PagesOK [p, q] [g, h]) :
    (∀ c ∈ h, c.pageStart = q.number ∧ c.pageEnd = q.number) ∧
      strip (textsOf h) = strip (q.elems.flatMap render) := hh.2.1

/-- **Section path.** The chunker that keeps a stack of open headings (`pushSection`: pop
while the innermost open heading's level is >= the new level, then push) produces exactly the
chunks of the specification chunker `histTracker`, whose section path is read off the full
history of headings seen so far by `openSpec`: heading `h` is in the path iff every heading
after it is strictly deeper (`open_iff`). Holds for every sequence of levels, skipped levels
included. -/
theorem section_path_enclosing (sp : Splitter) (d : Doc) :
    chunkDocument sp d = chunkDocumentWith histTracker sp d := by
  unfold chunkDocument chunkDocumentWith pageGroups
  rw [chunkPages_sim stackTracker histTracker StackRel stack_sim sp (tableOfContents d)
    (initSt stackTracker) (initSt histTracker) ⟨rfl, rfl, rfl, rfl⟩ d]

/-- what `openSpec` means: a heading of the history is on the path iff all later headings are
strictly deeper; the path keeps the order of the document -/
theorem open_iff (hs : List H) (h : H) :
    h ∈ openSpec hs ↔ ∃ pre post, hs = pre ++ h :: post ∧ ∀ r ∈ post, h.1 < r.1 :=
  mem_openSpec hs h

theorem open_in_order (hs : List H) : (openSpec hs).Sublist hs := openSpec_sublist hs

/-- skipped levels: H1 a, H3 b, H3 c leaves [a, c]; H2 a, H1 b leaves [b]
(the pinned code produced [a, b, c] and [a, b]) -/
example :
    ((chunkDocument (fun _ => none) [⟨1, none, [.heading 1 [97], .heading 3 [98], .heading 3 [99], .para [120]]⟩]).map (·.path))
      = [[[97]], [[97], [98]], [[97], [99]], [[97], [99]]] ∧
    ((chunkDocument (fun _ => none) [⟨1, none, [.heading 2 [97], .heading 1 [98]]⟩]).map (·.path))
      = [[[97]], [[98]]] := by decide

/-- a heading text that recurs on one page at another level, both delivered as heading-like
paragraphs: Layout.Headings = [H2 a, H4 a], elements a, x, a, y. The second `a` takes the level
of its own entry (4) and nests under the first (`resolveRepeatedHeadings`; matched by text alone
the pinned code gave it level 2 and the path [a]). On the next page the same text is matched
with the entries of that page. -/
example :
    ((chunkDocument (fun _ => none)
        [⟨1, some [(2, [97]), (4, [97])], [.para [97], .para [120], .para [97], .para [121]]⟩,
         ⟨2, some [(3, [97])], [.para [97], .para [122]]⟩]).map (·.path))
      = [[[97]], [[97]], [[97], [97]], [[97], [97]], [[97], [97]], [[97], [97]]] := by decide

/-- **Paths are not reached by later content** (the value-level form of "not aliased"): for a
fixed table of contents, the chunks of the first pages — texts, indices and section paths —
are the same whatever pages follow, and within a page the chunks emitted for the first
elements are the same whatever elements follow. The Go-level hazard (chunks sharing the
backing array of the running path) has no counterpart in a value model; it is covered by the
oracle `C12/path-aliased` and by the correspondence on `SectionPath`. -/
theorem paths_not_aliased (sp : Splitter) (toc : List TOCEntry) (st : St (List H))
    (ps later : List Page) :
    (chunkPages stackTracker sp toc st (ps ++ later)).take ps.length =
      chunkPages stackTracker sp toc st ps := by
  rw [chunkPages_append]
  exact List.take_left' (chunkPages_length _ _ _ _ _)

theorem paths_not_aliased_in_page (sp : Splitter) (toc : List TOCEntry) (page : Int)
    (st : St (List H)) (es later : List Elem) :
    ∃ more, (runElems stackTracker sp toc page st (es ++ later)).2 =
      (runElems stackTracker sp toc page st es).2 ++ more := by
  rw [runElems_append]
  exact ⟨_, rfl⟩

/-! ## the layout-based chunker (`rag.NewChunker().Chunk`) -/

open Tabula.ChunkLayout

/-- **Sections lose nothing and every section is emitted** (all documents, all configurations).
`buildSections` puts every paragraph, every list and every heading that opens no section into
exactly one section, in canonical order (per page: such headings, paragraphs, lists), and
`Chunk` runs `chunkSection` once on every section of the tree — subsections included — in
document order (`chunkFlat` over the pre-order flattening). This is the part of the chunker
where the pinned code lost content (subsections never emitted; preamble closed by a minor
heading). -/
theorem layout_sections_cover (cfg : Cfg) (d : LDoc) :
    secContents (flatForest (buildSections cfg d)) = canon cfg d ∧
    ∀ idx, chunkForest cfg (buildSections cfg d) idx = chunkFlat cfg (flatForest (buildSections cfg d)) idx :=
  ⟨buildSections_contents cfg d, chunkForest_flat cfg (buildSections cfg d)⟩

/- Full statement (kept; not provable for the code as it is):
     ∀ cfg title d, (∀ e ∈ canon cfg d, SentsOK cfg e) →
       strip (textsOf (chunk cfg title d)) = strip (ceTexts (canon cfg d))
   What is missing in `layout_chunker_cover_partial` is the hypothesis `ListFits`: when a list
   longer than MaxChunkSize follows its introducing paragraph, the code emits the list's sentence
   chunks before the pending paragraph (`atomicOversize` appends to `chunks` while `currentText`
   is non-empty), so the canonical order is not kept there — `layout_reorder_counterexample`.
   The property does not demand an order between paragraphs and lists for this chunker
   (its input type has none); per-kind order and exactly-once are checked by the oracles
   `C12/layout-chunker-cover-*` / `-order-*` and the model is compared with the implementation
   on every generated case, the reordering included. -/

/-- **Cover, layout-based chunker** (`Chunker.Chunk`, fallback `chunkByParagraphs` included),
for every document and configuration in which the sentence splitter conserves the texts it is
applied to (`SentsOK`) and no list exceeds `MaxChunkSize` (`ListFits`): the chunk texts
concatenate, white space aside, to the document's paragraphs, lists and non-section headings
in canonical order (per page: such headings, paragraphs, lists) — whatever the nesting of the
headings, with sections split by paragraphs and sentences, orphan chunks merged into their
predecessor, and lists kept with their introductions. -/
theorem layout_chunker_cover_partial (cfg : Cfg) (title : Str) (d : LDoc) (h : ParamsOK cfg d) :
    strip (textsOf (chunk cfg title d)) = strip (ceTexts (canon cfg d)) :=
  chunk_cover cfg title d h

/-- the same for documents whose sections need no splitting, with no hypothesis on the
parameters -/
theorem layout_chunker_cover_fits (cfg : Cfg) (d : LDoc)
    (hfit : ∀ x ∈ flatForest (buildSections cfg d), Fits cfg x.2) :
    strip (textsOf (chunkForest cfg (buildSections cfg d) 0)) = strip (ceTexts (canon cfg d)) := by
  rw [chunkForest_flat, chunkFlat_cover cfg _ (fun x hx => sectionCover_of_fits cfg x.1 x.2 (hfit x hx)),
    buildSections_contents]

/-- `ParamsOK` is satisfiable with a paragraph that is split by sentences (max 4: "ab. cd." is
cut into "ab." and "cd.") and a list -/
example :
    let cfg : Cfg := ⟨4, 0, 3, true, [99]⟩
    let d : LDoc := [⟨1, some ⟨[⟨1, [65], []⟩], [⟨[97, 98, 46, 32, 99, 100, 46], false, [[97, 98, 46], [99, 100, 46]]⟩],
                                  [⟨[(0, [121])], []⟩]⟩⟩]
    ParamsOK cfg d ∧ (chunk cfg [] d).map (·.text) = [[97, 98, 46], [99, 100, 46], [45, 32, 121]] := by
  refine ⟨?_, by decide +kernel⟩
  intro e he
  simp only [canon, pageCanon, List.flatMap_cons, List.flatMap_nil, List.append_nil] at he
  have : e = paraCE 1 ⟨[97, 98, 46, 32, 99, 100, 46], false, [[97, 98, 46], [99, 100, 46]]⟩ ∨
      e = listCE 1 ⟨[(0, [121])], []⟩ := by
    simpa [isMinor, headingCE] using he
  rcases this with rfl | rfl
  · exact ⟨fun _ => by decide, fun hk => by cases hk⟩
  · exact ⟨fun hg => by revert hg; decide, fun _ => by decide⟩

/-- **The reordering that `ListFits` excludes** (max 8): paragraph "a:" introduces a list whose
text is longer than the maximum; the list's sentence chunk comes out before the paragraph. -/
theorem layout_reorder_counterexample :
    let cfg : Cfg := ⟨8, 0, 3, true, [99]⟩
    let l : Str := [45, 32, 98, 99, 100, 101, 102, 103, 104]
    let d : LDoc := [⟨1, some ⟨[], [⟨[97, 58], true, []⟩], [⟨[(0, [98, 99, 100, 101, 102, 103, 104])], [l]⟩]⟩⟩]
    (chunk cfg [] d).map (·.text) = [l, [97, 58]] := by decide +kernel

/-- the hypothesis is satisfiable by a document with nested sections: H1, para, H2, para, list -/
example :
    let cfg : Cfg := ⟨2000, 100, 3, true, [99]⟩
    let d : LDoc := [⟨1, some ⟨[⟨1, [65], []⟩, ⟨2, [66], []⟩], [⟨[120], false, []⟩], [⟨[(0, [121])], []⟩]⟩⟩]
    (∀ x ∈ flatForest (buildSections cfg d), Fits cfg x.2) ∧
      (chunk cfg [] d).map (·.text) = [[120, 10, 10, 45, 32, 121]] ∧
      (chunk cfg [] d).map (·.path) = [[[65], [66]]] := by decide +kernel

/-- **Counterexample to full cover for the layout-based chunker** (known finding
`C12/layout-chunker-cover-missing-heading`): a heading that opens a section is never part of a
chunk text — for `H1 "A"`, paragraph `"x"` the only chunk text is `"x"`; `"A"` survives only as
the section path. -/
theorem layout_heading_counterexample :
    let cfg : Cfg := ⟨2000, 100, 3, true, [99]⟩
    let d : LDoc := [⟨1, some ⟨[⟨1, [65], []⟩], [⟨[120], false, []⟩], []⟩⟩]
    (chunk cfg [] d).map (·.text) = [[120]] ∧ (chunk cfg [] d).map (·.path) = [[[65]]] := by decide +kernel

/-- subsections are emitted (the pinned code lost `y`): H1 A, para x on page 1; H2 B, para y on page 2 -/
example :
    let cfg : Cfg := ⟨2000, 100, 3, true, [99]⟩
    let d : LDoc := [⟨1, some ⟨[⟨1, [65], []⟩], [⟨[120], false, []⟩], []⟩⟩,
                     ⟨2, some ⟨[⟨2, [66], []⟩], [⟨[121], false, []⟩], []⟩⟩]
    (chunk cfg [] d).map (fun c => (c.idx, c.text, c.path, c.pageStart, c.pageEnd, c.total)) =
      [(0, [120], [[65]], 1, 1, 2), (1, [121], [[65], [66]], 2, 2, 2)] := by decide +kernel

end Tabula.C12
