import TabulaModel.Lemmas.XDoc
/-!
# C08 — the public entry points around the imaging model

`Model/XDoc.lean` models `text.Extractor` from the outside in: `Extract` (budget reset, loop
that stops at the first error, `deduplicateFragments`), `processOperation` with its operand
checks, `invokeXObject` with the resource lookup, `mergeResources`, the nesting limit and the
budget of Form XObject execution, over documents whose forms are *objects reached through
names* (shared, cyclic).  The theorems here are about that model, for every document, every
program, every extractor state; `Props/C08.lean` holds the theorems about the operator
semantics itself, and `Props/C08Forms.lean` chains the two.
-/
namespace Tabula.C08Doc
open Tabula Tabula.GState Tabula.XDoc

variable {α : Type} [Lean.Grind.CommRing α] [DecidableEq α] [LT α] [DecidableLT α]

/-! ## Form XObject execution is bounded for every form graph -/

/-- `/F Do` -/
def doF : RawOp Int := ⟨.Do, [.name [70]]⟩

/-- a document whose object 1 is a form without /Matrix and /Resources, of the given
length and content (bound to `/F` by the examples' page resources, so a `doF` inside it
draws the form itself) -/
def selfDoc (len : Nat) (body : List (RawOp Int)) : Doc Int := fun n =>
  if n = 1 then some (.form { matrix := none, resources := Slot.missing, len := len, body := some body }) else none

/-- the number of forms one `Extract` may execute: `maxXObjectBytes / (xobjectCallCost + 1)` -/
def maxExecutions : Nat := 65472

theorem maxExecutions_eq : maxExecutions = maxXObjectBytes / (xobjectCallCost + 1) := by decide

/-- arithmetic core: an accounting reached by charged executions from a zeroed byte count -/
theorem charged_bound {a b : Acct} (h : Charged { a with bytes := 0 } b) :
    (b.calls - a.calls) * (xobjectCallCost + 1) ≤ maxXObjectBytes ∧
    (b.calls - a.calls) ≤ maxExecutions ∧
    (b.work - a.work) + (b.calls - a.calls) * xobjectCallCost ≤ maxXObjectBytes ∧
    a.calls ≤ b.calls ∧ a.work ≤ b.work := by
  obtain ⟨_, h2, h3, h4, h5⟩ := h
  simp only [xobjectCallCost, maxExecutions] at *
  have hB : maxXObjectBytes = 67108864 := rfl
  generalize maxXObjectBytes = B at *
  subst hB
  omega

/-- **Form execution is bounded for every form graph.** Whatever the document — any object
table, names bound anyhow, forms sharing objects or drawing themselves or each other, any
fan-out — and whatever the page content and the state of the extractor, one call of
`Extract` executes at most 65472 forms, because every executed form is charged its
(non-empty) content plus `xobjectCallCost` against `maxXObjectBytes`; the content executed
plus 1 KiB per execution stays within 64 MiB. -/
theorem form_executions_bounded (adv : Adv α) (doc : Doc α) (ops : List (RawOp α)) (x : XState α) :
    let r := extractRaw adv doc ops x
    (r.1.acct.calls - x.acct.calls) * (xobjectCallCost + 1) ≤ maxXObjectBytes ∧
    (r.1.acct.calls - x.acct.calls) ≤ maxExecutions ∧
    (r.1.acct.work - x.acct.work) + (r.1.acct.calls - x.acct.calls) * xobjectCallCost ≤ maxXObjectBytes ∧
    x.acct.calls ≤ r.1.acct.calls ∧ x.acct.work ≤ r.1.acct.work := by
  have h := extractLoop_charged adv doc ops { x with acct := { x.acct with bytes := 0 } }
  exact charged_bound (a := x.acct) h

/-- the bound is attained as far as the arithmetic allows: a form of one byte that draws
itself twice is executed 1023 times by the nesting limit alone (2^10 - 1), all charged -/
example :
    (extractRaw (fun _ _ => 0) (selfDoc 1 [doF, doF]) [doF] (newExtractor (some ⟨.direct [([70], 1)]⟩))).1.acct
      = ⟨1023 * 1025, 1023, 1023⟩ := by
  decide +kernel

/-- one `Do`, whatever it names: either nothing happens at all (no resource context, too
deep, the name leads to no form, empty content), or only the charge is recorded (over
budget), or the form runs one level deeper with its own resources and is charged. -/
theorem do_skipped_refused_or_charged (adv : Adv α) (doc : Doc α) (fuel : Nat) (name : Name) (x : XState α) :
    invokeXObject adv doc fuel name x = (x, []) ∨
    (∃ f : FormObj α, invokeXObject adv doc fuel name x = ({ x with acct := x.acct.refuse f.len }, [])) ∨
    (∃ (fuel' : Nat) (res : Res) (f : FormObj α), fuel = fuel' + 1 ∧ x.resources = some res ∧
      x.gs.xdepth < maxXObjectDepth ∧ lookupForm doc res name = some f ∧ f.len ≠ 0 ∧
      ¬ x.acct.bytes + f.len + xobjectCallCost > maxXObjectBytes ∧
      invokeXObject adv doc fuel name x =
        (leaveForm x (formLoop adv (invokeXObject adv doc fuel') (formBody f) (enterForm doc res f x)).1,
         (formLoop adv (invokeXObject adv doc fuel') (formBody f) (enterForm doc res f x)).2)) :=
  invoke_cases adv doc fuel name x

/-! ## What every call restores -/

/-- a `Do` gives back the resources and the nesting depth it found (whatever the form's
content does, balanced or not) -/
theorem do_restores_scope (adv : Adv α) (doc : Doc α) (fuel : Nat) (name : Name) (x : XState α) :
    (invokeXObject adv doc fuel name x).1.resources = x.resources ∧
    (invokeXObject adv doc fuel name x).1.gs.xdepth = x.gs.xdepth :=
  invoke_framed adv doc fuel name x

/-- `Extract` leaves the resource context and the nesting depth as they were, also when it
stops at an error -/
theorem extract_restores_scope (adv : Adv α) (doc : Doc α) (ops : List (RawOp α)) (x : XState α) :
    (extractRaw adv doc ops x).1.resources = x.resources ∧
    (extractRaw adv doc ops x).1.gs.xdepth = x.gs.xdepth :=
  extractLoop_framed adv doc ops { x with acct := { x.acct with bytes := 0 } }

/-! ## Histories of `Extract` calls on one extractor -/

/-- the states an extractor made by `NewExtractor` + `SetResourceContext(res, …)` can be in
after any sequence of `Extract` calls -/
inductive Reachable {κ : Type} [DecidableEq κ] (key : Frag α → κ) (adv : Adv α) (doc : Doc α)
    (res : Option Res) : XState α → Prop where
  | new : Reachable key adv doc res (newExtractor res)
  | call (x : XState α) (p : List (RawOp α)) : Reachable key adv doc res x →
      Reachable key adv doc res (extract key adv doc p x).1

/-- **history invariant**: in every reachable state the nesting depth is 0 and the resource
context is the one that was set — so the nesting limit and the name scope of every call are
those of a fresh extractor, whatever came before (failed calls and unbalanced forms
included) -/
theorem history_invariant {κ : Type} [DecidableEq κ] (key : Frag α → κ) (adv : Adv α) (doc : Doc α)
    (res : Option Res) (x : XState α) (h : Reachable key adv doc res x) :
    x.gs.xdepth = 0 ∧ x.resources = res := by
  induction h with
  | new => exact ⟨rfl, rfl⟩
  | call x p _ ih =>
    obtain ⟨h1, h2⟩ := extract_restores_scope adv doc p x
    exact ⟨h2.trans ih.1, h1.trans ih.2⟩

/-- **the budget is per content stream, in every history**: each call of a sequence of
`Extract` calls executes at most `maxExecutions` forms, so `n` calls execute at most
`n · maxExecutions` — earlier calls neither use up nor enlarge the budget of later ones -/
theorem history_executions_bounded {κ : Type} [DecidableEq κ] (key : Frag α → κ) (adv : Adv α)
    (doc : Doc α) (progs : List (List (RawOp α))) (x : XState α) :
    (extractAll key adv doc progs x).1.acct.calls ≤ x.acct.calls + progs.length * maxExecutions := by
  induction progs generalizing x with
  | nil => simp [extractAll]
  | cons p rest ih =>
    simp only [extractAll, List.length_cons]
    have h1 := ih (extract key adv doc p x).1
    obtain ⟨_, h2, _, h4, _⟩ := form_executions_bounded adv doc p x
    have h3 : (extract key adv doc p x).1 = (extractRaw adv doc p x).1 := rfl
    rw [h3] at h1 ⊢
    simp only [maxExecutions] at *
    omega

/-- what a call of `Extract` does depends on the graphics state and the resource context it
finds, not on how much Form XObject content earlier calls executed -/
theorem extract_blind_to_earlier_calls (adv : Adv α) (doc : Doc α) (ops : List (RawOp α)) (x y : XState α)
    (hgs : x.gs = y.gs) (hres : x.resources = y.resources) :
    (extractRaw adv doc ops x).2 = (extractRaw adv doc ops y).2 ∧
    (extractRaw adv doc ops x).1.gs = (extractRaw adv doc ops y).1.gs ∧
    (extractRaw adv doc ops x).1.acct.bytes = (extractRaw adv doc ops y).1.acct.bytes := by
  obtain ⟨⟨h1, _, h3⟩, h2⟩ := extractLoop_ghostBlind adv doc ops
    { x with acct := { x.acct with bytes := 0 } } { y with acct := { y.acct with bytes := 0 } }
    ⟨hgs, hres, rfl⟩
  exact ⟨h2, h1, h3⟩

/-- **calls that restore the graphics state are independent of their history**: if every
program of a sequence, run on a new extractor, leaves the graphics state as it found it
(as every `q … Q`-wrapped balanced page does — `C08Forms.extract_qQ_restores`), then
running the sequence on ONE extractor returns, call by call, exactly what each program
returns on a new extractor: nothing leaks from one page to the next, neither CTM nor text
state nor budget nor nesting depth nor resources. -/
theorem history_calls_independent {κ : Type} [DecidableEq κ] (key : Frag α → κ) (adv : Adv α)
    (doc : Doc α) (res : Option Res) (progs : List (List (RawOp α)))
    (hrest : ∀ p ∈ progs, (extractRaw adv doc p (newExtractor res)).1.gs = init) :
    (extractAll key adv doc progs (newExtractor res)).2 =
      progs.map fun p => (extract key adv doc p (newExtractor res)).2 := by
  suffices h : ∀ x : XState α, x.gs = init → x.resources = res →
      (extractAll key adv doc progs x).2 = progs.map fun p => (extract key adv doc p (newExtractor res)).2 from
    h (newExtractor res) rfl rfl
  induction progs with
  | nil => intro x _ _; rfl
  | cons p rest ih =>
    intro x hgs hres
    obtain ⟨h2, h1, _⟩ := extract_blind_to_earlier_calls adv doc p x (newExtractor res) hgs hres
    have hgs' : (extract key adv doc p x).1.gs = init := by
      show (extractRaw adv doc p x).1.gs = init
      rw [h1]; exact hrest p List.mem_cons_self
    have hres' : (extract key adv doc p x).1.resources = res := by
      show (extractRaw adv doc p x).1.resources = res
      rw [(extract_restores_scope adv doc p x).1, hres]
    simp only [extractAll, List.map_cons]
    rw [ih (fun q hq => hrest q (List.mem_cons_of_mem _ hq)) _ hgs' hres']
    congr 1
    simp only [extract, h2]

/-- the hypothesis of `history_calls_independent` is satisfiable: two `q … Q` pages, one
drawing a form, one changing the CTM -/
example : ∀ p ∈ ([[⟨.q, []⟩, doF, ⟨.Q, []⟩],
      [⟨.q, []⟩, ⟨.cm, [.num 2, .num 0, .num 0, .num 2, .num 5, .num 5]⟩, ⟨.Tj, [.str 2]⟩, ⟨.Q, []⟩]] : List (List (RawOp Int))),
    (extractRaw (fun _ _ => 0) (selfDoc 9 [⟨.Tj, [.str 1]⟩]) p (newExtractor (some ⟨.direct [([70], 1)]⟩))).1.gs = init := by
  decide +kernel

/-- the hypotheses of the history theorems are met by real histories: a failing call
(unmatched `Q`) followed by a call that draws a form -/
example :
    (extractAll (fun g => g.sid) (fun _ _ => 0) (selfDoc 9 [⟨.Tj, [.str 1]⟩]) [[⟨.Q, []⟩], [doF]]
      (newExtractor (some ⟨.direct [([70], 1)]⟩))).2.map (·.map (·.map (·.sid))) = [none, some [1]] := by
  decide +kernel

/-! ## Operand checks of `processOperation` -/

omit [DecidableEq α] [LT α] [DecidableLT α] in
/-- **well-formed operations mean what they say**: the operation a producer writes for a
typed operator (right number and types of operands) decodes to exactly that operator — so
every theorem of `Props/C08.lean` about typed programs is a theorem about the operations
`processOperation` receives -/
theorem decode_encode (fontName : Name) (op : Op α) (r : RawOp α) (h : encodeOp fontName op = some r) :
    decodeOp r = .ops [op] := by
  cases op <;> simp only [encodeOp, Option.some.injEq, reduceCtorEq] at h <;> subst h <;>
    simp [decodeOp, operandsToMatrix, matrixOfNums, toFloat, toFloatD]

omit [DecidableEq α] [LT α] [DecidableLT α] in
/-- a raw operation never decodes to a form: `Do` with one name operand is the only way
into `invokeXObject` -/
theorem decode_formFree (r : RawOp α) : (decodeOp r).formFree := decodeOp_formFree r

omit [DecidableEq α] [LT α] [DecidableLT α] in
/-- `cm` and `Tm` with any number of operands other than six do nothing … -/
theorem decode_matrix_arity (r : RawOp α) (hop : r.operator = .cm ∨ r.operator = .Tm)
    (hn : r.operands.length ≠ 6) : decodeOp r = .ops [] := by
  cases r with | mk o xs =>
  simp only at hop hn
  rcases hop with h | h <;> subst h <;> simp [decodeOp, hn]

omit [DecidableEq α] [LT α] [DecidableLT α] in
/-- … and with six operands every operand that is not a number reads as 0
(`m[i], _ = toFloat(op)`) -/
theorem decode_cm_six (a b c d e f : Operand α) :
    decodeOp ⟨.cm, [a, b, c, d, e, f]⟩ =
      .ops [.cm ⟨toFloatD a, toFloatD b, toFloatD c, toFloatD d, toFloatD e, toFloatD f⟩] := by
  simp [decodeOp, operandsToMatrix, matrixOfNums, toFloatD]

omit [DecidableEq α] [LT α] [DecidableLT α] in
/-- `'` moves to the next line whatever its operands are (`NextLine` comes before the
operand check); it shows a string only when that is its single operand -/
theorem decode_quote_malformed (xs : List (Operand α)) (h : ∀ sid, xs ≠ [.str sid]) :
    decodeOp ⟨.quote, xs⟩ = .ops [.Tstar] := by
  unfold decodeOp
  split <;> simp_all

omit [DecidableEq α] [LT α] [DecidableLT α] in
/-- `"` with three operands uses each operand that has the right type and ignores the
others; with any other number of operands it does nothing at all (not even the line move) -/
theorem decode_dquote_arity (xs : List (Operand α)) (h : xs.length ≠ 3) :
    decodeOp ⟨.dquote, xs⟩ = .ops [] := by
  unfold decodeOp
  split <;> simp_all

/-- the effect of a well-formed `"` is that of `aw Tw ac Tc (s) '`, also at the level of
operations -/
theorem dquote_wellformed_eq_parts (adv : Adv α) (aw ac : α) (sid : Nat) (s : State α) :
    stepOps adv [.dquote aw ac sid] s = stepOps adv (dquoteOps (.num aw) (.num ac) (.str sid)) s := by
  simp [stepOps, dquoteOps, toFloat, stepBasic, opSids, tagShows, State.setWordSpacing,
    State.setCharSpacing, State.mapText]

/-! ## Resource names: lookup and `mergeResources` -/

/-- `mergeResources` on /XObject, completely: a form without an /XObject entry sees the
names of the invoking scope; two direct dictionaries are merged, the form's bindings
first; in every other case (either one indirect, or of a wrong type) the form's entry
REPLACES the invoking scope's, which is then no longer visible. -/
theorem mergeResources_spec (doc : Doc α) (parent child : Res) :
    resolveXDict doc (mergeResources parent child).xobject =
      match child.xobject, parent.xobject with
      | .missing, _ => resolveXDict doc parent.xobject
      | .direct c, .direct p => some (c ++ p)
      | v, _ => resolveXDict doc v := by
  cases child with | mk cx =>
  cases parent with | mk px =>
  cases cx <;> cases px <;> simp [mergeResources, resolveXDict]

/-- in a merged dictionary a name bound by the form shadows the invoking scope's binding,
and a name only the invoking scope binds stays visible -/
theorem merged_lookup (c p : XDict) (name : Name) :
    (c ++ p).lookup name = (c.lookup name).or (p.lookup name) := by
  induction c with
  | nil => simp
  | cons e rest ih =>
    obtain ⟨k, v⟩ := e
    simp only [List.cons_append, List.lookup_cons]
    split <;> simp [ih]

omit [Lean.Grind.CommRing α] [DecidableEq α] [LT α] [DecidableLT α] in
/-- a form without /Resources (or whose /Resources do not resolve to a dictionary) runs
in the invoking scope -/
theorem formResources_missing (doc : Doc α) (res : Res) (f : FormObj α) (h : resolveRes doc f.resources = none) :
    formResources doc res f = res := by
  simp [formResources, h]

/-- the retry without a leading slash only happens when the name as written is unbound -/
theorem lookupName_exact (d : XDict) (name : Name) (n : Nat) (h : d.lookup name = some n) :
    lookupName d name = some n := by
  simp [lookupName, h]

/-! ## `deduplicateFragments` -/

section
variable {κ : Type} [DecidableEq κ]

/-- the deduplicated list is a sub-list of the fragments in their order … -/
theorem dedup_sublist (key : Frag α → κ) (l : List (Frag α)) : (dedupBy key l []).Sublist l :=
  dedupBy_sublist key l []

/-- … without two fragments of one key … -/
theorem dedup_nodup (key : Frag α → κ) (l : List (Frag α)) : ((dedupBy key l []).map key).Nodup :=
  dedupBy_nodup key l []

/-- … in which every fragment is represented by one of its key -/
theorem dedup_complete (key : Frag α → κ) (l : List (Frag α)) (f : Frag α) (hf : f ∈ l) :
    key f ∈ (dedupBy key l []).map key := by
  rcases dedupBy_complete key l [] f hf with h | h
  · simp at h
  · exact h

/-- fragments with pairwise different keys all survive -/
theorem dedup_id_of_distinct (key : Frag α → κ) (l : List (Frag α)) (h : (l.map key).Nodup) :
    dedupBy key l [] = l :=
  dedupBy_eq_self key l [] h (by intro f _ hc; simp at hc)

end

/-- with the key of the code (rounded position and text): when every string is shown once,
`Extract` returns every fragment -/
theorem dedup_distinct_text (l : List (Frag Rat)) (h : (l.map (·.sid)).Nodup) :
    dedupBy fragKey l [] = l := by
  apply dedup_id_of_distinct
  have hmap : l.map (·.sid) = (l.map fragKey).map (fun k => k.2.2) := by
    simp [List.map_map, fragKey, Function.comp_def]
  rw [hmap] at h
  exact List.Pairwise.of_map (fun k : Int × Int × Nat => k.2.2) (fun a b hab heq => hab (by rw [heq])) h

/-- the two hypotheses are satisfiable, and deduplication does remove a repeated string
at the same rounded position while keeping it at another -/
example : dedupBy fragKey
    [⟨1, ⟨10, 20, 12, 1, 1, true⟩⟩, ⟨1, ⟨(41 : Rat) / 4, 20, 12, 1, 1, true⟩⟩, ⟨1, ⟨11, 20, 12, 1, 1, true⟩⟩] []
    = [⟨1, ⟨10, 20, 12, 1, 1, true⟩⟩, ⟨1, ⟨11, 20, 12, 1, 1, true⟩⟩] := by decide +kernel

end Tabula.C08Doc
