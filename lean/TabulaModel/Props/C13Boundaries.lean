import TabulaModel.Lemmas.SemBoundary
import TabulaModel.Props.C13Api
/-!
# C13, round 6, part 1 — `SplitToSize(text, boundaries)` with the boundaries of `DetectBoundaries`

`rag/boundary.go` is the only producer of `[]Boundary` in the package; `SplitToSize` takes its
result as second argument.  Model: `Model/SemBoundary.lean` (`isSentenceEnd`, `isAbbreviation`,
`detectInternalBoundaries`, `getBoundaryTypeForBlock`, `DetectBoundaries`, `FindBestBoundary`,
`FindBoundaryWithLookAhead`, the orphan detector); lemmas: `Lemmas/SemBoundary.lean`,
`Lemmas/SplitBoundaries.lean`.  Ops: `c13.detect`, `c13.splitd`, `c13.best`, `c13.look`,
`c13.orphan`.

The earlier rounds claimed UTF-8 integrity for `boundaries = nil` only and proved that it
fails with boundaries (`C13Api.split_utf8_boundaries_counterexample`, old witness).  The cause
was a defect of `SplitToSize` (fixed, cf372da): the supplied positions drifted after every
split that was followed by white space.  With the fix, "every boundary is on a character
boundary" is an invariant of the loop, and the UTF-8 and conservation clauses of C13 hold for
every such list — in particular for every list `DetectBoundaries` returns.
-/
set_option linter.unusedVariables false
namespace Tabula.C13Boundaries
open Tabula.Split Tabula.SemBoundary

/-! ## the loop invariant -/

/-- **boundaries_stay_aligned** (the repaired defect).  One iteration of the loop of
`SplitToSize`: if every supplied boundary is on a character boundary of `remaining`, then
every boundary kept for the next iteration is on a character boundary of the next
`remaining` (`strings.TrimSpace(remaining[splitPos:])`), for every split position. -/
theorem boundaries_stay_aligned (remaining : Str) (bs : List Boundary) (splitPos : Nat)
    (hb : BoundariesAligned remaining bs) :
    BoundariesAligned (trimSpace (remaining.drop splitPos))
      (adjustBoundaryPositions bs (splitPos + leadingSpace (remaining.drop splitPos))) :=
  boundariesAligned_step remaining bs splitPos hb

/-- the kept boundaries point at the same bytes as before: position `p` of the old remainder
is position `p - shift` of the new one -/
theorem remainder_is_slice (remaining : Str) (splitPos : Nat) :
    trimSpace (remaining.drop splitPos)
      = (remaining.drop (splitPos + leadingSpace (remaining.drop splitPos))).take
          (trimSpace (remaining.drop splitPos)).length := by
  rw [← List.drop_drop]
  exact trimSpace_eq_take_drop _

/-- with boundaries on character boundaries no split point is inside a well-formed
character, whatever the bytes, the scores and the limit -/
theorem split_point_aligned (c : SizeConfig) (text : Str) (bs : List Boundary)
    (hb : BoundariesAligned text bs) (limit : Nat) (unit : SizeUnit) :
    NotCovered text (findSplitPointAt c text bs limit unit) :=
  notCovered_findSplitPointAt_aligned c text bs hb limit unit

/-! ## conservation and UTF-8 integrity with boundaries -/

/-- **split_conserves_characters_aligned.** For EVERY byte string (ill-formed UTF-8 included),
every size configuration and every list of boundaries on character boundaries of the text:
the non-whitespace characters of the pieces of `SplitToSize(text, boundaries)`, concatenated,
are exactly those of the text. -/
theorem split_conserves_characters_aligned (c : SizeConfig) (text : Str) (bs : List Boundary)
    (hb : BoundariesAligned text bs) :
    (splitToSize c text bs).flatMap stripWs = stripWs text :=
  splitToSize_content_aligned c text bs hb

/-- **split_utf8_aligned.** Valid UTF-8 text, boundaries on character boundaries: every piece of
`SplitToSize(text, boundaries)` is valid UTF-8 and non-empty, for every size configuration. -/
theorem split_utf8_aligned (c : SizeConfig) (text : Str) (bs : List Boundary)
    (hb : BoundariesAligned text bs) (hv : validUtf8 text = true) :
    ∀ p ∈ splitToSize c text bs, validUtf8 p = true ∧ p ≠ [] :=
  fun p hp => ⟨splitToSize_valid_aligned c text bs hb hv p hp,
    Tabula.C13.split_pieces_nonempty c text bs p hp⟩

/-- in valid UTF-8, "on a character boundary" is: the text up to the position is valid -/
theorem aligned_iff_valid_take (text : Str) (hv : validUtf8 text = true) (p : Nat) (hp : p ≤ text.length) :
    NotCovered text p ↔ validUtf8 (text.take p) = true := by
  constructor
  · exact valid_take_of_notCovered text hv p
  · intro ht q hq hc
    -- a character of `text` starting at q < p and reaching beyond p would be cut by `take p`
    have hd := valid_drop_of_valid_take text hv p ht
    by_cases hpl : p = text.length
    · have := charLen_le_length (text.drop q)
      simp only [List.length_drop] at this
      omega
    · have hne : text.drop p ≠ [] := by
        intro e
        have := congrArg List.length e
        simp only [List.length_drop, List.length_nil] at this
        omega
      obtain ⟨b, hb1, hb2⟩ := charLen_head _ (charLen_ne_zero_of_valid hne hd)
      obtain ⟨b', hb1', hb2'⟩ := drop_cont text q p hq hc
      rw [List.getElem?_drop, Nat.add_zero] at hb1
      rw [hb1] at hb1'; cases hb1'
      exact isCont_not_runeStart hb2' hb2

example : BoundariesAligned [0xE6,0x97,0xA5, 32, 0xE6,0x9C,0xAC] [⟨3, 70⟩, ⟨4, 20⟩, ⟨7, 70⟩, ⟨9, 0⟩] := by
  intro b hb
  simp only [List.mem_cons, List.not_mem_nil, or_false] at hb
  rcases hb with rfl | rfl | rfl | rfl
  · exact notCovered_of_runeStart _ 3 32 rfl (by decide)
  · exact notCovered_after_ascii _ 3 32 rfl (by decide)
  · exact notCovered_of_ge _ _ (by decide)
  · exact notCovered_of_ge _ _ (by decide)

/-! ## what `DetectBoundaries` returns -/

/-- **detect_boundaries_aligned.** For every list of content blocks (any types, any bytes, any
answers of `isListIntro`): every boundary `DetectBoundaries` returns lies inside the text that
joins the blocks with blank lines, on a character boundary of it. -/
theorem detect_boundaries_aligned (blocks : List Block) :
    BoundariesAligned (joinBlocks blocks) ((detectBoundaries blocks).map DBoundary.toBoundary)
      ∧ ∀ d ∈ detectBoundaries blocks, d.pos ≤ (joinBlocks blocks).length :=
  ⟨boundariesAligned_detect blocks, fun d hd => (detectBoundaries_aligned blocks d hd).2⟩

/-- **detect_boundaries_sorted.** The boundaries come in the order of their positions. -/
theorem detect_boundaries_sorted (blocks : List Block) :
    (detectBoundaries blocks).Pairwise (fun x y => x.pos ≤ y.pos) :=
  detectBoundaries_sorted blocks

/-- **sentence_boundary_behind_punctuation.** `isSentenceEnd(text, i)` holds only at a `.`, `!`
or `?` inside the text, so every sentence boundary of a paragraph is the position right behind
one of these ASCII bytes. -/
theorem sentence_boundary_behind_punctuation (b : Block) (start index : Nat) :
    ∀ d ∈ detectInternal b start index,
      ∃ j c, b.text[j]? = some c ∧ (c = 46 ∨ c = 33 ∨ c = 63) ∧ d.pos = start + j + 1
        ∧ d.ty = .sentence ∧ d.score = 20 := by
  intro d hd
  obtain ⟨j, c, h1, _, h3, h4, h5, h6⟩ := detectInternal_mem b start index d hd
  exact ⟨j, c, h1, h6, h3, h4, h5⟩

/-- **sentence_end_tests_agree_on_ascii.** The package has two sentence-end tests with the same
rules: `isSentenceEnd` (boundary.go: bytes read as Latin-1 runes) drives `DetectBoundaries`,
`isSentenceEndRune` (overlap.go: runes, Unicode tables) drives the sentence overlap.  On ASCII
text they agree at every position, whatever the class tables: the sentence boundaries
`DetectBoundaries` reports are the sentence ends the overlap generator sees. -/
theorem sentence_end_tests_agree_on_ascii (cl : Tabula.Overlap.Classes) (text : Str)
    (ha : ∀ b ∈ text, b < 0x80) (i : Nat) :
    Tabula.Overlap.isSentenceEndRune cl text.toArray i = isSentenceEndB text.toArray i := by
  apply isSentenceEnd_agree_ascii
  intro j
  unfold getB
  by_cases hj : j < text.length
  · simp [hj]
    exact ha _ (List.getElem_mem hj)
  · simp [hj]

/-- the hypothesis is needed: in "a. é" the "é" is C3 A9, and 0xC3 read as Latin-1 is the
capital "Ã": the byte-level test sees a capital behind the full stop, the rune-level test
sees a lower-case letter -/
example :
    isSentenceEndB ([97, 46, 32, 0xC3, 0xA9]).toArray 1 = true
      ∧ Tabula.Overlap.isSentenceEndRune [] (Tabula.Overlap.decodeRunes [97, 46, 32, 0xC3, 0xA9]).toArray 1 = false := by
  decide +kernel

/-- every boundary carries the score of its type (`BoundaryType.Score`) -/
theorem detect_boundaries_scores (blocks : List Block) :
    ∀ d ∈ detectBoundaries blocks, d.score = d.ty.score ∧ d.ty ≠ .none := by
  have key : ∀ (blocks : List Block) (i pos : Nat), ∀ d ∈ detectAux blocks i pos,
      d.score = d.ty.score ∧ d.ty ≠ .none := by
    intro blocks
    induction blocks with
    | nil => intro i pos d hd; cases hd
    | cons b rest ih =>
      intro i pos d hd
      unfold detectAux at hd
      simp only [List.mem_append] at hd
      rcases hd with ((hd | hd) | hd) | hd
      · split at hd
        · have := List.mem_singleton.mp hd; rw [this]; exact ⟨rfl, by simp⟩
        · cases hd
      · obtain ⟨j, c, _, _, _, h4, h5, _⟩ := detectInternal_mem b pos i d hd
        rw [h4, h5]; exact ⟨rfl, by simp⟩
      · split at hd
        · rename_i hne
          have := List.mem_singleton.mp hd; rw [this]; exact ⟨rfl, hne⟩
        · cases hd
      · exact ih _ _ d hd
  exact key blocks 0 0

/-- non-vacuity: two paragraphs and a heading; sentence ends, paragraph ends, heading start -/
example :
    (detectBoundaries [⟨.paragraph, "Ab cd. Ef gh.".toList.map Char.toNat, false⟩,
                       ⟨.heading, "Title".toList.map Char.toNat, false⟩,
                       ⟨.paragraph, "Dr. X is 3.5 m. \"Y\"".toList.map Char.toNat, false⟩]).map
        (fun d => (d.ty.no, d.pos, d.score, d.elem))
      = [(1, 6, 20, 0), (1, 13, 20, 0), (2, 15, 70, 0), (5, 15, 100, 0), (1, 37, 20, 2), (2, 41, 70, 2)] := by
  decide +kernel

/-! ## the composition -/

/-- **split_detected_property.** The UTF-8 and conservation clauses of C13 for
`SplitToSize(text, DetectBoundaries(blocks))`, where `text` joins the blocks with blank lines,
for every list of blocks, every size configuration (all units, any limit, semantic
splitting on or off) and every answer of `isListIntro`: the call terminates (total
definition); the pieces' non-whitespace characters are exactly those of the text, in order,
for ANY bytes; and if the blocks are valid UTF-8, every piece is valid UTF-8 and non-empty. -/
theorem split_detected_property (c : SizeConfig) (blocks : List Block) :
    let text := joinBlocks blocks
    let bs := (detectBoundaries blocks).map DBoundary.toBoundary
    (splitToSize c text bs).flatMap stripWs = stripWs text
    ∧ ((∀ b ∈ blocks, validUtf8 b.text = true) →
        validUtf8 text = true ∧ ∀ p ∈ splitToSize c text bs, validUtf8 p = true ∧ p ≠ []) := by
  intro text bs
  have hb := boundariesAligned_detect blocks
  refine ⟨split_conserves_characters_aligned c text bs hb, fun hv => ?_⟩
  have hvt : validUtf8 text = true := by
    apply Tabula.Overlap.valid_joinWith _ (by decide +kernel)
    intro p hp
    obtain ⟨b, hbm, e⟩ := List.mem_map.mp hp
    subst e; exact hv b hbm
  exact ⟨hvt, split_utf8_aligned c text bs hb hvt⟩

/-- non-vacuity, and the witness of the repaired defect: "Aaaa bbbb. Cccc dddd. Éééé éééé
ééééé. Ññññ ññññ." at 15 characters with its detected boundaries used to return the pieces
"ééééé. \xc3" and "\x91ñññ"; now every piece is whole. -/
example :
    let c : SizeConfig := { maxValue := 15, maxUnit := .characters, tpcNum := 1, tpcDen := 4, sem := true }
    let blocks : List Block := [⟨.paragraph,
      [65,97,97,97,32,98,98,98,98,46,32, 67,99,99,99,32,100,100,100,100,46,32,
       0xC3,0x89,0xC3,0xA9,0xC3,0xA9,0xC3,0xA9,32,0xC3,0xA9,0xC3,0xA9,0xC3,0xA9,0xC3,0xA9,32,
       0xC3,0xA9,0xC3,0xA9,0xC3,0xA9,0xC3,0xA9,0xC3,0xA9,46,32,
       0xC3,0x91,0xC3,0xB1,0xC3,0xB1,0xC3,0xB1,32,0xC3,0xB1,0xC3,0xB1,0xC3,0xB1,0xC3,0xB1,46], false⟩]
    (detectBoundaries blocks).map (fun d => (d.pos, d.score)) = [(10, 20), (21, 20), (51, 20), (70, 20), (70, 70)]
      ∧ (splitToSize c (joinBlocks blocks) ((detectBoundaries blocks).map DBoundary.toBoundary)).map List.length
          = [10, 10, 8, 8, 11, 18]
      ∧ ∀ p ∈ splitToSize c (joinBlocks blocks) ((detectBoundaries blocks).map DBoundary.toBoundary),
          validUtf8 p = true := by
  decide +kernel

/-! ## selecting a boundary -/

/-- `FindBoundaryWithLookAhead(boundaries, target)` is the boundary search of
`FindSplitPointAt` with tolerance `LookAheadChars/2` -/
theorem look_ahead_is_best_near (bs : List Boundary) (lookAhead target : Nat) :
    findBoundaryWithLookAhead bs lookAhead target = findBestBoundaryNear bs target (lookAhead / 2) := by
  unfold findBoundaryWithLookAhead findBestBoundary findBestBoundaryNear
  simp only
  have : ∀ b : Boundary, (((target - lookAhead / 2 : Nat) : Int) ≤ (b.pos : Int))
      = (target - lookAhead / 2 ≤ b.pos) := by
    intro b; apply propext; omega
  simp only [this]

/-- … so what it returns is one of the boundaries, within `target ± LookAheadChars/2`, of the
highest score there -/
theorem look_ahead_choice (bs : List Boundary) (lookAhead target : Nat) (b : Boundary)
    (h : findBoundaryWithLookAhead bs lookAhead target = some b) :
    b ∈ bs ∧ target - lookAhead / 2 ≤ b.pos ∧ b.pos ≤ target + lookAhead / 2 ∧
      ∀ x ∈ bs, target - lookAhead / 2 ≤ x.pos → x.pos ≤ target + lookAhead / 2 → x.score ≤ b.score := by
  rw [look_ahead_is_best_near] at h
  obtain ⟨h1, h2, _, h4⟩ := findBestBoundaryNear_some h
  exact ⟨h1, h2.1, h2.2, fun x hx hlo hhi => h4 x hx ⟨hlo, hhi⟩⟩

example : (findBoundaryWithLookAhead [⟨90, 20⟩, ⟨110, 70⟩, ⟨300, 100⟩] 200 100).map (·.pos) = some 110 := by
  decide

/-- **adjust_for_orphans_choice.** `AdjustForOrphans` returns the position it was given or the
position of one of the boundaries; so with boundaries and position on character boundaries of
the text the adjusted position is on a character boundary too. -/
theorem adjust_for_orphans_choice (minOrphan : Nat) (text : Str) (position : Nat) (bs : List Boundary)
    (q : Nat) (h : adjustForOrphans minOrphan text position bs = some q) :
    q = position ∨ ∃ b ∈ bs, q = b.pos := by
  unfold adjustForOrphans at h
  have hloop : ∀ bs' : List Boundary, (∀ b ∈ bs', b ∈ bs) →
      adjustLoop minOrphan text position bs' = some q → q = position ∨ ∃ b ∈ bs, q = b.pos := by
    intro bs'
    induction bs' with
    | nil => intro _ h; simp [adjustLoop] at h; exact Or.inl h.symm
    | cons b rest ih =>
      intro hsub h
      unfold adjustLoop at h
      split at h
      · split at h
        · cases h
        · right; exact ⟨b, hsub b (List.mem_cons_self ..), by cases h; rfl⟩
        · exact ih (fun x hx => hsub x (List.mem_cons_of_mem _ hx)) h
      · exact ih (fun x hx => hsub x (List.mem_cons_of_mem _ hx)) h
  split at h
  · cases h
  · left; cases h; rfl
  · exact hloop bs (fun _ hb => hb) h

theorem adjust_for_orphans_aligned (minOrphan : Nat) (text : Str) (position : Nat) (bs : List Boundary)
    (hp : NotCovered text position) (hb : BoundariesAligned text bs)
    (q : Nat) (h : adjustForOrphans minOrphan text position bs = some q) : NotCovered text q := by
  rcases adjust_for_orphans_choice minOrphan text position bs q h with rfl | ⟨b, hbm, rfl⟩
  · exact hp
  · exact hb b hbm

/-- non-vacuity: a split at 3 would leave "ab" alone (orphan size 5); so would the boundary at
2; the boundary at 7 does not (the one at 8 is outside `position ± MinOrphanSize`, exclusive) -/
example : adjustForOrphans 5 ("ab cdefg hijklmnop".toList.map Char.toNat) 3 [⟨2, 70⟩, ⟨8, 90⟩, ⟨7, 20⟩] = some 7 := by
  decide +kernel

end Tabula.C13Boundaries
