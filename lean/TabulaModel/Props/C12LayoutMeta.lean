import TabulaModel.Lemmas.ChunkLayoutX
import TabulaModel.Lemmas.ChunkLayoutTitle
import TabulaModel.Model.ChunkColl
/-!
# C12, layout-based chunker: the whole metadata of a chunk

`Model/ChunkLayoutX.lean` repeats the loops of `Chunker.Chunk` with the bookkeeping the code keeps
beside the text: the element types and the `HasList` flag of the chunk under construction, the
`Level` by the path that emits the chunk, and the section a chunk is made for (`SectionTitle`,
`HeadingLevel`); `CharCount`, `WordCount`, `EstimatedTokens` and `TextWithContext` are functions of
text and title.

* `layout_meta_refines`: forgetting all that gives the `chunk` every other theorem speaks about;
* `layout_meta_section`: every chunk carries `Path`, `PageStart`, `PageEnd` of the one section it is
  stamped with, and that section is a section `buildSections` made of the document — or, when no
  section yields a chunk, the one section of `chunkByParagraphs` (document title, no path);
* `layout_title_formula`: `SectionTitle` is the last entry of the chunk's `SectionPath` (the document
  title in the fallback);
* `section_chunk_flags`: a section that fits into one chunk reports exactly the element types of its
  content, `HasList` exactly when it holds a list, `ChunkLevelSection`;
* `layout_flags_counterexample`: for a section that is split the flags are not always true of the
  chunk's content (a list kept with its introduction above the maximum lands in a chunk with
  `HasList == false`) — metadata the statement of C12 does not name; modelled as the code has it.
-/
namespace Tabula.C12LayoutMeta
open Tabula.Chunk Tabula.ChunkLayout Tabula.ChunkLayoutX Tabula.ChunkMeta

/-- **Forgetting section and bookkeeping gives `Chunker.Chunk`.** -/
theorem layout_meta_refines (cfg : Cfg) (title : Str) (d : LDoc) :
    (chunkX cfg title d).map (·.x.c) = chunk cfg title d := chunkX_proj cfg title d

/-- **Every chunk carries the metadata of one section of the document**: its `SectionPath`,
`PageStart`, `PageEnd` are those of the section it is stamped with (whose `Title` and `HeadingLevel`
it reports), and that section is one `buildSections` made — or the fallback section with the
document title, level 0 and no path. -/
theorem layout_meta_section (cfg : Cfg) (title : Str) (d : LDoc) :
    ∀ y ∈ chunkX cfg title d,
      (y.x.c.path = y.info.path ∧ y.x.c.pageStart = y.info.pageStart ∧ y.x.c.pageEnd = y.info.pageEnd) ∧
      ((∃ content, (y.info, content) ∈ flatForest (buildSections cfg d)) ∨
        (y.info.title = title ∧ y.info.level = 0 ∧ y.info.path = [])) := by
  intro y hy
  unfold chunkX at hy
  obtain ⟨y0, h0, e1, _, e3, e4, e5, _, _⟩ := mem_setTotalLX _ y hy
  rw [e1, e3, e4, e5]
  split at h0
  · obtain ⟨t1, t2, t3, t4⟩ := chunkByParagraphsX_info cfg title d y0 h0
    exact ⟨t4, Or.inr ⟨t1, t2, t3⟩⟩
  · rw [flatForestM_eq] at h0
    obtain ⟨hm, hp⟩ := chunkFlatX_info cfg _ 0 y0 h0
    exact ⟨hp, Or.inl hm⟩

/-- **`SectionTitle` as a function of the chunk**: the last entry of its `SectionPath`, nothing when
the path is empty — except in the fallback (no section yields a chunk), where it is the document
title. This is `ChunkColl.layoutTitle`. -/
theorem layout_title_formula (cfg : Cfg) (title : Str) (d : LDoc) :
    ∀ y ∈ chunkX cfg title d, y.title = Tabula.ChunkColl.layoutTitle cfg title d y.x.c := by
  intro y hy
  unfold chunkX at hy
  obtain ⟨y0, h0, e1, _, e3, _, _, _, _⟩ := mem_setTotalLX _ y hy
  unfold Tabula.ChunkColl.layoutTitle LXS.title
  rw [e1, e3, chunkForest_flat, ← chunkFlatX_isEmpty, ← flatForestM_eq]
  split at h0
  · rename_i he
    rw [if_pos he]
    exact (chunkByParagraphsX_info cfg title d y0 h0).1
  · rename_i he
    rw [if_neg he]
    rw [flatForestM_eq] at h0
    obtain ⟨⟨content, hm⟩, hp, _⟩ := chunkFlatX_info cfg _ 0 y0 h0
    rw [hp]
    exact (buildSections_shape cfg d _ hm).1

/-- **A section that fits into one chunk reports its content truly**: `ElementTypes` are the types
of its elements in order of first occurrence, `HasList` holds exactly when one of them is a list,
`Level` is `ChunkLevelSection`, and the text is the elements joined by blank lines. -/
theorem section_chunk_flags (cfg : Cfg) (info : SecInfo) (content : List CE) (idx : Nat)
    (hb : (trim (content.foldl (fun acc e => joinPara acc e.text) [])).isEmpty = false)
    (hfit : lenGt (content.foldl (fun acc e => joinPara acc e.text) []) cfg.maxSize = false) :
    chunkSectionX cfg info content idx =
      [⟨createChunk cfg info (content.foldl (fun acc e => joinPara acc e.text) []) idx,
        ⟨typesOf content, anyList content, 1⟩⟩] := by
  unfold chunkSectionX
  simp only [hb, hfit, Bool.false_eq_true, if_false, Bool.not_false, if_true]
  rfl

/-- a paragraph and a list under default sizes: one section chunk, types [Paragraph, List], `HasList` -/
example :
    let cfg : Cfg := ⟨2000, 100, 3, true, [99]⟩
    let d : LDoc := [⟨1, some ⟨[⟨1, [65], []⟩], [⟨[120], false, []⟩], [⟨[(0, [121])], []⟩]⟩⟩]
    (chunkX cfg [] d).map (fun y => (y.x.m.types, y.x.m.hasList, y.x.m.level, y.title, y.headingLevel)) =
      [([ofString "Paragraph", ofString "List"], true, 1, [65], 1)] := by decide +kernel

/-- **In a split section the flags need not be true of the chunk**: maximum 12, lists atomic; the
paragraph "a:" introduces the list "- bbbbbbbbbb" (12 bytes), together 18 bytes: the atomic block
is above the maximum, neither element alone is, so both go to `currentText` without a type or a
flag — the chunk that holds the list reports no element type and `HasList == false`. -/
theorem layout_flags_counterexample :
    let cfg : Cfg := ⟨12, 0, 3, true, [99]⟩
    let d : LDoc := [⟨1, some ⟨[], [⟨[120, 120, 120, 120, 120, 120, 120, 120], false, []⟩, ⟨[97, 58], true, []⟩],
      [⟨[(0, [98, 98, 98, 98, 98, 98, 98, 98, 98, 98])], []⟩]⟩⟩]
    (chunkX cfg [] d).map (fun y => (y.x.c.text, y.x.m.types, y.x.m.hasList)) =
      [([120, 120, 120, 120, 120, 120, 120, 120], [ofString "Paragraph"], false),
       ([97, 58, 10, 10, 45, 32, 98, 98, 98, 98, 98, 98, 98, 98, 98, 98], [], false)] := by decide +kernel

end Tabula.C12LayoutMeta
