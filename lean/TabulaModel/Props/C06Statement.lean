import TabulaModel.Props.C06
import TabulaModel.Props.C06Agree
import TabulaModel.Lemmas.PdfSeq
/-!
# C06 — the statement of the property, end to end

The three sentences of the property text, each over the model of the public entry point the property names
(`core.NewParser(r).ParseObject()` called until it fails, `contentstream.NewParser(b).Parse()`), composed from
the per-mechanism theorems of `Props/C06.lean`, `C06Progress`, `C06Errors`, `C06Agree`:

1. *Writing any object tree with any legal spelling and parsing it back yields an equal tree* — for whole
   SEQUENCES of objects at top level (so also `a b R` next to `a b`, names spelled `R`, …), read by a run of
   `ParseObject` calls that then ends with `io.EOF` (`objects_roundtrip`); every well-formed object has a
   spelling, so nothing is left out.
2. *The document-level parser and the content-stream parser assign the same value to every operand both
   accept* — for every byte string (`Props/C06Agree.lean`).
3. *Operator/operand grouping of a content stream is preserved* (`cs_roundtrip`).

The only bound is the parsers' own nesting limit of 500 containers open at once (tabula fix a3fd154), as in
`Props/C06.lean`.
-/
namespace Tabula.C06Statement
open Tabula.Pdf

/-- **Sentence 1, for sequences.**  Any list of object trees, each in ANY legal spelling (`ValidList`: every
token and separator spelled legally, two regular tokens never glued), nested at most `maxNestingDepth` deep,
optionally followed by white space / comments: `ParseObject` called until it fails returns exactly the trees
written, in order, and then `io.EOF`. -/
theorem objects_roundtrip (xs : List SObj) (trail : Sep) (hv : ValidList false xs) (ht : SepOk trail)
    (hd : Obj.depthList (valueList xs) ≤ maxNestingDepth) :
    coreParseAll (renderList xs ++ renderSep trail) = (valueList xs, .eof) := by
  rw [valueList_depth xs false hv] at hd
  exact Seq.core_sequence_roundtrip xs trail hv ht hd

/-- two integers, then a reference, then the name `R`, a string, then an array at the nesting limit -/
example : ValidList false [SObj.int [] false 0 12, SObj.int [.ws 32] true 1 0,
      SObj.ref [.comment [65] [13, 10]] 7 0 [.ws 32] [.ws 10], SObj.name [] [.raw 82], SObj.lit [] [.raw 82],
      nestArr 500 (SObj.null [])] ∧
    Obj.depthList (valueList [SObj.int [] false 0 12, SObj.int [.ws 32] true 1 0,
      SObj.ref [.comment [65] [13, 10]] 7 0 [.ws 32] [.ws 10], SObj.name [] [.raw 82], SObj.lit [] [.raw 82],
      nestArr 500 (SObj.null [])]) ≤ maxNestingDepth := by
  refine ⟨⟨?_, ?_, ?_, ?_, ?_, nestArr_valid _ _ ?_, trivial⟩, ?_⟩
  · simp [SObj.Valid, SepOk]
  · simp [SObj.Valid, SepOk, SepUnit.Ok, SObj.endsRegular, isWs]
  · simp [SObj.Valid, SepOk, SepUnit.Ok, SObj.endsRegular, isWs, Tabula.A1.maxInt64]
  · simp [SObj.Valid, SepOk, NPiece.Ok, isWs, isDelim]
  · simp [SObj.Valid, SepOk, ValidStr]
  · simp [SObj.Valid, SepOk]
  · simp only [valueList, Obj.depthList, nestArr_depth, SObj.value, Obj.depth]
    decide

/-- … such an input tokenizes completely (consequence of ending with `io.EOF`), and the run needed no more
calls than there are bytes -/
theorem printed_objects_tokenize (xs : List SObj) (trail : Sep) (hv : ValidList false xs) (ht : SepOk trail)
    (hd : Obj.depthList (valueList xs) ≤ maxNestingDepth) :
    Errs.Tokenizes (renderList xs ++ renderSep trail) ∧ xs.length ≤ (renderList xs ++ renderSep trail).length := by
  have h := objects_roundtrip xs trail hv ht hd
  refine ⟨Errs.coreParseAll_eof _ (by rw [h]), ?_⟩
  have hc := Prog.coreParseAll_count (renderList xs ++ renderSep trail)
  rw [h] at hc
  have hl : (valueList xs).length = xs.length := by
    clear h hc hd hv
    induction xs with
    | nil => rfl
    | cons x xs ih => simp only [valueList, List.length_cons, ih]
  rw [← hl]
  exact hc

/-- **The property, as its text gives it.**
(1) every well-formed object tree nested at most 500 deep has a legal spelling, and in ANY legal spelling —
alone or in a sequence — it is read back as exactly that tree by `ParseObject`;
(2) on EVERY byte string, an operand both parsers accept gets one value (the reference `n g R`, which the
content-stream parser does not have, is the one object the two read differently: reference vs. its first
integer);
(3) every operator program whose operands nest at most 500 deep, in any legal spelling, is read back by
`Parse` with every operand grouped with its operator. -/
theorem c06_statement :
    (∀ o : Obj, o.WF → o.depth ≤ maxNestingDepth →
      (∃ so : SObj, so.Valid false ∧ so.value = o) ∧
      ∀ (so : SObj) (trail : Sep), so.Valid false → so.value = o → SepOk trail →
        coreParseAll (so.render ++ renderSep trail) = ([o], .eof)) ∧
    (∀ (inp : Str) (a b : Obj) (s : PState) (f2 : Nat) (r : Str),
      coreParse inp = .ok (a, s) → CS.parseOperand f2 0 inp = some (b, r) →
        (a = b ∧ s = stateAt r) ∨ (∃ n g, a = .ref n g ∧ b = .int n)) ∧
    (∀ (ops : List SOp) (trail : Sep), ValidOps false ops → SepOk trail →
      (∀ o ∈ ops, Obj.depthList (valueList o.operands) ≤ maxNestingDepth) →
        CS.csParse (renderOps ops ++ renderSep trail) =
          some (ops.map fun o => { op := o.op, operands := valueList o.operands })) := by
  refine ⟨?_, ?_, ?_⟩
  · intro o hwf hd
    refine ⟨⟨spell o, spell_valid_value o hwf false⟩, ?_⟩
    intro so trail hv hval ht
    have := objects_roundtrip [so] trail ⟨hv, trivial⟩ ht (by
      simp only [valueList, Obj.depthList, hval]; omega)
    simpa [renderList, valueList, hval] using this
  · intro inp a b s f2 r h1 h2
    exact C06Agree.parsers_agree_everywhere inp a s f2 b r h1 h2
  · intro ops trail hv ht hd
    exact Tabula.Pdf.cs_roundtrip ops trail hv ht hd

end Tabula.C06Statement
