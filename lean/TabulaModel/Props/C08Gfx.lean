import TabulaModel.Lemmas.GPath
import TabulaModel.Lemmas.GState
/-!
# C08 — the graphics extractor: paths, lines and rectangles under the CTM

`Props/C08.lean` has one statement about the graphics extractor (`gfx_cm_premultiplies`, for
one-segment paths).  This file is about the model of the whole path machinery
(`Model/GPath.lean`: path construction m l c v y h re, painting S s f F f* B B* b b* n,
rectangle detection, line extraction, bounding boxes, orientation flags, the two filters,
q Q cm w and the operand checks):

* every reported line is the image under the CTM in force when the path is PAINTED of a
  user-space segment that does not depend on the CTM; `cm` pre-multiplies for whole paths;
* every `re` that is painted (S s f F f* B B* b b*) is reported as one rectangle whose box is
  the exact bounding box of the CTM images of its four corners — for every corner, width,
  height (negative and zero included) and every CTM;
* bounding boxes are exact (contain the points, every side is attained, sizes ≥ 0);
* orientation flags under axis-parallel and quarter-turn CTMs;
* q/Q: balanced programs restore CTM and line width and never fail; `Extract` fails exactly
  when a counter of q and Q underflows, and what was collected before stays;
* the model of `Props/C08.lean` (`GState.gfx`) is the restriction of this one.

Over any commutative ring with a decidable order; the order statements over any linearly
ordered commutative ring.
-/
namespace Tabula.C08Gfx
open Tabula Tabula.Matrix Tabula.GPath Tabula.XDoc

variable {α : Type}

/-! ## lines go through the CTM -/

section
variable [Lean.Grind.CommRing α] [DecidableEq α] [LT α] [DecidableLT α]

/-- a reported line: both end points through the CTM, the current line width -/
theorem line_endpoints_through_ctm (ctm : Matrix α) (lw : α) (a b : Pt α) :
    (createLine ctm lw a b).p0 = ctm.transformPoint a ∧ (createLine ctm lw a b).p1 = ctm.transformPoint b ∧
      (createLine ctm lw a b).width = lw := ⟨rfl, rfl, rfl⟩

/-- **cm pre-multiplies, for a line with everything derived from it** (flags, box): under
`M × C` a segment is reported exactly as its image under `M` is reported under `C` -/
theorem line_cm_premultiplies (M C : Matrix α) (lw : α) (a b : Pt α) :
    createLine (M.mul C) lw a b = createLine C lw (M.transformPoint a) (M.transformPoint b) :=
  createLine_mul M C lw a b

/-- **the lines of a stroked path**: `extractLineSegments` reports, in order, the CTM images
of the user-space segments of the path — consecutive points, a curve as its chord, a
`closepath` as the segment back to the start of the subpath unless that is shorter than 0.1
in both coordinates — and which segments there are does not depend on the CTM. -/
theorem stroke_lines_through_ctm (ctm : Matrix α) (lw : α) (segs : List (Seg α)) (cur start : Pt α) :
    lineSegments ctm lw segs cur start =
      (userSegments segs cur start).map fun pq => createLine ctm lw pq.1 pq.2 :=
  lineSegments_eq_map ctm lw segs cur start

/-- **cm pre-multiplies, for whole paths**: stroking a path under `M × C` reports the lines
that stroking its image under `M` reports under `C` -/
theorem stroke_cm_premultiplies (M C : Matrix α) (lw : α) (segs : List (Seg α)) (cur start : Pt α) :
    lineSegments (M.mul C) lw segs cur start =
      (userSegments segs cur start).map fun pq =>
        createLine C lw (M.transformPoint pq.1) (M.transformPoint pq.2) := by
  rw [lineSegments_eq_map]
  simp only [createLine_mul]

/-- `cm` changes the CTM by pre-multiplication and nothing else: not the path under
construction, not what has been collected, not the stack -/
theorem cm_premultiplies_gfx (M : Matrix α) (s : PState α) :
    ∃ s', step (.cm M) s = some s' ∧ (∀ p, s'.gs.ctm.transformPoint p = s.gs.ctm.transformPoint (M.transformPoint p)) ∧
      s'.gs.lw = s.gs.lw ∧ s'.path = s.path ∧ s'.lines = s.lines ∧ s'.rects = s.rects ∧ s'.stack = s.stack :=
  ⟨_, rfl, fun p => transformPoint_mul M s.gs.ctm p, rfl, rfl, rfl, rfl, rfl⟩

/-- the painting operators -/
def Paints : POp α → Prop
  | .S | .s | .f | .B | .b | .n => True
  | _ => False

theorem paint_path (stroked filled : Bool) (s : PState α) :
    (paint stroked filled s).path = s.path.clear ∧ (paint stroked filled s).gs = s.gs ∧
      (paint stroked filled s).stack = s.stack := by
  unfold paint
  split
  · exact ⟨rfl, rfl, rfl⟩
  · split
    · exact ⟨rfl, rfl, rfl⟩
    · split <;> exact ⟨rfl, rfl, rfl⟩

/-- **every painting operator ends the path**: afterwards the path is empty and has no
current point (so the next `l` starts a new subpath), whatever was or was not reported; the
graphics state and the stack are untouched -/
theorem paint_ends_path (op : POp α) (hop : Paints op) (s : PState α) :
    ∃ s', step op s = some s' ∧ s'.path.segs = [] ∧ s'.path.has = false ∧ s'.gs = s.gs ∧ s'.stack = s.stack := by
  cases op <;> simp only [Paints] at hop <;> simp only [step] <;>
    first
    | exact ⟨_, rfl, rfl, rfl, rfl, rfl⟩
    | (refine ⟨_, rfl, ?_, ?_, ?_, ?_⟩ <;> simp [paint_path, Path.clear, onPath])

/-- `n` reports nothing -/
theorem n_reports_nothing (s : PState α) :
    ∃ s', step .n s = some s' ∧ s'.lines = s.lines ∧ s'.rects = s.rects := ⟨_, rfl, rfl, rfl⟩

/-- the CTM that counts is the one in force when the path is painted (ISO 32000-1 8.5.2.1
transforms at construction time and forbids `cm` inside a path object, so conforming content
cannot tell): `0 0 m 10 0 l 2 0 0 2 0 0 cm S` reports (0,0)–(20,0) -/
example : ((run [.m 0 0, .l 10 0, .cm ⟨2, 0, 0, 2, 0, 0⟩, .S] (init : PState Int)).1.lines.map
    fun l => (l.p0, l.p1)) = [((0, 0), (20, 0))] := by decide

/-! ## q and Q -/

/-- the operators that are neither `q` nor `Q` -/
def Plain : POp α → Prop
  | .q | .Q => False
  | _ => True

theorem step_plain (op : POp α) (hp : Plain op) (s : PState α) :
    ∃ s', step op s = some s' ∧ s'.stack = s.stack := by
  cases op <;> simp only [Plain] at hp <;> simp only [step] <;>
    first
    | exact ⟨_, rfl, rfl⟩
    | exact ⟨_, rfl, (paint_path _ _ _).2.2⟩

theorem run_append (a b : List (POp α)) (s : PState α) :
    run (a ++ b) s = if (run a s).2 then run a s else run b (run a s).1 := by
  induction a generalizing s with
  | nil => simp [run]
  | cons op rest ih =>
    cases hst : step op s with
    | none => simp [run, hst]
    | some s' =>
      simp only [List.cons_append, run, hst]
      exact ih s'

/-- the counter `Extract` fails on: the number of states saved and not yet restored -/
def underflows : List (POp α) → Nat → Bool
  | [], _ => false
  | .q :: rest, d => underflows rest (d + 1)
  | .Q :: rest, 0 => true
  | .Q :: rest, d + 1 => underflows rest d
  | _ :: rest, d => underflows rest d

/-- **`Extract` fails exactly when the q/Q counter underflows**: for every operation
sequence (paths, painting, anything in between) and every extractor state, the error
"graphics state stack underflow" is raised iff, counting up at every `q` and down at every
`Q` from the current stack depth, a `Q` meets the count 0 -/
theorem run_fails_iff_counter (ops : List (POp α)) (s : PState α) :
    (run ops s).2 = underflows ops s.stack.length := by
  induction ops generalizing s with
  | nil => rfl
  | cons op rest ih =>
    by_cases hp : Plain op
    · obtain ⟨s', h1, h2⟩ := step_plain op hp s
      have hu : underflows (op :: rest) s.stack.length = underflows rest s.stack.length := by
        cases op <;> first | rfl | exact hp.elim
      rw [run, h1, hu, ih, h2]
    · cases op <;> simp only [Plain, not_true_eq_false, not_false_eq_true] at hp
      · simp only [run, step, underflows]
        rw [ih]; rfl
      · cases hst : s.stack with
        | nil => simp [run, step, hst, underflows]
        | cons g rest' =>
          simp only [run, step, hst, underflows, List.length_cons]
          rw [ih]

/-- **what was collected before the error stays**: when `Extract` fails, the operations
split at a `Q` that found the stack empty; the extractor is in the state the operations
before that `Q` left, with every line and rectangle reported so far -/
theorem run_error_keeps_prefix (ops : List (POp α)) (s : PState α) (h : (run ops s).2 = true) :
    ∃ a b, ops = a ++ POp.Q :: b ∧ run a s = ((run ops s).1, false) ∧ (run ops s).1.stack = [] := by
  induction ops generalizing s with
  | nil => simp [run] at h
  | cons op rest ih =>
    cases hstep : step op s with
    | none =>
      have hQ : op = POp.Q ∧ s.stack = [] := by
        cases op <;> simp only [step] at hstep <;> try (exact absurd hstep (by simp))
        cases hst : s.stack with
        | nil => exact ⟨rfl, rfl⟩
        | cons g r => rw [hst] at hstep; simp at hstep
      obtain ⟨rfl, hst⟩ := hQ
      refine ⟨[], rest, rfl, ?_, ?_⟩ <;> simp [run, hstep, hst]
    | some s' =>
      have hr : run (op :: rest) s = run rest s' := by simp [run, hstep]
      rw [hr] at h ⊢
      obtain ⟨a, b, h1, h2, h3⟩ := ih s' h
      refine ⟨op :: a, b, by rw [h1]; rfl, ?_, h3⟩
      simp [run, hstep, h2]

/-- balanced sequences: every `Q` closes a `q` of the same sequence -/
inductive Balanced : List (POp α) → Prop where
  | nil : Balanced []
  | plain (op : POp α) (rest : List (POp α)) : Plain op → Balanced rest → Balanced (op :: rest)
  | qQ (body rest : List (POp α)) : Balanced body → Balanced rest →
      Balanced (POp.q :: (body ++ POp.Q :: rest))

theorem balanced_run {ops : List (POp α)} (hb : Balanced ops) :
    ∀ s : PState α, (run ops s).2 = false ∧ (run ops s).1.stack = s.stack := by
  induction hb with
  | nil => intro s; exact ⟨rfl, rfl⟩
  | plain op rest hp _ ih =>
    intro s
    obtain ⟨s', h1, h2⟩ := step_plain op hp s
    simp only [run, h1]
    rw [← h2]; exact ih s'
  | qQ body rest _ _ ihb ihr =>
    intro s
    obtain ⟨b1, b2⟩ := ihb { s with stack := s.gs :: s.stack }
    have hq : run (POp.q :: (body ++ POp.Q :: rest)) s = run (body ++ POp.Q :: rest) { s with stack := s.gs :: s.stack } := rfl
    rw [hq, run_append, b1]
    simp only [Bool.false_eq_true, if_false]
    have hQ : step POp.Q (run body { s with stack := s.gs :: s.stack }).1
        = some { (run body { s with stack := s.gs :: s.stack }).1 with gs := s.gs, stack := s.stack } := by
      simp only [step, b2]
    simp only [run, hQ]
    exact ihr _

/-- **q … Q restores the graphics state exactly**: for every balanced operation sequence
`ops` (nested q/Q, cm, w, paths and painting in any order), `q ops Q` does not fail and ends
with the CTM, the line width and the stack it started with.  (The path under construction
and what was collected are not part of the graphics state: they are what `ops` made them.) -/
theorem qQ_restores_gfx (ops : List (POp α)) (hb : Balanced ops) (s : PState α) :
    let r := run (POp.q :: (ops ++ [POp.Q])) s
    r.2 = false ∧ r.1.gs = s.gs ∧ r.1.stack = s.stack ∧
      r.1.path = (run ops { s with stack := s.gs :: s.stack }).1.path ∧
      r.1.lines = (run ops { s with stack := s.gs :: s.stack }).1.lines ∧
      r.1.rects = (run ops { s with stack := s.gs :: s.stack }).1.rects := by
  intro r
  obtain ⟨b1, b2⟩ := balanced_run hb { s with stack := s.gs :: s.stack }
  have hr : r = ({ (run ops { s with stack := s.gs :: s.stack }).1 with gs := s.gs, stack := s.stack }, false) := by
    show run (POp.q :: (ops ++ [POp.Q])) s = _
    have hq : run (POp.q :: (ops ++ [POp.Q])) s = run (ops ++ [POp.Q]) { s with stack := s.gs :: s.stack } := rfl
    rw [hq, run_append, b1]
    simp only [Bool.false_eq_true, if_false, run, step, b2]
  rw [hr]
  exact ⟨rfl, rfl, rfl, rfl, rfl, rfl⟩

/-- the hypothesis is satisfiable by a non-trivial sequence: a table cell border drawn under
a scaled CTM inside q/Q, nested once more -/
example : Balanced ([.w 2, .q, .cm ⟨2, 0, 0, 2, 10, 10⟩, .re 0 0 50 20, .S, .q, .cm ⟨0, 1, -1, 0, 0, 0⟩, .m 0 0, .l 5 0, .S, .Q, .Q,
    .m 1 1, .l 2 2, .S] : List (POp Int)) :=
  .plain _ _ trivial (.qQ [.cm ⟨2, 0, 0, 2, 10, 10⟩, .re 0 0 50 20, .S, .q, .cm ⟨0, 1, -1, 0, 0, 0⟩, .m 0 0, .l 5 0, .S, .Q] _
    (.plain _ _ trivial (.plain _ _ trivial (.plain _ _ trivial
      (.qQ [.cm ⟨0, 1, -1, 0, 0, 0⟩, .m 0 0, .l 5 0, .S] []
        (.plain _ _ trivial (.plain _ _ trivial (.plain _ _ trivial (.plain _ _ trivial .nil)))) .nil))))
    (.plain _ _ trivial (.plain _ _ trivial (.plain _ _ trivial .nil))))

/-! ## the model of `Props/C08.lean` is the restriction of this one -/

/-- the operations `GraphicsExtractor` sees of a program of `Model/GState.lean`: a `line`
is `m l S`; the text operators and `Do` have no case in its `switch` -/
def toPath : List (GState.Op α) → List (POp α)
  | [] => []
  | .q :: rest => .q :: toPath rest
  | .Q :: rest => .Q :: toPath rest
  | .cm m :: rest => .cm m :: toPath rest
  | .line x0 y0 x1 y1 :: rest => .m x0 y0 :: .l x1 y1 :: .S :: toPath rest
  | _ :: rest => toPath rest

def lineSeg (l : Line α) : GState.Seg α := ⟨l.p0.1, l.p0.2, l.p1.1, l.p1.2⟩

/-- the two states describe the same extractor -/
def Agree (s : GState.State α) (ps : PState α) : Prop :=
  ps.gs.ctm = s.cur.ctm ∧ ps.stack.map (·.ctm) = s.stack.map (·.ctm) ∧ ps.path.segs = []

/-- the extractor after `x0 y0 m x1 y1 l S` on an empty path -/
def afterLine (ps : PState α) (x0 y0 x1 y1 : α) : PState α :=
  { ps with path := (((ps.path.moveTo (x0, y0)).lineTo (x1, y1))).clear,
            lines := ps.lines ++ [createLine ps.gs.ctm ps.gs.lw (x0, y0) (x1, y1)] }

theorem one_line (x0 y0 x1 y1 : α) (ps : PState α) (hp : ps.path.segs = []) :
    run [.m x0 y0, .l x1 y1, .S] ps = (afterLine ps x0 y0 x1 y1, false) := by
  simp [run, step, onPath, Path.moveTo, Path.lineTo, paint, hp, detectRectangle, lineSegments, Path.clear,
    afterLine]

/-- **gfx_refines**: on every program of `Model/GState.lean` (any q/Q/cm/line sequence, any
other operators in between) the line end points of this model are those of `GState.gfx`,
and both fail together -/
theorem gfx_refines (ops : List (GState.Op α)) (s : GState.State α) (ps : PState α) (h : Agree s ps) :
    match GState.gfx ops s with
    | none => (run (toPath ops) ps).2 = true
    | some segs => (run (toPath ops) ps).2 = false ∧
        (run (toPath ops) ps).1.lines.map lineSeg = ps.lines.map lineSeg ++ segs := by
  induction ops generalizing s ps with
  | nil => simp [GState.gfx, toPath, run]
  | cons op rest ih =>
    obtain ⟨h1, h2, h3⟩ := h
    cases op with
    | q =>
      have := ih s.save { ps with stack := ps.gs :: ps.stack } ⟨h1, by simp [GState.State.save, h1, h2], h3⟩
      simpa [GState.gfx, toPath, run, step] using this
    | Q =>
      cases hst : s.stack with
      | nil =>
        have hps : ps.stack = [] := by
          rw [hst] at h2; simpa using h2
        simp [GState.gfx, GState.State.restore, hst, toPath, run, step, hps]
      | cons f fs =>
        rw [hst] at h2
        cases hps : ps.stack with
        | nil => rw [hps] at h2; simp at h2
        | cons g gs =>
          rw [hps] at h2
          simp only [List.map_cons, List.cons.injEq] at h2
          have := ih { s with cur := f, stack := fs } { ps with gs := g, stack := gs } ⟨h2.1, h2.2, h3⟩
          simpa [GState.gfx, GState.State.restore, hst, toPath, run, step, hps] using this
    | cm m =>
      have := ih (s.transform m) { ps with gs := { ps.gs with ctm := m.mul ps.gs.ctm } }
        ⟨by simp [GState.State.transform, h1], h2, h3⟩
      simpa [GState.gfx, toPath, run, step] using this
    | line x0 y0 x1 y1 =>
      have hrun : run (toPath (GState.Op.line x0 y0 x1 y1 :: rest)) ps
          = run (toPath rest) (afterLine ps x0 y0 x1 y1) := by
        have : toPath (GState.Op.line x0 y0 x1 y1 :: rest) = [.m x0 y0, .l x1 y1, .S] ++ toPath rest := rfl
        rw [this, run_append, one_line x0 y0 x1 y1 ps h3]
        simp
      have := ih s (afterLine ps x0 y0 x1 y1) ⟨h1, h2, rfl⟩
      rw [hrun]
      simp only [GState.gfx]
      cases hg : GState.gfx rest s with
      | none => rw [hg] at this; simpa using this
      | some segs =>
        rw [hg] at this
        simp only [Option.map_some]
        refine ⟨this.1, ?_⟩
        rw [this.2]
        simp [lineSeg, createLine, h1, afterLine]
    | _ =>
      have := ih s ps ⟨h1, h2, h3⟩
      simpa [GState.gfx, toPath] using this

/-- the two models start in agreeing states -/
example : Agree (GState.init : GState.State Int) (init : PState Int) := ⟨rfl, rfl, rfl⟩

end

/-! ## rectangles and bounding boxes (linearly ordered rings) -/

section
variable [Lean.Grind.CommRing α] [DecidableEq α] [LE α] [LT α] [DecidableLT α]
  [Std.IsLinearOrder α] [Std.LawfulOrderLT α] [Lean.Grind.OrderedRing α]

/-- the five operators that paint (everything but `n`), with their two flags -/
def paintFlags : POp α → Option (Bool × Bool)
  | .S | .s => some (true, false)
  | .f => some (false, true)
  | .B | .b => some (true, true)
  | _ => none

/-- **every painted `re` is reported as one rectangle**: for every corner `(x,y)`, every
width and height (negative and zero included), every CTM and each of S s f F f* B B* b b*,
`x y w h re` on an empty path followed by the painting operator appends exactly one
rectangle — its box is the bounding box of the CTM images of the four corners, its flags
are the operator's, its stroke width is the current line width when stroked — reports no
line, and ends the path. -/
theorem re_reported (x y w h : α) (op : POp α) (fl : Bool × Bool) (hop : paintFlags op = some fl)
    (s : PState α) (hs : s.path.segs = []) :
    ∃ s', run [.re x y w h, op] s = (s', false) ∧ s'.lines = s.lines ∧
      s'.rects = s.rects ++
        [{ bbox := boundingBox ([(x, y), (x + w, y), (x + w, y + h), (x, y + h)].map s.gs.ctm.transformPoint),
           strokeWidth := if fl.1 then s.gs.lw else 0, filled := fl.2, stroked := fl.1 }] ∧
      s'.path.segs = [] ∧ s'.path.has = false ∧ s'.gs = s.gs ∧ s'.stack = s.stack := by
  have hrect := isRectangle_axis x y w h
  cases op <;> simp only [paintFlags, Option.some.injEq, reduceCtorEq] at hop <;> subst hop <;>
    simp [run, step, onPath, Path.rectangle, Path.moveTo, Path.lineTo, Path.closePath, paint, hs,
      detectRectangle, cornersOf, hrect, Path.clear]

/-- **every rectangle drawn as a closed polygon is reported as one rectangle**, in any
orientation: `p m  p+u l  p+u+v l  p+v l  h` with orthogonal `u`, `v` (any lengths), painted
by S, f or B on an empty path, appends exactly one rectangle — the bounding box of the CTM
images of the four corners — and no line. -/
theorem rectangle_polygon_reported (p u v : Pt α) (horth : u.1 * v.1 + u.2 * v.2 = 0) (op : POp α)
    (fl : Bool × Bool) (hop : op = .S ∧ fl = (true, false) ∨ op = .f ∧ fl = (false, true) ∨ op = .B ∧ fl = (true, true))
    (s : PState α) (hs : s.path.segs = []) :
    ∃ s', run [.m p.1 p.2, .l (p.1 + u.1) (p.2 + u.2), .l (p.1 + u.1 + v.1) (p.2 + u.2 + v.2),
        .l (p.1 + v.1) (p.2 + v.2), .h, op] s = (s', false) ∧ s'.lines = s.lines ∧
      s'.rects = s.rects ++
        [{ bbox := boundingBox ([p, (p.1 + u.1, p.2 + u.2), (p.1 + u.1 + v.1, p.2 + u.2 + v.2), (p.1 + v.1, p.2 + v.2)].map
              s.gs.ctm.transformPoint),
           strokeWidth := if fl.1 then s.gs.lw else 0, filled := fl.2, stroked := fl.1 }] := by
  have hrect := isRectangle_of_orthogonal p u v horth
  rcases hop with ⟨rfl, rfl⟩ | ⟨rfl, rfl⟩ | ⟨rfl, rfl⟩ <;>
    simp [run, step, onPath, Path.moveTo, Path.lineTo, Path.closePath, paint, hs,
      detectRectangle, cornersOf, hrect, Path.clear]

/-- the hypotheses are satisfiable: a 5 × 10 rectangle turned by atan(4/3) under a scaling
CTM; its box is the box of the four images -/
example : (3 : Int) * (-8) + 4 * 6 = 0 ∧
    (run [.cm ⟨2, 0, 0, 2, 0, 0⟩, .m 10 10, .l 13 14, .l 5 20, .l 2 16, .h, .B] (init : PState Int)).1.rects.map (·.bbox)
      = [⟨4, 20, 22, 20⟩] := by decide

/-- **bounding boxes are exact**: the box `boundingBoxFromPoints` computes contains every
point, each of its four sides passes through one of the points, and its sizes are not
negative -/
theorem boundingBox_exact (p : Pt α) (rest : List (Pt α)) :
    let bb := boundingBox (p :: rest)
    (∀ q ∈ p :: rest, bb.x ≤ q.1 ∧ q.1 ≤ bb.x + bb.w ∧ bb.y ≤ q.2 ∧ q.2 ≤ bb.y + bb.h) ∧
      (∃ q ∈ p :: rest, bb.x = q.1) ∧ (∃ q ∈ p :: rest, bb.x + bb.w = q.1) ∧
      (∃ q ∈ p :: rest, bb.y = q.2) ∧ (∃ q ∈ p :: rest, bb.y + bb.h = q.2) ∧ 0 ≤ bb.w ∧ 0 ≤ bb.h := by
  simp only [boundingBox, bboxLoop_eq]
  obtain ⟨a1, a2, a3⟩ := minL_spec (rest.map (·.1)) p.1
  obtain ⟨b1, b2, b3⟩ := maxL_spec (rest.map (·.1)) p.1
  obtain ⟨c1, c2, c3⟩ := minL_spec (rest.map (·.2)) p.2
  obtain ⟨d1, d2, d3⟩ := maxL_spec (rest.map (·.2)) p.2
  have ex : ∀ (f : Pt α → α) (v : α), (v = f p ∨ v ∈ rest.map f) → ∃ q ∈ p :: rest, v = f q := by
    intro f v hv
    rcases hv with h | h
    · exact ⟨p, List.mem_cons_self, h⟩
    · obtain ⟨q, hq, hqv⟩ := List.mem_map.mp h
      exact ⟨q, List.mem_cons_of_mem _ hq, hqv.symm⟩
  have hw : minL (rest.map (·.1)) p.1 + (maxL (rest.map (·.1)) p.1 - minL (rest.map (·.1)) p.1)
      = maxL (rest.map (·.1)) p.1 := by grind
  have hh : minL (rest.map (·.2)) p.2 + (maxL (rest.map (·.2)) p.2 - minL (rest.map (·.2)) p.2)
      = maxL (rest.map (·.2)) p.2 := by grind
  refine ⟨?_, ex (·.1) _ a3, ?_, ex (·.2) _ c3, ?_, by grind, by grind⟩
  · intro q hq
    rw [hw, hh]
    rcases List.mem_cons.mp hq with rfl | hm
    · exact ⟨a1, b1, c1, d1⟩
    · exact ⟨a2 _ (List.mem_map_of_mem hm), b2 _ (List.mem_map_of_mem hm),
        c2 _ (List.mem_map_of_mem hm), d2 _ (List.mem_map_of_mem hm)⟩
  · rw [hw]; exact ex (·.1) _ b3
  · rw [hh]; exact ex (·.2) _ d3

/-- the box of a reported line is the exact bounding box of its two end points -/
theorem line_bbox_exact (ctm : Matrix α) (lw : α) (a b : Pt α) :
    let l := createLine ctm lw a b
    l.bbox.x ≤ l.p0.1 ∧ l.bbox.x ≤ l.p1.1 ∧ l.p0.1 ≤ l.bbox.x + l.bbox.w ∧ l.p1.1 ≤ l.bbox.x + l.bbox.w ∧
      l.bbox.y ≤ l.p0.2 ∧ l.bbox.y ≤ l.p1.2 ∧ l.p0.2 ≤ l.bbox.y + l.bbox.h ∧ l.p1.2 ≤ l.bbox.y + l.bbox.h ∧
      (l.bbox.x = l.p0.1 ∨ l.bbox.x = l.p1.1) ∧ (l.bbox.y = l.p0.2 ∨ l.bbox.y = l.p1.2) ∧
      0 ≤ l.bbox.w ∧ 0 ≤ l.bbox.h := by
  simp only [createLine]
  obtain ⟨m1, m2, m3⟩ := min2_le (ctm.transformPoint a).1 (ctm.transformPoint b).1
  obtain ⟨n1, n2, n3⟩ := le_max2 (ctm.transformPoint a).1 (ctm.transformPoint b).1
  obtain ⟨o1, o2, o3⟩ := min2_le (ctm.transformPoint a).2 (ctm.transformPoint b).2
  obtain ⟨p1, p2, p3⟩ := le_max2 (ctm.transformPoint a).2 (ctm.transformPoint b).2
  refine ⟨m1, m2, ?_, ?_, o1, o2, ?_, ?_, m3, o3, ?_, ?_⟩ <;> grind

/-- **orientation under an axis-parallel CTM** (`b = 0`: scales, mirrors, translations): a
user-space horizontal segment is reported horizontal; (`c = 0`) a vertical one vertical -/
theorem horizontal_kept (ctm : Matrix α) (lw : α) (a b : Pt α) (hb : ctm.b = 0) (hy : a.2 = b.2) :
    (createLine ctm lw a b).horiz = true := by
  have hd : (ctm.transformPoint b).2 - (ctm.transformPoint a).2 = 0 := by
    simp only [transformPoint, hb, hy]; grind
  simp only [createLine, hd, GPath.abs, decide_eq_true_eq]
  split <;> grind

theorem vertical_kept (ctm : Matrix α) (lw : α) (a b : Pt α) (hc : ctm.c = 0) (hx : a.1 = b.1) :
    (createLine ctm lw a b).vert = true := by
  have hd : (ctm.transformPoint b).1 - (ctm.transformPoint a).1 = 0 := by
    simp only [transformPoint, hc, hx]; grind
  simp only [createLine, hd, GPath.abs, decide_eq_true_eq]
  split <;> grind

/-- **orientation under a quarter turn** (`a = 0`, e.g. a page rotated by 90°): a user-space
horizontal segment is reported vertical; (`d = 0`) a vertical one horizontal -/
theorem horizontal_turns_vertical (ctm : Matrix α) (lw : α) (a b : Pt α) (ha : ctm.a = 0) (hy : a.2 = b.2) :
    (createLine ctm lw a b).vert = true := by
  have hd : (ctm.transformPoint b).1 - (ctm.transformPoint a).1 = 0 := by
    simp only [transformPoint, ha, hy]; grind
  simp only [createLine, hd, GPath.abs, decide_eq_true_eq]
  split <;> grind

theorem vertical_turns_horizontal (ctm : Matrix α) (lw : α) (a b : Pt α) (hd' : ctm.d = 0) (hx : a.1 = b.1) :
    (createLine ctm lw a b).horiz = true := by
  have hd : (ctm.transformPoint b).2 - (ctm.transformPoint a).2 = 0 := by
    simp only [transformPoint, hd', hx]; grind
  simp only [createLine, hd, GPath.abs, decide_eq_true_eq]
  split <;> grind

/-- a table cell under `2 0 0 2 10 10 cm`: one rectangle (20,30)–(120,70); the same path
written as m l l l h is the same rectangle — and so is the open path m l l l (three sides at
right angles: `detectRectangle` does not ask for the closing side); a path with another
angle is reported line by line -/
example : (run [.cm ⟨2, 0, 0, 2, 10, 10⟩, .re 5 10 50 20, .S] (init : PState Int)).1.rects.map (·.bbox)
      = [⟨20, 30, 100, 40⟩] ∧
    (run [.cm ⟨2, 0, 0, 2, 10, 10⟩, .m 5 10, .l 55 10, .l 55 30, .l 5 30, .h, .B] (init : PState Int)).1.rects.map (·.bbox)
      = [⟨20, 30, 100, 40⟩] ∧
    ((run [.m 5 10, .l 55 10, .l 55 30, .l 5 30, .S] (init : PState Int)).1.lines.length = 0 ∧
      (run [.m 5 10, .l 55 10, .l 55 30, .l 5 30, .S] (init : PState Int)).1.rects.length = 1) ∧
    (run [.m 0 0, .l 10 0, .l 20 10, .l 0 30, .S] (init : PState Int)).1.lines.length = 3 := by
  decide

end

/-! ## the two filters and the operand checks -/

section
variable [Lean.Grind.CommRing α] [DecidableEq α] [LT α] [DecidableLT α]

/-- `GetFilteredLines` keeps, in order, exactly the lines whose squared length is at least
the squared minimum -/
theorem filterLines_spec (min : α) (ls : List (Line α)) (l : Line α) :
    l ∈ filterLines min ls ↔ l ∈ ls ∧
      ¬ ((l.p1.1 - l.p0.1) * (l.p1.1 - l.p0.1) + (l.p1.2 - l.p0.2) * (l.p1.2 - l.p0.2) < min * min) := by
  simp [filterLines, List.mem_filter]

theorem filterRects_spec (minW minH : α) (rs : List (Rect α)) (r : Rect α) :
    r ∈ filterRects minW minH rs ↔ r ∈ rs ∧ ¬ (r.bbox.w < minW) ∧ ¬ (r.bbox.h < minH) := by
  simp [filterRects, List.mem_filter]

omit [DecidableEq α] [LT α] [DecidableLT α] in
/-- the alternative spellings of the painting operators are the same operators -/
theorem decode_paint_aliases (xs : List (Operand α)) :
    decodeG ⟨.F, xs⟩ = decodeG ⟨.f, xs⟩ ∧ decodeG ⟨.fstar, xs⟩ = decodeG ⟨.f, xs⟩ ∧
      decodeG ⟨.Bstar, xs⟩ = decodeG ⟨.B, xs⟩ ∧ decodeG ⟨.bstar, xs⟩ = decodeG ⟨.b, xs⟩ :=
  ⟨rfl, rfl, rfl, rfl⟩

omit [DecidableEq α] [LT α] [DecidableLT α] in
/-- a path construction operation with the wrong number of operands is skipped -/
theorem decode_path_arity (o : GOpr) (xs : List (Operand α))
    (h : (o = .m ∨ o = .l) ∧ xs.length ≠ 2 ∨ (o = .v ∨ o = .y ∨ o = .re) ∧ xs.length ≠ 4 ∨
      (o = .c ∨ o = .cm) ∧ xs.length ≠ 6) : decodeG ⟨o, xs⟩ = [] := by
  rcases h with ⟨ho, hn⟩ | ⟨ho, hn⟩ | ⟨ho, hn⟩
  · rcases ho with rfl | rfl <;> unfold decodeG <;> split <;> simp_all
  · rcases ho with rfl | rfl | rfl <;> unfold decodeG <;> split <;> simp_all
  · rcases ho with rfl | rfl <;> unfold decodeG <;> split <;> simp_all

omit [DecidableEq α] [LT α] [DecidableLT α] in
/-- with the right number of operands one that is not a number reads as 0 -/
theorem decode_re_four (a b c d : Operand α) :
    decodeG ⟨.re, [a, b, c, d]⟩ = [.re (toFloatD a) (toFloatD b) (toFloatD c) (toFloatD d)] := rfl

end
end Tabula.C08Gfx
