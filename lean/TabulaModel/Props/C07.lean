import TabulaModel.Model.FontDecode
import TabulaModel.Model.EncodingRef
import TabulaModel.Lemmas.Encoding
import TabulaModel.Lemmas.UTF16
import TabulaModel.Lemmas.CMap
import TabulaModel.Lemmas.CMapRoundtrip
import TabulaModel.Lemmas.Differences
/-!
# C07 — Character codes decode to the Unicode the font specifies
-/
namespace Tabula.C07
open Tabula.Gen.Encodings Tabula.UTF16 Tabula.Encoding Tabula.CMap Tabula.FontDecode

/-! ## 1. The six tables against the independent references

The tables on the left are `Tabula.Gen.Encodings.*`, regenerated from font/encoding.go on
every check run, so each theorem is re-checked against the source as it is now. The
references (`Model/EncodingRef.lean`) are typed independently from ISO 32000-1 Annex D. -/

/-- the reference defines byte `b` (Annex D assigns a glyph to the code) -/
def refDefined (ref : Array (List Nat)) (b : Fin 256) : Prop :=
  ∃ allowed, ref[b.val]? = some allowed ∧ allowed ≠ []

/-- the values the reference allows at byte `b` -/
def refAllowed (ref : Array (List Nat)) (b : Fin 256) : List Nat := (ref[b.val]?).getD []

/-- `∀ b : Fin 256, refDefined e b → Gen.table e b ∈ refAllowed e b` -/
def TableOK (t : Array Nat) (ref : Array (List Nat)) : Prop :=
  ∀ b : Fin 256, refDefined ref b → ∃ v, t[b.val]? = some v ∧ v ∈ refAllowed ref b

theorem tableOK_of_check (t : Array Nat) (ref : Array (List Nat))
    (h : checkAll t.toList ref.toList = true) : TableOK t ref := by
  intro b ⟨allowed, hr, hne⟩
  have hr' : ref.toList[b.val]? = some allowed := by simpa using hr
  obtain ⟨v, hv, hin⟩ := checkAll_sound t.toList ref.toList h b.val allowed hr' hne
  refine ⟨v, by simpa using hv, ?_⟩
  unfold refAllowed
  rw [hr]
  exact hin

theorem winansi_ref : TableOK winAnsiTable winAnsiRef := tableOK_of_check _ _ (by decide +kernel)
theorem macroman_ref : TableOK macRomanTable macRomanRef := tableOK_of_check _ _ (by decide +kernel)
theorem pdfdoc_ref : TableOK pdfDocTable pdfDocRef := tableOK_of_check _ _ (by decide +kernel)
theorem standard_ref : TableOK standardEncodingTableData standardRef := tableOK_of_check _ _ (by decide +kernel)
theorem symbol_ref : TableOK symbolEncodingTable symbolRef := tableOK_of_check _ _ (by decide +kernel)
theorem zapf_ref : TableOK zapfDingbatsEncodingTable zapfRef := tableOK_of_check _ _ (by decide +kernel)

/-- non-vacuity: the references define most codes (218, 208, 229, 149, 166, 188 of 256) -/
example : ((winAnsiRef.toList.filter (· ≠ [])).length, (macRomanRef.toList.filter (· ≠ [])).length,
    (pdfDocRef.toList.filter (· ≠ [])).length, (standardRef.toList.filter (· ≠ [])).length,
    (symbolRef.toList.filter (· ≠ [])).length, (zapfRef.toList.filter (· ≠ [])).length)
    = (218, 208, 229, 149, 166, 188) := by decide +kernel

/-! ## 2. UTF-16 -/

/-- `DecodeUTF16BE (UTF-16BE bytes of s) = s` for every list of Unicode scalar values,
supplementary planes included. -/
theorem utf16be_roundtrip (s : List Nat) (hs : ∀ c ∈ s, IsScalar c) :
    decodeUTF16BE (bytesBE (encodeUnits s)) = s := by
  unfold decodeUTF16BE
  rw [unitsBE_bytesBE, decodeUnits_encodeUnits s hs]

/-- `DecodeUTF16LE (UTF-16LE bytes of s) = s` -/
theorem utf16le_roundtrip (s : List Nat) (hs : ∀ c ∈ s, IsScalar c) :
    decodeUTF16LE (bytesLE (encodeUnits s)) = s := by
  unfold decodeUTF16LE
  rw [unitsLE_bytesLE, decodeUnits_encodeUnits s hs]

example : (∀ c ∈ [0x41, 0xD7FF, 0xE000, 0xFFFF, 0x10000, 0x1D400, 0x10FFFF], IsScalar c) ∧
    bytesBE (encodeUnits [0x41, 0x1D400]) = [0x00, 0x41, 0xD8, 0x35, 0xDC, 0x00] := by decide

/-! ## 3. `GetEncoding`: name dispatch (interpreted from the regenerated `switch`) -/

/-- each of the six names selects the encoding of that name with the table the Go variable
is initialised with; any other name falls to `default`, WinAnsiEncoding -/
theorem getencoding_dispatch :
    ((getEncoding (nameBytes "WinAnsiEncoding")).map fun e => (e.name, e.table.toList)) = some ("WinAnsiEncoding", winAnsiTable.toList) ∧
    ((getEncoding (nameBytes "MacRomanEncoding")).map fun e => (e.name, e.table.toList)) = some ("MacRomanEncoding", macRomanTable.toList) ∧
    ((getEncoding (nameBytes "PDFDocEncoding")).map fun e => (e.name, e.table.toList)) = some ("PDFDocEncoding", pdfDocTable.toList) ∧
    ((getEncoding (nameBytes "StandardEncoding")).map fun e => (e.name, e.table.toList)) = some ("StandardEncoding", standardEncodingTableData.toList) ∧
    ((getEncoding (nameBytes "SymbolEncoding")).map fun e => (e.name, e.table.toList)) = some ("SymbolEncoding", symbolEncodingTable.toList) ∧
    ((getEncoding (nameBytes "ZapfDingbatsEncoding")).map fun e => (e.name, e.table.toList)) = some ("ZapfDingbatsEncoding", zapfDingbatsEncodingTable.toList) ∧
    ((getEncoding (nameBytes "Identity-H")).map fun e => (e.name, e.table.toList)) = some ("WinAnsiEncoding", winAnsiTable.toList) ∧
    ((getEncoding []).map fun e => (e.name, e.table.toList)) = some ("WinAnsiEncoding", winAnsiTable.toList) := by
  decide +kernel

/-- `GetEncoding` never fails: every `case` body and the `default` resolve to a table -/
theorem getencoding_total (name : List Nat) : (getEncoding name).isSome = true := by
  have hall : ∀ c ∈ getEncodingCases, (encOfReturn c.2).isSome = true := by decide +kernel
  have hdef : (getEncodingCases.find? (fun c => c.1.contains "<default>")).map (·.2) = some "return WinAnsiEncoding" := by
    decide +kernel
  unfold getEncoding
  split
  · rename_i c hc
    exact hall c (List.mem_of_find?_eq_some hc)
  · cases hf : getEncodingCases.find? (fun c => c.1.contains "<default>") with
    | none => rw [hf] at hdef; simp at hdef
    | some c => exact hall c (List.mem_of_find?_eq_some hf)

/-- every entry of the six tables is 0 (unmapped) or a Unicode scalar value -/
theorem tables_scalar :
    allScalarOrZero winAnsiTable.toList = true ∧ allScalarOrZero macRomanTable.toList = true ∧
    allScalarOrZero pdfDocTable.toList = true ∧ allScalarOrZero standardEncodingTableData.toList = true ∧
    allScalarOrZero symbolEncodingTable.toList = true ∧ allScalarOrZero zapfDingbatsEncodingTable.toList = true := by
  decide +kernel

/-! ## 4. CMap lookup -/

/-- **lookup_semantics**: a direct (`bfchar`/array) mapping wins; otherwise the first range
that contains the code supplies the text (start + offset, or the UTF-16 target with its last
unit advanced by the offset); otherwise there is no mapping. -/
theorem lookup_semantics (cm : CMap) (c : Nat) :
    (∀ u, cm.getChar c = some u → lookup cm c = u) ∧
    (cm.getChar c = none → ∀ pre r post, cm.ranges = pre ++ r :: post →
        (∀ q ∈ pre, ¬ (q.start ≤ c ∧ c ≤ q.stop)) → (r.start ≤ c ∧ c ≤ r.stop) →
        lookup cm c = rangeText r c) ∧
    (cm.getChar c = none → (∀ q ∈ cm.ranges, ¬ (q.start ≤ c ∧ c ≤ q.stop)) → lookup cm c = []) := by
  refine ⟨?_, ?_, ?_⟩
  · intro u h; unfold lookup; rw [h]
  · intro h pre r post hr hpre hin
    unfold lookup; rw [h]; simp only
    rw [hr]
    clear hr
    induction pre with
    | nil => simp [lookupRanges, hin]
    | cons q t ih =>
      have hq := hpre q (by simp)
      simp only [List.cons_append, lookupRanges, hq, if_false]
      exact ih (fun x hx => hpre x (by simp [hx]))
  · intro h hall
    unfold lookup; rw [h]; simp only
    generalize cm.ranges = rs at hall
    induction rs with
    | nil => rfl
    | cons q t ih =>
      have hq := hall q (by simp)
      simp only [lookupRanges, hq, if_false]
      exact ih (fun x hx => hall x (by simp [hx]))

/-- offset targets: a one-unit target advances by the offset -/
theorem range_offset (r : Range) (c : Nat) (hu : r.units = []) (hc : r.start ≤ c)
    (hs : IsScalar (r.startUnicode + (c - r.start))) :
    rangeText r c = [r.startUnicode + (c - r.start)] := by
  unfold rangeText
  have h32 : r.startUnicode + (c - r.start) < 4294967296 := by unfold IsScalar at hs; omega
  simp [hu, Nat.mod_eq_of_lt h32, toRune_scalar _ hs]

/-- the code-width rule of `LookupString` -/
theorem width_rule (cm : CMap) :
    effectiveWidth cm = if 0 < cm.actualByteWidth ∧ cm.actualByteWidth < cm.byteWidth then cm.actualByteWidth else cm.byteWidth := by
  unfold effectiveWidth; rfl

example : lookup { chars := [(5, [0x41])], ranges := [⟨0, 9, 0x61, []⟩, ⟨5, 5, 0x7A, []⟩] } 5 = [0x41] ∧
    lookup { chars := [(5, [0x41])], ranges := [⟨0, 9, 0x61, []⟩, ⟨5, 5, 0x7A, []⟩] } 6 = [0x67] ∧
    lookup { ranges := [⟨1, 2, 0, [0xD835, 0xDC00]⟩, ⟨3, 4, 0, [0x66, 0x66]⟩] } 2 = [0x1D401] ∧
    lookup { ranges := [⟨1, 2, 0, [0xD835, 0xDC00]⟩, ⟨3, 4, 0, [0x66, 0x66]⟩] } 4 = [0x66, 0x67] := by decide

/-! ## 5. `Font.DecodeString`: priority and output invariant -/

/-- the data does not start with a UTF-16 byte-order mark -/
def NoBOM (data : List Nat) : Prop :=
  (∀ rest, data ≠ 0xFE :: 0xFF :: rest) ∧ (∀ rest, data ≠ 0xFF :: 0xFE :: rest)

/-- **decode_priority**: ToUnicode, else byte-order mark, else the named encoding under the
font's `/Differences` (section 5c), else the raw bytes; `nfc` is applied last on every path. -/
theorem decode_priority (nfc : List Nat → List Nat) (f : Font) (data : List Nat) :
    (∀ cm, f.toUnicode = some cm → FontDecode.decodeString nfc f data = some (nfc (lookupString cm data))) ∧
    (f.toUnicode = none → ∀ rest, data = 0xFE :: 0xFF :: rest →
        FontDecode.decodeString nfc f data = some (nfc (decodeUTF16BE rest))) ∧
    (f.toUnicode = none → ∀ rest, data = 0xFF :: 0xFE :: rest →
        FontDecode.decodeString nfc f data = some (nfc (decodeUTF16LE rest))) ∧
    (f.toUnicode = none → NoBOM data → f.encoding ≠ [] →
        FontDecode.decodeString nfc f data =
          (getEncoding f.encoding).map fun e => nfc (decodeWith f.differences e.table data)) ∧
    (f.toUnicode = none → NoBOM data → f.encoding = [] →
        FontDecode.decodeString nfc f data = some (nfc (toValidUTF8 data))) := by
  refine ⟨?_, ?_, ?_, ?_, ?_⟩
  · intro cm h; unfold FontDecode.decodeString preNFC; rw [h]; rfl
  · intro h rest hd; unfold FontDecode.decodeString preNFC; rw [h, hd]; rfl
  · intro h rest hd; unfold FontDecode.decodeString preNFC; rw [h, hd]; rfl
  · intro h hb he
    unfold FontDecode.decodeString preNFC; rw [h]; simp only
    split
    · rename_i rest; exact absurd rfl (hb.1 rest)
    · rename_i rest; exact absurd rfl (hb.2 rest)
    · simp only [he, ne_eq, not_false_eq_true, if_true, Option.map_map]
      rfl
  · intro h hb he
    unfold FontDecode.decodeString preNFC; rw [h]; simp only
    split
    · rename_i rest; exact absurd rfl (hb.1 rest)
    · rename_i rest; exact absurd rfl (hb.2 rest)
    · simp [he]

/-- ToUnicode takes precedence: with a CMap present the result depends neither on the
encoding name, nor on the `/Differences` of the `/Encoding` dictionary, nor on a byte-order
mark in the data -/
theorem tounicode_precedence (nfc : List Nat → List Nat) (cm : CMap) (enc enc' : List Nat) (ds ds' : Diffs)
    (data : List Nat) :
    FontDecode.decodeString nfc ⟨some cm, enc, ds⟩ data = FontDecode.decodeString nfc ⟨some cm, enc', ds'⟩ data ∧
    FontDecode.decodeString nfc ⟨some cm, enc, ds⟩ data = some (nfc (lookupString cm data)) := by
  exact ⟨rfl, rfl⟩

example : NoBOM [0x41, 0xFE, 0xFF] ∧ ¬ NoBOM [0xFE, 0xFF, 0x00, 0x41] := by
  refine ⟨⟨fun r h => by simp at h, fun r h => by simp at h⟩, fun h => h.1 [0x00, 0x41] rfl⟩

theorem encDecodeString_scalar (t : Array Nat) (data : List Nat) : AllScalar (Encoding.decodeString t data) := by
  intro x hx
  unfold Encoding.decodeString at hx
  obtain ⟨b, _, hb⟩ := List.mem_filterMap.mp hx
  split at hb
  · split at hb
    · simp only [Option.some.injEq] at hb; subst hb; exact toRune_isScalar _
    · simp at hb
  · simp at hb

/-- **decoded_utf8**: whatever `DecodeString` returns is a list of Unicode scalar values —
its UTF-8 encoding is valid — on every path, the raw-bytes path included (after the fix),
for any byte string, any font whose CMap came from the parser, and any normaliser that maps
scalar lists to scalar lists. -/
theorem decoded_utf8 (nfc : List Nat → List Nat) (hnfc : ∀ l, AllScalar l → AllScalar (nfc l))
    (f : Font) (hcm : ∀ cm, f.toUnicode = some cm → CharsOK cm)
    (data : List Nat) (hb : AllBytes data) (out : List Nat) (h : FontDecode.decodeString nfc f data = some out) :
    AllScalar out := by
  unfold FontDecode.decodeString at h
  cases hp : preNFC f data with
  | none => rw [hp] at h; simp at h
  | some pre =>
    rw [hp] at h
    simp only [Option.map_some, Option.some.injEq] at h
    subst h
    apply hnfc
    unfold preNFC at hp
    split at hp
    · rename_i cm hcm'
      simp only [Option.some.injEq] at hp; subst hp
      exact lookupString_scalar cm (hcm cm hcm') data
    · split at hp
      · rename_i rest
        simp only [Option.some.injEq] at hp; subst hp
        exact decodeUnits_scalar _ (unitsBE_lt rest (allBytes_tail (allBytes_tail hb)))
      · rename_i rest
        simp only [Option.some.injEq] at hp; subst hp
        exact decodeUnits_scalar _ (unitsLE_lt rest (allBytes_tail (allBytes_tail hb)))
      · split at hp
        · cases he : getEncoding f.encoding with
          | none => rw [he] at hp; simp at hp
          | some e =>
            rw [he] at hp
            simp only [Option.map_some, Option.some.injEq] at hp; subst hp
            exact Differences.decodeWith_isScalar _ _ _
        · simp only [Option.some.injEq] at hp; subst hp
          exact toValidUTF8_scalar data hb

/-- the hypothesis on the CMap holds for every parsed program -/
theorem parsed_cmap_ok (prog : List Nat) : CharsOK (parseCMapData prog) := charsOK_parse prog

/-- the font-less `showText` path returns scalars too -/
theorem nofont_utf8 (nfc : List Nat → List Nat) (hnfc : ∀ l, AllScalar l → AllScalar (nfc l))
    (data : List Nat) (hb : AllBytes data) : AllScalar (showTextNoFont nfc data) :=
  hnfc _ (toValidUTF8_scalar data hb)

/-- witnesses on which the raw path returned invalid UTF-8 before the fix (`string(data)`),
and what it returns now -/
example : toValidUTF8 [0xC3, 0x28, 0xFF] = [0xFFFD, 0x28, 0xFFFD] ∧ toValidUTF8 [0xC3, 0xA9] = [0xE9] := by decide


/-! ## 5b. composition: named encodings through `DecodeString`, string level

The six `*_ref` theorems are per byte of a table. Lifted through `(*standardEncoding).DecodeString`
(zero entries skipped, `string(rune)` replacement), `GetEncoding`'s dispatch and
`Font.DecodeString`'s priority: a font without ToUnicode whose `/Encoding` is one of the six
names decodes every string of codes the reference defines (not starting with a byte-order
mark) to one character per code, each a value the independent reference allows, NFC last. -/

/-- `s` has one element per element of `data`, related position by position -/
def Pointwise (R : Nat → Nat → Prop) : List Nat → List Nat → Prop
  | [], [] => True
  | a :: as, b :: bs => R a b ∧ Pointwise R as bs
  | _, _ => False

/-- the values the reference allows at byte value `b` -/
def allowedAt (ref : Array (List Nat)) (b : Nat) : List Nat := (ref[b]?).getD []

/-- no reference allows the value 0 (which the tables use for "unmapped") -/
theorem refs_nonzero :
    ∀ ref ∈ [winAnsiRef, macRomanRef, pdfDocRef, standardRef, symbolRef, zapfRef], ∀ l ∈ ref.toList, 0 ∉ l := by
  decide +kernel

theorem allScalarOrZero_get (t : Array Nat) (h : allScalarOrZero t.toList = true) (b v : Nat) (hv : t[b]? = some v) :
    v = 0 ∨ IsScalar v := by
  unfold allScalarOrZero at h
  rw [List.all_eq_true] at h
  have hmem : v ∈ t.toList := by
    have : t.toList[b]? = some v := by simpa using hv
    exact List.mem_of_getElem? this
  have := h v hmem
  simp only [decide_eq_true_eq] at this
  by_cases h0 : v = 0
  · exact Or.inl h0
  · exact Or.inr this

/-- `DecodeString` of a table that agrees with its reference: one allowed character per defined code -/
theorem encoding_string_ref (t : Array Nat) (ref : Array (List Nat)) (hok : TableOK t ref)
    (hsc : allScalarOrZero t.toList = true) (hnz : ∀ l ∈ ref.toList, 0 ∉ l)
    (data : List Nat) (hd : ∀ b ∈ data, b < 256 ∧ allowedAt ref b ≠ []) :
    Pointwise (fun b v => v ∈ allowedAt ref b) data (Encoding.decodeString t data) := by
  induction data with
  | nil => exact True.intro
  | cons b rest ih =>
    obtain ⟨hb, hne⟩ := hd b (by simp)
    have hdef : refDefined ref ⟨b, hb⟩ := by
      unfold allowedAt at hne
      cases hr : ref[b]? with
      | none => rw [hr] at hne; simp at hne
      | some allowed => exact ⟨allowed, hr, by rw [hr] at hne; simpa using hne⟩
    obtain ⟨v, hv, hin⟩ := hok ⟨b, hb⟩ hdef
    have hin' : v ∈ allowedAt ref b := hin
    have hv0 : v ≠ 0 := by
      intro h0
      subst h0
      unfold allowedAt at hin'
      cases hr : ref[b]? with
      | none => rw [hr] at hin'; simp at hin'
      | some allowed =>
        rw [hr] at hin'
        have hmem : allowed ∈ ref.toList := by
          have : ref.toList[b]? = some allowed := by simpa using hr
          exact List.mem_of_getElem? this
        exact hnz allowed hmem (by simpa using hin')
    have hsv : IsScalar v := by
      rcases allScalarOrZero_get t hsc b v hv with h | h
      · exact absurd h hv0
      · exact h
    have hstep : Encoding.decodeString t (b :: rest) = v :: Encoding.decodeString t rest := by
      unfold Encoding.decodeString
      simp only [List.filterMap_cons]
      have hv' : t[b]? = some v := hv
      simp only [hv', hv0, ne_eq, not_false_eq_true, if_true, toRune_scalar v hsv]
    rw [hstep]
    exact ⟨hin', ih (fun x hx => hd x (by simp [hx]))⟩

/-- the six names with the table each selects and its reference -/
def namedRefs : List (String × Array Nat × Array (List Nat)) :=
  [("WinAnsiEncoding", winAnsiTable, winAnsiRef), ("MacRomanEncoding", macRomanTable, macRomanRef),
   ("PDFDocEncoding", pdfDocTable, pdfDocRef), ("StandardEncoding", standardEncodingTableData, standardRef),
   ("SymbolEncoding", symbolEncodingTable, symbolRef), ("ZapfDingbatsEncoding", zapfDingbatsEncodingTable, zapfRef)]

theorem getEncoding_table (name : String) (tbl : Array Nat)
    (h : ((getEncoding (nameBytes name)).map fun e => (e.name, e.table.toList)) = some (name, tbl.toList)) :
    ∃ e, getEncoding (nameBytes name) = some e ∧ e.table = tbl := by
  cases hg : getEncoding (nameBytes name) with
  | none => rw [hg] at h; simp at h
  | some e =>
    rw [hg] at h
    simp only [Option.map_some, Option.some.injEq, Prod.mk.injEq] at h
    exact ⟨e, rfl, Array.toList_inj.mp h.2⟩

/-- **named encodings end to end**: `Font{Encoding: name}.DecodeString(data)` (a font without
`/Differences`) for each of the six names, every string of reference-defined codes without a
byte-order mark -/
theorem font_named_encoding_ref (nfc : List Nat → List Nat) (name : String) (tbl : Array Nat) (ref : Array (List Nat))
    (hmem : (name, tbl, ref) ∈ namedRefs) (data : List Nat) (hnb : NoBOM data)
    (hd : ∀ b ∈ data, b < 256 ∧ allowedAt ref b ≠ []) :
    ∃ s, FontDecode.decodeString nfc ⟨none, nameBytes name, []⟩ data = some (nfc s) ∧
      Pointwise (fun b v => v ∈ allowedAt ref b) data s := by
  have hdisp := getencoding_dispatch
  have hsc := tables_scalar
  have hnz := refs_nonzero
  have key : ∀ (tbl : Array Nat) (ref : Array (List Nat)),
      ((getEncoding (nameBytes name)).map fun e => (e.name, e.table.toList)) = some (name, tbl.toList) →
      nameBytes name ≠ [] → TableOK tbl ref → allScalarOrZero tbl.toList = true → (∀ l ∈ ref.toList, 0 ∉ l) →
      (∀ b ∈ data, b < 256 ∧ allowedAt ref b ≠ []) →
      ∃ s, FontDecode.decodeString nfc ⟨none, nameBytes name, []⟩ data = some (nfc s) ∧
        Pointwise (fun b v => v ∈ allowedAt ref b) data s := by
    intro tbl ref hget hne hok hsc hnz hd
    obtain ⟨e, he, het⟩ := getEncoding_table name tbl hget
    refine ⟨Encoding.decodeString tbl data, ?_, encoding_string_ref tbl ref hok hsc hnz data hd⟩
    have := (decode_priority nfc ⟨none, nameBytes name, []⟩ data).2.2.2.1 rfl hnb hne
    rw [this, he]
    simp [het, Differences.decodeWith_nil]
  unfold namedRefs at hmem
  simp only [List.mem_cons, Prod.mk.injEq, List.mem_nil_iff, or_false] at hmem
  rcases hmem with ⟨rfl, rfl, rfl⟩ | ⟨rfl, rfl, rfl⟩ | ⟨rfl, rfl, rfl⟩ | ⟨rfl, rfl, rfl⟩ | ⟨rfl, rfl, rfl⟩ | ⟨rfl, rfl, rfl⟩
  · exact key _ _ hdisp.1 (by decide +kernel) winansi_ref hsc.1 (hnz _ (by simp)) hd
  · exact key _ _ hdisp.2.1 (by decide +kernel) macroman_ref hsc.2.1 (hnz _ (by simp)) hd
  · exact key _ _ hdisp.2.2.1 (by decide +kernel) pdfdoc_ref hsc.2.2.1 (hnz _ (by simp)) hd
  · exact key _ _ hdisp.2.2.2.1 (by decide +kernel) standard_ref hsc.2.2.2.1 (hnz _ (by simp)) hd
  · exact key _ _ hdisp.2.2.2.2.1 (by decide +kernel) symbol_ref hsc.2.2.2.2.1 (hnz _ (by simp)) hd
  · exact key _ _ hdisp.2.2.2.2.2.1 (by decide +kernel) zapf_ref hsc.2.2.2.2.2 (hnz _ (by simp)) hd

/-- the hypotheses are satisfiable: `A`, the Euro sign's code and `é` in WinAnsiEncoding -/
example : NoBOM [0x41, 0x80, 0xE9] ∧ (∀ b ∈ [0x41, 0x80, 0xE9], b < 256 ∧ allowedAt winAnsiRef b ≠ []) ∧
    Encoding.decodeString winAnsiTable [0x41, 0x80, 0xE9] = [0x41, 0x20AC, 0xE9] := by
  refine ⟨⟨fun r h => by simp at h, fun r h => by simp at h⟩, by decide +kernel, by decide +kernel⟩

/-- **UTF-16 with a byte-order mark end to end**: a font without ToUnicode, whatever its
encoding name and `/Differences`, decodes `FE FF` + UTF-16BE (resp. `FF FE` + UTF-16LE) of any list of Unicode
scalar values — supplementary planes included — to that list, NFC last -/
theorem font_utf16_bom (nfc : List Nat → List Nat) (enc : List Nat) (ds : Diffs) (s : List Nat) (hs : ∀ c ∈ s, IsScalar c) :
    FontDecode.decodeString nfc ⟨none, enc, ds⟩ (0xFE :: 0xFF :: bytesBE (encodeUnits s)) = some (nfc s) ∧
    FontDecode.decodeString nfc ⟨none, enc, ds⟩ (0xFF :: 0xFE :: bytesLE (encodeUnits s)) = some (nfc s) := by
  have hp := decode_priority nfc ⟨none, enc, ds⟩
  refine ⟨?_, ?_⟩
  · rw [(hp _).2.1 rfl _ rfl, utf16be_roundtrip s hs]
  · rw [(hp _).2.2.1 rfl _ rfl, utf16le_roundtrip s hs]

/-! ## 5c. `/Differences` of the `/Encoding` dictionary (fix b3a0e07)

ISO 32000-1 9.6.6.1: the `/Differences` array `[code /name … /name code /name …]` of an
`/Encoding` dictionary redefines the base encoding from each code on, consecutive names taking
consecutive codes. The specification (`Lemmas/Differences.lean`) is written over *runs*
`(code, names)`: `specName rs b` is the name the last run naming `b` gives it, `specRune` its
Unicode by the package's glyph list (`Model/GlyphNames.lean`; a name the list does not know
leaves the code to the base encoding - the code does not invent text). Before b3a0e07 the
array was parsed and dropped: `DecodeString` used the base encoding alone (`preNFCOld`;
finding C01/font-text-differences). -/

open Tabula.Differences in
/-- what a font without ToUnicode specifies for code `b`: the glyph the `/Differences` name,
else the base table's entry -/
def specByte (rs : List Differences.Run) (t : Array Nat) (b : Nat) : Option Nat :=
  match Differences.specRune rs b with
  | some r => some r
  | none => t[b]?

/-- **differences_parse**: `parseEncodingDifferences` never fails on an array of integers
and names written run by run, and the map it builds holds for every byte exactly what the
array specifies: the glyph of the last run naming the byte, nothing for a byte no run names or
whose name the glyph list does not know. For every list of runs (codes beyond 255, empty
runs, runs overlapping earlier ones included). -/
theorem differences_parse (rs : List Differences.Run) :
    ∃ ds, Reader.parseDifferences (Differences.renderRuns rs) = some ds ∧
      ∀ b, b ≤ 255 → diffLookup ds b = Differences.specRune rs b :=
  Differences.parseDifferences_spec rs

/-- **differences_override_exact**: the custom encoding a font is decoded through differs from
its base encoding exactly at the codes the `/Differences` name with a known glyph name - there
it gives that glyph's character - and agrees with the base table at every other byte (codes no
run names; codes whose glyph name the list does not know). -/
theorem differences_override_exact (rs : List Differences.Run) (ds : Diffs)
    (hds : Reader.parseDifferences (Differences.renderRuns rs) = some ds) (t : Array Nat) (b : Nat) (hb : b ≤ 255) :
    (∀ n r, Differences.specName rs b = some n → GlyphNames.glyphRune n = some r → customDecodeByte ds t b = some r) ∧
    (Differences.specName rs b = none → customDecodeByte ds t b = t[b]?) ∧
    (∀ n, Differences.specName rs b = some n → GlyphNames.glyphRune n = none → customDecodeByte ds t b = t[b]?) := by
  obtain ⟨ds', hds', hl⟩ := Differences.parseDifferences_spec rs
  rw [hds] at hds'
  simp only [Option.some.injEq] at hds'
  subst hds'
  have h := hl b hb
  unfold customDecodeByte
  rw [h]
  unfold Differences.specRune
  refine ⟨?_, ?_, ?_⟩
  · intro n r hn hr; simp [hn, hr]
  · intro hn; simp [hn]
  · intro n hn hr; simp [hn, hr]

/-- **differences_override**: `Font.DecodeString` of a simple font without ToUnicode whose
`/Encoding` dictionary names a base encoding and carries `/Differences` (`ds` is the map
`parseEncodingDifferences` builds from the array, `differences_parse`): every string of bytes
that does not start with a byte-order mark decodes, code by code, to the character the
differences specify where they name the code, to the base encoding's character elsewhere
(unmapped codes skipped), NFC last. -/
theorem differences_override (nfc : List Nat → List Nat) (enc : List Nat) (henc : enc ≠ []) (e : Enc)
    (he : getEncoding enc = some e) (rs : List Differences.Run) (ds : Diffs)
    (hl : ∀ b, b ≤ 255 → diffLookup ds b = Differences.specRune rs b)
    (data : List Nat) (hb : AllBytes data) (hnb : NoBOM data) :
    FontDecode.decodeString nfc ⟨none, enc, ds⟩ data =
      some (nfc (data.filterMap fun b =>
        match specByte rs e.table b with
        | some r => if r ≠ 0 then some (toRune r) else none
        | none => none)) := by
  rw [(decode_priority nfc ⟨none, enc, ds⟩ data).2.2.2.1 rfl hnb henc]
  simp only [he, Option.map_some, Option.some.injEq]
  congr 1
  unfold decodeWith
  apply Differences.filterMap_congr_mem
  intro b hbm
  have hb' : b ≤ 255 := by have := hb b hbm; omega
  unfold customDecodeByte specByte
  rw [hl b hb']
  rfl

/-- **differences_tounicode_precedence**: a ToUnicode CMap still takes precedence - with one
present, `/Differences` (and the base encoding) are not consulted, whatever they say -/
theorem differences_tounicode_precedence (nfc : List Nat → List Nat) (cm : CMap) (enc : List Nat) (ds : Diffs)
    (data : List Nat) :
    FontDecode.decodeString nfc ⟨some cm, enc, ds⟩ data = some (nfc (lookupString cm data)) ∧
    FontDecode.decodeString nfc ⟨some cm, enc, ds⟩ data = FontDecode.decodeString nfc ⟨some cm, enc, []⟩ data :=
  ⟨rfl, rfl⟩

/-- **differences_absent_unchanged**: a font without `/Differences` decodes every string as
every font was decoded before b3a0e07 (`decodeStringOld` never looked at the differences) -/
theorem differences_absent_unchanged (nfc : List Nat → List Nat) (tu : Option CMap) (enc : List Nat) (ds : Diffs)
    (data : List Nat) :
    FontDecode.decodeString nfc ⟨tu, enc, []⟩ data = FontDecode.decodeStringOld nfc ⟨tu, enc, ds⟩ data := rfl

/-- the font of the finding's witness: `/Encoding << /BaseEncoding /WinAnsiEncoding
/Differences [65 /Euro /eacute] >>` -/
def exDiffRuns : List Differences.Run := [⟨65, [[69, 117, 114, 111], [101, 97, 99, 117, 116, 101]]⟩]

example : Reader.parseDifferences (Differences.renderRuns exDiffRuns) = some [(66, some 0xE9), (65, some 0x20AC)] := by
  decide +kernel

/-- the hypotheses of `differences_override` are satisfiable, and on the witness `(AB)` is the
text "€é"; a run with a name the glyph list does not know (`/g17`), a run reaching beyond 255
and a run renaming a code leave the rest to the base encoding -/
example : NoBOM [65, 66] ∧ AllBytes [65, 66] ∧
    (getEncoding Reader.kWinAnsiEncoding).map (fun e => decodeWith [(66, some 0xE9), (65, some 0x20AC)] e.table [65, 66, 67])
      = some [0x20AC, 0xE9, 67] ∧
    Reader.parseDifferences (Differences.renderRuns [⟨65, [[69, 117, 114, 111]]⟩, ⟨255, [[97], [98]]⟩, ⟨65, [[103, 49, 55]]⟩])
      = some [(65, none), (255, some 97), (65, some 0x20AC)] := by
  refine ⟨⟨fun r h => by simp at h, fun r h => by simp at h⟩, ?_, by decide +kernel, by decide +kernel⟩
  intro b hb
  simp only [List.mem_cons, List.mem_nil_iff, or_false] at hb
  omega

/-- **differences_pinned_counterexample**: the code before b3a0e07 (`decodeStringOld`: the
base encoding alone) reports the witness's `(AB)` as "AB"; the font defines "€é", which is
what `DecodeString` returns now (`nfc` = identity: both strings are in NFC) -/
theorem differences_pinned_counterexample :
    FontDecode.decodeStringOld id ⟨none, Reader.kWinAnsiEncoding, [(66, some 0xE9), (65, some 0x20AC)]⟩ [65, 66] = some [65, 66] ∧
    FontDecode.decodeString id ⟨none, Reader.kWinAnsiEncoding, [(66, some 0xE9), (65, some 0x20AC)]⟩ [65, 66] = some [0x20AC, 0xE9] := by
  decide +kernel

/-! ## 6. CMap round trip (staged)

Full statement (not proved; compared on every run by the correspondence and the oracle
`C07/cmap-lookup-*`): for every finite code→text map `m`, every code width 1–4 and every
formatting policy `pol` of the independent writer (bfchar lines / one line / bfrange with
offset or array targets / arrays spanning lines / LF or CRLF),
`lookupString (parseCMapData (render pol m)) (codes of sel) = texts of sel`.

(The full statement IS now proved: `Props/C07CMap.lean`, `cmap_roundtrip`, for the whole
program text under every policy. The theorem below is kept as the first stage.)

Proved here, for all maps and all selections: the one-entry-per-line `bfchar` policy, from the
**section text** on — the `<`…`>` scanner, both hex readers, UTF-16 decoding of targets
(multi-character, combining and supplementary-plane targets included), the direct map, the
width rule and the shift-or code assembly of `lookupStringWithWidth`. Missing for the full
statement: locating the sections inside the whole program by keyword search
(`sectionsLoop`/`parseCodeSpaceRange`, here replaced by the state `{ byteWidth := w }` that
the code-space section of a width-`w` program produces), several sections, and the bfrange
policies. -/
theorem cmap_roundtrip_partial (w : Nat) (hw1 : 1 ≤ w) (hw4 : w ≤ 4)
    (es : List (Nat × List Nat)) (hes : ∀ e ∈ es, EntryOK w e)
    (hinj : ∀ p ∈ es, ∀ q ∈ es, p.1 = q.1 → p = q)
    (sel : List (Nat × List Nat)) (hsel : ∀ e ∈ sel, e ∈ es) :
    lookupString (parseBfCharSection (renderSection w es) { byteWidth := w })
        ((sel.map (·.1)).flatMap (codeBytes w))
      = sel.flatMap (·.2) := by
  unfold parseBfCharSection
  rw [hexStrings_renderSection w es (fun e he => (hes e he).2.1)]
  obtain ⟨_, _, hinv⟩ := bfCharPairs_tokens w hw1 hw4 es hes { byteWidth := w } ⟨rfl, Or.inl rfl⟩
  unfold lookupString
  rw [effectiveWidth_of_inv w _ hinv]
  simp only [show w > 0 from hw1, if_true]
  rw [lookupWidth_codes _ w hw1 hw4 (sel.map (·.1))
    (by intro c hc
        obtain ⟨e, he, rfl⟩ := List.mem_map.mp hc
        exact (hes e (hsel e he)).1)
    _ (by rw [flatMap_codeBytes_length, List.length_map]
          have : sel.length ≤ sel.length * w := Nat.le_mul_of_pos_right _ hw1
          omega)]
  clear hinv
  induction sel with
  | nil => rfl
  | cons e t ih =>
    simp only [List.map_cons, List.flatMap_cons]
    rw [emit_parsed w hw1 hw4 es hes hinj e (hsel e (by simp))]
    rw [ih (fun x hx => hsel x (by simp [hx]))]

/-- the hypotheses are satisfiable by a non-trivial map: 2-byte codes; a ligature, a
combining sequence and a supplementary-plane target -/
example :
    let es : List (Nat × List Nat) := [(0x0001, [0x66, 0x66, 0x69]), (0xFEFF, [0x65, 0x301]), (0x4142, [0x1D400])]
    (∀ e ∈ es, EntryOK 2 e) ∧
    renderSection 2 [(0x4142, [0x1D400])] =
      [60, 52, 49, 52, 50, 62, 32, 60, 68, 56, 51, 53, 68, 67, 48, 48, 62, 10] ∧
    lookupString (parseBfCharSection (renderSection 2 es) { byteWidth := 2 }) [0x41, 0x42, 0xFE, 0xFF, 0x00, 0x01]
      = [0x1D400, 0x65, 0x301, 0x66, 0x66, 0x69] := by
  refine ⟨?_, by decide, by decide⟩
  intro e he
  simp only [List.mem_cons, List.mem_nil_iff, or_false] at he
  rcases he with rfl | rfl | rfl <;>
    exact ⟨by decide, by intro x hx; simp at hx; rcases hx with rfl | rfl | rfl <;> (unfold IsScalar; omega), by simp, by simp⟩

/-! ## 7. The repaired defects, end to end on program text

`<01> <02> <D835DC00>` (surrogate pair) and `<03> <04> <00660066>` (two characters) as bfrange
targets, and two array entries on one line: before the fixes these decoded to U+FFFD, resp. the
second array was lost; the model of the repaired code returns the specified text. -/

/-- the program
```
1 begincodespacerange
<00> <FF>
endcodespacerange
2 beginbfrange
<01> <02> <D835DC00>
<03> <04> <00660066>
endbfrange
1 beginbfrange <05> <06> [<0041> <0042>] <07> <08> [<0043> <D835DC00>] endbfrange
``` -/
def witnessProgram : List Nat := [49, 32, 98, 101, 103, 105, 110, 99, 111, 100, 101, 115, 112, 97, 99, 101, 114, 97, 110, 103, 101, 10, 60, 48, 48, 62, 32, 60, 70, 70, 62, 10, 101, 110, 100, 99, 111, 100, 101, 115, 112, 97, 99, 101, 114, 97, 110, 103, 101, 10, 50, 32, 98, 101, 103, 105, 110, 98, 102, 114, 97, 110, 103, 101, 10, 60, 48, 49, 62, 32, 60, 48, 50, 62, 32, 60, 68, 56, 51, 53, 68, 67, 48, 48, 62, 10, 60, 48, 51, 62, 32, 60, 48, 52, 62, 32, 60, 48, 48, 54, 54, 48, 48, 54, 54, 62, 10, 101, 110, 100, 98, 102, 114, 97, 110, 103, 101, 10, 49, 32, 98, 101, 103, 105, 110, 98, 102, 114, 97, 110, 103, 101, 32, 60, 48, 53, 62, 32, 60, 48, 54, 62, 32, 91, 60, 48, 48, 52, 49, 62, 32, 60, 48, 48, 52, 50, 62, 93, 32, 60, 48, 55, 62, 32, 60, 48, 56, 62, 32, 91, 60, 48, 48, 52, 51, 62, 32, 60, 68, 56, 51, 53, 68, 67, 48, 48, 62, 93, 32, 101, 110, 100, 98, 102, 114, 97, 110, 103, 101]

theorem bfrange_multiunit_witness :
    lookupString (parseCMapData witnessProgram) [1, 2, 3, 4, 5, 6, 7, 8] =
      [0x1D400, 0x1D401, 0x66, 0x66, 0x66, 0x67, 0x41, 0x42, 0x43, 0x1D400] := by
  decide +kernel

end Tabula.C07
