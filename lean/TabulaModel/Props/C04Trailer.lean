import TabulaModel.Props.C04Api
import TabulaModel.Model.XrefTrailer
/-!
# C04 — the trailer of an opened file and the entry points that start from it

`MergeXRefTables` keeps the trailer of the last table, the tables are oldest first: the reader
works with the trailer of the NEWEST revision (the section `startxref` points at), whatever the
trailers of older revisions say. `GetCatalog` / `GetInfo` look their object up through
`GetObject`: they inherit "newest revision, in any access order" from it.
-/
namespace Tabula.C04T
open Tabula.XrefFile Tabula.Reader Tabula.XrefC Tabula.XrefR Tabula.XrefT Tabula.C04A

/-- **open_keeps_newest_trailer**: a file opens with a trailer exactly when it opens, and the
trailer is the one of the section at the `startxref` offset - the newest revision's; the merged
table is the one of `XrefFile.openFile` -/
theorem open_keeps_newest_trailer (ext : Reader.Ext) (file : List Nat) (x : RawSection) (tr : Dict) :
    openFileT ext file = .ok (x, tr) ↔
      openFile ext file = .ok x ∧ ∃ start sec, findXRef file = .ok start ∧ parseXRef ext file start = .ok (sec, tr) := by
  unfold openFileT
  constructor
  · intro h
    cases ho : openFile ext file with
    | error e => rw [ho] at h; cases h
    | ok x' =>
      rw [ho] at h
      simp only at h
      cases hf : findXRef file with
      | error e => rw [hf] at h; cases h
      | ok start =>
        rw [hf] at h
        simp only at h
        cases hp : parseXRef ext file start with
        | error e => rw [hp] at h; cases h
        | ok r =>
          obtain ⟨sec, tr'⟩ := r
          rw [hp] at h
          simp only [Except.ok.injEq, Prod.mk.injEq] at h
          obtain ⟨h1, h2⟩ := h
          subst h1 h2
          exact ⟨rfl, start, sec, rfl, hp⟩
  · rintro ⟨ho, start, sec, hf, hp⟩
    simp only [ho, hf, hp]

/-- every file that opens has a trailer: `Reader.Trailer()` is total on opened files -/
theorem open_has_trailer (ext : Reader.Ext) (file : List Nat) (x : RawSection) (h : openFile ext file = .ok x) :
    ∃ tr, openFileT ext file = .ok (x, tr) := by
  unfold openFile at h
  split at h
  · unfold loadXRef at h
    cases hf : findXRef file with
    | error e => rw [hf] at h; cases h
    | ok start =>
      rw [hf] at h
      simp only at h
      cases hp : parseXRef ext file start with
      | error e => rw [hp] at h; cases h
      | ok r =>
        obtain ⟨sec, tr⟩ := r
        refine ⟨tr, (open_keeps_newest_trailer ext file x tr).2 ⟨?_, start, sec, hf, hp⟩⟩
        unfold openFile loadXRef
        simp only [*, if_true]
        rw [hp] at h
        exact h
  · cases h

/-- the answer of one trailer call made alone on a freshly opened reader -/
def aloneT (ext : Reader.Ext) (keep : Bool) (file : List Nat) (x : RawSection) (tr : Dict) (op : TOp) : TAns :=
  (tstep (getTop ext keep file x) clearC tr ({} : RSt) op).1

theorem tstep_sim (ext : Reader.Ext) (keep : Bool) (file : List Nat) (x : RawSection) (tr : Dict) (st : RSt)
    (hst : CInv ext file x st) (op : TOp) :
    (tstep (getTop ext keep file x) clearC tr st op).1 = aloneT ext keep file x tr op ∧
      CInv ext file x (tstep (getTop ext keep file x) clearC tr st op).2 := by
  have hsim := getTop_sim ext keep file x
  have h0 := cinv_empty ext file x 0
  unfold aloneT
  cases op with
  | get n =>
    simp only [tstep]
    exact ⟨by rw [(hsim n st hst).1, (hsim n {} h0).1], (hsim n st hst).2⟩
  | clear => exact ⟨rfl, cinv_clear ext file x st⟩
  | numObjects => exact ⟨rfl, hst⟩
  | trailer => exact ⟨rfl, hst⟩
  | catalog =>
    simp only [tstep, getCatalog]
    cases hd : dget tr kRoot with
    | none => exact ⟨rfl, hst⟩
    | some o =>
      cases o <;> try exact ⟨rfl, hst⟩
      rename_i n g
      simp only
      have h1 := hsim n st hst
      have h2 := hsim n {} h0
      generalize getTop ext keep file x n st = r1 at h1
      generalize getTop ext keep file x n {} = r2 at h2
      obtain ⟨a1, s1⟩ := r1
      obtain ⟨a2, s2⟩ := r2
      simp only at h1 h2
      obtain ⟨e1, i1⟩ := h1
      obtain ⟨e2, _⟩ := h2
      subst e1 e2
      refine ⟨?_, ?_⟩
      · cases fresh ext file x n with
        | none => rfl
        | some v => cases v with
          | stream _ _ => rfl
          | obj o => cases o <;> rfl
      · cases fresh ext file x n with
        | none => exact i1
        | some v => cases v with
          | stream _ _ => exact i1
          | obj o => cases o <;> exact i1
  | info =>
    simp only [tstep, getInfo]
    cases hd : dget tr kInfo with
    | none => exact ⟨rfl, hst⟩
    | some o =>
      cases o <;> try exact ⟨rfl, hst⟩
      rename_i n g
      simp only
      have h1 := hsim n st hst
      have h2 := hsim n {} h0
      generalize getTop ext keep file x n st = r1 at h1
      generalize getTop ext keep file x n {} = r2 at h2
      obtain ⟨a1, s1⟩ := r1
      obtain ⟨a2, s2⟩ := r2
      simp only at h1 h2
      obtain ⟨e1, i1⟩ := h1
      obtain ⟨e2, _⟩ := h2
      subst e1 e2
      refine ⟨?_, ?_⟩
      · cases fresh ext file x n with
        | none => rfl
        | some v => cases v with
          | stream _ _ => rfl
          | obj o => cases o <;> rfl
      · cases fresh ext file x n with
        | none => exact i1
        | some v => cases v with
          | stream _ _ => exact i1
          | obj o => cases o <;> exact i1

/-- **trailer_calls_history_free**: `GetCatalog`, `GetInfo`, `NumObjects`, `Trailer` mixed with
`GetObject` and `ClearCache` in any order, from any sound cache contents: every answer is the
answer of the same call made alone on a freshly opened reader -/
theorem trailer_calls_history_free (ext : Reader.Ext) (keep : Bool) (file : List Nat) (x : RawSection) (tr : Dict)
    (ops : List TOp) (st : RSt) (hst : CInv ext file x st) :
    trun (getTop ext keep file x) clearC tr st ops = ops.map (aloneT ext keep file x tr) := by
  induction ops generalizing st with
  | nil => rfl
  | cons op ops ih =>
    obtain ⟨h1, h2⟩ := tstep_sim ext keep file x tr st hst op
    simp only [trun, List.map_cons, h1, ih _ h2]

/-- … for a session on the bytes -/
theorem trailer_session_history_free (ext : Reader.Ext) (keep : Bool) (file : List Nat) (x : RawSection) (tr : Dict)
    (hopen : openFileT ext file = .ok (x, tr)) (ops : List TOp) :
    tsession ext keep file ops = .ok (ops.map (aloneT ext keep file x tr)) := by
  unfold tsession
  rw [hopen]
  simp only
  rw [trailer_calls_history_free ext keep file x tr ops {} (cinv_empty ext file x 0)]

/-- **catalog_is_newest_root**: `GetCatalog` is the dictionary `GetObject` of a fresh reader
yields for the object `/Root` of the newest trailer names (by number; the generation of the
reference is not looked at), an error when `/Root` is missing or no reference, or the object is
missing, free, a stream or no dictionary -/
theorem catalog_is_newest_root (ext : Reader.Ext) (keep : Bool) (file : List Nat) (x : RawSection) (tr : Dict) :
    aloneT ext keep file x tr .catalog =
      .val (match dget tr kRoot with
            | some (.ref n _) =>
              (match getObjectB ext file x (maxNestedLoads + 1) [] n with
               | some (.obj (.dict kv)) => some (ofObj (.dict kv))
               | _ => none)
            | _ => none) := by
  unfold aloneT
  simp only [tstep, getCatalog]
  cases hd : dget tr kRoot with
  | none => rfl
  | some o =>
    cases o <;> try rfl
    rename_i n g
    simp only
    have h2 := getTop_sim ext keep file x n {} (cinv_empty ext file x 0)
    generalize getTop ext keep file x n {} = r2 at h2
    obtain ⟨a2, s2⟩ := r2
    simp only at h2
    obtain ⟨e2, _⟩ := h2
    subst e2
    unfold fresh
    cases getObjectB ext file x (maxNestedLoads + 1) [] n with
    | none => rfl
    | some v => cases v with
      | stream _ _ => rfl
      | obj o => cases o <;> rfl

/-- satisfiable: `NumObjects` of `<< /Size 6 >>` is 6, of a trailer without `/Size` 0 -/
example : numObjects [(kSize, .int 6)] = 6 := by decide
example : numObjects [] = 0 := by decide

end Tabula.C04T
