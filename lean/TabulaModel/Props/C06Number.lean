import TabulaModel.Lemmas.PdfNumber
/-!
# C06 — the number grammar at full strength: every input, both parsers

`Props/C06.lean` proves that every PRINTED integer and real reads back (`int_roundtrip`, reals inside
`core_roundtrip`).  Here the number reader is characterised for EVERY input that starts with a sign, a
digit or the point — which is exactly when `NextToken` (and `contentstream.parseOperand`) read a number:

* what the lexer cuts out (`readNumber`): a text `[+-]? digit* ( . digit* )?` by maximal munch, the sign
  only in first place, at most one point — `+`, `-`, `.`, `-.`, `1.2` out of `1.2.3`, `1` out of `1-2`;
* what the conversions (as modelled: exact decimals) make of EVERY such text: an error exactly when there
  is no digit; an integer exactly when there is no point and the value fits int64; otherwise the exact
  decimal value, normalised (so `-0.0` = `0`, `1.50` = `1.5`); an integer outside int64 becomes a real in
  the document-level parser;
* the content-stream parser cuts the same lexeme from the same bytes, converts it the same way, and stops
  at the same byte; the only texts it rejects that the document-level parser accepts are integers outside
  int64.

`strconv.ParseInt` / `strconv.ParseFloat` stay trusted as modelled (`Tabula.A1.atoi`, `parseReal`).
Helper lemmas: `Lemmas/PdfNumLex.lean`, `Lemmas/PdfNumber.lean`.
-/
namespace Tabula.C06Number
open Tabula.Pdf
open Tabula.A1 (atoi maxInt64)

/-- the texts of the number grammar: optional sign, digits, and (iff `hasPoint`) a point and more digits -/
abbrev NumText (text : Str) (hasPoint : Bool) : Prop := Num.NumText text hasPoint

/-- the bytes on which both `NextToken` and `contentstream.parseOperand` start reading a number -/
abbrev NumStart (b : Nat) : Prop := b = 45 ∨ b = 43 ∨ b = 46 ∨ isDigit b = true

example : NumStart 46 ∧ NumStart 43 ∧ NumStart 55 := by decide

/-- **The lexeme, every input.**  Entered on a sign, a digit or the point, `readNumber` splits the input
into a non-empty text of the grammar and the rest, by maximal munch: the rest does not start with a digit,
and starts with a point only if the text already has one. -/
theorem number_lexeme (b : Nat) (r : Str) (hb : NumStart b) :
    b :: r = (numLoop false true (b :: r)).1 ++ (numLoop false true (b :: r)).2.2 ∧
    NumText (numLoop false true (b :: r)).1 (numLoop false true (b :: r)).2.1 ∧
    (numLoop false true (b :: r)).1 ≠ [] ∧
    (∀ c rest, (numLoop false true (b :: r)).2.2 = c :: rest →
      isDigit c = false ∧ (c = 46 → (numLoop false true (b :: r)).2.1 = true)) :=
  Num.numLoop_grammar b r hb

/-- **The token, every input**: `NextToken` returns that text, as a real token iff it contains a point,
and leaves exactly the rest. -/
theorem number_token (b : Nat) (r : Str) (hb : NumStart b) :
    nextToken (b :: r) =
      some (if (numLoop false true (b :: r)).2.1 then .real (numLoop false true (b :: r)).1
            else .integer (numLoop false true (b :: r)).1, (numLoop false true (b :: r)).2.2) :=
  Num.number_token b r hb

/-- "1.2.3" is the real 1.2 followed by ".3"; "1-2" is 1 followed by "-2"; "+" alone is a (bad) integer text -/
example : nextToken [49, 46, 50, 46, 51] = some (.real [49, 46, 50], [46, 51]) ∧
    nextToken [49, 45, 50] = some (.integer [49], [45, 50]) ∧
    nextToken [43, 93] = some (.integer [43], [93]) := by decide

/-- **The value of a real, every text of the grammar**: `strconv.ParseFloat` (as modelled) fails exactly when
there is no digit at all; otherwise the result is (-1)^neg · (ip fp read as one decimal numeral) / 10^|fp| in
the normal form of `Obj.real` (no trailing fractional zero, no negative zero). -/
theorem real_value (sign ip fp : Str) (hasPoint : Bool) (hs : sign = [] ∨ sign = [43] ∨ sign = [45])
    (hi : DigitStr ip) (hf : DigitStr fp) (hfd : hasPoint = false → fp = []) :
    parseReal (sign ++ ip ++ (if hasPoint then 46 :: fp else [])) =
      if ip = [] ∧ fp = [] then none
      else some (.real (decide (sign = [45]) && (normReal (digitsVal (ip ++ fp)) fp.length).1 != 0)
        (normReal (digitsVal (ip ++ fp)) fp.length).1 (normReal (digitsVal (ip ++ fp)) fp.length).2) :=
  Num.parseReal_grammar sign ip fp hasPoint hs hi hf hfd

example : DigitStr [48, 48, 55] ∧ DigitStr [53, 48] := by
  constructor
  · intro c hc
    simp only [List.mem_cons, List.not_mem_nil, or_false] at hc
    rcases hc with h | h | h <;> subst h <;> decide
  · intro c hc
    simp only [List.mem_cons, List.not_mem_nil, or_false] at hc
    rcases hc with h | h <;> subst h <;> decide

/-- what the normal form means: `m / 10^s` is kept, `s` only shrinks, and no trailing fractional zero is left -/
theorem real_normal_form (m s : Nat) :
    m * 10 ^ (normReal m s).2 = (normReal m s).1 * 10 ^ s ∧ (normReal m s).2 ≤ s ∧
      ((normReal m s).2 = 0 ∨ (normReal m s).1 % 10 ≠ 0) :=
  normReal_spec m s

/-- **The value of an integer, every text of the grammar without a point**: `strconv.ParseInt` (as modelled)
gives a value exactly when there is a digit and the number lies in the int64 range, and then it is the number
written (leading zeros, `+`, `-0` included). -/
theorem integer_value (sign ip : Str) (hs : sign = [] ∨ sign = [43] ∨ sign = [45]) (hi : DigitStr ip) :
    atoi (sign ++ ip) =
      if ip = [] then none
      else if sign = [45] then (if digitsVal ip ≤ maxInt64 + 1 then some (-(digitsVal ip : Int)) else none)
      else (if digitsVal ip ≤ maxInt64 then some (digitsVal ip : Int) else none) :=
  Num.atoi_grammar sign ip hs hi

/-- **What `ParseObject` makes of an integer token** (when the next token is not an integer, so that the
`num gen R` lookahead does not apply): an error iff the text has no digit; the integer if it fits int64;
otherwise — the document-level parser falls back to `ParseFloat` — the real number with the same digits.
In every case exactly one token is consumed. -/
theorem integer_token_outcome (s : PState) (sign ip : Str) (hs : sign = [] ∨ sign = [43] ∨ sign = [45])
    (hi : DigitStr ip) (hp : ∀ v, s.peek ≠ some (.integer v)) :
    parseNumber s (sign ++ ip) =
      if ip = [] then .error .err
      else match atoi (sign ++ ip) with
        | some i => .ok (.int i, s.next)
        | none => .ok (.real (decide (sign = [45]) && digitsVal ip != 0) (digitsVal ip) 0, s.next) :=
  Num.integer_token_value s sign ip hs hi hp

example : ∀ v, (stateAt [49, 32, 47, 65]).peek ≠ some (.integer v) := by
  intro v h
  have : (stateAt [49, 32, 47, 65]).peek = some (.name [65]) := by decide
  rw [this] at h
  cases h

/-- **Both parsers read the same number from the same bytes, every input.**  Whenever
`contentstream.parseNumber` succeeds, the document-level token carries the very text it converted; an integer
token gives that integer, a real token that real; and both stop at the same byte. -/
theorem number_agrees (b : Nat) (r : Str) (o : Obj) (rest : Str) (hb : NumStart b)
    (h : CS.parseNumber (b :: r) = some (o, rest)) :
    (∃ text i, nextToken (b :: r) = some (.integer text, rest) ∧ atoi text = some i ∧ o = .int i) ∨
    (∃ text, nextToken (b :: r) = some (.real text, rest) ∧ parseReal text = some o) :=
  Num.cs_number_agrees b r o rest hb h

example : (CS.parseNumber [45, 46, 53, 48, 93]).isSome = true := by decide +kernel

/-- The content-stream parser converts exactly the document-level lexeme (`readNumber`'s text): as a real if
it has a point, else as an int64 integer — one lexeme for both parsers, every input. -/
theorem number_lexeme_shared (b : Nat) (r : Str) (hb : NumStart b) :
    CS.parseNumber (b :: r) =
      (if (numLoop false true (b :: r)).2.1 then
        (match parseReal (numLoop false true (b :: r)).1 with
          | none => none
          | some o => some (o, (numLoop false true (b :: r)).2.2))
      else
        (match atoi (numLoop false true (b :: r)).1 with
          | none => none
          | some v => some (.int v, (numLoop false true (b :: r)).2.2))) :=
  Prog.cs_parseNumber_lexeme b r hb

/-- The content-stream parser rejects a number only when the lexeme has no digit (then the document-level
parser rejects it too) or is an integer outside int64 (which the document-level parser reads as a real). -/
theorem number_rejections (b : Nat) (r : Str) (hb : NumStart b) (h : CS.parseNumber (b :: r) = none) :
    ((numLoop false true (b :: r)).2.1 = true ∧ parseReal (numLoop false true (b :: r)).1 = none) ∨
    ((numLoop false true (b :: r)).2.1 = false ∧ atoi (numLoop false true (b :: r)).1 = none) :=
  Num.cs_rejects_only_big_integers b r hb h

example : CS.parseNumber [43, 32] = none ∧
    CS.parseNumber [57, 57, 57, 57, 57, 57, 57, 57, 57, 57, 57, 57, 57, 57, 57, 57, 57, 57, 57, 57] = none := by
  decide +kernel

end Tabula.C06Number
