import TabulaModel.Lemmas.PackagePath
import TabulaModel.Props.C18Api
/-!
# C18 — what the resolution functions compute on ordinary paths

`Props/C18.lean` states resolution through the models of `path.Join` / `path.Clean`
(`join2`, `clean`). Here those are evaluated on paths made of plain segments (not empty,
not `.`/`..`, no `/`), so that the statements read in terms of the package itself:

* a manifest href `a/b.xhtml` of a package document in `OEBPS` is the member
  `OEBPS/a/b.xhtml` (`href_resolution_plain`), `../x` climbs one directory
  (`href_resolution_dotdot`), with the package document in the root it is the path itself;
* a slide relationship target `slides/s.xml` is the member `ppt/slides/s.xml`;
* the relationship part of the slide `dir/base` is `dir/_rels/base.rels`, and the notes
  target `../notesSlides/n.xml` of a slide in `ppt/slides` is `ppt/notesSlides/n.xml`;
  composed with the lookup: `notes_found_conventional`.
-/
namespace Tabula.C18Path
open Tabula.Package Tabula.PackageApi Tabula.C18 Tabula.C18Api

/-- **href_resolution_plain** — a manifest href that spells (percent-encoded, path style) the
relative path `r₁/…/rₙ` denotes, for a package document in directory `b₁/…/bₘ`, the member
`b₁/…/bₘ/r₁/…/rₙ`. -/
theorem href_resolution_plain (bs rs : List Str) (hb : bs ≠ []) (hr : rs ≠ [])
    (hpb : ∀ s ∈ bs, Plain s) (hpr : ∀ s ∈ rs, Plain s) (hby : Bytes rs) :
    resolveHref (joinSlash bs) (pctEncodePath (joinSlash rs)) = joinSlash bs ++ 47 :: joinSlash rs := by
  rw [href_resolution_literal_plus _ _ (joinSlash_bytes rs hby)]
  exact join2_plain bs rs hb hr hpb hpr

/-- the same with the package document in the archive root -/
theorem href_resolution_root (rs : List Str) (hr : rs ≠ []) (hpr : ∀ s ∈ rs, Plain s) (hby : Bytes rs) :
    resolveHref [] (pctEncodePath (joinSlash rs)) = joinSlash rs := by
  rw [href_resolution_literal_plus _ _ (joinSlash_bytes rs hby)]
  exact join2_nil_plain rs hr hpr

/-- **href_resolution_dotdot** — `../r₁/…/rₙ` from a package document in `b₁/…/bₘ/d` denotes
`b₁/…/bₘ/r₁/…/rₙ`. -/
theorem href_resolution_dotdot (bs : List Str) (d : Str) (rs : List Str) (hr : rs ≠ [])
    (hpb : ∀ s ∈ bs, Plain s) (hd : Plain d) (hpr : ∀ s ∈ rs, Plain s) (hby : Bytes rs) :
    resolveHref (joinSlash (bs ++ [d])) (pctEncodePath (joinSlash (sDotDot :: rs))) = joinSlash (bs ++ rs) := by
  have hby' : Bytes (sDotDot :: rs) := by
    intro s hs
    rcases List.mem_cons.mp hs with e | hs
    · rw [e]
      decide
    · exact hby s hs
  rw [href_resolution_literal_plus _ _ (joinSlash_bytes _ hby')]
  exact join2_dotdot bs d rs hr hpb hd hpr

/-- non-vacuity: `OEBPS` + `text/c+1.xhtml` -/
example : (∀ s ∈ ([[79, 69, 66, 80, 83]] : List Str), Plain s) ∧
    (∀ s ∈ ([[116, 101, 120, 116], [99, 43, 49, 46, 120, 104, 116, 109, 108]] : List Str), Plain s) ∧
    Bytes [[116, 101, 120, 116], [99, 43, 49, 46, 120, 104, 116, 109, 108]] := by
  refine ⟨?_, ?_, ?_⟩
  · intro s hs
    simp only [List.mem_singleton] at hs
    subst hs
    exact ⟨by decide, by decide, by decide, by decide⟩
  · intro s hs
    simp only [List.mem_cons, List.not_mem_nil, or_false] at hs
    rcases hs with hs | hs <;> subst hs <;> exact ⟨by decide, by decide, by decide, by decide⟩
  · intro s hs
    simp only [List.mem_cons, List.not_mem_nil, or_false] at hs
    rcases hs with hs | hs <;> subst hs <;> decide

/-- **pptx_slide_target_plain** — a `sldId` whose relationship target spells the relative
path `t₁/…/tₙ` denotes the member `ppt/t₁/…/tₙ`. -/
theorem pptx_slide_target_plain (rels : List (Str × Str)) (rid : Str) (ts : List Str) (ht : ts ≠ [])
    (hpt : ∀ s ∈ ts, Plain s) (h : mapLast rels rid = joinSlash ts) :
    slidePath rels rid = some (sPpt ++ 47 :: joinSlash ts) := by
  have hne := joinSlash_ne_nil ts ht (fun s hs => (hpt s hs).1)
  have hh := joinSlash_head ts ht hpt
  have hp : hasPrefix [47] (joinSlash ts) = false := by
    cases hj : joinSlash ts with
    | nil => exact absurd hj hne
    | cons c r =>
      rw [hj] at hh
      have : c ≠ 47 := by simpa using hh
      have this' : ¬ 47 = c := fun e => this e.symm
      simp [hasPrefix, List.isPrefixOf, this']
  unfold slidePath
  simp only [h, hne, if_false, hp, Bool.false_eq_true]
  have : join2 sPpt (joinSlash ts) = joinSlash [sPpt] ++ 47 :: joinSlash ts :=
    join2_plain [sPpt] ts (by simp) ht (by
      intro s hs
      rw [List.mem_singleton.mp hs]
      exact ⟨by decide, by decide, by decide, by decide⟩) hpt
  rw [this]
  rfl

/-- **slide_rels_part_location** — the relationship part of the slide `dir/base` is
`dir/_rels/base.rels` (OPC part 2 §8.3.4), wherever the slide is stored. -/
theorem slide_rels_part_location (ds : List Str) (b : Str) (hd : ds ≠ []) (hpd : ∀ s ∈ ds, Plain s) (hb : Plain b) :
    slideRelsPath (joinSlash (ds ++ [b])) = joinSlash (ds ++ [sRelsDir, b ++ sRelsExt]) :=
  slideRelsPath_plain ds b hd hpd hb

/-- **notes_target_conventional** — the target `../t₁/…/tₙ` in the relationship part of a
slide stored in `d₁/…/dₘ/d` denotes `d₁/…/dₘ/t₁/…/tₙ` (from `ppt/slides`,
`../notesSlides/notesSlide3.xml` is `ppt/notesSlides/notesSlide3.xml`). -/
theorem notes_target_conventional (ds : List Str) (d : Str) (ts : List Str) (ht : ts ≠ [])
    (hpd : ∀ s ∈ ds, Plain s) (hd : Plain d) (hpt : ∀ s ∈ ts, Plain s) :
    notesResolved (joinSlash (ds ++ [d])) (joinSlash (sDotDot :: ts)) = joinSlash (ds ++ ts) := by
  have hp : hasPrefix [47] (joinSlash (sDotDot :: ts)) = false := by
    cases ts with
    | nil => exact absurd rfl ht
    | cons t r => simp [joinSlash, sDotDot, hasPrefix, List.isPrefixOf]
  unfold notesResolved
  simp only [hp, Bool.false_eq_true, if_false]
  exact join2_dotdot ds d ts ht hpd hd hpt

/-- **notes_found_conventional** — composition: a slide stored as `d₁/…/dₘ/d/base` whose
relationship part `d₁/…/dₘ/d/_rels/base.rels` has as its first `notesSlide` relationship
the target `../t₁/…/tₙ`, in an archive where `d₁/…/dₘ/t₁/…/tₙ` is a notes slide, carries
exactly that notes part. -/
theorem notes_found_conventional (a : Archive) (x : Docs) (ds : List Str) (d b : Str) (ts : List Str)
    (rc c : Nat) (rs : List (Str × Str × Str))
    (ht : ts ≠ []) (hpd : ∀ s ∈ ds, Plain s) (hd : Plain d) (hb : Plain b) (hpt : ∀ s ∈ ts, Plain s)
    (hrel : lookup a (joinSlash (ds ++ [d] ++ [sRelsDir, b ++ sRelsExt])) = some rc)
    (hrs : x rc = .relsT rs) (htar : notesTarget rs = joinSlash (sDotDot :: ts))
    (hn : lookup a (joinSlash (ds ++ ts)) = some c) (hc : x c = .notes) :
    slideNotes (lookup a) x (joinSlash (ds ++ [d] ++ [b])) = some c := by
  have hpdd : ∀ s ∈ ds ++ [d], Plain s := by
    intro s hs
    rcases List.mem_append.mp hs with hs | hs
    · exact hpd s hs
    · rw [List.mem_singleton.mp hs]
      exact hd
  have hrp := slideRelsPath_plain (ds ++ [d]) b (by simp) hpdd hb
  have hdir := pathDir_plain (ds ++ [d]) b (by simp) hpdd hb.2.2.2
  have hne : joinSlash (sDotDot :: ts) ≠ [] := by
    cases ts with
    | nil => exact absurd rfl ht
    | cons t r => simp [joinSlash, sDotDot]
  rw [slideNotes_spec]
  refine ⟨rs, ?_, ?_, ?_, hc⟩
  · unfold slideRels
    rw [hrp, hrel]
    simp only [hrs]
    rfl
  · rw [htar]
    exact hne
  · unfold notesLookup
    rw [hdir, htar, notes_target_conventional ds d ts ht hpd hd hpt]
    simp only [hn]

/-- non-vacuity of `notes_found_conventional`: the deck `exArchiveN` of `Props/C18Api.lean`
(`ds = [ppt]`, `d = slides`, `base = slide1.xml`, target `../notesSlides/notesSlide7.xml`) -/
example :
    let ds : List Str := [sPpt]
    let d : Str := [115, 108, 105, 100, 101, 115]
    let b : Str := [115, 108, 105, 100, 101, 49, 46, 120, 109, 108]
    let ts : List Str := [[110, 111, 116, 101, 115, 83, 108, 105, 100, 101, 115],
      [110, 111, 116, 101, 115, 83, 108, 105, 100, 101, 55, 46, 120, 109, 108]]
    lookup exArchiveN (joinSlash (ds ++ [d] ++ [sRelsDir, b ++ sRelsExt])) = some 21 ∧
    (∃ rs, exDocsN 21 = .relsT rs ∧ notesTarget rs = joinSlash (sDotDot :: ts)) ∧
    lookup exArchiveN (joinSlash (ds ++ ts)) = some 37 ∧ exDocsN 37 = .notes ∧
    slideNotes (lookup exArchiveN) exDocsN (joinSlash (ds ++ [d] ++ [b])) = some 37 := by
  refine ⟨by decide, ⟨_, rfl, by decide⟩, by decide, by decide, by decide⟩

end Tabula.C18Path
