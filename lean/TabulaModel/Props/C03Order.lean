import TabulaModel.Lemmas.MapOrder
import TabulaModel.Lemmas.MapOrderCsv
/-!
# C03 — mechanism "map-ordered data is sorted before it influences output"

Every place of the library that ranges over a Go map on the way to a result (33 `range`
statements over maps, found with go/types; the list is in `Model/MapOrder.lean`) is modelled with
its iteration order as an argument — ANY permutation of the map's entries — and the stdlib sorts
as ANY function that returns a sorted rearrangement (`IsSort`: no stability, no particular
algorithm).  The theorems say that the result is the same for all of them; where the code that
existed did depend on the order there is a `_counterexample` for it (aed7bc8, ce3fc9b, the seeded
change r4m1, and the three defects found in this round: images of a page, navigation document
of an EPUB, header/footer regions).
-/
namespace Tabula.C03Order
open Tabula.MapOrder
open Tabula.Export (Config Chunk chunkKeys collectCSVColumns strLe sortStrings)
open Tabula.Csv (Str)

/-! ### sorts -/

/-- **sort_algorithm_irrelevant**: two functions that both return their input rearranged and in
order — whatever their algorithms, stable or not — agree on any two arrangements of the same
elements, as long as the order is antisymmetric (numbers, strings).  This is what makes
`sort.Float64s` / `sort.Strings` / `sort.Ints` after a map range a repair of the map's order. -/
theorem sort_algorithm_irrelevant {α : Type} {le : α → α → Bool}
    (anti : ∀ a b, le a b = true → le b a = true → a = b) {s₁ s₂ : List α → List α}
    (h₁ : IsSort le s₁) (h₂ : IsSort le s₂) (l₁ l₂ : List α) (p : l₁.Perm l₂) : s₁ l₁ = s₂ l₂ :=
  sort_unique anti h₁ h₂ p

/-- the hypotheses are satisfiable: insertion sort on integers and on byte strings are sorts -/
example : IsSort leInt sortInts := isSort_sortInts
example : IsSort strLe sortStrings := isSort_sortStrings
example : sortInts [3, 1, 2] = sortInts [2, 3, 1] := by decide

/-- without antisymmetry the claim is false: two sorts of records by one field (here: the stable
sort, and the stable sort of the reversed input) return tied records in different orders — this
is why `findRepeatingPatterns` needed more than its sort -/
theorem sort_ties_counterexample :
    ∃ (s₁ s₂ : List (Nat × Int) → List (Nat × Int)),
      IsSort (fun a b => decide (a.2 ≥ b.2)) s₁ ∧ IsSort (fun a b => decide (a.2 ≥ b.2)) s₂ ∧
      s₁ [(1, 0), (2, 0)] ≠ s₂ [(1, 0), (2, 0)] := by
  refine ⟨stableDesc Prod.snd, fun l => stableDesc Prod.snd l.reverse, isSort_stableDesc _, ?_, by decide⟩
  exact ⟨fun l => ((isSort_stableDesc (γ := Nat × Int) Prod.snd).perm l.reverse).trans (List.reverse_perm l),
    fun l => (isSort_stableDesc (γ := Nat × Int) Prod.snd).sorted l.reverse⟩

/-! ### `layout.(*LineDetector).calculateAdaptiveTolerance` (anchor; seeded change r4m1) -/

/-- **tolerance_order_free**: for every order in which Go yields the set of rounded baselines and
for every pair of sorting algorithms, the line-grouping tolerance is the one computed from the
fragments alone. -/
theorem tolerance_order_free (sortY sortG : List Int → List Int) (hY : IsSort leInt sortY)
    (hG : IsSort leInt sortG) (frags : List (Int × Int)) (it : List Int)
    (p : it.Perm (ySet (frags.map Prod.fst))) : toleranceVia sortY sortG frags it = tolerance frags :=
  MapOrder.tolerance_order_free sortY sortG hY hG frags it p

/-- the page of the r4m1 demonstration: glyph height 10, ten baselines 3 apart visited column by
column — compressed coordinates, tolerance from the smallest gap -/
def r4m1Page : List (Int × Int) :=
  [(1270, 100), (1210, 100), (1150, 100), (1090, 100), (1030, 100),
   (1240, 100), (1180, 100), (1120, 100), (1060, 100), (1000, 100)]

example : tolerance r4m1Page = .gap 30 := by decide

/-- **tolerance_unsorted_counterexample** (the seeded change r4m1: the `sort.Float64s(uniqueYs)`
dropped): two iteration orders of the same set of baselines give different tolerances -/
theorem tolerance_unsorted_counterexample :
    ∃ it₁ it₂ : List Int, it₁.Perm (ySet (r4m1Page.map Prod.fst)) ∧ it₂.Perm (ySet (r4m1Page.map Prod.fst)) ∧
      toleranceUnsorted r4m1Page it₁ ≠ toleranceUnsorted r4m1Page it₂ := by
  refine ⟨[1000, 1030, 1060, 1090, 1120, 1150, 1180, 1210, 1240, 1270],
          [1000, 1060, 1120, 1180, 1240, 1030, 1090, 1150, 1210, 1270], ?_, ?_, by decide⟩
  · decide
  · decide

/-! ### the majority votes (ce3fc9b) -/

/-- **vote_order_free**: the loop `if count > maxCount || (count == maxCount && bucket <
mostCommonBucket)` returns the same winner for every iteration order — for arbitrary entries -/
theorem vote_order_free (it₁ it₂ : List (Int × Int)) (p : it₁.Perm it₂) : vote it₁ = vote it₂ :=
  MapOrder.vote_order_free it₁ it₂ p

/-- **vote_winner_spec**: the winner is an entry of the counting map, no entry has more votes and
none with as many has a smaller bucket — "the most common, ties to the smaller" -/
theorem vote_winner_spec (it : List (Int × Int)) (hne : it ≠ []) (hpos : ∀ e ∈ it, e.2 > 0) :
    ((vote it).2, (vote it).1) ∈ it ∧
    ∀ e ∈ it, e.2 < (vote it).1 ∨ (e.2 = (vote it).1 ∧ (vote it).2 ≤ e.1) :=
  vote_spec it hne hpos

example : vote [(14, 2), (21, 2), (60, 1)] = (2, 14) := by decide

/-- **vote_pinned_counterexample**: before ce3fc9b (`if count > maxCount` only) two tied margins
won in turn, depending on the iteration order -/
theorem vote_pinned_counterexample :
    votePinned [(14, 2), (21, 2)] ≠ votePinned [(21, 2), (14, 2)] := by decide

/-- the counting maps are maps: keys are distinct -/
theorem counting_map_keys_distinct (xs : List (Int × Int)) : ((countInto xs).map Prod.fst).Nodup :=
  countInto_nodup xs

/-- **left_margin_order_free** (`detectLeftMargin`) -/
theorem left_margin_order_free (xs : List Int) (it : List (Int × Int))
    (p : it.Perm (marginCounts xs)) : detectLeftMarginVia xs it = detectLeftMargin xs :=
  detectLeftMargin_order_free xs it p

/-- **dominant_alignment_order_free** (`detectDominantAlignment`) -/
theorem dominant_alignment_order_free (as : List Int) (it : List (Int × Int))
    (p : it.Perm (alignCounts as)) : detectDominantAlignmentVia as it = detectDominantAlignment as :=
  detectDominantAlignment_order_free as it p

/-- **body_font_size_order_free** (`detectBodyFontSize`) -/
theorem body_font_size_order_free (ps : List (Int × Int)) (it : List (Int × Int))
    (p : it.Perm (fontCounts ps)) : detectBodyFontSizeVia ps it = detectBodyFontSize ps :=
  detectBodyFontSize_order_free ps it p

example : detectLeftMargin [72, 90, 72, 91, 300] = 14 := by decide
example : detectBodyFontSize [(24, 3), (20, 3), (36, 1)] = some 20 := by decide

/-! ### `rag.(*Exporter).collectCSVColumns` (anchor) -/

/-- **csv_columns_order_free**: the header of a CSV/TSV export is the same for every order in which
Go ranges over each chunk's metadata map (`enum`) and over the collected key set (`itKeys`), and
for every algorithm behind `sort.Strings` -/
theorem csv_columns_order_free (sortS : List Str → List Str) (hS : IsSort strLe sortS) (cfg : Config)
    (chunks : List Chunk) (enum : Chunk → List Str) (itKeys : List Str)
    (henum : ∀ c ∈ chunks, (enum c).Perm (chunkKeys cfg c))
    (hit : itKeys.Perm (collectKeysVia enum chunks [])) :
    collectCSVColumnsVia sortS cfg itKeys = collectCSVColumns cfg chunks :=
  collectCSVColumnsVia_eq sortS hS cfg chunks enum itKeys henum hit

/-! ### copy loops: `dictToParams`, `resolveDeep`, `withInherited`, `MergeXRefTables`, … -/

/-- **copy_loops_order_free**: `for k, v := range src { dst[k] = f(v) }` fills `dst` the same way
in every iteration order -/
theorem copy_loops_order_free {κ β γ : Type} [DecidableEq κ] (f : β → γ) (it₁ it₂ : List (κ × β))
    (p : it₁.Perm it₂) (hnd : (it₁.map Prod.fst).Nodup) (dst : FMap κ γ) :
    copyAll f it₁ dst = copyAll f it₂ dst :=
  copyAll_order_free f it₁ it₂ p hnd dst

/-- **copy_loops_spec**: … namely the transformed source value at the source's keys, the previous
content elsewhere -/
theorem copy_loops_spec {κ β γ : Type} [DecidableEq κ] (f : β → γ) (it : List (κ × β))
    (hnd : (it.map Prod.fst).Nodup) (dst : FMap κ γ) (k : κ) :
    copyAll f it dst k = match assocGet it k with | some v => some (f v) | none => dst k :=
  copyAll_lookup f it hnd dst k

example : copyAll (· + 1) [(1, 10), (2, 20)] (FMap.empty) 2 = some 21 := by decide

/-- **glyph_differences_order_free** (`NewCustomEncodingFromGlyphs`: entries without a Unicode
value are skipped) -/
theorem glyph_differences_order_free {κ β γ : Type} [DecidableEq κ] (f : β → Option γ)
    (it₁ it₂ : List (κ × β)) (p : it₁.Perm it₂) (hnd : (it₁.map Prod.fst).Nodup) (dst : FMap κ γ) :
    copySome f it₁ dst = copySome f it₂ dst :=
  copySome_order_free f it₁ it₂ p hnd dst

/-- **list_counters_order_free**: "delete the counters of all deeper levels" while ranging over the
map (docx Markdown / Document, rag list chunks) leaves the same map in every order … -/
theorem list_counters_order_free (level : Int) (it₁ it₂ m : List (Int × Int))
    (p₁ : it₁.Perm m) (p₂ : it₂.Perm m) : deleteDeeper level it₁ m = deleteDeeper level it₂ m :=
  deleteDeeper_order_free level it₁ it₂ m p₁ p₂

/-- … namely the map without the entries of the deeper levels -/
theorem list_counters_spec (level : Int) (it m : List (Int × Int)) (p : it.Perm m) :
    deleteDeeper level it m = m.filter fun e => decide (e.1 ≤ level) :=
  deleteDeeper_spec level it m p

/-- **list_numbers_order_free**: the numbers an ordered list's items get (`createListChunk`) are
the same however Go ranges over the counters map each time it resets the deeper levels -/
theorem list_numbers_order_free (iter : List (Int × Int) → List (Int × Int)) (hiter : ∀ m, (iter m).Perm m)
    (levels : List Int) : numberItems iter levels = numberItems id levels :=
  numberFrom_order_free iter hiter _ levels

example : numberItems List.reverse [0, 1, 1, 2, 0, 1] = [1, 1, 2, 1, 2, 1] := by decide
example : ∀ m : List (Int × Int), (List.reverse m).Perm m := List.reverse_perm

/-! ### `text.(*Extractor).mergeResources` -/

/-- **merge_resources_order_free**: the resources a Form XObject runs under are the same dictionary
for every iteration order of the page's resources, the form's resources and all their
sub-dictionaries -/
theorem merge_resources_order_free (parent child itParent itChild : List (List Nat × RVal))
    (subP subC : List Nat → List (List Nat × Nat))
    (hp : itParent.Perm parent) (hc : itChild.Perm child)
    (ndp : (parent.map Prod.fst).Nodup) (ndc : (child.map Prod.fst).Nodup)
    (hsp : ∀ k, (subP k).Perm (subOf parent k)) (hsc : ∀ k, (subC k).Perm (subOf child k))
    (ndsp : ∀ k, ((subOf parent k).map Prod.fst).Nodup) (ndsc : ∀ k, ((subOf child k).map Prod.fst).Nodup) :
    mergeResourcesVia parent itParent itChild subP subC = mergeResources parent child :=
  mergeResourcesVia_order_free parent child itParent itChild subP subC hp hc ndp ndc hsp hsc ndsp ndsc

/-- **merge_resources_spec**: the form's entry wins; `/Font`, `/XObject`, … dictionaries present on
both sides are overlaid name by name (form over page); the page's other entries stay -/
theorem merge_resources_spec (parent child : List (List Nat × RVal))
    (ndp : (parent.map Prod.fst).Nodup) (ndc : (child.map Prod.fst).Nodup) (k : List Nat) :
    mergeResources parent child k = mergeResourcesSpec parent child k :=
  mergeResources_spec parent child ndp ndc k

/-! ### defects of this round: first match in a map, lists built in map order -/

/-- **nav_document_order_free** (`findNavDocument`, `findNCX` after the repair: keys of the matching
manifest items sorted, the smallest taken) -/
theorem nav_document_order_free {κ β : Type} [DecidableEq κ] {leK : κ → κ → Bool}
    (anti : ∀ a b, leK a b = true → leK b a = true → a = b)
    {s₁ s₂ : List κ → List κ} (h₁ : IsSort leK s₁) (h₂ : IsSort leK s₂) (p : β → Bool)
    (it₁ it₂ : List (κ × β)) (h : it₁.Perm it₂) (hnd : (it₁.map Prod.fst).Nodup) :
    minMatch s₁ p it₁ = minMatch s₂ p it₂ :=
  minMatch_order_free anti h₁ h₂ p it₁ it₂ h hnd

example : minMatch sortInts (fun b => b) [(3, true), (1, false), (2, true)] = some (2, true) := by decide

/-- **nav_document_pinned_counterexample**: `for _, item := range manifest { if nav(item) { return
&item } }` — a package with two navigation documents got its table of contents from either -/
theorem nav_document_pinned_counterexample :
    firstMatch (fun (b : Bool) => b) [(1, true), (2, true)] ≠ firstMatch (fun (b : Bool) => b) [(2, true), (1, true)] := by
  decide

/-- **page_images_order_free** (`ExtractPageImages` after the repair: names sorted, then visited) -/
theorem page_images_order_free {κ β γ : Type} [DecidableEq κ] {leK : κ → κ → Bool}
    (anti : ∀ a b, leK a b = true → leK b a = true → a = b)
    {s₁ s₂ : List κ → List κ} (h₁ : IsSort leK s₁) (h₂ : IsSort leK s₂) (f : κ → β → Option γ)
    (it₁ it₂ : List (κ × β)) (h : it₁.Perm it₂) (hnd : (it₁.map Prod.fst).Nodup) :
    collectSorted s₁ f it₁ = collectSorted s₂ f it₂ :=
  collectSorted_order_free anti h₁ h₂ f it₁ it₂ h hnd

/-- **page_images_pinned_counterexample**: the list built in iteration order differs between two
orders of the same XObject dictionary … -/
theorem page_images_pinned_counterexample :
    collectPinned (fun (k : Int) (v : Int) => some (k, v)) [(1, 10), (2, 20)]
      ≠ collectPinned (fun (k : Int) (v : Int) => some (k, v)) [(2, 20), (1, 10)] := by decide

/-- … **page_images_pinned_same_set**: but only in arrangement — the elements are the same -/
theorem page_images_pinned_same_set {κ β γ : Type} (f : κ → β → Option γ) (it₁ it₂ : List (κ × β))
    (h : it₁.Perm it₂) : (collectPinned f it₁).Perm (collectPinned f it₂) :=
  collectPinned_perm f it₁ it₂ h

/-- **hf_regions_order_free** (`findRepeatingPatterns` after the repair: groups visited in the
order of their normalised text, regions sorted stably by confidence): the list of header/footer
regions — `GetHeaderTexts`, `Summary` — is the same for every iteration order of `groups` -/
theorem hf_regions_order_free {κ β γ : Type} [DecidableEq κ] {leK : κ → κ → Bool}
    (anti : ∀ a b, leK a b = true → leK b a = true → a = b)
    {s₁ s₂ : List κ → List κ} (h₁ : IsSort leK s₁) (h₂ : IsSort leK s₂) (f : κ → β → Option γ)
    (score : γ → Int) (it₁ it₂ : List (κ × β)) (h : it₁.Perm it₂) (hnd : (it₁.map Prod.fst).Nodup) :
    regionsSorted s₁ f score it₁ = regionsSorted s₂ f score it₂ :=
  regionsSorted_order_free anti h₁ h₂ f score it₁ it₂ h hnd

/-- … and is in order of confidence -/
theorem hf_regions_sorted {κ β γ : Type} [DecidableEq κ] (sortK : List κ → List κ) (f : κ → β → Option γ)
    (score : γ → Int) (it : List (κ × β)) :
    (regionsSorted sortK f score it).Pairwise (fun a b => score a ≥ score b) :=
  stableDesc_sorted score _

/-- **hf_regions_pinned_counterexample**: regions appended in iteration order and then sorted by
confidence alone (any sort, `sort.Slice` included) — equally confident regions came out in
either order -/
theorem hf_regions_pinned_counterexample :
    stableDesc (fun (r : Int × Int) => r.2) (collectPinned (fun (k : Int) (v : Int) => some (k, v)) [(1, 7), (2, 7)])
      ≠ stableDesc (fun (r : Int × Int) => r.2) (collectPinned (fun (k : Int) (v : Int) => some (k, v)) [(2, 7), (1, 7)]) := by
  decide

example : regionsSorted sortInts (fun (k : Int) (v : Int) => some (k, v)) (fun r => r.2) [(2, 7), (1, 7), (3, 9)]
    = [(3, 9), (1, 7), (2, 7)] := by decide

end Tabula.C03Order
