import TabulaModel.Props.C04Bytes
import TabulaModel.Lemmas.XrefCacheRefine
import TabulaModel.Lemmas.XrefResolveGen
/-!
# C04 — the public API on the bytes of ANY file, with every cache the reader and the resolver
# package keep: the answer of a call never depends on the calls before it

`Model/XrefCached.lean` is `Reader.GetObject` as the code has it - `objCache` with `objNeed`,
`objStmCache` with `stmNeed` and the wrappers' own lazy state, `loading`, `reach`, `nestCached`,
`ClearCache` - on every byte string; `Model/XrefResolve.lean` puts `Resolve`, `ResolveDeep` and the
resolver package's entry points (one long-lived `ObjectResolver` with its `visited`, `done`,
`need`, `reach`, `currentDepth`) on top. Until now the byte-level model was cache-free
(`XrefFile.getObjectB`) and the cached implementation was only compared with it; the refinement
was proved for the abstract model and on chain files. Here it is proved for all files:

* `cache_never_changes_an_answer` — from any sound cache contents, at the top level;
* `cache_need_is_fresh_need` — what is remembered with a cached object is the number of nested
  loads a fresh reader needs for it (so counting a hit "as the load it stands for" is exact);
* `api_history_free` — every answer of every sequence of calls (GetObject, ClearCache, Resolve,
  ResolveDeep, the resolver package's ten entry points incl. Reset, failed calls included) is
  the answer of the same call made alone on a freshly opened reader with a fresh resolver;
* `api_answers_independent_of_prefix`, `api_from_sound_caches`;
* `get_object_in_any_history` — … and for GetObject that answer is `XrefFile.lookup`;
* `newest_revision_in_any_history`, `newest_revision_compressed_in_any_history`,
  `deleted_or_unknown_is_error_in_any_history` — the property statement composed end to end,
  from the bytes to the answer of a call in the middle of any history;
* `resolver_failed_calls_leave_no_trace`, `deep_resolution_terminates_by_itself`.
-/
namespace Tabula.C04A
open Tabula.XrefFile Tabula.XrefBytes Tabula.Pdf Tabula.Reader Tabula.C04B Tabula.XrefC Tabula.XrefR

/-- `GetObject(n)` on a freshly opened reader: the cache-free lookup -/
def fresh (ext : Reader.Ext) (file : List Nat) (x : RawSection) (n : Int) : Option PVal :=
  getObjectB ext file x (maxNestedLoads + 1) [] n

/-- the cached reader answers like a fresh one on every state that satisfies the invariant -/
theorem getTop_sim (ext : Reader.Ext) (keep : Bool) (file : List Nat) (x : RawSection) :
    Sim (getTop ext keep file x) (fresh ext file x) (CInv ext file x) := by
  intro n s hs
  obtain ⟨h1, h2, _⟩ := getC_refines ext file x keep (maxNestedLoads + 1) [] n s hs
    (fun p hp => by cases hp) (by simp)
  refine ⟨?_, h2⟩
  unfold getTop fresh
  rw [h1, getObjectB_top]
  rfl

/-- **cache_never_changes_an_answer** (every file, every table, any sound cache contents):
`GetObject(n)` on a reader whose caches hold only answers of a fresh reader (with their needs)
is the answer of a fresh reader, and the caches stay sound -/
theorem cache_never_changes_an_answer (ext : Reader.Ext) (keep : Bool) (file : List Nat) (x : RawSection)
    (st : RSt) (hst : CInv ext file x st) (n : Int) :
    (getTop ext keep file x n st).1 = getObjectB ext file x (maxNestedLoads + 1) [] n ∧
      CInv ext file x (getTop ext keep file x n st).2 :=
  getTop_sim ext keep file x n st hst

/-- satisfiable: the caches of a freshly opened reader, and after `ClearCache` -/
example (ext : Reader.Ext) (file : List Nat) (x : RawSection) : CInv ext file x {} := cinv_empty ext file x 0
example (ext : Reader.Ext) (file : List Nat) (x : RawSection) (st : RSt) : CInv ext file x (clearC st) :=
  cinv_clear ext file x st

/-- the reader's state after a sequence of `GetObject` / `ClearCache` calls -/
def cachesAfter (ext : Reader.Ext) (keep : Bool) (file : List Nat) (x : RawSection) : RSt → List (Option Int) → RSt
  | st, [] => st
  | st, some n :: ops => cachesAfter ext keep file x (getTop ext keep file x n st).2 ops
  | st, none :: ops => cachesAfter ext keep file x (clearC st) ops

/-- every cache state a program can reach is sound -/
theorem reachable_caches_sound (ext : Reader.Ext) (keep : Bool) (file : List Nat) (x : RawSection)
    (ops : List (Option Int)) : CInv ext file x (cachesAfter ext keep file x {} ops) := by
  suffices h : ∀ st, CInv ext file x st → CInv ext file x (cachesAfter ext keep file x st ops) from
    h {} (cinv_empty ext file x 0)
  induction ops with
  | nil => intro st h; exact h
  | cons op ops ih =>
    intro st h
    cases op with
    | none => exact ih _ (cinv_clear ext file x st)
    | some n => exact ih _ (getTop_sim ext keep file x n st h).2

/-- **cache_need_is_fresh_need**: whatever was looked up before, what `objNeed` remembers with a
cached object is the number of objects a fresh reader loads inside each other for it (`getD`
with that budget answers, with less it does not): the hit is refused exactly where the load
would be -/
theorem cache_need_is_fresh_need (ext : Reader.Ext) (keep : Bool) (file : List Nat) (x : RawSection)
    (ops : List (Option Int)) (n : Int) (v : PVal) (k : Nat)
    (h : (cachesAfter ext keep file x {} ops).obj.lookup n = some (v, k)) :
    getD ext file x k n = some (v, k) ∧ (∀ b, b < k → getD ext file x b n = none) ∧
      getObjectB ext file x (maxNestedLoads + 1) [] n = if k ≤ maxNestedLoads then some v else none := by
  have hg := (reachable_caches_sound ext keep file x ops).obj n v k h
  refine ⟨hg, fun b hb => getD_below_need ext file x k b n v k hg hb, ?_⟩
  rw [getObjectB_top, getD_of_need ext file x k maxNestedLoads n v k hg]
  by_cases hk : k ≤ maxNestedLoads <;> simp [hk]

/-! ## the whole API -/

/-- the answer of one call made alone on a freshly opened reader with a fresh resolver -/
def alone (ext : Reader.Ext) (keep : Bool) (file : List Nat) (x : RawSection) (maxDepth : Nat)
    (ord : List (List Nat × DObj) → List (List Nat × DObj)) (op : Api.Op) : Option (Option DObj) :=
  (Api.step (getTop ext keep file x) clearC maxDepth ord { rd := ({} : RSt) } op).1

theorem run_pure_alone (spec : Int → Option PVal) (maxDepth : Nat) (ord : List (List Nat × DObj) → List (List Nat × DObj)) :
    ∀ (ops : List Api.Op) (p : PSt), p.depth = 0 →
      Api.run (pureGet spec) id maxDepth ord { rd := (), res := p } ops =
        ops.map fun op => (Api.step (pureGet spec) id maxDepth ord { rd := (), res := {} } op).1 := by
  intro ops
  induction ops with
  | nil => intro p _; rfl
  | cons op ops ih =>
    intro p hp
    simp only [Api.run, List.map_cons]
    have h1 := api_run_resolver_history_free (pureGet spec) id maxDepth ord [op]
      { rd := (), res := p } { rd := (), res := {} } rfl hp rfl
    simp only [Api.run, List.cons.injEq, and_true] at h1
    rw [h1]
    have hd := api_step_depth (pureGet spec) id maxDepth ord { rd := (), res := p } op hp
    have := ih (Api.step (pureGet spec) id maxDepth ord { rd := (), res := p } op).2.res hd
    rw [← this]

/-- **api_from_sound_caches**: from any sound cache contents and any state a resolver can be in
between calls, every answer of every sequence of calls is the answer of the same call made
alone on a freshly opened reader with a fresh resolver -/
theorem api_from_sound_caches (ext : Reader.Ext) (keep : Bool) (file : List Nat) (x : RawSection)
    (maxDepth : Nat) (ord : List (List Nat × DObj) → List (List Nat × DObj)) (st : RSt) (hst : CInv ext file x st)
    (p : PSt) (hp : p.depth = 0) (ops : List Api.Op) :
    Api.run (getTop ext keep file x) clearC maxDepth ord { rd := st, res := p } ops =
      ops.map (alone ext keep file x maxDepth ord) := by
  have hsim := getTop_sim ext keep file x
  have hclear : ∀ s, CInv ext file x s → CInv ext file x (clearC s) := fun s _ => cinv_clear ext file x s
  rw [api_run_sim hsim clearC hclear maxDepth ord ops st p hst, run_pure_alone _ _ _ ops p hp]
  apply List.map_congr_left
  intro op _
  have h1 := api_run_sim hsim clearC hclear maxDepth ord [op] {} {} (cinv_empty ext file x 0)
  simp only [Api.run, List.cons.injEq, and_true] at h1
  unfold alone
  exact h1.symm

/-- **api_history_free** (the last sentence of the property, on the bytes, for the whole public
surface): open any file; whatever sequence of `GetObject`, `ClearCache`, `Resolve`,
`ResolveDeep` and resolver-package calls (`Resolve`, `ResolveDeep`, `ResolveReference`,
`ResolveReferenceDeep`, `GetObject`, `GetObjectResolved`, `GetObjectResolvedDeep`,
`ResolveDict`/`ResolveArray`, `Reset` on ONE long-lived resolver) a program makes - calls that
fail included -, every answer is the answer of the same call made alone on a freshly opened
reader with a fresh resolver -/
theorem api_history_free (ext : Reader.Ext) (keep : Bool) (file : List Nat) (maxDepth : Nat)
    (ord : List (List Nat × DObj) → List (List Nat × DObj)) (ops : List Api.Op) (x : RawSection)
    (hopen : openFile ext file = .ok x) :
    Api.session ext keep file maxDepth ord ops = .ok (ops.map (alone ext keep file x maxDepth ord)) := by
  unfold Api.session
  rw [hopen]
  simp only
  rw [api_from_sound_caches ext keep file x maxDepth ord {} (cinv_empty ext file x 0) {} rfl ops]

/-- **api_answers_independent_of_prefix**: the answers to `ops` are the same after any sequence of
earlier calls -/
theorem api_answers_independent_of_prefix (ext : Reader.Ext) (keep : Bool) (file : List Nat) (x : RawSection)
    (maxDepth : Nat) (ord : List (List Nat × DObj) → List (List Nat × DObj)) (before ops : List Api.Op) :
    (Api.run (getTop ext keep file x) clearC maxDepth ord { rd := ({} : RSt) } (before ++ ops)).drop before.length =
      Api.run (getTop ext keep file x) clearC maxDepth ord { rd := ({} : RSt) } ops := by
  rw [api_from_sound_caches ext keep file x maxDepth ord {} (cinv_empty ext file x 0) {} rfl,
    api_from_sound_caches ext keep file x maxDepth ord {} (cinv_empty ext file x 0) {} rfl,
    List.map_append]
  simp

/-- what a single call answers on a fresh reader, for the lookups that hand out the stored
value: `GetObject(n)`, `Resolve(n g R)`, and on the resolver `GetObject(n)` and
`ResolveReference(n g R)` - the cache-free lookup of `n` (the generation of a reference is not
looked at) -/
theorem alone_stored (ext : Reader.Ext) (keep : Bool) (file : List Nat) (x : RawSection) (maxDepth : Nat)
    (ord : List (List Nat × DObj) → List (List Nat × DObj)) (n g : Int) :
    alone ext keep file x maxDepth ord (.get n) = some ((fresh ext file x n).map ofPVal) ∧
    alone ext keep file x maxDepth ord (.resolve n g) = some ((fresh ext file x n).map ofPVal) ∧
    alone ext keep file x maxDepth ord (.pGet n) = some ((fresh ext file x n).map ofPVal) ∧
    alone ext keep file x maxDepth ord (.pRef n g) = some ((fresh ext file x n).map ofPVal) := by
  have h := (getTop_sim ext keep file x n {} (cinv_empty ext file x 0)).1
  unfold alone
  simp only [Api.step, resolveR, h, and_self]

/-- **get_object_in_any_history**: open any file; in the middle of any sequence of calls,
`GetObject(n)` answers what `reader.Open(file).GetObject(n)` answers as the first call -/
theorem get_object_in_any_history (ext : Reader.Ext) (keep : Bool) (file : List Nat) (maxDepth : Nat)
    (ord : List (List Nat × DObj) → List (List Nat × DObj)) (before after : List Api.Op) (n : Int)
    (v : Option PVal) (hl : lookup ext file n = .ok v) :
    ∃ rs, Api.session ext keep file maxDepth ord (before ++ .get n :: after) = .ok rs ∧
      rs[before.length]? = some (some (v.map ofPVal)) := by
  unfold lookup at hl
  cases hopen : openFile ext file with
  | error e => rw [hopen] at hl; cases hl
  | ok x =>
    rw [hopen] at hl
    simp only [Except.ok.injEq] at hl
    refine ⟨_, api_history_free ext keep file maxDepth ord _ x hopen, ?_⟩
    rw [List.map_append, List.getElem?_append_right (by simp)]
    simp only [List.length_map, Nat.sub_self, List.map_cons, List.getElem?_cons_zero, Option.some.injEq]
    rw [(alone_stored ext keep file x maxDepth ord n 0).1]
    simp only [fresh, hl]

/-- **newest_revision_in_any_history** (the property statement, end to end on the bytes, for
objects stored plainly): the file and its revisions as in `C04B.lookup_newest_revision`; in the
middle of ANY sequence of calls on the opened reader - lookups of other objects, of this object,
deep resolutions that failed, cache clears - `GetObject(num)` is exactly the value the newest
revision defining `num` holds -/
theorem newest_revision_in_any_history (ext : Reader.Ext) (keep : Bool) (file : List Nat) (start : Int)
    (revs : List (Int × RawSection)) (hhdr : headerOk file = true)
    (hfind : findXRef file = .ok start) (hc : RevChain ext file start revs)
    (hnd : (revs.map Prod.fst).Nodup) (num : Nat) (e : RawEntry) (b : Body)
    (hnew : newestI (revs.map Prod.snd).reverse (num : Int) = some e) (he : e.kind = .inUse)
    (hobj : ObjectAt file e.f1 num b)
    (maxDepth : Nat) (ord : List (List Nat × DObj) → List (List Nat × DObj)) (before after : List Api.Op) :
    ∃ rs, Api.session ext keep file maxDepth ord (before ++ .get (num : Int) :: after) = .ok rs ∧
      rs[before.length]? = some (some (some (ofPVal b.value))) :=
  get_object_in_any_history ext keep file maxDepth ord before after (num : Int) (some b.value)
    (lookup_newest_revision ext file start revs hhdr hfind hc hnd num e b hnew he hobj)

/-- **newest_revision_compressed_in_any_history** (the same for objects stored inside object
streams): the file, its revisions and the object stream as in
`C04B.lookup_newest_revision_compressed`; in the middle of any sequence of calls - the object
stream may or may not be in `objStmCache`, its other members may or may not have been asked for
- `GetObject(m.1)` is exactly the value of the member -/
theorem newest_revision_compressed_in_any_history (ext : Reader.Ext) (keep : Bool) (file : List Nat) (start : Int)
    (revs : List (Int × RawSection)) (hhdr : headerOk file = true)
    (hfind : findXRef file = .ok start) (hc : RevChain ext file start revs)
    (hnd : (revs.map Prod.fst).Nodup)
    (e se : RawEntry) (stm : Nat) (pre : Sep) (kvs : List SObj) (close s3 : Sep) (seol : StreamEol)
    (raw w4 : List Nat) (s5 : Sep) (a b : List (Nat × SObj)) (m : Nat × SObj)
    (hnew : newestI (revs.map Prod.snd).reverse (m.1 : Int) = some e) (he : e.kind = .compressed)
    (hstm : e.f1 = (stm : Int)) (hidx : e.f2 = (a.length : Int))
    (hsnew : newestI (revs.map Prod.snd).reverse (stm : Int) = some se) (hse : se.kind ≠ .compressed)
    (hobj : ObjectAt file se.f1 stm (.stream pre kvs close s3 seol raw w4 s5))
    (hT : dget (valueKVs kvs) Reader.kType = some (.name kObjStm))
    (hN : dget (valueKVs kvs) kN = some (.int (pairsFrom 0 (a ++ m :: b)).length))
    (hF : dget (valueKVs kvs) kFirst = some (.int (headerText (pairsFrom 0 (a ++ m :: b))).length))
    (hE : dget (valueKVs kvs) kExtends = none)
    (hdec : Reader.decodeStream ext (valueKVs kvs) raw =
      some (headerText (pairsFrom 0 (a ++ m :: b)) ++ bodiesOf (a ++ m :: b)))
    (hnum : ∀ x ∈ a ++ m :: b, x.1 < 9223372036854775808)
    (hsize : (bodiesOf (a ++ m :: b)).length < 9223372036854775808)
    (hv : m.2.Valid false) (hd : m.2.value.depth ≤ maxNestingDepth)
    (maxDepth : Nat) (ord : List (List Nat × DObj) → List (List Nat × DObj)) (before after : List Api.Op) :
    ∃ rs, Api.session ext keep file maxDepth ord (before ++ .get (m.1 : Int) :: after) = .ok rs ∧
      rs[before.length]? = some (some (some (ofObj m.2.value))) :=
  get_object_in_any_history ext keep file maxDepth ord before after (m.1 : Int) (some (.obj m.2.value))
    (lookup_newest_revision_compressed ext file start revs hhdr hfind hc hnd e se stm pre kvs close s3 seol raw w4 s5
      a b m hnew he hstm hidx hsnew hse hobj hT hN hF hE hdec hnum hsize hv hd)

/-- satisfiable, together: the file of `C04B.end_to_end_witness` (`%PDF-1.7`, `1 0 obj 42 endobj`,
a classic table, `startxref`) - in the middle of every sequence of calls `GetObject(1)` is 42 and
`GetObject(2)` is an error, for every inflate function, depth limit and map order -/
theorem api_end_to_end_witness (ext : Reader.Ext) (keep : Bool) (maxDepth : Nat)
    (ord : List (List Nat × DObj) → List (List Nat × DObj)) :
    ∃ file : List Nat, ∀ before after : List Api.Op,
      (∃ rs, Api.session ext keep file maxDepth ord (before ++ .get 1 :: after) = .ok rs ∧
        rs[before.length]? = some (some (some (.int 42)))) ∧
      (∃ rs, Api.session ext keep file maxDepth ord (before ++ .get 2 :: after) = .ok rs ∧
        rs[before.length]? = some (some none)) := by
  obtain ⟨file, h1, h2⟩ := end_to_end_witness ext
  refine ⟨file, fun before after => ⟨?_, ?_⟩⟩
  · exact get_object_in_any_history ext keep file maxDepth ord before after 1 _ h1
  · exact get_object_in_any_history ext keep file maxDepth ord before after 2 _ h2

/-- **deleted_or_unknown_is_error_in_any_history**: if the newest revision that mentions `n`
marks it free, or no revision mentions it, `GetObject(n)` is an error in the middle of any
sequence of calls - also right after lookups that cached older objects -/
theorem deleted_or_unknown_is_error_in_any_history (ext : Reader.Ext) (keep : Bool) (file : List Nat) (start : Int)
    (revs : List (Int × RawSection)) (hhdr : headerOk file = true)
    (hfind : findXRef file = .ok start) (hc : RevChain ext file start revs)
    (hnd : (revs.map Prod.fst).Nodup) (n : Int)
    (hnew : newestI (revs.map Prod.snd).reverse n = none ∨
      ∃ e, newestI (revs.map Prod.snd).reverse n = some e ∧ e.kind = .free)
    (maxDepth : Nat) (ord : List (List Nat × DObj) → List (List Nat × DObj)) (before after : List Api.Op) :
    ∃ rs, Api.session ext keep file maxDepth ord (before ++ .get n :: after) = .ok rs ∧
      rs[before.length]? = some (some none) :=
  get_object_in_any_history ext keep file maxDepth ord before after n none
    (lookup_deleted_or_unknown_is_error ext file start revs hhdr hfind hc hnd n hnew)

/-- **resolver_failed_calls_leave_no_trace** (the resolver package's own state over call
histories): two resolvers on the same reader state that are both between calls (depth counter
0) - whatever each was used for before, whatever failed - answer every further sequence of calls
alike -/
theorem resolver_failed_calls_leave_no_trace {σ : Type} (get : Int → σ → Option PVal × σ) (clear : σ → σ)
    (maxDepth : Nat) (ord : List (List Nat × DObj) → List (List Nat × DObj)) (ops : List Api.Op) (st1 st2 : Api.St σ)
    (hrd : st1.rd = st2.rd) (h1 : st1.res.depth = 0) (h2 : st2.res.depth = 0) :
    Api.run get clear maxDepth ord st1 ops = Api.run get clear maxDepth ord st2 ops :=
  api_run_resolver_history_free get clear maxDepth ord ops st1 st2 hrd h1 h2

/-- … and a resolver IS between calls with depth counter 0 after every call, failed or not -/
theorem resolver_depth_counter_restored {σ : Type} (get : Int → σ → Option PVal × σ) (clear : σ → σ)
    (maxDepth : Nat) (ord : List (List Nat × DObj) → List (List Nat × DObj)) (st : Api.St σ) (op : Api.Op)
    (h : st.res.depth = 0) : (Api.step get clear maxDepth ord st op).2.res.depth = 0 :=
  api_step_depth get clear maxDepth ord st op h

/-- **cached_lookup_bounded** (bounded work with the caches): the lookup the cached reader makes
(`getC` with 17 units of nesting fuel from an empty `loading` set) never runs out of that fuel -
more fuel gives the same answer AND the same caches, on every file, table and cache contents -/
theorem cached_lookup_bounded (ext : Reader.Ext) (keep : Bool) (file : List Nat) (x : RawSection) (n : Int)
    (st : RSt) (k : Nat) :
    getC ext keep file x (maxNestedLoads + 1 + k) [] n st = getTop ext keep file x n st :=
  getC_fuel ext keep file x _ _ [] n st (by simp) (by simp)

/-- **deep_resolution_terminates_by_itself**: the structural fuel of the two `ResolveDeep` models
(one unit per level) is never what ends a call: more fuel gives the same answer on every
object graph, cyclic ones included - `Reader.ResolveDeep` is at most `maxResolveDepth + 2`
levels deep, the resolver package's at most `maxDepth + 1` -/
theorem deep_resolution_terminates_by_itself {σ : Type} (get : Int → σ → Option PVal × σ) (obj : DObj) (s : σ)
    (maxDepth : Nat) (ord : List (List Nat × DObj) → List (List Nat × DObj)) (deep : Bool) (p : PSt) (k : Nat) :
    rdeep get (maxResolveDepth + 2 + k) [] obj 0 [] s = rdeep get (maxResolveDepth + 2) [] obj 0 [] s ∧
    resolveP get maxDepth ord deep (maxDepth + 1 + k) obj p s = resolveP get maxDepth ord deep (maxDepth + 1) obj p s :=
  ⟨rdeep_fuel get _ _ [] obj 0 [] s (by omega) (by omega),
   resolveP_fuel get maxDepth ord deep _ _ obj p s (by omega) (by omega)⟩

end Tabula.C04A
