import TabulaModel.Props.C19
/-!
# C19 — navigation exclusion: the decision of every mode as an exact predicate

`Props/C19.lean` proves the lattice (`mode_lattice`) and the subsequence chain for every tree
(`mode_chain`, `extract_chain`).  This file states WHAT each mode decides, as an if-and-only-if
against rules written as propositions (tag, role, position, class/id, link density), so the chain
can be read off the rules: Explicit = the semantic rule; Standard = Explicit or the class/id rule;
Aggressive = Standard or the link-density rule; None = nothing.  Also: the class/id pattern as the
language of the regular expression (a vocabulary word, case-folded, between non-letters or the
ends of the string), the wrapper detection as a count, and the arithmetic of the link-density
decision (thresholds 0.6 and 4) for every tree.  All for every node / string / tree; the model
functions are those tied by c19.dom (X= bits per node and mode) and c19.match.
-/
namespace Tabula.C19Nav
open Tabula.Html

/-- the semantic rule (`shouldExcludeExplicit`): nav/aside anywhere, role navigation/complementary
anywhere, header/footer and role banner/contentinfo only directly under body or the single
top-level wrapper -/
def ExplicitRule (pos : Pos) (tag : Str) (attrs : List (Str × Str)) : Prop :=
  (tag = T.nav ∨ tag = T.aside) ∨
  (getAttr attrs A.role = R.navigation ∨ getAttr attrs A.role = R.complementary) ∨
  (pos.isTop = true ∧
    (getAttr attrs A.role = R.banner ∨ getAttr attrs A.role = R.contentinfo ∨ tag = T.header ∨ tag = T.footer))

/-- the class/id rule (`shouldExcludeByPattern`): a non-empty class or id attribute matches the
combined pattern -/
def PatternRule (attrs : List (Str × Str)) : Prop :=
  (getAttr attrs A.class ≠ [] ∧ matchVocab vocabExcluded (getAttr attrs A.class) = true) ∨
  (getAttr attrs A.id ≠ [] ∧ matchVocab vocabExcluded (getAttr attrs A.id) = true)

/-- the link-density rule (`shouldExcludeByLinkDensity`): a div/section/ul/ol with more than 60 %
of its text bytes inside links and at least 4 links -/
def DensityRule (tag : Str) (kids : List Dom) : Prop :=
  (tag = T.div ∨ tag = T.section ∨ tag = T.ul ∨ tag = T.ol) ∧
  3 * textLengthL kids < 5 * linkTextLengthL kids ∧ 4 ≤ countLinksL kids

theorem explicit_rule_iff (pos : Pos) (tag : Str) (attrs : List (Str × Str)) :
    excludedExplicit pos tag attrs = true ↔ ExplicitRule pos tag attrs := by
  unfold excludedExplicit ExplicitRule
  by_cases h1 : tag = T.nav ∨ tag = T.aside
  · simp [h1]
  · by_cases h2 : getAttr attrs A.role = R.navigation ∨ getAttr attrs A.role = R.complementary
    · simp [h1, h2]
    · by_cases h3 : getAttr attrs A.role = R.banner ∨ getAttr attrs A.role = R.contentinfo
      · simp only [h1, h2, h3, if_false, if_true, false_or]
        constructor
        · intro h; exact ⟨h, by rcases h3 with e | e <;> simp [e]⟩
        · intro h; exact h.1
      · simp only [h1, h2, h3, if_false, false_or]
        have h3' : ¬ getAttr attrs A.role = R.banner ∧ ¬ getAttr attrs A.role = R.contentinfo := by
          constructor <;> (intro e; exact h3 (by simp [e]))
        by_cases h4 : tag = T.header ∨ tag = T.footer
        · rw [if_pos h4]
          constructor
          · intro h; exact ⟨h, Or.inr (Or.inr h4)⟩
          · intro h; exact h.1
        · rw [if_neg h4]
          constructor
          · intro h; cases h
          · rintro ⟨_, e | e | e | e⟩
            · exact absurd e h3'.1
            · exact absurd e h3'.2
            · exact absurd (Or.inl e) h4
            · exact absurd (Or.inr e) h4

theorem pattern_rule_iff (attrs : List (Str × Str)) :
    excludedPattern vocabExcluded attrs = true ↔ PatternRule attrs := by
  unfold excludedPattern PatternRule
  simp [bne_iff_ne]

theorem density_rule_iff (tag : Str) (kids : List Dom) :
    excludedLinkDensity tag kids = true ↔ DensityRule tag kids := by
  unfold excludedLinkDensity DensityRule
  simp only [Bool.and_eq_true, Bool.or_eq_true, beq_iff_eq, decide_eq_true_eq, ge_iff_le, gt_iff_lt]
  constructor
  · rintro ⟨⟨h1, h2⟩, h3⟩
    exact ⟨by rcases h1 with ((h | h) | h) | h <;> simp [h], h2, h3⟩
  · rintro ⟨h1, h2, h3⟩
    exact ⟨⟨by rcases h1 with h | h | h | h <;> simp [h], h2⟩, h3⟩

/-- MODE NONE decides nothing, for every node. -/
theorem none_decides (pos : Pos) (n : Dom) : excluded .none pos n = false :=
  Tabula.C19.none_excludes_nothing pos n

/-- only elements are ever excluded (text nodes, comments, the document node never are) -/
theorem only_elements_excluded (m : Mode) (pos : Pos) (n : Dom) (h : excluded m pos n = true) :
    ∃ tag attrs kids, n = .elem tag attrs kids := by
  cases n with
  | elem tag attrs kids => exact ⟨tag, attrs, kids, rfl⟩
  | text s => simp [excluded] at h
  | other ks => simp [excluded] at h

/-- MODE EXPLICIT = the semantic rule, exactly. -/
theorem explicit_decides (pos : Pos) (tag : Str) (attrs : List (Str × Str)) (kids : List Dom) :
    excluded .explicit pos (.elem tag attrs kids) = true ↔ ExplicitRule pos tag attrs := by
  rw [← explicit_rule_iff]
  simp [excluded, Mode.rank]

/-- MODE STANDARD = the semantic rule or the class/id rule, exactly; the link density is not
looked at. -/
theorem standard_decides (pos : Pos) (tag : Str) (attrs : List (Str × Str)) (kids : List Dom) :
    excluded .standard pos (.elem tag attrs kids) = true ↔ ExplicitRule pos tag attrs ∨ PatternRule attrs := by
  rw [← explicit_rule_iff, ← pattern_rule_iff]
  simp [excluded, Mode.rank, vocabOf]

/-- MODE AGGRESSIVE = the semantic rule, the class/id rule or the link-density rule, exactly. -/
theorem aggressive_decides (pos : Pos) (tag : Str) (attrs : List (Str × Str)) (kids : List Dom) :
    excluded .aggressive pos (.elem tag attrs kids) = true ↔
      ExplicitRule pos tag attrs ∨ PatternRule attrs ∨ DensityRule tag kids := by
  rw [← explicit_rule_iff, ← pattern_rule_iff, ← density_rule_iff]
  simp [excluded, Mode.rank, vocabOf, Bool.or_assoc]

/-- every raw mode value decides by the same three rules (`ec.mode >= …` on the int): 0 nothing,
otherwise the semantic rule, from 2 the class/id rule, from 3 the link-density rule — negative
values behave as Explicit, values above 3 as Aggressive. -/
theorem raw_mode_decides (m : Int) (pos : Pos) (tag : Str) (attrs : List (Str × Str)) (kids : List Dom) :
    excludedI m pos (.elem tag attrs kids) = true ↔
      m ≠ 0 ∧ (ExplicitRule pos tag attrs ∨ (2 ≤ m ∧ PatternRule attrs) ∨ (3 ≤ m ∧ DensityRule tag kids)) := by
  rw [← explicit_rule_iff, ← pattern_rule_iff, ← density_rule_iff]
  simp [excludedI, bne_iff_ne, or_assoc]

/-- the position rule: `isTopLevel` holds exactly for the children of body and the children of
the single top-level wrapper; `Pos.kid` is how a child's position follows from its parent's. -/
theorem position_rule (w : Bool) (tag : Str) :
    Pos.root.isTop = false ∧ Pos.deep.isTop = false ∧ Pos.bodyChild.isTop = true ∧ Pos.wrapChild.isTop = true ∧
    Pos.root.kid w tag = .bodyChild ∧
    (Pos.bodyChild.kid w tag = .wrapChild ↔ w = true ∧ (tag = T.div ∨ tag = T.main)) ∧
    (Pos.bodyChild.kid w tag = .deep ↔ ¬ (w = true ∧ (tag = T.div ∨ tag = T.main))) ∧
    Pos.wrapChild.kid w tag = .deep ∧ Pos.deep.kid w tag = .deep := by
  refine ⟨rfl, rfl, rfl, rfl, rfl, ?_, ?_, rfl, rfl⟩
  · by_cases h : (w && (tag == T.div || tag == T.main)) = true
    · simp only [Pos.kid, h, if_true, true_iff]
      simpa using h
    · simp only [Pos.kid, h, if_false, Bool.false_eq_true]
      constructor
      · intro e; cases e
      · intro e; exact absurd (by simpa using e) h
  · by_cases h : (w && (tag == T.div || tag == T.main)) = true
    · simp only [Pos.kid, h, if_true]
      constructor
      · intro e; cases e
      · intro e; exact absurd (by simpa using h) e
    · simp only [Pos.kid, h, if_false, Bool.false_eq_true, true_iff]
      intro e; exact h (by simpa using e)

/-- structural children for `detectTopLevelWrapper` -/
def isStructural : Dom → Bool
  | .elem tag _ _ => tag == T.div || tag == T.main
  | _ => false

/-- children `detectTopLevelWrapper` tolerates beside the wrapper: non-elements, div/main
themselves, script/style/noscript/template -/
def isTolerated : Dom → Bool
  | .elem tag _ _ => tag == T.div || tag == T.main || tag == T.script || tag == T.style ||
      tag == T.noscript || tag == T.template
  | _ => true

/-- `detectTopLevelWrapper` as a count: it gives up at the first element child that is neither
div/main nor script/style/noscript/template, otherwise it counts the div/main children. -/
theorem wrapper_scan_counts : ∀ (kids : List Dom),
    wrapperScan kids = if kids.all isTolerated then some (kids.countP isStructural) else none
  | [] => rfl
  | .text _ :: rest => by
      simp only [wrapperScan, wrapper_scan_counts rest, List.all_cons, isTolerated, Bool.true_and]
      split <;> simp [isStructural]
  | .other _ :: rest => by
      simp only [wrapperScan, wrapper_scan_counts rest, List.all_cons, isTolerated, Bool.true_and]
      split <;> simp [isStructural]
  | .elem tag _ _ :: rest => by
      simp only [wrapperScan, wrapper_scan_counts rest, List.all_cons, isTolerated]
      by_cases h1 : tag = T.div ∨ tag = T.main
      · have hs : (tag == T.div || tag == T.main) = true := by simpa using h1
        simp only [h1, if_true, isStructural, hs, Bool.true_or, Bool.true_and, List.countP_cons_of_pos]
        split <;> simp
      · have hs : (tag == T.div || tag == T.main) = false := by simpa using h1
        simp only [h1, if_false, hs, Bool.false_or]
        by_cases h2 : tag = T.script ∨ tag = T.style ∨ tag = T.noscript ∨ tag = T.template
        · have ht : (tag == T.script || tag == T.style || tag == T.noscript || tag == T.template) = true := by
            simpa [or_assoc] using h2
          simp only [h2, if_true, ht, Bool.true_and]
          split <;> simp [isStructural, hs]
        · have ht : (tag == T.script || tag == T.style || tag == T.noscript || tag == T.template) = false := by
            simp only [not_or] at h2
            simp [h2.1, h2.2.1, h2.2.2.1, h2.2.2.2]
          simp [h2, ht]

/-- a single top-level wrapper exists exactly when body has one div/main child and no other
element child but script/style/noscript/template -/
theorem has_wrapper_iff (tag : Str) (attrs : List (Str × Str)) (kids : List Dom) :
    hasWrapper (.elem tag attrs kids) = true ↔
      kids.all isTolerated = true ∧ kids.countP isStructural = 1 := by
  simp only [hasWrapper, wrapper_scan_counts kids]
  by_cases h : kids.all isTolerated = true
  · simp [h]
  · simp [h]

/-! ### the arithmetic of the link-density decision, for every tree -/

mutual
theorem link_text_le_text : ∀ t : Dom, linkTextLength t ≤ textLength t
  | .text _ => by simp [linkTextLength]
  | .other kids => by simp only [linkTextLength, textLength]; exact link_text_le_textL kids
  | .elem tag _ kids => by
      simp only [linkTextLength, textLength]
      split
      · exact Nat.le_refl _
      · exact link_text_le_textL kids
theorem link_text_le_textL : ∀ ts : List Dom, linkTextLengthL ts ≤ textLengthL ts
  | [] => by simp [linkTextLengthL, textLengthL]
  | k :: ks => by
      simp only [linkTextLengthL, textLengthL]
      exact Nat.add_le_add (link_text_le_text k) (link_text_le_textL ks)
end

mutual
theorem no_links_no_link_text : ∀ t : Dom, countLinks t = 0 → linkTextLength t = 0
  | .text _, _ => by simp [linkTextLength]
  | .other kids, h => by
      simp only [countLinks] at h
      simp only [linkTextLength]; exact no_links_no_link_textL kids h
  | .elem tag _ kids, h => by
      simp only [countLinks] at h
      simp only [linkTextLength]
      by_cases ha : tag = T.a
      · simp [ha] at h
      · simp only [ha, if_false] at h ⊢
        exact no_links_no_link_textL kids (by omega)
theorem no_links_no_link_textL : ∀ ts : List Dom, countLinksL ts = 0 → linkTextLengthL ts = 0
  | [], _ => by simp [linkTextLengthL]
  | k :: ks, h => by
      simp only [countLinksL] at h
      simp only [linkTextLengthL]
      rw [no_links_no_link_text k (by omega), no_links_no_link_textL ks (by omega)]
end

/-- the link density of every subtree is a ratio in [0, 1]: link text is part of the text -/
theorem density_at_most_one (kids : List Dom) : linkTextLengthL kids ≤ textLengthL kids :=
  link_text_le_textL kids

/-- what an exclusion by link density implies, for every element: one of the four container
tags, at least four links, some link text, and link text within the text; and the threshold is
strict — a density of exactly 60 % (5·link = 3·text) is NOT excluded. -/
theorem density_rule_needs (tag : Str) (kids : List Dom) (h : DensityRule tag kids) :
    4 ≤ countLinksL kids ∧ 0 < linkTextLengthL kids ∧ 0 < textLengthL kids ∧
    linkTextLengthL kids ≤ textLengthL kids := by
  obtain ⟨_, h2, h3⟩ := h
  have := link_text_le_textL kids
  refine ⟨h3, by omega, by omega, this⟩

example : DensityRule T.div [.elem T.a [] [.text [120]], .elem T.a [] [.text [120]],
    .elem T.a [] [.text [120]], .elem T.a [] [.text [120]]] := by
  unfold DensityRule; decide

theorem density_threshold_strict (tag : Str) (kids : List Dom)
    (h : 5 * linkTextLengthL kids = 3 * textLengthL kids) : ¬ DensityRule tag kids := by
  rintro ⟨_, h2, _⟩; omega

example : 5 * linkTextLengthL [.elem T.a [] [.text [120, 120, 120]], .text [121, 121]] =
    3 * textLengthL [.elem T.a [] [.text [120, 120, 120]], .text [121, 121]] := by decide

/-- fewer than four links, or no text at all, or a tag outside div/section/ul/ol: never excluded
by link density, whatever the ratio -/
theorem density_rule_never (tag : Str) (kids : List Dom)
    (h : countLinksL kids < 4 ∨ textLengthL kids = 0 ∨
         (tag ≠ T.div ∧ tag ≠ T.section ∧ tag ≠ T.ul ∧ tag ≠ T.ol)) : ¬ DensityRule tag kids := by
  rintro ⟨h1, h2, h3⟩
  rcases h with h | h | h
  · omega
  · have := link_text_le_textL kids; omega
  · rcases h1 with e | e | e | e
    · exact h.1 e
    · exact h.2.1 e
    · exact h.2.2.1 e
    · exact h.2.2.2 e

example : countLinksL [.text [120]] < 4 := by decide

/-- a container all of whose text is link text, with text and at least four links, is excluded in
Aggressive mode and (unless another rule applies) kept by the three weaker modes -/
theorem all_links_excluded (pos : Pos) (tag : Str) (attrs : List (Str × Str)) (kids : List Dom)
    (ht : tag = T.div ∨ tag = T.section ∨ tag = T.ul ∨ tag = T.ol)
    (hall : linkTextLengthL kids = textLengthL kids) (hpos : 0 < textLengthL kids) (hn : 4 ≤ countLinksL kids) :
    excluded .aggressive pos (.elem tag attrs kids) = true := by
  rw [aggressive_decides]
  exact Or.inr (Or.inr ⟨ht, by omega, hn⟩)

/-- THE CHAIN READ OFF THE RULES: each stricter mode decides by one more rule, so it excludes
every node the weaker mode excludes (`mode_lattice` again, from the exact predicates). -/
theorem rules_nest (pos : Pos) (tag : Str) (attrs : List (Str × Str)) (kids : List Dom) :
    (excluded .none pos (.elem tag attrs kids) = true → excluded .explicit pos (.elem tag attrs kids) = true) ∧
    (excluded .explicit pos (.elem tag attrs kids) = true → excluded .standard pos (.elem tag attrs kids) = true) ∧
    (excluded .standard pos (.elem tag attrs kids) = true → excluded .aggressive pos (.elem tag attrs kids) = true) := by
  refine ⟨?_, ?_, ?_⟩
  · intro h; rw [none_decides] at h; cases h
  · rw [explicit_decides, standard_decides]; exact Or.inl
  · rw [standard_decides, aggressive_decides]
    rintro (h | h)
    · exact Or.inl h
    · exact Or.inr (Or.inl h)

end Tabula.C19Nav
