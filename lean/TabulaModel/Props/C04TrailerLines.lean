import TabulaModel.Lemmas.XrefTrailerLines
import TabulaModel.Props.C04Bytes
/-!
# C04, byte level — a classic table whose trailer dictionary runs over several lines

`C04B.classic_section_roundtrip` / `C04B.parseXRef_classic` ask for a trailer dictionary that
stays on one line. Writers usually lay it out over several:

    trailer
    <<
    /Size 22
    /Root 2 0 R
    >>

Here the same conclusions for every legal spelling of the dictionary whose only end-of-line
bytes are LINE FEEDS (no CR), every line of which fits the scanner's buffer, and in which `>>`
does not occur before the last line (`parseTrailer` stops reading at the first line that
contains `>>`). The one-line theorems are the special case of a single line
(`classic_section_roundtrip_oneline`).
-/
namespace Tabula.C04TL
open Tabula.XrefFile Tabula.XrefBytes Tabula.Pdf Tabula.Reader Tabula.C04B

theorem renderSep_ws10 : renderSep [.ws 10] = [10] := by simp [renderSep, SepUnit.render]

/-- the dictionary with one LF more behind it (what `parseTrailer` hands to the parser) -/
theorem dict_parse_lf (pre : Sep) (kvs : List SObj) (close : Sep)
    (hv : (SObj.dict pre kvs close).Valid false)
    (hd : (SObj.dict pre kvs close).value.depth ≤ maxNestingDepth) :
    coreParse ((SObj.dict pre kvs close).render ++ [10]) = .ok (.dict (valueKVs kvs), stateAt [10]) := by
  have hp := core_roundtrip_spelled (SObj.dict pre kvs close) [.ws 10] hv
    (by intro u hu; simp at hu; subst hu; simp [SepUnit.Ok, isWs]) hd
  rw [renderSep_ws10] at hp
  simpa [SObj.value] using hp

/-- the case in which the scanner delivers every line of the dictionary: the marker is not a
lone CR, or the dictionary does not begin with LF -/
theorem classic_section_roundtrip_first (eol : Eol) (ee : EntEol) (subs : List CSub)
    (pre : Sep) (kvs : List SObj) (close : Sep) (rest : List Nat)
    (hss : ∀ s ∈ subs, s.Ok)
    (hv : (SObj.dict pre kvs close).Valid false)
    (hd : (SObj.dict pre kvs close).value.depth ≤ maxNestingDepth)
    (hcr : 13 ∉ (SObj.dict pre kvs close).render)
    (hgt : ∀ l ∈ (lfLines (SObj.dict pre kvs close).render).dropLast, containsGtGt l = false)
    (hfit : ∀ l ∈ lfLines (SObj.dict pre kvs close).render, l.length ≤ 65534)
    (hfirst : eol.FollowOk (SObj.dict pre kvs close).render)
    (hrest : eol.FollowOk rest) :
    parseClassic (linesOf (renderClassic eol ee subs (SObj.dict pre kvs close).render rest)).1
        (linesOf (renderClassic eol ee subs (SObj.dict pre kvs close).render rest)).2 =
      .ok (classicSection subs, valueKVs kvs) := by
  rw [linesOf_classic_lines eol ee subs hss _ rest hcr hfit (dict_render_ne_nil pre kvs close) hfirst hrest]
  simp only [parseClassic, trimSpaceU_kwXref, if_true]
  rw [classicLoop_subs _ ee subs hss]
  rw [classicLoop_trailer_lines _ _ (valueKVs kvs) _ _ _ _ hgt (dict_render_gtgt pre kvs close)
    (dict_parse_lf pre kvs close hv hd)]
  simp

/-- a dictionary whose spelling begins with LF has that LF as the first unit of its leading
separator -/
theorem dict_render_lf (pre : Sep) (kvs : List SObj) (close : Sep) (t' : List Nat)
    (h : (SObj.dict pre kvs close).render = 10 :: t') :
    ∃ pre', pre = .ws 10 :: pre' ∧ (SObj.dict pre' kvs close).render = t' := by
  cases pre with
  | nil => simp [SObj.render, renderSep] at h
  | cons u pre' =>
    cases u with
    | ws b =>
      simp only [SObj.render, renderSep, List.flatMap_cons, SepUnit.render, List.cons_append,
        List.nil_append, List.cons.injEq] at h
      obtain ⟨rfl, h⟩ := h
      exact ⟨pre', rfl, by simpa [SObj.render, renderSep] using h⟩
    | comment t e => simp [SObj.render, renderSep, SepUnit.render] at h

/-- **classic_section_roundtrip_lines** (hypotheses on the list of lines): a classic
cross-reference table — `xref`, any subsections, `trailer`, then the trailer dictionary in ANY
legal spelling over ANY number of LF-separated lines (`lfLines`, = `strings.Split(·, "\\n")`),
none but the last containing `>>`, each fitting the scanner, no CR inside; any of the three
end-of-line markers between the other lines and behind the dictionary, anything after it — is
read back by `parseTraditionalXRef` as exactly the entries and the dictionary authored.
(With a lone CR as the marker and a dictionary beginning with LF the scanner takes
`trailer CR LF` for one end of line and never delivers the empty first line; the result is the
same.) -/
theorem classic_section_roundtrip_lines (eol : Eol) (ee : EntEol) (subs : List CSub)
    (pre : Sep) (kvs : List SObj) (close : Sep) (rest : List Nat)
    (hss : ∀ s ∈ subs, s.Ok)
    (hv : (SObj.dict pre kvs close).Valid false)
    (hd : (SObj.dict pre kvs close).value.depth ≤ maxNestingDepth)
    (hcr : 13 ∉ (SObj.dict pre kvs close).render)
    (hgt : ∀ l ∈ (lfLines (SObj.dict pre kvs close).render).dropLast, containsGtGt l = false)
    (hfit : ∀ l ∈ lfLines (SObj.dict pre kvs close).render, l.length ≤ 65534)
    (hrest : eol.FollowOk rest) :
    parseClassic (linesOf (renderClassic eol ee subs (SObj.dict pre kvs close).render rest)).1
        (linesOf (renderClassic eol ee subs (SObj.dict pre kvs close).render rest)).2 =
      .ok (classicSection subs, valueKVs kvs) := by
  by_cases hc : eol = .cr ∧ ∃ t', (SObj.dict pre kvs close).render = 10 :: t'
  · obtain ⟨rfl, t', ht'⟩ := hc
    obtain ⟨pre', rfl, hr'⟩ := dict_render_lf pre kvs close t' ht'
    have hv' : (SObj.dict pre' kvs close).Valid false := by
      simp only [SObj.Valid] at hv ⊢
      exact ⟨fun u hu => hv.1 u (List.mem_cons_of_mem _ hu), hv.2⟩
    have hd' : (SObj.dict pre' kvs close).value.depth ≤ maxNestingDepth := by
      simpa [SObj.value] using hd
    rw [ht'] at hcr hgt hfit ⊢
    rw [lfLines_lf] at hgt hfit
    have hcr' : 13 ∉ t' := fun h => hcr (List.mem_cons_of_mem _ h)
    have hfit' : ∀ l ∈ lfLines t', l.length ≤ 65534 := fun l hl => hfit l (List.mem_cons_of_mem _ hl)
    have hgt' : ∀ l ∈ (lfLines t').dropLast, containsGtGt l = false := by
      intro l hl
      apply hgt l
      cases hL : lfLines t' with
      | nil => exact absurd hL (lfLines_ne_nil t')
      | cons a b =>
        rw [hL] at hl
        simp only [List.dropLast_cons_cons, List.mem_cons]
        exact Or.inr hl
    rw [linesOf_classic_lines_crlf ee subs hss t' rest hcr' hfit' hrest]
    simp only [parseClassic, trimSpaceU_kwXref, if_true]
    rw [classicLoop_subs _ ee subs hss]
    subst hr'
    rw [classicLoop_trailer_lines _ _ (valueKVs kvs) _ _ _ _ hgt' (dict_render_gtgt pre' kvs close)
      (dict_parse_lf pre' kvs close hv' hd')]
    simp
  · exact classic_section_roundtrip_first eol ee subs pre kvs close rest hss hv hd hcr hgt hfit
      (fun he t' ht' => hc ⟨he, t', ht'⟩) hrest

/-- **classic_section_roundtrip_multiline**: the same with the hypotheses stated on the text
of the dictionary: no CR in it; no `>>` before its last line feed; every stretch without a line
feed at most 65534 bytes long. -/
theorem classic_section_roundtrip_multiline (eol : Eol) (ee : EntEol) (subs : List CSub)
    (pre : Sep) (kvs : List SObj) (close : Sep) (rest : List Nat)
    (hss : ∀ s ∈ subs, s.Ok)
    (hv : (SObj.dict pre kvs close).Valid false)
    (hd : (SObj.dict pre kvs close).value.depth ≤ maxNestingDepth)
    (hcr : 13 ∉ (SObj.dict pre kvs close).render)
    (hgt : ∀ a b, (SObj.dict pre kvs close).render = a ++ 10 :: b → containsGtGt a = false)
    (hfit : ∀ a l b, (SObj.dict pre kvs close).render = a ++ l ++ b → 10 ∉ l → l.length ≤ 65534)
    (hrest : eol.FollowOk rest) :
    parseClassic (linesOf (renderClassic eol ee subs (SObj.dict pre kvs close).render rest)).1
        (linesOf (renderClassic eol ee subs (SObj.dict pre kvs close).render rest)).2 =
      .ok (classicSection subs, valueKVs kvs) :=
  classic_section_roundtrip_lines eol ee subs pre kvs close rest hss hv hd hcr
    (lfLines_noGtGt _ hgt) (lfLines_fit 65534 _ hfit) hrest

/-- … and so `ParseXRef(offset)` at the offset where such a table starts, whatever precedes it -/
theorem parseXRef_classic_lines (ext : Reader.Ext) (before : List Nat) (eol : Eol) (ee : EntEol)
    (subs : List CSub) (pre : Sep) (kvs : List SObj) (close : Sep) (rest : List Nat)
    (hss : ∀ s ∈ subs, s.Ok)
    (hv : (SObj.dict pre kvs close).Valid false)
    (hd : (SObj.dict pre kvs close).value.depth ≤ maxNestingDepth)
    (hcr : 13 ∉ (SObj.dict pre kvs close).render)
    (hgt : ∀ l ∈ (lfLines (SObj.dict pre kvs close).render).dropLast, containsGtGt l = false)
    (hfit : ∀ l ∈ lfLines (SObj.dict pre kvs close).render, l.length ≤ 65534)
    (hrest : eol.FollowOk rest) :
    parseXRef ext (before ++ renderClassic eol ee subs (SObj.dict pre kvs close).render rest) before.length =
      .ok (classicSection subs, valueKVs kvs) := by
  rw [parseXRef_renderClassic]
  exact classic_section_roundtrip_lines eol ee subs pre kvs close rest hss hv hd hcr hgt hfit hrest

/-- **parseXRef_classic_multiline**: `ParseXRef(offset)` on a file that holds, at `offset`, a
classic table with a multi-line trailer dictionary — hypotheses on the text as in
`classic_section_roundtrip_multiline` -/
theorem parseXRef_classic_multiline (ext : Reader.Ext) (before : List Nat) (eol : Eol) (ee : EntEol)
    (subs : List CSub) (pre : Sep) (kvs : List SObj) (close : Sep) (rest : List Nat)
    (hss : ∀ s ∈ subs, s.Ok)
    (hv : (SObj.dict pre kvs close).Valid false)
    (hd : (SObj.dict pre kvs close).value.depth ≤ maxNestingDepth)
    (hcr : 13 ∉ (SObj.dict pre kvs close).render)
    (hgt : ∀ a b, (SObj.dict pre kvs close).render = a ++ 10 :: b → containsGtGt a = false)
    (hfit : ∀ a l b, (SObj.dict pre kvs close).render = a ++ l ++ b → 10 ∉ l → l.length ≤ 65534)
    (hrest : eol.FollowOk rest) :
    parseXRef ext (before ++ renderClassic eol ee subs (SObj.dict pre kvs close).render rest) before.length =
      .ok (classicSection subs, valueKVs kvs) :=
  parseXRef_classic_lines ext before eol ee subs pre kvs close rest hss hv hd hcr
    (lfLines_noGtGt _ hgt) (lfLines_fit 65534 _ hfit) hrest

/-- the one-line theorem `C04B.classic_section_roundtrip` is the case of a single line -/
theorem classic_section_roundtrip_oneline (eol : Eol) (ee : EntEol) (subs : List CSub)
    (pre : Sep) (kvs : List SObj) (close : Sep) (rest : List Nat)
    (hss : ∀ s ∈ subs, s.Ok)
    (hv : (SObj.dict pre kvs close).Valid false)
    (hd : (SObj.dict pre kvs close).value.depth ≤ maxNestingDepth)
    (hline : NoEol (SObj.dict pre kvs close).render)
    (hlen : (SObj.dict pre kvs close).render.length ≤ 65534)
    (hrest : eol.FollowOk rest) :
    parseClassic (linesOf (renderClassic eol ee subs (SObj.dict pre kvs close).render rest)).1
        (linesOf (renderClassic eol ee subs (SObj.dict pre kvs close).render rest)).2 =
      .ok (classicSection subs, valueKVs kvs) := by
  apply classic_section_roundtrip_lines eol ee subs pre kvs close rest hss hv hd
    (fun h => (hline 13 h).2 rfl) _ _ hrest
  · rw [lfLines_of_noEol _ hline]; intro l hl; simp at hl
  · rw [lfLines_of_noEol _ hline]; intro l hl; simp at hl; subst hl; exact hlen

/-! ### the hypotheses are satisfiable -/

/-- `<<` LF `/Prev 7` LF `>>` -/
def sampleTrailer : SObj :=
  SObj.dict [] [SObj.name [.ws 10] [.raw 80, .raw 114, .raw 101, .raw 118], SObj.int [.ws 32] false 0 7] [.ws 10]

theorem sampleTrailer_render :
    sampleTrailer.render = [60, 60, 10, 47, 80, 114, 101, 118, 32, 55, 10, 62, 62] := by
  simp [sampleTrailer, SObj.render, renderList, renderSep, SepUnit.render, renderName, printInt,
    NPiece.render, Tabula.A1.dec, Tabula.A1.decAux]

/-- its three lines -/
theorem sampleTrailer_lines :
    lfLines sampleTrailer.render = [[60, 60], [47, 80, 114, 101, 118, 32, 55], [62, 62]] := by
  rw [sampleTrailer_render]; decide

/-- the hypotheses of the theorems above (both forms) hold for a dictionary spelled over three
lines, with a two-entry table in front -/
example : sampleTrailer.Valid false ∧ sampleTrailer.value.depth ≤ maxNestingDepth ∧
    13 ∉ sampleTrailer.render ∧
    (∀ l ∈ (lfLines sampleTrailer.render).dropLast, containsGtGt l = false) ∧
    (∀ l ∈ lfLines sampleTrailer.render, l.length ≤ 65534) ∧
    (∀ a b, sampleTrailer.render = a ++ 10 :: b → containsGtGt a = false) ∧
    (∀ a l b, sampleTrailer.render = a ++ l ++ b → 10 ∉ l → l.length ≤ 65534) ∧
    CSub.Ok (0, [⟨0, 65535, false⟩, ⟨17, 0, true⟩]) := by
  have hgt : ∀ l ∈ (lfLines sampleTrailer.render).dropLast, containsGtGt l = false := by
    rw [sampleTrailer_lines]; decide
  have hfit : ∀ l ∈ lfLines sampleTrailer.render, l.length ≤ 65534 := by
    rw [sampleTrailer_lines]; intro l hl; simp at hl; rcases hl with rfl | rfl | rfl <;> simp
  refine ⟨?_, ?_, ?_, hgt, hfit, noGtGt_of_lfLines _ hgt, fit_of_lfLines _ _ hfit, ?_⟩
  · simp [sampleTrailer, SObj.Valid, ValidKVs, SepOk, SepUnit.Ok, SObj.isName, keysOf, SObj.keyBytes,
      NPiece.Ok, isWs, isDelim]
  · simp [sampleTrailer, SObj.value, Obj.depth, valueKVs, Obj.depthKV, maxNestingDepth]
  · rw [sampleTrailer_render]; decide
  · refine ⟨by decide, ?_⟩
    intro e he
    simp at he
    rcases he with rfl | rfl <;> simp [CEnt.Ok]

/-- … so: a file with anything in front, then `xref`, `0 2`, two entries, `trailer`, `<<`,
`/Prev 7`, `>>` on lines ended by LF, then anything: `ParseXRef` at that offset returns the two
entries and the dictionary `/Prev 7` -/
example (ext : Reader.Ext) (before rest : List Nat) :
    parseXRef ext (before ++ renderClassic .lf .spLf [(0, [⟨0, 65535, false⟩, ⟨17, 0, true⟩])]
        [60, 60, 10, 47, 80, 114, 101, 118, 32, 55, 10, 62, 62] rest) before.length =
      .ok ([(0, ⟨.free, 0, 65535⟩), (1, ⟨.inUse, 17, 0⟩)], [(kPrev, .int 7)]) := by
  have h := parseXRef_classic_lines ext before .lf .spLf [(0, [⟨0, 65535, false⟩, ⟨17, 0, true⟩])]
    [] [SObj.name [.ws 10] [.raw 80, .raw 114, .raw 101, .raw 118], SObj.int [.ws 32] false 0 7] [.ws 10] rest
    (by
      intro s hs; simp at hs; subst hs
      refine ⟨by decide, ?_⟩
      intro e he; simp at he
      rcases he with rfl | rfl <;> simp [CEnt.Ok])
    (by simp [SObj.Valid, ValidKVs, SepOk, SepUnit.Ok, SObj.isName, keysOf, SObj.keyBytes,
      NPiece.Ok, isWs, isDelim])
    (by simp [SObj.value, Obj.depth, valueKVs, Obj.depthKV, maxNestingDepth])
    (by have := sampleTrailer_render; unfold sampleTrailer at this; rw [this]; decide)
    (by have := sampleTrailer_lines; unfold sampleTrailer at this; rw [this]; decide)
    (by
      have := sampleTrailer_lines; unfold sampleTrailer at this; rw [this]
      intro l hl; simp at hl; rcases hl with rfl | rfl | rfl <;> simp)
    (followOk_lf rest)
  have hr := sampleTrailer_render
  unfold sampleTrailer at hr
  rw [hr] at h
  rw [h]
  simp [classicSection, numberFrom, CEnt.raw, entryOf, valueKVs, SObj.keyBytes, SObj.value, NPiece.byte, kPrev]

end Tabula.C04TL
