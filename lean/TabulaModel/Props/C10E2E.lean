import TabulaModel.Lemmas.PageSel
import TabulaModel.Lemmas.BuilderHist
import TabulaModel.Props.C10Life
import TabulaModel.Props.C10Hist
/-!
# C10 — the statement end to end, over the model of the public API

`Open(f).c₁.c₂…cₙ.Op()` in the model is: `chainFrom` (the configuration methods, each cloning
its receiver), the frame of the terminal operation (`terminal` / `termStatic`: builder error,
`ensureReader`, `ensurePDFReader`, deferred `Close`), `resolvePages`, and the page loop
(`textOf`, `fragmentsOf`, `documentOf`).  The per-mechanism theorems of `Props/C10.lean`,
`C10Life.lean` and `C10Hist.lean` are chained here into the sentences of the property:

* **selection_end_to_end** — for any chain of calls, in any order, with duplicates, ranges
  and repeated calls, interleaved with any option calls, after ANY history on the family of
  extractors: every terminal operation works on exactly the pages of the denoted set, ascending;
  `Text` is the non-empty per-page texts joined by a blank line, `Fragments` the concatenation,
  `Document` numbers each page with its true source page;
* **spelling_irrelevant** — two chains denoting the same set give the same answer to every
  operation;
* **out_of_range_end_to_end**, **inverted_range_end_to_end** — a page outside the document,
  or an inverted range anywhere in the chain, is an error of every operation that selects pages;
* **options_commute** — the option calls are idempotent and commute with each other and with
  the page calls.
-/
namespace Tabula.C10E2E
open Tabula.PageSel Tabula.Builder

/-! ## what a chain of calls configures -/

theorem derive_pages (e : Ext) (c : BCall) :
    (e.derive c).opts.pages = e.opts.pages ++ selOf [c] ∧ (e.derive c).err = (e.err || badRange [c]) ∧
    (e.derive c).format = e.format ∧ (e.derive c).hasFile = e.hasFile := by
  have hfm : e.clone.format = e.format := by unfold Ext.clone; split <;> rfl
  unfold Ext.derive
  cases c with
  | pageRange s t =>
    by_cases h : s > t
    · simp [applyCall, selOf, badRange, h, clone_opts, clone_err, clone_hasFile, hfm]
    · simp [applyCall, selOf, badRange, h, clone_opts, clone_err, clone_hasFile, hfm]
  | _ => simp [applyCall, selOf, badRange, clone_opts, clone_err, clone_hasFile, hfm]

theorem selOf_cons (c : BCall) (cs : List BCall) : selOf (c :: cs) = selOf [c] ++ selOf cs := by
  cases c <;> simp [selOf]

theorem badRange_cons (c : BCall) (cs : List BCall) :
    badRange (c :: cs) = (badRange [c] || badRange cs) := by
  cases c <;> simp [badRange]

/-- **chain_cfg**: the page list of `base.c₁…cₙ` is the base's list followed by the page
arguments of the calls in call order (`Pages` accumulates, a non-inverted `PageRange` is its
expansion, `Pages()` adds nothing); the chain is an error value iff the base was or some range
was inverted; format and file name are those of the base. -/
theorem chain_cfg (cs : List BCall) : ∀ e0 : Ext,
    (chainFrom e0 cs).opts.pages = e0.opts.pages ++ selOf cs ∧
    (chainFrom e0 cs).err = (e0.err || badRange cs) ∧
    (chainFrom e0 cs).format = e0.format ∧ (chainFrom e0 cs).hasFile = e0.hasFile := by
  induction cs with
  | nil => intro e0; simp [chainFrom, selOf, badRange]
  | cons c cs ih =>
    intro e0
    have h := ih (e0.derive c)
    obtain ⟨d1, d2, d3, d4⟩ := derive_pages e0 c
    have hc : chainFrom e0 (c :: cs) = chainFrom (e0.derive c) cs := rfl
    rw [hc, h.1, h.2.1, h.2.2.1, h.2.2.2, d1, d2, d3, d4, selOf_cons c cs, badRange_cons c cs]
    simp [List.append_assoc, Bool.or_assoc]

theorem mem_rangeList (s t p : Int) : p ∈ rangeList s t ↔ s ≤ p ∧ p ≤ t := by
  unfold rangeList
  simp only [List.mem_map, List.mem_range]
  constructor
  · rintro ⟨i, hi, rfl⟩
    omega
  · rintro ⟨h1, h2⟩
    exact ⟨(p - s).toNat, by omega, by omega⟩

/-- the set a chain denotes: `p` is selected iff some `Pages` call names it or some
`PageRange(s,t)` has `s ≤ p ≤ t` -/
theorem mem_selOf (cs : List BCall) (p : Int) :
    p ∈ selOf cs ↔ ∃ c ∈ cs, (∃ ps, c = .pages ps ∧ p ∈ ps) ∨ (∃ s t, c = .pageRange s t ∧ s ≤ p ∧ p ≤ t) := by
  induction cs with
  | nil => simp [selOf]
  | cons c cs ih =>
    rw [selOf_cons, List.mem_append, ih]
    constructor
    · rintro (h | ⟨c', hc', h⟩)
      · refine ⟨c, by simp, ?_⟩
        cases c with
        | pages ps => left; exact ⟨ps, rfl, by simpa [selOf] using h⟩
        | pageRange s t =>
          right
          by_cases hst : s > t
          · simp [selOf, hst] at h
          · simp only [selOf, hst, if_false, List.append_nil, mem_rangeList] at h
            exact ⟨s, t, rfl, h⟩
        | _ => simp [selOf] at h
      · exact ⟨c', by simp [hc'], h⟩
    · rintro ⟨c', hc', h⟩
      rcases List.mem_cons.mp hc' with rfl | hc'
      · left
        rcases h with ⟨ps, rfl, hp⟩ | ⟨s, t, rfl, h1, h2⟩
        · simpa [selOf] using hp
        · have : ¬ s > t := by omega
          simp only [selOf, this, if_false, List.append_nil, mem_rangeList]
          exact ⟨h1, h2⟩
      · exact Or.inr ⟨c', hc', h⟩

def setsHeaders : BCall → Bool
  | .excludeHeaders | .excludeHeadersAndFooters => true
  | _ => false
def setsFooters : BCall → Bool
  | .excludeFooters | .excludeHeadersAndFooters => true
  | _ => false
def setsByColumn : BCall → Bool
  | .byColumn => true
  | _ => false
def setsLayout : BCall → Bool
  | .preserveLayout => true
  | _ => false
def setsJoin : BCall → Bool
  | .joinParagraphs => true
  | _ => false

/-- **options_commute**: each option of the chain is the base's option or-ed with "some call
of the chain sets it" — so option calls are idempotent, commute with each other and with the
page calls, and `ExcludeHeadersAndFooters` is `ExcludeHeaders` and `ExcludeFooters`. -/
theorem options_commute (cs : List BCall) : ∀ e0 : Ext,
    (chainFrom e0 cs).opts.excludeHeaders = (e0.opts.excludeHeaders || cs.any setsHeaders) ∧
    (chainFrom e0 cs).opts.excludeFooters = (e0.opts.excludeFooters || cs.any setsFooters) ∧
    (chainFrom e0 cs).opts.byColumn = (e0.opts.byColumn || cs.any setsByColumn) ∧
    (chainFrom e0 cs).opts.preserveLayout = (e0.opts.preserveLayout || cs.any setsLayout) ∧
    (chainFrom e0 cs).opts.joinParagraphs = (e0.opts.joinParagraphs || cs.any setsJoin) := by
  induction cs with
  | nil => intro e0; simp [chainFrom]
  | cons c cs ih =>
    intro e0
    have hc : chainFrom e0 (c :: cs) = chainFrom (e0.derive c) cs := rfl
    obtain ⟨h1, h2, h3, h4, h5⟩ := ih (e0.derive c)
    rw [hc, h1, h2, h3, h4, h5]
    unfold Ext.derive
    cases c with
    | pageRange s t =>
      by_cases h : s > t <;>
        simp [applyCall, h, clone_opts, setsHeaders, setsFooters, setsByColumn, setsLayout, setsJoin]
    | _ =>
      simp [applyCall, clone_opts, setsHeaders, setsFooters, setsByColumn, setsLayout, setsJoin,
        Bool.or_assoc]

example : (chainFrom {} [.byColumn, .pages [2], .excludeHeadersAndFooters, .byColumn]).opts =
    (chainFrom {} [.excludeFooters, .excludeHeaders, .pages [2], .byColumn]).opts := by decide

/-! ## every terminal operation, end to end -/

/-- the frame of a terminal operation on a PDF chain whose file opens: builder error or the
selection rule -/
theorem pdf_chain_static (w : World) (k : Term) (cs : List BCall) (hw : w.openOk = true) :
    termStatic w k (chainFrom {} cs) =
      if badRange cs then .err else termBody w k (chainFrom {} cs).opts := by
  obtain ⟨_, herr, hfmt, hfile⟩ := chain_cfg cs {}
  have hf : (chainFrom {} cs).format = .pdf := hfmt
  unfold termStatic
  rw [herr, hf, hfile, C10Life.pdf_body w k _ hf]
  have hc : k.checksErr .pdf = true := by cases k <;> rfl
  cases hb : badRange cs <;> simp [hc, hw]

/-- **selection_end_to_end** (frame): after ANY history `ops` on the family grown from
`Open(f)` for a PDF of `n` pages, an extractor built by the chain `cs` — page calls in any
order, with duplicates, ranges, empty `Pages()`, interleaved with any option calls — whose
calls are well-formed and denote pages inside the document, answers EVERY terminal operation
on exactly the pages of the denoted set, ascending. -/
theorem selection_end_to_end (w : World) (n : Nat) (hw : w.openOk = true) (hn : w.pageCount = some n)
    (ops : List Op) (i : Nat) (cs : List BCall) (hl : (lineage [[]] ops)[i]? = some cs)
    (hgood : badRange cs = false) (hne : selOf cs ≠ []) (hr : InRange (selOf cs) n) (k : Term) :
    (terminal w k (exec w openBase ops) i).2 = .pages (specPages (selOf cs) n) := by
  have h := (C10Hist.answer_of_lineage w .pdf ops i cs hl).1 k
  have hbase : openBaseF .pdf = openBase := rfl
  rw [hbase] at h
  rw [h, pdf_chain_static w k cs hw, hgood]
  have hp : (chainFrom {} cs).opts.pages = selOf cs := by
    have := (chain_cfg cs {}).1
    simpa using this
  simp only [Bool.false_eq_true, if_false]
  have := C10Life.every_terminal_selects w k (chainFrom {} cs).opts n hn (by rw [hp]; exact hne) (by rw [hp]; exact hr)
  rw [this, hp]

/-- non-vacuity: a real history, a chain mixing ranges, duplicates and options -/
example : let w : World := ⟨true, some 5⟩
    let ops := [Op.nonTerm 0 .pageCount, .derive 0 (.pageRange 3 4), .term 0 .text, .derive 1 .byColumn,
      .derive 2 (.pages [4, 1, 4]), .close 0]
    (lineage [[]] ops)[3]? = some [.pageRange 3 4, .byColumn, .pages [4, 1, 4]] ∧
      badRange [.pageRange 3 4, .byColumn, .pages [4, 1, 4]] = false ∧
      selOf [.pageRange 3 4, .byColumn, .pages [4, 1, 4]] = [3, 4, 4, 1, 4] ∧
      ∀ k ∈ [Term.text, .fragments, .document, .lines, .analyze, .toMarkdown],
        (terminal w k (exec w openBase ops) 3).2 = .pages [0, 2, 3] := by decide

/-- **out_of_range_end_to_end**: a chain that names a page outside the document makes every
terminal operation fail, after any history. -/
theorem out_of_range_end_to_end (w : World) (n : Nat) (hw : w.openOk = true) (hn : w.pageCount = some n)
    (ops : List Op) (i : Nat) (cs : List BCall) (hl : (lineage [[]] ops)[i]? = some cs)
    (hne : selOf cs ≠ []) (hr : ¬ InRange (selOf cs) n) (k : Term) :
    (terminal w k (exec w openBase ops) i).2 = .err := by
  have h := (C10Hist.answer_of_lineage w .pdf ops i cs hl).1 k
  have hbase : openBaseF .pdf = openBase := rfl
  rw [hbase] at h
  rw [h, pdf_chain_static w k cs hw]
  have hp : (chainFrom {} cs).opts.pages = selOf cs := by
    have := (chain_cfg cs {}).1
    simpa using this
  split
  · rfl
  · exact C10Life.every_terminal_out_of_range w k _ n hn (by rw [hp]; exact hne) (by rw [hp]; exact hr)

example : let w : World := ⟨true, some 3⟩
    let ops := [Op.derive 0 (.pages [2]), .nonTerm 1 .pageCount, .derive 1 (.pageRange 3 4)]
    (lineage [[]] ops)[2]? = some [.pages [2], .pageRange 3 4] ∧ ¬ InRange (selOf [.pages [2], .pageRange 3 4]) 3 ∧
      ∀ k ∈ [Term.text, .blocks, .chunks], (terminal w k (exec w openBase ops) 2).2 = .err := by
  refine ⟨by decide, ?_, by decide⟩
  intro h
  have := h 4 (by decide)
  omega

/-- **inverted_range_end_to_end**: an inverted `PageRange` anywhere in the chain makes every
terminal operation and every non-terminal one fail, whatever else the chain selects — it
never means "all pages". -/
theorem inverted_range_end_to_end (w : World) (ops : List Op) (i : Nat) (cs : List BCall)
    (hl : (lineage [[]] ops)[i]? = some cs) (hbad : badRange cs = true) :
    (∀ k : Term, (terminal w k (exec w openBase ops) i).2 = .err) ∧
    (∀ k : NonTerm, (nonTerminal w k (exec w openBase ops) i).2 = .err) := by
  have h := C10Hist.answer_of_lineage w .pdf ops i cs hl
  have hbase : openBaseF .pdf = openBase := rfl
  rw [hbase] at h
  obtain ⟨_, herr, hfmt, _⟩ := chain_cfg cs {}
  have hf : (chainFrom {} cs).format = .pdf := hfmt
  constructor
  · intro k
    rw [h.1 k]
    unfold termStatic
    have hc : k.checksErr .pdf = true := by cases k <;> rfl
    rw [herr, hf, hbad]
    simp [hc]
  · intro k
    rw [h.2 k]
    unfold nonTermStatic
    rw [herr, hbad]
    simp

example : badRange [.pages [1], .pageRange 3 2] = true ∧
    (terminal ⟨true, some 3⟩ .text (exec ⟨true, some 3⟩ openBase
      [.derive 0 (.pages [1]), .derive 1 (.pageRange 3 2)]) 2).2 = .err := by decide

theorem termBody_congr (w : World) (k : Term) (o₁ o₂ : Options) (n : Nat) (hn : w.pageCount = some n)
    (h : resolvePages o₁.pages n = resolvePages o₂.pages n) : termBody w k o₁ = termBody w k o₂ := by
  unfold termBody
  simp only [hn, h]

theorem resolve_same_set (s₁ s₂ : List Int) (n : Nat) (h : ∀ p, p ∈ s₁ ↔ p ∈ s₂) :
    resolvePages s₁ n = resolvePages s₂ n := by
  by_cases h₁ : s₁ = []
  · subst h₁
    have : s₂ = [] := by
      apply List.eq_nil_iff_forall_not_mem.mpr
      intro p hp
      have := (h p).mpr hp
      simp at this
    rw [this]
  · have h₂ : s₂ ≠ [] := by
      intro e
      subst e
      apply h₁
      apply List.eq_nil_iff_forall_not_mem.mpr
      intro p hp
      have := (h p).mp hp
      simp at this
    have hspec : specPages s₁ n = specPages s₂ n := by
      unfold specPages
      apply List.filter_congr
      intro k _
      exact decide_eq_decide.mpr (h _)
    by_cases hr : InRange s₁ n
    · have hr₂ : InRange s₂ n := fun p hp => hr p ((h p).mpr hp)
      rw [C10Life.resolve_valid s₁ n h₁ hr, C10Life.resolve_valid s₂ n h₂ hr₂, hspec]
    · have hr₂ : ¬ InRange s₂ n := fun c => hr (fun p hp => c p ((h p).mp hp))
      rw [C10Life.resolve_invalid s₁ n h₁ hr, C10Life.resolve_invalid s₂ n h₂ hr₂]

/-- **spelling_irrelevant**: two extractors of one family — built in any history, by chains
that may differ in the order of the calls, in duplicates, in how ranges are cut up, in option
calls — that denote the same set of pages (and are both well-formed or both not) answer every
terminal operation on a PDF identically. -/
theorem spelling_irrelevant (w : World) (n : Nat) (hw : w.openOk = true) (hn : w.pageCount = some n)
    (ops : List Op) (i j : Nat) (cs₁ cs₂ : List BCall)
    (h₁ : (lineage [[]] ops)[i]? = some cs₁) (h₂ : (lineage [[]] ops)[j]? = some cs₂)
    (hset : ∀ p, p ∈ selOf cs₁ ↔ p ∈ selOf cs₂) (hbad : badRange cs₁ = badRange cs₂) (k : Term) :
    (terminal w k (exec w openBase ops) i).2 = (terminal w k (exec w openBase ops) j).2 := by
  have hbase : openBaseF .pdf = openBase := rfl
  have a₁ := (C10Hist.answer_of_lineage w .pdf ops i cs₁ h₁).1 k
  have a₂ := (C10Hist.answer_of_lineage w .pdf ops j cs₂ h₂).1 k
  rw [hbase] at a₁ a₂
  rw [a₁, a₂, pdf_chain_static w k cs₁ hw, pdf_chain_static w k cs₂ hw, hbad]
  split
  · rfl
  · apply termBody_congr w k _ _ n hn
    have p₁ : (chainFrom {} cs₁).opts.pages = selOf cs₁ := by simpa using (chain_cfg cs₁ {}).1
    have p₂ : (chainFrom {} cs₂).opts.pages = selOf cs₂ := by simpa using (chain_cfg cs₂ {}).1
    rw [p₁, p₂]
    exact resolve_same_set _ _ n hset

example : let w : World := ⟨true, some 6⟩
    let ops := [Op.derive 0 (.pageRange 2 4), .derive 1 (.pages [2]), .derive 0 (.pages [4, 3]),
      .derive 3 .joinParagraphs, .derive 4 (.pages [3, 2])]
    (terminal w .paragraphs (exec w openBase ops) 2).2 = (terminal w .paragraphs (exec w openBase ops) 5).2 := by
  decide

/-! ## the results themselves -/

theorem textOf_spec (pg : Nat → Except E Str) (f : Nat → Str) (idx : List Nat)
    (h : ∀ k ∈ idx, pg k = .ok (f k)) :
    textOf pg idx = .ok (sep.intercalate ((idx.map f).filter (· ≠ []))) := by
  simp only [textOf]
  rw [collect_ok pg f _ h]
  simp only [foldl_textStep, textStep_nil_left, joinNE_eq_intercalate]

theorem fragmentsOf_spec {F : Type} (pg : Nat → Except E (List F)) (f : Nat → List F) (idx : List Nat)
    (h : ∀ k ∈ idx, pg k = .ok (f k)) : fragmentsOf pg idx = .ok (idx.map f).flatten := by
  simp only [fragmentsOf]
  rw [collect_ok pg f _ h]
  simp [foldl_append_flatten]

theorem documentOf_spec (idx : List Nat) (hne : idx ≠ []) :
    documentOf idx = .ok (idx.map fun k => (⟨k + 1, k⟩ : MPage)) := by
  have hemp : idx.isEmpty = false := by cases idx <;> simp_all
  unfold documentOf
  simp only [hemp, Bool.false_eq_true, if_false, foldl_addPage, List.nil_append]

/-- **text_end_to_end**: `Open(f).c₁…cₙ.Text()` — and the same call on an extractor that was
built by those calls in the middle of any history — returns the texts of the pages of the
denoted set, in ascending page order, the non-empty ones joined by a blank line.  `f k` is
the text of page `k` under the chain's options. -/
theorem text_end_to_end (pg : Nat → Except E Str) (f : Nat → Str) (w : World) (n : Nat)
    (hw : w.openOk = true) (hn : w.pageCount = some n) (hpg : ∀ k, k < n → pg k = .ok (f k))
    (ops : List Op) (i : Nat) (cs : List BCall) (hl : (lineage [[]] ops)[i]? = some cs)
    (hgood : badRange cs = false) (hne : selOf cs ≠ []) (hr : InRange (selOf cs) n) :
    viaFrame (textOf pg) (terminal w .text (exec w openBase ops) i).2 =
      .ok (sep.intercalate (((specPages (selOf cs) n).map f).filter (· ≠ []))) ∧
    textCall pg w {} cs = .ok (sep.intercalate (((specPages (selOf cs) n).map f).filter (· ≠ []))) := by
  have hsel := selection_end_to_end w n hw hn ops i cs hl hgood hne hr .text
  have hstat : termStatic w .text (chainFrom {} cs) = .pages (specPages (selOf cs) n) := by
    have h := (C10Hist.answer_of_lineage w .pdf ops i cs hl).1 .text
    have hbase : openBaseF .pdf = openBase := rfl
    rw [hbase, hsel] at h
    exact h.symm
  have hok := textOf_spec pg f (specPages (selOf cs) n)
    (fun k hk => hpg k ((mem_specPages _ n k).mp hk).1)
  constructor
  · rw [hsel]; exact hok
  · unfold textCall; rw [hstat]; exact hok

/-- **fragments_end_to_end**, **document_end_to_end**: the same for `Fragments` (the
concatenation of the per-page lists) and `Document` (page `i` of the result is the `i`-th
selected page and carries its true 1-based number; chunks inherit it). -/
theorem fragments_end_to_end {F : Type} (pg : Nat → Except E (List F)) (f : Nat → List F) (w : World)
    (n : Nat) (hw : w.openOk = true) (hn : w.pageCount = some n) (hpg : ∀ k, k < n → pg k = .ok (f k))
    (ops : List Op) (i : Nat) (cs : List BCall) (hl : (lineage [[]] ops)[i]? = some cs)
    (hgood : badRange cs = false) (hne : selOf cs ≠ []) (hr : InRange (selOf cs) n) :
    viaFrame (fragmentsOf pg) (terminal w .fragments (exec w openBase ops) i).2 =
      .ok ((specPages (selOf cs) n).map f).flatten := by
  rw [selection_end_to_end w n hw hn ops i cs hl hgood hne hr .fragments]
  exact fragmentsOf_spec pg f _ (fun k hk => hpg k ((mem_specPages _ n k).mp hk).1)

theorem document_end_to_end (w : World) (n : Nat) (hw : w.openOk = true) (hn : w.pageCount = some n)
    (ops : List Op) (i : Nat) (cs : List BCall) (hl : (lineage [[]] ops)[i]? = some cs)
    (hgood : badRange cs = false) (hne : selOf cs ≠ []) (hr : InRange (selOf cs) n) :
    viaFrame documentOf (terminal w .document (exec w openBase ops) i).2 =
      .ok ((specPages (selOf cs) n).map fun k => (⟨k + 1, k⟩ : MPage)) ∧
    (viaFrame documentOf (terminal w .chunks (exec w openBase ops) i).2).map chunkPages =
      .ok ((specPages (selOf cs) n).map fun k => (k, k + 1, k + 1)) := by
  have hne' := C10Life.specPages_ne_nil _ n hne hr
  constructor
  · rw [selection_end_to_end w n hw hn ops i cs hl hgood hne hr .document]
    exact documentOf_spec _ hne'
  · rw [selection_end_to_end w n hw hn ops i cs hl hgood hne hr .chunks]
    simp only [viaFrame]
    rw [documentOf_spec _ hne']
    simp [Except.map, chunkPages, List.map_map, Function.comp_def]

example : textCall (fun k => .ok [65 + k]) ⟨true, some 4⟩ {} [.pages [4, 2], .excludeHeaders, .pageRange 2 2]
    = .ok [66, 10, 10, 68] := by decide

/-! ## the same for an extractor family grown from `FromReader(r)` -/

/-- the base record of `FromReader(r)` -/
abbrev lent : Ext := { hasFile := false, reader := some 0, owns := false, opened := true }

theorem reader_chain_static (w : World) (k : Term) (cs : List BCall) :
    termStatic w k (chainFrom lent cs) =
      if badRange cs then .err else termBody w k (chainFrom lent cs).opts := by
  obtain ⟨_, herr, hfmt, hfile⟩ := chain_cfg cs lent
  have hf : (chainFrom lent cs).format = .pdf := hfmt
  have hh : (chainFrom lent cs).hasFile = false := hfile
  unfold termStatic
  rw [herr, hf, hh, C10Life.pdf_body w k _ hf]
  have hc : k.checksErr .pdf = true := by cases k <;> rfl
  cases hb : badRange cs <;> simp [hc]

/-- **selection_end_to_end_reader**: the selection rule after ANY history on a family grown from
`FromReader(r)` — the caller's reader is never closed by the family, so every extractor answers
every terminal operation, any number of times, on exactly the pages of the set its chain denotes;
a page outside the document is an error. -/
theorem selection_end_to_end_reader (w : World) (n : Nat) (hn : w.pageCount = some n)
    (ops : List Op) (i : Nat) (cs : List BCall) (hl : (lineage [[]] ops)[i]? = some cs)
    (hgood : badRange cs = false) (hne : selOf cs ≠ []) (k : Term) :
    (InRange (selOf cs) n → (terminal w k (exec w readerBase ops) i).2 = .pages (specPages (selOf cs) n)) ∧
    (¬ InRange (selOf cs) n → (terminal w k (exec w readerBase ops) i).2 = .err) := by
  have h := C10Hist.answer_of_lineage_reader w ops i cs hl k
  have hp : (chainFrom lent cs).opts.pages = selOf cs := by
    have := (chain_cfg cs lent).1
    simpa using this
  rw [h, reader_chain_static w k cs, hgood]
  simp only [Bool.false_eq_true, if_false]
  constructor
  · intro hr
    have := C10Life.every_terminal_selects w k (chainFrom lent cs).opts n hn (by rw [hp]; exact hne) (by rw [hp]; exact hr)
    rw [this, hp]
  · intro hr
    exact C10Life.every_terminal_out_of_range w k _ n hn (by rw [hp]; exact hne) (by rw [hp]; exact hr)

example : let w : World := ⟨false, some 4⟩
    let ops := [Op.derive 0 (.pages [3, 1]), .term 1 .text, .term 1 .text, .close 1, .derive 1 (.pageRange 1 2)]
    (lineage [[]] ops)[2]? = some [.pages [3, 1], .pageRange 1 2] ∧
    (terminal w .document (exec w readerBase ops) 2).2 = .pages [0, 1, 2] ∧
    (terminal w .text (exec w readerBase ops) 1).2 = .pages [0, 2] := by decide

end Tabula.C10E2E
