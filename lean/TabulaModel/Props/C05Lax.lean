import TabulaModel.Lemmas.FiltersLax
import TabulaModel.Model.StreamConformLax
import TabulaModel.Props.C05E
/-!
# C05 for ASCII85 writers that spell a zero group `!!!!!`

`C05E.decode_inverts_encoding` takes the ASCII85 stage's encoding to be the conforming encoder's
(`A85Writing`: every all-zero group written `z`, as §7.4.3 demands). The harness's encoder can also
write `!!!!!` for such a group (style `NoZ`) — real encoders do — and until now that case was only
checked by the round-trip oracle: `c05.writes` answers `false` for it and no theorem spoke about
it. Here the encoding hypothesis is widened (`A85WritingLax`: per zero group a free choice between
`z` and `!!!!!`, white space anywhere) and both the mechanism theorem and the end-to-end theorem
are proved for it.
-/
namespace Tabula.C05Lax
open Tabula.Filters

abbrev Bytes (x : Str) : Prop := ∀ b ∈ x, b < 256

/-- **a85_lenient_roundtrip**: every white-space interleaving of the encoder's groups in which any
of the all-zero groups is written `!!!!!` instead of `z` decodes to `x`, with the EOD `~>` (followed
by anything) or at the end of the data. All lengths. -/
theorem a85_lenient_roundtrip (s x t : Str) (hx : Bytes x) (h : A85WritingLax s x) :
    a85Decode (s ++ 126 :: 62 :: t) = some x ∧ a85Decode s = some x := by
  refine ⟨a85Decode_writingLax s x _ hx h (a85Go_eod t), ?_⟩
  have := a85Decode_writingLax s x [] hx h a85Go_end
  simpa using this

/-- the conforming writings are among the lenient ones -/
theorem a85_writing_is_lenient (s x : Str) (h : A85Writing s x) : A85WritingLax s x := A85Writing_lax s x h

/-- non-vacuity: eight zero bytes as `z` then `!!!!!`, white space in between, and a one-byte tail -/
example : A85WritingLax [122, 32, 33, 33, 33, 33, 33, 10, 53, 108] [0, 0, 0, 0, 0, 0, 0, 0, 65] :=
  ⟨[true, false], by decide⟩

/-- what a (lenient) encoder of a stage may produce: as `WStage.Writes`, with `A85WritingLax` for
ASCII85 -/
def WritesLax (inflate : Str → Option Str) : WStage → Str → Str → Prop
  | .a85 _, x, y => ∃ s, A85WritingLax s x ∧ (y = s ∨ ∃ t, y = s ++ 126 :: 62 :: t)
  | s, x, y => s.Writes inflate x y

def ChainWritesLax (inflate : Str → Option Str) : List WStage → Str → Str → Prop
  | [], x, y => y = x
  | s :: ss, x, y => ∃ m, ChainWritesLax inflate ss x m ∧ Bytes m ∧ WritesLax inflate s m y

theorem writes_is_lax (inflate : Str → Option Str) (s : WStage) (x y : Str) (h : s.Writes inflate x y) :
    WritesLax inflate s x y := by
  cases s with
  | a85 a =>
    obtain ⟨str, hs, hy⟩ := h
    exact ⟨str, A85Writing_lax str x hs, hy⟩
  | hex a => exact h
  | flate a => exact h
  | tiff a c1 c2 => exact h
  | png a p c1 c2 t => exact h

/-- every conforming chain is a lenient one -/
theorem chainWrites_is_lax (inflate : Str → Option Str) : ∀ (ss : List WStage) (x y : Str),
    C05E.ChainWrites inflate ss x y → ChainWritesLax inflate ss x y := by
  intro ss
  induction ss with
  | nil => intro x y h; exact h
  | cons s ss ih =>
    intro x y h
    obtain ⟨m, hrest, hm, hs⟩ := h
    exact ⟨m, ih x m hrest, hm, writes_is_lax inflate s m y hs⟩

theorem stage_decode_lax (ext : Ext) (s : WStage) (o : Option Obj) (m y : Str) (hm : Bytes m)
    (hp : s.ParmsOK o) (hw : WritesLax ext.inflate s m y) :
    decodeWithFilter ext y s.name (paramsObjToDict (objToPObj o)) = some m := by
  cases s with
  | a85 a =>
    obtain ⟨str, hs, hy⟩ := hw
    simp only [WStage.name, C05E.dwf_a85]
    rcases hy with hy | ⟨t, hy⟩
    · rw [hy]; exact (a85_lenient_roundtrip str m [] hm hs).2
    · rw [hy]; exact (a85_lenient_roundtrip str m t hm hs).1
  | hex a => exact C05E.stage_decode ext _ o m y hm hp hw
  | flate a => exact C05E.stage_decode ext _ o m y hm hp hw
  | tiff a c1 c2 => exact C05E.stage_decode ext _ o m y hm hp hw
  | png a p c1 c2 t => exact C05E.stage_decode ext _ o m y hm hp hw

theorem chain_decode_lax (ext : Ext) (dp : DParms) (x : Str) :
    ∀ (ss : List WStage) (i : Nat) (y : Str),
      (∀ j s, ss[j]? = some s → ∃ o, s.ParmsOK o ∧ chainParams dp (i + j) = paramsObjToDict (objToPObj o)) →
      ChainWritesLax ext.inflate ss x y →
      decodeChain ext dp (ss.map fun s => FObj.name s.name) i y = some x := by
  intro ss
  induction ss with
  | nil =>
    intro i y _ hw
    simp only [ChainWritesLax] at hw
    simp [decodeChain, hw]
  | cons s ss ih =>
    intro i y hp hw
    obtain ⟨m, hrest, hm, hs⟩ := hw
    obtain ⟨o, ho, hcp⟩ := hp 0 s rfl
    simp only [List.map_cons, decodeChain]
    rw [Nat.add_zero] at hcp
    rw [hcp, stage_decode_lax ext s o m y hm ho hs]
    apply ih (i + 1) m _ hrest
    intro j s' hj
    obtain ⟨o', ho', hcp'⟩ := hp (j + 1) s' (by simpa using hj)
    refine ⟨o', ho', ?_⟩
    rw [← hcp']
    congr 1
    omega

/-- **decode_inverts_encoding_lax** — `C05E.decode_inverts_encoding` with the wider encoding
hypothesis: for every pipeline, every conforming dictionary and every encoding in which the ASCII85
stages may spell zero groups `!!!!!`, `Decode()` returns the original bytes. -/
theorem decode_inverts_encoding_lax (ext : Ext) (stages : List WStage) (d : Dict) (x y : Str)
    (hd : C05E.Conforming d stages) (hw : ChainWritesLax ext.inflate stages x y) :
    streamDecodeD ext d y = some x := by
  unfold streamDecodeD
  rcases hd with ⟨hf, hp⟩ | ⟨s, hs, hf, hp⟩ | ⟨hs, hf⟩
  · rw [hf]
    simp only [objToFilter, streamDecode, List.map_map]
    have hmap : (objToFObj ∘ fun s : WStage => Obj.name s.name) = fun s : WStage => FObj.name s.name := by
      funext s; rfl
    rw [hmap]
    apply chain_decode_lax ext _ x stages 0 y _ hw
    intro j s hj
    rw [Nat.zero_add]
    rcases hp with ⟨os, hdp, hall⟩ | ⟨hna, hall⟩
    · rw [hdp]
      simp only [objToDParms, chainParams, List.getElem?_map]
      cases hoj : os[j]? with
      | none =>
        refine ⟨none, ?_, rfl⟩
        have := hall j s hj
        rwa [hoj] at this
      | some ob =>
        refine ⟨some ob, ?_, rfl⟩
        have := hall j s hj
        rwa [hoj] at this
    · refine ⟨dictGet d kDecodeParms, hall s (List.mem_of_getElem? hj), ?_⟩
      rw [C05E.objToDParms_nonarray _ hna]
      rfl
  · subst hs
    obtain ⟨m, hbase, hm, hsw⟩ := hw
    simp only [ChainWritesLax] at hbase
    subst hbase
    rw [hf]
    simp only [objToFilter, streamDecode]
    have key := stage_decode_lax ext s (dictGet d kDecodeParms) m y hm hp hsw
    cases hdp : dictGet d kDecodeParms with
    | none => rw [hdp] at key; exact key
    | some ob =>
      rw [hdp] at key
      cases ob with
      | array os => exact key
      | _ => exact key
  · subst hs
    simp only [ChainWritesLax] at hw
    rw [hf, hw]
    rfl

/-- non-vacuity: `/Filter /A85` on "!!!!! z ~>" is eight zero bytes -/
example : ChainWritesLax (fun _ => none) [.a85 true] [0, 0, 0, 0, 0, 0, 0, 0] [33, 33, 33, 33, 33, 32, 122, 32, 126, 62] :=
  ⟨_, rfl, by decide, [33, 33, 33, 33, 33, 32, 122, 32], ⟨[false, true], by decide⟩, Or.inr ⟨[], rfl⟩⟩

/-! ## the executable checker of `ChainWritesLax` -/

theorem a85LaxMatch_sound : ∀ (x body : Str), a85LaxMatch body x = true → ∃ zs, body = a85BodyLax zs x := by
  intro x
  induction x using a85Body.induct with
  | case1 a b c d rest ih =>
    intro body h
    rw [a85LaxMatch] at h
    split at h
    · rename_i hz
      rcases (Bool.or_eq_true _ _).mp h with h | h
      · simp only [Bool.and_eq_true, beq_iff_eq] at h
        obtain ⟨zs, hzs⟩ := ih _ h.2
        refine ⟨true :: zs, ?_⟩
        rw [a85BodyLax]
        simp only [hz, and_self, if_true, List.headD_cons, List.tail_cons, ← hzs]
        cases body with
        | nil => simp at h
        | cons c0 body' =>
          simp only [List.head?_cons, Option.some.injEq] at h
          simp [h.1]
      · simp only [Bool.and_eq_true, beq_iff_eq] at h
        obtain ⟨zs, hzs⟩ := ih _ h.2
        refine ⟨false :: zs, ?_⟩
        rw [a85BodyLax]
        simp only [hz, and_self, if_true, List.headD_cons, Bool.false_eq_true, if_false, List.tail_cons]
        rw [← h.1, ← hzs, List.take_append_drop]
    · rename_i hz
      simp only [Bool.and_eq_true, beq_iff_eq] at h
      obtain ⟨zs, hzs⟩ := ih _ h.2
      refine ⟨zs, ?_⟩
      rw [a85BodyLax]
      simp only [hz, if_false]
      rw [← h.1, ← hzs, List.take_append_drop]
  | case2 a b c => intro body h; exact ⟨[], by simpa [a85LaxMatch, a85BodyLax] using h⟩
  | case3 a b => intro body h; exact ⟨[], by simpa [a85LaxMatch, a85BodyLax] using h⟩
  | case4 a => intro body h; exact ⟨[], by simpa [a85LaxMatch, a85BodyLax] using h⟩
  | case5 => intro body h; exact ⟨[], by simpa [a85LaxMatch, a85BodyLax] using h⟩

theorem a85WritingLaxB_sound (s x : Str) (h : a85WritingLaxB s x = true) : A85WritingLax s x :=
  a85LaxMatch_sound x _ h

theorem stageWritesLaxB_sound (inflate : Str → Option Str) (s : WStage) (m y : Str)
    (h : stageWritesLaxB inflate s m y = true) : WritesLax inflate s m y := by
  cases s with
  | a85 a => exact ⟨_, a85WritingLaxB_sound _ m h, cutEOD_split y⟩
  | hex a => exact C05E.stageWritesB_sound inflate (.hex a) m y h
  | flate a => exact C05E.stageWritesB_sound inflate (.flate a) m y h
  | tiff a c1 c2 => exact C05E.stageWritesB_sound inflate (.tiff a c1 c2) m y h
  | png a p c1 c2 t => exact C05E.stageWritesB_sound inflate (.png a p c1 c2 t) m y h

/-- **chainWritesLaxL_sound**: the checker the harness applies to the intermediates of every
pipeline it encoded — the `!!!!!` style included — (`c05.writeslax`) implies the hypothesis
`ChainWritesLax` of `decode_inverts_encoding_lax` -/
theorem chainWritesLaxL_sound (inflate : Str → Option Str) : ∀ (stages : List WStage) (ms : List Str),
    chainWritesLaxL inflate stages ms = true →
    ∃ y x, ms.head? = some y ∧ ms.getLast? = some x ∧ ChainWritesLax inflate stages x y := by
  intro stages
  induction stages with
  | nil =>
    intro ms h
    match ms, h with
    | [y], _ => exact ⟨y, y, rfl, rfl, rfl⟩
  | cons s ss ih =>
    intro ms h
    match ms, h with
    | y :: m :: rest, h =>
      simp only [chainWritesLaxL, Bool.and_eq_true] at h
      obtain ⟨⟨hb, hs⟩, hrest⟩ := h
      obtain ⟨y', x, hy', hx, hcw⟩ := ih (m :: rest) hrest
      simp only [List.head?_cons, Option.some.injEq] at hy'
      subst hy'
      refine ⟨y, x, rfl, ?_, m, hcw, ?_, stageWritesLaxB_sound inflate s m y hs⟩
      · rw [List.getLast?_cons_cons]; exact hx
      · intro b hbm
        simp only [bytesB, List.all_eq_true, decide_eq_true_eq] at hb
        exact hb b hbm

/-- non-vacuity: the checker accepts "!!!!! z ~>x" for eight zero bytes -/
example : chainWritesLaxL (fun _ => none) [.a85 true]
    [[33, 33, 33, 33, 33, 32, 122, 32, 126, 62, 120], [0, 0, 0, 0, 0, 0, 0, 0]] = true := by decide

end Tabula.C05Lax
