import TabulaModel.Props.C04Api
import TabulaModel.Lemmas.XrefDeepReader
import TabulaModel.Lemmas.XrefDeepResolver
import TabulaModel.Lemmas.XrefParsedWF
/-!
# C04 — `Resolve` / `ResolveDeep`: what they answer

`Lemmas/XrefExpand.lean: expand g streams b o` is the deep value of an object by the file alone:
every reference replaced by the deep value of the object it names (`g` = `GetObject` of a fresh
reader), with `b` levels allowed and no memory at all.

* `reader_resolve_deep_is_deep_value` — wherever that unfolding succeeds within
  `maxResolveDepth`, `Reader.ResolveDeep` answers exactly it: the shared results (`done`) and the
  rule that leaves a reference back to an object being resolved (`active`) are invisible;
* `reader_resolve_deep_in_any_history` — … on the bytes, in the middle of any sequence of calls;
* `reader_resolve_deep_without_references_is_deep_value`, `reader_resolve_deep_no_partial_answers`
  — conversely an answer that holds no reference IS the deep value, and every lookup below the
  object succeeded;
* `reader_resolve_deep_cycle_example` — on a reference cycle the answer keeps a reference (the
  documented behaviour since 4d61f20) while the unfolding has no value;
* `resolver_resolve_deep_is_deep_value`, `resolver_deep_error_iff` — the resolver package's
  `ResolveDeep` (with the `need` bookkeeping of a2528c3) answers EXACTLY the plain unfolding with
  `maxDepth` levels: an error iff a level ≥ maxDepth is reached somewhere, a reference cycle, or a
  failing lookup - shared results are invisible;
* `resolver_answer_independent_of_map_order` — hence the answer does not depend on the order in
  which Go ranges over a dictionary; `resolver_array_order_cannot_mask` — nor can the order of
  array elements mask a reference that stands too deep;
* `resolver_resolve_deep_in_any_history` — … on the bytes of any file, in the middle of any
  sequence of calls, for every map order (objects a lookup yields always have distinct keys:
  `Lemmas/XrefParsedWF.lean`);
* `resolver_resolve_is_one_lookup` — shallow `Resolve`;
* `resolver_shared_result_order_dependence_pinned_counterexample` — the resolver package as it
  stood before a2528c3 (a shared result handed out without looking at the depth limit): the same
  two elements in two orders, one answered, one refused; the repaired code refuses both.
-/
namespace Tabula.C04R
open Tabula.XrefFile Tabula.Reader Tabula.XrefC Tabula.XrefR Tabula.C04A

/-- **reader_resolve_deep_is_deep_value** (every object graph, every lookup function): when the
plain unfolding of `obj` succeeds with `maxResolveDepth + 1` levels (so: no reference cycle below
`obj`, no failing lookup, nothing nested deeper than the limit), `Reader.ResolveDeep(obj)` is
exactly that unfolding, and it holds no reference -/
theorem reader_resolve_deep_is_deep_value (g : Int → Option PVal) (obj v : DObj)
    (h : expand g false (maxResolveDepth + 1) obj = some v) :
    resolveDeepR (pureGet g) obj () = (some v, ()) ∧ NoRef v :=
  ⟨resolveDeepR_eq_expand g obj v h, expand_noRef g _ obj v h⟩

/-- satisfiable: object 2 is `[7]`, the deep value of `[2 0 R 2 0 R]` is `[[7] [7]]` -/
example : expand (fun n => if n = 2 then some (.obj (.arr [.int 7])) else none) false (maxResolveDepth + 1)
    (.arr [.ref 2 0, .ref 2 0]) = some (.arr [.arr [.int 7], .arr [.int 7]]) := by
  simp [maxResolveDepth, expand, mapOpt, ofPVal, ofObj, ofObjs]

/-- **reader_resolve_deep_in_any_history** (on the bytes): open any file; in the middle of any
sequence of calls - lookups, cache clears, deep resolutions that failed, calls on the resolver
package - `Reader.ResolveDeep(n g R)` is the deep value of object `n` by the cache-free lookup
of a fresh reader, whenever that deep value exists within the limit -/
theorem reader_resolve_deep_in_any_history (ext : Reader.Ext) (keep : Bool) (file : List Nat) (maxDepth : Nat)
    (ord : List (List Nat × DObj) → List (List Nat × DObj)) (x : RawSection) (hopen : openFile ext file = .ok x)
    (before after : List Api.Op) (n g : Int) (v : DObj)
    (h : expand (fun m => getObjectB ext file x (maxNestedLoads + 1) [] m) false (maxResolveDepth + 1) (.ref n g) = some v) :
    ∃ rs, Api.session ext keep file maxDepth ord (before ++ .deep n g :: after) = .ok rs ∧
      rs[before.length]? = some (some (some v)) := by
  refine ⟨_, api_history_free ext keep file maxDepth ord _ x hopen, ?_⟩
  rw [List.map_append, List.getElem?_append_right (by simp)]
  simp only [List.length_map, Nat.sub_self, List.map_cons, List.getElem?_cons_zero, Option.some.injEq]
  unfold alone
  simp only [Api.step]
  have h1 := (resolveDeepR_sim (getTop_sim ext keep file x) (.ref n g) {} (cinv_empty ext file x 0)).1
  rw [h1]
  have h2 := resolveDeepR_eq_expand (fresh ext file x) (.ref n g) v h
  rw [h2]

/-- **reader_resolve_deep_without_references_is_deep_value** (the converse): whatever the graph -
cyclic or not -, an answer of `Reader.ResolveDeep` that holds no reference is the deep value of
the object (with some number of levels) -/
theorem reader_resolve_deep_without_references_is_deep_value (g : Int → Option PVal) (obj v : DObj)
    (h : resolveDeepR (pureGet g) obj () = (some v, ())) (hn : NoRef v) :
    ∃ b, expand g false b obj = some v :=
  resolveDeepR_sound g obj v h hn

/-- **reader_resolve_deep_no_partial_answers**: … and then every object referenced anywhere
below `obj` was found: a free or never-defined object below the starting point makes the whole
resolution an error, never a value with a hole -/
theorem reader_resolve_deep_no_partial_answers (g : Int → Option PVal) (obj v : DObj)
    (h : resolveDeepR (pureGet g) obj () = (some v, ())) (hn : NoRef v) (n gen : Int)
    (hb : obj = .ref n gen ∨ Below g false obj (.ref n gen)) : g n ≠ none :=
  resolveDeepR_lookups g obj v h hn n gen hb

/-- **reader_resolve_deep_cycle_example**: object 1 is `[1 0 R]`. `Reader.ResolveDeep(1 0 R)`
answers `[1 0 R]` - the reference back to the object being resolved is left as it is -, while
the unfolding has no value with any number of levels -/
theorem reader_resolve_deep_cycle_example :
    resolveDeepR (pureGet cycleGraph) (.ref 1 0) () = (some (.arr [.ref 1 0]), ()) ∧
      ∀ b, expand cycleGraph false b (.ref 1 0) = none :=
  ⟨resolveDeepR_cycle, expand_cycleGraph⟩

/-! ## the resolver package's shared results and its depth limit -/

/-- object 2 is `[7]`, no other object -/
def edgeGraph : Int → Option PVal := fun n => if n = 2 then some (.obj (.arr [.int 7])) else none

/-- `[2 0 R [2 0 R]]` and the same two elements in the other order -/
def nearFirst : DObj := .arr [.ref 2 0, .arr [.ref 2 0]]
def farFirst : DObj := .arr [.arr [.ref 2 0], .ref 2 0]

/-- **resolver_shared_result_order_dependence_pinned_counterexample** (the code between 8b68946
and a2528c3, `XrefR.Old.resolveP`, depth limit 4): with the reference met first where it can be
resolved, the deeper occurrence - too deep to be resolved where it stands - was answered from
the shared result; with the deeper occurrence first the same elements were refused. The answer
depended on what had been resolved before. -/
theorem resolver_shared_result_order_dependence_pinned_counterexample :
    (Old.resolveP (pureGet edgeGraph) 4 id true 5 nearFirst {} ()).1.isSome = true ∧
    (Old.resolveP (pureGet edgeGraph) 4 id true 5 farFirst {} ()).1.isSome = false := by
  decide

/-- … the repaired code (a2528c3: the shared result is refused where resolving the reference again
would pass the limit) refuses both, as the plain unfolding with 4 levels does -/
theorem resolver_shared_result_counted_example :
    (resolveP (pureGet edgeGraph) 4 id true 5 nearFirst {} ()).1.isSome = false ∧
    (resolveP (pureGet edgeGraph) 4 id true 5 farFirst {} ()).1.isSome = false ∧
    (expand edgeGraph true 4 nearFirst).isSome = false ∧ (expand edgeGraph true 4 farFirst).isSome = false := by
  decide

/-- **resolver_resolve_deep_is_deep_value** (every object graph whose dictionaries have distinct
keys - they are Go maps -, every depth limit, every order `ord` in which Go may range over a
map, whatever the resolver was used for before): `resolver.ResolveDeep(obj)` is exactly the
plain unfolding of `obj` with `maxDepth` levels - stream dictionaries included -, value or error -/
theorem resolver_resolve_deep_is_deep_value (g : Int → Option PVal) (maxDepth : Nat)
    (ord : List (List Nat × DObj) → List (List Nat × DObj)) (hord : ∀ kv, (ord kv).Perm kv) (obj : DObj)
    (hwf : WF obj) (hg : ∀ n t, g n = some t → WF (ofPVal t)) (p : PSt) (hp : p.depth = 0) :
    (resolveP (pureGet g) maxDepth ord true (maxDepth + 1) obj p ()).1 = expand g true maxDepth obj :=
  resolveP_deep_eq_expand g maxDepth ord hord obj hwf hg p hp

/-- satisfiable: `[2 0 R << /A 2 0 R >>]` over object 2 = `[7]`, any permutation as map order -/
example : WF (.arr [.ref 2 0, .dict [([65], .ref 2 0)]]) ∧ (∀ n t, edgeGraph n = some t → WF (ofPVal t)) := by
  refine ⟨.arr ?_, ?_⟩
  · intro e he
    simp at he
    rcases he with rfl | rfl
    · exact .ref 2 0
    · refine .dict (by simp) ?_
      intro e he; simp at he; subst he; exact .ref 2 0
  · intro n t h
    unfold edgeGraph at h
    split at h
    · cases h
      refine .arr ?_
      intro e he
      simp [ofObjs, ofObj] at he
      subst he
      exact .int 7
    · cases h

/-- **resolver_deep_error_iff**: `resolver.ResolveDeep` is an error exactly when the unfolding has
no value within `maxDepth` levels -/
theorem resolver_deep_error_iff (g : Int → Option PVal) (maxDepth : Nat)
    (ord : List (List Nat × DObj) → List (List Nat × DObj)) (hord : ∀ kv, (ord kv).Perm kv) (obj : DObj)
    (hwf : WF obj) (hg : ∀ n t, g n = some t → WF (ofPVal t)) (p : PSt) (hp : p.depth = 0) :
    (resolveP (pureGet g) maxDepth ord true (maxDepth + 1) obj p ()).1 = none ↔ expand g true maxDepth obj = none :=
  resolveP_deep_none_iff g maxDepth ord hord obj hwf hg p hp

/-- **resolver_answer_independent_of_map_order** (the repaired defect, for all inputs): two runs
of `resolver.ResolveDeep` on the same object that range over every dictionary in different
orders - and start from different leftovers of earlier calls - answer alike, value or error -/
theorem resolver_answer_independent_of_map_order (g : Int → Option PVal) (maxDepth : Nat)
    (ord₁ ord₂ : List (List Nat × DObj) → List (List Nat × DObj))
    (h₁ : ∀ kv, (ord₁ kv).Perm kv) (h₂ : ∀ kv, (ord₂ kv).Perm kv) (obj : DObj) (hwf : WF obj)
    (hg : ∀ n t, g n = some t → WF (ofPVal t)) (p₁ p₂ : PSt) (hp₁ : p₁.depth = 0) (hp₂ : p₂.depth = 0) :
    (resolveP (pureGet g) maxDepth ord₁ true (maxDepth + 1) obj p₁ ()).1 =
      (resolveP (pureGet g) maxDepth ord₂ true (maxDepth + 1) obj p₂ ()).1 :=
  resolveP_order_free g maxDepth ord₁ ord₂ h₁ h₂ obj hwf hg p₁ p₂ hp₁ hp₂

/-- **resolver_array_order_cannot_mask**: every rearrangement of the elements of an array fails
or succeeds alike - a reference too deep where it stands is not rescued by the same reference
standing higher up earlier in the array (what
`resolver_shared_result_order_dependence_pinned_counterexample` shows for the old code) -/
theorem resolver_array_order_cannot_mask (g : Int → Option PVal) (maxDepth : Nat)
    (ord : List (List Nat × DObj) → List (List Nat × DObj)) (hord : ∀ kv, (ord kv).Perm kv)
    (xs ys : List DObj) (hperm : xs.Perm ys) (hwf : WF (.arr xs))
    (hg : ∀ n t, g n = some t → WF (ofPVal t)) (p₁ p₂ : PSt) (hp₁ : p₁.depth = 0) (hp₂ : p₂.depth = 0) :
    (resolveP (pureGet g) maxDepth ord true (maxDepth + 1) (.arr xs) p₁ ()).1 = none ↔
      (resolveP (pureGet g) maxDepth ord true (maxDepth + 1) (.arr ys) p₂ ()).1 = none :=
  resolveP_arr_perm g maxDepth ord hord xs ys hperm hwf hg p₁ p₂ hp₁ hp₂

/-- **resolver_resolve_deep_in_any_history** (on the bytes, no side condition on the file): open
any file; in the middle of any sequence of calls - on a resolver that has been used for anything
before, failed resolutions included -, with Go ranging over every dictionary in any order,
`resolver.ResolveDeep(n g R)` is the plain unfolding of the reference with `maxDepth` levels
over the cache-free lookup of a fresh reader: that value, or an error when there is none -/
theorem resolver_resolve_deep_in_any_history (ext : Reader.Ext) (keep : Bool) (file : List Nat) (maxDepth : Nat)
    (ord : List (List Nat × DObj) → List (List Nat × DObj)) (hord : ∀ kv, (ord kv).Perm kv)
    (x : RawSection) (hopen : openFile ext file = .ok x) (before after : List Api.Op) (n g : Int) :
    ∃ rs, Api.session ext keep file maxDepth ord (before ++ .pDeep n g :: after) = .ok rs ∧
      rs[before.length]? = some (some
        (expand (fun m => getObjectB ext file x (maxNestedLoads + 1) [] m) true maxDepth (.ref n g))) := by
  refine ⟨_, api_history_free ext keep file maxDepth ord _ x hopen, ?_⟩
  rw [List.map_append, List.getElem?_append_right (by simp)]
  simp only [List.length_map, Nat.sub_self, List.map_cons, List.getElem?_cons_zero, Option.some.injEq]
  unfold alone
  simp only [Api.step]
  have h1 := (resolveP_sim (getTop_sim ext keep file x) maxDepth ord true (maxDepth + 1) (.ref n g) {} {}
    (cinv_empty ext file x 0)).1
  rw [h1]
  exact congrArg some (resolveP_deep_eq_expand (fresh ext file x) maxDepth ord hord (.ref n g) (.ref n g)
    (fun m t ht => getObjectB_wf ext file x _ [] m t ht) {} rfl)

/-- **resolver_resolve_is_one_lookup**: shallow `resolver.Resolve(obj)` looks a reference up once
(by number) and hands anything else back, whatever state the resolver is in between calls -/
theorem resolver_resolve_is_one_lookup (g : Int → Option PVal) (maxDepth : Nat)
    (ord : List (List Nat × DObj) → List (List Nat × DObj)) (obj : DObj) (p : PSt) (hp : p.depth = 0)
    (hmd : 0 < maxDepth) :
    (resolveP (pureGet g) maxDepth ord false (maxDepth + 1) obj p ()).1 =
      match obj with
      | .ref n _ => (g n).map ofPVal
      | o => some o :=
  resolveP_shallow g maxDepth ord obj p hp hmd

end Tabula.C04R
