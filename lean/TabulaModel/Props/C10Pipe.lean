import TabulaModel.Model.TextPipe
import TabulaModel.Props.C10
import TabulaModel.Props.C10E2E
/-!
# C10 — options and the per-page pipeline of `Text`

`Props/C10.lean` takes the text of a page as a parameter.  Here the part of it that is
`Extractor.Text`'s own code is a model (`Model/TextPipe.lean`): which options switch the
header/footer filter on, when OCR replaces a page's text, which of the four assemblers the
option flags (or the automatic layout test) select.  What remains a parameter is code of other
properties (reader, header/footer detection, layout assemblers) and the OCR engine.

The theorems: the text of a page never depends on which pages were selected with it
(`page_text_ignores_selection`), so `Text` of a selection is the join of the `Text`s of its
single pages under the same options — the statement the harness checks with single-page
extractions (`text_is_join_of_single_pages`, end to end for a chain of calls:
`chain_text_pipeline`); how the flags decide (`mode_priority`, `exclude_flags_one_switch`,
`ocr_only_for_empty_pages`).
-/
namespace Tabula.C10Pipe
open Tabula.PageSel Tabula.Builder Tabula.TextPipe

/-! ## the option flags -/

/-- **mode_priority**: `PreserveLayout` beats `JoinParagraphs` beats `ByColumn`; with none of
them the page is read column by column exactly when it looks character-level or
multi-column, and plainly otherwise.  `ByColumn` is what the automatic test would choose on
such a page. -/
theorem mode_priority (o : Options) (c m : Bool) :
    (o.preserveLayout = true → textMode o c m = .preserveLayout) ∧
    (o.preserveLayout = false → o.joinParagraphs = true → textMode o c m = .paragraphs) ∧
    (o.preserveLayout = false → o.joinParagraphs = false → o.byColumn = true → textMode o c m = .byColumn) ∧
    (o.preserveLayout = false → o.joinParagraphs = false → o.byColumn = false →
      textMode o c m = if c || m then .byColumn else .plain) := by
  unfold textMode
  refine ⟨?_, ?_, ?_, ?_⟩
  · intro h; simp [h]
  · intro h1 h2; simp [h1, h2]
  · intro h1 h2 h3; simp [h1, h2, h3]
  · intro h1 h2 h3; simp [h1, h2, h3]

/-- the page numbers configured play no part in the choice of the assembler or of the filter -/
theorem mode_ignores_pages (o : Options) (ps : List Int) (c m : Bool) :
    textMode { o with pages := ps } c m = textMode o c m ∧ needHF { o with pages := ps } = needHF o :=
  ⟨rfl, rfl⟩

/-- **page_text_ignores_selection**: the text of page `k` is the same whichever pages are
selected together with it. -/
theorem page_text_ignores_selection {F : Type} (env : PageEnv F) (o : Options) (ps : List Int) (k : Nat) :
    pageText env { o with pages := ps } k = pageText env o k := rfl

/-- **exclude_flags_one_switch**: `ExcludeHeaders`, `ExcludeFooters` and
`ExcludeHeadersAndFooters` switch on one and the same filter (the detector's result removes
detected headers and detected footers alike): options that agree on
`excludeHeaders || excludeFooters` and on the layout flags give the same page text. -/
theorem exclude_flags_one_switch {F : Type} (env : PageEnv F) (o₁ o₂ : Options) (k : Nat)
    (hhf : needHF o₁ = needHF o₂) (h1 : o₁.preserveLayout = o₂.preserveLayout)
    (h2 : o₁.joinParagraphs = o₂.joinParagraphs) (h3 : o₁.byColumn = o₂.byColumn) :
    pageText env o₁ k = pageText env o₂ k := by
  unfold pageText textMode
  rw [hhf, h1, h2, h3]

example {F : Type} (env : PageEnv F) (k : Nat) :
    pageText env { excludeHeaders := true } k = pageText env { excludeFooters := true } k ∧
    pageText env { excludeHeaders := true } k = pageText env { excludeHeaders := true, excludeFooters := true } k :=
  ⟨exclude_flags_one_switch env _ _ k rfl rfl rfl rfl, exclude_flags_one_switch env _ _ k rfl rfl rfl rfl⟩

/-- without an exclusion flag the header/footer filter is never consulted -/
theorem no_flag_no_filter {F : Type} (env : PageEnv F) (filt' : Nat → F → F) (o : Options) (k : Nat)
    (h : needHF o = false) : pageText { env with filt := filt' } o k = pageText env o k := by
  unfold pageText
  simp only [h, Bool.false_eq_true, if_false]

/-- **ocr_only_for_empty_pages**: OCR is asked only when the (filtered) page has no fragment,
and its answer is used only if it is non-empty; otherwise the page text is the selected
assembler's. -/
theorem ocr_only_for_empty_pages {F : Type} (env : PageEnv F) (o : Options) (k : Nat) (raw : F)
    (hraw : env.frags k = .ok raw) :
    let fr := if needHF o then env.filt k raw else raw
    (env.isEmpty k fr = false →
      pageText env o k = .ok (env.render (textMode o (env.charLevel k fr) (env.multiCol k fr)) k fr)) ∧
    (env.isEmpty k fr = true → ∀ t, env.ocr k = some t → t ≠ [] → pageText env o k = .ok t) ∧
    (env.isEmpty k fr = true → (env.ocr k = none ∨ env.ocr k = some []) →
      pageText env o k = .ok (env.render (textMode o (env.charLevel k fr) (env.multiCol k fr)) k fr)) := by
  intro fr
  refine ⟨?_, ?_, ?_⟩
  · intro he
    unfold pageText
    simp only [hraw]
    show (match (if env.isEmpty k fr = true then (env.ocr k).filter (· ≠ []) else none) with
      | some t => Except.ok t
      | none => Except.ok (env.render (textMode o (env.charLevel k fr) (env.multiCol k fr)) k fr)) = _
    simp [he]
  · intro he t ht hne
    unfold pageText
    simp only [hraw]
    show (match (if env.isEmpty k fr = true then (env.ocr k).filter (· ≠ []) else none) with
      | some t => Except.ok t
      | none => Except.ok (env.render (textMode o (env.charLevel k fr) (env.multiCol k fr)) k fr)) = _
    simp [he, ht, Option.filter, hne]
  · intro he hocr
    unfold pageText
    simp only [hraw]
    show (match (if env.isEmpty k fr = true then (env.ocr k).filter (· ≠ []) else none) with
      | some t => Except.ok t
      | none => Except.ok (env.render (textMode o (env.charLevel k fr) (env.multiCol k fr)) k fr)) = _
    rcases hocr with h | h <;> simp [he, h, Option.filter]

/-! ## `Text` of a selection is the join of the `Text`s of its pages -/

/-- the text `Text` returns for page `k` alone (empty when the page cannot be read) -/
def single {F : Type} (env : PageEnv F) (o : Options) (k : Nat) : Str :=
  match pageText env o k with
  | .ok t => t
  | .error _ => []

theorem pageText_readable {F : Type} (env : PageEnv F) (o : Options) (k : Nat)
    (h : ∃ fr, env.frags k = .ok fr) : pageText env o k = .ok (single env o k) := by
  obtain ⟨fr, hfr⟩ := h
  have : ∃ t, pageText env o k = .ok t := by
    unfold pageText
    simp only [hfr]
    split <;> exact ⟨_, rfl⟩
  obtain ⟨t, ht⟩ := this
  unfold single
  rw [ht]

theorem specPages_single (k n : Nat) (hk : k < n) : specPages [(k : Int) + 1] n = [k] := by
  apply strictAsc_ext _ _ (specPages_strictAsc _ n) (by simp [StrictAsc])
  intro x
  rw [mem_specPages]
  simp only [List.mem_singleton]
  constructor
  · rintro ⟨_, h⟩; omega
  · rintro rfl; exact ⟨hk, rfl⟩

/-- **text_is_join_of_single_pages**: for every option combination, every readable document
and every non-empty selection inside it, `Pages(S).Text()` is the `Text()`s of the single
pages of `S` under the same options, in ascending page order, the non-empty ones joined by a
blank line — in particular with `ExcludeHeaders/Footers`, where the filter is computed from
all pages and not from the selected ones. -/
theorem text_is_join_of_single_pages {F : Type} (env : PageEnv F) (o : Options) (sel : List Int)
    (n : Nat) (hne : sel ≠ []) (hr : InRange sel n) (hread : ∀ k, k < n → ∃ fr, env.frags k = .ok fr) :
    (∀ k, k < n → textFull env { o with pages := [(k : Int) + 1] } n = .ok (single env o k)) ∧
    textFull env { o with pages := sel } n =
      .ok (sep.intercalate (((specPages sel n).map (single env o)).filter (· ≠ []))) := by
  have hpg : ∀ k, k < n → pageText env o k = .ok (single env o k) :=
    fun k hk => pageText_readable env o k (hread k hk)
  constructor
  · intro k hk
    unfold textFull
    have h1 : InRange [(k : Int) + 1] n := by
      intro p hp
      simp only [List.mem_singleton] at hp
      omega
    have := C10.text_is_join (pageText env o) (single env o) [(k : Int) + 1] n (by simp) h1 hpg
    show extractText (pageText env o) [(k : Int) + 1] n = _
    rw [this, specPages_single k n hk]
    by_cases hs : single env o k = []
    · simp [hs, List.intercalate]
    · simp [hs, List.intercalate]
  · unfold textFull
    exact C10.text_is_join (pageText env o) (single env o) sel n hne hr hpg

/-- non-vacuity: a three-page document with a running header that the filter removes; page 2
is empty after filtering and has no OCR text; ByColumn is set -/
example :
    let env : PageEnv (List Nat) :=
      { frags := fun k => .ok [100, k], filt := fun _ fr => fr.drop 1, isEmpty := fun k fr => fr.isEmpty || k == 1,
        ocr := fun _ => none, charLevel := fun _ _ => false, multiCol := fun _ _ => false,
        render := fun m k fr => if k == 1 then [] else (if m = .byColumn then 67 else 80) :: fr }
    textFull env { pages := [3, 1, 2, 3], excludeHeaders := true, byColumn := true } 3 = .ok [67, 0, 10, 10, 67, 2] := by
  decide

/-- **chain_text_pipeline**: `Open(f).c₁…cₙ.Text()` for a chain that mixes page calls and
option calls in any order: the pages of the denoted set, each rendered under the options the
chain has accumulated (order and repetition of the option calls are irrelevant by
`options_commute`), joined by the rule above. -/
theorem chain_text_pipeline {F : Type} (env : PageEnv F) (w : World) (n : Nat)
    (hw : w.openOk = true) (hn : w.pageCount = some n) (cs : List BCall)
    (hgood : badRange cs = false) (hne : selOf cs ≠ []) (hr : InRange (selOf cs) n)
    (hread : ∀ k, k < n → ∃ fr, env.frags k = .ok fr) :
    textOfChain env w cs =
      .ok (sep.intercalate (((specPages (selOf cs) n).map (single env (chainFrom {} cs).opts)).filter (· ≠ []))) := by
  unfold textOfChain
  have hpg : ∀ k, k < n → pageText env (chainFrom {} cs).opts k = .ok (single env (chainFrom {} cs).opts k) :=
    fun k hk => pageText_readable env _ k (hread k hk)
  have hl : (lineage [[]] (freshChainFrom 0 cs))[cs.length]? = some cs := by
    have := C10Hist.lineage_fresh cs [[]] 0 [] rfl rfl
    simpa using this
  exact (C10E2E.text_end_to_end (pageText env (chainFrom {} cs).opts) (single env (chainFrom {} cs).opts) w n
    hw hn hpg (freshChainFrom 0 cs) cs.length cs hl hgood hne hr).2

example :
    let env : PageEnv (List Nat) :=
      { frags := fun k => .ok [k], filt := fun _ fr => fr, isEmpty := fun _ fr => fr.isEmpty,
        ocr := fun _ => none, charLevel := fun _ _ => false, multiCol := fun k _ => k == 2,
        render := fun m k _ => [if m = .byColumn then 67 else 80, 48 + k] }
    badRange [.pages [3], .excludeFooters, .pageRange 1 1] = false ∧
    textOfChain env ⟨true, some 3⟩ [.pages [3], .excludeFooters, .pageRange 1 1] = .ok [80, 48, 10, 10, 67, 50] := by
  decide

/-- the two routes to `Text` of a chain agree: configure, then `textFull` on the accumulated
options — or the whole-call route through the frame -/
theorem chain_text_is_textFull {F : Type} (env : PageEnv F) (w : World) (n : Nat)
    (hw : w.openOk = true) (hn : w.pageCount = some n) (cs : List BCall)
    (hgood : badRange cs = false) (hne : selOf cs ≠ []) (hr : InRange (selOf cs) n)
    (hread : ∀ k, k < n → ∃ fr, env.frags k = .ok fr) :
    textOfChain env w cs = textFull env (chainFrom {} cs).opts n := by
  rw [chain_text_pipeline env w n hw hn cs hgood hne hr hread]
  have hp : (chainFrom {} cs).opts.pages = selOf cs := by simpa using (C10E2E.chain_cfg cs {}).1
  have := (text_is_join_of_single_pages env (chainFrom {} cs).opts (selOf cs) n hne hr hread).2
  have he : ({ (chainFrom {} cs).opts with pages := selOf cs } : Options) = (chainFrom {} cs).opts := by
    rw [← hp]
  rw [he] at this
  rw [this]

end Tabula.C10Pipe
