import TabulaModel.Props.C20Bytes
/-!
# C20, decision tables — the archive sniffer, the cross-check and the two magic entry points, completely

`Props/C20.lean` proves what the sniffer answers for archives that CARRY a marker, and
`Props/C20Api.lean` what each answer of `DetectFromReader` means.  Here the remaining
cases of the same functions: the complete decision table of `detectZIPFormat` for EVERY
member list (directory fallback, no marker at all, several and conflicting mimetype
members), what of a member the sniffer looks at, the complete matrix of `validateFormat`
and `ensureReader` over (format the name asks for, what the sniffer says) — the name that
asks for no format included —, and `DetectFromMagic` on every byte string.
-/
set_option autoImplicit false
namespace Tabula.C20Z
open Tabula.Detect Tabula.Drm Tabula.Admit Tabula.EncXml Tabula.DetectB Tabula.C20 Tabula.C20A Tabula.C20B

/-! ## `detectZIPFormat`, every member list -/

/-- `first_mime_spec`: the FIRST mimetype member that names a known type decides — members
in front of it, further mimetype members behind it (duplicates, with the same or another
type) and everything else have no say -/
theorem first_mime_spec (ms : List Member) (f : Format) :
    firstMime ms = some f ↔
      ∃ a m b, ms = a ++ m :: b ∧ (∀ x ∈ a, mimeVerdict x = none) ∧ mimeVerdict m = some f := by
  induction ms with
  | nil => simp [firstMime]
  | cons x rest ih =>
    unfold firstMime
    cases hx : mimeVerdict x with
    | some g =>
      simp only [Option.some.injEq]
      constructor
      · rintro rfl; exact ⟨[], x, rest, rfl, by simp, hx⟩
      · rintro ⟨a, m, b, he, ha, hm⟩
        cases a with
        | nil =>
          simp only [List.nil_append, List.cons.injEq] at he
          rw [← he.1, hx] at hm
          exact Option.some.inj hm
        | cons y a =>
          simp only [List.cons_append, List.cons.injEq] at he
          have := ha y List.mem_cons_self
          rw [← he.1, hx] at this
          cases this
    | none =>
      simp only
      rw [ih]
      constructor
      · rintro ⟨a, m, b, rfl, ha, hm⟩
        refine ⟨x :: a, m, b, rfl, ?_, hm⟩
        intro y hy
        rcases List.mem_cons.1 hy with rfl | hy
        · exact hx
        · exact ha y hy
      · rintro ⟨a, m, b, he, ha, hm⟩
        cases a with
        | nil =>
          simp only [List.nil_append, List.cons.injEq] at he
          rw [← he.1, hx] at hm
          cases hm
        | cons y a =>
          simp only [List.cons_append, List.cons.injEq] at he
          exact ⟨a, m, b, he.2, fun z hz => ha z (List.mem_cons_of_mem _ hz), hm⟩

/-- two mimetype members naming different types: the first one wins, so for such an archive
(not a well-formed one: member names repeat) the order does matter — the proviso
`MimeAgree` of `zip_detect_perm_invariant` cannot be dropped -/
theorem zip_detect_conflicting_mimetypes_first_wins :
    detectZip [⟨nMimetype, some odtMime⟩, ⟨nMimetype, some epubMime⟩] = .odt ∧
    detectZip [⟨nMimetype, some epubMime⟩, ⟨nMimetype, some odtMime⟩] = .epub := by decide

/-- `zip_detect_table`: the complete decision table of `detectZIPFormat`, for every member
list: what the first deciding mimetype member says; otherwise EPUB for a container; otherwise
the first main part among word/document.xml, xl/workbook.xml, ppt/presentation.xml;
otherwise the first part directory among word/, xl/, ppt/; otherwise Unknown. -/
theorem zip_detect_table (ms : List Member) :
    (detectZip ms = .odt ↔ firstMime ms = some .odt) ∧
    (detectZip ms = .epub ↔ firstMime ms = some .epub ∨ (firstMime ms = none ∧ hasMember nContainer ms = true)) ∧
    (detectZip ms = .docx ↔ firstMime ms = none ∧ hasMember nContainer ms = false ∧
      (hasMember nWordDoc ms = true ∨
        (hasMember nXlWorkbook ms = false ∧ hasMember nPptPres ms = false ∧ hasDir pWord ms = true))) ∧
    (detectZip ms = .xlsx ↔ firstMime ms = none ∧ hasMember nContainer ms = false ∧ hasMember nWordDoc ms = false ∧
      (hasMember nXlWorkbook ms = true ∨
        (hasMember nPptPres ms = false ∧ hasDir pWord ms = false ∧ hasDir pXl ms = true))) ∧
    (detectZip ms = .pptx ↔ firstMime ms = none ∧ hasMember nContainer ms = false ∧ hasMember nWordDoc ms = false ∧
      hasMember nXlWorkbook ms = false ∧
      (hasMember nPptPres ms = true ∨ (hasDir pWord ms = false ∧ hasDir pXl ms = false ∧ hasDir pPpt ms = true))) ∧
    (detectZip ms = .unknown ↔ firstMime ms = none ∧ hasMember nContainer ms = false ∧ hasMember nWordDoc ms = false ∧
      hasMember nXlWorkbook ms = false ∧ hasMember nPptPres ms = false ∧ hasDir pWord ms = false ∧
      hasDir pXl ms = false ∧ hasDir pPpt ms = false) := by
  unfold detectZip
  cases hf : firstMime ms with
  | some f =>
    have hr : f = .odt ∨ f = .epub := by
      obtain ⟨m, _, hm⟩ := firstMime_some_mem hf
      exact mimeVerdict_range hm
    rcases hr with rfl | rfl <;> simp
  | none =>
    cases hasMember nContainer ms <;> cases hasMember nWordDoc ms <;> cases hasMember nXlWorkbook ms <;>
      cases hasMember nPptPres ms <;> cases hasDir pWord ms <;> cases hasDir pXl ms <;> cases hasDir pPpt ms <;> simp

/-- `"[Content_Types].xml"` -/
def nContentTypes : Str := [91, 67, 111, 110, 116, 101, 110, 116, 95, 84, 121, 112, 101, 115, 93, 46, 120, 109, 108]

/-- a package with nothing but directories of parts; no marker, no directory: Unknown -/
example : detectZip [⟨nContentTypes, none⟩, ⟨nSheet, none⟩] = .xlsx ∧ detectZip [⟨nContentTypes, none⟩] = .unknown := by
  decide

/-- `zip_detect_looks_at_names_and_mimetype_only`: of a member the sniffer sees its name and —
for a member named "mimetype" — what its first 256 bytes say; two archives that agree on
these, member by member, get the same answer.  In particular the CONTENT of
[Content_Types].xml, of the main parts and of every embedded file is never looked at. -/
theorem zip_detect_looks_at_names_and_mimetype_only (ms ms' : List Member)
    (h : ms.map (fun m => (m.name, mimeVerdict m)) = ms'.map (fun m => (m.name, mimeVerdict m))) :
    detectZip ms = detectZip ms' := by
  have hfm : ∀ a b : List Member, a.map (fun m => (m.name, mimeVerdict m)) = b.map (fun m => (m.name, mimeVerdict m)) →
      firstMime a = firstMime b := by
    intro a
    induction a with
    | nil => intro b hb; cases b with
      | nil => rfl
      | cons y b => simp at hb
    | cons x a ih =>
      intro b hb
      cases b with
      | nil => simp at hb
      | cons y b =>
        simp only [List.map_cons, List.cons.injEq, Prod.mk.injEq] at hb
        unfold firstMime
        rw [hb.1.2, ih b hb.2]
  have hnames : ms.map (·.name) = ms'.map (·.name) := by
    have := congrArg (List.map Prod.fst) h
    simpa [List.map_map, Function.comp_def] using this
  have hmem : ∀ n, hasMember n ms = hasMember n ms' := by
    intro n
    have e : ∀ l : List Member, hasMember n l = (l.map (·.name)).any (fun x => decide (x = n)) := by
      intro l; simp [hasMember, List.any_map, Function.comp_def]
    rw [e, e, hnames]
  have hdir : ∀ p, hasDir p ms = hasDir p ms' := by
    intro p
    have e : ∀ l : List Member, hasDir p l = (l.map (·.name)).any (fun x => p.isPrefixOf x) := by
      intro l; simp [hasDir, List.any_map, Function.comp_def]
    rw [e, e, hnames]
  unfold detectZip
  rw [hfm ms ms' h]
  simp only [hmem, hdir]

/-- the same archive with other bytes in every member but the mimetype -/
example : ([⟨nMimetype, some epubMime⟩, ⟨nContainer, none⟩] : List Member).map (fun m => (m.name, mimeVerdict m)) =
    ([⟨nMimetype, some (epubMime ++ [10])⟩, ⟨nContainer, some [1, 2, 3]⟩] : List Member).map
      (fun m => (m.name, mimeVerdict m)) := by decide

/-- the byte-exact sniffer has the same table (over the canonical mimetype contents) -/
theorem zip_detect_bytes_table (ms : List Member) : detectZipB ms = detectZip (ms.map normMember) :=
  detectZipB_eq ms

/-! ## the cross-check, every pair -/

/-- `validate_format_matrix`: `validateFormat` for EVERY pair (format the name asks for —
Unknown included —, answer of the sniffer — error and Unknown included): an error of the
sniffer is an error; unclassified content passes under every name; classified content
passes iff it is what the name asks for, so under a name that asks for nothing every
classified content is a mismatch -/
theorem validate_format_matrix (extF : Format) (det : Option Format) :
    (validateFormat extF det = .detectFailed ↔ det = none) ∧
    (validateFormat extF det = .ok ↔ det = some .unknown ∨ det = some extF) ∧
    (validateFormat extF det = .mismatch ↔ ∃ d, det = some d ∧ d ≠ .unknown ∧ d ≠ extF) := by
  cases det with
  | none => simp [validateFormat]
  | some d => cases extF <;> cases d <;> simp [validateFormat]

/-- `ensure_reader_matrix`: the four ways `ensureReader` ends before a reader is opened, for
every pair -/
theorem ensure_reader_matrix (extF : Format) (det : Option Format) :
    (ensureReader extF det = .detectFailed ↔ det = none) ∧
    (ensureReader extF det = .mismatch ↔ ∃ d, det = some d ∧ d ≠ .unknown ∧ d ≠ extF) ∧
    (ensureReader extF det = .unsupported ↔ extF = .unknown ∧ det = some .unknown) ∧
    (∀ f, ensureReader extF det = .proceed f ↔
      f = extF ∧ extF ≠ .unknown ∧ (det = some .unknown ∨ det = some extF)) := by
  cases det with
  | none => simp [ensureReader, validateFormat]
  | some d =>
    refine ⟨?_, ?_, ?_, ?_⟩
    · cases extF <;> cases d <;> simp [ensureReader, validateFormat]
    · cases extF <;> cases d <;> simp [ensureReader, validateFormat]
    · cases extF <;> cases d <;> simp [ensureReader, validateFormat]
    · intro f
      cases extF <;> cases d <;> cases f <;> simp [ensureReader, validateFormat]

/-- a PDF under a name without extension: a mismatch, not "unsupported" — the cross-check
comes first -/
example : ensureReader .unknown (some .pdf) = .mismatch ∧ ensureReader .unknown (some .unknown) = .unsupported := by
  decide

/-! ## `DetectFromMagic`, every byte string -/

/-- `detect_magic_bytes_exact`: `DetectFromMagic` answers PDF iff the data starts `%PDF`,
HTML iff it has at least four bytes, starts with neither signature and `detectHTMLMagic`
accepts ALL of it (no 512-byte window here), and never anything else: a ZIP is left to
`DetectFromReader` -/
theorem detect_magic_bytes_exact (up : CaseTable) (data : Str) :
    (detectFromMagicB up data = .pdf ↔ sPdfMagic.isPrefixOf data = true) ∧
    (detectFromMagicB up data = .html ↔ 4 ≤ data.length ∧ sPdfMagic.isPrefixOf data = false ∧
      sZipMagic.isPrefixOf data = false ∧ detectHTMLMagicB up data = true) ∧
    (detectFromMagicB up data = .pdf ∨ detectFromMagicB up data = .html ∨ detectFromMagicB up data = .unknown) := by
  unfold detectFromMagicB
  by_cases h4 : data.length < 4
  · have hp : sPdfMagic.isPrefixOf data = false := by
      cases h : sPdfMagic.isPrefixOf data with
      | false => rfl
      | true => have := isPrefixOf_length h; simp [sPdfMagic] at this; omega
    simp [h4, hp]
    omega
  · simp only [h4, if_false]
    by_cases hp : sPdfMagic.isPrefixOf data = true
    · simp [hp]
    · have hp' : sPdfMagic.isPrefixOf data = false := Bool.eq_false_iff.2 hp
      by_cases hz : sZipMagic.isPrefixOf data = true
      · simp [hp', hz]
      · have hz' : sZipMagic.isPrefixOf data = false := Bool.eq_false_iff.2 hz
        have h4' : 4 ≤ data.length := by omega
        cases hh : detectHTMLMagicB up data <;> simp [hp', hz', h4']

/-- the two content entry points agree on the bytes: on data that fits the sniffer's window
and does not start like a ZIP, `DetectFromReader` answers what `DetectFromMagic` answers -/
theorem detect_magic_bytes_agrees (up : CaseTable) (h : UpperOK up) (data : Str) (zip : Option (List Member))
    (hlen : data.length ≤ 512) (hz : sZipMagic.isPrefixOf data = false) :
    detectFromReaderB up data zip = some (detectFromMagicB up data) := by
  have htk : data.take 512 = data := List.take_of_length_le hlen
  unfold detectFromReaderB detectFromMagicB
  rw [htk]
  by_cases h4 : data.length < 4
  · have hp : sPdfMagic.isPrefixOf data = false := by
      cases hq : sPdfMagic.isPrefixOf data with
      | false => rfl
      | true => have := isPrefixOf_length hq; simp [sPdfMagic] at this; omega
    have hh : detectHTMLMagicB up data = false := by
      cases hq : detectHTMLMagicB up data with
      | false => rfl
      | true =>
        exfalso
        rw [detectHTMLMagicB_eq h] at hq
        have hd : (upper (data.dropWhile isMagicWS)).length < 4 := by
          rw [upper_length]
          have := (List.dropWhile_sublist (l := data) isMagicWS).length_le
          omega
        have no : ∀ p : Str, 5 ≤ p.length → p.isPrefixOf (upper (data.dropWhile isMagicWS)) = false := by
          intro p hp5
          cases hq' : p.isPrefixOf (upper (data.dropWhile isMagicWS)) with
          | false => rfl
          | true => have := isPrefixOf_length hq'; omega
        have h1 : isHTMLDoctype (upper (data.dropWhile isMagicWS)) = false := by
          unfold isHTMLDoctype; rw [no sDoctype (by decide)]; rfl
        simp only [h1, no sHtmlTag (by decide), no sXmlDecl (by decide), Bool.false_and,
          Bool.false_eq_true, if_false] at hq
        split at hq <;> cases hq
    simp [h4, hp, hz, hh]
  · simp only [h4, if_false, hz, Bool.false_eq_true]
    by_cases hp : sPdfMagic.isPrefixOf data = true
    · simp [hp]
    · simp only [hp]
      cases detectHTMLMagicB up data <;> simp

example : sZipMagic.isPrefixOf [0xEF, 0xBB, 0xBF, 60, 104, 116, 109, 108, 62] = false := by decide

end Tabula.C20Z
