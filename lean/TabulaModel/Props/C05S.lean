import TabulaModel.Lemmas.FiltersSound
import TabulaModel.Lemmas.StreamDict
/-!
# C05, the converse — "undecodable data yields an error, not wrong bytes", at full strength

`Props/C05.lean` shows one failure class after the other (`undecodable_*`). This file closes the
clause: for each decoder the set of inputs on which it returns bytes is characterised exactly,
and the bytes are the ones the conforming encoding stands for.

* predictors (`png_decode_iff`, `tiff_decode_iff`, `flate_not_wrong_bytes`): FlateDecode's
  post-processing returns `y` **iff** the inflated data is the conforming PNG / TIFF encoding of
  `y` for the geometry of the parameters — so everything else (a filter-type byte > 4, a broken
  row count, a bad geometry, …) is an error, and no two different `y` share an encoding;
* ASCIIHex (`hex_decode_is_spec`, `hex_error_iff`): on **every** input the decoder equals the
  literal reading of §7.4.2 (`hexSpec`: drop white space, stop at the first `>`, every other
  character must be a hexadecimal digit, pair the digits, a final odd digit is followed by 0); it
  fails iff a character before the first `>` is neither white space nor a hexadecimal digit.
* ASCII85 (`a85_decode_is_spec`): on **every** input the decoder equals the literal reading of
  §7.4.3 (`a85Spec`: cut at the first `~>`, drop white space, then read group by group — `z` at a
  group boundary is four zero bytes, five characters `!`..`u` are a 32-bit number that must not
  exceed 2^32-1, fewer than five at the end are the final partial group); anything else is an error.
* `ws_eod_tolerance`: for ALL data (conforming or not) a white-space character inserted anywhere
  and different bytes after the EOD marker change nothing — neither the bytes nor the error.
-/
namespace Tabula.C05S
open Tabula.Filters

abbrev Bytes (x : Str) : Prop := ∀ b ∈ x, b < 256

/-! ## predictors -/

/-- the PNG predictor returns `y` exactly for the conforming encodings of `y` -/
theorem png_decode_iff (data : Str) (p : Params) (y : Str) (hd : Bytes data) :
    applyPNGPredictor data p = some y ↔
    ∃ (colors columns : Nat) (tags : List Nat), p.colors.getD 1 = colors ∧ p.columns.getD 1 = columns ∧
      p.bpc.getD 8 = 8 ∧ 1 ≤ columns ∧ 1 ≤ colors ∧ columns * colors ≤ 2147483646 ∧ (∀ t ∈ tags, t ≤ 4) ∧
      y.length = tags.length * (columns * colors) ∧ Bytes y ∧ data = pngPredict colors columns tags y := by
  constructor
  · exact applyPNGPredictor_sound data p y hd
  · rintro ⟨colors, columns, tags, hc, hcol, hb, h1, h2, hcap, ht, hlen, hy, hdata⟩
    rw [hdata, applyPNGPredictor_norm]
    exact applyPNGPredictor_pngPredict colors columns tags y p.norm (by simp [Params.norm, hc])
      (by simp [Params.norm, hcol]) (Or.inr (by simp [Params.norm, hb])) h1 h2 hcap hlen ht hy

/-- non-vacuity (and a refusal): two rows of three bytes, filter types Sub and Up; the same
data with a filter-type byte 5 is refused -/
example : applyPNGPredictor [1, 10, 10, 10, 2, 1, 1, 1] { columns := some 3 } = some [10, 20, 30, 11, 21, 31] ∧
    applyPNGPredictor [1, 10, 10, 10, 5, 1, 1, 1] { columns := some 3 } = none := by decide

/-- the TIFF predictor returns `y` exactly for the horizontal differencing of `y` (whole rows) -/
theorem tiff_decode_iff (data : Str) (p : Params) (y : Str) (hd : Bytes data) :
    applyTIFFPredictor2 data p = some y ↔
    ∃ (colors columns : Nat), p.colors.getD 1 = colors ∧ p.columns.getD 1 = columns ∧
      p.bpc.getD 8 = 8 ∧ 1 ≤ columns ∧ 1 ≤ colors ∧ columns * colors ≤ 2147483646 ∧
      y.length % (columns * colors) = 0 ∧ Bytes y ∧ data = tiffPredict colors columns y := by
  constructor
  · exact applyTIFFPredictor2_sound data p y hd
  · rintro ⟨colors, columns, hc, hcol, hb, h1, h2, hcap, hlen, hy, hdata⟩
    rw [hdata, applyTIFFPredictor2_norm]
    exact applyTIFFPredictor2_tiffPredict colors columns y p.norm (by simp [Params.norm, hc])
      (by simp [Params.norm, hcol]) (Or.inr (by simp [Params.norm, hb])) h1 h2 hcap hlen hy

example : applyTIFFPredictor2 [10, 20, 1, 1, 5, 5, 250, 10] { colors := some 2, columns := some 2 }
    = some [10, 20, 11, 21, 5, 5, 255, 15] := by decide

/-- the encoders are injective: one encoding stands for one byte string (so a decoder that
inverts them can never return "another" original) -/
theorem encodings_injective (colors columns : Nat) (tags : List Nat) (y y' : Str)
    (h1 : 1 ≤ columns) (h2 : 1 ≤ colors) (hcap : columns * colors ≤ 2147483646) (ht : ∀ t ∈ tags, t ≤ 4)
    (hy : Bytes y) (hy' : Bytes y') (hl : y.length = tags.length * (columns * colors))
    (hl' : y'.length = tags.length * (columns * colors))
    (h : pngPredict colors columns tags y = pngPredict colors columns tags y') : y = y' := by
  have a := applyPNGPredictor_pngPredict colors columns tags y
    { colors := some colors, columns := some columns } rfl rfl (Or.inl rfl) h1 h2 hcap hl ht hy
  have b := applyPNGPredictor_pngPredict colors columns tags y'
    { colors := some colors, columns := some columns } rfl rfl (Or.inl rfl) h1 h2 hcap hl' ht hy'
  rw [h, b] at a
  exact (Option.some.inj a).symm

/-- **flate_not_wrong_bytes**: whatever FlateDecode returns after inflating — with parameters as
`toParams ∘ dictToParams` reads them from any dictionary — is the original of the inflated data:
without a (numeric) Predictor or with Predictor 1 the inflated data itself; with Predictor 2 the
inflated data is the TIFF differencing of the result; with Predictor 10..15 it is the PNG
filtering of the result with filter types ≤ 4; there is no other way to get bytes. -/
theorem flate_not_wrong_bytes (params : Option Params) (dec y : Str) (hd : Bytes dec)
    (h : flatePost params dec = some y) :
    (y = dec ∧ (params = none ∨ ∃ p, params = some p ∧ (p.predictor = none ∨ p.predictor = some 1))) ∨
    (∃ p colors columns, params = some p ∧ p.predictor = some 2 ∧ p.colors.getD 1 = (colors : Nat) ∧
      p.columns.getD 1 = (columns : Nat) ∧ p.bpc.getD 8 = 8 ∧ 1 ≤ columns ∧ 1 ≤ colors ∧
      y.length % (columns * colors) = 0 ∧ dec = tiffPredict colors columns y) ∨
    (∃ p pr colors columns tags, params = some p ∧ p.predictor = some pr ∧ 10 ≤ pr ∧ pr ≤ 15 ∧
      p.colors.getD 1 = (colors : Nat) ∧ p.columns.getD 1 = (columns : Nat) ∧ p.bpc.getD 8 = 8 ∧
      1 ≤ columns ∧ 1 ≤ colors ∧ (∀ t ∈ tags, t ≤ 4) ∧ y.length = tags.length * (columns * colors) ∧
      dec = pngPredict colors columns tags y) := by
  cases params with
  | none =>
    simp only [flatePost, Option.some.injEq] at h
    exact Or.inl ⟨h.symm, Or.inl rfl⟩
  | some p =>
    simp only [flatePost] at h
    cases hpr : p.predictor with
    | none =>
      rw [hpr] at h
      simp only [Option.some.injEq] at h
      exact Or.inl ⟨h.symm, Or.inr ⟨p, rfl, Or.inl hpr⟩⟩
    | some pr =>
      rw [hpr] at h
      simp only at h
      by_cases h1 : pr = 1
      · subst h1
        simp only [ne_eq, not_true_eq_false, if_false, Option.some.injEq] at h
        exact Or.inl ⟨h.symm, Or.inr ⟨p, rfl, Or.inr hpr⟩⟩
      · simp only [ne_eq, h1, not_false_eq_true, if_true, applyPredictor, if_false] at h
        by_cases h2 : pr = 2
        · subst h2
          simp only [if_true] at h
          obtain ⟨colors, columns, hc, hcol, hb, g1, g2, _, hlen, _, hdata⟩ :=
            (tiff_decode_iff dec p y hd).mp h
          exact Or.inr (Or.inl ⟨p, colors, columns, rfl, hpr, hc, hcol, hb, g1, g2, hlen, hdata⟩)
        · simp only [h2, if_false] at h
          by_cases h3 : pr ≥ 10 ∧ pr ≤ 15
          · simp only [h3, and_self, if_true] at h
            obtain ⟨colors, columns, tags, hc, hcol, hb, g1, g2, _, ht, hlen, _, hdata⟩ :=
              (png_decode_iff dec p y hd).mp h
            exact Or.inr (Or.inr ⟨p, pr, colors, columns, tags, rfl, hpr, h3.1, h3.2, hc, hcol, hb, g1, g2, ht, hlen, hdata⟩)
          · simp only [h3, if_false] at h
            exact absurd h (by simp)

/-! ## ASCIIHex -/

/-- on every input the decoder is the literal reading of §7.4.2 -/
theorem hex_decode_is_spec (s : Str) : hexDecode s = hexSpec s := hexDecode_eq_spec s

/-- the decoder fails iff some character before the first `>` is neither white space nor a
hexadecimal digit; in every other case it returns the digits before the first `>` paired up -/
theorem hex_error_iff (s : Str) :
    (hexDecode s = none ↔ ∃ c ∈ hexBodyOf s, hexVal c = none) ∧
    (∀ y, hexDecode s = some y ↔ ∃ vs, hexVals (hexBodyOf s) = some vs ∧ y = pairUp vs) := by
  rw [hexDecode_eq_spec]
  unfold hexSpec
  refine ⟨?_, ?_⟩
  · rw [Option.map_eq_none_iff]
    exact hexVals_none_iff _
  · intro y
    cases hexVals (hexBodyOf s) with
    | none => simp
    | some vs =>
      simp only [Option.map_some, Option.some.injEq]
      constructor
      · intro h; exact ⟨vs, rfl, h.symm⟩
      · rintro ⟨vs', h1, h2⟩; rw [h2, h1]

/-- non-vacuity: "4 1>zz" is read as 41; "4g>" is refused; "4>" is 40 -/
example : hexSpec [52, 32, 49, 62, 122, 122] = some [65] ∧ hexSpec [52, 103, 62] = none ∧
    hexSpec [52, 62] = some [64] := by decide

/-! ## ASCII85 -/

/-- on every input the decoder is the literal reading of §7.4.3 -/
theorem a85_decode_is_spec (s : Str) : a85Decode s = a85Spec s := a85Decode_eq_spec s

/-- the group reading on the three kinds of group, and its failures: a `z` inside a group, a
character outside `!`..`u` among the (up to) five characters of a group, a value above 2^32-1 -/
theorem a85_groups_cases :
    (∀ body, a85Groups (122 :: body) = (a85Groups body).map (fun t => 0 :: 0 :: 0 :: 0 :: t)) ∧
    (∀ cs i c, i < 5 → cs[i]? = some c → a85Digit c = false → cs.head? ≠ some 122 → a85Groups cs = none) ∧
    (∀ a b c d e body, a < 85 → b < 85 → c < 85 → d < 85 → e < 85 →
      a85Groups ((a + 33) :: (b + 33) :: (c + 33) :: (d + 33) :: (e + 33) :: body) =
        if (((a * 85 + b) * 85 + c) * 85 + d) * 85 + e > 4294967295 then none
        else (a85Groups body).map (fun t => bytes4 ((((a * 85 + b) * 85 + c) * 85 + d) * 85 + e) ++ t)) := by
  refine ⟨a85Groups_z, ?_, ?_⟩
  · intro cs i c hi hc hbad h0
    exact a85Groups_bad cs i hi c hc hbad h0
  · intro a b c d e body ha hb hc hd he
    have h := a85Groups_full a b c d ha hb hc hd (e + 33) (a85Digit_char e he) body
    simp only [a85Chars, List.map_cons, List.map_nil, List.cons_append, List.nil_append, Nat.add_sub_cancel] at h
    rw [h, a85Flush_5]
    by_cases hv : (((a * 85 + b) * 85 + c) * 85 + d) * 85 + e > 4294967295
    · simp only [hv, if_true]
    · simp only [hv, if_false]

/-- non-vacuity: white space, `z`, a full group, a partial group, bytes after `~>`; `z` inside a
group and the group `uuuuu` (85^5-1 > 2^32-1) are refused -/
example : a85Spec [122, 10, 33, 33, 32, 33, 33, 34, 0, 53, 115, 98, 126, 62, 1] = some [0, 0, 0, 0, 0, 0, 0, 1, 65, 66] ∧
    a85Spec [33, 33, 122] = none ∧ a85Spec [117, 117, 117, 117, 117] = none := by decide

/-! ## white space and the EOD marker, for all data -/

/-- **ws_eod_tolerance**: for every data string — conforming or not — (1) a white-space character
inserted at any position (for ASCII85: except between the `~` and `>` of the marker) and
(2) replacing what follows the EOD marker by anything else leave the result of the decoder
unchanged, be it bytes or an error. -/
theorem ws_eod_tolerance (a b t t' : Str) (c : Nat) (hc : isWs c = true) :
    hexDecode (a ++ c :: b) = hexDecode (a ++ b) ∧
    (a.getLast? ≠ some 126 → a85Decode (a ++ c :: b) = a85Decode (a ++ b)) ∧
    hexDecode (a ++ 62 :: t) = hexDecode (a ++ 62 :: t') ∧
    a85Decode (a ++ 126 :: 62 :: t) = a85Decode (a ++ 126 :: 62 :: t') := by
  refine ⟨?_, ?_, ?_, ?_⟩
  · rw [hexDecode_eq_spec, hexDecode_eq_spec, hexSpec, hexSpec, hexBodyOf_insert_ws c hc b a]
  · intro h
    rw [a85Decode_eq_spec, a85Decode_eq_spec, a85Spec, a85Spec, a85BodyOf_insert_ws c hc b a h]
  · rw [hexDecode_eq_spec, hexDecode_eq_spec, hexSpec, hexSpec, hexBodyOf_after_eod a t t']
  · rw [a85Decode_eq_spec, a85Decode_eq_spec, a85Spec, a85Spec, a85BodyOf_after_eod a t t']

example : isWs 10 = true := by decide

/-! ## the whole of `Decode()`: bytes come only from encodings -/

/-- what one successful stage of `Decode` means, in terms of the specifications only: ASCIIHex /
ASCII85 — the data reads as `out` by the literal §7.4.2 / §7.4.3; Flate — zlib inflates the data
to something that is `out` itself or its TIFF / PNG predicted form (`flate_not_wrong_bytes`);
DCT / JPX — handed on unchanged (tabula leaves image data to the image code); CCITT — what
x/image/ccitt returns for the arguments `ccittFaxDecode` derives from the parameters, when that is at
most `maxCCITTOutput` = 64 MiB (a larger image is an error since fix 6dc2783: `ccittFaxDecode` ends in
`ccittLimit`; `C05E.ccitt_stage_bounded`). No other filter name ever yields bytes. -/
def StageReads (ext : Ext) (name : Str) (params : Option Params) (inp out : Str) : Prop :=
  ((name = nASCIIHexDecode ∨ name = nAHx) ∧ hexSpec inp = some out) ∨
  ((name = nASCII85Decode ∨ name = nA85) ∧ a85Spec inp = some out) ∨
  ((name = nFlateDecode ∨ name = nFl) ∧ ∃ dec, ext.inflate inp = some dec ∧ flatePost params dec = some out) ∨
  ((name = nDCTDecode ∨ name = nDCT ∨ name = nJPXDecode) ∧ out = inp) ∨
  ((name = nCCITTFaxDecode ∨ name = nCCF) ∧ ccittFaxDecode ext.ccitt inp params = some out)

theorem stage_reads (ext : Ext) (name : Str) (params : Option Params) (inp out : Str)
    (h : decodeWithFilter ext inp name params = some out) : StageReads ext name params inp out := by
  unfold decodeWithFilter at h
  unfold StageReads
  split at h
  · rename_i hn
    refine Or.inr (Or.inr (Or.inl ⟨hn, ?_⟩))
    unfold flateDecode at h
    cases hi : ext.inflate inp with
    | none => rw [hi] at h; exact absurd h (by simp)
    | some dec => rw [hi] at h; exact ⟨dec, rfl, h⟩
  · split at h
    · rename_i hn
      exact Or.inl ⟨hn, by rw [← hexDecode_eq_spec]; exact h⟩
    · split at h
      · rename_i hn
        exact Or.inr (Or.inl ⟨hn, by rw [← a85Decode_eq_spec]; exact h⟩)
      · split at h
        · exact absurd h (by simp)
        · split at h
          · exact absurd h (by simp)
          · split at h
            · rename_i hn
              exact Or.inr (Or.inr (Or.inr (Or.inr ⟨hn, h⟩)))
            · split at h
              · exact absurd h (by simp)
              · split at h
                · rename_i hn
                  simp only [Option.some.injEq] at h
                  exact Or.inr (Or.inr (Or.inr (Or.inl ⟨by rcases hn with h1 | h1 <;> simp [h1], h.symm⟩)))
                · split at h
                  · rename_i hn
                    simp only [Option.some.injEq] at h
                    exact Or.inr (Or.inr (Or.inr (Or.inl ⟨Or.inr (Or.inr hn), h.symm⟩)))
                  · split at h <;> exact absurd h (by simp)

/-- `ChainReads`: the data passes through the filters in array order, each stage reading its input
as the specifications say, with the parameters `Decode` selects for position `i` -/
def ChainReads (ext : Ext) (dp : DParms) : List Str → Nat → Str → Str → Prop
  | [], _, inp, out => out = inp
  | n :: ns, i, inp, out => ∃ mid, StageReads ext n (chainParams dp i) inp mid ∧ ChainReads ext dp ns (i + 1) mid out

/-- **decode_not_wrong_bytes**: whenever `Decode()` returns bytes for a dictionary and data — any
dictionary, any data — the `Filter` entry was absent (or a Go nil; the data itself), a name, or an array of
names, and the data reads, stage by stage in array order and with the i-th parameters, as exactly
those bytes according to the specifications of the filters. Everything else is an error. -/
theorem decode_not_wrong_bytes (ext : Ext) (d : Dict) (data y : Str) (h : streamDecodeD ext d data = some y) :
    ((dictGet d kFilter = none ∨ dictGet d kFilter = some .nil) ∧ y = data) ∨
    (∃ n, dictGet d kFilter = some (.name n) ∧
      StageReads ext n (paramsObjToDict (objToPObj (match dictGet d kDecodeParms with
        | some (.array _) => none | o => o))) data y) ∨
    (∃ ns : List Str, dictGet d kFilter = some (.array (ns.map Obj.name)) ∧
      ChainReads ext (objToDParms (dictGet d kDecodeParms)) ns 0 data y) := by
  unfold streamDecodeD at h
  cases hf : dictGet d kFilter with
  | none =>
    rw [hf] at h
    simp only [objToFilter, streamDecode, Option.some.injEq] at h
    exact Or.inl ⟨Or.inl rfl, h.symm⟩
  | some fo =>
    rw [hf] at h
    cases fo with
    | nil =>
      simp only [objToFilter, streamDecode, Option.some.injEq] at h
      exact Or.inl ⟨Or.inr rfl, h.symm⟩
    | name n =>
      refine Or.inr (Or.inl ⟨n, rfl, ?_⟩)
      simp only [objToFilter, streamDecode] at h
      apply stage_reads
      cases hdp : dictGet d kDecodeParms with
      | none => rw [hdp] at h; exact h
      | some po =>
        rw [hdp] at h
        cases po <;> exact h
    | array xs =>
      refine Or.inr (Or.inr ?_)
      simp only [objToFilter, streamDecode] at h
      generalize objToDParms (dictGet d kDecodeParms) = dp at h ⊢
      have key : ∀ (xs : List Obj) (i : Nat) (inp : Str), decodeChain ext dp (xs.map objToFObj) i inp = some y →
          ∃ ns : List Str, xs = ns.map Obj.name ∧ ChainReads ext dp ns i inp y := by
        intro xs
        induction xs with
        | nil =>
          intro i inp hc
          simp only [List.map_nil, decodeChain, Option.some.injEq] at hc
          exact ⟨[], rfl, hc.symm⟩
        | cons x xs ih =>
          intro i inp hc
          cases x with
          | name n =>
            simp only [List.map_cons, objToFObj, decodeChain] at hc
            cases hs : decodeWithFilter ext inp n (chainParams dp i) with
            | none => rw [hs] at hc; exact absurd hc (by simp)
            | some mid =>
              rw [hs] at hc
              obtain ⟨ns, hxs, hcr⟩ := ih (i + 1) mid hc
              exact ⟨n :: ns, by simp [hxs], mid, stage_reads ext n _ inp mid hs, hcr⟩
          | _ => simp [objToFObj, decodeChain] at hc
      obtain ⟨ns, hxs, hcr⟩ := key xs 0 data h
      exact ⟨ns, by rw [hxs], hcr⟩
    | _ => simp [objToFilter, streamDecode] at h

/-- non-vacuity: `<< /Filter [/AHx /A85] >>` on "7a 7E3e>" gives four zero bytes
(hex → "z~>" → 00 00 00 00) -/
example : streamDecodeD { inflate := fun _ => none, ccitt := fun _ _ => none }
    [(kFilter, .array [.name nAHx, .name nA85])] [55, 97, 32, 55, 69, 51, 101, 62] = some [0, 0, 0, 0] := by decide

end Tabula.C05S
