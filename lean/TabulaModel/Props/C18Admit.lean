import TabulaModel.Lemmas.PackageAdmit
import TabulaModel.Props.C18Front
/-!
# C18 — through the real front door: admission by content (composition with C20's model)

`tabula.Open(f)` first sniffs the file (`validateFormat` → `format.DetectFromReader` →
`detectZIPFormat`; model `Model/Detect.lean`, owned by property C20) and only then opens
the format reader. `open*` of `Model/PackageApi.lean` put the two together. Here:

* a package that declares its parts at all carries its format's main part, hence is
  admitted unless its content names ANOTHER format first (`*_admitted`);
* admission does not depend on the ZIP order either (`admitted_perm_invariant`);
* so the equations of `front_xlsx` / `front_pptx` / `front_epub` hold for the real front
  door (`open_xlsx`, `open_pptx`, `open_epub`), and it is independent of the ZIP order
  (`open_archive_perm_invariant`).
-/
namespace Tabula.C18Admit
open Tabula.Package Tabula.PackageApi Tabula.C18 Tabula.C18Api Tabula.C18Front
open Tabula.Detect (Member firstMime hasMember hasDir detectZip mimeVerdict MimeAgree nMimetype nContainer nWordDoc
  nXlWorkbook nPptPres)

/-- **admitted_perm_invariant** — admission is the same for every permutation of the ZIP
member list (member names distinct). -/
theorem admitted_perm_invariant (f : Detect.Format) (a a' : Archive) (mime : Nat → Option Str)
    (hn : (a.map Prod.fst).Nodup) (hp : a.Perm a') : admitted f a mime = admitted f a' mime := by
  unfold admitted
  have hp' : (zipMembers a mime).Perm (zipMembers a' mime) := hp.map _
  have hnd : ((zipMembers a mime).map (·.name)).Nodup := by
    rw [names_zipMembers]
    exact hn
  rw [Detect.detectZip_perm hp' (mimeAgree_of_nodup _ hnd)]

/-- **xlsx_admitted** — a workbook that `xlsx.Open` gets as far as reading the sheet list
of is admitted as XLSX, unless a `mimetype` member names ODT/EPUB, or the archive also
holds `META-INF/container.xml` or `word/document.xml` (then the content names another
format and `tabula.Open` refuses the file: property C20). -/
theorem xlsx_admitted (a : Archive) (x : Docs) (mime : Nat → Option Str) (d : List (Str × Str) × List (Str × Str))
    (h : xlsxDeclared (lookup a) x = some d)
    (hm : firstMime (zipMembers a mime) = none) (hc : lookup a nContainer = none) (hw : lookup a nWordDoc = none) :
    admitted .xlsx a mime = true := by
  have hwb : (lookup a nXlWorkbook).isSome = true := by
    unfold xlsxDeclared at h
    have e : sWorkbook = nXlWorkbook := by decide
    rw [e] at h
    cases h1 : lookup a sCT with
    | none => simp [h1] at h
    | some c1 =>
      cases h2 : lookup a nXlWorkbook with
      | none => simp [h1, h2] at h
      | some c2 => rfl
  unfold admitted detectZip
  simp only [hm, hasMember_zipMembers, hc, hw, hwb, Option.isSome_none, Bool.false_eq_true, if_false, if_true]
  decide

theorem pptx_admitted (a : Archive) (x : Docs) (mime : Nat → Option Str) (d : List Str)
    (h : pptxDeclared (lookup a) x = some d)
    (hm : firstMime (zipMembers a mime) = none) (hc : lookup a nContainer = none) (hw : lookup a nWordDoc = none)
    (hx : lookup a nXlWorkbook = none) : admitted .pptx a mime = true := by
  have hpp : (lookup a nPptPres).isSome = true := by
    unfold pptxDeclared at h
    have e : sPres = nPptPres := by decide
    rw [e] at h
    cases h1 : lookup a sCT with
    | none => simp [h1] at h
    | some c1 =>
      cases h2 : lookup a nPptPres with
      | none => simp [h1, h2] at h
      | some c2 => rfl
  unfold admitted detectZip
  simp only [hm, hasMember_zipMembers, hc, hw, hx, hpp, Option.isSome_none, Bool.false_eq_true, if_false, if_true]
  decide

/-- **epub_admitted** — a publication whose container file is there is admitted as EPUB unless
a `mimetype` member names ODT. -/
theorem epub_admitted (a : Archive) (x : Docs) (mime : Nat → Option Str) (d : Str × List (Str × Str) × List Str)
    (h : epubDeclared (lookup a) x = some d)
    (hm : firstMime (zipMembers a mime) = none ∨ firstMime (zipMembers a mime) = some .epub) :
    admitted .epub a mime = true := by
  have hcont : (lookup a nContainer).isSome = true := by
    unfold epubDeclared parseContainer at h
    have e : sContainer = nContainer := by decide
    rw [e] at h
    cases h1 : lookup a nContainer with
    | none => simp [h1] at h
    | some c1 => rfl
  unfold admitted detectZip
  rcases hm with hm | hm
  · simp only [hm, hasMember_zipMembers, hcont, if_true]
    decide
  · simp only [hm]
    decide

/-- **open_xlsx / open_pptx / open_epub** — the equations of `front_*` for the real front
door (sniffing included). -/
theorem open_xlsx (a : Archive) (x : Docs) (mime : Nat → Option Str) (grid : Nat → Grid) (o : FrontOpts)
    (rels sheets : List (Str × Str)) (h : xlsxDeclared (lookup a) x = some (rels, sheets))
    (hm : firstMime (zipMembers a mime) = none) (hc : lookup a nContainer = none) (hw : lookup a nWordDoc = none) :
    let parts := sheets.zipIdx.filterMap (xlsxSpecPart a x rels)
    openCountXlsx a x mime grid = (if parts = [] then none else some parts.length) ∧
    openTextXlsx a x mime grid o =
      (if parts = [] then none else some (joinWith sNL2 (parts.map fun p => sheetBody [9] (grid p.2.1)))) ∧
    openDocXlsx a x mime grid =
      (if parts = [] then none else some (parts.map fun p => ⟨p.1 + 1, p.2.1, grid p.2.1⟩)) := by
  have ha := xlsx_admitted a x mime _ h hm hc hw
  unfold openCountXlsx openTextXlsx openDocXlsx
  simp only [ha, if_true]
  exact front_xlsx a x grid o rels sheets h

theorem open_pptx (a : Archive) (x : Docs) (mime : Nat → Option Str) (body : Nat → SlideBody) (nt : Nat → Str)
    (o : FrontOpts) (declared : List Str) (h : pptxDeclared (lookup a) x = some declared) (hne : declared ≠ [])
    (hm : firstMime (zipMembers a mime) = none) (hc : lookup a nContainer = none) (hw : lookup a nWordDoc = none)
    (hx : lookup a nXlWorkbook = none) :
    let parts := declared.zipIdx.filterMap (pptxSpecPartN a x)
    openCountPptx a x mime body nt = (if parts = [] then none else some parts.length) ∧
    openTextPptx a x mime body nt o =
      (if parts = [] then none
       else some (joinWith sNL2 (parts.map fun p => slideText (frontPOpts o) (mkSlide body nt p)))) ∧
    openDocPptx a x mime body nt =
      (if parts = [] then none else some (parts.map fun p => ⟨p.1 + 1, p.2.1, body p.2.1⟩)) := by
  have ha := pptx_admitted a x mime _ h hm hc hw hx
  unfold openCountPptx openTextPptx openDocPptx
  simp only [ha, if_true]
  exact front_pptx a x body nt o declared h hne

theorem open_epub (hv : HtmlViews) (a : Archive) (x : Docs) (mime : Nat → Option Str) (o : FrontOpts) (base : Str)
    (manifest : List (Str × Str)) (spine : List Str)
    (h : epubDeclared (lookup a) x = some (base, manifest, spine))
    (hm : firstMime (zipMembers a mime) = none ∨ firstMime (zipMembers a mime) = some .epub) :
    let parts := (spineFirsts base manifest spine).filterMap (epubSpecPart a base manifest)
    openCountEpub a x mime = (if parts = [] then none else some parts.length) ∧
    openTextEpub hv a x mime o =
      (if parts = [] then none
       else some (joinWith sNL2 ((parts.map mkChapter).filterMap (chapterSegment hv 0)))) ∧
    openDocEpub hv a x mime =
      (if parts = [] then none else some (epubDocument hv (parts.map mkChapter))) := by
  have ha := epub_admitted a x mime _ h hm
  unfold openCountEpub openTextEpub openDocEpub
  simp only [ha, if_true]
  exact front_epub hv a x o base manifest spine h

/-- **open_archive_perm_invariant** — nothing `tabula.Open(f)` reports depends on the ZIP
member order: neither admission nor count, text and pages. -/
theorem open_archive_perm_invariant (a a' : Archive) (x : Docs) (mime : Nat → Option Str)
    (hn : (a.map Prod.fst).Nodup) (hp : a.Perm a') :
    (∀ grid o, openCountXlsx a x mime grid = openCountXlsx a' x mime grid ∧
      openTextXlsx a x mime grid o = openTextXlsx a' x mime grid o ∧
      openDocXlsx a x mime grid = openDocXlsx a' x mime grid) ∧
    (pptxDeclared (lookup a) x ≠ some [] → ∀ body nt o,
      openCountPptx a x mime body nt = openCountPptx a' x mime body nt ∧
      openTextPptx a x mime body nt o = openTextPptx a' x mime body nt o ∧
      openDocPptx a x mime body nt = openDocPptx a' x mime body nt) ∧
    (∀ hv o, openCountEpub a x mime = openCountEpub a' x mime ∧
      openTextEpub hv a x mime o = openTextEpub hv a' x mime o ∧
      openDocEpub hv a x mime = openDocEpub hv a' x mime) := by
  obtain ⟨hx, hpx, he⟩ := front_archive_perm_invariant a a' x hn hp
  have hadm := fun f => admitted_perm_invariant f a a' mime hn hp
  refine ⟨?_, ?_, ?_⟩
  · intro grid o
    obtain ⟨h1, h2, h3⟩ := hx grid o
    unfold openCountXlsx openTextXlsx openDocXlsx
    rw [hadm, h1, h2, h3]
    exact ⟨rfl, rfl, rfl⟩
  · intro hd body nt o
    obtain ⟨h1, h2, h3⟩ := hpx hd body nt o
    unfold openCountPptx openTextPptx openDocPptx
    rw [hadm, h1, h2, h3]
    exact ⟨rfl, rfl, rfl⟩
  · intro hv o
    obtain ⟨h1, h2, h3⟩ := he hv o
    unfold openCountEpub openTextEpub openDocEpub
    rw [hadm, h1, h2, h3]
    exact ⟨rfl, rfl, rfl⟩

/-- non-vacuity: the example packages are admitted, a workbook with a stray
`word/document.xml` is not (by design: C20) although `xlsx.Open` reads it -/
example : firstMime (zipMembers exXArchive fun _ => none) = none ∧ lookup exXArchive nContainer = none ∧
    lookup exXArchive nWordDoc = none ∧ admitted .xlsx exXArchive (fun _ => none) = true := by decide
example : firstMime (zipMembers exArchiveN fun _ => none) = none ∧ lookup exArchiveN nXlWorkbook = none ∧
    admitted .pptx exArchiveN (fun _ => none) = true := by decide
example : firstMime (zipMembers exEArchive fun _ => none) = none ∧ admitted .epub exEArchive (fun _ => none) = true := by
  decide
theorem stray_word_part_refused_example :
    admitted .xlsx (exXArchive ++ [(nWordDoc, 99)]) (fun _ => none) = false ∧
    (frontCountXlsx (exXArchive ++ [(nWordDoc, 99)]) exXDocs exXGrid).isSome = true ∧
    openCountXlsx (exXArchive ++ [(nWordDoc, 99)]) exXDocs (fun _ => none) exXGrid = none := by decide

end Tabula.C18Admit
