import TabulaModel.Model.BoundsOffice
/-!
# C02 — bounded work in the office-format, HTML, EPUB and font readers

Theorems about `Model/BoundsOffice.lean`, each for EVERY input. Ops: `c02.span`, `c02.ilvl`,
`c02.spaces`, `c02.inline`, `c02.chain`, `c02.col`, `c02.merges`, `c02.sheets`, `c02.tgrid`,
`c02.tree`, `c02.cmap4`, `c02.bfarr` (harness/c02/bounds_office.go).
-/
namespace Tabula.C02Office
open Tabula.BoundsOffice

/-! ### 1. numbers that size grids, indentation and strings -/

/-- **span_bounded**: whatever `w:gridSpan`, `number-columns-spanned`, `number-rows-spanned` or
`number-columns-repeated` say (2147483647, -1, not a number), the value used is in 1..1024. -/
theorem span_bounded (v : Option Int) : 1 ≤ acceptSpan v ∧ acceptSpan v ≤ maxCellSpan := by
  unfold acceptSpan maxCellSpan
  split
  · split <;> omega
  · omega

theorem parseListLevelGo_le (s : List Nat) (level : Nat) (h : level ≤ maxListLevel) :
    parseListLevelGo s level ≤ maxListLevel := by
  induction s generalizing level with
  | nil => simpa [parseListLevelGo] using h
  | cons c rest ih =>
    unfold parseListLevelGo
    split
    · simp only
      split
      · exact Nat.le_refl _
      · exact ih _ (by omega)
    · exact ih _ h

/-- **list_level_bounded**: `w:ilvl` of any length and content gives a level in 0..8 (it is used to
indent the item); the running value never exceeds 89, so nothing wraps around. -/
theorem list_level_bounded (s : List Nat) : parseListLevel s ≤ maxListLevel := by
  unfold parseListLevel
  split
  · exact Nat.zero_le _
  · exact parseListLevelGo_le s 0 (Nat.zero_le _)

theorem level_clamped (l : Int) : clampLevel l ≤ maxListLevel := by
  unfold clampLevel maxListLevel
  split
  · omega
  · split <;> omega

/-- **space_run_bounded**: one `<text:s text:c="N"/>` writes between 1 and 1024 spaces. -/
theorem space_run_bounded (c : Option Int) : 1 ≤ spaceRun c ∧ spaceRun c ≤ maxSpaceRun := by
  unfold spaceRun maxSpaceRun
  cases c with
  | none => simp
  | some v =>
    simp only
    split <;> split <;> omega

example : acceptSpan (some 2147483647) = 1 := by decide
example : acceptSpan (some 1024) = 1024 := by decide
example : acceptSpan (some 1025) = 1 := by decide
example : parseListLevel ("2147483647".toList.map Char.toNat) = 8 := by decide
example : parseListLevel [55] = 7 := by decide
example : spaceRun (some 2147483647) = 1024 := by decide
example : spaceRun (some 1024) = 1024 := by decide
example : spaceRun (some (-3)) = 1 := by decide

/-! ### 2. inline containers -/

mutual
theorem decodeOne_iff (lim d : Nat) (hd : d ≤ lim) : ∀ x : Inl,
    (decodeOne lim d x).isSome = true ↔ d + x.depth ≤ lim
  | .leaf => by simp [decodeOne, Inl.depth]; exact hd
  | .skip => by simp [decodeOne, Inl.depth]; exact hd
  | .box kids => by
    simp only [decodeOne, Inl.depth]
    by_cases h : d + 1 > lim
    · simp only [h, if_true, Option.isSome_none, Bool.false_eq_true, false_iff]; omega
    · simp only [h, if_false]
      rw [decodeList_iff lim (d + 1) (by omega) kids]
      omega
theorem decodeList_iff (lim d : Nat) (hd : d ≤ lim) : ∀ xs : List Inl,
    (decodeList lim d xs).isSome = true ↔ d + Inl.depthList xs ≤ lim
  | [] => by simp [decodeList, Inl.depthList]; exact hd
  | x :: rest => by
    have h1 := decodeOne_iff lim d hd x
    have h2 := decodeList_iff lim d hd rest
    simp only [decodeList, Inl.depthList]
    cases hx : decodeOne lim d x with
    | none =>
      rw [hx] at h1
      simp only [Option.isSome_none, Bool.false_eq_true, false_iff] at h1 ⊢
      omega
    | some a =>
      rw [hx] at h1
      simp only [Option.isSome_some, true_iff] at h1
      cases hr : decodeList lim d rest with
      | none =>
        rw [hr] at h2
        simp only [Option.isSome_none, Bool.false_eq_true, false_iff] at h2 ⊢
        omega
      | some b =>
        rw [hr] at h2
        simp only [Option.isSome_some, true_iff] at h2 ⊢
        omega
end

/-- **inline_nesting_bounded**: a paragraph is decoded exactly when its inline containers nest at
most `lim` (= 10000) deep; so the recursion of `decodeContent` / `decodeInlineContentAt` is never
deeper than `lim + 1` activations, and three million nested `<text:span>` are the documented
error, not a stack overflow. -/
theorem inline_nesting_bounded (lim : Nat) (kids : List Inl) :
    (decodeParagraph lim kids).isSome = true ↔ Inl.depthList kids ≤ lim := by
  unfold decodeParagraph
  rw [decodeList_iff lim 0 (Nat.zero_le _) kids]
  omega

def nestBox : Nat → Inl
  | 0 => .leaf
  | n + 1 => .box [nestBox n]

theorem nestBox_depth (n : Nat) : (nestBox n).depth = n := by
  induction n with
  | zero => rfl
  | succ n ih => simp [nestBox, Inl.depth, Inl.depthList, ih]

/-- at the edge, with the real constant: `n` nested containers are decoded iff `n ≤ 10000` -/
theorem inline_nesting_edge (n : Nat) :
    (decodeParagraph maxInlineDepth [nestBox n]).isSome = true ↔ n ≤ maxInlineDepth := by
  rw [inline_nesting_bounded]
  simp only [Inl.depthList, nestBox_depth]
  omega

example : (decodeParagraph maxInlineDepth [nestBox 10000]).isSome = true :=
  (inline_nesting_edge 10000).mpr (by decide)
example : ¬ (decodeParagraph maxInlineDepth [nestBox 10001]).isSome = true :=
  fun h => absurd ((inline_nesting_edge 10001).mp h) (by decide)
example : decodeParagraph 3 [.leaf, .box [.leaf, .skip, .box [.leaf]], .leaf] = some 4 := by decide

/-! ### 3. style chains -/

theorem lookupS_mem (l : List (Nat × Nat)) (n v : Nat) (h : lookupS l n = some v) :
    n ∈ l.map Prod.fst := by
  unfold lookupS at h
  cases hf : l.find? (·.1 = n) with
  | none => simp [hf] at h
  | some p =>
    have hm := List.mem_of_find?_eq_some hf
    have hp := List.find?_some hf
    simp at hp
    exact List.mem_map.mpr ⟨p, hm, hp⟩

theorem chainGo_spec (styles : List (Nat × Nat)) (fuel cur : Nat) (acc : List Nat)
    (hnd : acc.Nodup) (hsub : acc ⊆ styles.map Prod.fst)
    (hf : styles.length + 2 ≤ fuel + acc.length) :
    ∃ ch, chainGo styles fuel cur acc = some ch ∧ ch.Nodup ∧ ch.length ≤ styles.length + 1 := by
  have hlen : acc.length ≤ styles.length := by
    have := List.Nodup.length_le_of_subset hnd hsub
    simpa using this
  induction fuel generalizing cur acc with
  | zero => omega
  | succ fuel ih =>
    unfold chainGo
    split
    · exact ⟨acc, rfl, hnd, by omega⟩
    · rename_i hc
      simp only [not_or, List.contains_eq_mem, decide_eq_true_eq] at hc
      split
      · rename_i parent hl
        have hk := lookupS_mem styles cur parent hl
        have hnd' : (cur :: acc).Nodup := List.nodup_cons.mpr ⟨hc.2, hnd⟩
        have hsub' : (cur :: acc) ⊆ styles.map Prod.fst := by
          intro x hx
          rcases List.mem_cons.mp hx with rfl | hx
          · exact hk
          · exact hsub hx
        have hlen' : (cur :: acc).length ≤ styles.length := by
          have := List.Nodup.length_le_of_subset hnd' hsub'
          simpa using this
        exact ih parent (cur :: acc) hnd' hsub' (by simp; omega) hlen'
      · exact ⟨cur :: acc, rfl, List.nodup_cons.mpr ⟨hc.2, hnd⟩, by simp; omega⟩

/-- **style_chain_bounded**: for EVERY style table — a style based on itself, cycles, a tail into
a cycle, a chain of 3000 — `buildInheritanceChain` ends, every style occurs in the chain at
most once, and the chain has at most (number of styles + 1) entries: each of them is appended
once and the reversal is one pass, so the work is linear in the table. -/
theorem style_chain_bounded (styles : List (Nat × Nat)) (id : Nat) :
    ∃ ch, styleChain styles id = some ch ∧ ch.Nodup ∧ ch.length ≤ styles.length + 1 := by
  unfold styleChain
  exact chainGo_spec styles _ id [] List.nodup_nil (by intro x hx; cases hx) (by simp)

example : styleChain [(1, 1)] 1 = some [1] := by decide
example : styleChain [(1, 2), (2, 3), (3, 1)] 1 = some [3, 2, 1] := by decide
example : styleChain [(1, 2), (2, 3), (3, 2)] 1 = some [3, 2, 1] := by decide
example : styleChain [(1, 2), (2, 0)] 1 = some [2, 1] := by decide
example : styleChain [(1, 2)] 1 = some [2, 1] := by decide
example : styleChain [(1, 2)] 0 = some [] := by decide

/-! ### 4. xlsx -/

theorem columnGo_le (s : List Nat) (r r' : Nat) (hr : r ≤ maxColumnNumber)
    (h : columnGo s r = some r') : r' ≤ maxColumnNumber := by
  induction s generalizing r with
  | nil => simp [columnGo] at h; omega
  | cons c rest ih =>
    unfold columnGo at h
    simp only at h
    split at h
    · cases h
    · split at h
      · cases h
      · exact ih _ (by omega) h

/-- **column_index_bounded**: column letters of ANY length (70 letters, 10^6 letters) give an index
in -1 .. 2^40 - 1; the running value is checked after every letter, so it never exceeds
26 * 2^40 + 26 and cannot wrap around 64 bits. -/
theorem column_index_bounded (s : List Nat) :
    -1 ≤ columnToIndex s ∧ columnToIndex s < (maxColumnNumber : Int) := by
  unfold columnToIndex
  cases h : columnGo s 0 with
  | none => simp only [maxColumnNumber]; omega
  | some r =>
    have := columnGo_le s 0 r (by simp [maxColumnNumber]) h
    simp only
    omega

example : columnToIndex ("XFD".toList.map Char.toNat) = 16383 := by decide
example : columnToIndex ("xfd".toList.map Char.toNat) = 16383 := by decide
example : columnToIndex (List.replicate 70 90) = -1 := by decide
example : columnToIndex ("A1".toList.map Char.toNat) = -1 := by decide
example : columnToIndex [] = -1 := by decide

/-- **merge_work_bounded**: for EVERY list of merged regions — 20000 copies of A1:XFD1048576,
regions outside the grid, reversed ranges — the cells walked add up to at most one grid. -/
theorem merge_work_bounded (maxRow maxCol : Nat) (regions : List Region) (budget : Nat) :
    (applyMerges maxRow maxCol regions budget).2 ≤ budget ∧
    (applyMerges maxRow maxCol regions budget).1.length = regions.length := by
  induction regions generalizing budget with
  | nil => simp [applyMerges]
  | cons mr rest ih =>
    unfold applyMerges
    simp only
    generalize clipCells maxRow maxCol mr = rc
    split
    · have := ih budget
      exact ⟨this.1, by simp [this.2]⟩
    · split
      · simp
      · rename_i hb
        have := ih (budget - (rc.1 * rc.2).toNat)
        exact ⟨by omega, by simp [this.2]⟩

theorem merge_all_bounded (maxRow maxCol : Nat) (regions : List Region) :
    (mergeAll maxRow maxCol regions).2 ≤ maxRow * (maxCol + 1) :=
  (merge_work_bounded maxRow maxCol regions _).1

example : mergeAll 3 2 [⟨0, 0, 1048575, 16383⟩, ⟨0, 0, 1048575, 16383⟩, ⟨1, 1, 1, 1⟩] =
    ([true, false, false], 9) := by decide
example : mergeAll 3 2 [⟨0, 0, 0, 1⟩, ⟨5, 0, 9, 0⟩, ⟨1, 1, 0, 0⟩, ⟨1, 0, 2, 2⟩] =
    ([true, false, false, true], 8) := by decide

/-- the workbook's budget never goes over its limit -/
theorem loadSheet_inv (wb : WB) (s : SheetReq) (h : wb.gridCells ≤ maxGridCells) :
    (loadSheet wb s).2.gridCells ≤ maxGridCells := by
  unfold loadSheet
  generalize allowanceFor wb s = A
  split
  · exact h
  · rename_i hc
    simp only [not_and, Nat.not_lt] at hc
    simp only
    by_cases hr : s.maxRow > 0
    · have h1 := hc hr
      have h2 : s.maxRow * (s.maxCol + 1) ≤ maxGridCells - wb.gridCells + A :=
        Nat.le_trans (Nat.mul_le_mul_left _ h1) (Nat.mul_div_le _ _)
      omega
    · have : s.maxRow = 0 := by omega
      simp [this]; exact h

theorem allocated_le (wb : WB) (reqs : List SheetReq) (h : wb.gridCells ≤ maxGridCells) :
    wb.gridCells + allocated wb reqs ≤ maxGridCells + allowanceOf wb.parts reqs := by
  induction reqs generalizing wb with
  | nil => simpa [allocated, allowanceOf] using h
  | cons s rest ih =>
    have hinv := loadSheet_inv wb s h
    have hparts : (loadSheet wb s).2.parts = s.member :: wb.parts := by
      unfold loadSheet; split <;> rfl
    have := ih (loadSheet wb s).2 hinv
    rw [hparts] at this
    simp only [allocated, allowanceOf]
    -- one step of accounting
    have hstep : wb.gridCells + (if (loadSheet wb s).1 = true then s.maxRow * (s.maxCol + 1) else 0) ≤
        (loadSheet wb s).2.gridCells + allowanceFor wb s := by
      unfold loadSheet
      generalize allowanceFor wb s = A
      split
      · simp
      · simp only [if_true]; omega
    have hfresh : (if wb.parts.contains s.member = true then 0 else gridCellsPerElement * s.elems) =
        allowanceFor wb s := rfl
    rw [hfresh]
    omega

/-- **workbook_grid_bounded** (over the HISTORY of sheet entries of one `Open`): whatever the
workbook lists — twenty entries naming one part, cells at XFD1048576 — the grid cells allocated
for all accepted entries together are at most 8 Mi plus 16 for every `<c>` element of every
distinct part named: memory stays in proportion to the file. -/
theorem workbook_grid_bounded (reqs : List SheetReq) :
    allocated ⟨0, []⟩ reqs ≤ maxGridCells + allowanceOf [] reqs := by
  have := allocated_le ⟨0, []⟩ reqs (Nat.zero_le _)
  simpa using this

example : loadSheets ⟨0, []⟩ [⟨1, 1, 512, 16383⟩, ⟨1, 1, 512, 16383⟩, ⟨2, 1, 1, 15⟩, ⟨2, 1, 1, 16⟩] =
    [true, false, true, false] := by decide
example : loadSheets ⟨0, []⟩ [⟨1, 1, 1048576, 16383⟩, ⟨2, 3, 2, 2⟩] = [false, true] := by decide

/-! ### 5. DOCX/ODT table grids -/

theorem gridCols_ones (rows : TRows) :
    hasSpans (rows.map (fun r => r.map (fun _ => ((1 : Nat), (1 : Nat))))) = false := by
  simp [hasSpans]

/-- **table_grid_bounded**: after `limitTableGrid`, EVERY table either has a grid (rows x columns in
spanned columns) of at most 2^20 cells, or no cell of it spans anything — then the grid is the
cells the file really contains. Spans 1024 x 1024 x rows cannot multiply. -/
theorem table_grid_bounded (rows : TRows) :
    hasSpans (limitTableGrid rows) = false ∨
    (limitTableGrid rows).length * gridCols (limitTableGrid rows) ≤ maxTableGridCells := by
  unfold limitTableGrid
  simp only
  split
  · rename_i h
    simp only [Bool.or_eq_true, Bool.not_eq_true', beq_iff_eq, decide_eq_true_eq] at h
    rcases h with (h | h) | h
    · exact Or.inl h
    · exact Or.inr (by simp [h])
    · right
      by_cases hc : gridCols rows = 0
      · simp [hc]
      · calc rows.length * gridCols rows ≤ (maxTableGridCells / gridCols rows) * gridCols rows :=
            Nat.mul_le_mul_right _ h
          _ ≤ maxTableGridCells := Nat.div_mul_le_self _ _
  · exact Or.inl (gridCols_ones rows)

theorem limitTableGrid_shape (rows : TRows) :
    (limitTableGrid rows).map List.length = rows.map List.length := by
  unfold limitTableGrid
  simp only
  split
  · rfl
  · simp [List.map_map, Function.comp_def]

example : limitTableGrid [[(1024, 1024), (1024, 1)], [(1, 1)]] = [[(1024, 1024), (1024, 1)], [(1, 1)]] := by
  decide
example : limitTableGrid ([(1024, 1024), (1, 1)] :: List.replicate 1024 []) =
    ([(1, 1), (1, 1)] :: List.replicate 1024 []) := by decide +kernel

/-! ### 6. treeDeeperThan -/

def pathSize : List (List HT) → Nat
  | [] => 0
  | l :: rest => HT.sizeList l + pathSize rest

theorem climb_size (path : List (List HT)) (z : Zip) (h : climb path = some z) :
    z.cur.size + pathSize z.path = pathSize path := by
  induction path with
  | nil => simp [climb] at h
  | cons l rest ih =>
    cases l with
    | nil => simp only [climb] at h; simp [pathSize, HT.sizeList, ih h]
    | cons s ss =>
      simp only [climb, Option.some.injEq] at h
      subst h
      simp [pathSize, HT.sizeList]; omega

theorem size_pos (t : HT) : 1 ≤ t.size := by cases t; simp [HT.size]

theorem zstep_next_size (limit : Nat) (z z' : Zip) (h : zstep limit z = .next z') :
    z'.cur.size + pathSize z'.path + 1 ≤ z.cur.size + pathSize z.path := by
  unfold zstep at h
  cases hk : z.cur.kids with
  | nil =>
    simp only [hk] at h
    cases hc : climb z.path with
    | none => simp [hc] at h
    | some z'' =>
      simp only [hc, ZOut.next.injEq] at h
      subst h
      have hs := climb_size z.path z'' hc
      have := size_pos z.cur
      omega
  | cons k ks =>
    simp only [hk] at h
    split at h
    · cases h
    · simp only [ZOut.next.injEq] at h
      subst h
      have : z.cur.size = 1 + (k.size + HT.sizeList ks) := by
        cases hz : z.cur with
        | node kids =>
          simp only [hz, HT.kids] at hk
          subst hk
          simp [HT.size, HT.sizeList]
      simp only [pathSize]
      omega

theorem zrun_terminates (limit fuel : Nat) (z : Zip) (h : z.cur.size + pathSize z.path ≤ fuel) :
    zrun limit (fuel + 1) z ≠ none := by
  induction fuel generalizing z with
  | zero =>
    have := size_pos z.cur
    omega
  | succ fuel ih =>
    rw [zrun]
    cases hs : zstep limit z with
    | deeper => simp
    | notDeeper => simp
    | next z' =>
      simp only
      have := zstep_next_size limit z z' hs
      exact ih z' (by omega)

/-- **tree_walk_bounded**: the iterative depth measurement of an HTML / nav tree ends after at most
(number of nodes + 1) moves on EVERY tree, without recursion: twelve million nested `<i>` cost
twelve million steps and no stack. -/
theorem tree_walk_bounded (root : HT) (limit : Nat) : treeDeeperThan root limit ≠ none := by
  unfold treeDeeperThan
  exact zrun_terminates limit root.size ⟨root, []⟩ (by simp [pathSize])

/-- some tree of the list, standing at depth `n`, reaches below `limit` -/
def DeepL (limit n : Nat) : List HT → Prop
  | [] => False
  | t :: ts => n + t.height > limit ∨ DeepL limit n ts

/-- some pending sibling on the path reaches below `limit` (the head level is at depth = length) -/
def DeepP (limit : Nat) : List (List HT) → Prop
  | [] => False
  | l :: rest => DeepL limit (rest.length + 1) l ∨ DeepP limit rest

def DeepZ (limit : Nat) (z : Zip) : Prop :=
  z.path.length + z.cur.height > limit ∨ DeepP limit z.path

theorem heightList_deep (limit n : Nat) (hn : n ≤ limit) (l : List HT) :
    n + HT.heightList l > limit ↔ DeepL limit (n + 1) l := by
  induction l with
  | nil => simp [HT.heightList, DeepL]; omega
  | cons t ts ih =>
    simp only [HT.heightList, DeepL]
    rw [← ih]
    omega

theorem climb_deep (limit : Nat) (path : List (List HT)) :
    (climb path = none → ¬ DeepP limit path) ∧
    (∀ z', climb path = some z' → (DeepP limit path ↔ DeepZ limit z') ∧ z'.path.length ≤ path.length) := by
  induction path with
  | nil => simp [climb, DeepP]
  | cons l rest ih =>
    cases l with
    | nil =>
      simp only [climb, DeepP, DeepL, false_or]
      refine ⟨ih.1, ?_⟩
      intro z' hz
      have := ih.2 z' hz
      exact ⟨this.1, by simp; omega⟩
    | cons s ss =>
      simp only [climb]
      refine ⟨by simp, ?_⟩
      intro z' hz
      simp only [Option.some.injEq] at hz
      subst hz
      simp only [DeepP, DeepL, DeepZ, List.length_cons]
      refine ⟨?_, by omega⟩
      constructor
      · rintro ((h | h) | h)
        · exact Or.inl h
        · exact Or.inr (Or.inl h)
        · exact Or.inr (Or.inr h)
      · rintro (h | h | h)
        · exact Or.inl (Or.inl h)
        · exact Or.inl (Or.inr h)
        · exact Or.inr h

theorem zrun_deep (limit fuel : Nat) (z : Zip) (hd : z.path.length ≤ limit)
    (h : z.cur.size + pathSize z.path ≤ fuel) :
    zrun limit (fuel + 1) z = some true ↔ DeepZ limit z := by
  induction fuel generalizing z with
  | zero =>
    have := size_pos z.cur
    omega
  | succ fuel ih =>
    rw [zrun]
    cases hs : zstep limit z with
    | deeper =>
      simp only [true_iff]
      unfold zstep at hs
      cases hk : z.cur.kids with
      | nil =>
        simp only [hk] at hs
        cases hc : climb z.path <;> simp [hc] at hs
      | cons k ks =>
        simp only [hk] at hs
        split at hs
        · rename_i hlim
          left
          have : z.cur.height = HT.heightList (k :: ks) := by
            cases hz : z.cur with
            | node kids => simp only [hz, HT.kids] at hk; subst hk; simp [HT.height]
          rw [this]
          simp only [HT.heightList]
          omega
        · cases hs
    | notDeeper =>
      have hft : (some false = some true) = False := by simp
      simp only [hft, false_iff]
      unfold zstep at hs
      cases hk : z.cur.kids with
      | nil =>
        simp only [hk] at hs
        cases hc : climb z.path with
        | none =>
          have hnd := (climb_deep limit z.path).1 hc
          have hh : z.cur.height = 0 := by
            cases hz : z.cur with
            | node kids => simp only [hz, HT.kids] at hk; subst hk; simp [HT.height, HT.heightList]
          intro hdz
          rcases hdz with h1 | h2
          · omega
          · exact hnd h2
        | some z' => simp [hc] at hs
      | cons k ks =>
        simp only [hk] at hs
        split at hs <;> cases hs
    | next z' =>
      simp only
      have hsz := zstep_next_size limit z z' hs
      unfold zstep at hs
      cases hk : z.cur.kids with
      | nil =>
        simp only [hk] at hs
        cases hc : climb z.path with
        | none => simp [hc] at hs
        | some z'' =>
          simp only [hc, ZOut.next.injEq] at hs
          subst hs
          have ⟨hiff, hlen⟩ := (climb_deep limit z.path).2 z'' hc
          have hh : z.cur.height = 0 := by
            cases hz : z.cur with
            | node kids => simp only [hz, HT.kids] at hk; subst hk; simp [HT.height, HT.heightList]
          rw [ih z'' (by omega) (by omega)]
          unfold DeepZ at *
          rw [hh]
          constructor
          · intro h; exact Or.inr (hiff.mpr h)
          · rintro (h | h)
            · omega
            · exact hiff.mp h
      | cons k ks =>
        simp only [hk] at hs
        split at hs
        · cases hs
        · rename_i hlim
          simp only [ZOut.next.injEq] at hs
          subst hs
          have hh : z.cur.height = HT.heightList (k :: ks) := by
            cases hz : z.cur with
            | node kids => simp only [hz, HT.kids] at hk; subst hk; simp [HT.height]
          rw [ih ⟨k, ks :: z.path⟩ (by simp; omega) (by omega)]
          unfold DeepZ
          simp only [List.length_cons, DeepP]
          rw [hh]
          have hl := heightList_deep limit z.path.length hd (k :: ks)
          rw [hl]
          simp only [DeepL]
          constructor
          · rintro (h | h | h)
            · exact Or.inl (Or.inl (by omega))
            · exact Or.inl (Or.inr h)
            · exact Or.inr h
          · rintro ((h | h) | h)
            · exact Or.inl (by omega)
            · exact Or.inr (Or.inl h)
            · exact Or.inr (Or.inr h)

/-- **tree_depth_decided**: the iterative walk answers exactly whether the tree is taller than the
limit; so a document that is not refused has height ≤ 10000 and every recursive walk over it
(extractHead, extractBody, findNav, extractText, …) is at most 10000 activations deep. -/
theorem tree_depth_decided (root : HT) (limit : Nat) :
    treeDeeperThan root limit = some (decide (root.height > limit)) := by
  have h := zrun_deep limit root.size ⟨root, []⟩ (Nat.zero_le _) (by simp [pathSize])
  have hne := tree_walk_bounded root limit
  unfold treeDeeperThan at *
  simp only [DeepZ, DeepP, List.length_nil, Nat.zero_add, or_false] at h
  cases hr : zrun limit (root.size + 1) ⟨root, []⟩ with
  | none => exact absurd hr hne
  | some b =>
    rw [hr] at h
    cases b
    · have : ¬ root.height > limit := fun hgt => by simpa using h.mpr hgt
      simp [this]
    · have : root.height > limit := h.mp rfl
      simp [this]

/-- a document that `OpenReader` / `parseNavXHTML` does not refuse is at most 10000 levels tall -/
theorem tree_accepted_shallow (root : HT) (h : treeRefused root = some false) : root.height ≤ maxTreeDepth := by
  unfold treeRefused at h
  rw [tree_depth_decided] at h
  simp only [Option.some.injEq, decide_eq_false_iff_not, Nat.not_lt] at h
  exact h

theorem tree_refusal_decided (root : HT) : treeRefused root ≠ none := tree_walk_bounded root _

def nestHT : Nat → HT
  | 0 => .node []
  | n + 1 => .node [nestHT n]

theorem nestHT_height (n : Nat) : (nestHT n).height = n := by
  induction n with
  | zero => rfl
  | succ n ih => simp [nestHT, HT.height, HT.heightList, ih]

/-- at the edge, with the real constant: 10000 levels are accepted, 10001 refused -/
example : treeRefused (nestHT 10000) = some false := by
  unfold treeRefused; rw [tree_depth_decided, nestHT_height]; rfl
example : treeRefused (nestHT 10001) = some true := by
  unfold treeRefused; rw [tree_depth_decided, nestHT_height]; rfl
example : treeDeeperThan (nestHT 3) 3 = some false := by decide
example : treeDeeperThan (nestHT 4) 3 = some true := by decide
example : treeDeeperThan (.node [.node [], .node [.node [.node []], .node []], .node []]) 2 = some true := by
  decide
example : treeDeeperThan (.node [.node [], .node [.node [.node []], .node []], .node []]) 3 = some false := by
  decide

/-! ### 7. cmap format 4 -/

theorem cmap4Walk_writes (segs : List (Nat × Nat)) (next bound : Nat) (hn : next ≤ bound)
    (hb : ∀ s ∈ segs, s.2 < bound) : (cmap4Walk segs next).2 + next ≤ bound := by
  induction segs generalizing next with
  | nil => simpa [cmap4Walk] using hn
  | cons s rest ih =>
    obtain ⟨lo, hi⟩ := s
    have hhi : hi < bound := hb (lo, hi) List.mem_cons_self
    have hrest : ∀ s ∈ rest, s.2 < bound := fun s hs => hb s (List.mem_cons_of_mem _ hs)
    simp only [cmap4Walk]
    have := ih (if hi + 1 > next then hi + 1 else next) (by split <;> omega) hrest
    split <;> split at * <;> split at * <;> simp only at * <;> omega

theorem sortSegs_mem (segs : List (Nat × Nat)) : ∀ s, s ∈ sortSegs segs → s ∈ segs := by
  have hins : ∀ (x : Nat × Nat) (l : List (Nat × Nat)) (s : Nat × Nat), s ∈ insertSeg x l → s = x ∨ s ∈ l := by
    intro x l
    induction l with
    | nil => intro s hs; simp only [insertSeg, List.mem_singleton] at hs; first | exact Or.inl hs | done
    | cons y rest ih =>
      intro s hs
      unfold insertSeg at hs
      split at hs
      · rcases List.mem_cons.mp hs with h | h
        · exact Or.inl h
        · exact Or.inr h
      · rcases List.mem_cons.mp hs with h | h
        · exact Or.inr (by simp [h])
        · rcases ih s h with h | h
          · exact Or.inl h
          · exact Or.inr (List.mem_cons_of_mem _ h)
  induction segs with
  | nil => intro s hs; simp [sortSegs] at hs
  | cons x rest ih =>
    intro s hs
    simp only [sortSegs] at hs
    rcases hins x _ s hs with h | h
    · simp [h]
    · exact List.mem_cons_of_mem _ (ih s h)

theorem cmap4Segs_mem (st en : List Nat) : ∀ s, s ∈ cmap4Segs st en → s.2 ∈ en := by
  induction st generalizing en with
  | nil => intro s hs; cases en <;> simp [cmap4Segs] at hs
  | cons a as ih =>
    cases en with
    | nil => intro s hs; simp [cmap4Segs] at hs
    | cons e es =>
      intro s hs
      simp only [cmap4Segs] at hs
      split at hs
      · rcases List.mem_cons.mp hs with h | h
        · simp [h]
        · exact List.mem_cons_of_mem _ (ih es s h)
      · exact List.mem_cons_of_mem _ (ih es s hs)

/-- **cmap4_writes_bounded**: for EVERY segment table of an embedded TrueType font — 32767 segments
all covering 0x0000..0xFFFF — the character map is written at most 65536 times: every code is
entered once, however many segments cover it. -/
theorem cmap4_writes_bounded (startCode endCode : List Nat) (h : ∀ e ∈ endCode, e < 65536) :
    (cmap4 startCode endCode).2 ≤ 65536 := by
  unfold cmap4
  have := cmap4Walk_writes (sortSegs (cmap4Segs startCode endCode)) 0 65536 (by omega) (by
    intro s hs
    exact h _ (cmap4Segs_mem _ _ s (sortSegs_mem _ s hs)))
  omega

example : cmap4 [0, 0, 0] [65535, 65535, 65535] = ([(0, 65535)], 65536) := by decide +kernel
example : cmap4 [10, 0, 3, 30] [20, 5, 12, 25] = ([(0, 5), (6, 12), (13, 20)], 21) := by decide

/-! ### 8. bfrange arrays -/

/-- **bfrange_array_bounded**: a `beginbfrange` entry with an array of destinations writes at most
one mapping per array element, also when the source codes start at 0xFFFFFFFF and wrap. -/
theorem bfrange_array_bounded (start endc n cur : Nat) : (bfRangeArray start endc n cur).length ≤ n := by
  induction n generalizing cur with
  | zero => simp [bfRangeArray]
  | succ n ih =>
    simp only [bfRangeArray, List.length_append]
    have := ih ((cur + 1) % 4294967296)
    split <;> simp <;> omega

example : bfRangeArray 4294967295 4294967295 3 4294967295 = [4294967295, 0, 1] := by decide
example : bfRangeArray 4294967294 4294967294 3 4294967294 = [4294967294, 0] := by decide
example : bfRangeArray 5 6 4 5 = [5, 6] := by decide

end Tabula.C02Office
