import TabulaModel.Model.Extraction
import TabulaModel.Props.C03
import TabulaModel.Props.C03Order
import TabulaModel.Props.C03Process
/-!
# C03 — the statement of the property, over the model of the public API

"The result of an extraction depends only on the document bytes and the options: repeating any
operation gives byte-identical text, markdown, chunks and exports, and an extraction gives the
same result whether it runs alone, after any other extractions, or concurrently with
extractions of other documents."

`Model/Extraction.lean` writes what a call returns as a function of the document, the chain of
configuration calls behind the receiver, the SCHEDULE (all the other calls of the process,
interleaved in any way) and the RUNTIME (the order of every range over a map, the algorithm of
every sort).  The theorems below chain the per-mechanism theorems of `Props/C03.lean`
(parser, font registration), `Props/C03Order.lean` (map order, sorts) and
`Props/C03Process.lean` (families, schedules, warnings) into: schedule and runtime do not show.
Goroutine-level interleaving is not in the model (see `props/C03.json`).
-/
namespace Tabula.C03Statement
open Tabula.Session Tabula.MapOrder Tabula.Process Tabula.Builder Tabula.Extraction
open Tabula.Csv (Str)

/-- the reference runtime and the backwards one are runtimes -/
theorem ref_ok : Runtime.ref.Ok :=
  ⟨fun _ => List.Perm.refl _, fun _ => List.Perm.refl _, fun _ => List.Perm.refl _, fun _ => List.Perm.refl _,
   isSort_sortInts, isSort_sortInts, isSort_sortStrings⟩

theorem rev_ok : Runtime.rev.Ok :=
  ⟨List.reverse_perm, List.reverse_perm, List.reverse_perm, List.reverse_perm,
   isSort_sortInts, isSort_sortInts, isSort_sortStrings⟩

/-- **page_facts_runtime_free**: everything the mechanisms of C03 compute for a page — the parsed
operations, the font table, the line tolerance, left margin, dominant alignment, body font size
— is the same under every runtime: every order of every map range, every sorting algorithm -/
theorem page_facts_runtime_free (ρ ρ' : Runtime) (h : ρ.Ok) (h' : ρ'.Ok) (pg : PageInput)
    (hnd : (pg.fontDict.map Prod.fst).Nodup) : pageFacts ρ pg = pageFacts ρ' pg := by
  have hf : registerAll (ρ.fontOrder pg.fontDict) = registerAll (ρ'.fontOrder pg.fontDict) :=
    C03.font_registration_order_free _ _ ((h.font _).trans (h'.font _).symm)
      (((h.font pg.fontDict).map Prod.fst).symm.nodup hnd)
  have ht := (C03Order.tolerance_order_free ρ.sortY ρ.sortG h.sy h.sg pg.frags _ (h.y _)).trans
    (C03Order.tolerance_order_free ρ'.sortY ρ'.sortG h'.sy h'.sg pg.frags _ (h'.y _)).symm
  have hm := (C03Order.left_margin_order_free pg.lineXs _ (h.vote _)).trans
    (C03Order.left_margin_order_free pg.lineXs _ (h'.vote _)).symm
  have ha := (C03Order.dominant_alignment_order_free pg.aligns _ (h.vote _)).trans
    (C03Order.dominant_alignment_order_free pg.aligns _ (h'.vote _)).symm
  have hb := (C03Order.body_font_size_order_free pg.paras _ (h.vote _)).trans
    (C03Order.body_font_size_order_free pg.paras _ (h'.vote _)).symm
  simp only [pageFacts, hf, ht, hm, ha, hb]

/-- **export_columns_runtime_free**: the header of a CSV/TSV export is the same under every runtime -/
theorem export_columns_runtime_free (ρ ρ' : Runtime) (h : ρ.Ok) (h' : ρ'.Ok) (cfg : Export.Config)
    (chunks : List Export.Chunk) : exportColumns ρ cfg chunks = exportColumns ρ' cfg chunks := by
  unfold exportColumns
  rw [C03Order.csv_columns_order_free ρ.sortS h.ss cfg chunks _ _ (fun c _ => h.key _) (h.key _),
    C03Order.csv_columns_order_free ρ'.sortS h'.ss cfg chunks _ _ (fun c _ => h'.key _) (h'.key _)]

/-- every page of the document has a /Font dictionary (names distinct) -/
def ContentOk (content : List PageInput) : Prop := ∀ pg ∈ content, (pg.fontDict.map Prod.fst).Nodup

theorem outOf_runtime_free (render : PageFacts → Str) (ρ ρ' : Runtime) (h : ρ.Ok) (h' : ρ'.Ok)
    (content : List PageInput) (hc : ContentOk content) (a : Ans) :
    outOf render ρ content a = outOf render ρ' content a := by
  obtain ⟨r, w⟩ := a
  cases r <;> simp only [outOf]
  rename_i idx
  congr 1
  apply List.map_congr_left
  intro p _
  cases hp : content[p]? with
  | none => rfl
  | some pg =>
    simp only [Option.map_some]
    rw [page_facts_runtime_free ρ ρ' h h' pg (hc pg (List.mem_of_getElem? hp))]

theorem outsFrom_ref (render : PageFacts → Str) (ρ : Nat → Runtime) (hρ : ∀ i, (ρ i).Ok)
    (content : List PageInput) (hc : ContentOk content) (as : List Ans) :
    ∀ i, outsFrom render ρ content i as = as.map (outOf render Runtime.ref content) := by
  induction as with
  | nil => intro i; rfl
  | cons a as ih =>
    intro i
    simp only [outsFrom, List.map_cons]
    rw [outOf_runtime_free render (ρ i) Runtime.ref (hρ i) ref_ok content hc a, ih]

/-- **extraction_is_a_function_of_document_and_options** (the statement of C03 over the model):
take any process — any number of documents, any schedule interleaving calls on all of their
Extractor families, failing calls included — and any runtime for every call.  What family `d`
is returned, call by call, is what its own calls return on a process that holds nothing but
document `d`, in the reference runtime: `aloneOutputs`, a function of the document (its facts
`doc`, its pages `content`) and of the calls of `d` — each answered from the chain of
configuration calls that built its receiver. -/
theorem extraction_is_a_function_of_document_and_options (render : PageFacts → Str)
    (runtimes : Nat → Runtime) (hρ : ∀ i, (runtimes i).Ok)
    (docs : List Doc) (sched : List Call) (d : Nat) (doc : Doc) (hd : docs[d]? = some doc)
    (content : List PageInput) (hc : ContentOk content) :
    familyOutputs render runtimes docs content sched d = aloneOutputs render doc content (project d sched) := by
  unfold familyOutputs aloneOutputs
  rw [outsFrom_ref render runtimes hρ content hc,
    C03Process.extraction_depends_on_document_and_options docs sched d doc hd]

/-- **repeatable_and_history_free**: two runs — different schedules, different other documents,
different runtimes — that make the same calls on the same document return the same results -/
theorem repeatable_and_history_free (render : PageFacts → Str)
    (ρ₁ ρ₂ : Nat → Runtime) (h₁ : ∀ i, (ρ₁ i).Ok) (h₂ : ∀ i, (ρ₂ i).Ok)
    (docs₁ docs₂ : List Doc) (s₁ s₂ : List Call) (d₁ d₂ : Nat) (doc : Doc)
    (hd₁ : docs₁[d₁]? = some doc) (hd₂ : docs₂[d₂]? = some doc)
    (content : List PageInput) (hc : ContentOk content) (hp : project d₁ s₁ = project d₂ s₂) :
    familyOutputs render ρ₁ docs₁ content s₁ d₁ = familyOutputs render ρ₂ docs₂ content s₂ d₂ := by
  rw [extraction_is_a_function_of_document_and_options render ρ₁ h₁ docs₁ s₁ d₁ doc hd₁ content hc,
    extraction_is_a_function_of_document_and_options render ρ₂ h₂ docs₂ s₂ d₂ doc hd₂ content hc, hp]

/-- a page with two fonts, one name the other with a leading slash, tied margins, compressed baselines -/
def demoPage : PageInput :=
  { fontDict := [([70], 1), ([47, 70], 2)], tokens := [.num 1, .num 2, .op 113, .op 81],
    frags := C03Order.r4m1Page, lineXs := [72, 90, 72, 91], aligns := [1, 4, 1, 4],
    paras := [(24, 3), (20, 3)] }

example : ContentOk [demoPage] := by
  intro pg hp
  simp only [List.mem_singleton] at hp
  subst hp
  decide

/-- the facts of the demo page under the reference runtime and under the backwards one -/
example : (pageFacts Runtime.ref demoPage).tol = .gap 30 ∧ (pageFacts Runtime.rev demoPage).tol = .gap 30 ∧
    (pageFacts Runtime.rev demoPage).margin = 14 ∧ (pageFacts Runtime.rev demoPage).align = 1 ∧
    (pageFacts Runtime.rev demoPage).bodySize = some 20 ∧
    (pageFacts Runtime.rev demoPage).fonts [47, 70] = some 2 ∧ (pageFacts Runtime.ref demoPage).fonts [47, 70] = some 2 := by
  decide

/-- the demo schedule of `Props/C03Process.lean`, document 0 rendered page by page -/
example : familyOutputs (fun f => [f.margin.toNat]) (fun i => if i % 2 = 0 then Runtime.rev else Runtime.ref)
      C03Process.demoDocs [demoPage, demoPage, demoPage, demoPage] C03Process.demoSchedule 0
    = [.none, .pages [some [14]] 1, .pages [some [14], some [14], some [14], some [14]] 0, .pages [some [14]] 1] := by
  decide

end Tabula.C03Statement
