import TabulaModel.Lemmas.Matrix
import TabulaModel.Lemmas.GState
/-!
# C08 — Fragment positions follow the PDF imaging model

The model (`Model/Matrix.lean`, `Model/GState.lean`) mirrors `graphicsstate/state.go`,
`model/geometry.go` and the operator dispatch of `text/extractor.go` as they are after the
two `fix:` commits of branch agent-C08.  The theorems below are stated *semantically*,
against ISO 32000-1 8.3.4 / 9.4.2 / 9.4.4 and against the short denotational definition
`specStep`/`specRun`, over an arbitrary commutative ring `α` (so for integers, rationals,
reals alike), for programs of any length and any q/Q depth.  The displacement of the text
matrix by a shown string or a `TJ` number is an arbitrary function `adv` in every theorem of
this file (`Props/C08Text.lean` takes the function the code computes).
-/
namespace Tabula.C08
open Tabula Tabula.Matrix Tabula.GState

variable {α : Type} [Lean.Grind.CommRing α] [DecidableEq α] [LT α] [DecidableLT α]

/-- user space → device space in state `s` -/
def device (s : State α) (p : α × α) : α × α := s.cur.ctm.transformPoint p

/-- the text rise (`Ts`) as `GetTextPosition` applies it: added to the y coordinate of the
text-matrix origin before the CTM.  With rise 0 (every state reached without `Ts`) this is
the identity (`riseUp_zero`). -/
def riseUp (s : State α) (p : α × α) : α × α := (p.1, p.2 + s.cur.text.rise)

omit [DecidableEq α] [LT α] [DecidableLT α] in
theorem riseUp_zero (s : State α) (h : s.cur.text.rise = 0) (p : α × α) : riseUp s p = p := by
  obtain ⟨x, y⟩ := p
  simp only [riseUp, h, Prod.mk.injEq, true_and]
  grind

/-! ## single operators -/

/-- **cm pre-multiplies**: after `M cm`, a user-space point `p` lands where `p·M` landed
before (`CTM' = M × CTM`); nothing else changes and no error is raised. -/
theorem cm_premultiplies (adv : Adv α) (M : Matrix α) (s : State α) :
    let r := step adv (.cm M) s
    (∀ p, device r.1 p = device s (M.transformPoint p)) ∧
      r.1.cur.ctm = M.mul s.cur.ctm ∧ r.1.cur.text = s.cur.text ∧ r.1.stack = s.stack ∧
      r.2.1 = [] ∧ r.2.2 = false := by
  refine ⟨fun p => ?_, rfl, rfl, rfl, rfl, rfl⟩
  show (M.mul s.cur.ctm).transformPoint p = _
  rw [transformPoint_mul]; rfl

/-- two `cm` in a row: the *second* acts first on user coordinates (the quoted witness:
translate(100,100) then scale 2 maps (10,10) to (120,120), not (220,220)) -/
theorem cm_cm (adv : Adv α) (M N : Matrix α) (s : State α) (p : α × α) :
    device (step adv (.cm N) (step adv (.cm M) s).1).1 p
      = device s (M.transformPoint (N.transformPoint p)) := by
  rw [(cm_premultiplies adv N _).1, (cm_premultiplies adv M _).1]

example : device (step (fun _ _ => 0) (.cm ⟨2, 0, 0, 2, 0, 0⟩)
    (step (fun _ _ => 0) (.cm ⟨1, 0, 0, 1, 100, 100⟩) (init : State Int)).1).1 (10, 10) = (120, 120) := by
  decide

/-- **Td pre-multiplies**: after `tx ty Td`, `Tlm' = T(tx,ty) × Tlm` and `Tm' = Tlm'`:
every text-space point `p` maps to where `p + (tx,ty)` mapped under the old line matrix;
the next show is reported at the device image of the old line origin displaced by `(tx,ty)`
*in text-line space*. -/
theorem td_premultiplies (adv : Adv α) (tx ty : α) (s : State α) :
    let r := step adv (.Td tx ty) s
    (∀ p, r.1.cur.text.tlm.transformPoint p = s.cur.text.tlm.transformPoint (p.1 + tx, p.2 + ty)) ∧
      r.1.cur.text.tlm = (translate tx ty).mul s.cur.text.tlm ∧
      r.1.cur.text.tm = r.1.cur.text.tlm ∧ r.1.cur.text.dirty = false ∧
      r.1.getTextPosition = device s (riseUp s (s.cur.text.tlm.transformPoint (tx, ty))) ∧
      r.1.cur.ctm = s.cur.ctm ∧ r.1.cur.text.leading = s.cur.text.leading ∧
      r.1.stack = s.stack ∧ r.2.1 = [] ∧ r.2.2 = false := by
  refine ⟨fun p => ?_, rfl, rfl, rfl, ?_, rfl, rfl, rfl, rfl, rfl⟩
  · show ((translate tx ty).mul s.cur.text.tlm).transformPoint p = _
    rw [transformPoint_mul, transformPoint_translate]
  · have h := translate_mul_e tx ty s.cur.text.tlm
    rw [transformPoint_zero] at h
    show s.cur.ctm.transformPoint (((translate tx ty).mul s.cur.text.tlm).e,
        ((translate tx ty).mul s.cur.text.tlm).f + s.cur.text.rise) = _
    simp only [device, riseUp, ← h]

/-- the quoted witness: `0 -6/5 Td` under a 12× text matrix moves 72/5 = 14.4 units -/
example : (step (fun _ _ => 0) (.Td 0 (-6/5))
    (step (fun _ _ => 0) (.Tm ⟨12, 0, 0, 12, 100, 700⟩) (init : State Rat)).1).1.getTextPosition
      = (100, 700 - 72/5) := by decide +kernel

/-- `TD` = set the leading to `-ty`, then `Td` -/
theorem TD_is_TL_Td (adv : Adv α) (tx ty : α) (s : State α) :
    step adv (.TD tx ty) s = step adv (.Td tx ty) (step adv (.TL (-ty)) s).1 := rfl

/-- `T*` = `0 -TL Td`: the line matrix advances by the leading, relative to itself -/
theorem Tstar_is_Td (adv : Adv α) (s : State α) :
    step adv .Tstar s = step adv (.Td 0 (-s.cur.text.leading)) s := rfl

/-- `'` = `T*` then `Tj` -/
theorem quote_is_Tstar_Tj (adv : Adv α) (sid : Nat) (s : State α) :
    step adv (.quote sid) s = step adv (.Tj sid) (step adv .Tstar s).1 := rfl

/-- `"` = `aw Tw`, `ac Tc`, then `'` (first operand is the word spacing) -/
theorem dquote_is_Tw_Tc_quote (adv : Adv α) (aw ac : α) (sid : Nat) (s : State α) :
    step adv (.dquote aw ac sid) s =
      step adv (.quote sid) (step adv (.Tc ac) (step adv (.Tw aw) s).1).1 := rfl

/-- **BT resets** both text matrices to the identity (and nothing else): the next show is
reported at the device image of the user-space origin -/
theorem bt_resets (adv : Adv α) (s : State α) :
    let r := step adv .BT s
    r.1.cur.text.tm = identity ∧ r.1.cur.text.tlm = identity ∧ r.1.cur.text.dirty = false ∧
      r.1.getTextPosition = device s (riseUp s (0, 0)) ∧
      r.1.cur.ctm = s.cur.ctm ∧ r.1.cur.text.leading = s.cur.text.leading ∧
      r.1.cur.text.fontSize = s.cur.text.fontSize ∧ r.1.stack = s.stack ∧
      r.2.1 = [] ∧ r.2.2 = false :=
  ⟨rfl, rfl, rfl, rfl, rfl, rfl, rfl, rfl, rfl, rfl⟩

/-- **Tm sets both** the text matrix and the line matrix to its operand -/
theorem tm_sets_both (adv : Adv α) (M : Matrix α) (s : State α) :
    let r := step adv (.Tm M) s
    r.1.cur.text.tm = M ∧ r.1.cur.text.tlm = M ∧ r.1.cur.text.dirty = false ∧
      r.1.getTextPosition = device s (riseUp s (M.transformPoint (0, 0))) ∧
      r.1.cur.ctm = s.cur.ctm ∧ r.1.stack = s.stack ∧ r.2.1 = [] ∧ r.2.2 = false := by
  refine ⟨rfl, rfl, rfl, ?_, rfl, rfl, rfl, rfl⟩
  rw [transformPoint_zero]; rfl

/-! ## q/Q -/

/-- **q … Q restores the state exactly**: for every balanced program `ops` (nested q/Q and
forms to any depth, any operators in between, any glyph advances), running
`q ops Q` succeeds and ends in exactly the state it started from — CTM, every text-state
parameter including both text matrices, the stack below, and the form nesting depth. -/
theorem qQ_restores (adv : Adv α) (ops : List (Op α)) (hb : Balanced ops) (s : State α) :
    ∃ out, exec adv (Op.q :: (ops ++ [Op.Q])) s = some (s, out) := by
  have hbal : Balanced (Op.q :: (ops ++ Op.Q :: [])) := Balanced.qQ ops [] hb Balanced.nil
  obtain ⟨s1, o1, h1, _, h3, h4⟩ := balanced_exec adv hb s.save
  have hst : s1.stack = s.cur :: s.stack := by rw [h3]; rfl
  have hres : s1.restore = some s := by
    cases s with | mk c st d =>
    cases s1 with | mk c1 st1 d1 =>
    simp only [State.save] at hst h4
    subst hst h4
    rfl
  have hq : exec adv [Op.Q] s1 = some (s, []) := by
    simp [exec, step, stepBasic, hres]
  refine ⟨o1, ?_⟩
  have hstep : step adv Op.q s = (s.save, [], false) := rfl
  rw [exec, hstep]
  simp only [Bool.false_eq_true, if_false]
  rw [exec_append, h1]; simp only; rw [hq]; simp

/-- the hypothesis is satisfiable by a non-trivial program: nested q/Q, cm, Td, a show and
a form -/
example : Balanced ([.cm ⟨2, 0, 0, 3, 5, 7⟩, .q, .BT, .Td 1 2, .Tj 0, .q, .Tm ⟨0, 1, -1, 0, 3, 4⟩, .Q, .Q,
    .form (some ⟨1, 0, 0, 1, 9, 9⟩) [.q, .cm ⟨2, 0, 0, 2, 0, 0⟩, .Q], .TL 3] : List (Op Int)) := by
  refine .plain _ _ rfl (.qQ [.BT, .Td 1 2, .Tj 0, .q, .Tm ⟨0, 1, -1, 0, 3, 4⟩, .Q] _ ?_ ?_)
  · exact .plain _ _ rfl (.plain _ _ rfl (.plain _ _ rfl (.qQ [.Tm ⟨0, 1, -1, 0, 3, 4⟩] [] (.plain _ _ rfl .nil) .nil)))
  · exact .form _ _ _ (.qQ [.cm ⟨2, 0, 0, 2, 0, 0⟩] [] (.plain _ _ rfl .nil) .nil) (.plain _ _ rfl .nil)

/-- without the balance hypothesis the statement is false: an inner `Q` pops the frame -/
theorem qQ_unbalanced_counterexample :
    (exec (fun _ _ => 0) (Op.q :: ([Op.Q, Op.cm ⟨2, 0, 0, 2, 0, 0⟩, Op.q] ++ [Op.Q]))
        (init : State Int)).map (·.1) ≠ some init := by
  decide

/-! ## Form XObjects -/

/-- **`Do` of a form with `/Matrix N` behaves as `q N cm … Q`** (executed one nesting level
deeper), for every balanced content stream and below the nesting limit: same fragments,
and the state afterwards is the state before. -/
theorem xobject_matrix (adv : Adv α) (N : Matrix α) (body : List (Op α)) (hb : Balanced body)
    (s : State α) (hd : s.xdepth < maxXObjectDepth) :
    ∃ out, exec adv (Op.q :: Op.cm N :: (body ++ [Op.Q])) { s with xdepth := s.xdepth + 1 }
        = some ({ s with xdepth := s.xdepth + 1 }, out) ∧
      step adv (.form (some N) body) s = (s, out, false) := by
  have hcm : Balanced (Op.cm N :: body) := Balanced.plain _ _ rfl hb
  obtain ⟨out, hout⟩ := qQ_restores adv (Op.cm N :: body) hcm { s with xdepth := s.xdepth + 1 }
  refine ⟨out, hout, ?_⟩
  -- unfold the left run down to the body
  have hstepq : step adv Op.q { s with xdepth := s.xdepth + 1 }
      = (formEnter none s, [], false) := rfl
  have hstepcm : step adv (Op.cm N) (formEnter none s) = (formEnter (some N) s, [], false) := rfl
  obtain ⟨s1, o1, h1, h2, h3, h4⟩ := balanced_exec adv hb (formEnter (some N) s)
  have hx := formExit_formEnter (some N) s s1 h3 h4
  rw [List.cons_append, exec, hstepq] at hout
  simp only [Bool.false_eq_true, if_false] at hout
  rw [exec, hstepcm] at hout
  simp only [Bool.false_eq_true, if_false] at hout
  rw [exec_append, h1] at hout
  simp only at hout
  have hnd : ¬ (s.xdepth ≥ maxXObjectDepth) := by omega
  have hs : step adv (.form (some N) body) s = (formExit s1, o1, false) := by
    simp [step, hnd, h2]
  rw [hs, hx]
  cases hq : exec adv [Op.Q] s1 with
  | none => rw [hq] at hout; simp at hout
  | some r2 =>
    rw [hq] at hout
    have hr2 : r2.2 = [] := by
      simp only [exec, step, stepBasic] at hq
      cases hr : s1.restore with
      | none => simp [hr] at hq
      | some s2 => simp [hr] at hq; rw [← hq]
    simp only [List.nil_append, Option.some.injEq, Prod.mk.injEq] at hout
    rw [← hout.2, hr2]; simp

/-- a form without `/Matrix` behaves as `q … Q` -/
theorem xobject_nomatrix (adv : Adv α) (body : List (Op α)) (hb : Balanced body)
    (s : State α) (hd : s.xdepth < maxXObjectDepth) :
    ∃ s1 out, runForm adv body (formEnter none s) = (s1, out) ∧
      step adv (.form none body) s = (s, out, false) := by
  obtain ⟨s1, o1, _, h2, h3, h4⟩ := balanced_exec adv hb (formEnter none s)
  have hx := formExit_formEnter none s s1 h3 h4
  have hnd : ¬ (s.xdepth ≥ maxXObjectDepth) := by omega
  exact ⟨s1, o1, h2, by simp [step, hnd, h2, hx]⟩

/-! ## The denotational definition and `origin_spec` -/

/-- what ISO 32000 makes observable per graphics-state level: the CTM, the text line
matrix, the text matrix — `none` once a string has been shown, because the property does
not speak about glyph advances — its linear part (for the size), leading and font size -/
structure SFrame (α : Type) where
  ctm : Matrix α
  tlm : Matrix α
  tm : Option (Matrix α)
  lin : Matrix α
  tl : α
  fs : α
  /-- the text rise; the property does not speak about text shown with a rise -/
  rise : α

structure SState (α : Type) where
  cur : SFrame α
  stack : List (SFrame α)

/-- what the property says about one shown string: its origin (when determined) and the
three factors of its size -/
structure SShow (α : Type) where
  origin : Option (α × α)
  fs : α
  tmScale2 : α
  ctmScale2 : α
deriving DecidableEq

def SState.td (s : SState α) (tx ty : α) : SState α :=
  let l := (translate tx ty).mul s.cur.tlm
  { s with cur := { s.cur with tlm := l, tm := some l, lin := l.linear } }

/-- a string is shown at `(0,0) × Tm × CTM` (text rise 0); afterwards the text position is
unknown -/
def SState.show (s : SState α) : SState α × List (SShow α) :=
  ({ s with cur := { s.cur with tm := none } },
   [{ origin := if s.cur.rise = 0 then s.cur.tm.map fun m => (m.mul s.cur.ctm).transformPoint (0, 0) else none,
      fs := s.cur.fs, tmScale2 := tmScale2 s.cur.lin, ctmScale2 := ctmScale2 s.cur.ctm }])

/-- `TJ`: every string of the array is shown; after a string or a number the text position
is unknown (Table 109) -/
def SState.showItems : List (TJItem α) → SState α → SState α × List (SShow α)
  | [], s => (s, [])
  | .str _ :: rest, s =>
    let r := s.show
    let r2 := SState.showItems rest r.1
    (r2.1, r.2 ++ r2.2)
  | .num _ :: rest, s => SState.showItems rest { s with cur := { s.cur with tm := none } }

/-- ISO 32000-1, tables 57, 105–109, as equations on matrices -/
def specStep : Op α → SState α → Option (SState α × List (SShow α))
  | .q, s => some ({ s with stack := s.cur :: s.stack }, [])
  | .Q, s => match s.stack with
    | [] => none
    | f :: rest => some (⟨f, rest⟩, [])
  | .cm M, s => some ({ s with cur := { s.cur with ctm := M.mul s.cur.ctm } }, [])
  | .BT, s => some ({ s with cur := { s.cur with tm := some identity, tlm := identity, lin := identity } }, [])
  | .Tm M, s => some ({ s with cur := { s.cur with tm := some M, tlm := M, lin := M.linear } }, [])
  | .Td tx ty, s => some (s.td tx ty, [])
  | .TD tx ty, s => some (({ s with cur := { s.cur with tl := -ty } } : SState α).td tx ty, [])
  | .Tstar, s => some (s.td 0 (-s.cur.tl), [])
  | .TL l, s => some ({ s with cur := { s.cur with tl := l } }, [])
  | .Tf size, s => some ({ s with cur := { s.cur with fs := size } }, [])
  | .Ts r, s => some ({ s with cur := { s.cur with rise := r } }, [])
  | .Tj _, s => some s.show
  | .TJ items, s => some (s.showItems items)
  | .quote _, s => some (s.td 0 (-s.cur.tl)).show
  | .dquote _ _ _, s => some (s.td 0 (-s.cur.tl)).show
  | _, s => some (s, [])

def specRun : List (Op α) → SState α → Option (List (SShow α))
  | [], _ => some []
  | op :: rest, s => match specStep op s with
    | none => none
    | some r => (specRun rest r.1).map (r.2 ++ ·)

/-- `none` when the flag is set -/
def noneIf (b : Bool) (x : β) : Option β :=
  match b with
  | true => none
  | false => some x

/-- the observable part of a model frame -/
def absFrame (f : Frame α) : SFrame α :=
  { ctm := f.ctm, tlm := f.text.tlm, tm := noneIf f.text.dirty f.text.tm,
    lin := f.text.tm.linear, tl := f.text.leading, fs := f.text.fontSize, rise := f.text.rise }

def absState (s : State α) : SState α := ⟨absFrame s.cur, s.stack.map absFrame⟩

def absShow (sh : Show α) : SShow α :=
  { origin := noneIf (!sh.clean) (sh.x, sh.y), fs := sh.fs,
    tmScale2 := sh.tmScale2, ctmScale2 := sh.ctmScale2 }

/-- programs without `Do` -/
def NoForm : List (Op α) → Prop
  | [] => True
  | .form _ _ :: _ => False
  | _ :: rest => NoForm rest

omit [DecidableEq α] [LT α] [DecidableLT α] in
/-- after `AdvanceText` the specification no longer knows the text position; nothing else
it observes changes -/
theorem absState_advanceText (s : State α) (tx : α) :
    absState (s.advanceText tx) = { absState s with cur := { (absState s).cur with tm := none } } := by
  simp [State.advanceText, State.mapText, absState, absFrame, noneIf, Matrix.linear]

theorem absShow_showText (adv : Adv α) (sid : Nat) (s : State α) :
    (absState (showText adv sid s).1, [absShow (showText adv sid s).2]) = (absState s).show := by
  simp only [showText, absShow, SState.show, State.getTextPosition, Prod.mk.injEq, absState_advanceText,
    true_and]
  by_cases hr : s.cur.text.rise = 0
  · have h0 : s.cur.text.tm.f + 0 = s.cur.text.tm.f := by grind
    cases hd : s.cur.text.dirty <;>
      simp [absState, absFrame, noneIf, origin_eq, tmScale2_linear, hr, hd, h0]
  · cases hd : s.cur.text.dirty <;>
      simp [absState, absFrame, noneIf, tmScale2_linear, hr, hd]

/-- a `TJ` array: the model and the specification commute with the abstraction -/
theorem absShow_showTextArray (adv : Adv α) (items : List (TJItem α)) (s : State α) :
    (absState (showTextArray adv items s).1, (showTextArray adv items s).2.map absShow)
      = (absState s).showItems items := by
  induction items generalizing s with
  | nil => rfl
  | cons it rest ih =>
    cases it with
    | str sid =>
      have h := absShow_showText adv sid s
      have ih' := ih (showText adv sid s).1
      simp only [showTextArray, SState.showItems, List.map_cons]
      rw [← h, ← ih']
      rfl
    | num v =>
      have ih' := ih (s.advanceText (adv s.cur.text (.num v)))
      simp only [showTextArray, SState.showItems]
      rw [ih', absState_advanceText]

omit [DecidableEq α] [LT α] [DecidableLT α] in
theorem absState_translateText (s : State α) (tx ty : α) :
    absState (s.translateText tx ty) = (absState s).td tx ty := by
  simp [State.translateText, State.mapText, absState, absFrame, SState.td, noneIf]

/-- one operator: the model step and the specification step commute with the abstraction -/
theorem step_spec (adv : Adv α) (op : Op α) (hop : ∀ m b, op ≠ .form m b) (s : State α) :
    specStep op (absState s) =
      if (step adv op s).2.2 then none
      else some (absState (step adv op s).1, (step adv op s).2.1.map absShow) := by
  cases op with
  | form m b => exact absurd rfl (hop m b)
  | Q =>
    cases s with | mk c st d =>
    cases st with
    | nil => simp [step, stepBasic, State.restore, specStep, absState]
    | cons f rest => simp [step, stepBasic, State.restore, specStep, absState]
  | Td tx ty => simp [step, stepBasic, specStep, absState_translateText]
  | TD tx ty =>
    simp only [step, stepBasic, specStep, State.translateTextSetLeading, absState_translateText]
    simp [State.setLeading, State.mapText, absState, absFrame]
  | Tstar =>
    simp only [step, stepBasic, specStep, State.nextLine, absState_translateText]
    simp [absState, absFrame]
  | Tj sid =>
    simp only [step, stepBasic, specStep, Bool.false_eq_true, if_false, List.map_cons, List.map_nil]
    rw [← absShow_showText adv sid s]
  | TJ items =>
    simp only [step, stepBasic, specStep, Bool.false_eq_true, if_false]
    rw [← absShow_showTextArray adv items s]
  | quote sid =>
    have h : (absState s).td 0 (-(absState s).cur.tl) = absState s.nextLine := by
      rw [State.nextLine, absState_translateText]; rfl
    simp only [step, stepBasic, specStep, Bool.false_eq_true, if_false, List.map_cons, List.map_nil]
    rw [h, ← absShow_showText adv sid s.nextLine]
  | dquote aw ac sid =>
    have h : (absState s).td 0 (-(absState s).cur.tl)
        = absState ((s.setWordSpacing aw).setCharSpacing ac).nextLine := by
      rw [State.nextLine, absState_translateText]; rfl
    simp only [step, stepBasic, specStep, Bool.false_eq_true, if_false, List.map_cons, List.map_nil]
    rw [h, ← absShow_showText adv sid _]
  | _ =>
    simp [step, stepBasic, specStep, absState, absFrame, State.save, State.transform,
      State.beginText, State.setTextMatrix, State.setLeading, State.setFont, State.setCharSpacing,
      State.setWordSpacing, State.setHorizontalScaling, State.setTextRise, State.mapText, Matrix.linear,
      Matrix.identity, noneIf]

/-- **origin_spec**: for every `Do`-free program of any length (any q/Q depth, any matrices,
any glyph advances) and every starting state, the extractor fails exactly when the
specification does (an unmatched `Q`), and otherwise reports, fragment by fragment, the
origin `(0,0) × Tm × CTM` of the specification at every show whose position the property
determines (first show after a positioning step), together with the specification's
font-size factors at *every* show. -/
theorem origin_spec (adv : Adv α) (ops : List (Op α)) (hnf : NoForm ops) (s : State α) :
    (run adv ops s).map (·.map absShow) = specRun ops (absState s) := by
  unfold run
  induction ops generalizing s with
  | nil => simp [exec, specRun]
  | cons op rest ih =>
    have hop : ∀ m b, op ≠ .form m b := by
      intro m b h; subst h; exact hnf
    have hrest : NoForm rest := by
      cases op <;> first | exact hnf | exact absurd rfl (hop _ _)
    rw [specRun, step_spec adv op hop s, exec]
    cases herr : (step adv op s).2.2 with
    | true => simp
    | false =>
      simp only [Bool.false_eq_true, if_false]
      rw [← ih hrest]
      cases exec adv rest (step adv op s).1 <;> simp

omit [Lean.Grind.CommRing α] [DecidableEq α] [LT α] [DecidableLT α] in
theorem noForm_append {a b : List (Op α)} (ha : NoForm a) (hb : NoForm b) : NoForm (a ++ b) := by
  induction a with
  | nil => exact hb
  | cons op rest ih => cases op <;> first | exact ih ha | exact ha.elim

/-- **origin_spec through a form**: the fragments produced by `Do` of a form with
`/Matrix N` whose (balanced, `Do`-free) content is `body` are, origin by origin and size by
size, those the specification assigns to `q N cm body Q` in the current state. -/
theorem xobject_origin_spec (adv : Adv α) (N : Matrix α) (body : List (Op α)) (hb : Balanced body)
    (hnf : NoForm body) (s : State α) (hd : s.xdepth < maxXObjectDepth) :
    specRun (Op.q :: Op.cm N :: (body ++ [Op.Q])) (absState s)
      = some ((step adv (.form (some N) body) s).2.1.map absShow) := by
  obtain ⟨out, hexec, hstep⟩ := xobject_matrix adv N body hb s hd
  have hnf' : NoForm (Op.q :: Op.cm N :: (body ++ [Op.Q])) :=
    noForm_append (a := [Op.q, Op.cm N] ++ body) (noForm_append (a := [Op.q, Op.cm N]) trivial hnf) trivial
  have h := origin_spec adv _ hnf' { s with xdepth := s.xdepth + 1 }
  unfold run at h
  rw [hexec] at h
  have habs : absState { s with xdepth := s.xdepth + 1 } = absState s := rfl
  rw [habs] at h
  rw [← h, hstep]; rfl

/-- non-vacuity and a concrete reading: the two quoted programs of the property -/
example : run (fun _ _ => 0)
    [.cm ⟨1, 0, 0, 1, 100, 100⟩, .cm ⟨2, 0, 0, 2, 0, 0⟩, .BT, .Tf 12, .Td 10 10, .Tj 0, .ET]
    (init : State Int) = some [⟨120, 120, 12, 1, 4, true⟩] := by decide

/-! ## Font size -/

/-- the square of the reported `FontSize` -/
def size2 (sh : Show α) : α := sh.fs * sh.fs * sh.tmScale2 * sh.ctmScale2

/-- **fontsize_similarity**: when the text matrix and the CTM are similarities (uniform
scale ∘ rotation ∘ optional reflection ∘ translation) and the CTM is not degenerate, the
reported size is the font size times the two scale factors: `size² = fs² · k_T · k_C` with
`k_T² = det(Tm)²`, `k_C² = det(CTM)²`; in particular `(size²)² = (fs² · det Tm · det CTM)²`. -/
theorem fontsize_similarity (adv : Adv α) (sid : Nat) (s : State α)
    (hT : IsSimilarity s.cur.text.tm) (hC : IsSimilarity s.cur.ctm) (hC0 : s.cur.ctm.vScale2 ≠ 0) :
    let sh := (showText adv sid s).2
    size2 sh = s.cur.text.fontSize * s.cur.text.fontSize * s.cur.text.tm.vScale2 * s.cur.ctm.vScale2 ∧
      s.cur.text.tm.vScale2 * s.cur.text.tm.vScale2 = s.cur.text.tm.det * s.cur.text.tm.det ∧
      s.cur.ctm.vScale2 * s.cur.ctm.vScale2 = s.cur.ctm.det * s.cur.ctm.det := by
  refine ⟨?_, similarity_scale_det _ hT, similarity_scale_det _ hC⟩
  simp only [size2, showText, tmScale2, ctmScale2, hT.1, hC0, if_false]
  split <;> rfl

/-- over the integers: `size² = fs² · |det Tm| · |det CTM|` -/
theorem fontsize_similarity_int (adv : Adv Int) (sid : Nat) (s : State Int)
    (hT : IsSimilarity s.cur.text.tm) (hC : IsSimilarity s.cur.ctm) (hC0 : s.cur.ctm.det ≠ 0) :
    size2 (showText adv sid s).2 =
      s.cur.text.fontSize * s.cur.text.fontSize * (s.cur.text.tm.det.natAbs : Int) * (s.cur.ctm.det.natAbs : Int) := by
  have key : ∀ k d : Int, 0 ≤ k → k * k = d * d → k = (d.natAbs : Int) := by
    intro k d hk h
    have h1 : (k.natAbs * k.natAbs : Nat) = d.natAbs * d.natAbs := by
      have := congrArg Int.natAbs h
      simpa [Int.natAbs_mul] using this
    have h2 : k.natAbs = d.natAbs := Nat.mul_self_inj.mp h1
    omega
  have nn : ∀ m : Matrix Int, 0 ≤ m.vScale2 := by
    intro m
    have h1 := Int.natAbs_mul_self' m.c
    have h2 := Int.natAbs_mul_self' m.d
    have := Int.mul_nonneg (Int.natCast_nonneg m.c.natAbs) (Int.natCast_nonneg m.c.natAbs)
    have := Int.mul_nonneg (Int.natCast_nonneg m.d.natAbs) (Int.natCast_nonneg m.d.natAbs)
    simp only [vScale2]; omega
  have hTd := key _ _ (nn _) (similarity_scale_det _ hT)
  have hCd := key _ _ (nn _) (similarity_scale_det _ hC)
  have hC0' : s.cur.ctm.vScale2 ≠ 0 := by rw [hCd]; omega
  rw [(fontsize_similarity adv sid s hT hC hC0').1, hTd, hCd]

/-- the hypotheses are satisfiable: text rotated by 90° and scaled by 3 under a CTM that
mirrors and scales by 2 — size² = 10²·9·4 (the pinned code reported 0) -/
example : IsSimilarity (⟨0, 3, -3, 0, 5, 5⟩ : Matrix Int) ∧ IsSimilarity (⟨2, 0, 0, -2, 0, 700⟩ : Matrix Int) ∧
    size2 (showText (fun _ _ => 0) 0
      (step (fun _ _ => 0) (.Tm ⟨0, 3, -3, 0, 5, 5⟩) (step (fun _ _ => 0) (.Tf 10)
        (step (fun _ _ => 0) (.cm ⟨2, 0, 0, -2, 0, 700⟩) (init : State Int)).1).1).1).2 = 3600 := by
  decide

/-- the reported size does not depend on the translation parts, nor on glyph advances -/
theorem fontsize_translation_invariant (adv : Adv α) (sid : Nat) (s : State α) (e f : α) :
    size2 (showText adv sid (s.mapText fun t => { t with tm := { t.tm with e := e, f := f } })).2
      = size2 (showText adv sid s).2 := rfl

/-! ## Graphics extractor: line end points use the same CTM -/

omit [DecidableEq α] [LT α] [DecidableLT α] in
/-- a line stroked after `M cm` is reported where the line with end points mapped through
`M` would have been reported before -/
theorem gfx_cm_premultiplies (M : Matrix α) (x0 y0 x1 y1 : α) (s : State α) :
    gfx [.cm M, .line x0 y0 x1 y1] s =
      gfx [.line (M.transformPoint (x0, y0)).1 (M.transformPoint (x0, y0)).2
                 (M.transformPoint (x1, y1)).1 (M.transformPoint (x1, y1)).2] s := by
  simp only [gfx, State.transform, Option.map_some]
  rw [transformPoint_mul, transformPoint_mul]

end Tabula.C08
