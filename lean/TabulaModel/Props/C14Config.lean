import TabulaModel.Props.C14IO
import TabulaModel.Lemmas.ExportConfig
/-!
# C14 (part 10) — which configuration fields an export looks at

The property quantifies over all export configurations.  Here the dependence of the output on the
eleven fields of `ExportConfig` is made explicit, format by format: a JSON / JSON Lines export is a
function of (IncludeMetadata, MetadataFields, IncludeText) and — JSON only — PrettyPrint; a CSV /
TSV export is a function of everything except PrettyPrint and FlattenMetadata, and of
CSVDelimiter only through `delimiter` (TSV: not at all).  So there is no cross-talk between the
CSV switches and the JSON formats or between PrettyPrint / FlattenMetadata and the tables, and
`MetadataFields = []` (empty, not nil) exports no metadata at all — exactly like
IncludeMetadata = false — while nil exports every field.
-/
namespace Tabula.C14Config
open Tabula.Export Tabula.Csv Tabula.Json Tabula.C14 Tabula.C14Meta Tabula.C14Api Tabula.C14Json Tabula.C14S
open Tabula.C14Decode Tabula.C14Rune

/-- JSON and JSON Lines: the text depends on IncludeMetadata, MetadataFields, IncludeText and (JSON
only) PrettyPrint — not on FlattenMetadata, IncludeEmbeddings, CSVDelimiter, IncludeHeader, the
column names, nor (JSON Lines) on PrettyPrint. -/
theorem json_config_dependence (cfg cfg' : Config) (chunks : List Chunk)
    (hfmt : cfg'.format = cfg.format) (hf : cfg.format = .json ∨ cfg.format = .jsonl)
    (h1 : cfg'.includeMetadata = cfg.includeMetadata) (h2 : cfg'.metadataFields = cfg.metadataFields)
    (h3 : cfg'.includeText = cfg.includeText) (h4 : cfg.format = .json → cfg'.prettyPrint = cfg.prettyPrint) :
    exportToStringR cfg' chunks = exportToStringR cfg chunks := by
  have hr := exportRecords_congr cfg cfg' h1 h2 h3 chunks
  rcases hf with hf | hf
  · simp only [exportToStringR, hfmt, hf, exportJSONText, hr, h4 hf]
  · simp only [exportToStringR, hfmt, hf, exportJSONLText, exportJSONL, hr]

example : ({ jsonlExportConfig with prettyPrint := true, flattenMetadata := true, csvDelimiter := 59 } : Config).format =
    jsonlExportConfig.format := rfl

/-- CSV and TSV: the text depends on every field except PrettyPrint and FlattenMetadata, and on
CSVDelimiter only through the delimiter actually used (`delimiter_of_format`). -/
theorem csv_config_dependence (cfg cfg' : Config) (chunks : List Chunk)
    (hfmt : cfg'.format = cfg.format) (hf : cfg.format = .csv ∨ cfg.format = .tsv)
    (h1 : cfg'.includeMetadata = cfg.includeMetadata) (h2 : cfg'.metadataFields = cfg.metadataFields)
    (h3 : cfg'.includeText = cfg.includeText) (h4 : cfg'.textColumnName = cfg.textColumnName)
    (h5 : cfg'.chunkIDColumnName = cfg.chunkIDColumnName) (h6 : cfg'.includeEmbeddings = cfg.includeEmbeddings)
    (h7 : cfg'.includeHeader = cfg.includeHeader) (hd : delimiter cfg' = delimiter cfg) :
    exportToStringR cfg' chunks = exportToStringR cfg chunks := by
  have hr := csvRecords_congr goMarshal cfg cfg' h1 h2 h3 h4 h5 h6 h7 chunks
  rcases hf with hf | hf <;> simp only [exportToStringR, hfmt, hf, exportCSVR, hr, hd]

/-- in particular: TSV does not read CSVDelimiter at all, and CSV reads an unset delimiter as a comma -/
theorem delimiter_cross_talk (cfg : Config) (chunks : List Chunk) :
    (cfg.format = .tsv → ∀ d, exportToStringR { cfg with csvDelimiter := d } chunks = exportToStringR cfg chunks) ∧
    (cfg.format = .csv → cfg.csvDelimiter = 0 →
      exportToStringR { cfg with csvDelimiter := 44 } chunks = exportToStringR cfg chunks) := by
  constructor
  · intro hf d
    have hd : delimiter { cfg with csvDelimiter := d } = delimiter cfg := by simp [delimiter, hf]
    exact csv_config_dependence cfg { cfg with csvDelimiter := d } chunks rfl (Or.inr hf) rfl rfl rfl rfl rfl rfl rfl hd
  · intro hf h0
    have hd : delimiter { cfg with csvDelimiter := 44 } = delimiter cfg := by simp [delimiter, hf, h0]
    exact csv_config_dependence cfg { cfg with csvDelimiter := 44 } chunks rfl (Or.inl hf) rfl rfl rfl rfl rfl rfl rfl hd

example : ({ format := .csv, csvDelimiter := 0 } : Config).csvDelimiter = 0 := rfl

theorem format_cases (f : Format) : f = .jsonl ∨ f = .json ∨ f = .csv ∨ f = .tsv ∨ f = .other := by
  cases f <;> simp

/-- PrettyPrint and FlattenMetadata never reach a CSV / TSV export; FlattenMetadata never reaches
any export (chunk metadata has no nested maps: `flatten_is_noop`) -/
theorem pretty_flatten_irrelevant (cfg : Config) (chunks : List Chunk) (p f : Bool) :
    (cfg.format ≠ .json → exportToStringR { cfg with prettyPrint := p } chunks = exportToStringR cfg chunks) ∧
    exportToStringR { cfg with flattenMetadata := f } chunks = exportToStringR cfg chunks := by
  constructor
  · intro hne
    rcases format_cases cfg.format with hf | hf | hf | hf | hf
    · exact json_config_dependence cfg { cfg with prettyPrint := p } chunks rfl (Or.inr hf) rfl rfl rfl
        (fun h => by rw [hf] at h; cases h)
    · exact absurd hf hne
    · exact csv_config_dependence cfg { cfg with prettyPrint := p } chunks rfl (Or.inl hf) rfl rfl rfl rfl rfl rfl rfl rfl
    · exact csv_config_dependence cfg { cfg with prettyPrint := p } chunks rfl (Or.inr hf) rfl rfl rfl rfl rfl rfl rfl rfl
    · simp [exportToStringR, hf]
  · have hd : delimiter { cfg with flattenMetadata := f } = delimiter cfg := rfl
    rcases format_cases cfg.format with hf | hf | hf | hf | hf
    · exact json_config_dependence cfg { cfg with flattenMetadata := f } chunks rfl (Or.inr hf) rfl rfl rfl (fun _ => rfl)
    · exact json_config_dependence cfg { cfg with flattenMetadata := f } chunks rfl (Or.inl hf) rfl rfl rfl (fun _ => rfl)
    · exact csv_config_dependence cfg { cfg with flattenMetadata := f } chunks rfl (Or.inl hf) rfl rfl rfl rfl rfl rfl rfl hd
    · exact csv_config_dependence cfg { cfg with flattenMetadata := f } chunks rfl (Or.inr hf) rfl rfl rfl rfl rfl rfl rfl hd
    · simp [exportToStringR, hf]

/-- NIL VERSUS EMPTY field list: `MetadataFields = nil` selects every field, `MetadataFields = []`
selects none — and then the export is, byte for byte, the export with IncludeMetadata = false
(no `metadata` member, no `meta_` column), in every format. -/
theorem nil_versus_empty_fields (cfg : Config) (chunks : List Chunk) :
    (∀ k, allowedField { cfg with metadataFields := none } k = true) ∧
    (∀ k, allowedField { cfg with metadataFields := some [] } k = false) ∧
    exportToStringR { cfg with metadataFields := some [] } chunks =
      exportToStringR { cfg with includeMetadata := false } chunks := by
  refine ⟨fun _ => rfl, fun _ => rfl, ?_⟩
  -- records of the JSON formats
  have hj : ∀ c, exportedToJ (prepareChunkForExport { cfg with metadataFields := some [] } c) =
      exportedToJ (prepareChunkForExport { cfg with includeMetadata := false } c) := by
    intro c
    have e : filterMetadata { cfg with metadataFields := some [] } (chunkMetadataToMap c.md) = [] := by
      rw [filterMetadata_unflattened]; rfl
    simp only [exportedToJ, prepareChunkForExport, e]
    cases cfg.includeMetadata <;> simp
  have hrec : (exportRecords { cfg with metadataFields := some [] } chunks).map exportedToJ =
      (exportRecords { cfg with includeMetadata := false } chunks).map exportedToJ := by
    rw [exportRecords_eq_map, exportRecords_eq_map, List.map_map, List.map_map]
    exact List.map_congr_left (fun c _ => hj c)
  -- cells and columns of the tables
  have hcell : ∀ c, cellSpec { cfg with metadataFields := some [] } c = cellSpec { cfg with includeMetadata := false } c := by
    intro c
    funext col
    simp [cellSpec, exportedMeta, allowedField]
  have hkeys : ∀ c, chunkKeys { cfg with metadataFields := some [] } c = [] := by
    intro c
    rw [chunkKeys_eq, filterMetadata_unflattened]; rfl
  have hcols : collectCSVColumns { cfg with metadataFields := some [] } chunks =
      collectCSVColumns { cfg with includeMetadata := false } chunks := by
    simp only [collectCSVColumns, fixedColumns, sortedMetaKeys, collectKeys_nil _ hkeys, sortStrings]
    cases cfg.includeMetadata <;> simp [sortStrings]
  have hcsv : exportCSVRecords goMarshal { cfg with metadataFields := some [] } chunks =
      exportCSVRecords goMarshal { cfg with includeMetadata := false } chunks := by
    unfold exportCSVRecords
    simp only [csvDataRows_eq_map, chunkToCSVRow_eq_map, getColumnValue_fun, hcols, hcell]
  have hjl : ∀ cfg' : Config, exportJSONLText cfg' chunks =
      ((exportRecords cfg' chunks).map exportedToJ).flatMap (fun j => Tabula.Json.marshal j ++ [10]) := by
    intro cfg'; simp [exportJSONLText, exportJSONL, List.flatMap_map]
  have hd : delimiter { cfg with metadataFields := some [] } = delimiter { cfg with includeMetadata := false } := rfl
  have hjl1 := hjl { cfg with metadataFields := some [] }
  have hjl2 := hjl { cfg with includeMetadata := false }
  have hp : ({ cfg with metadataFields := some [] } : Config).prettyPrint = ({ cfg with includeMetadata := false } : Config).prettyPrint := rfl
  have f1 : ({ cfg with metadataFields := some [] } : Config).format = cfg.format := rfl
  have f2 : ({ cfg with includeMetadata := false } : Config).format = cfg.format := rfl
  generalize ({ cfg with metadataFields := some [] } : Config) = c1 at *
  generalize ({ cfg with includeMetadata := false } : Config) = c2 at *
  rcases format_cases cfg.format with hf | hf | hf | hf | hf
  · simp only [exportToStringR, f1, f2, hf, hjl1, hjl2, hrec]
  · simp only [exportToStringR, f1, f2, hf, exportJSONText, hrec, hp]
  · simp only [exportToStringR, f1, f2, hf, exportCSVR, hcsv, hd]
  · simp only [exportToStringR, f1, f2, hf, exportCSVR, hcsv, hd]
  · simp only [exportToStringR, f1, f2, hf]

/-- the order of `MetadataFields` and repetitions in it do not matter to what a record carries:
the metadata value under every key is the same for two lists with the same members -/
theorem field_list_is_a_set (cfg : Config) (fs fs' : List Str) (h : ∀ k, k ∈ fs ↔ k ∈ fs') (m : Meta) (k : Str) :
    exportedMeta { cfg with metadataFields := some fs } m k = exportedMeta { cfg with metadataFields := some fs' } m k := by
  simp [exportedMeta, allowedField, h k]

end Tabula.C14Config
