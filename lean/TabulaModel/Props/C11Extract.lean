import TabulaModel.Props.C11
import TabulaModel.Lemmas.HFExtract
/-!
# C11 at the level of the extractor: one request

Theorems about `Model/HFExtract.lean` — what `tabula.Open(f)…<terminal>()` hands the page-level
detectors when `ExcludeHeaders` / `ExcludeFooters` / `ExcludeHeadersAndFooters` is part of the
request.  The mechanism theorems of `Props/C11.lean` are carried from `excludePage` to the public
path: which pages feed detection (`collectAllPages`: every page that can be read, whatever is
requested), when detection runs (`hfResult`), what each page loop filters (`pageInput`).

`src : Source` is the document as the reader yields it (`none` = the page cannot be read),
`o : Options` the extractor's options, `idx` the resolved page indices.  Chains of configuration
calls and call histories are in `Props/C11Chain.lean`.
-/
namespace Tabula.C11X
open Tabula.HF Tabula.HFX Tabula.PageSel Tabula.Builder Tabula.TextPipe Tabula.C11

/-- the same options without the two exclusion flags -/
def plain (o : Options) : Options := { o with excludeHeaders := false, excludeFooters := false }

theorem needHF_plain (o : Options) : needHF (plain o) = false := rfl

/-- "Quarterly" at the top and a running page number at the bottom of four 792 pt pages; page 3
(index 2) cannot be read -/
def exRaw (body : HF.Str) (num : Nat) : RawPage :=
  { height := 792,
    frags := [ { text := [81, 117, 97, 114, 116, 101, 114, 108, 121], x := 72, y := 738, w := 60, h := 12, fs := 12 },
               { text := body, x := 72, y := 400, w := 120, h := 12, fs := 12 },
               { text := [48 + num], x := 300, y := 30, w := 7, h := 12, fs := 12 } ] }

def exSrc : Source := [some (exRaw [66, 49] 1), some (exRaw [66, 50] 2), none, some (exRaw [66, 52] 4)]

/-! ## One page of one request -/

/-- **request_only_deletes.** Whatever the options, the fragments a page loop hands its detector
for page `k` are a sublist of that page's fragments (same order, nothing new, nothing twice), and
the request without the exclusion flags gets exactly the page's fragments. -/
theorem request_only_deletes (o : Options) (src : Source) (k : Nat) (fs : List Frag)
    (h : pageInput o src k = .ok fs) :
    ∃ rp, src[k]? = some (some rp) ∧ pageInput (plain o) src k = .ok rp.frags ∧ fs.Sublist rp.frags := by
  rcases pageInput_cases o src k with ⟨rp, hrp, e⟩ | ⟨_, e⟩
  · refine ⟨rp, hrp, ?_, ?_⟩
    · rw [pageInput_readable hrp, needHF_plain]; rfl
    · rw [e] at h
      cases h
      cases needHF o
      · exact List.Sublist.refl _
      · exact exclude_sublist _ _ _
  · rw [e] at h; cases h

example : pageInput { excludeHeaders := true } exSrc 1 =
    .ok [{ text := [66, 50], x := 72, y := 400, w := 120, h := 12, fs := 12 }] := by decide +kernel

/-- **request_fails_alike.** The options never decide whether a page loop fails: a page that cannot
be read is an error of every request that names it, a readable page of none. -/
theorem request_fails_alike (o o' : Options) (src : Source) (k : Nat) (e : E) :
    pageInput o src k = .error e ↔ pageInput o' src k = .error e := by
  rcases pageInput_cases o src k with ⟨rp, hrp, h⟩ | ⟨hno, h⟩
  · rw [h, pageInput_readable hrp o']; simp
  · rw [h, pageInput_unreadable hno o']

/-- **flags_one_switch.** The two flags act as one switch: a request with `ExcludeHeaders` alone, with
`ExcludeFooters` alone or with both hands every detector the same fragments (the code as it is: either
flag removes headers AND footers). -/
theorem flags_one_switch (o o' : Options) (h : needHF o = needHF o') (src : Source) (k : Nat) :
    pageInput o src k = pageInput o' src k := by
  unfold pageInput
  rw [hfResult_congr h]

/-- `ExcludeHeaders()` alone removes the running page number at the bottom of the page as well -/
theorem exclude_headers_also_removes_footers :
    pageInput { excludeHeaders := true } exSrc 0 = pageInput { excludeFooters := true } exSrc 0 ∧
    pageInput { excludeHeaders := true } exSrc 0 =
      .ok [{ text := [66, 49], x := 72, y := 400, w := 120, h := 12, fs := 12 }] := by decide +kernel

/-- **no_flag_identity.** Without a flag nothing is detected and nothing filtered. -/
theorem no_flag_identity (o : Options) (h : needHF o = false) (src : Source) (k : Nat) (rp : RawPage)
    (hrp : src[k]? = some (some rp)) : pageInput o src k = .ok rp.frags := by
  rw [pageInput_readable hrp, h]; rfl

example : needHF ({ pages := [2], byColumn := true } : Options) = false := rfl

/-- **selection_irrelevant.** What happens to page `k` does not depend on which pages are requested
with it: the regions come from all readable pages of the document. -/
theorem selection_irrelevant (o : Options) (ps : List Int) (src : Source) (k : Nat) :
    pageInput { o with pages := ps } src k = pageInput o src k :=
  flags_one_switch _ _ rfl src k

/-- **detection_feeds_on_readable_pages.** With a flag set, readable page `k` is filtered exactly as
`excludePage` filters it w.r.t. the list of ALL pages of the document that can be read — each
under its own page index and height, unreadable pages skipped, the requested pages playing no role. -/
theorem detection_feeds_on_readable_pages (o : Options) (hf : needHF o = true) (src : Source) (k : Nat)
    (rp : RawPage) (hrp : src[k]? = some (some rp)) :
    pageInput o src k = .ok (excludePage defaultConfig (collectAllPages src) (pageOf k rp)) ∧
    pageOf k rp ∈ collectAllPages src ∧
    (∀ p, p ∈ collectAllPages src ↔ ∃ j rq, src[j]? = some (some rq) ∧ p = pageOf j rq) ∧
    ((collectAllPages src).map (·.index)).Nodup := by
  refine ⟨?_, mem_collectAllPages.mpr ⟨k, rp, hrp, rfl⟩, fun p => mem_collectAllPages, collectAllPages_nodup src⟩
  rw [pageInput_readable hrp, hf]; rfl

example : collectAllPages exSrc = [pageOf 0 (exRaw [66, 49] 1), pageOf 1 (exRaw [66, 50] 2), pageOf 3 (exRaw [66, 52] 4)] := rfl

/-! ## The statement of the property, for one page of one request -/

/-- **body_untouched_request.** A fragment of a word-level page outside both margin bands of its page
reaches the detector of every page-level operation, whatever was excluded (character-level pages:
`body_untouched_request_charlevel`). -/
theorem body_untouched_request (o : Options) (src : Source) (k : Nat) (rp : RawPage)
    (hrp : src[k]? = some (some rp)) (f : Frag) (hf : f ∈ rp.frags)
    (hword : isCharacterLevel rp.frags = false)
    (htop : inTop (bands defaultConfig rp.frags rp.height) f = false)
    (hbot : inBottom (bands defaultConfig rp.frags rp.height) f = false) :
    ∃ fs, pageInput o src k = .ok fs ∧ f ∈ fs := by
  rw [pageInput_readable hrp]
  refine ⟨_, rfl, ?_⟩
  cases needHF o
  · exact hf
  · have := body_untouched (detect defaultConfig (collectAllPages src)) (k : Int) rp.frags rp.height f hf
      hword (by rw [detect_cfg]; exact htop) (by rw [detect_cfg]; exact hbot)
    exact this

/-- **body_untouched_request_charlevel.** A glyph of a character-level page reaches the detector of
every page-level operation when every assembled line it belongs to lies outside both margin bands
(the filter measures lines there, as detection does), whatever was excluded. -/
theorem body_untouched_request_charlevel (o : Options) (src : Source) (k : Nat) (rp : RawPage)
    (hrp : src[k]? = some (some rp)) (f : Frag) (hf : f ∈ rp.frags)
    (hcl : isCharacterLevel rp.frags = true)
    (hout : ∀ g ∈ charLines rp.frags, f ∈ g → ∀ l, assembleLine g = some l →
      inTop (bands defaultConfig (assembleFragmentsIntoLines rp.frags) rp.height) l = false ∧
      inBottom (bands defaultConfig (assembleFragmentsIntoLines rp.frags) rp.height) l = false) :
    ∃ fs, pageInput o src k = .ok fs ∧ f ∈ fs := by
  rw [pageInput_readable hrp]
  refine ⟨_, rfl, ?_⟩
  cases needHF o
  · exact hf
  · have := body_untouched_charlevel (detect defaultConfig (collectAllPages src)) (k : Int) rp.frags rp.height f hf
      hcl (by rw [detect_cfg]; exact hout)
    exact this

/-- the body glyph `B` of the character-level page 2 of `C11.clDoc` satisfies the hypothesis -/
example : let fs := (clPage 1 true).frags
    let f : Frag := { text := [66], x := 72, y := 400, w := 6, h := 12, fs := 12 }
    isCharacterLevel fs = true ∧ f ∈ fs ∧
    (charLines fs).all (fun g => !g.contains f || (match assembleLine g with
      | some l => !inTop (bands defaultConfig (assembleFragmentsIntoLines fs) 792) l &&
                  !inBottom (bands defaultConfig (assembleFragmentsIntoLines fs) 792) l
      | none => true)) = true := by
  decide +kernel

example : let rp := exRaw [66, 49] 1
    ∃ f ∈ rp.frags, inTop (bands defaultConfig rp.frags rp.height) f = false ∧
      inBottom (bands defaultConfig rp.frags rp.height) f = false := by
  refine ⟨{ text := [66, 49], x := 72, y := 400, w := 120, h := 12, fs := 12 }, ?_, ?_, ?_⟩ <;> decide +kernel

/-- **removed_only_if_request** (word-level pages). If a request drops fragment `f` of readable page
`k`, then a flag was set, `f` lies in the top or bottom band of ITS page, and a region of that kind —
detected on at least `minOccurrences ≥ 2` of the readable pages at a consistent position and covering
page `k` — has `f`'s digit-normalised text as its pattern, or is a page-number region while `f` is a
page-number pattern. -/
theorem removed_only_if_request (o : Options) (src : Source) (k : Nat) (rp : RawPage)
    (hrp : src[k]? = some (some rp)) (hword : isCharacterLevel rp.frags = false)
    (fs : List Frag) (h : pageInput o src k = .ok fs) (f : Frag) (hf : f ∈ rp.frags) (hrem : f ∉ fs) :
    needHF o = true ∧
    ∃ kind r, r ∈ (detect defaultConfig (collectAllPages src)).regions kind ∧
      DetectedAt defaultConfig (collectAllPages src) kind r ∧ (k : Int) ∈ r.pages ∧
      inRegion kind (bands defaultConfig rp.frags rp.height) f = true ∧
      (normalize (trimSpace f.text) = r.pattern ∨
        (r.isPageNumber = true ∧ isPageNumberPattern (normalize (trimSpace f.text)) = true)) := by
  rw [pageInput_readable hrp] at h
  cases hn : needHF o with
  | false => rw [hn] at h; cases h; exact absurd hf hrem
  | true =>
    rw [hn] at h
    cases h
    exact ⟨rfl, removed_only_if defaultConfig (collectAllPages src) (pageOf k rp) f hword hf hrem⟩

/-- the running header of page 2 of `exSrc` is dropped from a word-level page -/
example : let rp := exRaw [66, 50] 2
    let f : Frag := { text := [81, 117, 97, 114, 116, 101, 114, 108, 121], x := 72, y := 738, w := 60, h := 12, fs := 12 }
    exSrc[1]? = some (some rp) ∧ isCharacterLevel rp.frags = false ∧ f ∈ rp.frags ∧
      ∃ fs, pageInput { excludeFooters := true } exSrc 1 = .ok fs ∧ f ∉ fs := by
  refine ⟨rfl, by decide +kernel, by decide +kernel, _, rfl, by decide +kernel⟩

/-- **removed_only_if_request_charlevel** (character-level pages; full statement since the repair of
F8). If a request drops glyph fragment `f` of the character-level readable page `k`, then a flag was
set, `f` belongs to a line group of ITS page whose assembled line `l` lies in the top or bottom band
(measured on the assembled lines of the page), and a region of that kind — detected on at least
`minOccurrences ≥ 2` of the readable pages at a consistent position and covering page `k` — has the
LINE's digit-normalised text as its pattern, or is a page-number region while the line is a
page-number pattern. -/
theorem removed_only_if_request_charlevel (o : Options) (src : Source) (k : Nat) (rp : RawPage)
    (hrp : src[k]? = some (some rp)) (hcl : isCharacterLevel rp.frags = true)
    (fs : List Frag) (h : pageInput o src k = .ok fs) (f : Frag) (hf : f ∈ rp.frags) (hrem : f ∉ fs) :
    needHF o = true ∧
    ∃ g ∈ charLines rp.frags, f ∈ g ∧ ∃ l, assembleLine g = some l ∧
      ∃ kind r, r ∈ (detect defaultConfig (collectAllPages src)).regions kind ∧
        DetectedAt defaultConfig (collectAllPages src) kind r ∧ (k : Int) ∈ r.pages ∧
        inRegion kind (bands defaultConfig (assembleFragmentsIntoLines rp.frags) rp.height) l = true ∧
        (normalize (trimSpace l.text) = r.pattern ∨
          (r.isPageNumber = true ∧ isPageNumberPattern (normalize (trimSpace l.text)) = true)) := by
  rw [pageInput_readable hrp] at h
  cases hn : needHF o with
  | false => rw [hn] at h; cases h; exact absurd hf hrem
  | true =>
    rw [hn] at h
    cases h
    exact ⟨rfl, removed_only_if_charlevel defaultConfig (collectAllPages src) (pageOf k rp) f hcl hf hrem⟩

/-- the hypotheses are satisfiable: the glyph `A` of the running line "Abc" is dropped from the
character-level page 2 of a source made of the pages of `C11.clDoc` -/
example : let src : Source := clDoc.map fun p => some { height := p.height, frags := p.frags }
    let rp : RawPage := { height := 792, frags := (clPage 1 true).frags }
    let f : Frag := { text := [65], x := 72, y := 760, w := 6, h := 12, fs := 12 }
    src[1]? = some (some rp) ∧ isCharacterLevel rp.frags = true ∧ f ∈ rp.frags ∧
      ∃ fs, pageInput { excludeHeaders := true } src 1 = .ok fs ∧ f ∉ fs := by
  refine ⟨by decide +kernel, by decide +kernel, by decide +kernel, _, rfl, by decide +kernel⟩

/-- **no_repetition_request.** If no digit-normalised marginal text occurs on two readable pages, every
request returns every page unchanged. -/
theorem no_repetition_request (o : Options) (src : Source)
    (hrep : ∀ kind key, (distinctPages (groupOf (extractCandidates defaultConfig kind
      (preprocessPages (collectAllPages src))) key)).length < 2)
    (k : Nat) (rp : RawPage) (hrp : src[k]? = some (some rp)) : pageInput o src k = .ok rp.frags := by
  rw [pageInput_readable hrp]
  cases needHF o
  · rfl
  · have := no_repetition_identity defaultConfig (collectAllPages src) hrep (pageOf k rp)
    simp only [if_true]
    rw [this]; rfl

/-- **single_readable_page_identity.** A document of which at most one page can be read comes back
unchanged from every request (1-page documents in particular). -/
theorem single_readable_page_identity (o : Options) (src : Source) (h1 : (collectAllPages src).length ≤ 1)
    (k : Nat) (rp : RawPage) (hrp : src[k]? = some (some rp)) : pageInput o src k = .ok rp.frags := by
  rw [pageInput_readable hrp]
  cases needHF o
  · rfl
  · have := single_page_identity defaultConfig (collectAllPages src) h1 (pageOf k rp)
    simp only [if_true]
    rw [this]; rfl

theorem one_page_document_identity (o : Options) (rp : RawPage) :
    pageInput o [some rp] 0 = .ok rp.frags :=
  single_readable_page_identity o [some rp] (by simp [collectAllPages, collectFrom]) 0 rp rfl

example : (collectAllPages [none, some (exRaw [66] 1), none]).length ≤ 1 := by decide

/-- **repeated_removed_from_every_request** (liveness). Let at least two pages be readable, all of them
word-level, and let every readable page carry in its top (resp. bottom) band a fragment with
digit-normalised text `key` — the same line, or a running page number — such fragments sitting at one
position `(x0, d0)` only. If `key` is longer than two bytes or a page-number pattern, then EVERY
request with a flag set, for EVERY readable page, drops every such fragment — whichever pages were
requested with it. (That the page indices are distinct is no hypothesis here: `collectAllPages`
guarantees it.) -/
theorem repeated_removed_from_every_request (src : Source) (kind : Kind) (key : HF.Str) (x0 d0 : Rat)
    (hn : 2 ≤ (collectAllPages src).length)
    (hword : ∀ (j : Nat) (rq : RawPage), src[j]? = some (some rq) → isCharacterLevel rq.frags = false)
    (hkey : 2 < key.length ∨ isPageNumberPattern key = true)
    (hpresent : ∀ (j : Nat) (rq : RawPage), src[j]? = some (some rq) → ∃ f ∈ rq.frags,
      inRegion kind (bands defaultConfig rq.frags rq.height) f = true ∧ normalize (trimSpace f.text) = key)
    (hpos : ∀ (j : Nat) (rq : RawPage), src[j]? = some (some rq) → ∀ f ∈ rq.frags,
      inRegion kind (bands defaultConfig rq.frags rq.height) f = true → normalize (trimSpace f.text) = key →
      f.x = x0 ∧ regionDist kind (bands defaultConfig rq.frags rq.height) f = d0)
    (o : Options) (hf : needHF o = true) (k : Nat) (rp : RawPage) (hrp : src[k]? = some (some rp))
    (fs : List Frag) (h : pageInput o src k = .ok fs) :
    ∀ f ∈ rp.frags, inRegion kind (bands defaultConfig rp.frags rp.height) f = true →
      normalize (trimSpace f.text) = key → f ∉ fs := by
  rw [pageInput_readable hrp, hf] at h
  cases h
  have hall : ∀ p ∈ collectAllPages src, ∃ j rq, src[j]? = some (some rq) ∧ p = pageOf j rq :=
    fun p hp => mem_collectAllPages.mp hp
  have := repeated_removed_everywhere_default (collectAllPages src) kind key x0 d0 hn
    (collectAllPages_nodup src)
    (by intro p hp; obtain ⟨j, rq, hj, e⟩ := hall p hp; rw [e]; exact hword j rq hj)
    hkey
    (by intro p hp; obtain ⟨j, rq, hj, e⟩ := hall p hp; rw [e]; exact hpresent j rq hj)
    (by intro p hp; obtain ⟨j, rq, hj, e⟩ := hall p hp; rw [e]; exact hpos j rq hj)
  exact this (pageOf k rp) (mem_collectAllPages.mpr ⟨k, rp, hrp, rfl⟩)

/-- the hypotheses are satisfiable: `exSrc` (one page unreadable) with its running header … -/
example : 2 ≤ (collectAllPages exSrc).length ∧
    (∀ p ∈ collectAllPages exSrc, isCharacterLevel p.frags = false) ∧
    (∀ p ∈ collectAllPages exSrc, ∃ f ∈ p.frags, inRegion .header (bands defaultConfig p.frags p.height) f = true ∧
      normalize (trimSpace f.text) = [81, 117, 97, 114, 116, 101, 114, 108, 121]) ∧
    (∀ p ∈ collectAllPages exSrc, ∀ f ∈ p.frags, inRegion .header (bands defaultConfig p.frags p.height) f = true →
      normalize (trimSpace f.text) = [81, 117, 97, 114, 116, 101, 114, 108, 121] →
      f.x = 72 ∧ regionDist .header (bands defaultConfig p.frags p.height) f = 42) := by
  decide +kernel

/-- … and what the requests for its readable pages hand on: the body line of each page -/
example : [0, 1, 3].map (fun k => pageInput { excludeHeaders := true, pages := [2] } exSrc k) =
    [.ok [{ text := [66, 49], x := 72, y := 400, w := 120, h := 12, fs := 12 }],
     .ok [{ text := [66, 50], x := 72, y := 400, w := 120, h := 12, fs := 12 }],
     .ok [{ text := [66, 52], x := 72, y := 400, w := 120, h := 12, fs := 12 }]] := by decide +kernel

/-! ## The pages of one request -/

/-- **inputs_pagewise.** A request answers page by page: its result for the resolved pages `idx` is
the list of the per-page results, in that order; it fails iff one of the pages cannot be read. -/
theorem inputs_pagewise (o : Options) (src : Source) (idx : List Nat) (rs : List (List Frag)) :
    inputsOf o src idx = .ok rs ↔ Pointwise (fun k fs => pageInput o src k = .ok fs) idx rs :=
  collect_eq_ok

theorem inputs_error (o : Options) (src : Source) (idx : List Nat) (e : E)
    (h : inputsOf o src idx = .error e) : ∃ k ∈ idx, ∀ rp, src[k]? ≠ some (some rp) := by
  obtain ⟨k, hk, he⟩ := collect_eq_error h
  refine ⟨k, hk, ?_⟩
  rcases pageInput_cases o src k with ⟨rp, _, e'⟩ | ⟨hno, _⟩
  · rw [e'] at he; cases he
  · exact hno

/-- **request_pages_only_delete.** "The result is the unfiltered result minus some fragments, in the
same order": if a request succeeds then the same request without the flags succeeds, on the same
pages, and page by page the former's fragments are a sublist of the latter's, which are the pages'
own fragments. -/
theorem request_pages_only_delete (o : Options) (src : Source) (idx : List Nat) (rs : List (List Frag))
    (h : inputsOf o src idx = .ok rs) :
    ∃ us, inputsOf (plain o) src idx = .ok us ∧ Pointwise (fun r u => r.Sublist u) rs us ∧
      Pointwise (fun k u => ∃ rp, src[k]? = some (some rp) ∧ u = rp.frags) idx us := by
  have hp := (inputs_pagewise o src idx rs).mp h
  clear h
  induction hp with
  | nil => exact ⟨[], rfl, .nil, .nil⟩
  | @cons k fs ks rs' h1 _ ih =>
    obtain ⟨us, hus, hsub, hown⟩ := ih
    obtain ⟨rp, hrp, hpl, hs⟩ := request_only_deletes o src k fs h1
    refine ⟨rp.frags :: us, ?_, .cons hs hsub, .cons ⟨rp, hrp, rfl⟩ hown⟩
    have := (inputs_pagewise (plain o) src ks us).mp hus
    exact (inputs_pagewise (plain o) src (k :: ks) (rp.frags :: us)).mpr (.cons hpl this)

/-- and the other way round: the flags never make a failing request succeed -/
theorem request_fails_with_or_without_flags (o o' : Options) (src : Source) (idx : List Nat) (e : E) :
    inputsOf o src idx = .error e ↔ inputsOf o' src idx = .error e := by
  have key : ∀ (a b : Options), inputsOf a src idx = .error e → inputsOf b src idx = .error e := by
    intro a b
    unfold inputsOf
    induction idx with
    | nil => intro h; simp [collect] at h
    | cons k ks ih =>
      intro h
      simp only [collect] at h ⊢
      rcases pageInput_cases a src k with ⟨rp, hrp, ha⟩ | ⟨hno, ha⟩
      · rw [ha] at h
        rw [pageInput_readable hrp b]
        simp only at h ⊢
        cases hc : collect (pageInput a src) ks with
        | ok as => rw [hc] at h; simp at h
        | error e' =>
          rw [hc] at h; simp only at h; cases h
          rw [ih hc]
      · rw [ha] at h
        rw [pageInput_unreadable hno b]
        simpa using h
  exact ⟨key o o', key o' o⟩

example : inputsOf { excludeHeaders := true } exSrc [0, 2] = .error .page ∧
    inputsOf {} exSrc [0, 2] = .error .page := by decide +kernel

/-- **subset_as_whole_document.** "All page subsets requested together with exclusion": when the whole
document can be read, the answer for any list of pages is read off the answer for the whole
document, page by page. -/
theorem subset_as_whole_document (o : Options) (src : Source) (ws : List (List Frag))
    (hw : inputsOf o src (List.range src.length) = .ok ws) (idx : List Nat) (hidx : ∀ k ∈ idx, k < src.length) :
    inputsOf o src idx = .ok (idx.filterMap fun k => ws[k]?) := by
  have hp := (inputs_pagewise o src _ ws).mp hw
  have hget : ∀ k, k < src.length → ∃ fs, ws[k]? = some fs ∧ pageInput o src k = .ok fs := by
    intro k hk
    have hlen := hp.length_eq
    simp only [List.length_range] at hlen
    have hk' : k < ws.length := by omega
    refine ⟨ws[k], List.getElem?_eq_getElem hk', ?_⟩
    exact hp.get k k ws[k] (by simp [hk]) (List.getElem?_eq_getElem hk')
  unfold inputsOf
  induction idx with
  | nil => rfl
  | cons k ks ih =>
    obtain ⟨fs, hfs, hpi⟩ := hget k (hidx k (by simp))
    have := ih (fun j hj => hidx j (by simp [hj]))
    simp only [collect, hpi, this, List.filterMap_cons, hfs]

example : inputsOf { excludeHeaders := true } (exSrc.eraseIdx 2) [2, 0] =
    .ok ([2, 0].filterMap fun k =>
      ((inputsOf { excludeHeaders := true } (exSrc.eraseIdx 2) (List.range 3)).toOption.getD [])[k]?) := by
  decide +kernel

/-! ## Deleting first, extracting afterwards -/

theorem pageInput_filteredSource (o : Options) (hf : needHF o = true) (src : Source) (k : Nat) :
    pageInput o src k = pageInput (plain o) (filteredSource src) k := by
  rcases pageInput_cases o src k with ⟨rp, hrp, e⟩ | ⟨hno, e⟩
  · have h2 : (filteredSource src)[k]? = some (some { rp with frags := filterWith (hfResult exclOn src) k rp }) := by
      rw [filteredSource_getElem?, hrp]; rfl
    rw [e, pageInput_readable h2, needHF_plain, hf]
    simp only [if_true, Bool.false_eq_true, if_false]
    rw [hfResult_of_readable hrp, needHF_exclOn]
    rfl
  · have h2 : ∀ rq, (filteredSource src)[k]? ≠ some (some rq) := by
      intro rq hrq
      rw [filteredSource_getElem?] at hrq
      cases hs : src[k]? with
      | none => rw [hs] at hrq; cases hrq
      | some ov => cases ov with
        | none => rw [hs] at hrq; cases hrq
        | some rp => exact hno rp hs
    rw [e, pageInput_unreadable h2]

/-- **exclusion_is_deletion_then_extraction.** For every page-level layout operation (any detector
`det`), any options with a flag set and any pages: running the operation with exclusion on the
document equals running it WITHOUT exclusion on the document whose pages carry only the fragments
exclusion keeps (`filteredSource`, each page a sublist of the original page). Exclusion does
nothing but delete fragments before the operation starts. -/
theorem exclusion_is_deletion_then_extraction {α : Type} (det : Nat → List Frag → List α) (o : Options)
    (hf : needHF o = true) (src : Source) (idx : List Nat) :
    layoutOf det o src idx = layoutOf det (plain o) (filteredSource src) idx ∧
    inputsOf o src idx = inputsOf (plain o) (filteredSource src) idx := by
  constructor
  · unfold layoutOf
    simp only [pageInput_filteredSource o hf src]
  · unfold inputsOf
    exact collect_congr fun k _ => pageInput_filteredSource o hf src k

/-- every page of the filtered document is a sublist of the page it came from; unreadable pages stay
unreadable -/
theorem filteredSource_pages (src : Source) (k : Nat) :
    (src[k]? = none → (filteredSource src)[k]? = none) ∧
    (src[k]? = some none → (filteredSource src)[k]? = some none) ∧
    (∀ rp, src[k]? = some (some rp) → ∃ rq, (filteredSource src)[k]? = some (some rq) ∧
      rq.height = rp.height ∧ rq.frags.Sublist rp.frags) := by
  rw [filteredSource_getElem?]
  refine ⟨fun h => by rw [h]; rfl, fun h => by rw [h]; rfl, fun rp h => ?_⟩
  rw [h]
  refine ⟨_, rfl, rfl, ?_⟩
  unfold filterWith
  split
  · exact List.Sublist.refl _
  · exact filter_sublist _ _ _ _

example : filteredSource exSrc = [some { (exRaw [66, 49] 1) with frags := [{ text := [66, 49], x := 72, y := 400, w := 120, h := 12, fs := 12 }] },
    some { (exRaw [66, 50] 2) with frags := [{ text := [66, 50], x := 72, y := 400, w := 120, h := 12, fs := 12 }] }, none,
    some { (exRaw [66, 52] 4) with frags := [{ text := [66, 52], x := 72, y := 400, w := 120, h := 12, fs := 12 }] }] := by
  decide +kernel

/-! ## Document(), Analyze(), Fragments() -/

theorem zip_counts {rs us : List (List Frag)} (idx : List Nat) (h : Pointwise (fun r u => r.Sublist u) rs us) :
    Pointwise (fun (c u : Nat × Nat) => c.1 = u.1 ∧ c.2 ≤ u.2)
      ((idx.zip rs).map fun p => (p.1 + 1, p.2.length)) ((idx.zip us).map fun p => (p.1 + 1, p.2.length)) := by
  induction h generalizing idx with
  | nil => cases idx <;> exact .nil
  | cons h1 _ ih =>
    cases idx with
    | nil => exact .nil
    | cons k ks =>
      simp only [List.zip_cons_cons, List.map_cons]
      exact .cons ⟨rfl, h1.length_le⟩ (ih ks)

/-- **document_counts_bounded.** `Document()` with exclusion reports, page by page, the page number of
the unfiltered request and a fragment count that is at most the unfiltered one. -/
theorem document_counts_bounded (o : Options) (src : Source) (idx : List Nat) (cs : List (Nat × Nat))
    (h : documentCounts o src idx = .ok cs) :
    ∃ us, documentCounts (plain o) src idx = .ok us ∧
      Pointwise (fun c u => c.1 = u.1 ∧ c.2 ≤ u.2) cs us := by
  unfold documentCounts at h ⊢
  cases hi : idx.isEmpty with
  | true => rw [hi] at h; simp at h
  | false =>
    rw [hi] at h
    simp only [Bool.false_eq_true, if_false] at h ⊢
    cases hin : inputsOf o src idx with
    | error e => rw [hin] at h; cases h
    | ok rs =>
      rw [hin] at h
      cases h
      obtain ⟨us, hus, hsub, _⟩ := request_pages_only_delete o src idx rs hin
      rw [hus]
      refine ⟨_, rfl, ?_⟩
      exact zip_counts idx hsub

example : documentCounts { excludeFooters := true, pages := [1, 4] } exSrc [0, 3] = .ok [(1, 1), (4, 1)] ∧
    documentCounts { pages := [1, 4] } exSrc [0, 3] = .ok [(1, 3), (4, 3)] := by decide +kernel

/-- **fragments_never_filtered.** `Fragments()` does not consult the flags: `Open(f).ExcludeHeaders()
.Fragments()` returns the unfiltered fragments (the model follows the code; the statement's "can only
delete" holds trivially, its liveness clause is not claimed for this operation). -/
theorem fragments_never_filtered (src : Source) (idx : List Nat) :
    fragmentsOp src idx = layoutOf (fun _ fs => fs) {} src idx := by
  unfold fragmentsOp layoutOf
  have : ∀ k, (readPage src k).map (·.frags) = (pageInput {} src k).map (fun fs => fs) := by
    intro k
    rcases pageInput_cases {} src k with ⟨rp, hrp, e⟩ | ⟨hno, e⟩
    · rw [e, readPage_ok.mpr hrp]; rfl
    · rw [e]
      cases hr : readPage src k with
      | ok rp => exact absurd (readPage_ok.mp hr) (hno rp)
      | error e' => rw [(readPage_error hr).1]; rfl
  simp only [this]

/-! ## `layout.(*Analyzer).AnalyzeWithHeaderFooterFiltering` -/

/-- **analyzeWithHF_only_deletes.** Whatever the `PageIndex` fields say, the fragments analysed are a
sublist of the target page's fragments. -/
theorem analyzeWithHF_only_deletes (pages : List Page) (i : Int) (fs : List Frag)
    (h : analyzeWithHFInput pages i = some fs) :
    ∃ p, pages[i.toNat]? = some p ∧ 0 ≤ i ∧ fs.Sublist p.frags := by
  unfold analyzeWithHFInput at h
  split at h
  · cases h
  · rename_i hc
    cases hp : pages[i.toNat]? with
    | none => rw [hp] at h; cases h
    | some p =>
      rw [hp] at h
      cases h
      refine ⟨p, rfl, ?_, filter_sublist _ _ _ _⟩
      simp only [Bool.or_eq_true, decide_eq_true_eq, not_or, Int.not_lt] at hc
      exact hc.1.2

/-- **analyzeWithHF_positional.** When every page's `PageIndex` is its position (what the extractor
and the package's own test pass), the wrapper analyses exactly `excludePage` of the target page. -/
theorem analyzeWithHF_positional (pages : List Page)
    (hpos : ∀ (j : Nat) (p : Page), pages[j]? = some p → p.index = (j : Int))
    (j : Nat) (p : Page) (hp : pages[j]? = some p) :
    analyzeWithHFInput pages (j : Int) = some (excludePage defaultConfig pages p) := by
  have hj : j < pages.length := (List.getElem?_eq_some_iff.mp hp).1
  have hne : pages.isEmpty = false := by cases pages with | nil => simp at hj | cons _ _ => rfl
  unfold analyzeWithHFInput
  have h1 : decide ((j : Int) < 0) = false := by simp
  have h2 : decide ((j : Int) ≥ (pages.length : Int)) = false := by simp; omega
  simp only [hne, h1, h2, Bool.or_false, Bool.false_eq_true, if_false, Int.toNat_natCast, hp]
  unfold excludePage
  rw [hpos j p hp]

/-- **analyzeWithHF_index_mismatch_counterexample.** The target page is found by position while the
filter is asked about page NUMBER `pageIndex`: on `exDoc` renumbered from 1 (`PageIndex` 1, 2, 3 at
positions 0, 1, 2) the first page keeps its running header and page number — `excludePage` with the
page's own index removes them. A caller must pass `PageIndex = position`. -/
theorem analyzeWithHF_index_mismatch_counterexample :
    let doc := exDoc.map fun p => { p with index := p.index + 1 }
    (doc[0]?.map fun p => excludePage defaultConfig doc p) =
        some [{ text := [66, 111, 100, 121, 32, 111, 110, 101], x := 72, y := 400, w := 120, h := 12, fs := 12 }] ∧
      analyzeWithHFInput doc 0 = doc[0]?.map (·.frags) := by
  decide +kernel

end Tabula.C11X
