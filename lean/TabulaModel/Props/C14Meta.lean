import TabulaModel.Props.C14
import TabulaModel.Lemmas.ExportMeta
/-!
# C14 (part 2) — exported values in terms of the chunk's own fields

`Props/C14.lean` states the CSV/TSV layout in terms of the model's intermediate maps
(`chunkMetadataToMap`, `filterMetadata`, `chunkKeys`).  This file removes the intermediates: what
every record, column and cell carries is stated against a SPECIFICATION written over the chunk's
own fields — `metaField` (typed value of a metadata key, absent when empty/zero), `exportedMeta`
(… under the configuration's IncludeMetadata / MetadataFields), `cellSpec` (the text of a cell) —
and chained with `export_csv_parses_back` into the end-to-end statement for CSV/TSV.
-/
namespace Tabula.C14Meta
open Tabula.Export Tabula.Csv Tabula.C14

/-! ## metadata maps -/

/-- `chunkMetadataToMap` holds, under every key, exactly the typed value of the chunk's field of
that name (absent when the field is empty/zero), and nothing under any other key. -/
theorem metadata_value_spec (m : Meta) (k : Str) :
    mapLookup (chunkMetadataToMap m) k = metaField m k :=
  lookup_chunkMetadataToMap m k

/-- the table `metaField` itself, key by key (so that the specification can be read off) -/
theorem metaField_table (m : Meta) :
    metaField m kDocumentTitle = (if m.documentTitle ≠ [] then some (.str m.documentTitle) else none) ∧
    metaField m kSectionPath = (if m.sectionPath ≠ [] then some (.strs m.sectionPath) else none) ∧
    metaField m kSectionTitle = (if m.sectionTitle ≠ [] then some (.str m.sectionTitle) else none) ∧
    metaField m kHeadingLevel = (if m.headingLevel > 0 then some (.int m.headingLevel) else none) ∧
    metaField m kPageStart = (if m.pageStart > 0 then some (.int m.pageStart) else none) ∧
    metaField m kPageEnd = (if m.pageEnd > 0 then some (.int m.pageEnd) else none) ∧
    metaField m kChunkIndex = some (.int m.chunkIndex) ∧
    metaField m kTotalChunks = (if m.totalChunks > 0 then some (.int m.totalChunks) else none) ∧
    metaField m kLevel = some (.str (levelString m.level)) ∧
    metaField m kParentId = (if m.parentID ≠ [] then some (.str m.parentID) else none) ∧
    metaField m kChildIds = (if m.childIDs ≠ [] then some (.strs m.childIDs) else none) ∧
    metaField m kElementTypes = (if m.elementTypes ≠ [] then some (.strs m.elementTypes) else none) ∧
    metaField m kHasTable = (if m.hasTable then some (.bool true) else none) ∧
    metaField m kHasList = (if m.hasList then some (.bool true) else none) ∧
    metaField m kHasImage = (if m.hasImage then some (.bool true) else none) ∧
    metaField m kCharCount = (if m.charCount > 0 then some (.int m.charCount) else none) ∧
    metaField m kWordCount = (if m.wordCount > 0 then some (.int m.wordCount) else none) ∧
    metaField m kEstimatedTokens = (if m.estimatedTokens > 0 then some (.int m.estimatedTokens) else none) := by
  refine ⟨?_, ?_, ?_, ?_, ?_, ?_, ?_, ?_, ?_, ?_, ?_, ?_, ?_, ?_, ?_, ?_, ?_, ?_⟩ <;>
    simp (decide := true) [metaField]

/-- a key that is not one of the eighteen field names has no value -/
theorem metaField_unknown (m : Meta) (k : Str) (h : k ∉ allKeysApp) : metaField m k = none := by
  simp only [allKeysApp, List.mem_append, List.mem_singleton, not_or] at h
  obtain ⟨⟨⟨⟨⟨⟨⟨⟨⟨⟨⟨⟨⟨⟨⟨⟨⟨h1, h2⟩, h3⟩, h4⟩, h5⟩, h6⟩, h7⟩, h8⟩, h9⟩, h10⟩, h11⟩, h12⟩, h13⟩, h14⟩, h15⟩, h16⟩, h17⟩, h18⟩ := h
  simp [metaField, *]

example : ([98, 98, 111, 120] : Str) ∉ allKeysApp := by decide

/-- The metadata of an exported record (JSON, JSON Lines, stream, and the source of every
`meta_` cell): under every key it is `exportedMeta` — the chunk's field value when metadata is
included and the field is asked for (`MetadataFields = nil` or lists it), nothing otherwise;
whatever `FlattenMetadata` says; the keys are distinct and no value is a nested map. -/
theorem exported_metadata_spec (cfg : Config) (c : Chunk) :
    (∀ k, ((prepareChunkForExport cfg c).metadata.bind (mapLookup · k)) = exportedMeta cfg c.md k) ∧
    (cfg.includeMetadata = false → (prepareChunkForExport cfg c).metadata = none) ∧
    (∀ md, (prepareChunkForExport cfg c).metadata = some md →
      (mapKeys md).Nodup ∧ ∀ e ∈ md, isFlat e.2) := by
  refine ⟨?_, ?_, ?_⟩
  · intro k
    unfold exportedMeta
    by_cases h : cfg.includeMetadata = true
    · simp only [prepareChunkForExport, h, if_true, Option.bind_some, lookup_filterMetadata, Bool.true_and]
    · simp [prepareChunkForExport, h]
  · intro h; simp [prepareChunkForExport, h]
  · intro md h
    by_cases hi : cfg.includeMetadata = true
    · simp only [prepareChunkForExport, hi, if_true, Option.some.injEq] at h
      rw [← h]
      exact ⟨(filterMetadata_chunk_spec cfg c.md).1, (filterMetadata_chunk_spec cfg c.md).2.1⟩
    · simp [prepareChunkForExport, hi] at h

/-- `FlattenMetadata` never changes an exported record, whatever the field list -/
theorem flatten_irrelevant (cfg : Config) (c : Chunk) (b : Bool) (k : Str) :
    exportedMeta { cfg with flattenMetadata := b } c.md k = exportedMeta cfg c.md k := rfl

/-- the metadata keys a chunk contributes to the CSV/TSV header -/
theorem chunk_keys_spec (cfg : Config) (c : Chunk) (k : Str) :
    k ∈ chunkKeys cfg c ↔ (allowedField cfg k = true ∧ (metaField c.md k).isSome = true) :=
  mem_chunkKeys_iff cfg c k

/-! ## cells -/

/-- Every cell the exporter computes is `cellSpec`: a function of the chunk's own fields and
the configuration, for every column name whatsoever; in particular it does not depend on the
`json.Marshal` parameter (no chunk metadata value is a nested map). -/
theorem cell_is_source_value (marshal : MapSV → Str) (cfg : Config) (c : Chunk) (col : Str) :
    getColumnValue marshal cfg (prepareChunkForExport cfg c) col = cellSpec cfg c col :=
  getColumnValue_eq_cellSpec marshal cfg c col

theorem marshal_irrelevant (marshal marshal' : MapSV → Str) (cfg : Config) (chunks : List Chunk) :
    exportCSVRecords marshal cfg chunks = exportCSVRecords marshal' cfg chunks ∧
    exportCSV marshal cfg chunks = exportCSV marshal' cfg chunks := by
  have h : exportCSVRecords marshal cfg chunks = exportCSVRecords marshal' cfg chunks := by
    rw [(rows_one_per_chunk_in_order marshal cfg chunks).1, (rows_one_per_chunk_in_order marshal' cfg chunks).1]
    simp only [getColumnValue_fun]
  exact ⟨h, by unfold exportCSV; rw [h]⟩

/-- what `cellSpec` says for each kind of column, for non-colliding id/text column names -/
theorem named_cells (cfg : Config) (c : Chunk) (h : namesOk cfg = true) :
    cellSpec cfg c cfg.chunkIDColumnName = c.id ∧
    (cfg.includeText = true → cellSpec cfg c cfg.textColumnName = c.text) ∧
    cellSpec cfg c kChunkIndex = decInt c.md.chunkIndex ∧
    cellSpec cfg c kDocumentTitle = c.md.documentTitle ∧
    cellSpec cfg c kPageStart = decInt c.md.pageStart ∧
    cellSpec cfg c kPageEnd = decInt c.md.pageEnd ∧
    cellSpec cfg c kSectionTitle = c.md.sectionTitle ∧
    cellSpec cfg c kHasTable = boolStr c.md.hasTable ∧
    cellSpec cfg c kHasList = boolStr c.md.hasList ∧
    cellSpec cfg c kHasImage = boolStr c.md.hasImage ∧
    cellSpec cfg c kEmbeddings = [] ∧
    ∀ k, cellSpec cfg c (kMeta ++ k) =
      match exportedMeta cfg c.md k with
      | some v => formatValue (fun _ => []) v
      | none => [] := by
  have h0 := h
  simp only [namesOk, Bool.and_eq_true, bne_iff_ne, ne_eq, Bool.not_eq_true', List.contains_eq_mem,
    decide_eq_false_iff_not, positionalColumns, List.mem_cons, not_or, List.not_mem_nil, or_false] at h
  obtain ⟨⟨⟨⟨h1, h2⟩, h3⟩, _⟩, _⟩ := h
  obtain ⟨i0, i1, i2, i3, i4, i5, i6, i7, i8⟩ := h2
  obtain ⟨t0, t1, t2, t3, t4, t5, t6, t7, t8⟩ := h3
  have ne {a b : Str} (h : ¬ a = b) : ¬ b = a := fun e => h e.symm
  refine ⟨by simp [cellSpec], ?_, ?_, ?_, ?_, ?_, ?_, ?_, ?_, ?_, ?_, ?_⟩
  · intro ht; simp [cellSpec, h1, ht]
  · simp (decide := true) [cellSpec, ne i1, ne t1]
  · simp (decide := true) [cellSpec, ne i2, ne t2]
  · simp (decide := true) [cellSpec, ne i3, ne t3]
  · simp (decide := true) [cellSpec, ne i4, ne t4]
  · simp (decide := true) [cellSpec, ne i5, ne t5]
  · simp (decide := true) [cellSpec, ne i6, ne t6]
  · simp (decide := true) [cellSpec, ne i7, ne t7]
  · simp (decide := true) [cellSpec, ne i8, ne t8]
  · simp (decide := true) [cellSpec, ne i0, ne t0]
  · intro k
    have hs := stripMeta_fixed cfg h0
    have hk : ∀ x ∈ kEmbeddings :: fixedColumns cfg, ¬ kMeta ++ k = x := by
      intro x hx e
      have := hs x hx
      rw [← e, stripMeta_meta] at this
      exact absurd this (by simp)
    have hfix : ∀ x ∈ kEmbeddings :: positionalColumns, ¬ kMeta ++ k = x := by
      intro x hx e
      have := stripMeta_positional x hx
      rw [← e, stripMeta_meta] at this
      exact absurd this (by simp)
    have e1 := hk cfg.chunkIDColumnName (by simp [fixedColumns_eq])
    have e2 : ¬ kMeta ++ k = cfg.textColumnName := by
      intro e
      simp only [namesOk, Bool.and_eq_true, Option.isNone_iff_eq_none] at h0
      have := h0.2
      rw [← e, stripMeta_meta] at this
      exact absurd this (by simp)
    unfold cellSpec
    simp only [e1, e2, if_false, hfix kChunkIndex (by simp [positionalColumns]),
      hfix kDocumentTitle (by simp [positionalColumns]), hfix kPageStart (by simp [positionalColumns]),
      hfix kPageEnd (by simp [positionalColumns]), hfix kSectionTitle (by simp [positionalColumns]),
      hfix kHasTable (by simp [positionalColumns]), hfix kHasList (by simp [positionalColumns]),
      hfix kHasImage (by simp [positionalColumns]), hfix kEmbeddings (by simp), stripMeta_meta]
    rfl

example : namesOk {} = true ∧ namesOk { chunkIDColumnName := kId, textColumnName := [98, 111, 100, 121] } = true := by
  decide

/-- why the hypothesis `namesOk`: with the id column named like a fixed column (here
`chunk_index`) the header has that name twice and both cells carry the id — the chunk index is
lost.  (A misconfiguration, excluded by the property's assumptions; not a defect.) -/
theorem names_collision_counterexample :
    namesOk { chunkIDColumnName := kChunkIndex } = false ∧
    cellSpec { chunkIDColumnName := kChunkIndex } ⟨[120], [], { chunkIndex := 7 }⟩ kChunkIndex = [120] ∧
    ¬ (collectCSVColumns { chunkIDColumnName := kChunkIndex } []).Nodup := by
  decide

/-! ## header -/

/-- no column name occurs twice in the header -/
theorem header_distinct (cfg : Config) (chunks : List Chunk) (h : namesOk cfg = true) :
    (collectCSVColumns cfg chunks).Nodup :=
  columns_nodup cfg chunks h

/-- Which `meta_<key>` columns exist, from the chunks' own fields: exactly those for which
metadata is included, the key is not one of the standard columns, and SOME chunk of the
collection has a (non-empty, asked-for) value — so a requested field is missing from the header
only if every chunk's value is empty, and no column appears that the configuration excludes. -/
theorem meta_columns_spec (cfg : Config) (chunks : List Chunk) (h : namesOk cfg = true) (k : Str) :
    kMeta ++ k ∈ collectCSVColumns cfg chunks ↔
      (cfg.includeMetadata = true ∧ isStandardColumn k = false ∧
        ∃ c ∈ chunks, (exportedMeta cfg c.md k).isSome = true) :=
  meta_column_iff cfg chunks h k

/-- a key without a column has no value in any chunk (or is a standard column): the empty cell a
reader would assume for it is right -/
theorem missing_column_means_empty (cfg : Config) (chunks : List Chunk) (h : namesOk cfg = true) (k : Str)
    (hs : isStandardColumn k = false) (hno : kMeta ++ k ∉ collectCSVColumns cfg chunks) :
    ∀ c ∈ chunks, exportedMeta cfg c.md k = none := by
  intro c hc
  rw [meta_columns_spec cfg chunks h k] at hno
  cases hv : exportedMeta cfg c.md k with
  | none => rfl
  | some v =>
    have hi : cfg.includeMetadata = true := by
      unfold exportedMeta at hv
      by_cases hi : cfg.includeMetadata = true
      · exact hi
      · simp [hi] at hv
    exact absurd ⟨hi, hs, c, hc, by simp [hv]⟩ hno

example : namesOk {} = true ∧ isStandardColumn kLevel = false ∧ kMeta ++ kLevel ∉ collectCSVColumns {} [] := by
  decide

/-! ## end to end for CSV / TSV -/

/-- END TO END (CSV and TSV, under the assumed `encoding/csv` writer): for every collection,
every configuration with a valid delimiter and whatever bytes the strings contain, the export
text is accepted by the strict RFC 4180 reader and reads back as the header (iff requested)
followed by exactly one row per chunk, in collection order; row `i` is, column by column, the
`cellSpec` of chunk `i` — i.e. a function of that chunk's own id, text and metadata fields. -/
theorem csv_end_to_end (marshal : MapSV → Str) (cfg : Config) (chunks : List Chunk)
    (hd : validDelim (delimiter cfg)) :
    ∃ text rows, exportCSV marshal cfg chunks = some text ∧
      csvRead (delimiter cfg) text =
        some ((if cfg.includeHeader then [collectCSVColumns cfg chunks] else []) ++ rows) ∧
      rows.length = chunks.length ∧
      ∀ i (hi : i < chunks.length),
        rows[i]? = some ((collectCSVColumns cfg chunks).map (cellSpec cfg chunks[i])) := by
  obtain ⟨text, h1, h2⟩ := export_csv_parses_back marshal cfg chunks hd
  refine ⟨text, chunks.map (fun c => (collectCSVColumns cfg chunks).map (cellSpec cfg c)), h1, ?_, by simp, ?_⟩
  · rw [h2]
    simp only [getColumnValue_fun]
  · intro i hi
    simp [List.getElem?_map, List.getElem?_eq_getElem hi]

/-- cell `(i, j)` of the parsed export is the value of column `j` for chunk `i` -/
theorem csv_cell_end_to_end (marshal : MapSV → Str) (cfg : Config) (chunks : List Chunk)
    (hd : validDelim (delimiter cfg)) (i j : Nat) (hi : i < chunks.length)
    (hj : j < (collectCSVColumns cfg chunks).length) :
    ∃ text recs, exportCSV marshal cfg chunks = some text ∧ csvRead (delimiter cfg) text = some recs ∧
      (recs[(if cfg.includeHeader then 1 else 0) + i]?.bind (·[j]?)) =
        some (cellSpec cfg chunks[i] (collectCSVColumns cfg chunks)[j]) := by
  obtain ⟨text, rows, h1, h2, h3, h4⟩ := csv_end_to_end marshal cfg chunks hd
  refine ⟨text, _, h1, h2, ?_⟩
  have hr := h4 i hi
  by_cases hh : cfg.includeHeader = true
  · simp only [hh, if_true, List.singleton_append]
    rw [Nat.add_comm, List.getElem?_cons_succ, hr]
    simp [List.getElem?_map, List.getElem?_eq_getElem hj]
  · simp only [hh, Bool.false_eq_true, if_false, List.nil_append, Nat.zero_add]
    rw [hr]
    simp [List.getElem?_map, List.getElem?_eq_getElem hj]

example : validDelim (delimiter csvExportConfig) ∧ validDelim (delimiter tsvExportConfig) := by decide

/-! ## typed values read back from their cells -/

/-- the reader a consumer applies to a cell whose column holds values of the type of `v` -/
def readBack : Val → Str → Option Val
  | .str _, s => some (.str s)
  | .int _, s => some (.int (readIntCell s))
  | .bool _, s => (readBoolCell s).map Val.bool
  | .strs _, s => (readListCell s).map Val.strs
  | .obj _, _ => none

/-
FULL STATEMENT (what "same metadata values" needs for CSV/TSV):
    ∀ m k v, metaField m k = some v → readBack v (formatValue marshal v) = some v
FALSE for the code as it exists when `v` is a list with an element containing a comma
(`C14.list_cell_counterexample`, finding C14/csv-field-meta-list); `list_cell_roundtrip_iff`
below shows that this is the ONLY failure.
-/

/-- PARTIAL: every metadata value of a chunk reads back from its cell, except lists with an
element that contains a comma. -/
theorem meta_value_reads_back_partial (marshal : MapSV → Str) (m : Meta) (k : Str) (v : Val)
    (hv : metaField m k = some v) (hl : ∀ l, v = .strs l → ∀ s ∈ l, 44 ∉ s) :
    readBack v (formatValue marshal v) = some v := by
  cases v with
  | str s => rfl
  | int i => simp [readBack, (int_cell_roundtrip marshal i).1]
  | bool b => simp [readBack, (bool_cell_roundtrip marshal b).1]
  | strs l =>
    have hne : l ≠ [] := metaField_strs_ne_nil m k l hv
    simp [readBack, list_cell_roundtrip_partial marshal l hne (hl l rfl)]
  | obj kvs => exact absurd (metaField_flat m k _ hv) (by simp [isFlat])

example : metaField { sectionPath := [[97, 32, 98], [99]] } kSectionPath = some (.strs [[97, 32, 98], [99]]) ∧
    ∀ l, Val.strs [[97, 32, 98], [99]] = .strs l → ∀ s ∈ l, 44 ∉ s := by
  refine ⟨by simp (decide := true) [metaField], ?_⟩
  intro l h
  injection h with h
  subst h
  decide

/-- EXACT characterisation of the finding: a list cell reads back to the chunk's list if and
only if the list is non-empty and no element contains a comma. -/
theorem list_cell_roundtrip_iff (marshal : MapSV → Str) (l : List Str) :
    readListCell (formatValue marshal (.strs l)) = some l ↔ (l ≠ [] ∧ ∀ s ∈ l, 44 ∉ s) := by
  constructor
  · intro h
    simp only [formatValue, readListCell, List.getLast?_append, List.getLast?_singleton,
      Option.some_or, if_true, List.dropLast_concat, Option.some.injEq] at h
    have hlen := congrArg List.length h
    rw [splitAcc_length] at hlen
    have hne : l ≠ [] := by
      intro e
      subst e
      simp [joinComma] at hlen
    refine ⟨hne, commas_zero ?_⟩
    have := joinComma_count l hne
    omega
  · intro ⟨hne, h⟩
    exact list_cell_roundtrip_partial marshal l hne h

/-- list-valued metadata of a chunk is never empty (empty lists are not exported) -/
theorem exported_lists_nonempty (m : Meta) (k : Str) (l : List Str) (h : metaField m k = some (.strs l)) :
    l ≠ [] :=
  metaField_strs_ne_nil m k l h

end Tabula.C14Meta
