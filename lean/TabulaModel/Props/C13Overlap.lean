import TabulaModel.Lemmas.OverlapFull
import TabulaModel.Props.C13
/-!
# C13, deepening round, part 2 — overlap, every strategy, end to end

Full-strength versions of `C13.overlap_suffix_partial` / `C13.overlap_utf8_partial` (which
covered the character strategy only) and the composition through `ApplyOverlapToChunks` and
the overlap configuration of `ChunkWithOverlapEnabled`.  Model: `Model/Overlap.lean`; lemmas:
`Lemmas/OverlapFull.lean`, `Lemmas/Codec.lean`, `Lemmas/Conserve.lean`.

`stripWs s` is the sequence of non-whitespace characters of `s` (`Model/Split.lean`, tied to
`unicode.IsSpace` by op `c13.nonspace`).  The Unicode class tables (`cl`) stay a universally
quantified parameter: the theorems hold for every table, hence for Go's.
-/
set_option linter.unusedVariables false
namespace Tabula.C13Overlap
open Tabula.Split Tabula.Overlap

/-- **overlap_utf8.** Every strategy, every size, every `MinOverlap`/`MaxOverlap`: the overlap
generated from a valid UTF-8 chunk is valid UTF-8 (including the sentence branch and the
character fallback of `truncateOverlap`). -/
theorem overlap_utf8 (cl : Classes) (c : OverlapConfig) (text : Str) (hv : validUtf8 text = true) :
    validUtf8 (generateOverlap cl c text) = true :=
  (generateOverlap_spec cl c text hv).1

/-- **overlap_suffix.** Every strategy: the non-whitespace characters of the overlap are a
suffix of the non-whitespace characters of the chunk it is generated from. -/
theorem overlap_suffix (cl : Classes) (c : OverlapConfig) (text : Str) (hv : validUtf8 text = true) :
    ∃ x, stripWs text = x ++ stripWs (generateOverlap cl c text) :=
  (generateOverlap_spec cl c text hv).2

/-- non-vacuity, sentence strategy: the last sentence of "First one. Second one." -/
example :
    let c : OverlapConfig := { strategy := 2, size := 1, minOverlap := 0, maxOverlap := 100, preserveWords := true, includeHeadingContext := false }
    let text : Str := "First one. Second one.".toList.map Char.toNat
    validUtf8 text = true ∧ generateOverlap [] c text = "Second one.".toList.map Char.toNat := by
  decide +kernel

/-- non-vacuity, paragraph strategy with truncation to the last sentence that fits -/
example :
    let c : OverlapConfig := { strategy := 3, size := 1, minOverlap := 0, maxOverlap := 12, preserveWords := true, includeHeadingContext := false }
    let text : Str := "Intro.\n\nAlpha beta. Gamma delta.".toList.map Char.toNat
    generateOverlap [] c text = "Gamma delta.".toList.map Char.toNat := by
  decide +kernel

/-- the sentences `splitIntoSentencesWithPositions` returns are valid UTF-8 and carry exactly
the non-whitespace characters of a valid text, in order, whatever the class tables say -/
theorem overlap_sentences_conserve (cl : Classes) (text : Str) (hv : validUtf8 text = true) :
    (splitIntoSentences cl text).flatMap stripWs = stripWs text
      ∧ ∀ t ∈ splitIntoSentences cl text, validUtf8 t = true ∧ t ≠ [] :=
  ⟨splitIntoSentences_content cl text hv, fun t ht =>
    ⟨(splitIntoSentences_pieces cl text).2 t ht, splitIntoSentences_ne_nil cl text t ht⟩⟩

/-- the same for `splitIntoParagraphs` -/
theorem overlap_paragraphs_conserve (text : Str) (hv : validUtf8 text = true) :
    (splitIntoParagraphs text).flatMap stripWs = stripWs text
      ∧ ∀ p ∈ splitIntoParagraphs text, validUtf8 p = true :=
  ⟨(splitIntoParagraphs_spec text hv).2, (splitIntoParagraphs_spec text hv).1⟩

/-! ## through `ApplyOverlapToChunks` -/

/-- **apply_overlap_property.** The overlap clause of C13 through `ApplyOverlapToChunks`, for
every strategy and configuration and every list of valid UTF-8 chunks: chunk `i+1` comes out
as `[title]` (optional) + overlap + blank line + its own content (own content unchanged when
there is no overlap); the overlap is computed from the ORIGINAL text of chunk `i`, is valid
UTF-8, has at most `MaxOverlap` bytes, and its non-whitespace characters are a suffix of those
of chunk `i`'s own content.  The first chunk is returned unchanged. -/
theorem apply_overlap_property (cl : Classes) (c : OverlapConfig) (items : List (Str × Str))
    (hv : ∀ it ∈ items, validUtf8 it.1 = true) :
    (applyOverlapAux cl c none items).length = items.length
    ∧ (∀ it, items[0]? = some it →
        (applyOverlapAux cl c none items)[0]? = some { has := false, pref := [], text := it.1 })
    ∧ ∀ i prev own, items[i]? = some prev → items[i + 1]? = some own →
        ∃ o, (applyOverlapAux cl c none items)[i + 1]? = some o
          ∧ o.pref = (if c.strategy ≠ 0 then generateOverlap cl c prev.1 else [])
          ∧ o.has = (o.pref != [])
          ∧ o.text = (if o.pref = [] then own.1
                      else (if c.includeHeadingContext ∧ own.2 ≠ [] then [91] ++ own.2 ++ [93, 10, 10] else [])
                            ++ o.pref ++ [10, 10] ++ own.1)
          ∧ validUtf8 o.pref = true
          ∧ o.pref.length ≤ c.maxOverlap
          ∧ ∃ x, stripWs prev.1 = x ++ stripWs o.pref := by
  refine ⟨?_, ?_, ?_⟩
  · generalize (none : Option Str) = p
    induction items generalizing p with
    | nil => rfl
    | cons it rest ih =>
      obtain ⟨t, ti⟩ := it
      unfold applyOverlapAux
      simp only [List.length_cons]
      rw [ih (fun x hx => hv x (List.mem_cons_of_mem _ hx))]
  · intro it h0
    rw [applyOverlapAux_get, h0]
    simp [prevText, overlapFrom, outOf]
  · intro i prev own hp ho
    have hpv : validUtf8 prev.1 = true := hv prev (List.mem_of_getElem? hp)
    rw [applyOverlapAux_get, ho]
    simp only [Option.map_some, prevText, hp, overlapFrom]
    refine ⟨_, rfl, ?_⟩
    generalize hov : (if c.strategy ≠ 0 then generateOverlap cl c prev.1 else []) = ov
    have hspec : validUtf8 ov = true ∧ ov.length ≤ c.maxOverlap ∧ ∃ x, stripWs prev.1 = x ++ stripWs ov := by
      rw [← hov]
      split
      · exact ⟨overlap_utf8 cl c _ hpv, generateOverlap_length_le cl c _, overlap_suffix cl c _ hpv⟩
      · exact ⟨validUtf8_nil, Nat.zero_le _, stripWs prev.1, by simp [stripWs_nil]⟩
    unfold outOf
    by_cases he : ov = []
    · subst he
      rw [if_pos rfl]
      exact ⟨rfl, by simp, by simp, hspec⟩
    · rw [if_neg he]
      refine ⟨rfl, by simp [he], ?_, hspec⟩
      simp only [if_neg he, applyOverlap]

/-- own content is never lost: every output text ends with the chunk's own text -/
theorem apply_overlap_keeps_own (cl : Classes) (c : OverlapConfig) (items : List (Str × Str))
    (i : Nat) (own : Str × Str) (ho : items[i]? = some own) :
    ∃ o pre, (applyOverlapAux cl c none items)[i]? = some o ∧ o.text = pre ++ own.1 := by
  rw [applyOverlapAux_get, ho]
  simp only [Option.map_some]
  generalize overlapFrom cl c (prevText none items i) = ov
  by_cases h : ov = []
  · exact ⟨_, [], rfl, by simp [outOf, h]⟩
  · refine ⟨_, (if c.includeHeadingContext ∧ own.2 ≠ [] then [91] ++ own.2 ++ [93, 10, 10] else [])
        ++ ov ++ [10, 10], rfl, ?_⟩
    simp only [outOf, if_neg h, applyOverlap]

/-! ## the overlap configuration of `ChunkWithOverlapEnabled` -/

/-- **cwo_overlap_bounds.** With the configuration `ChunkWithOverlapEnabled` derives from
`ChunkerConfig` (`OverlapSize`, `OverlapSentences`): every overlap has at most `3·OverlapSize`
bytes; with character overlap (`OverlapSentences = false`) at most `OverlapSize` bytes; with
`OverlapSize = 0` there is no overlap at all. -/
theorem cwo_overlap_bounds (cl : Classes) (overlapSize : Nat) (sentences ctx : Bool) (text : Str) :
    (generateOverlap cl (chunkerOverlapConfig overlapSize sentences ctx) text).length ≤ 3 * overlapSize
    ∧ (sentences = false →
        (generateOverlap cl (chunkerOverlapConfig overlapSize sentences ctx) text).length ≤ overlapSize)
    ∧ (overlapSize = 0 → generateOverlap cl (chunkerOverlapConfig overlapSize sentences ctx) text = []) := by
  have hb := Tabula.C13.overlap_bounds cl (chunkerOverlapConfig overlapSize sentences ctx) text
  refine ⟨?_, ?_, ?_⟩
  · have := hb.1
    simp only [chunkerOverlapConfig] at this ⊢
    omega
  · intro hs
    subst hs
    by_cases h0 : overlapSize = 0
    · subst h0
      simp [generateOverlap, chunkerOverlapConfig]
    · have := hb.2 (by simp [chunkerOverlapConfig, h0]) (by simp [chunkerOverlapConfig]; omega)
      simpa [chunkerOverlapConfig] using this
  · intro h0
    subst h0
    simp [generateOverlap, chunkerOverlapConfig]

example : (chunkerOverlapConfig 30 true false).strategy = 2 ∧ (chunkerOverlapConfig 30 true false).size = 2
    ∧ (chunkerOverlapConfig 30 true false).maxOverlap = 90 := by decide

end Tabula.C13Overlap
