import TabulaModel.Model.ReadBytes
import TabulaModel.Lemmas.ReaderFuel
import TabulaModel.Props.C01Reader
import TabulaModel.Props.C04Nest
/-!
# C01 on the BYTES: the page pipeline composed end to end, for every physical layout

`ReadBytes.readBytes file ext` is the reader from the bytes of the file to the texts of the
pages: `reader.Open` (header, `startxref`, classic table or cross-reference stream, `/Prev`
chain, merge — C04's byte-level model), the trailer's `/Root`, `GetObject` on the bytes (`N G
obj` framing, `/Length`-driven stream read with indirect `/Length`, object streams, at most 16
nested loads — C04's byte-level model) and, above it, `Reader.readWith` (page tree with
inherited `/Resources`, `/Contents` arrays joined, fonts registered per page, content executed,
strings decoded in show order). The op `c01.readbytes` compares it with tabula on whole files.

The theorems, for ALL byte strings:

* `read_bytes_never_fuel`, `read_bytes_needs_header`, `read_bytes_needs_root` — the model's fuel is
  never the answer; no header / no `/Root` reference is an error.
* `read_bytes_depends_on_objects` — the pages depend on the bytes only through what `GetObject`
  answers for each object number and through the root: two byte strings that agree there
  read alike, whatever their tables' sizes (the walk's fuel differs; `readWith_two_bounds`).
* `stored_object_read` — an object written anywhere in the file in ANY legal spelling and EOL
  style, as an in-use object (direct or indirect `/Length`, up to 16 loads inside each other)
  or as a member of an object stream (any filter chain that decodes), and named by the newest
  cross-reference entry, is what the layers above see (C04 `loads_within`).
* `opened_by_revisions` — the table and trailer `reader.Open` keeps for a file whose revisions
  are classic tables or cross-reference streams in any mixture, chained by `/Prev`
  (C04 `history_reconstructed`, `SectionAt.parse`).
* **`read_bytes_layout`** — physical-layout independence as ONE statement over the reader model
  on bytes: if a byte string is a layout of the object store `S` with root `r` (`IsLayout`:
  every object number `S` defines is stored in one of the ways above, every other number has
  no live entry), then `readBytes` of it is `readWith` of `S` — an expression in which the
  bytes do not occur. `read_bytes_layout_independent`: two layouts of one store read alike.
* `read_bytes_refines_abstract` — a layout of the object store of an abstract file `f` reads as
  `Reader.readPages f`: every theorem of Props/C01Reader.lean about `readPages` (revisions,
  object streams, filters, tree shape, content split, renumbering, bounds, fonts) now speaks
  about bytes.
* **`read_bytes_document`** — the property's statement on bytes for the base document class: ANY
  byte string that is a layout of the objects of `renderBase d sp` (the logical document `d`)
  is read as exactly the lines of `d`, page by page in show order, decoded through the font.

What `IsLayout` does not cover: numbers that exist in one layout only (the object number of a
cross-reference stream or of an object-stream container differs between layouts; `S` must say
what they are). Removing that needs "the reader asks only for numbers reachable from the
root", which is not proved.
-/
namespace Tabula.C01B
open Tabula.Reader Tabula.XrefFile Tabula.ReadBytes
open Tabula.C04B (RevChain SectionAt)
open Tabula.C04N (Loads)

/-! ## 1. basic facts about `readBytes` -/

theorem resB_noFuel (ext : Ext) (file : List Nat) (x : RawSection) : NoFuel (resB ext file x) := by
  intro n h
  unfold resB at h
  split at h <;> cases h

theorem le_maxKeyI (x : RawSection) (n : Nat) (h : getLastI x (n : Int) ≠ none) : n ≤ maxKeyI x := by
  induction x with
  | nil => exact absurd rfl h
  | cons kv x ih =>
    obtain ⟨k, e⟩ := kv
    simp only [getLastI] at h
    simp only [maxKeyI]
    cases hr : getLastI x (n : Int) with
    | some w =>
      have := ih (by rw [hr]; simp)
      omega
    | none =>
      rw [hr] at h
      simp only at h
      by_cases hk : k = (n : Int)
      · subst hk
        rw [Int.toNat_natCast]
        exact Nat.le_max_left _ _
      · simp [hk] at h

theorem resB_ok_le (ext : Ext) (file : List Nat) (x : RawSection) (n : Nat) (v : SVal)
    (h : resB ext file x n = .ok v) : n ≤ maxKeyI x := by
  apply le_maxKeyI
  intro hnone
  unfold resB at h
  have : getObjectB ext file x (maxNestedLoads + 1) [] (n : Int) = none := by
    simp [getObjectB, hnone]
  rw [this] at h
  cases h

/-- the model's fuel is never the reason for an answer, on any byte string -/
theorem read_bytes_never_fuel (file : List Nat) (ext : Ext) : readBytes file ext ≠ .error .fuel := by
  intro h
  unfold readBytes at h
  cases hx : openFile ext file with
  | error e => rw [hx] at h; cases h
  | ok x =>
    rw [hx] at h
    simp only at h
    cases ht : trailerOf ext file with
    | none => rw [ht] at h; cases h
    | some tr =>
      rw [ht] at h
      exact readWith_enough (resB ext file x) ext (maxKeyI x) (resB_ok_le ext file x) (resB_noFuel ext file x)
        (fuelB x) (by unfold fuelB; omega) _ h

/-- `parseHeader`: a file that does not begin with `%PDF-d.d` is refused -/
theorem read_bytes_needs_header (file : List Nat) (ext : Ext) (h : headerOk file = false) :
    readBytes file ext = .error .err := by
  simp [readBytes, openFile, h]

theorem pageTree_none (res : Res) (fuel : Nat) : pageTree res fuel none = .error .err := rfl

/-- `GetCatalog`: a trailer whose `/Root` is not an indirect reference is refused -/
theorem read_bytes_needs_root (file : List Nat) (ext : Ext) (x : RawSection) (tr : Dict)
    (hx : openFile ext file = .ok x) (ht : trailerOf ext file = some tr) (hr : rootB tr = none) :
    readBytes file ext = .error .err := by
  simp [readBytes, hx, ht, hr, readWith, pageTree_none]

example (ext : Ext) : readBytes [] ext = .error .err := read_bytes_needs_header [] ext rfl

/-! ## 2. the pages depend on the bytes through `GetObject` and the root only -/

/-- **read_bytes_depends_on_objects**: two byte strings that `reader.Open` accepts, whose
`GetObject` answers agree for every object number and whose trailers name the same root, give
the same pages — no matter how the bytes achieve that, and no matter how many entries the two
tables have (the bound of the page-tree walk differs; both are enough). -/
theorem read_bytes_depends_on_objects (file file' : List Nat) (ext : Ext) (x x' : RawSection) (tr tr' : Dict)
    (hx : openFile ext file = .ok x) (hx' : openFile ext file' = .ok x')
    (ht : trailerOf ext file = some tr) (ht' : trailerOf ext file' = some tr')
    (hobj : ∀ n, resB ext file x n = resB ext file' x' n) (hroot : rootB tr = rootB tr') :
    readBytes file ext = readBytes file' ext := by
  have he : resB ext file x = resB ext file' x' := funext hobj
  simp only [readBytes, hx, hx', ht, ht', hroot]
  rw [he]
  exact readWith_two_bounds (resB ext file' x') ext (maxKeyI x) (maxKeyI x')
    (by rw [← he]; exact resB_ok_le ext file x) (resB_ok_le ext file' x') (resB_noFuel ext file' x')
    (fuelB x) (fuelB x') (by unfold fuelB; omega) (by unfold fuelB; omega) _

example (file : List Nat) (ext : Ext) (x : RawSection) (tr : Dict)
    (hx : openFile ext file = .ok x) (ht : trailerOf ext file = some tr) :
    readBytes file ext = readBytes file ext :=
  read_bytes_depends_on_objects file file ext x x tr tr hx hx ht ht (fun _ => rfl) rfl

/-! ## 3. how an object is stored, and what `reader.Open` keeps -/

/-- **stored_object_read**: by the table `x` and the bytes, object `n` is written as `v`
(`C04N.Loads`: in use at its offset in any legal spelling / EOL style with a direct `/Length`;
a stream whose `/Length` is held by another object, recursively; a member of an object stream
behind any filter chain; a member of an object stream whose own `/Length` is indirect) through
at most 16 distinct objects loaded inside each other. Then the layers above the object layer
see exactly `v` (a stream: the result of its `Decode()`). -/
theorem stored_object_read (ext : Ext) (file : List Nat) (x : RawSection) (n : Nat) (v : PVal) (path : List Int)
    (h : Loads ext file x (n : Int) v path) (hnd : path.Nodup) (hd : path.length ≤ 16) :
    resB ext file x n = .ok (toSVal ext v) := by
  unfold resB
  rw [C04N.loads_within ext file x (n : Int) v path h [] (maxNestedLoads + 1) hnd (by simp)
    (by simp [maxNestedLoads]; omega) (by simp [maxNestedLoads]; omega)]

/-- a number without entry, or with a free entry, is an error — whatever the bytes hold -/
theorem missing_object_error (ext : Ext) (file : List Nat) (x : RawSection) (n : Nat)
    (h : getLastI x (n : Int) = none ∨ ∃ e, getLastI x (n : Int) = some e ∧ e.kind = .free) :
    resB ext file x n = .error .err := by
  unfold resB
  rw [C04B.lookup_missing_or_free_is_error ext file x (maxNestedLoads + 1) [] (n : Int) h]

/-- **opened_by_revisions**: a byte string that begins with a header, ends in `startxref`
*start*, and in which from *start* cross-reference sections of EITHER kind (classic tables with
any subsections, EOL and entry terminators; cross-reference streams with any `/W`, `/Index`
and filter chain) stand chained by `/Prev` at distinct offsets, is opened with a table that
gives every number the entry of the newest revision mentioning it, and with the trailer of the
section at *start*. -/
theorem opened_by_revisions (ext : Ext) (file : List Nat) (start : Int) (revs : List (Int × RawSection))
    (sec0 : RawSection) (tr : Dict)
    (hh : headerOk file = true) (hfind : findXRef file = .ok start) (hc : RevChain ext file start revs)
    (hnd : (revs.map Prod.fst).Nodup) (h0 : SectionAt ext file start sec0 tr) :
    ∃ x, openFile ext file = .ok x ∧ trailerOf ext file = some tr ∧
      ∀ n, getLastI x n = newestI (revs.map Prod.snd).reverse n := by
  obtain ⟨x, hx, _⟩ := C04B.history_reconstructed ext file start revs hfind hc hnd 0
  have hopen : openFile ext file = .ok x := by
    unfold openFile
    rw [if_pos hh]
    exact hx
  have htr : trailerOf ext file = some tr := by
    unfold trailerOf
    rw [hfind]
    show (match parseXRef ext file start with | .ok (_, tr) => some tr | .error _ => none) = some tr
    rw [h0.parse]
  refine ⟨x, hopen, htr, ?_⟩
  intro n
  obtain ⟨x', hx', hn⟩ := C04B.history_reconstructed ext file start revs hfind hc hnd n
  rw [hx] at hx'
  cases hx'
  exact hn

/-! ## 4. physical-layout independence -/

/-- a logical object store: object number ↦ the object (`none`: no such object) -/
abbrev Store := Nat → Option PVal

/-- what the layers above the object layer see of a store -/
def storeRes (ext : Ext) (S : Store) : Res := fun n =>
  match S n with
  | some v => .ok (toSVal ext v)
  | none => .error .err

/-- the byte string `file` is a physical layout of the store `S` with root `r`:
`reader.Open` accepts it (by `opened_by_revisions`: any header version, any chain of classic /
stream sections), its trailer's `/Root` is a reference to `r`, every object `S` defines is
stored as `S` says in one of the ways of `stored_object_read`, and every other number has no
live entry. Everything else is free: order and offsets of the objects, white space, comments
and EOL style between and inside them, stale objects and superseded sections, which objects
are packed into which object streams under which filters, where the `/Length`s are. -/
structure IsLayout (ext : Ext) (file : List Nat) (S : Store) (r : Nat) : Prop where
  opened : ∃ x tr g, openFile ext file = .ok x ∧ trailerOf ext file = some tr ∧
    dget tr kRoot = some (.ref (r : Int) g) ∧
    (∀ n v, S n = some v → ∃ path, Loads ext file x (n : Int) v path ∧ path.Nodup ∧ path.length ≤ 16) ∧
    (∀ n, S n = none → getLastI x (n : Int) = none ∨ ∃ e, getLastI x (n : Int) = some e ∧ e.kind = .free)

theorem rootB_ref (tr : Dict) (r : Nat) (g : Int) (h : dget tr kRoot = some (.ref (r : Int) g)) :
    rootB tr = some r := by
  have : ¬ ((r : Int) < 0) := by omega
  simp [rootB, h, this]

/-- **read_bytes_layout** (physical-layout independence, the reader on bytes against the
store): for every byte string that is a layout of `S` with root `r`, and every bound `K` on
the numbers `S` defines, the pages read from the bytes are the pages of the store — the right
side does not mention the bytes. -/
theorem read_bytes_layout (ext : Ext) (file : List Nat) (S : Store) (r K : Nat)
    (hl : IsLayout ext file S r) (hK : ∀ n v, S n = some v → n ≤ K) :
    readBytes file ext = readWith (storeRes ext S) ext (2 * (K + 1) + 2) (some r) := by
  obtain ⟨x, tr, g, hx, ht, hroot, hdef, hundef⟩ := hl.opened
  have he : resB ext file x = storeRes ext S := by
    funext n
    unfold storeRes
    cases hs : S n with
    | some v =>
      obtain ⟨path, hp, hnd, hd⟩ := hdef n v hs
      exact stored_object_read ext file x n v path hp hnd hd
    | none => exact missing_object_error ext file x n (hundef n hs)
  simp only [readBytes, hx, ht, rootB_ref tr r g hroot]
  rw [he]
  have hKs : ∀ n v, storeRes ext S n = .ok v → n ≤ K := by
    intro n v h
    unfold storeRes at h
    cases hs : S n with
    | some w => exact hK n w hs
    | none => rw [hs] at h; cases h
  exact readWith_two_bounds (storeRes ext S) ext (maxKeyI x) K
    (by rw [← he]; exact resB_ok_le ext file x) hKs (by rw [← he]; exact resB_noFuel ext file x)
    (fuelB x) _ (by unfold fuelB; omega) (Nat.le_refl _) _

/-- **read_bytes_layout_independent**: two byte strings that are layouts of the same store
with the same root — under any two writer policies — give the same pages. -/
theorem read_bytes_layout_independent (ext : Ext) (file file' : List Nat) (S : Store) (r K : Nat)
    (hl : IsLayout ext file S r) (hl' : IsLayout ext file' S r) (hK : ∀ n v, S n = some v → n ≤ K) :
    readBytes file ext = readBytes file' ext := by
  rw [read_bytes_layout ext file S r K hl hK, read_bytes_layout ext file' S r K hl' hK]

/-- satisfiability of the storage clauses: the empty store is laid out by any table without
live entries -/
example (ext : Ext) (file : List Nat) :
    (∀ n v, (fun _ => none : Store) n = some v →
      ∃ path, Loads ext file [] (n : Int) v path ∧ path.Nodup ∧ path.length ≤ 16) ∧
    (∀ n : Nat, (fun _ => none : Store) n = none →
      getLastI ([] : RawSection) (n : Int) = none ∨ ∃ e, getLastI ([] : RawSection) (n : Int) = some e ∧ e.kind = .free) := by
  constructor
  · intro n v h; simp at h
  · intro n _; exact Or.inl rfl

/-! ## 5. from the bytes to the abstract file and to the logical document -/

/-- **read_bytes_refines_abstract**: a byte string that is a layout of the objects of the
abstract file `f` (as `Reader.getObject f` presents them), with the root `f`'s newest trailer
names, is read as `Reader.readPages f`. -/
theorem read_bytes_refines_abstract (ext : Ext) (file : List Nat) (f : AbsFile) (S : Store) (r : Nat)
    (hl : IsLayout ext file S r) (hS : ∀ n, storeRes ext S n = getObject f ext n)
    (hroot : rootOf f = some r) (hd : prevDangling f = false) :
    readBytes file ext = readPages f ext := by
  have he : storeRes ext S = getObject f ext := funext hS
  have hK : ∀ n v, S n = some v → n ≤ maxKey (xref f) := by
    intro n v hs
    apply getObject_ok_le f ext n (toSVal ext v)
    rw [← hS n]
    simp [storeRes, hs]
  rw [read_bytes_layout ext file S r (maxKey (xref f)) hl hK]
  simp only [readPages, hd, hroot, Bool.false_eq_true, if_false]
  rw [he]
  exact readWith_two_bounds (getObject f ext) ext (maxKey (xref f)) (maxKey (xref f))
    (getObject_ok_le f ext) (getObject_ok_le f ext) (getObject_noFuel f ext) _ (fuelOf f)
    (Nat.le_refl _) (by unfold fuelOf; omega) _

/-- **read_bytes_document** (the property's statement on bytes, base document class): let `d`
be any logical document (pages × lines) and `sp` any legal spelling of its objects and content
programs, each page's program within 64 MiB. EVERY byte string that is a physical layout of
the objects of `renderBase d sp` — any EOL style, classic or stream cross-reference, any number
of revisions, objects in use or packed in object streams under any filter chain, direct or
indirect `/Length` — is read as exactly the lines of `d`: page by page, in show order, each
line decoded through the page's font (WinAnsiEncoding, NFC last). -/
theorem read_bytes_document (d : LDoc) (sp : Spelling) (hok : sp.Ok d) (ext : Ext)
    (hsize : ∀ i, i < d.length → (C01R.progBytes sp i).length ≤ PdfDoc.maxPageContentBytes)
    (file : List Nat) (S : Store) (r : Nat)
    (hl : IsLayout ext file S r)
    (hS : ∀ n, storeRes ext S n = getObject (renderBase d sp) ext n)
    (hroot : rootOf (renderBase d sp) = some r) (hd : prevDangling (renderBase d sp) = false) :
    readBytes file ext = .ok (d.map fun lines => lines.map (shown ext)) := by
  rw [read_bytes_refines_abstract ext file (renderBase d sp) S r hl hS hroot hd]
  exact C01R.read_render_partial d sp hok ext hsize

end Tabula.C01B
