import TabulaModel.Props.C07Fonts
import TabulaModel.Lemmas.CMapArrange
import TabulaModel.Lemmas.CMapArrangeSet
import TabulaModel.Lemmas.CMapArrangeState
/-! # C07 — a ToUnicode CMap on EVERY byte string, and independence of the arrangement of its entries

`C07CMap.cmap_roundtrip_program` speaks about strings of codes the program defines, for programs
in which no code is defined twice. This file closes what was left to the correspondence run
(`layout-*` oracles of harness/c07/layouts.go):

1. TOTAL: `lookup_total` / `lookupString_total` — for every formatting policy, width 1–4 and
   EVERY list of well-formed sections (codes may be defined several times, in any forms), the
   parsed whole program decodes EVERY code and EVERY byte string as the specification
   `CMapArrange.specText` / `specDecode` says (`Lemmas/CMapArrangeDefs.lean`): whole codes of
   the code-space width, most significant byte first; the LAST direct definition (bfchar entry /
   array element; arrays after bfchar entries) before the FIRST offset range containing the code;
   a code nobody defines is the character of that number (nothing beyond U+10FFFF, U+FFFD for a
   surrogate number); a remainder shorter than a code byte by byte. Tied to tabula by ops
   `c07.rprog` (program text of any arrangement), `c07.spec`, `c07.spectext`.
2. ARRANGEMENT, programs: `arrangement_free` (same specified text for every code ⇒ same result on
   every byte string, whatever the policies and arrangements), `spec_of_entry` /
   `spec_of_undefined` (when no code gets two different texts the specified text is the entry's
   text wherever and in whatever form it is written) and `arrangement_free_entries`: two programs
   with the same SET of entries — any permutation of the entries, any cut of the runs into bfchar
   entries / offset-target ranges / array-target ranges, any split into sections, any order of
   sections, any formatting — decode every byte string alike.
3. ARRANGEMENT, every CMap value (well-formed program or not): `state_perm` (permuting the
   direct map's entries and pairwise disjoint ranges changes no `LookupString` result, on the
   fixed-width path and on the width-less fallback path), `state_congr`, `range_split`
   (a range cut in two is the same range), `range_as_chars` (an offset range written out as
   direct entries is the same map).
4. COMPOSITION: `font_tounicode_total` / `font_arrangement_free` (through `Font.DecodeString`:
   ToUnicode first, NFC last, whatever encoding, differences or byte-order mark) and
   `page_tounicode_total` (page resources + any content-stream history + `/N sz Tf <any bytes> Tj`).
-/
namespace Tabula.C07Arrange
open Tabula.UTF16 Tabula.CMap Tabula.FontDecode
open Tabula.CMapCompose (allItems directEntries offsetRuns offsetEntries Functional)
open Tabula.CMapArrange (specText specEmit specDecode beVal allEntries RangesDisjoint)

/-! ## 1. the parsed program on every code and every byte string -/

/-- **lookup_total**: `Lookup` of the parsed whole program, for EVERY code -/
theorem lookup_total (p : Policy) (w : Nat) (hw1 : 1 ≤ w) (hw4 : w ≤ 4) (secs : List Section)
    (hs : ∀ s ∈ secs, SectionOK w s) (c : Nat) :
    lookup (parseCMapData (renderProgram p w secs)) c = specText secs c :=
  CMapArrange.lookup_total p w hw1 hw4 secs hs c

/-- **lookupString_total**: `LookupString` of the parsed whole program, for EVERY byte string -/
theorem lookupString_total (p : Policy) (w : Nat) (hw1 : 1 ≤ w) (hw4 : w ≤ 4) (secs : List Section)
    (hs : ∀ s ∈ secs, SectionOK w s) (data : List Nat) (hb : AllBytes data) :
    lookupString (parseCMapData (renderProgram p w secs)) data = specDecode secs w (data.length + 1) data :=
  CMapArrange.lookupString_total p w hw1 hw4 secs hs data hb

/-- what `specDecode` says in closed form: whole codes, then a remainder shorter than a code -/
theorem decode_codes_then_remainder (p : Policy) (w : Nat) (hw1 : 1 ≤ w) (hw4 : w ≤ 4) (secs : List Section)
    (hs : ∀ s ∈ secs, SectionOK w s) (codes : List Nat) (hc : ∀ c ∈ codes, c < 256 ^ w)
    (tail : List Nat) (ht : tail.length < w) (htb : AllBytes tail) :
    lookupString (parseCMapData (renderProgram p w secs)) (codes.flatMap (codeBytes w) ++ tail) =
      codes.flatMap (specEmit secs) ++ tail.flatMap (specEmit secs) := by
  have hb : AllBytes (codes.flatMap (codeBytes w) ++ tail) := by
    intro b hbm
    rcases List.mem_append.mp hbm with h | h
    · obtain ⟨c, _, hcb⟩ := List.mem_flatMap.mp h
      exact codeBytes_bytes w c b hcb
    · exact htb b h
  rw [lookupString_total p w hw1 hw4 secs hs _ hb]
  apply CMapArrange.specDecode_codes secs w hw1 hw4 codes hc tail ht
  rw [List.length_append, flatMap_codeBytes_length]
  have : codes.length ≤ codes.length * w := Nat.le_mul_of_pos_right _ hw1
  omega

/-- the hypotheses are satisfiable by a program that defines codes twice; its values on a
defined, a redefined, an undefined and a surrogate-numbered code and on a short remainder -/
example :
    let secs : List Section :=
      [⟨.bfrange, [.offset ⟨0x41, [[0x61], [0x62], [0x63]]⟩, .array ⟨0x42, [[0x58, 0x59]]⟩]⟩,
       ⟨.bfchar, [.char 0x43 [0x1D400], .char 0x43 [0x7A]]⟩]
    (∀ s ∈ secs, SectionOK 2 s) ∧
    specDecode secs 2 10 [0, 0x41, 0, 0x42, 0, 0x43, 0, 0x44, 0xD8, 0x00, 0x42] =
      [0x61, 0x58, 0x59, 0x7A, 0x44, 0xFFFD, 0x58, 0x59] := by
  intro secs
  refine ⟨?_, by decide⟩
  have sc : ∀ x, x < 0xD800 → IsScalar x := fun x h => Or.inl h
  intro s hs
  simp only [secs, List.mem_cons, List.mem_nil_iff, or_false] at hs
  rcases hs with rfl | rfl
  · intro it hit
    simp only [List.mem_cons, List.mem_nil_iff, or_false] at hit
    rcases hit with rfl | rfl
    · refine ⟨⟨⟨by simp, by simp, ?_⟩, ?_⟩, trivial⟩
      · intro t ht
        simp only [List.mem_cons, List.mem_nil_iff, or_false] at ht
        rcases ht with rfl | rfl | rfl <;>
          exact ⟨by intro x hx; simp at hx; subst hx; exact sc _ (by omega), by simp, by simp⟩
      · intro i t hi
        match i, hi with
        | 0, hi => simp at hi; subst hi; decide
        | 1, hi => simp at hi; subst hi; decide
        | 2, hi => simp at hi; subst hi; decide
        | n + 3, hi => simp at hi
    · refine ⟨⟨by simp, by simp, ?_⟩, trivial⟩
      intro t ht
      simp only [List.mem_cons, List.mem_nil_iff, or_false] at ht
      subst ht
      exact ⟨by intro x hx; simp at hx; rcases hx with rfl | rfl <;> exact sc _ (by omega), by simp, by simp⟩
  · intro it hit
    simp only [List.mem_cons, List.mem_nil_iff, or_false] at hit
    rcases hit with rfl | rfl
    · exact ⟨⟨by simp, by intro x hx; simp at hx; subst hx; exact Or.inr (by omega), by simp, by simp⟩, trivial⟩
    · exact ⟨⟨by simp, by intro x hx; simp at hx; subst hx; exact sc _ (by omega), by simp, by simp⟩, trivial⟩

/-! ## 2. independence of the arrangement: programs -/

/-- **arrangement_free**: two programs — any policies, any arrangement of entries into items and
sections — that specify the same text for every code decode EVERY byte string alike -/
theorem arrangement_free (p1 p2 : Policy) (w : Nat) (hw1 : 1 ≤ w) (hw4 : w ≤ 4) (s1 s2 : List Section)
    (h1 : ∀ s ∈ s1, SectionOK w s) (h2 : ∀ s ∈ s2, SectionOK w s)
    (h : ∀ c, specText s1 c = specText s2 c) (data : List Nat) (hb : AllBytes data) :
    lookupString (parseCMapData (renderProgram p1 w s1)) data =
      lookupString (parseCMapData (renderProgram p2 w s2)) data :=
  CMapArrange.arrangement_free p1 p2 w hw1 hw4 s1 s2 h1 h2 h data hb

/-- when no code is given two different texts, the specified text of a code is the text of its
entry, wherever and in whatever form (bfchar entry, offset-target range, array-target range)
the entry is written … -/
theorem spec_of_entry (w : Nat) (secs : List Section) (hs : ∀ s ∈ secs, SectionOK w s)
    (hf : Functional (allEntries secs)) (e : Nat × List Nat) (he : e ∈ allEntries secs) :
    specText secs e.1 = e.2 :=
  CMapArrange.specText_of_entry w secs hs hf e he

/-- … and a code no entry defines has no specified text -/
theorem spec_of_undefined (w : Nat) (secs : List Section) (hs : ∀ s ∈ secs, SectionOK w s)
    (c : Nat) (hc : ∀ e ∈ allEntries secs, e.1 ≠ c) : specText secs c = [] :=
  CMapArrange.specText_of_undefined w secs hs c hc

/-- **arrangement_free_entries**: two programs with the same SET of code→text entries — any
permutation of the entries, any cut of runs into bfchar entries, offset-target ranges and
array-target ranges, any split into sections, any order of the sections, any formatting policy
on either side — decode EVERY byte string alike -/
theorem arrangement_free_entries (p1 p2 : Policy) (w : Nat) (hw1 : 1 ≤ w) (hw4 : w ≤ 4) (s1 s2 : List Section)
    (h1 : ∀ s ∈ s1, SectionOK w s) (h2 : ∀ s ∈ s2, SectionOK w s)
    (hf : Functional (allEntries s1)) (hset : ∀ e, e ∈ allEntries s1 ↔ e ∈ allEntries s2)
    (data : List Nat) (hb : AllBytes data) :
    lookupString (parseCMapData (renderProgram p1 w s1)) data =
      lookupString (parseCMapData (renderProgram p2 w s2)) data :=
  arrangement_free p1 p2 w hw1 hw4 s1 s2 h1 h2
    (CMapArrange.specText_entries_ext w s1 s2 h1 h2 hf hset) data hb

/-- two arrangements of one map with the same entries: one offset range; the same codes as an
array range for the first two codes and a bfchar entry for the third, sections in the other order -/
example :
    let s1 : List Section := [⟨.bfrange, [.offset ⟨0x41, [[0x61], [0x62], [0x63]]⟩]⟩]
    let s2 : List Section := [⟨.bfchar, [.char 0x43 [0x63]]⟩, ⟨.bfrange, [.array ⟨0x41, [[0x61], [0x62]]⟩]⟩]
    Functional (allEntries s1) ∧ (∀ e, e ∈ allEntries s1 ↔ e ∈ allEntries s2) := by
  intro s1 s2
  have e1 : allEntries s1 = [(0x41, [0x61]), (0x42, [0x62]), (0x43, [0x63])] := by decide
  have e2 : allEntries s2 = [(0x43, [0x63]), (0x41, [0x61]), (0x42, [0x62])] := by decide
  rw [e1, e2]
  refine ⟨?_, ?_⟩
  · intro a ha b hb hab
    simp only [List.mem_cons, List.mem_nil_iff, or_false] at ha hb
    rcases ha with rfl | rfl | rfl <;> rcases hb with rfl | rfl | rfl <;> first | rfl | (simp at hab)
  · intro e
    simp only [List.mem_cons, List.mem_nil_iff, or_false]
    constructor
    · rintro (h | h | h) <;> simp [h]
    · rintro (h | h | h) <;> simp [h]

/-! ## 3. independence of the arrangement: every CMap value -/

/-- **state_perm**: for EVERY CMap value (the parsed state of any program, well formed or not):
permuting the entries of the direct map (a function) and permuting pairwise disjoint ranges
changes no result of `LookupString`, on the fixed-width path and on the fallback path -/
theorem state_perm (cm cm' : CMap) (hf : Functional cm.chars) (hpc : List.Perm cm.chars cm'.chars)
    (hd : cm.ranges.Pairwise RangesDisjoint) (hpr : List.Perm cm.ranges cm'.ranges)
    (hbw : cm.byteWidth = cm'.byteWidth) (habw : cm.actualByteWidth = cm'.actualByteWidth) (data : List Nat) :
    lookupString cm data = lookupString cm' data :=
  CMapArrange.lookupString_perm cm cm' hf hpc hd hpr hbw habw data

/-- `LookupString` is a function of `Lookup` and the two width fields alone -/
theorem state_congr (cm cm' : CMap) (hl : ∀ c, lookup cm c = lookup cm' c)
    (hbw : cm.byteWidth = cm'.byteWidth) (habw : cm.actualByteWidth = cm'.actualByteWidth) (data : List Nat) :
    lookupString cm data = lookupString cm' data :=
  CMapArrange.lookupString_congr cm cm' hl hbw habw data

/-- a one-unit range cut in two at any code is the same range -/
theorem range_split (r : Range) (hu : r.units = []) (m : Nat) (h1 : r.start ≤ m) (h2 : m < r.stop)
    (rest : List Range) (c : Nat) :
    lookupRanges (r :: rest) c =
      lookupRanges (⟨r.start, m, r.startUnicode, []⟩ :: ⟨m + 1, r.stop, r.startUnicode + (m + 1 - r.start), []⟩ :: rest) c :=
  CMapArrange.lookupRanges_split r hu m h1 h2 rest c

/-- an offset range written out as direct entries (what an array target or bfchar entries
store) is the same map at every code that has no direct entry -/
theorem range_as_chars (cm : CMap) (r : Range) (rest : List Range) (hr : cm.ranges = r :: rest)
    (c : Nat) (hc : cm.getChar c = none) :
    lookup cm c =
      lookup { cm with chars := cm.chars ++ ((List.range (r.stop + 1 - r.start)).map fun i => (r.start + i, rangeText r (r.start + i))),
                       ranges := rest } c :=
  CMapArrange.lookup_range_as_chars cm r rest hr c hc

example :
    let cm : CMap := { chars := [(5, [0x41]), (7, [0x42])], ranges := [⟨0, 3, 0x61, []⟩, ⟨8, 9, 0, [0xD835, 0xDC00]⟩], byteWidth := 1 }
    Functional cm.chars ∧ cm.ranges.Pairwise RangesDisjoint := by
  intro cm
  refine ⟨?_, ?_⟩
  · intro a ha b hb hab
    simp only [cm, List.mem_cons, List.mem_nil_iff, or_false] at ha hb
    rcases ha with rfl | rfl <;> rcases hb with rfl | rfl <;> first | rfl | (simp at hab)
  · simp only [cm, List.pairwise_cons, List.mem_cons, List.mem_nil_iff, or_false, List.Pairwise.nil, and_true]
    refine ⟨?_, ?_⟩
    · intro b hb; subst hb; intro c hc; simp only at hc; omega
    · intro b hb; simp at hb

/-! ## 4. composition: `Font.DecodeString` and the page -/

/-- **font_tounicode_total**: a font whose ToUnicode CMap is the parsed program decodes EVERY
byte string to NFC of what the program specifies — whatever its encoding name, its
`/Differences` and a byte-order mark in the data (ToUnicode first, NFC last) -/
theorem font_tounicode_total (nfc : List Nat → List Nat) (enc : List Nat) (ds : Diffs)
    (p : Policy) (w : Nat) (hw1 : 1 ≤ w) (hw4 : w ≤ 4) (secs : List Section)
    (hs : ∀ s ∈ secs, SectionOK w s) (data : List Nat) (hb : AllBytes data) :
    FontDecode.decodeString nfc ⟨some (parseCMapData (renderProgram p w secs)), enc, ds⟩ data =
      some (nfc (specDecode secs w (data.length + 1) data)) := by
  rw [(C07.tounicode_precedence nfc _ enc enc ds ds data).2, lookupString_total p w hw1 hw4 secs hs data hb]

/-- **font_arrangement_free**: two fonts whose ToUnicode programs hold the same set of entries,
arranged and formatted in any two ways, with any encodings and differences, decode every byte
string to the same text -/
theorem font_arrangement_free (nfc : List Nat → List Nat) (enc1 enc2 : List Nat) (ds1 ds2 : Diffs)
    (p1 p2 : Policy) (w : Nat) (hw1 : 1 ≤ w) (hw4 : w ≤ 4) (s1 s2 : List Section)
    (h1 : ∀ s ∈ s1, SectionOK w s) (h2 : ∀ s ∈ s2, SectionOK w s)
    (hf : Functional (allEntries s1)) (hset : ∀ e, e ∈ allEntries s1 ↔ e ∈ allEntries s2)
    (data : List Nat) (hb : AllBytes data) :
    FontDecode.decodeString nfc ⟨some (parseCMapData (renderProgram p1 w s1)), enc1, ds1⟩ data =
      FontDecode.decodeString nfc ⟨some (parseCMapData (renderProgram p2 w s2)), enc2, ds2⟩ data := by
  rw [(C07.tounicode_precedence nfc _ enc1 enc1 ds1 ds1 data).2, (C07.tounicode_precedence nfc _ enc2 enc2 ds2 ds2 data).2,
    arrangement_free_entries p1 p2 w hw1 hw4 s1 s2 h1 h2 hf hset data hb]

open Tabula.Pdf (Obj) in
open Tabula.Reader (Dict dget) in
open Tabula.FormFonts in
/-- **page_tounicode_total**: a page whose resources bind `n` to a font whose `/ToUnicode` stream
holds ANY program of well-formed sections shows, after ANY content-stream history,
`/n sz Tf <data> Tj` for ANY byte string `data` (codes the program does not define, a remainder
shorter than a code and a leading byte-order mark included): the fragment text is NFC of what
the program specifies for the string -/
theorem page_tounicode_total (nfc : List Nat → List Nat) (res : FRes) (pageRd fontsD : Dict)
    (n : Reader.Str) (o : Obj) (enc : Reader.Str) (ds : Diffs)
    (p : Policy) (w : Nat) (hw1 : 1 ≤ w) (hw4 : w ≤ 4) (secs : List Section) (hs : ∀ s ∈ secs, SectionOK w s)
    (hfonts : Reader.fontsOf (toRes res) (some pageRd) = some fontsD)
    (hn : n.head? ≠ some 47) (hno : dget fontsD (47 :: n) = none) (hbd : dget fontsD n = some o)
    (hfont : parseFont (toRes res) o = some ⟨some (parseCMapData (renderProgram p w secs)), enc, ds⟩)
    (pre : List Pdf.CS.Operation) (st1 : St) (hpre : runPage nfc res (initial res (some pageRd)) pre = .ok st1)
    (sz : Obj) (hsz : Reader.isNum sz = true) (data : List Nat) (hb : AllBytes data) :
    ∃ st2, runPage nfc res (initial res (some pageRd)) (pre ++ [C07Fonts.opTfOf n sz, C07Fonts.opTjOf data]) = .ok st2 ∧
      st2.out = st1.out ++ [nfc (specDecode secs w (data.length + 1) data)] := by
  have hbind : (initial res (some pageRd)).fonts (C07Fonts.tfKey n) =
      some ⟨some (parseCMapData (renderProgram p w secs)), enc, ds⟩ := by
    rw [C07Fonts.page_initial_binding res pageRd fontsD hfonts, C07Fonts.registered_alias _ _ n o hn hno hbd, hfont]
  exact C07Fonts.show_after_history_page nfc res _ st1 pre hpre n sz hsz data _ hbind _
    (font_tounicode_total nfc enc ds p w hw1 hw4 secs hs data hb)

end Tabula.C07Arrange
