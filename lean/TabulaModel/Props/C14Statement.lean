import TabulaModel.Props.C14Json
import TabulaModel.Lemmas.JsonUtf8
/-!
# C14 (part 5) — the statement of the property, composed

The per-mechanism theorems of `Props/C14*.lean` chained into the two sentences of the property
text, over the model of the public entry point `(*Exporter).ExportToString` (which `ToJSON`,
`ToJSONL`, `ToCSV`, `ToTSV`, `BatchExporter` and — line by line — `StreamExporter` go through) and
of the collection filters.
-/
namespace Tabula.C14S
open Tabula.Export Tabula.Csv Tabula.Json Tabula.C14 Tabula.C14Meta Tabula.C14Api Tabula.C14Json
open Tabula.Split (validUtf8)

/-- what the export of a collection is read back to by the standard reader of the configured format -/
inductive Parsed where
  | records (rs : List J)                                  -- JSON array elements / JSON Lines lines
  | table (header : Option (List Str)) (rows : List (List Str))   -- CSV / TSV records

/-- the standard reader of the configured format applied to an export text -/
def parseExport (cfg : Config) (text : Str) : Option Parsed :=
  match cfg.format with
  | .json => match jsonRead text with
             | some (.arr rs) => some (.records rs)
             | _ => none
  | .jsonl => (jsonlRead text).map Parsed.records
  | .csv | .tsv =>
    match csvRead (delimiter cfg) text with
    | none => none
    | some recs =>
      if cfg.includeHeader then
        match recs with
        | [] => none
        | h :: rows => some (.table (some h) rows)
      else some (.table none recs)
  | .other => none

/-- what the property says the export must read back to: one record per chunk, in order, holding
the chunk's id, text and metadata values (`recordJ`: see `record_json_fields`; `cellSpec`: see
`named_cells`, `meta_columns_spec`) -/
def expected (cfg : Config) (chunks : List Chunk) : Parsed :=
  match cfg.format with
  | .json | .jsonl => .records (chunks.map (recordJ cfg))
  | _ =>
    .table (if cfg.includeHeader then some (collectCSVColumns cfg chunks) else none)
      (chunks.map (fun c => (collectCSVColumns cfg chunks).map (cellSpec cfg c)))

/-- SENTENCE 1 OF THE PROPERTY (JSON, JSON Lines, CSV, TSV): for every collection whose strings
are well-formed UTF-8 — whatever quotes, delimiters, CR/LF, NUL, control and non-ASCII characters
they contain — and every configuration of a supported format with a valid delimiter (flattening,
field lists, text/metadata/embeddings switches, header on/off, pretty printing, column names all
arbitrary), `ExportToString` succeeds, its text is accepted by the standard reader of the format
(under the assumed `encoding/json` / `encoding/csv` writers, which are compared byte for byte with
the real ones), and it reads back to exactly one record per chunk, in collection order, carrying
the chunk's own id, text and metadata values. -/
theorem export_statement (cfg : Config) (chunks : List Chunk)
    (hv : ∀ c ∈ chunks, chunkValid c = true) (hfmt : cfg.format ≠ .other)
    (hd : validDelim (delimiter cfg)) :
    ∃ text, exportToString cfg chunks = some text ∧ parseExport cfg text = some (expected cfg chunks) := by
  cases hf : cfg.format with
  | json =>
    obtain ⟨text, h1, h2⟩ := export_json_parses_back cfg hf chunks hv
    exact ⟨text, h1, by simp [parseExport, expected, hf, h2]⟩
  | jsonl =>
    obtain ⟨text, h1, h2, _⟩ := export_jsonl_parses_back cfg hf chunks hv
    exact ⟨text, h1, by simp [parseExport, expected, hf, h2]⟩
  | csv =>
    obtain ⟨text, h1, h2⟩ := export_csv_parses_back goMarshal cfg chunks hd
    refine ⟨text, by simp [exportToString, hf, h1], ?_⟩
    simp only [parseExport, expected, hf, h2, getColumnValue_fun]
    by_cases hh : cfg.includeHeader = true <;> simp [hh]
  | tsv =>
    obtain ⟨text, h1, h2⟩ := export_csv_parses_back goMarshal cfg chunks hd
    refine ⟨text, by simp [exportToString, hf, h1], ?_⟩
    simp only [parseExport, expected, hf, h2, getColumnValue_fun]
    by_cases hh : cfg.includeHeader = true <;> simp [hh]
  | other => exact absurd hf hfmt

example : (∀ c ∈ ([] : List Chunk), chunkValid c = true) ∧ csvExportConfig.format ≠ .other ∧
    validDelim (delimiter csvExportConfig) := by
  refine ⟨by simp, by decide, by decide⟩

/-- the record count of the statement: as many records as chunks, whatever the format -/
theorem export_record_count (cfg : Config) (chunks : List Chunk) :
    (match expected cfg chunks with
     | .records rs => rs.length
     | .table _ rows => rows.length) = chunks.length := by
  unfold expected
  cases cfg.format <;> simp

/-- the JSON / JSON Lines text is well-formed UTF-8 (what a JSON reader requires of its input
besides the grammar) -/
theorem export_json_text_is_utf8 (cfg : Config) (chunks : List Chunk)
    (hv : ∀ c ∈ chunks, chunkValid c = true) :
    validUtf8 (exportJSONText cfg chunks) = true ∧ validUtf8 (exportJSONLText cfg chunks) = true := by
  constructor
  · unfold exportJSONText
    apply encode_valid
    rw [exportRecords_eq_map, List.map_map]
    simp only [wf]
    exact wfList_map _ _ (fun c hc => record_wf cfg c (hv c hc))
  · unfold exportJSONLText exportJSONL
    rw [exportRecords_eq_map]
    apply validUtf8_flatMap
    intro r hr
    obtain ⟨c, hc, e⟩ := List.mem_map.mp hr
    rw [← e]
    have := encode_valid false _ (record_wf cfg c (hv c hc))
    simpa [encode, marshal, recordJ] using this

/-- SENTENCE 2 OF THE PROPERTY: filtering a collection — by any of the filter methods, by a chain
of them in any order, or by `Filter` with an arbitrary predicate — returns exactly the chunks
satisfying the predicate(s): all of them, only them, each once, in collection order. -/
theorem filter_statement (env : StrEnv) (ops : List FilterOp) (p : Chunk → Bool) (cs : List Chunk) :
    filterC p cs = cs.filter p ∧
    applyChain env ops cs = cs.filter (fun c => ops.all (fun op => opPred env op c)) ∧
    (applyChain env ops cs).Sublist cs ∧
    (∀ c, c ∈ applyChain env ops cs ↔ (c ∈ cs ∧ ∀ op ∈ ops, opPred env op c = true)) ∧
    (∀ ops', ops.Perm ops' → applyChain env ops' cs = applyChain env ops cs) :=
  ⟨(filter_is_filter env p .tables cs).1, filter_chain_is_conjunction env ops cs,
    filter_order_preserved env ops cs, filter_chain_mem env ops cs,
    fun ops' h => (filter_chain_perm env ops ops' h cs).symm⟩

end Tabula.C14S
