import TabulaModel.Lemmas.OdtRender
import TabulaModel.Props.C16
/-!
# C16 — the ODT reader's public views present the body in document order

Theorems about `Model/OdtRender.lean` (`TextWithOptions`, `MarkdownWithOptions`,
`MarkdownWithRAGOptions`, `Document`) and their composition with `odt_elements_interleave`
into the end-to-end statement of the property over the public API's model.
-/
namespace Tabula.C16RenderOdt
open Tabula.Xml Tabula.Odt Tabula.Render

/-- **odt_reader_elements**. The elements the views read are those of `Odt.elements` (the
streaming walk of `Model/Odt.lean`), each with the style name the list writers look at and
the number of column widths: carrying the list style along changes no element. -/
theorem odt_reader_elements (content : Node) (styles : Option Node) :
    (openReader content styles).elements.map (·.elem) = Odt.elements content styles := by
  unfold openReader Odt.elements
  have := walkNodeX_erase (allStyles content styles) content { inBody := false, listStyle := [], acc := [] }
  simp only [eraseW, List.map_nil] at this
  have h2 := congrArg Walk.acc this
  simpa using h2

/-- **odt_list_style_carried**. Inside the text body a `text:list` that has a style name sets
the style its items are written in; a list without one keeps the style of the list before it
(the reader's `currentListStyle`).
RESTATED: for a list that is decoded to its end (`hdec`: no paragraph of its items nests
`text:span` / `text:a` deeper than `maxInlineDepth`) while the loop is still reading (`hd`).
A list the decoder gives up in sets the style all the same and contributes no item
(`odt_list_gives_up`). -/
theorem odt_list_style_carried (defs : List StyleDef) (tag : Str) (attrs : List (Str × Str)) (kids : List Node) (w : WalkX)
    (hb : w.inBody = true) (hd : w.done = false) (ht : tag ≠ sOfficeText) (hl : localName tag = sList)
    (hdec : (residualList .list kids).isNone = true) :
    walkNodeX defs (.elem tag attrs kids) w =
      { w with listStyle := listStyleAfter attrs w.listStyle,
               acc := w.acc ++ (listElems (.elem tag attrs kids)).map fun e => ⟨e, listStyleAfter attrs w.listStyle, 0⟩ } := by
  have hne : (tag == sOfficeText) = false := by
    cases h : tag == sOfficeText
    · rfl
    · exact absurd (by simpa using h) ht
  simp only [walkNodeX, hne, hb, hd, hl, Bool.false_eq_true, if_false, Bool.not_true]
  have h1 : (sList == sP) = false := by decide
  have h2 : (sList == sH) = false := by decide
  simp only [h1, h2, Bool.false_eq_true, if_false, BEq.rfl, if_true]
  rw [scanX_none defs .list kids _ hdec]

/-- a list the decoder gives up in: the style is set, no item is recorded, the walk reads on to
the end of the paragraph it happened in and stops there -/
theorem odt_list_gives_up (defs : List StyleDef) (tag : Str) (attrs : List (Str × Str)) (kids : List Node) (w w' : WalkX)
    (hb : w.inBody = true) (hd : w.done = false) (ht : tag ≠ sOfficeText) (hl : localName tag = sList)
    (hs : scanListX defs .list kids { w with listStyle := listStyleAfter attrs w.listStyle } = some w') :
    walkNodeX defs (.elem tag attrs kids) w = { w' with done := true } := by
  have hne : (tag == sOfficeText) = false := by
    cases h : tag == sOfficeText
    · rfl
    · exact absurd (by simpa using h) ht
  obtain ⟨ib, dn, ls, acc⟩ := w
  simp only at hb hd hs
  subst hb; subst hd
  simp only [walkNodeX, hne, hl, Bool.false_eq_true, if_false, Bool.not_true]
  have h1 : (sList == sP) = false := by decide
  have h2 : (sList == sH) = false := by decide
  simp only [h1, h2, Bool.false_eq_true, if_false, BEq.rfl, if_true]
  rw [hs]

example : listStyleAfter [([116, 101, 120, 116, 58, 115, 116, 121, 108, 101, 45, 110, 97, 109, 101], [76, 49])] [76, 50] = [76, 49]
    ∧ listStyleAfter [] [76, 50] = [76, 50] := by decide

/-! ### plain text -/

/-- **odt_text_pieces**. `TextWithOptions` is one piece per element, in order, joined by newlines. -/
theorem odt_text_pieces (rd : Reader) (opts : ExtractOptions) :
    textWithOptions rd opts = joinWith [10] (textPieces rd opts rd.elements [])
    ∧ (textPieces rd opts rd.elements []).length = rd.elements.length :=
  ⟨rfl, textPieces_length rd opts _ _⟩

/-- **odt_text_in_order**. The plain text shows the text of every paragraph that is not
excluded and every cell of every table (row by row) in the order of the reader's elements. -/
theorem odt_text_in_order (rd : Reader) (opts : ExtractOptions) :
    InOrder (rd.elements.map fun e => textTexts rd opts e.elem).flatten (textWithOptions rd opts) :=
  inOrder_joinWith [10] _ _ (textPieces_pieces rd opts _ _)

/-- **odt_text_list_nesting**. A list item is written as two spaces per level, its bullet or
number, and its text; any other paragraph as its text alone. -/
theorem odt_text_list_nesting (ls : List ListStyle) (p : Para) (style : Str) (cs : Counters) :
    (∀ level, p.list = some level →
      (writeParagraphText ls p style cs).1 = indent level ++ textMarker ls style level cs ++ p.text)
    ∧ (p.list = none → (writeParagraphText ls p style cs).1 = p.text) := by
  refine ⟨fun level h => writeParagraphText_item ls p style cs level h, fun h => ?_⟩
  rw [writeParagraphText_plain ls p style cs h]

/-! ### Markdown -/

/-- **odt_markdown_in_order** -/
theorem odt_markdown_in_order (rd : Reader) (opts : ExtractOptions) (o : MdOptions) :
    InOrder (rd.elements.map fun e => mdTexts rd opts e.elem).flatten (markdownRaw rd opts o) := by
  obtain ⟨chunk, hc, ho⟩ := mdLoop_chunk rd opts o rd.elements 0 { out := [], inList := false, cs := [] }
  unfold markdownRaw
  rw [hc]
  simpa using ho

/-- **odt_markdown_trim** -/
theorem odt_markdown_trim (rd : Reader) (opts : ExtractOptions) (o : MdOptions) :
    ∃ a b, markdownRaw rd opts o = a ++ markdownWithRAGOptions rd opts o ++ b ∧ (∀ c ∈ a, c = 10) ∧ (∀ c ∈ b, c = 10) :=
  trimNL_split _

/-- **odt_md_heading_line** -/
theorem odt_md_heading_line (rd : Reader) (opts : ExtractOptions) (o : MdOptions) (i : Nat) (p : Para) (st : Str) (n l : Nat) (s : MdState)
    (hex : excluded opts rd.headerTexts rd.footerTexts p.text = false) (hh : p.heading = some l) :
    ∃ sep, (sep = [] ∨ sep = [10]) ∧
      (mdStep rd opts o i ⟨.para p, st, n⟩ s).out = s.out ++ sep ++ repeatStr [35] (mdHeadingLevel o l) ++ [32] ++ p.text ++ [10, 10] := by
  simp only [mdStep, hex, Bool.false_eq_true, if_false, hh]
  split
  · exact ⟨[10], Or.inr rfl, by simp [List.append_assoc]⟩
  · exact ⟨[], Or.inl rfl, by simp [List.append_assoc]⟩

/-- the number of `#`: between 1 and 6 (an ODT heading of level 7..10 is written with six);
without options the heading's level, capped at 6 -/
theorem odt_md_heading_level (o : MdOptions) (l : Nat) :
    (1 ≤ mdHeadingLevel o l ∧ mdHeadingLevel o l ≤ 6) ∧ mdHeadingLevel {} l = min (max l 1) 6 :=
  ⟨mdHeadingLevel_range o l, mdHeadingLevel_default l⟩

/-- **odt_md_item_line** -/
theorem odt_md_item_line (rd : Reader) (opts : ExtractOptions) (o : MdOptions) (i : Nat) (p : Para) (st : Str) (n level : Nat)
    (s : MdState) (hex : excluded opts rd.headerTexts rd.footerTexts p.text = false)
    (hh : p.heading = none) (hl : p.list = some level) :
    ∃ sep cs, (sep = [] ∨ sep = [10]) ∧
      (mdStep rd opts o i ⟨.para p, st, n⟩ s).out = s.out ++ sep ++ indent level ++ mdMarker rd.listStyles st level cs ++ p.text ++ [10] := by
  simp only [mdStep, hex, Bool.false_eq_true, if_false, hh, hl]
  split
  · exact ⟨[10], s.cs, Or.inr rfl, by rw [mdListItem_line]; simp [List.append_assoc]⟩
  · exact ⟨[], s.cs, Or.inl rfl, by rw [mdListItem_line]; simp [List.append_assoc]⟩

/-! ### the document model -/

/-- **odt_document_flatten** -/
theorem odt_document_flatten (rd : Reader) : flattenDoc (document rd) = rd.elements.filterMap entryOf := by
  unfold document
  have h1 := flatState_finalize (docLoop rd.listStyles rd.elements { page := [], cur := none })
  rw [flatState, finalize_cur] at h1
  simp only [List.append_nil] at h1
  rw [h1, docLoop_flat]
  simp [flatState, flattenDoc]

/-! ### the table grid of the document model -/

theorem foldl_add_eq (f : Cell → Nat) : ∀ (l : List Cell) (a : Nat), l.foldl (fun s c => s + f c) a = a + (l.map f).sum := by
  intro l
  induction l with
  | nil => intro a; simp
  | cons c cs ih => intro a; simp only [List.foldl_cons, List.map_cons, List.sum_cons]; rw [ih]; omega

theorem foldl_max_ge (f : List Cell → Nat) : ∀ (rows : List (List Cell)) (a : Nat),
    a ≤ rows.foldl (fun m row => max m (f row)) a ∧ ∀ row ∈ rows, f row ≤ rows.foldl (fun m row => max m (f row)) a := by
  intro rows
  induction rows with
  | nil => intro a; simp
  | cons r rs ih =>
    intro a
    simp only [List.foldl_cons]
    obtain ⟨h1, h2⟩ := ih (max a (f r))
    refine ⟨by omega, ?_⟩
    intro row hrow
    cases hrow with
    | head => omega
    | tail _ hm => exact h2 row hm

theorem startCol_lt_modelColCount (rows : List (List Cell)) (r i : Nat) (row : List Cell) (c : Cell)
    (hr : rows[r]? = some row) (hc : row[i]? = some c) (hw : 1 ≤ gridWidth c) :
    startCol gridWidth row i < modelColCount rows := by
  have hmem : row ∈ rows := List.mem_of_getElem? hr
  have h1 := (foldl_max_ge (fun row => row.foldl (fun s c => s + gridWidth c) 0) rows 0).2 row hmem
  have h2 : row.foldl (fun s c => s + gridWidth c) 0 = 0 + (row.map gridWidth).sum := foldl_add_eq gridWidth row 0
  have h3 := startCol_add_le gridWidth row i c hc
  unfold modelColCount
  omega

/-- **odt_model_table_cell**. In the table `ToModelTable` hands to the document model, the
authored cell number `i` of parsed row `r` (no covered placeholder, at least one column wide)
stands at row `r`, column = the grid widths of the cells before it in its row added up (a
covered placeholder counts one column, an authored cell its column span), with its text, its
row span and its column span - provided it starts inside the grid (the `table:table-column`
elements may declare fewer columns; without any it always does). -/
theorem odt_model_table_cell (rows : List (List Cell)) (cols r i : Nat) (row : List Cell) (c : Cell)
    (hr : rows[r]? = some row) (hc : row[i]? = some c) (hcov : c.covered = false) (hw : 1 ≤ c.colSpan)
    (hcc : cols = 0 ∨ startCol gridWidth row i < cols) :
    ((toModelTable rows cols)[r]?).bind (·[startCol gridWidth row i]?)
      = some { text := c.text, rowSpan := c.rowSpan, colSpan := c.colSpan } := by
  have hne : rows ≠ [] := by intro h; rw [h] at hr; simp at hr
  have hgw : 1 ≤ gridWidth c := by simp [gridWidth, hcov, hw]
  unfold toModelTable
  simp only [hne, if_false]
  have hlt : startCol gridWidth row i < (if cols ≠ 0 then cols else modelColCount rows) := by
    by_cases hg : cols = 0
    · simp only [hg, ne_eq, not_true_eq_false, if_false]
      exact startCol_lt_modelColCount rows r i row c hr hc hgw
    · simp only [hg, ne_eq, not_false_eq_true, if_true]
      cases hcc with
      | inl h => exact absurd h hg
      | inr h => exact h
  exact model_grid_cell gridWidth (fun c : Cell => c.covered) mcellOf _ rows r i row c hr hc hcov hgw hlt

/-- non-vacuity: the 2x2 merge of `Props/C16.lean` after `processRowSpans`, in the document model -/
example :
    let c (t : Str) (cs rs : Nat) : Cell := { text := t, colSpan := cs, rowSpan := rs, covered := false }
    toModelTable (processRowSpans [[c [65] 2 2, c [66] 1 1], [c [67] 1 1]]) 0
      = [[⟨[65], 2, 2⟩, blankCell, ⟨[66], 1, 1⟩], [blankCell, blankCell, ⟨[67], 1, 1⟩]] := by decide +kernel

/-! ### header and footer of the master pages -/

theorem excluded_default (hdr ftr : List Str) (t : Str) : excluded {} hdr ftr t = false := by
  unfold excluded Tabula.HF.shouldExcludeParagraph
  simp

theorem textPieces_default_headers (rd : Reader) (h f : List Str) :
    ∀ (els : List ElemX) (cs : Counters),
      textPieces rd {} els cs = textPieces { rd with headerTexts := h, footerTexts := f } {} els cs := by
  intro els
  induction els with
  | nil => intro cs; rfl
  | cons e rest ih =>
    intro cs
    have hp : textPiece rd {} e cs = textPiece { rd with headerTexts := h, footerTexts := f } {} e cs := by
      obtain ⟨el, st, n⟩ := e
      cases el with
      | para p => simp only [textPiece, excluded_default, Bool.false_eq_true, if_false]
      | table rows => rfl
    simp only [textPieces, hp, ih]

theorem mdLoop_default_headers (rd : Reader) (h f : List Str) (o : MdOptions) :
    ∀ (els : List ElemX) (i : Nat) (s : MdState),
      mdLoop rd {} o els i s = mdLoop { rd with headerTexts := h, footerTexts := f } {} o els i s := by
  intro els
  induction els with
  | nil => intro i s; rfl
  | cons e rest ih =>
    intro i s
    have hp : mdStep rd {} o i e s = mdStep { rd with headerTexts := h, footerTexts := f } {} o i e s := by
      obtain ⟨el, st, n⟩ := e
      cases el with
      | para p => simp only [mdStep, excluded_default, Bool.false_eq_true, if_false]
      | table rows => rfl
    simp only [mdLoop, hp, ih]

/-- **odt_headers_never_leak**. With the default options the plain text, the Markdown and the
document model do not depend on the header and footer texts of the master pages: whatever
they hold, nothing of it reaches the body. -/
theorem odt_headers_never_leak (rd : Reader) (h f : List Str) (o : MdOptions) :
    text rd = text { rd with headerTexts := h, footerTexts := f }
    ∧ markdownWithRAGOptions rd {} o = markdownWithRAGOptions { rd with headerTexts := h, footerTexts := f } {} o
    ∧ document rd = document { rd with headerTexts := h, footerTexts := f } := by
  refine ⟨?_, ?_, rfl⟩
  · unfold text textWithOptions
    rw [textPieces_default_headers rd h f]
  · unfold markdownWithRAGOptions markdownRaw
    rw [mdLoop_default_headers rd h f]

/-! ### the end-to-end statement over the public API's model -/

/-- the texts an element shows with the default options -/
def shownText (e : Elem) : List Str :=
  match e with
  | .para p => [p.text]
  | .table rows => tableTextCells (rrows rows)

/-- **odt_end_to_end**. For every content.xml tree whose `office:text` sits in `office:body`
(nothing else named `office:text`) and every styles.xml: the reader's elements are what the
children of `office:text` stand for, in source order (`elemsOfList`: paragraphs, headings,
the items of lists with their nesting level, tables; wrappers in place); `Text()` shows their
texts in that order, so does the Markdown buffer, of which `Markdown()` cuts only newlines at
the ends; the page of `Document()`, lists taken apart, is these elements in that order with
their heading levels, list levels and table grids.
RESTATED (was: for every such tree): with `hdec` - every body element is decoded to its end,
i.e. no paragraph of a body element nests `text:span` / `text:a` deeper than `maxInlineDepth`
= 10000 (`C16Bounds.odt_decodes_iff_depth`). A document beyond that bound is NOT presented in
full: `C16Bounds.odt_truncated` proves that the reader then holds the elements before the
paragraph it gave up in, what stands behind the refused tag inside that paragraph, and nothing
of what follows - without any error. -/
theorem odt_end_to_end (docTag bodyTag : Str) (da ba ta : List (Str × Str)) (pre kids post : List Node) (styles : Option Node)
    (hdoc : docTag ≠ sOfficeText) (hbody : bodyTag ≠ sOfficeText)
    (hpre : noTextList pre = true) (hpost : noTextList post = true) (hk : noTextList kids = true)
    (hdec : decodesList kids = true) :
    let content : Node := .elem docTag da (pre ++ [.elem bodyTag ba [.elem sOfficeText ta kids]] ++ post)
    let rd := openReader content styles
    let els := elemsOfList (allStyles content styles) kids
    rd.elements.map (·.elem) = els
    ∧ InOrder (els.map shownText).flatten (text rd)
    ∧ InOrder (els.map (mdTexts rd {})).flatten (markdownRaw rd {} {})
    ∧ (∃ a b, markdownRaw rd {} {} = a ++ markdown rd ++ b ∧ (∀ c ∈ a, c = 10) ∧ (∀ c ∈ b, c = 10))
    ∧ flattenDoc (document rd) = rd.elements.filterMap entryOf := by
  intro content rd els
  have hels : rd.elements.map (·.elem) = els := by
    rw [odt_reader_elements]
    exact C16.odt_elements_interleave docTag bodyTag da ba ta pre kids post styles hdoc hbody hpre hpost hk hdec
  refine ⟨hels, ?_, ?_, odt_markdown_trim rd {} {}, odt_document_flatten rd⟩
  · have := odt_text_in_order rd {}
    have hshown : (rd.elements.map fun e => textTexts rd {} e.elem) = els.map shownText := by
      rw [← hels, List.map_map]
      apply List.map_congr_left
      intro e _
      simp only [Function.comp]
      cases e.elem with
      | para p => simp [textTexts, shownText, excluded_default]
      | table rows => rfl
    rw [hshown] at this
    exact this
  · have := odt_markdown_in_order rd {} {}
    have hmd : (rd.elements.map fun e => mdTexts rd {} e.elem) = els.map (mdTexts rd {}) := by
      rw [← hels, List.map_map]; rfl
    rw [hmd] at this
    exact this

/-! ### the public API layer -/

theorem mdHeadingLevel_api (l : Nat) : mdHeadingLevel { offset := 0, maxLevel := 6 } l = mdHeadingLevel {} l := by
  unfold mdHeadingLevel
  simp only
  repeat' split
  all_goals omega

theorem mdLoop_congr (rd : Reader) (opts : ExtractOptions) (o o' : MdOptions) (hl : ∀ l, mdHeadingLevel o l = mdHeadingLevel o' l) :
    ∀ (els : List ElemX) (i : Nat) (s : MdState), mdLoop rd opts o els i s = mdLoop rd opts o' els i s := by
  intro els
  induction els with
  | nil => intro i s; rfl
  | cons e rest ih =>
    intro i s
    have hp : mdStep rd opts o i e s = mdStep rd opts o' i e s := by
      obtain ⟨el, st, n⟩ := e
      cases el with
      | para p => simp only [mdStep, hl]
      | table rows => rfl
    simp only [mdLoop, hp, ih]

/-- **api_views**. `tabula.Open(f).Text()` is the reader's `TextWithOptions` with the
extractor's switches; `.ToMarkdown()` - which passes `rag.DefaultMarkdownOptions()`, heading
cap 6 - is the reader's `MarkdownWithOptions`; `.Document()` is the reader's `Document()`.
With no switch set they are `Text()`, `Markdown()` and `Document()`. -/
theorem api_views (rd : Reader) (a : ApiOptions) :
    apiText rd a = textWithOptions rd { excludeHeaders := a.excludeHeaders, excludeFooters := a.excludeFooters }
    ∧ apiMarkdown rd a = markdownWithOptions rd { excludeHeaders := a.excludeHeaders, excludeFooters := a.excludeFooters }
    ∧ apiDocument rd = document rd
    ∧ apiText rd {} = text rd ∧ apiMarkdown rd {} = markdown rd := by
  have h : ∀ opts, markdownWithRAGOptions rd opts { offset := 0, maxLevel := 6 } = markdownWithOptions rd opts := by
    intro opts
    unfold markdownWithOptions markdownWithRAGOptions markdownRaw
    rw [mdLoop_congr rd opts _ {} mdHeadingLevel_api]
  exact ⟨rfl, h _, rfl, rfl, h _⟩

/-! ### calls on one reader -/

inductive View where
  | text | markdown | rag | document | modelTables | parsed
deriving Repr, DecidableEq

inductive Answer where
  | str (s : Str)
  | doc (d : List DocElem)
  | tables (t : List (List (List MCell)))
  | elems (e : List Elem)
deriving Repr, DecidableEq

def answer (rd : Reader) (opts : ExtractOptions) (o : MdOptions) : View → Answer
  | .text => .str (textWithOptions rd opts)
  | .markdown => .str (markdownWithOptions rd opts)
  | .rag => .str (markdownWithRAGOptions rd opts o)
  | .document => .doc (document rd)
  | .modelTables => .tables (modelTables rd)
  | .parsed => .elems (rd.elements.map (·.elem))

def call (rd : Reader) (opts : ExtractOptions) (o : MdOptions) (v : View) : Reader × Answer := (rd, answer rd opts o v)

def session (opts : ExtractOptions) (o : MdOptions) : Reader → List View → List Answer
  | _, [] => []
  | rd, v :: rest => (call rd opts o v).2 :: session opts o (call rd opts o v).1 rest

/-- **odt_views_history_independent** -/
theorem odt_views_history_independent (rd : Reader) (opts : ExtractOptions) (o : MdOptions) (calls : List View) :
    session opts o rd calls = calls.map (answer rd opts o) := by
  induction calls with
  | nil => rfl
  | cons v rest ih => simp [session, call, ih]

end Tabula.C16RenderOdt
