import TabulaModel.Lemmas.OdtRender
import TabulaModel.Props.C16
/-!
# C16 — the ODT reader's public views present the body in document order

Theorems about `Model/OdtRender.lean` (`TextWithOptions`, `MarkdownWithOptions`,
`MarkdownWithRAGOptions`, `Document`) and their composition with `odt_elements_interleave`
into the end-to-end statement of the property over the public API's model.
-/
namespace Tabula.C16RenderOdt
open Tabula.Xml Tabula.Odt Tabula.Render

/-- **odt_reader_elements**. The elements the views read are those of `Odt.elements` (the
streaming walk of `Model/Odt.lean`), each with the style name the list writers look at and
the number of column widths: carrying the list style along changes no element. -/
theorem odt_reader_elements (content : Node) (styles : Option Node) :
    (openReader content styles).elements.map (·.elem) = Odt.elements content styles := by
  unfold openReader Odt.elements
  have := congrArg Walk.acc (bodyWalkX_erase content styles)
  simpa [eraseW] using this

/-- **odt_open_elements**. Whether `Open` succeeds depends on content.xml alone (through the
style names the headings resolve - not on the master pages), and when it does the element list
is `Odt.elements` - the function the theorems of `Props/C16.lean` are about. -/
theorem odt_open_elements (content : Node) (styles : Option Node) :
    (openReader? content styles).map (·.elements.map (·.elem)) = openElements content styles := by
  unfold openReader? openElements
  have hf : (bodyWalkX content styles).failed = (bodyWalk content styles).failed :=
    congrArg Walk.failed (bodyWalkX_erase content styles)
  rw [hf]
  split
  · rfl
  · simp [odt_reader_elements]

/-- **odt_list_style_carried**. Inside the text body a `text:list` that has a style name sets
the style its items are written in; a list without one keeps the style of the list before it
(the reader's `currentListStyle`).
RESTATED: for a list that is decoded to its end (`hdec`: no paragraph of its items nests
`text:span` / `text:a` deeper than `maxInlineDepth`) while the loop is still reading (`hd`).
A list the decoder gives up in ends `parseBodyElements` with the depth error
(`odt_list_gives_up`). -/
theorem odt_list_style_carried (defs : List StyleDef) (tag : Str) (attrs : List (Str × Str)) (kids : List Node) (w : WalkX)
    (hb : w.inBody = true) (hd : w.failed = false) (ht : tag ≠ sOfficeText) (hl : localName tag = sList)
    (hdec : decodes .list kids = true) :
    walkNodeX defs (.elem tag attrs kids) w =
      { w with listStyle := listStyleAfter attrs w.listStyle,
               acc := w.acc ++ (listElems (.elem tag attrs kids)).map fun e => ⟨e, listStyleAfter attrs w.listStyle, 0⟩ } := by
  have hne : (tag == sOfficeText) = false := by
    cases h : tag == sOfficeText
    · rfl
    · exact absurd (by simpa using h) ht
  simp only [walkNodeX, hne, hb, hd, hl, Bool.false_eq_true, if_false, Bool.not_true]
  have h1 : (sList == sP) = false := by decide
  have h2 : (sList == sH) = false := by decide
  simp only [h1, h2, hdec, Bool.false_eq_true, if_false, BEq.rfl, if_true]

/-- **odt_list_gives_up**. RESTATED (was: the style is set, no item is recorded, the walk reads
on to the end of the paragraph it happened in and stops there without an error): a list the
decoder gives up in records no item and `parseBodyElements` returns the depth error. -/
theorem odt_list_gives_up (defs : List StyleDef) (tag : Str) (attrs : List (Str × Str)) (kids : List Node) (w : WalkX)
    (hb : w.inBody = true) (hd : w.failed = false) (ht : tag ≠ sOfficeText) (hl : localName tag = sList)
    (hdec : decodes .list kids = false) :
    walkNodeX defs (.elem tag attrs kids) w = { w with listStyle := listStyleAfter attrs w.listStyle, failed := true } := by
  have hne : (tag == sOfficeText) = false := by
    cases h : tag == sOfficeText
    · rfl
    · exact absurd (by simpa using h) ht
  simp only [walkNodeX, hne, hb, hd, hl, Bool.false_eq_true, if_false, Bool.not_true]
  have h1 : (sList == sP) = false := by decide
  have h2 : (sList == sH) = false := by decide
  simp only [h1, h2, hdec, Bool.false_eq_true, if_false, BEq.rfl, if_true]

example : listStyleAfter [([116, 101, 120, 116, 58, 115, 116, 121, 108, 101, 45, 110, 97, 109, 101], [76, 49])] [76, 50] = [76, 49]
    ∧ listStyleAfter [] [76, 50] = [76, 50] := by decide

/-! ### plain text -/

/-- **odt_text_pieces**. `TextWithOptions` is one piece per element, in order, joined by newlines. -/
theorem odt_text_pieces (rd : Reader) (opts : ExtractOptions) :
    textWithOptions rd opts = joinWith [10] (textPieces rd opts rd.elements [])
    ∧ (textPieces rd opts rd.elements []).length = rd.elements.length :=
  ⟨rfl, textPieces_length rd opts _ _⟩

/-- **odt_text_in_order**. The plain text shows the text of every paragraph that is not
excluded and every cell of every table (row by row) in the order of the reader's elements. -/
theorem odt_text_in_order (rd : Reader) (opts : ExtractOptions) :
    InOrder (rd.elements.map fun e => textTexts rd opts e.elem).flatten (textWithOptions rd opts) :=
  inOrder_joinWith [10] _ _ (textPieces_pieces rd opts _ _)

/-- **odt_text_list_nesting**. A list item is written as two spaces per level, its bullet or
number, and its text; any other paragraph as its text alone. -/
theorem odt_text_list_nesting (ls : List ListStyle) (p : Para) (style : Str) (cs : Counters) :
    (∀ level, p.list = some level →
      (writeParagraphText ls p style cs).1 = indent level ++ textMarker ls style level cs ++ p.text)
    ∧ (p.list = none → (writeParagraphText ls p style cs).1 = p.text) := by
  refine ⟨fun level h => writeParagraphText_item ls p style cs level h, fun h => ?_⟩
  rw [writeParagraphText_plain ls p style cs h]

/-! ### Markdown -/

/-- **odt_markdown_in_order** -/
theorem odt_markdown_in_order (rd : Reader) (opts : ExtractOptions) (o : MdOptions) :
    InOrder (rd.elements.map fun e => mdTexts rd opts e.elem).flatten (markdownRaw rd opts o) := by
  obtain ⟨chunk, hc, ho⟩ := mdLoop_chunk rd opts o rd.elements 0 { out := [], inList := false, cs := [] }
  unfold markdownRaw
  rw [hc]
  simpa using ho

/-- **odt_markdown_trim** -/
theorem odt_markdown_trim (rd : Reader) (opts : ExtractOptions) (o : MdOptions) :
    ∃ a b, markdownRaw rd opts o = a ++ markdownWithRAGOptions rd opts o ++ b ∧ (∀ c ∈ a, c = 10) ∧ (∀ c ∈ b, c = 10) :=
  trimNL_split _

/-- **odt_md_heading_line** -/
theorem odt_md_heading_line (rd : Reader) (opts : ExtractOptions) (o : MdOptions) (i : Nat) (p : Para) (st : Str) (n l : Nat) (s : MdState)
    (hex : excluded opts rd.headerTexts rd.footerTexts p.text = false) (hh : p.heading = some l) :
    ∃ sep, (sep = [] ∨ sep = [10]) ∧
      (mdStep rd opts o i ⟨.para p, st, n⟩ s).out = s.out ++ sep ++ repeatStr [35] (mdHeadingLevel o l) ++ [32] ++ p.text ++ [10, 10] := by
  simp only [mdStep, hex, Bool.false_eq_true, if_false, hh]
  split
  · exact ⟨[10], Or.inr rfl, by simp [List.append_assoc]⟩
  · exact ⟨[], Or.inl rfl, by simp [List.append_assoc]⟩

/-- the number of `#`: between 1 and 6 (an ODT heading of level 7..10 is written with six);
without options the heading's level, capped at 6 -/
theorem odt_md_heading_level (o : MdOptions) (l : Nat) :
    (1 ≤ mdHeadingLevel o l ∧ mdHeadingLevel o l ≤ 6) ∧ mdHeadingLevel {} l = min (max l 1) 6 :=
  ⟨mdHeadingLevel_range o l, mdHeadingLevel_default l⟩

/-- **odt_md_item_line** -/
theorem odt_md_item_line (rd : Reader) (opts : ExtractOptions) (o : MdOptions) (i : Nat) (p : Para) (st : Str) (n level : Nat)
    (s : MdState) (hex : excluded opts rd.headerTexts rd.footerTexts p.text = false)
    (hh : p.heading = none) (hl : p.list = some level) :
    ∃ sep cs, (sep = [] ∨ sep = [10]) ∧
      (mdStep rd opts o i ⟨.para p, st, n⟩ s).out = s.out ++ sep ++ indent level ++ mdMarker rd.listStyles st level cs ++ p.text ++ [10] := by
  simp only [mdStep, hex, Bool.false_eq_true, if_false, hh, hl]
  split
  · exact ⟨[10], s.cs, Or.inr rfl, by rw [mdListItem_line]; simp [List.append_assoc]⟩
  · exact ⟨[], s.cs, Or.inl rfl, by rw [mdListItem_line]; simp [List.append_assoc]⟩

/-! ### the document model -/

/-- **odt_document_flatten** -/
theorem odt_document_flatten (rd : Reader) : flattenDoc (document rd) = rd.elements.filterMap entryOf := by
  unfold document
  have h1 := flatState_finalize (docLoop rd.listStyles rd.elements { page := [], cur := none })
  rw [flatState, finalize_cur] at h1
  simp only [List.append_nil] at h1
  rw [h1, docLoop_flat]
  simp [flatState, flattenDoc]

/-! ### the table grid of the document model -/

theorem foldl_add_eq (f : Cell → Nat) : ∀ (l : List Cell) (a : Nat), l.foldl (fun s c => s + f c) a = a + (l.map f).sum := by
  intro l
  induction l with
  | nil => intro a; simp
  | cons c cs ih => intro a; simp only [List.foldl_cons, List.map_cons, List.sum_cons]; rw [ih]; omega

theorem foldl_max_ge (f : List Cell → Nat) : ∀ (rows : List (List Cell)) (a : Nat),
    a ≤ rows.foldl (fun m row => max m (f row)) a ∧ ∀ row ∈ rows, f row ≤ rows.foldl (fun m row => max m (f row)) a := by
  intro rows
  induction rows with
  | nil => intro a; simp
  | cons r rs ih =>
    intro a
    simp only [List.foldl_cons]
    obtain ⟨h1, h2⟩ := ih (max a (f r))
    refine ⟨by omega, ?_⟩
    intro row hrow
    cases hrow with
    | head => omega
    | tail _ hm => exact h2 row hm

theorem startCol_lt_modelColCount (rows : List (List Cell)) (r i : Nat) (row : List Cell) (c : Cell)
    (hr : rows[r]? = some row) (hc : row[i]? = some c) (hw : 1 ≤ gridWidth c) :
    startCol gridWidth row i < modelColCount rows := by
  have hmem : row ∈ rows := List.mem_of_getElem? hr
  have h1 := (foldl_max_ge (fun row => row.foldl (fun s c => s + gridWidth c) 0) rows 0).2 row hmem
  have h2 : row.foldl (fun s c => s + gridWidth c) 0 = 0 + (row.map gridWidth).sum := foldl_add_eq gridWidth row 0
  have h3 := startCol_add_le gridWidth row i c hc
  unfold modelColCount
  omega

/-- which declared column counts `ToModelTable` believes: rows x declared columns within
`maxTableGridCells` = 2^20 (the code divides: `len(pt.Rows) > maxTableGridCells/colCount`) -/
theorem declaredCols_within (n cols : Nat) (h : n * cols ≤ 1048576) : declaredCols n cols = cols := by
  unfold declaredCols maxTableGridCells
  by_cases hc : cols > 0
  · have : ¬ (n > 1048576 / cols) := by
      have := (Nat.le_div_iff_mul_le hc).mpr h
      omega
    simp [hc, this]
  · have : cols = 0 := by omega
    simp [this]

theorem declaredCols_beyond (n cols : Nat) (h : n * cols > 1048576) : declaredCols n cols = 0 := by
  unfold declaredCols maxTableGridCells
  have hc : cols > 0 := by
    cases cols with
    | zero => simp at h
    | succ k => omega
  have : n > 1048576 / cols := by
    cases Nat.lt_or_ge (1048576 / cols) n with
    | inl hlt => exact hlt
    | inr hge =>
      have := (Nat.le_div_iff_mul_le hc).mp hge
      omega
  simp [hc, this]

/-- **odt_grid_declared_within / odt_grid_declared_beyond / odt_grid_undeclared**: the columns
of the document-model grid. The `table:table-column` elements are believed exactly when rows x
declared columns ≤ 2^20; beyond that, and for a table that declares none, the grid is as wide as
the widest row counted from its cells (a covered placeholder one column, a cell its span). -/
theorem odt_grid_declared_within (rows : List (List Cell)) (cols : Nat) (hc : cols ≠ 0)
    (h : rows.length * cols ≤ 1048576) : gridCols rows cols = cols := by
  unfold gridCols
  rw [declaredCols_within _ _ h]
  simp [hc]

theorem odt_grid_declared_beyond (rows : List (List Cell)) (cols : Nat)
    (h : rows.length * cols > 1048576) : gridCols rows cols = modelColCount rows := by
  unfold gridCols
  rw [declaredCols_beyond _ _ h]
  simp

theorem odt_grid_undeclared (rows : List (List Cell)) : gridCols rows 0 = modelColCount rows := by
  unfold gridCols
  rw [declaredCols_within _ 0 (by omega)]
  simp

/-- **odt_model_grid_cells** (every table, every declared column count). The document-model
table `ToModelTable` allocates has one row per parsed row and `gridCols` cells in each:
rows x `gridCols` cells in all. -/
theorem odt_model_grid_cells (rows : List (List Cell)) (cols : Nat) :
    (toModelTable rows cols).map List.length = List.replicate rows.length (gridCols rows cols)
    ∧ gridCells (toModelTable rows cols) = rows.length * gridCols rows cols := by
  unfold toModelTable
  by_cases hne : rows = []
  · subst hne; simp [gridCells]
  · simp only [hne, if_false]
    exact ⟨model_grid_shape gridWidth (fun c : Cell => c.covered) mcellOf _ rows,
      model_grid_cells gridWidth (fun c : Cell => c.covered) mcellOf _ rows⟩

/-- **odt_model_grid_bounded** (bounded work, EVERY input). Whatever the `table:table-column`
elements declare - each repetition is bounded by 1024, their number is not -, the document-model
grid holds at most 2^20 cells, or no more than rows x the widest row counted from its cells:
the declared columns never multiply it. (Before the repair 3b0df50:
`odt_model_grid_pinned_counterexample`.) -/
theorem odt_model_grid_bounded (rows : List (List Cell)) (cols : Nat) :
    gridCells (toModelTable rows cols) ≤ max 1048576 (rows.length * modelColCount rows) := by
  rw [(odt_model_grid_cells rows cols).2]
  by_cases h : rows.length * cols ≤ 1048576
  · by_cases hc : cols = 0
    · subst hc; rw [odt_grid_undeclared]; omega
    · rw [odt_grid_declared_within rows cols hc h]; omega
  · rw [odt_grid_declared_beyond rows cols (by omega)]; omega

theorem parseRows_colSpan_pos (tbl : Node) : ∀ row ∈ parseRows tbl, ∀ c ∈ row, 1 ≤ c.colSpan := by
  intro row hrow c hc
  simp only [parseRows, List.mem_map] at hrow
  obtain ⟨tr, _, rfl⟩ := hrow
  simp only [List.mem_map] at hc
  obtain ⟨tc, _, rfl⟩ := hc
  exact (C16.odt_span_bounded tc).1.1

theorem parseTable_length (tbl : Node) : (parseTable tbl).length = (parseRows tbl).length := by
  unfold parseTable processRowSpans
  rw [spanRows_length, limit_length]

/-- **odt_model_grid_bounded_authored** (bounded work, every `table:table` as authored). The
grid `Document()` allocates for an ODT table - rows, spans, declared columns and row-span
placeholders taken together - holds at most 2 x 2^20 cells, or no more than rows x the longest
row counted in `table:table-cell` elements: no attribute value multiplies it. (The factor 2:
placeholders pushed in front of a row can move its last cell across the right edge of the
width `limitTableGrid` judged the table by; a cell is never wider than that width.) -/
theorem odt_model_grid_bounded_authored (tbl : Node) :
    gridCells (toModelTable (parseTable tbl) (columnCount tbl))
      ≤ max (2 * 1048576) ((parseRows tbl).length * widest (parseRows tbl)) := by
  have hb := odt_model_grid_bounded (parseTable tbl) (columnCount tbl)
  rw [parseTable_length] at hb
  have hpos := parseRows_colSpan_pos tbl
  have hlive := parseRows_live tbl
  have hflat : processRowSpans (resetSpans (parseRows tbl)) = resetSpans (parseRows tbl) := by
    apply processRowSpans_flat
    intro row hrow c hc
    simp only [resetSpans, List.mem_map] at hrow
    obtain ⟨r0, _, rfl⟩ := hrow
    simp only [List.mem_map] at hc
    obtain ⟨c0, _, rfl⟩ := hc
    exact ⟨Nat.le_refl 1, Nat.le_refl 1⟩
  have hreset : modelColCount (resetSpans (parseRows tbl)) = widest (resetSpans (parseRows tbl)) := by
    apply modelColCount_unit
    intro row hrow c hc
    simp only [resetSpans, List.mem_map] at hrow
    obtain ⟨r0, hr0, rfl⟩ := hrow
    simp only [List.mem_map] at hc
    obtain ⟨c0, hc0, rfl⟩ := hc
    simp [gridWidth, hlive r0 hr0 c0 hc0]
  have hwidest : widest (resetSpans (parseRows tbl)) = widest (parseRows tbl) := by
    unfold widest resetSpans
    rw [List.foldl_map]
    simp
  have hw : (parseRows tbl).length * modelColCount (parseTable tbl)
      ≤ max (2 * 1048576) ((parseRows tbl).length * widest (parseRows tbl)) := by
    unfold parseTable
    by_cases hs : hasSpans (parseRows tbl) = true
    · by_cases hin : (parseRows tbl).length * colCount (parseRows tbl) ≤ maxTableGridCells
      · rw [limit_within _ hin]
        have h2 := processRowSpans_width (parseRows tbl) hlive
        have h3 : (parseRows tbl).length * modelColCount (processRowSpans (parseRows tbl))
            ≤ (parseRows tbl).length * (2 * colCount (parseRows tbl)) := Nat.mul_le_mul_left _ h2
        have h4 : (parseRows tbl).length * (2 * colCount (parseRows tbl)) = 2 * ((parseRows tbl).length * colCount (parseRows tbl)) := by
          rw [Nat.mul_left_comm]
        unfold maxTableGridCells at hin
        omega
      · rw [limit_beyond _ hs (by omega), hflat, hreset, hwidest]
        omega
    · have hs' : hasSpans (parseRows tbl) = false := by simpa using hs
      rw [limit_nospans _ hs']
      have hsame : processRowSpans (parseRows tbl) = parseRows tbl := by
        apply processRowSpans_flat
        intro row hrow c hc
        exact ⟨hpos row hrow c hc, (hasSpans_false _ hs' row hrow c hc).2⟩
      rw [hsame]
      have : modelColCount (parseRows tbl) = widest (parseRows tbl) := by
        apply modelColCount_unit
        intro row hrow c hc
        have h1 := hpos row hrow c hc
        have h2 := (hasSpans_false _ hs' row hrow c hc).1
        simp only [gridWidth, hlive row hrow c hc, Bool.false_eq_true, if_false]
        omega
      rw [this]
      omega
  omega

/-- **odt_model_table_cell**. In the table `ToModelTable` hands to the document model, the
authored cell number `i` of parsed row `r` (no covered placeholder, at least one column wide)
stands at row `r`, column = the grid widths of the cells before it in its row added up (a
covered placeholder counts one column, an authored cell its column span), with its text, its
row span and its column span - provided it starts inside the grid.
RESTATED with the exact condition `hcc`: the table declares no columns, or rows x declared
columns exceed 2^20 (in both cases the columns are counted from the cells and every cell starts
inside the grid), or the cell starts before the declared number of columns. -/
theorem odt_model_table_cell (rows : List (List Cell)) (cols r i : Nat) (row : List Cell) (c : Cell)
    (hr : rows[r]? = some row) (hc : row[i]? = some c) (hcov : c.covered = false) (hw : 1 ≤ c.colSpan)
    (hcc : cols = 0 ∨ rows.length * cols > 1048576 ∨ startCol gridWidth row i < cols) :
    ((toModelTable rows cols)[r]?).bind (·[startCol gridWidth row i]?)
      = some { text := c.text, rowSpan := c.rowSpan, colSpan := c.colSpan } := by
  have hne : rows ≠ [] := by intro h; rw [h] at hr; simp at hr
  have hgw : 1 ≤ gridWidth c := by simp [gridWidth, hcov, hw]
  unfold toModelTable
  simp only [hne, if_false]
  have hlt : startCol gridWidth row i < gridCols rows cols := by
    have hm := startCol_lt_modelColCount rows r i row c hr hc hgw
    cases hcc with
    | inl h => subst h; rw [odt_grid_undeclared]; exact hm
    | inr h =>
      cases h with
      | inl h => rw [odt_grid_declared_beyond rows cols h]; exact hm
      | inr h =>
        by_cases hb : rows.length * cols ≤ 1048576
        · by_cases h0 : cols = 0
          · subst h0; omega
          · rw [odt_grid_declared_within rows cols h0 hb]; exact h
        · rw [odt_grid_declared_beyond rows cols (by omega)]; exact hm
  exact model_grid_cell gridWidth (fun c : Cell => c.covered) mcellOf _ rows r i row c hr hc hcov hgw hlt

/-- non-vacuity: the 2x2 merge of `Props/C16.lean` after `processRowSpans`, in the document model -/
example :
    let c (t : Str) (cs rs : Nat) : Cell := { text := t, colSpan := cs, rowSpan := rs, covered := false }
    toModelTable (processRowSpans [[c [65] 2 2, c [66] 1 1], [c [67] 1 1]]) 0
      = [[⟨[65], 2, 2⟩, blankCell, ⟨[66], 1, 1⟩], [blankCell, blankCell, ⟨[67], 1, 1⟩]] := by decide +kernel

/-- one declared column fewer than the cells take: the grid is two columns wide and the third
cell of the first row is left out; declared columns out of proportion (2 x 600000 > 2^20) are
not believed and the grid is as wide as the cells -/
example :
    let c (t : Str) : Cell := { text := t, colSpan := 1, rowSpan := 1, covered := false }
    toModelTable [[c [65], c [66], c [67]], [c [68]]] 2 = [[⟨[65], 1, 1⟩, ⟨[66], 1, 1⟩], [⟨[68], 1, 1⟩, blankCell]]
    ∧ toModelTable [[c [65], c [66], c [67]], [c [68]]] 600000
        = [[⟨[65], 1, 1⟩, ⟨[66], 1, 1⟩, ⟨[67], 1, 1⟩], [⟨[68], 1, 1⟩, blankCell, blankCell]] := by decide +kernel

/-- the edge: 1024 rows x 1024 declared columns = 2^20 exactly - the declared columns size the
grid; one row more, or one column more, and the columns are counted from the cells (here: one) -/
def oneCell : Cell := { text := [65], colSpan := 1, rowSpan := 1, covered := false }

example : gridCols (List.replicate 1024 [oneCell]) 1024 = 1024
    ∧ gridCols (List.replicate 1025 [oneCell]) 1024 = modelColCount (List.replicate 1025 [oneCell])
    ∧ gridCols (List.replicate 1024 [oneCell]) 1025 = modelColCount (List.replicate 1024 [oneCell])
    ∧ modelColCount (List.replicate 1025 [oneCell]) = 1 ∧ modelColCount (List.replicate 1024 [oneCell]) = 1 := by
  refine ⟨?_, ?_, ?_, by decide +kernel, by decide +kernel⟩
  · exact odt_grid_declared_within _ _ (by decide) (by rw [List.length_replicate]; decide)
  · exact odt_grid_declared_beyond _ _ (by rw [List.length_replicate]; decide)
  · exact odt_grid_declared_beyond _ _ (by rw [List.length_replicate]; decide)

/-- the size of the grid before the repair: rows x declared columns, whatever their number -/
theorem toModelTableOld_cells (rows : List (List Cell)) (cols : Nat) (hc : cols ≠ 0) :
    gridCells (toModelTableOld rows cols) = rows.length * cols := by
  unfold toModelTableOld
  by_cases hne : rows = []
  · subst hne; simp [gridCells]
  · simp only [hne, hc, if_false, ne_eq, not_false_eq_true, if_true]
    exact model_grid_cells gridWidth (fun c : Cell => c.covered) mcellOf _ rows

/-- **odt_model_grid_pinned_counterexample**. The witness of the repaired defect (3b0df50): 128
rows of one cell under 128 `table:table-column` elements repeated 1024 times each - 131072
declared columns, an 850-byte document. Before the repair `ToModelTable` allocated
128 x 131072 = 16.7 million cells; now it allocates 128, one per row, and the bound of
`odt_model_grid_bounded` holds. -/
theorem odt_model_grid_pinned_counterexample :
    gridCells (toModelTableOld (List.replicate 128 [oneCell]) 131072) = 16777216
    ∧ ¬ gridCells (toModelTableOld (List.replicate 128 [oneCell]) 131072)
        ≤ max 1048576 ((List.replicate 128 [oneCell]).length * modelColCount (List.replicate 128 [oneCell]))
    ∧ gridCells (toModelTable (List.replicate 128 [oneCell]) 131072) = 128 := by
  have hm : modelColCount (List.replicate 128 [oneCell]) = 1 := by decide +kernel
  have hold : gridCells (toModelTableOld (List.replicate 128 [oneCell]) 131072) = 16777216 := by
    rw [toModelTableOld_cells _ _ (by decide), List.length_replicate]
  refine ⟨hold, ?_, ?_⟩
  · rw [hold, hm, List.length_replicate]
    decide
  · rw [(odt_model_grid_cells _ _).2, odt_grid_declared_beyond _ _ (by rw [List.length_replicate]; decide), hm, List.length_replicate]

/-! ### header and footer of the master pages -/

theorem excluded_default (hdr ftr : List Str) (t : Str) : excluded {} hdr ftr t = false := by
  unfold excluded Tabula.HF.shouldExcludeParagraph
  simp

theorem textPieces_default_headers (rd : Reader) (h f : List Str) :
    ∀ (els : List ElemX) (cs : Counters),
      textPieces rd {} els cs = textPieces { rd with headerTexts := h, footerTexts := f } {} els cs := by
  intro els
  induction els with
  | nil => intro cs; rfl
  | cons e rest ih =>
    intro cs
    have hp : textPiece rd {} e cs = textPiece { rd with headerTexts := h, footerTexts := f } {} e cs := by
      obtain ⟨el, st, n⟩ := e
      cases el with
      | para p => simp only [textPiece, excluded_default, Bool.false_eq_true, if_false]
      | table rows => rfl
    simp only [textPieces, hp, ih]

theorem mdLoop_default_headers (rd : Reader) (h f : List Str) (o : MdOptions) :
    ∀ (els : List ElemX) (i : Nat) (s : MdState),
      mdLoop rd {} o els i s = mdLoop { rd with headerTexts := h, footerTexts := f } {} o els i s := by
  intro els
  induction els with
  | nil => intro i s; rfl
  | cons e rest ih =>
    intro i s
    have hp : mdStep rd {} o i e s = mdStep { rd with headerTexts := h, footerTexts := f } {} o i e s := by
      obtain ⟨el, st, n⟩ := e
      cases el with
      | para p => simp only [mdStep, excluded_default, Bool.false_eq_true, if_false]
      | table rows => rfl
    simp only [mdLoop, hp, ih]

/-- **odt_headers_never_leak**. With the default options the plain text, the Markdown and the
document model do not depend on the header and footer texts of the master pages: whatever
they hold, nothing of it reaches the body. -/
theorem odt_headers_never_leak (rd : Reader) (h f : List Str) (o : MdOptions) :
    text rd = text { rd with headerTexts := h, footerTexts := f }
    ∧ markdownWithRAGOptions rd {} o = markdownWithRAGOptions { rd with headerTexts := h, footerTexts := f } {} o
    ∧ document rd = document { rd with headerTexts := h, footerTexts := f } := by
  refine ⟨?_, ?_, rfl⟩
  · unfold text textWithOptions
    rw [textPieces_default_headers rd h f]
  · unfold markdownWithRAGOptions markdownRaw
    rw [mdLoop_default_headers rd h f]

/-! ### the end-to-end statement over the public API's model -/

/-- the texts an element shows with the default options -/
def shownText (e : Elem) : List Str :=
  match e with
  | .para p => [p.text]
  | .table rows => tableTextCells (rrows rows)

/-- the statement of `odt_end_to_end` about the reader `Open` builds -/
theorem odt_reader_end_to_end (docTag bodyTag : Str) (da ba ta : List (Str × Str)) (pre kids post : List Node) (styles : Option Node)
    (hdoc : docTag ≠ sOfficeText) (hbody : bodyTag ≠ sOfficeText)
    (hpre : noTextList pre = true) (hpost : noTextList post = true) (hk : noTextList kids = true)
    (hdec : decodesList kids = true) :
    let content : Node := .elem docTag da (pre ++ [.elem bodyTag ba [.elem sOfficeText ta kids]] ++ post)
    let rd := openReader content styles
    let els := elemsOfList (allStyles content styles) kids
    rd.elements.map (·.elem) = els
    ∧ InOrder (els.map shownText).flatten (text rd)
    ∧ InOrder (els.map (mdTexts rd {})).flatten (markdownRaw rd {} {})
    ∧ (∃ a b, markdownRaw rd {} {} = a ++ markdown rd ++ b ∧ (∀ c ∈ a, c = 10) ∧ (∀ c ∈ b, c = 10))
    ∧ flattenDoc (document rd) = rd.elements.filterMap entryOf := by
  intro content rd els
  have hels : rd.elements.map (·.elem) = els := by
    rw [odt_reader_elements]
    exact C16.odt_elements_interleave docTag bodyTag da ba ta pre kids post styles hdoc hbody hpre hpost hk hdec
  refine ⟨hels, ?_, ?_, odt_markdown_trim rd {} {}, odt_document_flatten rd⟩
  · have := odt_text_in_order rd {}
    have hshown : (rd.elements.map fun e => textTexts rd {} e.elem) = els.map shownText := by
      rw [← hels, List.map_map]
      apply List.map_congr_left
      intro e _
      simp only [Function.comp]
      cases e.elem with
      | para p => simp [textTexts, shownText, excluded_default]
      | table rows => rfl
    rw [hshown] at this
    exact this
  · have := odt_markdown_in_order rd {} {}
    have hmd : (rd.elements.map fun e => mdTexts rd {} e.elem) = els.map (mdTexts rd {}) := by
      rw [← hels, List.map_map]; rfl
    rw [hmd] at this
    exact this

/-- **odt_end_to_end**. For every content.xml tree whose `office:text` sits in `office:body`
(nothing else named `office:text`) and every styles.xml: `Open` succeeds and the reader's
elements are what the children of `office:text` stand for, in source order (`elemsOfList`:
paragraphs, headings, the items of lists with their nesting level, tables; wrappers in place);
`Text()` shows their texts in that order, so does the Markdown buffer, of which `Markdown()` cuts
only newlines at the ends; the page of `Document()`, lists taken apart, is these elements in that
order with their heading levels, list levels and table grids.
RESTATED (was: for every such tree; then: with `hdec`, and beyond the bound a silently truncated
document): with `hdec` - every body element is decoded to its end, i.e. no paragraph of a body
element nests `text:span` / `text:a` deeper than `maxInlineDepth` = 10000
(`C16Bounds.odt_decodes_iff_depth`) - `Open` succeeds and the reader presents the body as stated.
Beyond the bound `odt_refused`: `Open` returns an error, nothing is presented - a document is
shown in full or not at all. -/
theorem odt_end_to_end (docTag bodyTag : Str) (da ba ta : List (Str × Str)) (pre kids post : List Node) (styles : Option Node)
    (hdoc : docTag ≠ sOfficeText) (hbody : bodyTag ≠ sOfficeText)
    (hpre : noTextList pre = true) (hpost : noTextList post = true) (hk : noTextList kids = true)
    (hdec : decodesList kids = true) :
    let content : Node := .elem docTag da (pre ++ [.elem bodyTag ba [.elem sOfficeText ta kids]] ++ post)
    ∃ rd, openReader? content styles = some rd ∧
      (let els := elemsOfList (allStyles content styles) kids
       rd.elements.map (·.elem) = els
       ∧ InOrder (els.map shownText).flatten (text rd)
       ∧ InOrder (els.map (mdTexts rd {})).flatten (markdownRaw rd {} {})
       ∧ (∃ a b, markdownRaw rd {} {} = a ++ markdown rd ++ b ∧ (∀ c ∈ a, c = 10) ∧ (∀ c ∈ b, c = 10))
       ∧ flattenDoc (document rd) = rd.elements.filterMap entryOf) := by
  intro content
  refine ⟨openReader content styles, ?_, odt_reader_end_to_end docTag bodyTag da ba ta pre kids post styles hdoc hbody hpre hpost hk hdec⟩
  have hf : (bodyWalkX content styles).failed = (bodyWalk content styles).failed :=
    congrArg Walk.failed (bodyWalkX_erase content styles)
  rw [C16.odt_body_walk_within docTag bodyTag da ba ta pre kids post styles hdoc hbody hpre hpost hk hdec] at hf
  unfold openReader?
  rw [hf]
  rfl

/-- **odt_refused**. A content.xml in which a paragraph of a body element nests `text:span` /
`text:a` deeper than `maxInlineDepth` is refused: `odt.Open` returns the error of
`parseContent`, so there is no element list and no view (the three `tabula.Open(f)` views return
the error) - what `docx_refused` says of the DOCX reader. -/
theorem odt_refused (docTag bodyTag : Str) (da ba ta : List (Str × Str)) (pre kids post : List Node) (styles : Option Node)
    (hdoc : docTag ≠ sOfficeText) (hbody : bodyTag ≠ sOfficeText)
    (hpre : noTextList pre = true) (hk : noTextList kids = true)
    (hdec : decodesList kids = false) :
    let content : Node := .elem docTag da (pre ++ [.elem bodyTag ba [.elem sOfficeText ta kids]] ++ post)
    openElements content styles = none ∧ openReader? content styles = none := by
  intro content
  have h1 := C16.odt_elements_refused docTag bodyTag da ba ta pre kids post styles hdoc hbody hpre hk hdec
  have hf : (bodyWalkX content styles).failed = (bodyWalk content styles).failed :=
    congrArg Walk.failed (bodyWalkX_erase content styles)
  unfold openElements openReader?
  rw [hf, h1]
  exact ⟨rfl, rfl⟩

/-- **odt_headers_never_leak** through `Open`: whether the package opens does not depend on the
master pages' header and footer texts (`openReader?` reads them after the body and never fails on
them), and with the default options neither do the three views. -/
theorem odt_headers_never_leak_open (content : Node) (styles : Option Node) (h f : List Str) (o : MdOptions) :
    (openReader? content styles).map text = (openReader? content styles).map (fun rd => text { rd with headerTexts := h, footerTexts := f })
    ∧ (openReader? content styles).map (markdownWithRAGOptions · {} o)
        = (openReader? content styles).map (fun rd => markdownWithRAGOptions { rd with headerTexts := h, footerTexts := f } {} o)
    ∧ (openReader? content styles).map document = (openReader? content styles).map (fun rd => document { rd with headerTexts := h, footerTexts := f }) := by
  cases openReader? content styles with
  | none => exact ⟨rfl, rfl, rfl⟩
  | some rd =>
    have := odt_headers_never_leak rd h f o
    simp only [Option.map_some]
    exact ⟨congrArg some this.1, congrArg some this.2.1, congrArg some this.2.2⟩

/-! ### the public API layer -/

theorem mdHeadingLevel_api (l : Nat) : mdHeadingLevel { offset := 0, maxLevel := 6 } l = mdHeadingLevel {} l := by
  unfold mdHeadingLevel
  simp only
  repeat' split
  all_goals omega

theorem mdLoop_congr (rd : Reader) (opts : ExtractOptions) (o o' : MdOptions) (hl : ∀ l, mdHeadingLevel o l = mdHeadingLevel o' l) :
    ∀ (els : List ElemX) (i : Nat) (s : MdState), mdLoop rd opts o els i s = mdLoop rd opts o' els i s := by
  intro els
  induction els with
  | nil => intro i s; rfl
  | cons e rest ih =>
    intro i s
    have hp : mdStep rd opts o i e s = mdStep rd opts o' i e s := by
      obtain ⟨el, st, n⟩ := e
      cases el with
      | para p => simp only [mdStep, hl]
      | table rows => rfl
    simp only [mdLoop, hp, ih]

/-- **api_views**. `tabula.Open(f).Text()` is the reader's `TextWithOptions` with the
extractor's switches; `.ToMarkdown()` - which passes `rag.DefaultMarkdownOptions()`, heading
cap 6 - is the reader's `MarkdownWithOptions`; `.Document()` is the reader's `Document()`.
With no switch set they are `Text()`, `Markdown()` and `Document()`. -/
theorem api_views (rd : Reader) (a : ApiOptions) :
    apiText rd a = textWithOptions rd { excludeHeaders := a.excludeHeaders, excludeFooters := a.excludeFooters }
    ∧ apiMarkdown rd a = markdownWithOptions rd { excludeHeaders := a.excludeHeaders, excludeFooters := a.excludeFooters }
    ∧ apiDocument rd = document rd
    ∧ apiText rd {} = text rd ∧ apiMarkdown rd {} = markdown rd := by
  have h : ∀ opts, markdownWithRAGOptions rd opts { offset := 0, maxLevel := 6 } = markdownWithOptions rd opts := by
    intro opts
    unfold markdownWithOptions markdownWithRAGOptions markdownRaw
    rw [mdLoop_congr rd opts _ {} mdHeadingLevel_api]
  exact ⟨rfl, h _, rfl, rfl, h _⟩

/-! ### calls on one reader -/

inductive View where
  | text | markdown | rag | document | modelTables | parsed
deriving Repr, DecidableEq

inductive Answer where
  | str (s : Str)
  | doc (d : List DocElem)
  | tables (t : List (List (List MCell)))
  | elems (e : List Elem)
deriving Repr, DecidableEq

def answer (rd : Reader) (opts : ExtractOptions) (o : MdOptions) : View → Answer
  | .text => .str (textWithOptions rd opts)
  | .markdown => .str (markdownWithOptions rd opts)
  | .rag => .str (markdownWithRAGOptions rd opts o)
  | .document => .doc (document rd)
  | .modelTables => .tables (modelTables rd)
  | .parsed => .elems (rd.elements.map (·.elem))

def call (rd : Reader) (opts : ExtractOptions) (o : MdOptions) (v : View) : Reader × Answer := (rd, answer rd opts o v)

def session (opts : ExtractOptions) (o : MdOptions) : Reader → List View → List Answer
  | _, [] => []
  | rd, v :: rest => (call rd opts o v).2 :: session opts o (call rd opts o v).1 rest

/-- **odt_views_history_independent** -/
theorem odt_views_history_independent (rd : Reader) (opts : ExtractOptions) (o : MdOptions) (calls : List View) :
    session opts o rd calls = calls.map (answer rd opts o) := by
  induction calls with
  | nil => rfl
  | cons v rest ih => simp [session, call, ih]

end Tabula.C16RenderOdt
