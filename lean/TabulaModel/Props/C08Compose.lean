import TabulaModel.Props.C08Forms
import TabulaModel.Props.C08Text
/-!
# C08 — composition: every fragment's origin, through forms and through the public API

`origin_exact_spec` (Props/C08Text.lean) is about `Do`-free programs.  Here it is chained
with `forms_spelled_out` (forms nested to any depth) and with `extract_unfolds` (the model
of the public entry points: names, resource scopes, nesting limit, budget, operand checks),
as `origin_spec` is in Props/C08Forms.lean — now for EVERY fragment, with the displacement
function the code computes.
-/
namespace Tabula.C08Compose
open Tabula Tabula.Matrix Tabula.GState Tabula.XDoc Tabula.C08 Tabula.C08Forms Tabula.C08Text Tabula.TextAdv

variable {α : Type} [Lean.Grind.Field α] [DecidableEq α] [LT α] [DecidableLT α]

/-- **every origin, through forms nested to any depth**: for every program whose forms have
balanced content (the program itself balanced or not), run with the displacement function
the code computes, the extractor fails exactly when ISO 32000's definition fails on the
program with every form spelled out as `q /Matrix cm content Q`, and otherwise reports for
EVERY fragment — on the page, inside forms, inside forms inside forms — the origin
`(Tm.e, Tm.f + Trise)` through the CTM and the size factors that the definition gives
(text matrix advanced glyph by glyph, `TJ` numbers, `Tc Tw Tz Tf`, line operators). -/
theorem origin_exact_spec_forms (info : Nat → StrInfo α) (glyphs : Nat → List (Glyph α))
    (hinfo : ∀ sid, info sid = summarize (glyphs sid)) (ops : List (Op α)) (h : FormsBalanced ops)
    (s : State α) :
    (run (advance info) ops s).map (·.map showReport) =
      (isoRun glyphs (spellOut s.xdepth ops) (isoState s)).map (·.map report) := by
  rw [forms_spelled_out (advance info) ops h s]
  exact origin_exact_spec info glyphs hinfo _ (noForm_of_formFree _ (formsBalanced_inline_formFree h _)) s

/-- **every origin, over the public API**: for every document (any object table: shared,
cyclic, malformed), every page content as the parser delivers it and every extractor state,
if the forms that `Extract` executes have balanced content then `Extract` fails exactly when
ISO 32000's definition fails on the unfolded, spelled-out page, and otherwise every fragment
it collects carries the origin and size factors of that definition. -/
theorem extract_origin_exact (info : Nat → StrInfo α) (glyphs : Nat → List (Glyph α))
    (hinfo : ∀ sid, info sid = summarize (glyphs sid)) (doc : Doc α) (ops : List (RawOp α)) (x : XState α)
    (hb : FormsBalanced (expandPage doc x.resources x.gs.xdepth ops { x.acct with bytes := 0 }).1) :
    (if (extractRaw (advance info) doc ops x).2.2 then none
     else some ((extractRaw (advance info) doc ops x).2.1.map fun f => showReport f.sh)) =
      (isoRun glyphs
        (spellOut x.gs.xdepth (expandPage doc x.resources x.gs.xdepth ops { x.acct with bytes := 0 }).1)
        (isoState x.gs)).map (·.map report) := by
  rw [← origin_exact_spec_forms info glyphs hinfo _ hb x.gs]
  unfold run
  rw [extract_unfolds (advance info) doc ops x]
  cases (extractRaw (advance info) doc ops x).2.2 <;> simp [List.map_map, Function.comp_def]

/-- … and from a condition on the document alone: every form object's content stream
balanced in q/Q, counted on the raw operations -/
theorem extract_origin_exact_doc (info : Nat → StrInfo α) (glyphs : Nat → List (Glyph α))
    (hinfo : ∀ sid, info sid = summarize (glyphs sid)) (doc : Doc α) (hdoc : DocBalanced doc)
    (ops : List (RawOp α)) (x : XState α) :
    (if (extractRaw (advance info) doc ops x).2.2 then none
     else some ((extractRaw (advance info) doc ops x).2.1.map fun f => showReport f.sh)) =
      (isoRun glyphs
        (spellOut x.gs.xdepth (expandPage doc x.resources x.gs.xdepth ops { x.acct with bytes := 0 }).1)
        (isoState x.gs)).map (·.map report) :=
  extract_origin_exact info glyphs hinfo doc ops x (expandPage_formsBalanced doc hdoc _ _ _ _)

/-- the hypotheses are satisfiable together (any glyph table; the cyclic document of
Props/C08Forms.lean has balanced form contents) -/
example (glyphs : Nat → List (Glyph Rat)) (doc : Doc Rat) (hdoc : DocBalanced doc) (ops : List (RawOp Rat))
    (x : XState Rat) :=
  extract_origin_exact_doc (fun sid => summarize (glyphs sid)) glyphs (fun _ => rfl) doc hdoc ops x

end Tabula.C08Compose
