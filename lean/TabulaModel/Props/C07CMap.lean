import TabulaModel.Lemmas.CMapCompose
/-! # C07 — whole-program ToUnicode CMap round trip

Every ToUnicode CMap the independent writer (`Model/CMapRender.lean`, compared byte for byte
with the Go writer of harness/c07/cmaps.go by op `c07.render`) produces — bfchar, bfrange with
offset or array targets, code spaces of 1 to 4 bytes, multi-character and supplementary-plane
targets, with or without line breaks — is parsed by the model of `font.parseCMapData`
(tied to tabula by ops `c07.cmapstate` / `c07.cmap` / `c07.lookup`) and looked up to exactly
the specified text: from the WHOLE program text (keyword search for the sections, the
code-space section, sections of at most 100 items of either kind in any number) through the
token scanners, hex readers, UTF-16 target decoding, the direct map and the ranges, the width
rule and the shift-or code assembly of `LookupString`.

Proofs and helper lemmas: `Lemmas/CMapProgram.lean` (locating sections), `Lemmas/CMapSection.lean`
(what a section does to the state), `Lemmas/CMapCompose.lean` (composition; the definitions
`allItems`, `directEntries`, `offsetRuns`, `offsetEntries`, `Functional`, `Specified`, `MapOK`).

1. `parse_program_state`: the state the parser reaches on a whole rendered program.
2. `emit_specified` / `cmap_roundtrip_program`: any list of well-formed sections whose direct
   entries and offset entries are functions; a direct definition takes precedence over a range.
3. `cmap_roundtrip`: the five forms of the writer (bfchar / bfrange-offset / bfrange-array /
   mixed / range-then-bfchar-override), for EVERY policy (LF, CRLF or everything on one line;
   tight; upper- or lower-case hex; arrays wrapped after any number of elements), width 1–4
   and code→text map. This is the full statement that `C07.cmap_roundtrip_partial` left open.
-/
namespace Tabula.C07CMap
open Tabula.UTF16 Tabula.CMap
open Tabula.CMapCompose (allItems directEntries offsetRuns offsetEntries Functional Specified MapOK)

/-- the state of the parsed whole program: the direct map holds exactly the direct entries
(bfchar items, then array items; newest first), the ranges are the offset items in program
order, and the width fields say `w` -/
theorem parse_program_state (p : Policy) (w : Nat) (hw1 : 1 ≤ w) (hw4 : w ≤ 4) (secs : List Section)
    (hs : ∀ s ∈ secs, SectionOK w s) :
    let cm := parseCMapData (renderProgram p w secs)
    cm.chars = (directEntries secs).reverse ∧ cm.ranges = (offsetRuns secs).map Run.range ∧ WidthInv w cm :=
  CMapCompose.parse_program_state p w hw1 hw4 secs hs

/-- one specified code decodes to its specified text -/
theorem emit_specified (p : Policy) (w : Nat) (hw1 : 1 ≤ w) (hw4 : w ≤ 4) (secs : List Section)
    (hs : ∀ s ∈ secs, SectionOK w s)
    (hd : Functional (directEntries secs)) (ho : Functional (offsetEntries secs))
    (e : Nat × List Nat) (he : Specified secs e) :
    emit (parseCMapData (renderProgram p w secs)) e.1 = e.2 :=
  CMapCompose.emit_specified p w hw1 hw4 secs hs hd ho e he

/-- any string of specified codes decodes to the concatenation of the specified texts -/
theorem cmap_roundtrip_program (p : Policy) (w : Nat) (hw1 : 1 ≤ w) (hw4 : w ≤ 4) (secs : List Section)
    (hs : ∀ s ∈ secs, SectionOK w s) (hd : Functional (directEntries secs)) (ho : Functional (offsetEntries secs))
    (sel : List (Nat × List Nat)) (hsel : ∀ e ∈ sel, Specified secs e) :
    lookupString (parseCMapData (renderProgram p w secs)) ((sel.map (·.1)).flatMap (codeBytes w)) = sel.flatMap (·.2) :=
  CMapCompose.cmap_roundtrip_program p w hw1 hw4 secs hs hd ho sel hsel

/-- **cmap_roundtrip**: for every formatting policy, every form of the writer, every code
width 1–4 and every code→text map (runs of consecutive codes; arbitrary non-empty scalar
targets — multi-character, combining, supplementary plane; for the forms that write
`<lo> <hi> <text0>` the texts of a run advance in their last UTF-16 unit, as the CMap rules
require), the whole rendered program parses and looks up to exactly the specified texts -/
theorem cmap_roundtrip (p : Policy) (f : Form) (w : Nat) (hw1 : 1 ≤ w) (hw4 : w ≤ 4) (runs : List Run)
    (hm : MapOK w runs)
    (hoff : f = .bfchar ∨ f = .array ∨ ∀ r ∈ runs, RunOffsetOK r)
    (sel : List (Nat × List Nat)) (hsel : ∀ e ∈ sel, e ∈ entriesFor f runs) :
    lookupString (parseCMapData (renderMap p f w runs)) ((sel.map (·.1)).flatMap (codeBytes w)) = sel.flatMap (·.2) :=
  CMapCompose.cmap_roundtrip p f w hw1 hw4 runs hm hoff sel hsel

/-- the hypotheses are satisfiable by a non-trivial map: a run of three two-character targets
written as an offset range, and a supplementary-plane target at the last but one 1-byte code -/
example :
    let runs : List Run := [⟨0x41, [[0x66, 0x61], [0x66, 0x62], [0x66, 0x63]]⟩, ⟨0xFE, [[0x1D400]]⟩]
    MapOK 1 runs ∧ ∀ r ∈ runs, RunOffsetOK r := by
  intro runs
  have hsc : ∀ t ∈ [[0x66, 0x61], [0x66, 0x62], [0x66, 0x63], [0x1D400]], TextOK t := by
    intro t ht
    simp only [List.mem_cons, List.mem_nil_iff, or_false] at ht
    rcases ht with rfl | rfl | rfl | rfl
    · exact ⟨by intro x hx; simp at hx; rcases hx with rfl | rfl <;> (unfold IsScalar; omega), by simp, by simp⟩
    · exact ⟨by intro x hx; simp at hx; rcases hx with rfl | rfl <;> (unfold IsScalar; omega), by simp, by simp⟩
    · exact ⟨by intro x hx; simp at hx; rcases hx with rfl | rfl <;> (unfold IsScalar; omega), by simp, by simp⟩
    · exact ⟨by intro x hx; simp at hx; subst hx; unfold IsScalar; omega, by simp, by simp⟩
  refine ⟨⟨?_, by decide⟩, ?_⟩
  · intro r hr
    simp only [runs, List.mem_cons, List.mem_nil_iff, or_false] at hr
    rcases hr with rfl | rfl
    · exact ⟨by simp, by simp, fun t ht => hsc t (by simp at ht ⊢; rcases ht with h | h | h <;> simp [h])⟩
    · exact ⟨by simp, by simp, fun t ht => hsc t (by simp at ht ⊢; simp [ht])⟩
  · intro r hr
    simp only [runs, List.mem_cons, List.mem_nil_iff, or_false] at hr
    rcases hr with rfl | rfl
    · intro i t hi
      match i, hi with
      | 0, hi => simp at hi; subst hi; decide
      | 1, hi => simp at hi; subst hi; decide
      | 2, hi => simp at hi; subst hi; decide
      | n + 3, hi => simp at hi
    · intro i t hi
      match i, hi with
      | 0, hi => simp at hi; subst hi; decide
      | n + 1, hi => simp at hi

/-- one instance evaluated: the override form on one line with lower-case hex; code `0x42` has
the later bfchar text `#fb`, the other codes the texts of their ranges -/
example :
    lookupString (parseCMapData (renderMap { oneLine := true, upper := false } .override 1
      [⟨0x41, [[0x66, 0x61], [0x66, 0x62], [0x66, 0x63]]⟩, ⟨0xFE, [[0x1D400]]⟩])) [0x42, 0x41, 0xFE] =
      [0x23, 0x66, 0x62, 0x66, 0x61, 0x1D400] := by
  decide +kernel


end Tabula.C07CMap
