import TabulaModel.Props.C08
import TabulaModel.Lemmas.TextAdv
/-!
# C08 — what a shown string does to the text matrix: advances, `TJ`, `Tc Tw Tz`, `Ts`

`Props/C08.lean` speaks about the first show after a positioning step and treats the
displacement of the text matrix by a shown string as an arbitrary function.  This file closes
that gap for the code as it is after the two `fix:` commits 9b7ee04 and 6121d81:

* part A (any commutative ring, any displacement function): `AdvanceText` pre-multiplies
  (`Tm := T(tx,0) × Tm`), a show or a `TJ` array touches nothing but the text matrix — in
  particular not the text LINE matrix, so every line-relative operator after it starts from
  the start of the line — the algebra of `TJ` arrays, and the exact origin of EVERY string of
  a `TJ` array;
* part B (any field of characteristic 0, the displacement function the code computes,
  `Model/TextAdv.lean`): the effect of `Tc`, `Tw`, `Tz` on it, `0 Tz` makes every
  displacement 0, the code's one displacement per string is ISO 32000-1 9.4.4's
  glyph-by-glyph rule, and the `TJ` number rule;
* part C: a denotational definition of ISO 32000-1 (Tables 57, 105–109 and 9.4.4) in which
  the text matrix is always known, and `origin_exact_spec`: for every `Do`-free program the
  extractor reports, for EVERY fragment, the origin and size factors of that definition;
* the text rise: where the code's way of applying it agrees with ISO 32000 and where not.
-/
namespace Tabula.C08Text
open Tabula Tabula.Matrix Tabula.GState Tabula.C08 Tabula.TextAdv

variable {α : Type}

/-! ## A. `AdvanceText`, shows and `TJ` arrays, for any displacement function -/

section
variable [Lean.Grind.CommRing α] [DecidableEq α] [LT α] [DecidableLT α]

omit [DecidableEq α] [LT α] [DecidableLT α] in
/-- **`AdvanceText` pre-multiplies**: after a displacement `tx` every text-space point `p`
maps to where `p + (tx,0)` mapped before (`Tm' = T(tx,0) × Tm`, ISO 32000-1 9.4.4): the
displacement is scaled and rotated with the text.  The line matrix, the CTM, every text
state parameter and the stack are untouched, and the next string is reported at the device
image of `(tx,0)·Tm` (raised by the text rise). -/
theorem advanceText_premultiplies (s : State α) (tx : α) :
    let s' := s.advanceText tx
    (∀ p, s'.cur.text.tm.transformPoint p = s.cur.text.tm.transformPoint (p.1 + tx, p.2)) ∧
      s'.cur.text.tm = (translate tx 0).mul s.cur.text.tm ∧
      s'.cur.text.tlm = s.cur.text.tlm ∧ s'.cur.ctm = s.cur.ctm ∧ s'.stack = s.stack ∧
      s'.cur.text.leading = s.cur.text.leading ∧ s'.cur.text.fontSize = s.cur.text.fontSize ∧
      s'.cur.text.rise = s.cur.text.rise ∧
      s'.getTextPosition = device s (riseUp s (s.cur.text.tm.transformPoint (tx, 0))) := by
  refine ⟨fun p => ?_, advanceText_tm s tx, rfl, rfl, rfl, rfl, rfl, rfl, ?_⟩
  · rw [advanceText_tm, transformPoint_mul, transformPoint_translate]
    have : p.2 + 0 = p.2 := by grind
    rw [this]
  · have h := translate_mul_origin tx s.cur.text.tm
    rw [← advanceText_tm] at h
    have h1 := congrArg Prod.fst h
    have h2 := congrArg Prod.snd h
    simp only at h1 h2
    simp only [State.getTextPosition, device, riseUp]
    rw [← h1, ← h2]
    rfl

/-- the quoted witness of 6121d81: under a text matrix rotated by 90° a displacement of
11 moves the text position UP the page, not to the right -/
example : ((step (fun _ _ => 0) (.Tm ⟨0, 1, -1, 0, 100, 100⟩) (init : State Int)).1.advanceText 11).getTextPosition
    = (100, 111) := by decide

/-- **a show moves the text matrix by its displacement, and nothing else**: `Tj` reports
the string at the current text position and then calls `AdvanceText`. -/
theorem tj_advances (adv : Adv α) (sid : Nat) (s : State α) :
    step adv (.Tj sid) s =
      (s.advanceText (adv s.cur.text (.str sid)),
        [{ x := s.getTextPosition.1, y := s.getTextPosition.2, fs := s.cur.text.fontSize,
           tmScale2 := tmScale2 s.cur.text.tm, ctmScale2 := ctmScale2 s.cur.ctm,
           clean := !s.cur.text.dirty && decide (s.cur.text.rise = 0) }], false) := rfl

/-- **where the second of two consecutive strings is reported**: at the device image of
`(tx,0)·Tm`, `tx` the displacement of the first — on the baseline of the first, whatever the
text matrix (scaled, rotated, sheared) and the CTM are. -/
theorem second_show_origin (adv : Adv α) (sid sid2 : Nat) (s : State α) :
    let r := step adv (.Tj sid2) (step adv (.Tj sid) s).1
    r.2.1.map (fun sh => (sh.x, sh.y)) =
      [device s (riseUp s (s.cur.text.tm.transformPoint (adv s.cur.text (.str sid), 0)))] := by
  simp only [tj_advances, List.map_cons, List.map_nil]
  rw [(advanceText_premultiplies s _).2.2.2.2.2.2.2.2]

/-! ### shows do not touch the line matrix -/

/-- the operators that assign the text matrix from the line matrix or from scratch -/
def Positions : Op α → Prop
  | .Td _ _ | .TD _ _ | .Tstar | .Tm _ | .BT | .quote _ | .dquote _ _ _ => True
  | _ => False

/-- **a positioning operator forgets every show before it**: after any `Tj` or any `TJ`
array (strings and numbers) each of `Td TD T* Tm BT ' "` leaves exactly the state, and
reports exactly the fragments, it would have without the show — the text line matrix is
not moved by shown text nor by `TJ` adjustments (the defect repaired by 9b7ee04: a `TJ`
number used to overwrite the line matrix). -/
theorem positioning_forgets_shows (adv : Adv α) (op : Op α) (hop : Positions op) (s s' : State α)
    (h : SameLine s s') : step adv op s' = step adv op s := by
  have hs : s' = s.mapText fun t => { t with tm := s'.cur.text.tm, dirty := s'.cur.text.dirty } := h
  cases op <;> simp only [Positions] at hop <;> rw [hs] <;> rfl

theorem positioning_after_TJ (adv : Adv α) (op : Op α) (hop : Positions op) (items : List (TJItem α))
    (s : State α) : step adv op (step adv (.TJ items) s).1 = step adv op s :=
  positioning_forgets_shows adv op hop s _ (sameLine_showTextArray adv items s)

theorem positioning_after_Tj (adv : Adv α) (op : Op α) (hop : Positions op) (sid : Nat) (s : State α) :
    step adv op (step adv (.Tj sid) s).1 = step adv op s :=
  positioning_forgets_shows adv op hop s _ (sameLine_showText adv sid s)

/-- the witness of 9b7ee04, `100 700 Td 14 TL [(Hello) -250 (World)] TJ T* (next) Tj`:
whatever the displacements are, `next` is reported at (100, 686) -/
example (adv : Adv Int) :
    ((run adv [.BT, .Td 100 700, .TL 14, .TJ [.str 0, .num (-250), .str 1], .Tstar, .Tj 2] init).map
      fun l => (l.drop 2).map fun sh => (sh.x, sh.y, sh.clean)) = some [(100, 686, true)] := by
  simp [run, exec, step, stepBasic, showTextArray, showText, State.getTextPosition, State.advanceText,
    State.mapText, State.nextLine, State.translateText, State.setLeading, State.beginText, init, initText,
    Matrix.mul, Matrix.translate, Matrix.identity, Matrix.transformPoint]

/-! ### the algebra of `TJ` arrays -/

/-- an empty array does nothing; an array of one string is `Tj`; arrays concatenate -/
theorem TJ_nil (adv : Adv α) (s : State α) : step adv (.TJ []) s = (s, [], false) := rfl

theorem TJ_singleton (adv : Adv α) (sid : Nat) (s : State α) :
    step adv (.TJ [.str sid]) s = step adv (.Tj sid) s := rfl

theorem TJ_append (adv : Adv α) (a b : List (TJItem α)) (s : State α) :
    step adv (.TJ (a ++ b)) s =
      ((step adv (.TJ b) (step adv (.TJ a) s).1).1,
        (step adv (.TJ a) s).2.1 ++ (step adv (.TJ b) (step adv (.TJ a) s).1).2.1, false) := by
  simp only [step, stepBasic, showTextArray_append]

/-- a number alone moves the text matrix by its displacement and reports nothing -/
theorem TJ_number (adv : Adv α) (v : α) (s : State α) :
    step adv (.TJ [.num v]) s = (s.advanceText (adv s.cur.text (.num v)), [], false) := rfl

/-! ### the origin of every string of a `TJ` array -/

/-- the displacement function does not look at the text matrix (nor at the ghost flag):
true of the function the code computes (`advance_tmBlind`) -/
def TmBlind (adv : Adv α) : Prop :=
  ∀ (t : TextState α) (m : Matrix α) (b : Bool) (it : TJItem α), adv { t with tm := m, dirty := b } it = adv t it

/-- the text-space x offsets at which the strings of an array start: running sum of the
displacements of everything before them -/
def offsets (adv : Adv α) (t : TextState α) : List (TJItem α) → α → List α
  | [], _ => []
  | .str sid :: rest, acc => acc :: offsets adv t rest (acc + adv t (.str sid))
  | .num v :: rest, acc => offsets adv t rest (acc + adv t (.num v))

theorem showTextArray_origins (adv : Adv α) (hb : TmBlind adv) (items : List (TJItem α)) (s0 : State α)
    (acc : α) (b : Bool) :
    (showTextArray adv items
        (s0.mapText fun t => { t with tm := (translate acc 0).mul s0.cur.text.tm, dirty := b })).2.map
      (fun sh => (sh.x, sh.y)) =
      (offsets adv s0.cur.text items acc).map fun X =>
        device s0 (riseUp s0 (s0.cur.text.tm.transformPoint (X, 0))) := by
  induction items generalizing acc b with
  | nil => rfl
  | cons it rest ih =>
    have hadv : ∀ it', adv (s0.mapText fun t => { t with tm := (translate acc 0).mul s0.cur.text.tm, dirty := b }).cur.text it'
        = adv s0.cur.text it' := fun it' => hb s0.cur.text _ b it'
    have hstep : ∀ tx, (s0.mapText fun t => { t with tm := (translate acc 0).mul s0.cur.text.tm, dirty := b }).advanceText tx
        = s0.mapText fun t => { t with tm := (translate (acc + tx) 0).mul s0.cur.text.tm, dirty := true } := by
      intro tx
      have h := advanceText_tm (s0.mapText fun t => { t with tm := (translate acc 0).mul s0.cur.text.tm, dirty := b }) tx
      rw [show (s0.mapText fun t => { t with tm := (translate acc 0).mul s0.cur.text.tm, dirty := b }).cur.text.tm
        = (translate acc 0).mul s0.cur.text.tm from rfl, translate_translate_mul] at h
      simp only [State.advanceText, State.mapText] at h ⊢
      simp only [h]
    cases it with
    | str sid =>
      simp only [showTextArray, offsets, List.map_cons, showText, hadv, hstep]
      rw [ih]
      congr 1
      have h := translate_mul_origin acc s0.cur.text.tm
      have h1 := congrArg Prod.fst h
      have h2 := congrArg Prod.snd h
      simp only at h1 h2
      simp only [State.getTextPosition, State.mapText, device, riseUp]
      rw [← h1, ← h2]
    | num v =>
      simp only [showTextArray, offsets, hadv, hstep]
      rw [ih]

/-- **the origin of every string of a `TJ` array**: for every array (strings and numbers
in any order), every state and every displacement function that does not look at the text
matrix, the k-th string is reported at the device image of `(X_k, 0)·Tm`, raised by the text
rise, where `X_k` is the sum of the displacements of the strings and numbers before it — all
strings of the array lie on one baseline of text space, whatever `Tm` and the CTM are. -/
theorem TJ_origins (adv : Adv α) (hb : TmBlind adv) (items : List (TJItem α)) (s : State α) :
    (step adv (.TJ items) s).2.1.map (fun sh => (sh.x, sh.y)) =
      (offsets adv s.cur.text items 0).map fun X =>
        device s (riseUp s (s.cur.text.tm.transformPoint (X, 0))) := by
  have h := showTextArray_origins adv hb items s 0 s.cur.text.dirty
  rw [translate_zero_mul] at h
  have hs : (s.mapText fun t => { t with tm := s.cur.text.tm, dirty := s.cur.text.dirty }) = s :=
    (SameLine.refl s).symm
  rw [hs] at h
  exact h

/-- the hypothesis is met and the statement is not vacuous: three strings and two numbers
under a rotated, scaled text matrix and a mirrored CTM -/
example : TmBlind (fun (t : TextState Int) it => match it with | .str sid => t.fontSize * sid | .num v => -v) ∧
    (step (fun (t : TextState Int) it => match it with | .str sid => t.fontSize * sid | .num v => -v)
      (.TJ [.str 1, .num (-5), .str 2, .num 3, .str 3])
      (step (fun _ _ => 0) (.Tm ⟨0, 2, -2, 0, 10, 20⟩) (step (fun _ _ => 0) (.cm ⟨1, 0, 0, -1, 0, 800⟩) init).1).1).2.1.map
      (fun sh => (sh.x, sh.y)) = [(10, 780), (10, 746), (10, 704)] := by
  refine ⟨fun _ _ _ it => by cases it <;> rfl, by decide⟩

end

/-! ## B. the displacement the code computes -/

section
variable [Lean.Grind.Field α]

/-- the code's displacement function depends on the font size, `Tc`, `Tw` and `Tz` only -/
theorem advance_tmBlind (info : Nat → StrInfo α) : TmBlind (advance info) := by
  intro t m b it
  cases it <;> rfl

/-- **`0 Tz` makes every displacement 0** (string or `TJ` number): under horizontal scaling
0 shown text does not move the text matrix — the fact the document-level correspondence
(op c08.doc) relies on to compare every origin. -/
theorem tz_zero_no_advance (info : Nat → StrInfo α) (t : TextState α) (h : t.hScaling = 0) (it : TJItem α) :
    advance info t it = 0 := by
  cases it <;> simp only [advance, strAdvance, numAdvance, hScale, h] <;> grind

/-- the hypothesis is met after `0 Tz`, whatever the font, the string and the spacings are -/
example (info : Nat → StrInfo Rat) (it : TJItem Rat) :
    advance info ((step (fun _ _ => 0) (.Tz 0) (step (fun _ _ => 0) (.Tc 7) (init : State Rat)).1).1.cur.text) it = 0 :=
  tz_zero_no_advance info _ rfl it

theorem tz_zero_keeps_tm (s : State α) (tx : α) (h : tx = 0) :
    (s.advanceText tx).cur.text.tm = s.cur.text.tm := by
  subst h
  rw [advanceText_tm, translate_zero_mul]

/-- **`Tc`**: character spacing adds `Tc · Th/100` per byte of the string -/
theorem tc_effect (t : TextState α) (i : StrInfo α) (c : α) :
    strAdvance { t with charSpacing := c } i =
      strAdvance { t with charSpacing := 0 } i + i.n * c * (t.hScaling / 100) := by
  simp only [strAdvance, hScale]; grind

/-- **`Tw`**: word spacing adds `Tw · Th/100` per space byte (0x20) of the string -/
theorem tw_effect (t : TextState α) (i : StrInfo α) (w : α) :
    strAdvance { t with wordSpacing := w } i =
      strAdvance { t with wordSpacing := 0 } i + i.sp * w * (t.hScaling / 100) := by
  simp only [strAdvance, hScale]; grind

/-- **`Tz`**: the whole displacement — glyph widths, `Tc`, `Tw` and `TJ` numbers alike — is
proportional to the horizontal scaling -/
theorem tz_effect [Lean.Grind.IsCharP α 0] (info : Nat → StrInfo α) (t : TextState α) (it : TJItem α) :
    advance info t it = t.hScaling / 100 * advance info { t with hScaling := 100 } it := by
  have h100 : (100 : α) / 100 = 1 := by grind
  cases it <;> simp only [advance, strAdvance, numAdvance, hScale, h100] <;> grind

/-- **`Tf`**: glyph widths and `TJ` numbers scale with the font size; `Tc` and `Tw` do not -/
theorem tf_effect (t : TextState α) (i : StrInfo α) (k : α) :
    strAdvance { t with fontSize := k * t.fontSize } i =
      k * strAdvance { t with charSpacing := 0, wordSpacing := 0 } i +
        strAdvance { t with fontSize := 0 } i := by
  simp only [strAdvance, hScale]; grind

/-- **the `TJ` number rule**: `tx = (−Tj/1000 · Tfs) · Th` (ISO 32000-1 9.4.4) -/
theorem tj_number_is_iso (t : TextState α) (v : α) : numAdvance t v = numTx t v := by
  simp only [numAdvance, numTx, hScale]; grind

/-- the sum of ISO's per-glyph displacements is the code's one displacement per string -/
theorem glyphs_sum (t : TextState α) (gs : List (Glyph α)) :
    strAdvance t (summarize gs) = (gs.map (glyphTx t)).foldr (· + ·) 0 := by
  induction gs with
  | nil => simp only [summarize, strAdvance, hScale, List.map_nil, List.foldr_nil]; grind
  | cons g rest ih =>
    simp only [List.map_cons, List.foldr_cons, ← ih]
    cases hg : g.isSpace <;> simp only [summarize, strAdvance, glyphTx, hScale, hg] <;> grind

/-- **one displacement per string is ISO's glyph-by-glyph rule**: ISO 32000-1 9.4.4 moves
the text matrix after every glyph, `Tm := T(tx,0) × Tm` with
`tx = (w0 · Tfs + Tc + Tw) · Th` (`Tw` for the single-byte code 32 only).  For every string
of a simple font — any glyphs, any widths — doing that glyph by glyph gives exactly the
matrix the code's single `AdvanceText` gives, the font package reporting the sum of the
widths, the number of bytes and the number of space bytes. -/
theorem string_advance_is_glyphwise_iso (t : TextState α) (gs : List (Glyph α)) (m : Matrix α) :
    isoShowGlyphs t gs m = (translate (strAdvance t (summarize gs)) 0).mul m := by
  induction gs generalizing m with
  | nil =>
    have h0 : strAdvance t (summarize ([] : List (Glyph α))) = 0 := by
      simp only [summarize, strAdvance, hScale]; grind
    rw [h0, translate_zero_mul]; rfl
  | cons g rest ih =>
    rw [isoShowGlyphs, ih, translate_translate_mul]
    congr 2
    cases hg : g.isSpace <;> simp only [summarize, strAdvance, glyphTx, hScale, hg] <;> grind

/-- non-vacuity: "a b" in a font with widths 500, 250 (space), 600 at 10 pt, `Tc` 1, `Tw` 2,
`Tz` 50: ISO's three steps and the code's one step both move by 9.25 -/
example : isoShowGlyphs ({ (initText : TextState Rat) with fontSize := 10, charSpacing := 1, wordSpacing := 2, hScaling := 50 })
      [⟨500, false⟩, ⟨250, true⟩, ⟨600, false⟩] ⟨2, 0, 0, 2, 100, 100⟩ = ⟨2, 0, 0, 2, 237/2, 100⟩ ∧
    strAdvance ({ (initText : TextState Rat) with fontSize := 10, charSpacing := 1, wordSpacing := 2, hScaling := 50 })
      (summarize [⟨500, false⟩, ⟨250, true⟩, ⟨600, false⟩]) = 37/4 := by
  decide +kernel

end

/-! ## C. ISO 32000 with the text matrix always known, and `origin_exact_spec` -/

/-- the graphics-state parameters ISO 32000 gives the operator set (Tables 52, 104) -/
structure IFrame (α : Type) where
  ctm : Matrix α
  tm : Matrix α
  tlm : Matrix α
  tc : α
  tw : α
  th : α
  tl : α
  tfs : α
  trise : α

structure IState (α : Type) where
  cur : IFrame α
  stack : List (IFrame α)

/-- what is reported for one shown string: the matrices and parameters in force when its
first glyph is painted -/
structure IShow (α : Type) where
  tm : Matrix α
  ctm : Matrix α
  tfs : α
  trise : α

section
variable [Lean.Grind.Field α]

/-- the text state as the displacement rules read it -/
def IFrame.params (f : IFrame α) : TextState α :=
  { fontSize := f.tfs, charSpacing := f.tc, wordSpacing := f.tw, hScaling := f.th, leading := f.tl,
    rise := f.trise, tm := f.tm, tlm := f.tlm, dirty := false }

def IState.set (s : IState α) (f : IFrame α → IFrame α) : IState α := { s with cur := f s.cur }

/-- Table 108: `tx ty Td` — `Tm = Tlm = T(tx,ty) × Tlm` -/
def IState.td (s : IState α) (tx ty : α) : IState α :=
  s.set fun f => let l := (translate tx ty).mul f.tlm; { f with tm := l, tlm := l }

/-- Table 109 `Tj` and 9.4.4: the string is painted glyph by glyph, each glyph moving the
text matrix by its displacement -/
def IState.showString (glyphs : Nat → List (Glyph α)) (sid : Nat) (s : IState α) : IState α × IShow α :=
  (s.set fun f => { f with tm := isoShowGlyphs f.params (glyphs sid) f.tm },
    { tm := s.cur.tm, ctm := s.cur.ctm, tfs := s.cur.tfs, trise := s.cur.trise })

/-- Table 109 `TJ`: a string is shown, a number moves the text matrix by `−v/1000 · Tfs · Th` -/
def IState.showArray (glyphs : Nat → List (Glyph α)) : List (TJItem α) → IState α → IState α × List (IShow α)
  | [], s => (s, [])
  | .str sid :: rest, s =>
    let r := s.showString glyphs sid
    let r2 := IState.showArray glyphs rest r.1
    (r2.1, r.2 :: r2.2)
  | .num v :: rest, s =>
    IState.showArray glyphs rest (s.set fun f => { f with tm := (translate (numTx f.params v) 0).mul f.tm })

/-- ISO 32000-1 Tables 57, 105, 107, 108, 109 as equations; `none` = an unmatched `Q` -/
def isoStep (glyphs : Nat → List (Glyph α)) : Op α → IState α → Option (IState α × List (IShow α))
  | .q, s => some ({ s with stack := s.cur :: s.stack }, [])
  | .Q, s => match s.stack with
    | [] => none
    | f :: rest => some (⟨f, rest⟩, [])
  | .cm M, s => some (s.set fun f => { f with ctm := M.mul f.ctm }, [])
  | .BT, s => some (s.set fun f => { f with tm := identity, tlm := identity }, [])
  | .Tm M, s => some (s.set fun f => { f with tm := M, tlm := M }, [])
  | .Td tx ty, s => some (s.td tx ty, [])
  | .TD tx ty, s => some ((s.set fun f => { f with tl := -ty }).td tx ty, [])
  | .Tstar, s => some (s.td 0 (-s.cur.tl), [])
  | .TL l, s => some (s.set fun f => { f with tl := l }, [])
  | .Tf size, s => some (s.set fun f => { f with tfs := size }, [])
  | .Tc c, s => some (s.set fun f => { f with tc := c }, [])
  | .Tw w, s => some (s.set fun f => { f with tw := w }, [])
  | .Tz z, s => some (s.set fun f => { f with th := z }, [])
  | .Ts r, s => some (s.set fun f => { f with trise := r }, [])
  | .Tj sid, s => let r := s.showString glyphs sid; some (r.1, [r.2])
  | .TJ items, s => some (s.showArray glyphs items)
  | .quote sid, s => let r := (s.td 0 (-s.cur.tl)).showString glyphs sid; some (r.1, [r.2])
  | .dquote aw ac sid, s =>
    let s1 := s.set fun f => { f with tw := aw, tc := ac }
    let r := (s1.td 0 (-s1.cur.tl)).showString glyphs sid
    some (r.1, [r.2])
  | _, s => some (s, [])

def isoRun (glyphs : Nat → List (Glyph α)) : List (Op α) → IState α → Option (List (IShow α))
  | [], _ => some []
  | op :: rest, s => match isoStep glyphs op s with
    | none => none
    | some r => (isoRun glyphs rest r.1).map (r.2 ++ ·)

end

section
variable [Lean.Grind.Field α] [DecidableEq α] [LT α] [DecidableLT α]

/-- the ISO parameters of a model frame -/
def isoFrame (f : Frame α) : IFrame α :=
  { ctm := f.ctm, tm := f.text.tm, tlm := f.text.tlm, tc := f.text.charSpacing, tw := f.text.wordSpacing,
    th := f.text.hScaling, tl := f.text.leading, tfs := f.text.fontSize, trise := f.text.rise }

def isoState (s : State α) : IState α := ⟨isoFrame s.cur, s.stack.map isoFrame⟩

/-- what the extractor reports for a string painted under these matrices: the origin
`(Tm.e, Tm.f + rise)` through the CTM (`GetTextPosition`) and the three size factors -/
def report (i : IShow α) : α × α × α × α × α :=
  let p := i.ctm.transformPoint (i.tm.e, i.tm.f + i.trise)
  (p.1, p.2, i.tfs, tmScale2 i.tm, ctmScale2 i.ctm)

def showReport (sh : Show α) : α × α × α × α × α := (sh.x, sh.y, sh.fs, sh.tmScale2, sh.ctmScale2)

omit [DecidableEq α] [LT α] [DecidableLT α] in
theorem params_blind (info : Nat → StrInfo α) (f : Frame α) (it : TJItem α) :
    advance info (isoFrame f).params it = advance info f.text it := by
  cases it <;> rfl

theorem showText_iso (info : Nat → StrInfo α) (glyphs : Nat → List (Glyph α))
    (hinfo : ∀ sid, info sid = summarize (glyphs sid)) (sid : Nat) (s : State α) :
    (isoState (showText (advance info) sid s).1, report ((isoState s).showString glyphs sid).2)
      = (((isoState s).showString glyphs sid).1, showReport (showText (advance info) sid s).2) := by
  have htm : isoShowGlyphs (isoFrame s.cur).params (glyphs sid) s.cur.text.tm
      = (s.advanceText (advance info s.cur.text (.str sid))).cur.text.tm := by
    rw [string_advance_is_glyphwise_iso, advanceText_tm, ← hinfo]; rfl
  simp only [showText, IState.showString, IState.set, isoState, isoFrame, Prod.mk.injEq]
  refine ⟨?_, rfl⟩
  simp only [isoFrame] at htm
  simp only [htm]
  rfl

theorem showTextArray_iso (info : Nat → StrInfo α) (glyphs : Nat → List (Glyph α))
    (hinfo : ∀ sid, info sid = summarize (glyphs sid)) (items : List (TJItem α)) (s : State α) :
    (isoState (showTextArray (advance info) items s).1,
        ((isoState s).showArray glyphs items).2.map report)
      = (((isoState s).showArray glyphs items).1, (showTextArray (advance info) items s).2.map showReport) := by
  induction items generalizing s with
  | nil => rfl
  | cons it rest ih =>
    cases it with
    | str sid =>
      have h := showText_iso info glyphs hinfo sid s
      simp only [Prod.mk.injEq] at h
      have ih' := ih (showText (advance info) sid s).1
      simp only [Prod.mk.injEq] at ih'
      simp only [showTextArray, IState.showArray, List.map_cons, Prod.mk.injEq]
      rw [← h.1, h.2]
      exact ⟨ih'.1, by rw [ih'.2]⟩
    | num v =>
      have hs : isoState (s.advanceText (advance info s.cur.text (.num v)))
          = (isoState s).set fun f => { f with tm := (translate (numTx f.params v) 0).mul f.tm } := by
        have htm := advanceText_tm s (advance info s.cur.text (.num v))
        have hv : numTx (isoFrame s.cur).params v = advance info s.cur.text (.num v) := by
          rw [← tj_number_is_iso]; rfl
        simp only [isoState, IState.set, isoFrame, IState.mk.injEq, IFrame.mk.injEq] at hv ⊢
        refine ⟨⟨rfl, ?_, rfl, rfl, rfl, rfl, rfl, rfl, rfl⟩, rfl⟩
        rw [htm, ← hv]
      simp only [showTextArray, IState.showArray]
      rw [← hs]
      exact ih _

/-- one operator: the model step and the ISO step commute with `isoState` / `report` -/
theorem step_iso (info : Nat → StrInfo α) (glyphs : Nat → List (Glyph α))
    (hinfo : ∀ sid, info sid = summarize (glyphs sid)) (op : Op α) (hop : ∀ m b, op ≠ .form m b)
    (s : State α) :
    (isoStep glyphs op (isoState s)).map (fun r => (r.1, r.2.map report)) =
      if (step (advance info) op s).2.2 then none
      else some (isoState (step (advance info) op s).1, (step (advance info) op s).2.1.map showReport) := by
  cases op with
  | form m b => exact absurd rfl (hop m b)
  | Q =>
    cases s with | mk c st d =>
    cases st with
    | nil => simp [step, stepBasic, State.restore, isoStep, isoState]
    | cons f rest => simp [step, stepBasic, State.restore, isoStep, isoState]
  | Tj sid =>
    have h := showText_iso info glyphs hinfo sid s
    simp only [Prod.mk.injEq] at h
    simp only [step, stepBasic, isoStep, Option.map_some, Bool.false_eq_true, if_false, List.map_cons,
      List.map_nil, Option.some.injEq, Prod.mk.injEq]
    exact ⟨h.1.symm, by rw [h.2]⟩
  | TJ items =>
    have h := showTextArray_iso info glyphs hinfo items s
    simp only [Prod.mk.injEq] at h
    simp only [step, stepBasic, isoStep, Option.map_some, Bool.false_eq_true, if_false, Option.some.injEq,
      Prod.mk.injEq]
    exact ⟨h.1.symm, h.2⟩
  | quote sid =>
    have h := showText_iso info glyphs hinfo sid s.nextLine
    simp only [Prod.mk.injEq] at h
    have hn : (isoState s).td 0 (-(isoState s).cur.tl) = isoState s.nextLine := rfl
    simp only [step, stepBasic, isoStep, Option.map_some, Bool.false_eq_true, if_false, List.map_cons,
      List.map_nil, Option.some.injEq, Prod.mk.injEq, hn]
    exact ⟨h.1.symm, by rw [h.2]⟩
  | dquote aw ac sid =>
    have h := showText_iso info glyphs hinfo sid ((s.setWordSpacing aw).setCharSpacing ac).nextLine
    simp only [Prod.mk.injEq] at h
    have hn : (((isoState s).set fun f => { f with tw := aw, tc := ac }).td 0
          (-((isoState s).set fun f => { f with tw := aw, tc := ac }).cur.tl))
        = isoState ((s.setWordSpacing aw).setCharSpacing ac).nextLine := rfl
    simp only [step, stepBasic, isoStep, Option.map_some, Bool.false_eq_true, if_false, List.map_cons,
      List.map_nil, Option.some.injEq, Prod.mk.injEq, hn]
    exact ⟨h.1.symm, by rw [h.2]⟩
  | _ =>
    simp [step, stepBasic, isoStep, isoState, isoFrame, IState.set, IState.td, State.save, State.transform,
      State.beginText, State.setTextMatrix, State.setLeading, State.setFont, State.setCharSpacing,
      State.setWordSpacing, State.setHorizontalScaling, State.setTextRise, State.mapText,
      State.translateText, State.translateTextSetLeading, State.nextLine]

/-- **origin_exact_spec**: for every `Do`-free program over
{q Q cm BT ET Tf Tc Tw Tz TL Ts Tm Td TD T* Tj TJ ' "} of any length (any q/Q depth, any
matrices, any strings of any simple font), every starting state, run with the displacement
function the code computes: the extractor fails exactly when ISO 32000's definition does (an
unmatched `Q`), and otherwise reports for EVERY fragment — not only the first after a
positioning step — the origin `(Tm.e, Tm.f + Trise)` through the CTM and the size factors
of the text matrix and CTM that ISO 32000-1 (Tables 57, 105–109; 9.4.4 glyph by glyph)
defines at the moment the string is painted. -/
theorem origin_exact_spec (info : Nat → StrInfo α) (glyphs : Nat → List (Glyph α))
    (hinfo : ∀ sid, info sid = summarize (glyphs sid)) (ops : List (Op α)) (hnf : NoForm ops)
    (s : State α) :
    (run (advance info) ops s).map (·.map showReport) = (isoRun glyphs ops (isoState s)).map (·.map report) := by
  unfold run
  induction ops generalizing s with
  | nil => simp [exec, isoRun]
  | cons op rest ih =>
    have hop : ∀ m b, op ≠ .form m b := by
      intro m b h; subst h; exact hnf
    have hrest : NoForm rest := by
      cases op <;> first | exact hnf | exact absurd rfl (hop _ _)
    have hstep := step_iso info glyphs hinfo op hop s
    rw [isoRun, exec]
    cases hiso : isoStep glyphs op (isoState s) with
    | none =>
      rw [hiso] at hstep
      cases herr : (step (advance info) op s).2.2 with
      | true => simp
      | false => rw [herr] at hstep; simp at hstep
    | some r =>
      rw [hiso] at hstep
      cases herr : (step (advance info) op s).2.2 with
      | true => rw [herr] at hstep; simp at hstep
      | false =>
        rw [herr] at hstep
        simp only [Option.map_some, Bool.false_eq_true, if_false, Option.some.injEq, Prod.mk.injEq] at hstep
        simp only [Bool.false_eq_true, if_false]
        have ih' := ih hrest (step (advance info) op s).1
        rw [← hstep.1] at ih'
        cases hex : exec (advance info) rest (step (advance info) op s).1 with
        | none =>
          rw [hex] at ih'
          cases hi : isoRun glyphs rest r.1 with
          | none => simp
          | some l => rw [hi] at ih'; simp at ih'
        | some r2 =>
          rw [hex] at ih'
          cases hi : isoRun glyphs rest r.1 with
          | none => rw [hi] at ih'; simp at ih'
          | some l =>
            rw [hi] at ih'
            simp only [Option.map_some, Option.some.injEq] at ih' ⊢
            rw [List.map_append, List.map_append, ih', hstep.2]

/-- the hypothesis is satisfiable for every font and every string: take for `info` what the
glyph lists add up to -/
example (glyphs : Nat → List (Glyph Rat)) (ops : List (Op Rat)) (hnf : NoForm ops) (s : State Rat) :
    (run (advance fun sid => summarize (glyphs sid)) ops s).map (·.map showReport)
      = (isoRun glyphs ops (isoState s)).map (·.map report) :=
  origin_exact_spec (fun sid => summarize (glyphs sid)) glyphs (fun _ => rfl) ops hnf s

/-- a concrete reading (rotated text, `Tc`, `Tz`, a `TJ` array with a number, then `T*`):
string 0 is "ab" (widths 500+600), string 1 is "c d" (400, space 250, 700) -/
def exGlyphs : Nat → List (Glyph Rat)
  | 0 => [⟨500, false⟩, ⟨600, false⟩]
  | _ => [⟨400, false⟩, ⟨250, true⟩, ⟨700, false⟩]

example :
    (run (advance fun sid => summarize (exGlyphs sid))
      [.BT, .Tf 10, .TL 12, .Tm ⟨0, 2, -2, 0, 100, 100⟩, .Tc 1, .Tw 3, .Tz 50, .TJ [.str 0, .num (-200), .str 1], .Tstar, .Tj 0]
      init).map (·.map fun sh => (sh.x, sh.y)) = some [(100, 100), (100, 115), (124, 100)] := by
  decide +kernel

example (t : TextState Rat) (it : TJItem Rat) (info : Nat → StrInfo Rat) :
    advance info t it = t.hScaling / 100 * advance info { t with hScaling := 100 } it :=
  tz_effect info t it

end

/-! ## The text rise -/

section
variable [Lean.Grind.CommRing α]

/-- ISO 32000-1 9.4.2: the glyph origin of text shown with rise `r` is `(0, r)` in text
space, i.e. `(0,r) × Tm × CTM` in device space -/
def isoRiseOrigin (tm ctm : Matrix α) (r : α) : α × α := (tm.mul ctm).transformPoint (0, r)

/-- **where the code's text rise is ISO's**: `GetTextPosition` adds the rise to the
translation part of the text matrix (`(Tm.e, Tm.f + r)` through the CTM); that is ISO's
`(0,r) × Tm × CTM` whenever the text matrix maps the unit y vector to itself (`c = 0`,
`d = 1`: unscaled, unrotated text — any translation, any horizontal scale), for every CTM. -/
theorem rise_iso_of_unit_y (tm ctm : Matrix α) (r : α) (hc : tm.c = 0) (hd : tm.d = 1) :
    ctm.transformPoint (tm.e, tm.f + r) = isoRiseOrigin tm ctm r := by
  simp only [isoRiseOrigin, transformPoint_mul]
  simp only [transformPoint, hc, hd, Prod.mk.injEq]
  constructor <;> grind

/-- the hypotheses are satisfiable: `1 0 0 1 100 700 Tm` (and any horizontal scale) -/
example : ((⟨3, 0, 0, 1, 100, 700⟩ : Matrix Int).c = 0 ∧ (⟨3, 0, 0, 1, 100, 700⟩ : Matrix Int).d = 1) ∧
    (⟨2, 0, 0, 2, 0, 0⟩ : Matrix Int).transformPoint ((⟨3, 0, 0, 1, 100, 700⟩ : Matrix Int).e, (⟨3, 0, 0, 1, 100, 700⟩ : Matrix Int).f + 5)
      = isoRiseOrigin ⟨3, 0, 0, 1, 100, 700⟩ ⟨2, 0, 0, 2, 0, 0⟩ 5 := by decide

/-- with rise 0 the two agree for every text matrix (this is `origin_spec`) -/
theorem rise_zero_iso (tm ctm : Matrix α) :
    ctm.transformPoint (tm.e, tm.f + 0) = isoRiseOrigin tm ctm 0 := by
  simp only [isoRiseOrigin, transformPoint_mul]
  simp only [transformPoint, Prod.mk.injEq]
  constructor <;> grind

/-- … and not in general: under `/F 1 Tf 12 0 0 12 100 100 Tm` a rise of 1 lifts the
reported origin by 1 unit where ISO 32000 lifts the glyphs by 12.  (The property's operator
set has no `Ts` and its statement speaks of the text-space origin; the model follows the
code, and `origin_spec` makes no claim for text shown with a rise.) -/
theorem rise_scaled_tm_differs :
    (⟨1, 0, 0, 1, 0, 0⟩ : Matrix Int).transformPoint ((⟨12, 0, 0, 12, 100, 100⟩ : Matrix Int).e,
        (⟨12, 0, 0, 12, 100, 100⟩ : Matrix Int).f + 1) = (100, 101) ∧
      isoRiseOrigin (⟨12, 0, 0, 12, 100, 100⟩ : Matrix Int) ⟨1, 0, 0, 1, 0, 0⟩ 1 = (100, 112) := by
  decide

end

end Tabula.C08Text
