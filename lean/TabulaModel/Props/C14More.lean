import TabulaModel.Props.C14Coll
/-!
# C14 (part 12) — further laws of the collection filters, for every collection and every chain

"Filtering a collection returns exactly the chunks satisfying the predicate, in order": laws a
caller relies on when filters are combined with each other, with concatenated / batched
collections and with the accessors of the collection a filter returned.  Everything is stated
about the executable models `applyOp` / `applyChain` / `coll…` / `batchExport` (Model/Export.lean,
Model/Collection.lean), for all collections, all filter chains and both `strings` functions.
-/
set_option linter.unusedSimpArgs false
set_option linter.unusedVariables false
namespace Tabula.C14More
open Tabula.Export Tabula.Csv Tabula.C14 Tabula.C14Api Tabula.C14Coll

/-! ## helper lemmas on lists -/

theorem filter_sublist_of_imp {α : Type} (p q : α → Bool) (h : ∀ a, p a = true → q a = true) (l : List α) :
    (l.filter p).Sublist (l.filter q) := by
  have e : l.filter p = (l.filter q).filter p := by
    rw [List.filter_filter]
    apply List.filter_congr
    intro a _
    cases hp : p a with
    | false => simp
    | true => simp [h a hp]
  rw [e]
  exact List.filter_sublist

theorem sum_filter_le (f : Chunk → Int) (p : Chunk → Bool) (l : List Chunk) (h : ∀ c ∈ l, 0 ≤ f c) :
    ((l.filter p).map f).sum ≤ (l.map f).sum := by
  induction l with
  | nil => simp
  | cons c rest ih =>
    have h0 := h c (by simp)
    have ih2 := ih (fun c2 hc2 => h c2 (List.mem_cons_of_mem _ hc2))
    rw [List.filter_cons]
    split
    · simp only [List.map_cons, List.sum_cons]; omega
    · simp only [List.map_cons, List.sum_cons]; omega

theorem sum_map_append (f : Chunk → Int) (a b : List Chunk) :
    ((a ++ b).map f).sum = (a.map f).sum + (b.map f).sum := by
  induction a with
  | nil => simp
  | cons c rest ih => simp only [List.cons_append, List.map_cons, List.sum_cons, ih]; omega

theorem filter_flatMap_eq {β : Type} (g : β → List Chunk) (p : Chunk → Bool) (bs : List β) :
    (bs.flatMap g).filter p = bs.flatMap (fun b => (g b).filter p) := by
  induction bs with
  | nil => rfl
  | cons b rest ih => simp only [List.flatMap_cons, List.filter_append, ih]

theorem length_filter_compl {α : Type} (p q : α → Bool) (h : ∀ a, p a = !q a) (l : List α) :
    (l.filter p).length + (l.filter q).length = l.length := by
  induction l with
  | nil => rfl
  | cons a rest ih =>
    rw [List.filter_cons, List.filter_cons, h a]
    cases q a <;> simp <;> omega

theorem find_filter_id (p : Chunk → Bool) (id : Str) (cs : List Chunk) :
    (cs.filter p).find? (fun c => decide (c.id = id)) = cs.find? (fun c => p c && decide (c.id = id)) := by
  induction cs with
  | nil => rfl
  | cons c rest ih =>
    by_cases hp : p c = true <;> by_cases hq : c.id = id <;>
      simp [List.filter_cons, List.find?_cons, hp, hq, ih]

/-! ## filters and composed collections -/

/-- filtering a concatenation of two collections is the concatenation of the filtered parts
(so filtering commutes with any way of assembling a collection from pieces) -/
theorem filter_chain_concat (env : StrEnv) (ops : List FilterOp) (cs1 cs2 : List Chunk) :
    applyChain env ops (cs1 ++ cs2) = applyChain env ops cs1 ++ applyChain env ops cs2 := by
  simp only [filter_chain_is_conjunction, List.filter_append]

/-- a whole chain applied a second time changes nothing -/
theorem filter_chain_idempotent (env : StrEnv) (ops : List FilterOp) (cs : List Chunk) :
    applyChain env ops (applyChain env ops cs) = applyChain env ops cs := by
  simp only [filter_chain_is_conjunction, List.filter_filter, Bool.and_self]

/-- a chain returns the collection unchanged iff every chunk satisfies every predicate -/
theorem filter_chain_unchanged_iff (env : StrEnv) (ops : List FilterOp) (cs : List Chunk) :
    applyChain env ops cs = cs ↔ ∀ c ∈ cs, ∀ op ∈ ops, opPred env op c = true := by
  rw [filter_chain_is_conjunction, List.filter_eq_self]
  simp only [List.all_eq_true]

/-- a chain returns the empty collection iff every chunk fails at least one predicate -/
theorem filter_chain_empty_iff (env : StrEnv) (ops : List FilterOp) (cs : List Chunk) :
    applyChain env ops cs = [] ↔ ∀ c ∈ cs, ∃ op ∈ ops, opPred env op c = false := by
  rw [filter_chain_is_conjunction, List.filter_eq_nil_iff]
  constructor
  · intro h c hc
    have h2 := h c hc
    simpa [List.all_eq_true] using h2
  · intro h c hc hall
    obtain ⟨op, ho, hf⟩ := h c hc
    rw [List.all_eq_true] at hall
    have h3 := hall op ho
    rw [hf] at h3
    exact Bool.noConfusion h3

/-- repeating a filter that already occurs later in the chain changes nothing -/
theorem filter_chain_duplicate (env : StrEnv) (op : FilterOp) (ops : List FilterOp) (h : op ∈ ops)
    (cs : List Chunk) :
    applyChain env (op :: ops) cs = applyChain env ops cs := by
  rw [filter_chain_is_conjunction, filter_chain_is_conjunction]
  apply List.filter_congr
  intro c _
  rw [List.all_cons]
  cases hall : ops.all (fun o => opPred env o c) with
  | false => simp
  | true =>
    rw [List.all_eq_true] at hall
    simp [hall op h]

example : FilterOp.tables ∈ [FilterOp.lists, FilterOp.tables] := by simp

/-- `FilterByPage(p)` is `FilterByPageRange(p, p)` -/
theorem page_is_page_range (env : StrEnv) (p : Int) (cs : List Chunk) :
    applyOp env (.page p) cs = applyOp env (.pageRange p p) cs := by
  simp only [applyOp, filterC_eq]
  apply List.filter_congr
  intro c _
  show (decide (p ≥ c.md.pageStart) && decide (p ≤ c.md.pageEnd)) =
    (decide (c.md.pageEnd ≥ p) && decide (c.md.pageStart ≤ p))
  exact Bool.and_comm _ _

/-- widening a page range can only add chunks: the narrower result is a subsequence of the wider -/
theorem page_range_widen (env : StrEnv) (s e s2 e2 : Int) (hs : s2 ≤ s) (he : e ≤ e2) (cs : List Chunk) :
    (applyOp env (.pageRange s e) cs).Sublist (applyOp env (.pageRange s2 e2) cs) := by
  simp only [applyOp, filterC_eq]
  apply filter_sublist_of_imp
  intro c hc
  simp only [opPred, Bool.and_eq_true, decide_eq_true_eq] at hc ⊢
  omega

example : ∃ s e s2 e2 : Int, s2 ≤ s ∧ e ≤ e2 := ⟨2, 3, 1, 4, by decide, by decide⟩

/-- raising the `FilterByMinTokens` threshold can only remove chunks, lowering `FilterByMaxTokens` too -/
theorem token_threshold_monotone (env : StrEnv) (a b : Int) (hab : a ≤ b) (cs : List Chunk) :
    (applyOp env (.minTokens b) cs).Sublist (applyOp env (.minTokens a) cs) ∧
    (applyOp env (.maxTokens a) cs).Sublist (applyOp env (.maxTokens b) cs) := by
  simp only [applyOp, filterC_eq]
  constructor
  · apply filter_sublist_of_imp
    intro c hc
    simp only [opPred, decide_eq_true_eq] at hc ⊢
    omega
  · apply filter_sublist_of_imp
    intro c hc
    simp only [opPred, decide_eq_true_eq] at hc ⊢
    omega

example : ∃ a b : Int, a ≤ b := ⟨1, 2, by decide⟩

/-- two `FilterByMinTokens` in a row are one with the larger threshold -/
theorem min_tokens_twice (env : StrEnv) (a b : Int) (cs : List Chunk) :
    applyChain env [.minTokens a, .minTokens b] cs = applyOp env (.minTokens (if a ≤ b then b else a)) cs := by
  rw [filter_chain_is_conjunction]
  simp only [applyOp, filterC_eq]
  apply List.filter_congr
  intro c _
  simp only [List.all_cons, List.all_nil, Bool.and_true, opPred]
  rw [Bool.eq_iff_iff]
  simp only [Bool.and_eq_true, decide_eq_true_eq]
  split <;> omega

/-- `FilterByMinTokens(n)` and `FilterByMaxTokens(n-1)` split a collection: every chunk is in
exactly one of the two results, and the sizes add up -/
theorem min_max_tokens_partition (env : StrEnv) (n : Int) (cs : List Chunk) :
    (applyOp env (.minTokens n) cs).length + (applyOp env (.maxTokens (n - 1)) cs).length = cs.length ∧
    ∀ c ∈ cs, (c ∈ applyOp env (.minTokens n) cs ↔ c ∉ applyOp env (.maxTokens (n - 1)) cs) := by
  constructor
  · simp only [applyOp, filterC_eq]
    apply length_filter_compl
    intro c
    simp only [opPred]
    by_cases h : n ≤ c.md.estimatedTokens
    · have h2 : ¬ (c.md.estimatedTokens ≤ n - 1) := by omega
      simp [h, h2]
    · have h2 : c.md.estimatedTokens ≤ n - 1 := by omega
      simp [h, h2]
  · intro c hc
    simp only [applyOp, filterC_eq, List.mem_filter, opPred, decide_eq_true_eq, hc, true_and]
    omega

/-! ## the accessors of a filtered collection -/

/-- `First()` of a filtered collection is the first chunk of the original that satisfies every
predicate of the chain (nil iff there is none) -/
theorem first_of_filtered (env : StrEnv) (ops : List FilterOp) (cs : List Chunk) :
    collFirst (applyChain env ops cs) = cs.find? (fun c => ops.all (fun op => opPred env op c)) := by
  rw [filter_chain_is_conjunction]
  generalize (fun c => ops.all (fun op => opPred env op c)) = p
  induction cs with
  | nil => rfl
  | cons c rest ih =>
    by_cases hp : p c = true
    · simp [List.filter_cons, List.find?_cons, hp, collFirst]
    · simp [List.filter_cons, List.find?_cons, hp, ih]

/-- `GetByID` on a filtered collection is the first chunk of the ORIGINAL collection that has the
id and satisfies every predicate — an earlier chunk with the same id that was filtered out does
not shadow it -/
theorem get_by_id_of_filtered_eq (env : StrEnv) (ops : List FilterOp) (cs : List Chunk) (id : Str) :
    collGetByID id (applyChain env ops cs) =
      cs.find? (fun c => ops.all (fun op => opPred env op c) && decide (c.id = id)) := by
  rw [(get_by_id_spec id _).1, filter_chain_is_conjunction]
  exact find_filter_id _ id cs

/-- `GetAllSections` of a filtered collection: exactly the non-empty section titles carried by a
chunk that passes the chain; in particular a subset of the sections of the original -/
theorem sections_of_filtered (env : StrEnv) (ops : List FilterOp) (cs : List Chunk) (t : Str) :
    (t ∈ collSections (applyChain env ops cs) ↔
      (t ≠ [] ∧ ∃ c ∈ cs, c.md.sectionTitle = t ∧ ∀ op ∈ ops, opPred env op c = true)) ∧
    (t ∈ collSections (applyChain env ops cs) → t ∈ collSections cs) := by
  have h1 : t ∈ collSections (applyChain env ops cs) ↔
      (t ≠ [] ∧ ∃ c ∈ cs, c.md.sectionTitle = t ∧ ∀ op ∈ ops, opPred env op c = true) := by
    rw [(sections_spec _).2.1 t]
    constructor
    · rintro ⟨hne, c, hc, e⟩
      obtain ⟨m1, m2⟩ := (filter_chain_mem env ops cs c).mp hc
      exact ⟨hne, c, m1, e, m2⟩
    · rintro ⟨hne, c, hc, e, hall⟩
      exact ⟨hne, c, (filter_chain_mem env ops cs c).mpr ⟨hc, hall⟩, e⟩
  refine ⟨h1, ?_⟩
  intro ht
  obtain ⟨hne, c, hc, e, _⟩ := h1.mp ht
  exact ((sections_spec cs).2.1 t).mpr ⟨hne, c, hc, e⟩

/-- `GetPageRange` of a non-empty filtered collection lies inside the page range of the original -/
theorem page_range_of_filtered_within (env : StrEnv) (ops : List FilterOp) (cs : List Chunk)
    (hne : applyChain env ops cs ≠ []) :
    (collPageRange cs).1 ≤ (collPageRange (applyChain env ops cs)).1 ∧
    (collPageRange (applyChain env ops cs)).2 ≤ (collPageRange cs).2 := by
  have hcs : cs ≠ [] := by
    intro e
    subst e
    have hl := filter_chain_length env ops []
    cases hx : applyChain env ops [] with
    | nil => exact hne hx
    | cons a b => rw [hx] at hl; simp at hl
  obtain ⟨_, ⟨c1, m1, e1⟩, _, ⟨c2, m2, e2⟩⟩ := (page_range_spec _).2 hne
  obtain ⟨lo, _, hi, _⟩ := (page_range_spec cs).2 hcs
  have k1 := lo c1 ((filter_chain_mem env ops cs c1).mp m1).1
  have k2 := hi c2 ((filter_chain_mem env ops cs c2).mp m2).1
  rw [e1, e2]
  exact ⟨k1, k2⟩

example : applyChain ⟨id, fun _ _ => false⟩ [] [⟨[], [], {}⟩] ≠ [] := List.cons_ne_nil _ _

/-- with non-negative counts (as every chunker produces), `GetTotalTokens` / `GetTotalWords` of a
filtered collection never exceed those of the original -/
theorem totals_of_filtered_le (env : StrEnv) (ops : List FilterOp) (cs : List Chunk)
    (ht : ∀ c ∈ cs, 0 ≤ c.md.estimatedTokens) (hw : ∀ c ∈ cs, 0 ≤ c.md.wordCount) :
    collTotalTokens (applyChain env ops cs) 0 ≤ collTotalTokens cs 0 ∧
    collTotalWords (applyChain env ops cs) 0 ≤ collTotalWords cs 0 := by
  rw [(totals_spec _).1, (totals_spec _).2, (totals_spec cs).1, (totals_spec cs).2,
    filter_chain_is_conjunction]
  exact ⟨sum_filter_le _ _ cs ht, sum_filter_le _ _ cs hw⟩

example : ∀ c ∈ [(⟨[], [], {}⟩ : Chunk)], 0 ≤ c.md.estimatedTokens ∧ 0 ≤ c.md.wordCount := by
  intro c hc
  simp at hc
  subst hc
  decide

/-- `Count`, `GetTotalTokens`, `GetTotalWords` are additive over concatenated collections -/
theorem totals_concat (cs1 cs2 : List Chunk) :
    collCount (cs1 ++ cs2) = collCount cs1 + collCount cs2 ∧
    collTotalTokens (cs1 ++ cs2) 0 = collTotalTokens cs1 0 + collTotalTokens cs2 0 ∧
    collTotalWords (cs1 ++ cs2) 0 = collTotalWords cs1 0 + collTotalWords cs2 0 := by
  refine ⟨by simp [collCount], ?_, ?_⟩
  · rw [(totals_spec _).1, (totals_spec cs1).1, (totals_spec cs2).1]
    exact sum_map_append _ cs1 cs2
  · rw [(totals_spec _).2, (totals_spec cs1).2, (totals_spec cs2).2]
    exact sum_map_append _ cs1 cs2

/-! ## filters and batches -/

/-- for every batch size ≥ 1: filtering the batches of `BatchExporter` one by one and concatenating
the results is filtering the whole collection — no chunk is lost, duplicated or reordered at a
batch boundary by a filter either; and the filtered sizes of the batches add up -/
theorem filter_batchwise (env : StrEnv) (ops : List FilterOp) (size : Nat) (hs : 1 ≤ size) (chunks : List Chunk) :
    ∃ bs, batchExport size chunks = some bs ∧
      bs.flatMap (fun b => applyChain env ops b.items) = applyChain env ops chunks ∧
      ((bs.map (fun b => (applyChain env ops b.items).length)).sum = (applyChain env ops chunks).length) := by
  obtain ⟨bs, hbs, hcat, _⟩ := batches_partition size hs chunks
  have e1 : bs.flatMap (fun b => applyChain env ops b.items) = applyChain env ops chunks := by
    simp only [filter_chain_is_conjunction]
    rw [← filter_flatMap_eq (fun b : Batch Chunk => b.items), hcat]
  refine ⟨bs, hbs, e1, ?_⟩
  rw [← e1, List.length_flatMap]

example : (1 : Nat) ≤ 3 := by decide

/-! ## exports of concatenated, batched and filtered collections -/

/-- the JSON Lines export of a concatenation is the concatenation of the exports: the records
handed to `encoding/json` and the bytes written -/
theorem jsonl_concat (enc : Exported → Str) (cfg : Config) (cs1 cs2 : List Chunk) :
    exportRecords cfg (cs1 ++ cs2) = exportRecords cfg cs1 ++ exportRecords cfg cs2 ∧
    exportJSONL enc cfg (cs1 ++ cs2) = exportJSONL enc cfg cs1 ++ exportJSONL enc cfg cs2 := by
  simp only [exportJSONL, exportRecords_eq_map, List.map_append, List.flatMap_append, and_self]

/-- for every batch size ≥ 1 and every encoder: the JSON Lines `Data` of the batches, concatenated
in order, are byte for byte the JSON Lines export of the whole collection — no line is dropped,
duplicated or reordered at a batch boundary -/
theorem jsonl_batches_concat (enc : Exported → Str) (cfg : Config) (size : Nat) (hs : 1 ≤ size)
    (chunks : List Chunk) :
    ∃ bs, batchExport size chunks = some bs ∧
      bs.flatMap (fun b => exportJSONL enc cfg b.items) = exportJSONL enc cfg chunks ∧
      bs.flatMap (fun b => exportRecords cfg b.items) = exportRecords cfg chunks := by
  obtain ⟨bs, hbs, hcat, _⟩ := batches_partition size hs chunks
  refine ⟨bs, hbs, ?_, ?_⟩
  · rw [← hcat]
    simp only [exportJSONL, exportRecords_eq_map, List.map_flatMap, List.flatMap_assoc]
  · rw [← hcat]
    simp only [exportRecords_eq_map, List.map_flatMap]

example : (1 : Nat) ≤ 2 := by decide

/-- the records exported from a filtered collection are a subsequence of the records exported from
the original, and a filtered collection exports exactly one record per retained chunk -/
theorem records_of_filtered (env : StrEnv) (ops : List FilterOp) (cfg : Config) (cs : List Chunk) :
    (exportRecords cfg (applyChain env ops cs)).Sublist (exportRecords cfg cs) ∧
    (exportRecords cfg (applyChain env ops cs)).length =
      cs.countP (fun c => ops.all (fun op => opPred env op c)) := by
  rw [exportRecords_eq_map, exportRecords_eq_map]
  refine ⟨(filter_order_preserved env ops cs).map _, ?_⟩
  rw [List.length_map, filter_chain_is_conjunction, List.countP_eq_length_filter]

/-- the CSV/TSV data rows of a concatenation, for a fixed column list, are the rows of the parts -/
theorem csv_rows_concat (marshal : MapSV → Str) (cfg : Config) (cols : List Str) (cs1 cs2 : List Chunk) :
    csvDataRows marshal cfg cols (cs1 ++ cs2) =
      csvDataRows marshal cfg cols cs1 ++ csvDataRows marshal cfg cols cs2 := by
  induction cs1 with
  | nil => rfl
  | cons c rest ih => simp only [List.cons_append, csvDataRows, ih]

/-- the CSV/TSV data rows of a filtered collection, for a fixed column list, are a subsequence of
the rows of the original (a filter never alters a row it keeps) -/
theorem csv_rows_of_filtered (marshal : MapSV → Str) (cfg : Config) (cols : List Str) (env : StrEnv)
    (ops : List FilterOp) (cs : List Chunk) :
    (csvDataRows marshal cfg cols (applyChain env ops cs)).Sublist (csvDataRows marshal cfg cols cs) := by
  have e : ∀ l : List Chunk, csvDataRows marshal cfg cols l =
      l.map (fun c => chunkToCSVRow marshal cfg (prepareChunkForExport cfg c) cols) := by
    intro l
    induction l with
    | nil => rfl
    | cons c rest ih => simp only [csvDataRows, List.map_cons, ih]
  rw [e, e]
  exact (filter_order_preserved env ops cs).map _

end Tabula.C14More
