import TabulaModel.Model.LayoutText
import TabulaModel.Lemmas.LayoutText
/-!
# C09, second layer — "… and in every plain-text rendering of a page"

The `GetText` methods of the layout results and `text.(*Extractor).GetText`, modelled as the
code has them (`Model/LayoutText.lean`) and composed with the detectors that produce their
input: every theorem starts from the FRAGMENTS of the page and ends at the characters of the
rendered text. All heuristic outcomes are universally quantified parameters; there are no
hypotheses except on the two library sorts of `BlockDetector.groupIntoLines` (`srt`, `srtX`:
"a sort permutes").
-/
namespace Tabula.C09Text
open Tabula.Layout List

/-! ## LineLayout.GetText -/

/-- `NewLineDetector().Detect(fs).GetText()`: for every tolerance and stream-order decision the
text has exactly the non-space characters of the fragments. -/
theorem line_layout_text_conserves (tol minW : Rat) (preserve : List Frag → Bool) (fs : List Frag) :
    (nonspace (lineLayoutText (detectLines tol minW preserve fs))).Perm (nonspace (textsOf fs)) := by
  rw [nonspace_lineLayoutText]
  exact detectLines_nonspace tol minW preserve fs

/-! ## ReadingOrderResult.GetText = AnalysisResult.GetText -/

/-- `NewReadingOrderDetector().Detect(fs).GetText()` and `Analyze(fs).GetText()` -/
theorem reading_order_text_conserves (gaps : List Gap) (minCW minW : Rat)
    (isSpan keep : List Frag → List Frag → Bool) (tolOf : List Frag → Rat) (preserve : List Frag → Bool)
    (rtl : Bool) (fs : List Frag) :
    (nonspace (roText (readingOrder gaps minCW minW isSpan keep tolOf preserve rtl fs))).Perm
      (nonspace (textsOf fs)) := by
  rw [nonspace_roText]
  by_cases hE : fs.isEmpty = true
  · rw [readingOrder_empty _ _ _ _ _ _ _ _ _ hE, (isEmpty_eq_true_iff fs).mp hE]; exact List.Perm.refl _
  · rw [readingOrder_nonempty _ _ _ _ _ _ _ _ _ hE]
    have h1 := secs_lines_nonspace _ (readingOrderOf_sections_ok tolOf minW preserve rtl
      (detectColumns gaps minCW isSpan keep fs))
    have h2 := readingOrderOf_fragments tolOf minW preserve rtl (detectColumns gaps minCW isSpan keep fs)
    rw [readingOrderOf_fragments_eq] at h2
    exact h1.trans (textsOf_perm (h2.trans (detectColumns_perm _ _ _ _ _)))

/-! ## ColumnLayout.GetText -/

/-- `(*ColumnLayout).GetText` of any column layout shows the characters of its columns and its
spanning group -/
theorem column_layout_text_of (preserve : List Frag → Bool) (cl : ColumnLayout) :
    (nonspace (columnLayoutText preserve cl)).Perm (nonspace (textsOf cl.all)) :=
  nonspace_columnLayoutText preserve cl

/-- `NewColumnDetector().Detect(fs).GetText()` -/
theorem column_layout_text_conserves (gaps : List Gap) (minCW : Rat) (isSpan keep : List Frag → List Frag → Bool)
    (preserve : List Frag → Bool) (fs : List Frag) :
    (nonspace (columnLayoutText preserve (detectColumns gaps minCW isSpan keep fs))).Perm (nonspace (textsOf fs)) :=
  (nonspace_columnLayoutText preserve _).trans (textsOf_perm (detectColumns_perm gaps minCW isSpan keep fs))

/-- `NewColumnDetector().Detect(fs).GetFragmentsInReadingOrder()` (after fix 22e6b71): a
permutation of the input -/
theorem column_layout_fragments_partition (gaps : List Gap) (minCW : Rat)
    (isSpan keep : List Frag → List Frag → Bool) (fs : List Frag) :
    (columnLayoutFragments (detectColumns gaps minCW isSpan keep fs)).Perm fs := by
  unfold columnLayoutFragments
  exact List.perm_append_comm.trans (detectColumns_perm gaps minCW isSpan keep fs)

/-- before the fix the spanning fragments were missing: a title across two columns -/
theorem column_layout_fragments_old_counterexample :
    ¬ (columnLayoutFragmentsOld
        ⟨[[⟨1, 72, 600, 100, 10, 10, [97]⟩], [⟨2, 320, 600, 100, 10, 10, [98]⟩]], [⟨0, 150, 700, 200, 14, 14, [84]⟩]⟩).Perm
      (ColumnLayout.all
        ⟨[[⟨1, 72, 600, 100, 10, 10, [97]⟩], [⟨2, 320, 600, 100, 10, 10, [98]⟩]], [⟨0, 150, 700, 200, 14, 14, [84]⟩]⟩) := by
  intro h
  have := h.length_eq
  revert this
  decide +kernel

/-! ## BlockLayout.GetText, and the block detector from the fragments on -/

/-- every block of the detector shows the same fragments in `Lines` as in `Fragments` -/
theorem blocks_lines_agree (brk : List (List Frag) → List Frag → List (List Frag) → Bool)
    (ov : Block → Block → Bool) (minW minH : Rat) (lines : List (List Frag)) :
    ∀ b ∈ detectBlocks brk ov minW minH lines, b.lines.flatten.Perm b.frags := by
  intro b hb
  unfold detectBlocks validateBlocks at hb
  exact mergeAll_ok ov _ (groupBlocks_ok brk lines) b (List.mem_filter.mp hb).1

/-- `(*BlockLayout).GetText` on the blocks detected from any line groups -/
theorem block_layout_text_of (brk : List (List Frag) → List Frag → List (List Frag) → Bool)
    (ov : Block → Block → Bool) (minW minH : Rat) (lines : List (List Frag)) :
    (nonspace (blockLayoutText (detectBlocks brk ov minW minH lines))).Perm (nonspace (textsOf lines.flatten)) := by
  rw [nonspace_blockLayoutText]
  unfold detectBlocks
  rw [validateBlocks_lines_nonspace _ _ _ (mergeAll_ok ov _ (groupBlocks_ok brk lines))]
  have h := (mergeAll_perm (·.lines) mergeBlocks_lines ov (groupBlocks brk lines))
  have h' : (blocksLines (mergeAll ov (groupBlocks brk lines))).Perm lines := by
    have := groupBlocks_lines brk lines
    unfold blocksLines at *
    rw [this] at h
    exact h
  exact textsOf_perm h'.flatten

/-- `(*BlockDetector).groupIntoLines`: the line groups are a permutation of the fragments,
whatever the two library sorts do as long as they permute -/
theorem block_lines_partition (srt srtX : List Frag → List Frag)
    (hs : ∀ l, (srt l).Perm l) (hx : ∀ l, (srtX l).Perm l) (fs : List Frag) :
    (blockLinesOf srt srtX fs).flatten.Perm fs := by
  unfold blockLinesOf
  have h1 := flatten_map_perm srtX hx (segment blineBreak (srt fs) [])
  rw [segment_flatten, List.nil_append] at h1
  exact h1.trans (hs fs)

example : ∀ l : List Frag, (stableSort blLess l).Perm l := fun l => stableSort_perm _ l

example : ∀ l : List Block, (l.mergeSort fun a b => decide (bboxY a.frags ≥ bboxY b.frags)).Perm l :=
  fun l => List.mergeSort_perm _ _

/-- `NewBlockDetector().Detect(fs)`: `Block.Fragments` of all blocks -/
theorem block_detector_conserves (srt srtX : List Frag → List Frag) (srtB : List Block → List Block)
    (hs : ∀ l, (srt l).Perm l) (hx : ∀ l, (srtX l).Perm l) (hb : ∀ l, (srtB l).Perm l)
    (brk : List (List Frag) → List Frag → List (List Frag) → Bool) (ov : Block → Block → Bool)
    (minW minH : Rat) (fs : List Frag) :
    (nonspace (textsOf (blocksFrags (detectBlocksFrom srt srtX srtB brk ov minW minH fs)))).Perm
      (nonspace (textsOf fs)) := by
  unfold detectBlocksFrom
  split
  · rename_i h; rw [(isEmpty_eq_true_iff fs).mp h]; exact List.Perm.refl _
  · rw [validateBlocks_nonspace]
    have h := mergeAll_perm (·.frags) mergeBlocks_frags ov (groupBlocks brk (blockLinesOf srt srtX fs))
    have h' : (blocksFrags (mergeAll ov (groupBlocks brk (blockLinesOf srt srtX fs)))).Perm
        (blockLinesOf srt srtX fs).flatten := by
      have := groupBlocks_frags brk (blockLinesOf srt srtX fs)
      unfold blocksFrags at *
      rw [this] at h
      exact h
    have hsb : (blocksFrags (srtB (mergeAll ov (groupBlocks brk (blockLinesOf srt srtX fs))))).Perm
        (blocksFrags (mergeAll ov (groupBlocks brk (blockLinesOf srt srtX fs)))) := by
      unfold blocksFrags
      exact ((hb _).map _).flatten
    exact textsOf_perm ((hsb.trans h').trans (block_lines_partition srt srtX hs hx fs))

/-- `NewBlockDetector().Detect(fs).GetText()` -/
theorem block_layout_text_conserves (srt srtX : List Frag → List Frag) (srtB : List Block → List Block)
    (hs : ∀ l, (srt l).Perm l) (hx : ∀ l, (srtX l).Perm l) (hb : ∀ l, (srtB l).Perm l)
    (brk : List (List Frag) → List Frag → List (List Frag) → Bool) (ov : Block → Block → Bool)
    (minW minH : Rat) (fs : List Frag) :
    (nonspace (blockLayoutText (detectBlocksFrom srt srtX srtB brk ov minW minH fs))).Perm (nonspace (textsOf fs)) := by
  unfold detectBlocksFrom
  split
  · rename_i h; rw [(isEmpty_eq_true_iff fs).mp h]; exact List.Perm.refl _
  · rw [nonspace_blockLayoutText]
    have hok : ∀ b ∈ srtB (mergeAll ov (groupBlocks brk (blockLinesOf srt srtX fs))), BlockOk b :=
      fun b hbm => mergeAll_ok ov _ (groupBlocks_ok brk _) b ((hb _).mem_iff.mp hbm)
    rw [validateBlocks_lines_nonspace _ _ _ hok]
    have h := (mergeAll_perm (·.lines) mergeBlocks_lines ov (groupBlocks brk (blockLinesOf srt srtX fs)))
    have h' : (blocksLines (mergeAll ov (groupBlocks brk (blockLinesOf srt srtX fs)))).Perm
        (blockLinesOf srt srtX fs) := by
      have := groupBlocks_lines brk (blockLinesOf srt srtX fs)
      unfold blocksLines at *
      rw [this] at h
      exact h
    have hsb : (blocksLines (srtB (mergeAll ov (groupBlocks brk (blockLinesOf srt srtX fs))))).Perm
        (blocksLines (mergeAll ov (groupBlocks brk (blockLinesOf srt srtX fs)))) := by
      unfold blocksLines
      exact ((hb _).map _).flatten
    exact textsOf_perm ((hsb.trans h').flatten.trans (block_lines_partition srt srtX hs hx fs))

/-! ## text.(*Extractor).GetText -/

/-- `text.groupFragments` cuts the fragment list into consecutive non-empty pieces -/
theorem group_fragments_segment (fs : List Frag) :
    (groupFragments fs).flatten = fs ∧ ∀ l ∈ groupFragments fs, l ≠ [] :=
  ⟨groupFragments_flatten fs, segment_nonempty gfBreak fs []⟩

/-- `text.(*Extractor).GetText`: for every reordering decision and every spacing decision the
text has exactly the non-space characters of the DEDUPLICATED fragments — deduplication is the
only removal (`C09.dedupe_only_duplicates` says what it removes). -/
theorem text_gettext_conserves (keepS rtlOf : List Frag → Bool) (spaceOf : List Frag → Frag → Frag → Bool)
    (fs : List Frag) :
    (nonspace (textGetText keepS rtlOf spaceOf fs)).Perm (nonspace (textsOf (dedupe fs))) := by
  unfold textGetText
  refine (nonspace_gtLines keepS rtlOf spaceOf _).trans (textsOf_perm ?_)
  have h := (stableSort_perm (fun a b : List Frag => decide (headY a > headY b)) (groupFragments (dedupe fs))).flatten
  rw [groupFragments_flatten] at h
  exact h

end Tabula.C09Text
