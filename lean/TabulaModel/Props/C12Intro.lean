import TabulaModel.Lemmas.ChunkIntro
import TabulaModel.Props.C12Layout
/-!
# C12, layout-based chunker: `isListIntro` is part of the model — no flag read from the code

`Model/ChunkIntro.lean` models `BoundaryDetector.isListIntro` with the default
`ListIntroPatterns` (the four regular expressions, read backwards from the end of the trimmed
text), so that `Chunker.Chunk` is modelled from the `model.Document` alone (`chunkSI`; the only
parameter left is the Unicode lower-case table behind a sentence end).

* `intro_colon`: a text whose trimmed form ends with a colon introduces a list;
* `intro_iff`: the backward matcher decides exactly the language of the expressions: a colon
  behind the last character that is no white space, or one of the phrases — its words in either
  case (`s` also as U+017F), separated by one or more of `[\t\n\f\r ]` — at the end of the text;
* `intro_flags`: in `withIntro d` every paragraph's flag is `isListIntro` of its text and nothing
  else of the document has changed;
* `layout_chunker_closed`: the statement of the property for `Chunker.Chunk` with sentences and
  introductions computed by the model.
-/
namespace Tabula.C12Intro
open Tabula.Chunk Tabula.ChunkLayout Tabula.ChunkSent Tabula.ChunkIntro

/-- **A text that ends with a colon introduces a list** (the fourth expression, `:\s*$`): whatever
stands before it, whatever white space `strings.TrimSpace` removed around it. -/
theorem intro_colon (t pre : Str) (h : Tabula.Split.trimSpace t = pre ++ [58]) : isListIntro t = true := by
  unfold isListIntro
  rw [tailRev_colon t pre h]
  rfl

example : Tabula.Split.trimSpace (ofString " \n see below:\t ") = ofString "see below" ++ [58] := by decide +kernel

/-- every phrase of the three expressions is well formed for the backward matcher: no phrase
starts or ends with `\s+`, and the word before a `\s+` ends in a character that is no white space -/
theorem phrases_wf : ∀ p ∈ phrases, WF p.reverse = true := by decide +kernel

/-- **The model of `isListIntro` decides the language of the four expressions.** With `T` the
trimmed text without trailing `[\t\n\f\r ]`: the text introduces a list iff `T` ends with a colon,
or `T = pre ++ w` for some phrase `p` of the expressions and some `w` in the language of `p`
(`Lang`: each word spelled in lower or upper case letter by letter, `s` also as U+017F; `\s+` as one
or more of `[\t\n\f\r ]`). Any `pre`: the expressions are not anchored at the start. -/
theorem intro_iff (t : Str) :
    isListIntro t = true ↔
      (tailRev t).head? = some 58 ∨
      ∃ p ∈ phrases, ∃ pre w, (tailRev t).reverse = pre ++ w ∧ Lang p w := by
  unfold isListIntro
  simp only [Bool.or_eq_true, beq_iff_eq, List.any_eq_true]
  constructor
  · rintro (h | ⟨p, hp, hm⟩)
    · exact Or.inl h
    · obtain ⟨w, rest, hw, e⟩ := matchRev_sound p.reverse (tailRev t) hm
      rw [List.reverse_reverse] at hw
      refine Or.inr ⟨p, hp, rest.reverse, w, ?_, hw⟩
      rw [e]; simp
  · rintro (h | ⟨p, hp, pre, w, e, hw⟩)
    · exact Or.inl h
    · refine Or.inr ⟨p, hp, ?_⟩
      have e' : tailRev t = w.reverse ++ pre.reverse := by
        have := congrArg List.reverse e
        rw [List.reverse_reverse, List.reverse_append] at this
        exact this
      rw [e']
      exact matchRev_complete p.reverse (phrases_wf p hp) w pre.reverse (by rw [List.reverse_reverse]; exact hw)

/-- "THE \t Following" is in the language of `the\s+following`; "Item" with a long s in "itemſ" is
in the language of `items` -/
example : Lang (words ["the", "following"]) (ofString "THE \t Following") ∧
    Lang (words ["items"]) [105, 84, 101, 109, 0xC5, 0xBF] := by
  refine ⟨?_, ?_⟩
  · refine ⟨ofString "THE", ofString " \t Following", rfl, ?_, ofString " \t ", ofString "Following", rfl, ?_, ?_⟩
    · exact ⟨[84], [72, 69], rfl, Or.inr (Or.inl ⟨by decide, by decide, rfl⟩),
        [72], [69], rfl, Or.inr (Or.inl ⟨by decide, by decide, rfl⟩),
        [69], [], rfl, Or.inr (Or.inl ⟨by decide, by decide, rfl⟩), rfl⟩
    · exact ⟨by decide, by decide⟩
    · refine ⟨ofString "Following", [], rfl, ?_, rfl⟩
      exact ⟨[70], ofString "ollowing", rfl, Or.inr (Or.inl ⟨by decide, by decide, rfl⟩),
        [111], ofString "llowing", rfl, Or.inl rfl, [108], ofString "lowing", rfl, Or.inl rfl,
        [108], ofString "owing", rfl, Or.inl rfl, [111], ofString "wing", rfl, Or.inl rfl,
        [119], ofString "ing", rfl, Or.inl rfl, [105], ofString "ng", rfl, Or.inl rfl,
        [110], ofString "g", rfl, Or.inl rfl, [103], [], rfl, Or.inl rfl, rfl⟩
  · refine ⟨[105, 84, 101, 109, 0xC5, 0xBF], [], rfl, ?_, rfl⟩
    exact ⟨[105], [84, 101, 109, 0xC5, 0xBF], rfl, Or.inl rfl,
      [84], [101, 109, 0xC5, 0xBF], rfl, Or.inr (Or.inl ⟨by decide, by decide, rfl⟩),
      [101], [109, 0xC5, 0xBF], rfl, Or.inl rfl, [109], [0xC5, 0xBF], rfl, Or.inl rfl,
      [0xC5, 0xBF], [], rfl, Or.inr (Or.inr ⟨rfl, rfl⟩), rfl⟩

/-- what the code decides on some texts: phrases in any case and with any `\s+`, the long s, a
colon; a phrase cut short, glued or followed by something else is none -/
example : isListIntro (ofString "Here are the Steps ") = true := by decide +kernel
example : isListIntro (ofString "the   following") = true := by decide +kernel
example : isListIntro (ofString "misstep") = true := by decide +kernel
example : isListIntro (ofString "e.g.") = true := by decide +kernel
example : isListIntro [105, 116, 101, 109, 0xC5, 0xBF] = true := by decide +kernel
example : isListIntro (ofString "thefollowing") = false := by decide +kernel
example : isListIntro (ofString "abc: x") = false := by decide +kernel
example : isListIntro (ofString "the followin") = false := by decide +kernel
/-- a vertical tab is white space for `strings.TrimSpace` but not for `\s` -/
example : isListIntro (ofString "such" ++ [11] ++ ofString "as") = false ∧ isListIntro (ofString "such\tas") = true := by
  decide +kernel
example : isListIntro (ofString "steps.") = false := by decide +kernel

/-- **`withIntro` sets the flags and nothing else**: every paragraph of the document carries
`isListIntro` of its own text; kinds, texts, pages and sentence parameters are untouched. -/
theorem intro_flags (cfg : Cfg) (d : LDoc) :
    (∀ e ∈ canon cfg (withIntro d), e.kind = .para → e.intro = isListIntro e.text) ∧
    (canon cfg (withIntro d)).map CE.noIntro = (canon cfg d).map CE.noIntro ∧
    (withIntro d).map (·.number) = d.map (·.number) :=
  ⟨withIntro_flags cfg d, withIntro_canon cfg d, withIntro_numbers d⟩

/-- **The property for `Chunker.Chunk` from the document alone** (`chunkSI`: sentences and list
introductions computed by the model; any configuration; pages numbered upwards). With
`d = withSents low (withIntro d0)`, which has the kinds, texts and pages of `d0`:

1. the chunk texts are, white space aside, the content of `d0` in emission order — a permutation
   of the canonical order that keeps every kind in order;
2. indices `0..n-1`, ids pairwise distinct, every chunk reports `n`;
3. the sections hold every content element once, each under the chain of section-opening headings
   enclosing it, and every section's page range lies on pages of `d0` and covers its content;
4. every chunk of a section's group carries the section's path and page range (`GroupsOK`). -/
theorem layout_chunker_closed (low : Str → Bool) (cfg : Cfg) (title : Str) (d0 : LDoc) (hasc : AscFrom 1 d0) :
    let d := withSents low (withIntro d0)
    let secs := flatForest (buildSections cfg d)
    (strip (textsOf (chunkSI low cfg title d0)) = strip (ceTexts (emitted cfg d)) ∧
      (emitted cfg d).Perm (canon cfg d) ∧
      (∀ k, (emitted cfg d).filter (fun e => e.kind == k) = (canon cfg d).filter (fun e => e.kind == k)) ∧
      (canon cfg d).map (fun e => (e.kind, e.text, e.page)) = (canon cfg d0).map (fun e => (e.kind, e.text, e.page))) ∧
    ((chunkSI low cfg title d0).map (·.idx) = List.range (chunkSI low cfg title d0).length ∧
      ((chunkSI low cfg title d0).map (·.id)).Nodup ∧
      ∀ c ∈ chunkSI low cfg title d0, c.total = (chunkSI low cfg title d0).length) ∧
    (labelsOf secs = labelled cfg d ∧ (labelled cfg d).map (·.1) = canon cfg d ∧
      ∀ x ∈ secs, SecPagesOK (d0.map (·.number)) x) ∧
    GroupsOK cfg secs (secGroups cfg secs 0) := by
  have h := Tabula.C12Layout.layout_chunker_property low cfg title (withIntro d0) (ascFrom_withIntro 1 d0 hasc)
  obtain ⟨_, hg, ⟨hl1, hl2, hcore⟩, hpages, ⟨hcov, hperm, hkind⟩, hidx⟩ := h
  refine ⟨⟨hcov, hperm, hkind, ?_⟩, hidx, ⟨hl1, hl2, ?_⟩, hg⟩
  · have h1 := congrArg (List.map fun x : Kind × Str × Int × Bool => (x.1, x.2.1, x.2.2.1)) hcore
    have h2 := congrArg (List.map fun x : Kind × Str × Int × List Str => (x.1, x.2.1, x.2.2.1)) (withIntro_canon cfg d0)
    simp only [List.map_map] at h1 h2
    exact h1.trans h2
  · rw [withIntro_numbers] at hpages
    exact hpages

/-- paragraph "Our steps" introduces the list behind it: with `PreserveListCoherence` the two form
one atomic block (one chunk, although the paragraph alone would fit with the one before it) -/
example :
    let cfg : Cfg := ⟨24, 0, 3, true, [99]⟩
    let d : LDoc := [⟨1, some ⟨[], [⟨ofString "aaaa bbbb cccc", false, []⟩, ⟨ofString "Our steps", false, []⟩],
      [⟨[(0, ofString "x")], []⟩]⟩⟩]
    (chunkSI (fun _ => false) cfg [] d).map (·.text) =
      [ofString "aaaa bbbb cccc", ofString "Our steps" ++ [10, 10] ++ ofString "- x"] := by decide +kernel

end Tabula.C12Intro
