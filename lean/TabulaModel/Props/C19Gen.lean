import TabulaModel.Model.Nav
import TabulaModel.Gen.HtmlVocab
/-!
# C19 — regenerated tie: the navigation vocabularies

`Gen/HtmlVocab.lean` is rewritten from `htmldoc/navigation.go` (the alternatives of the five
regular expressions) on every check run. These theorems make the vocabularies typed into the
model — on which `mode_lattice`, `vocab_inclusion` and `filter_monotone` rest — equal to what
the source says now; they stop checking the moment a word is added, dropped or moved.
-/
namespace Tabula.C19
open Tabula.Html Tabula.Gen.HtmlVocab

theorem vocab_nav_regenerated : vocabNav = vocab_nav := by decide
theorem vocab_header_regenerated : vocabHeader = vocab_header := by decide
theorem vocab_footer_regenerated : vocabFooter = vocab_footer := by decide
theorem vocab_sidebar_regenerated : vocabSidebar = vocab_sidebar := by decide
theorem vocab_excluded_regenerated : vocabExcluded = vocab_excluded := by decide

/-- the combined pattern built in `init()` is the concatenation of the four lists, as the
source has it now -/
theorem vocab_excluded_is_concatenation :
    vocab_excluded = vocab_nav ++ vocab_header ++ vocab_footer ++ vocab_sidebar := by decide

end Tabula.C19
