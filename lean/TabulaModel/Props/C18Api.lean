import TabulaModel.Lemmas.PackageApi
import TabulaModel.Props.C18
/-!
# C18 — the reader API and the front door (composition with `Props/C18.lean`)

`Props/C18.lean` proves that the PART LIST follows the declaration. This file carries the
statement to what a caller observes (`Model/PackageApi.lean`):

* PPTX speaker notes: each presented slide carries the notes part that ITS OWN
  relationship part leads to (`notes_follow_own_relationships`), independent of the
  ZIP order (`archive_perm_invariant_notes`) and of undeclared members
  (`decoys_ignored_pptx_notes`);
* selections (`ExtractOptions.Sheets` / `SlideNumbers`): exactly the parts asked for, in
  the order asked for, nothing else (`selection_*`);
* call histories on one reader: no call changes the reader, every reply is the reply of a
  freshly opened reader (`*_history_independence`);
* end to end, from the archive to `tabula.Open(f).PageCount()/Text()/Document()`:
  the count is the number of declared readable parts, `Text()` is the texts of the
  declared readable parts in declared order separated by blank lines, `Document()` has one
  page per declared readable part built from that part alone (`front_*`), and what one
  part parses to influences its own page/segment only (`*_own_page_only`).
-/
namespace Tabula.C18Api
open Tabula.Package Tabula.PackageApi Tabula.C18

/-! ## PPTX speaker notes -/

/-- specification side: the declared slide path looked up, kept when it is a slide,
together with the notes part its own relationship part leads to -/
def pptxSpecPartN (a : Archive) (x : Docs) (e : Str × Nat) : Option SlideN :=
  (pptxSpecPart a x e).map fun p => (p.1, p.2, slideNotes (lookup a) x e.1)

/-- forgetting the notes gives the slide list of `Props/C18.lean` -/
theorem pptxOpenN_forget (a : Archive) (x : Docs) :
    (pptxOpenN a x).map (fun ps => ps.map fun p => (p.1, p.2.1)) = pptxOpen a x := by
  unfold pptxOpenN pptxOpenNL pptxOpen pptxOpenL
  cases pptxDeclared (lookup a) x with
  | none => rfl
  | some d =>
    simp only [pptxLoop]
    generalize (if d = [] then fallbackSlidePaths (a.map Prod.fst) else d) = paths
    by_cases h : loopIdx (pptxPart (lookup a) x) 0 paths = []
    · have h' := (loopIdx_pptxPartN_nil (lookup a) x 0 paths).mpr h
      simp [h, h']
    · have h' : loopIdx (pptxPartN (lookup a) x) 0 paths ≠ [] :=
        fun e => h ((loopIdx_pptxPartN_nil (lookup a) x 0 paths).mp e)
      simp [h, h', loopIdx_pptxPartN_forget]

/-- **notes_follow_own_relationships** — the presented slides are the declared readable
slide parts in declared order, and the notes of each are found through THAT slide's
path: `<dir>/_rels/<base>.rels` → first `notesSlide` relationship → target resolved
against the slide's directory (`slideNotes`), whatever the other slides are. -/
theorem notes_follow_own_relationships (a : Archive) (x : Docs) (declared : List Str)
    (h : pptxDeclared (lookup a) x = some declared) (hne : declared ≠ []) :
    pptxOpenN a x =
      (let parts := declared.zipIdx.filterMap (pptxSpecPartN a x)
       if parts = [] then none else some parts) := by
  have e : (fun e : Str × Nat => pptxPartN (lookup a) x e.2 e.1) = pptxSpecPartN a x := by
    funext e
    unfold pptxPartN pptxSpecPartN pptxSpecPart pptxPart
    cases lookup a e.1 with
    | none => rfl
    | some c =>
      by_cases hs : x c = .slide
      · simp [hs]
      · simp [hs]
  unfold pptxOpenN pptxOpenNL
  rw [h]
  simp only [hne, if_false, loopIdx_eq_filterMap, e]

/-- what `slideNotes` returns, spelled out -/
theorem slideNotes_spec (look : Str → Option Nat) (x : Docs) (p : Str) (c : Nat) :
    slideNotes look x p = some c ↔
      ∃ rs, slideRels look x p = some rs ∧ notesTarget rs ≠ [] ∧
        notesLookup look (pathDir p) (notesTarget rs) = some c ∧ x c = .notes := by
  unfold slideNotes
  cases slideRels look x p with
  | none => simp
  | some rs =>
    by_cases ht : notesTarget rs = []
    · simp [ht]
    · simp only [ht, if_false, Option.some.injEq, exists_eq_left', ne_eq, not_false_eq_true, true_and]
      cases notesLookup look (pathDir p) (notesTarget rs) with
      | none => simp
      | some c' =>
        by_cases hn : x c' = .notes
        · simp only [hn, if_true, Option.some.injEq]
          constructor
          · intro e
            subst e
            exact ⟨rfl, hn⟩
          · intro e
            exact e.1
        · simp only [hn, if_false, Option.some.injEq]
          constructor
          · intro e
            cases e
          · intro e
            obtain ⟨e1, e2⟩ := e
            subst e1
            exact absurd e2 hn

/-- the notes relationship is the FIRST one whose type mentions `notesSlide` -/
theorem notesTarget_first (pre : List (Str × Str × Str)) (r : Str × Str × Str) (post : List (Str × Str × Str))
    (hpre : ∀ q ∈ pre, hasSub sNotesSlide q.2.1 = false) (hr : hasSub sNotesSlide r.2.1 = true) :
    notesTarget (pre ++ r :: post) = r.2.2 := by
  induction pre with
  | nil => simp [notesTarget, hr]
  | cons q rest ih =>
    have hq := hpre q List.mem_cons_self
    simp only [List.cons_append, notesTarget, hq]
    exact ih (fun q' hq' => hpre q' (List.mem_cons_of_mem _ hq'))

/-- non-vacuity: layout first, notes second, a further notes relationship third -/
example : notesTarget [([1], [115, 108, 105, 100, 101, 76, 97, 121, 111, 117, 116], [120]),
    ([2], [47, 110, 111, 116, 101, 115, 83, 108, 105, 100, 101], [121]),
    ([3], sNotesSlide, [122])] = [121] := by decide

/-- a relative target is resolved against the directory of the slide part, an absolute
one against the package root; dot segments are removed -/
theorem notes_resolution (dir t : Str) :
    notesResolved dir t = if hasPrefix [47] t then (clean t).drop 1 else join2 dir t := rfl

/-- `ppt/slides/deep` + `../../notesSlides/n3.xml` is `ppt/notesSlides/n3.xml` -/
example : notesResolved [112, 112, 116, 47, 115, 108, 105, 100, 101, 115, 47, 100, 101, 101, 112]
    [46, 46, 47, 46, 46, 47, 110, 111, 116, 101, 115, 83, 108, 105, 100, 101, 115, 47, 110, 51, 46, 120, 109, 108]
    = [112, 112, 116, 47, 110, 111, 116, 101, 115, 83, 108, 105, 100, 101, 115, 47, 110, 51, 46, 120, 109, 108] := by decide

/-- `slideRelsPath "ppt/slides/s1.xml" = "ppt/slides/_rels/s1.xml.rels"`, and for a
part in the package root `"x.xml" ↦ "_rels/x.xml.rels"` -/
example : slideRelsPath [112, 112, 116, 47, 115, 108, 105, 100, 101, 115, 47, 115, 49, 46, 120, 109, 108]
    = [112, 112, 116, 47, 115, 108, 105, 100, 101, 115, 47, 95, 114, 101, 108, 115, 47, 115, 49, 46, 120, 109, 108, 46, 114, 101, 108, 115] := by decide
example : slideRelsPath [120, 46, 120, 109, 108] = [95, 114, 101, 108, 115, 47, 120, 46, 120, 109, 108, 46, 114, 101, 108, 115] := by decide

/-- every name `parseSlideRelationships` / `parseSlideNotes` may ask the archive for,
for one slide path -/
def notesConsulted (look : Str → Option Nat) (x : Docs) (p : Str) : List Str :=
  slideRelsPath p ::
    match slideRels look x p with
    | none => []
    | some rs => [notesResolved (pathDir p) (notesTarget rs), notesTarget rs]

theorem slideNotes_congr (look look' : Str → Option Nat) (x : Docs) (p : Str)
    (h : ∀ n ∈ notesConsulted look x p, look' n = look n) : slideNotes look' x p = slideNotes look x p := by
  have h0 : look' (slideRelsPath p) = look (slideRelsPath p) := h _ (by simp [notesConsulted])
  have hr : slideRels look' x p = slideRels look x p := by
    unfold slideRels
    rw [h0]
  unfold slideNotes
  rw [hr]
  cases hR : slideRels look x p with
  | none => rfl
  | some rs =>
    have h1 : look' (notesResolved (pathDir p) (notesTarget rs)) = look (notesResolved (pathDir p) (notesTarget rs)) :=
      h _ (by simp [notesConsulted, hR])
    have h2 : look' (notesTarget rs) = look (notesTarget rs) := h _ (by simp [notesConsulted, hR])
    have hl : notesLookup look' (pathDir p) (notesTarget rs) = notesLookup look (pathDir p) (notesTarget rs) := by
      unfold notesLookup
      simp only [h1, h2]
    simp only [hl]

/-- every name the PPTX reader asks for, notes plumbing included -/
def pptxConsultedN (look : Str → Option Nat) (x : Docs) : List Str :=
  pptxConsulted look x ++
    match pptxDeclared look x with
    | none => []
    | some d => d.flatMap (notesConsulted look x)

theorem pptxOpenNL_congr (look look' : Str → Option Nat) (names names' : List Str) (x : Docs)
    (hdecl : pptxDeclared look x ≠ some [])
    (h : ∀ n ∈ pptxConsultedN look x, look' n = look n) :
    pptxOpenNL look' names' x = pptxOpenNL look names x := by
  have hc : ∀ n ∈ pptxConsulted look x, look' n = look n :=
    fun n hn => h n (List.mem_append.mpr (Or.inl hn))
  have h0 : look' sCT = look sCT := hc _ (by simp [pptxConsulted])
  have h1 : look' sPres = look sPres := hc _ (by simp [pptxConsulted])
  have h2 : look' sPresRels = look sPresRels := hc _ (by simp [pptxConsulted])
  have hd : pptxDeclared look' x = pptxDeclared look x := by
    unfold pptxDeclared pptxRels
    rw [h0, h1, h2]
  unfold pptxOpenNL
  rw [hd]
  cases hD : pptxDeclared look x with
  | none => rfl
  | some d =>
    have hne : d ≠ [] := by
      intro e
      subst e
      exact hdecl hD
    have hl : loopIdx (pptxPartN look' x) 0 d = loopIdx (pptxPartN look x) 0 d := by
      apply loopIdx_congr
      intro p hp j
      have m : p ∈ pptxConsulted look x := by
        simp only [pptxConsulted, hD, List.mem_append]
        exact Or.inr hp
      have hn : slideNotes look' x p = slideNotes look x p := by
        apply slideNotes_congr
        intro n hn
        apply h
        simp only [pptxConsultedN, hD, List.mem_append, List.mem_flatMap]
        exact Or.inr ⟨p, hp, hn⟩
      simp only [pptxPartN, pptxPart, hc _ m, hn]
    simp only [hne, if_false, hl]

/-- **decoys_ignored_pptx_notes** — members under names that neither the slide list nor
any declared slide's own relationship part leads to (left-over slides, their
relationship parts, their notes, notes of other decks …) change nothing: not the slide
list, not which notes part each slide carries. -/
theorem decoys_ignored_pptx_notes (a extra : Archive) (x : Docs)
    (hdecl : pptxDeclared (lookup a) x ≠ some [])
    (h : ∀ m ∈ extra, m.1 ∉ pptxConsultedN (lookup a) x) : pptxOpenN (a ++ extra) x = pptxOpenN a x :=
  pptxOpenNL_congr (lookup a) (lookup (a ++ extra)) _ _ x hdecl (agree_of_avoid h)

/-- **archive_perm_invariant_notes** — slide list and notes do not depend on the ZIP
member order. -/
theorem archive_perm_invariant_notes (a a' : Archive) (x : Docs)
    (hn : (a.map Prod.fst).Nodup) (hp : a.Perm a') (hd : pptxDeclared (lookup a) x ≠ some []) :
    pptxOpenN a x = pptxOpenN a' x := by
  have hl := lookup_perm_fun hn hp
  unfold pptxOpenN pptxOpenNL
  rw [← hl]
  cases h : pptxDeclared (lookup a) x with
  | none => rfl
  | some d =>
    have : d ≠ [] := by
      intro e
      subst e
      exact hd h
    simp only [this, if_false]

/-! ### a concrete deck with notes -/

/-- `exArchive` of `Props/C18.lean` plus: relationship parts of slide1 (notes →
`../notesSlides/notesSlide7.xml`) and of the left-over slide9 (notes →
`../notesSlides/notesSlide1.xml`), and both notes parts -/
def exArchiveN : Archive :=
  exArchive ++
  [([112, 112, 116, 47, 115, 108, 105, 100, 101, 115, 47, 95, 114, 101, 108, 115, 47, 115, 108, 105, 100, 101, 49, 46, 120, 109, 108, 46, 114, 101, 108, 115], 21),
   ([112, 112, 116, 47, 115, 108, 105, 100, 101, 115, 47, 95, 114, 101, 108, 115, 47, 115, 108, 105, 100, 101, 57, 46, 120, 109, 108, 46, 114, 101, 108, 115], 29),
   ([112, 112, 116, 47, 110, 111, 116, 101, 115, 83, 108, 105, 100, 101, 115, 47, 110, 111, 116, 101, 115, 83, 108, 105, 100, 101, 55, 46, 120, 109, 108], 37),
   ([112, 112, 116, 47, 110, 111, 116, 101, 115, 83, 108, 105, 100, 101, 115, 47, 110, 111, 116, 101, 115, 83, 108, 105, 100, 101, 49, 46, 120, 109, 108], 31)]

def exDocsN : Docs := fun c =>
  if c = 21 then .relsT [([114, 49], sNotesSlide,
      [46, 46, 47, 110, 111, 116, 101, 115, 83, 108, 105, 100, 101, 115, 47, 110, 111, 116, 101, 115, 83, 108, 105, 100, 101, 55, 46, 120, 109, 108])]
  else if c = 29 then .relsT [([114, 49], sNotesSlide,
      [46, 46, 47, 110, 111, 116, 101, 115, 83, 108, 105, 100, 101, 115, 47, 110, 111, 116, 101, 115, 83, 108, 105, 100, 101, 49, 46, 120, 109, 108])]
  else if c = 37 ∨ c = 31 then .notes
  else exDocs c

/-- slide2 (first by the slide list) has no notes; slide1 carries notesSlide7, although a
`notesSlide1.xml` exists (it belongs to the undeclared slide9) -/
theorem pptx_notes_example : pptxOpenN exArchiveN exDocsN = some [(0, 12, none), (1, 11, some 37)] := by decide

/-- hypotheses of the notes theorems are satisfiable -/
example : pptxDeclared (lookup exArchiveN) exDocsN ≠ some [] := by decide
example : (exArchiveN.map Prod.fst).Nodup := by decide

/-- non-vacuity of `decoys_ignored_pptx_notes`: neither the left-over slide9, nor its
relationship part, nor the notes part that one points to is consulted -/
example : ∀ n ∈ ([[112, 112, 116, 47, 115, 108, 105, 100, 101, 115, 47, 115, 108, 105, 100, 101, 57, 46, 120, 109, 108],
    [112, 112, 116, 47, 115, 108, 105, 100, 101, 115, 47, 95, 114, 101, 108, 115, 47, 115, 108, 105, 100, 101, 57, 46, 120, 109, 108, 46, 114, 101, 108, 115],
    [112, 112, 116, 47, 110, 111, 116, 101, 115, 83, 108, 105, 100, 101, 115, 47, 110, 111, 116, 101, 115, 83, 108, 105, 100, 101, 49, 46, 120, 109, 108]] : List Str),
    n ∉ pptxConsultedN (lookup exArchiveN) exDocsN := by decide

/-! ## selections -/

/-- **selection_in_order_asked** — a selection lists, for each index in the order given,
the part at that position of the reader's list; indices that name no part are skipped;
an empty selection means all parts in the reader's order. -/
theorem selection_in_order_asked {α : Type} (all : List α) (sel : List Int) :
    selectParts all sel = if sel = [] then all else sel.filterMap (pick all) := by
  unfold selectParts
  rw [selectLoop_eq_filterMap]

/-- **selection_lists_parts_only** — whatever the selection, nothing but parts of the
reader's own list is rendered. -/
theorem selection_lists_parts_only {α : Type} (all : List α) (sel : List Int) (v : α)
    (h : v ∈ selectParts all sel) : v ∈ all := by
  rw [selection_in_order_asked] at h
  split at h
  · exact h
  · obtain ⟨i, _, hi⟩ := List.mem_filterMap.mp h
    exact pick_mem hi

/-- a selection naming one existing part renders exactly that part -/
theorem selection_single {α : Type} (all : List α) (k : Nat) (h : k < all.length) :
    selectParts all [(k : Int)] = [all[k]] := by
  rw [selection_in_order_asked]
  simp [pick_ofNat all k h]

/-- the number of rendered parts never exceeds the length of the selection -/
theorem selection_length_le {α : Type} (all : List α) (sel : List Int) (h : sel ≠ []) :
    (selectParts all sel).length ≤ sel.length := by
  rw [selection_in_order_asked]
  simp only [h, if_false]
  exact List.length_filterMap_le _ _

/-- non-vacuity: reversed, out-of-range and repeated indices -/
example : selectParts [10, 20, 30] [2, 0, -1, 3, 0] = [30, 10, 10] := by decide
example : selectParts [10, 20, 30] [] = [10, 20, 30] := by decide

/-! ## call histories -/

/-- **xlsx_history_independence** — for every history of calls on one opened reader: the
reader is left as it was after `Open`, and every reply is the reply the same call gets
from a freshly opened reader. -/
theorem xlsx_history_independence (r : XReader) (cs : List XCall) :
    (xlsxRun r cs).2 = r ∧ (xlsxRun r cs).1 = cs.map fun c => (xlsxStep r c).1 := by
  rw [xlsxRun_spec]
  exact ⟨rfl, rfl⟩

theorem pptx_history_independence (r : PReader) (cs : List PCall) :
    (pptxRun r cs).2 = r ∧ (pptxRun r cs).1 = cs.map fun c => (pptxStep r c).1 := by
  rw [pptxRun_spec]
  exact ⟨rfl, rfl⟩

theorem epub_history_independence (h : HtmlViews) (r : EReader) (cs : List ECall) :
    (epubRun h r cs).2 = r ∧ (epubRun h r cs).1 = cs.map fun c => (epubStep h r c).1 := by
  rw [epubRun_spec]
  exact ⟨rfl, rfl⟩

/-- after ANY history, asking for the count, the names and the document gives the
declared list again (here: the reader's list; `xlsx_reader_follows_declaration` below
says what that list is) -/
theorem xlsx_accessors_after_history (r : XReader) (cs : List XCall) :
    (xlsxRun r (cs ++ [.count, .names, .document])).1.drop cs.length =
      [.num r.length, .strs (r.map (·.name)), .pages (xlsxDocument r)] := by
  rw [xlsxRun_spec]
  simp [xlsxStep]

/-- non-vacuity: a selecting call in the middle of a history -/
example : (xlsxRun [⟨0, 5, [65], []⟩, ⟨2, 7, [66], []⟩]
    [.markdown { sheets := [1] }, .count, .sheet 1, .names]).1
    = [.parts [⟨2, 7, [66], []⟩], .num 2, .sheet (some ⟨2, 7, [66], []⟩), .strs [[65], [66]]] := by decide

/-! ## XLSX end to end -/

/-- the reader's sheet for a presented part -/
def mkSheet (grid : Nat → Grid) (p : SheetPart) : Sheet := ⟨p.1, p.2.1, p.2.2, grid p.2.1⟩

/-- **xlsx_reader_follows_declaration** — `r.sheets` after `Open` is the declared list, in
declared order, each entry resolved and looked up, unreadable entries dropped; sheet `k`
holds what ITS member parses to. -/
theorem xlsx_reader_follows_declaration (a : Archive) (x : Docs) (grid : Nat → Grid)
    (rels sheets : List (Str × Str)) (h : xlsxDeclared (lookup a) x = some (rels, sheets)) :
    xlsxReader a x grid =
      (let parts := sheets.zipIdx.filterMap (xlsxSpecPart a x rels)
       if parts = [] then none else some (parts.map (mkSheet grid))) := by
  unfold xlsxReader
  rw [parts_follow_declaration_xlsx a x rels sheets h]
  simp only
  split <;> rfl

/-- **front_page_count_xlsx** — `tabula.Open(f).PageCount()` = number of declared readable sheets. -/
theorem front_page_count_xlsx (a : Archive) (x : Docs) (grid : Nat → Grid) (rels sheets : List (Str × Str))
    (n : Nat) (h : xlsxDeclared (lookup a) x = some (rels, sheets)) (hc : frontCountXlsx a x grid = some n) :
    n = sheets.zipIdx.countP (fun e => (xlsxSpecPart a x rels e).isSome) := by
  unfold frontCountXlsx at hc
  rw [xlsx_reader_follows_declaration a x grid rels sheets h] at hc
  simp only at hc
  split at hc
  · cases hc
  · simp only [Option.map_some, List.length_map, Option.some.injEq] at hc
    rw [← hc, length_filterMap_eq_countP]

/-- **front_text_xlsx** — `tabula.Open(f).Text()` is the cell text of the declared readable
sheets, in declared order, separated by blank lines; nothing else. -/
theorem front_text_xlsx (a : Archive) (x : Docs) (grid : Nat → Grid) (o : FrontOpts)
    (rels sheets : List (Str × Str)) (t : Str)
    (h : xlsxDeclared (lookup a) x = some (rels, sheets)) (ht : frontTextXlsx a x grid o = some t) :
    t = joinWith sNL2 ((sheets.zipIdx.filterMap (xlsxSpecPart a x rels)).map fun p => sheetBody [9] (grid p.2.1)) := by
  unfold frontTextXlsx at ht
  rw [xlsx_reader_follows_declaration a x grid rels sheets h] at ht
  simp only at ht
  split at ht
  · cases ht
  · simp only [Option.map_some, Option.some.injEq] at ht
    rw [← ht]
    simp only [xlsxText, selectParts, if_true, List.map_map]
    rfl

/-- **front_document_xlsx** — `Document().Pages`: one page per declared readable sheet, in
declared order, numbered by declared position, holding that sheet's grid. -/
theorem front_document_xlsx (a : Archive) (x : Docs) (grid : Nat → Grid)
    (rels sheets : List (Str × Str)) (pages : List XPage)
    (h : xlsxDeclared (lookup a) x = some (rels, sheets)) (hd : frontDocXlsx a x grid = some pages) :
    pages = (sheets.zipIdx.filterMap (xlsxSpecPart a x rels)).map fun p => ⟨p.1 + 1, p.2.1, grid p.2.1⟩ := by
  unfold frontDocXlsx at hd
  rw [xlsx_reader_follows_declaration a x grid rels sheets h] at hd
  simp only at hd
  split at hd
  · cases hd
  · simp only [Option.map_some, Option.some.injEq] at hd
    rw [← hd]
    simp only [xlsxDocument, List.map_map]
    rfl

/-- **xlsx_own_page_only** — what one member parses to influences only the pages built
from that member: if two parse results agree on every member but `c`, the two documents
have the same pages (number, member) and equal content on every page not built from `c`;
whether `Open` succeeds, and the page count, do not depend on the parse results at all. -/
theorem xlsx_own_page_only (a : Archive) (x : Docs) (grid grid' : Nat → Grid) (c : Nat)
    (hg : ∀ c', c' ≠ c → grid c' = grid' c') :
    (frontDocXlsx a x grid).isSome = (frontDocXlsx a x grid').isSome ∧
    ∀ pages pages', frontDocXlsx a x grid = some pages → frontDocXlsx a x grid' = some pages' →
      pages.length = pages'.length ∧
      ∀ (k : Nat) (p p' : XPage), pages[k]? = some p → pages'[k]? = some p' →
        p.number = p'.number ∧ p.cid = p'.cid ∧ (p.cid ≠ c → p = p') := by
  unfold frontDocXlsx xlsxReader
  cases xlsxOpen a x with
  | none => simp
  | some ps =>
    refine ⟨rfl, ?_⟩
    intro pages pages' h h'
    simp only [Option.map_some, Option.some.injEq] at h h'
    subst h h'
    simp only [xlsxDocument, List.map_map, List.length_map, true_and]
    intro k p p' hp hp'
    simp only [List.getElem?_map] at hp hp'
    cases hk : ps[k]? with
    | none => simp [hk] at hp
    | some q =>
      simp only [hk, Option.map_some, Function.comp, Option.some.injEq] at hp hp'
      subst hp hp'
      refine ⟨rfl, rfl, ?_⟩
      intro hne
      simp only at hne
      simp only [hg _ hne]

/-- the same for `Text()`: the text is the blank-line-separated sequence of per-sheet
segments, the `k`-th of which is computed from the `k`-th declared readable sheet's own
member alone -/
theorem xlsx_text_own_segment_only (a : Archive) (x : Docs) (grid grid' : Nat → Grid) (c : Nat) (o : FrontOpts)
    (hg : ∀ c', c' ≠ c → grid c' = grid' c') (ps : List SheetPart) (h : xlsxOpen a x = some ps) :
    ∃ seg seg' : List Str,
      frontTextXlsx a x grid o = some (joinWith sNL2 seg) ∧ frontTextXlsx a x grid' o = some (joinWith sNL2 seg') ∧
      seg.length = ps.length ∧ seg'.length = ps.length ∧
      ∀ (k : Nat) (p : SheetPart), ps[k]? = some p → p.2.1 ≠ c → seg[k]? = seg'[k]? := by
  refine ⟨ps.map fun p => sheetBody [9] (grid p.2.1), ps.map fun p => sheetBody [9] (grid' p.2.1), ?_, ?_, by simp, by simp, ?_⟩
  · unfold frontTextXlsx xlsxReader
    rw [h]
    simp only [Option.map_some, xlsxText, selectParts, if_true, List.map_map]
    rfl
  · unfold frontTextXlsx xlsxReader
    rw [h]
    simp only [Option.map_some, xlsxText, selectParts, if_true, List.map_map]
    rfl
  · intro k p hk hne
    simp only [List.getElem?_map, hk, Option.map_some, hg _ hne]

/-- the segment of the `k`-th part stands in the text after the segments of the parts
before it and before those of the parts after it -/
theorem text_segment_position (sep : Str) (before : List Str) (v : Str) (after : List Str) :
    joinWith sep (before ++ v :: after) =
      (if before = [] then [] else joinWith sep before ++ sep) ++ v ++
      (if after = [] then [] else sep ++ joinWith sep after) :=
  joinWith_split sep before v after

/-- **xlsx_selection_text** — `TextWithOptions` with a selection renders exactly the
selected sheets' segments, in the order asked for. -/
theorem xlsx_selection_text (r : XReader) (o : XOpts) (h : o.sheets ≠ []) :
    xlsxText r o = joinWith sNL2 ((o.sheets.filterMap (pick r)).map (sheetText o)) := by
  unfold xlsxText
  rw [selection_in_order_asked]
  simp only [h, if_false]

/-- the workbook of `xlsx_declared_order_example` (without the left-over sheet) -/
def exXArchive : Archive :=
  [(sCT, 1), ([120, 108, 47, 119, 111, 114, 107, 115, 104, 101, 101, 116, 115, 47, 115, 104, 101, 101, 116, 49, 46, 120, 109, 108], 11),
   (sWorkbook, 2), (sXlRels, 3),
   ([120, 108, 47, 119, 111, 114, 107, 115, 104, 101, 101, 116, 115, 47, 115, 104, 101, 101, 116, 50, 46, 120, 109, 108], 12)]

def exXDocs : Docs := fun c =>
  if c = 2 then .workbook [([84, 119, 111], [114, 66]), ([79, 110, 101], [114, 65])]
  else if c = 3 then .rels [([114, 65], [47, 120, 108, 47, 119, 111, 114, 107, 115, 104, 101, 101, 116, 115, 47, 115, 104, 101, 101, 116, 49, 46, 120, 109, 108]),
      ([114, 66], [119, 111, 114, 107, 115, 104, 101, 101, 116, 115, 47, 115, 104, 101, 101, 116, 50, 46, 120, 109, 108])]
  else if c = 11 ∨ c = 12 then .sheet else .opaque

/-- sheet1.xml holds `a⇥b`, sheet2.xml holds `z` -/
def exXGrid : Nat → Grid := fun c =>
  if c = 11 then [[⟨[97], false, false⟩, ⟨[98], false, false⟩]] else [[⟨[122], false, false⟩]]

/-- concrete: `Text()` shows sheet2's cells before sheet1's although sheet1.xml comes first
in the archive and by name -/
theorem xlsx_front_text_example : frontTextXlsx exXArchive exXDocs exXGrid {} = some [122, 10, 10, 97, 9, 98] := by decide

/-- the hypotheses of the XLSX front-door theorems are satisfiable -/
example : (xlsxDeclared (lookup exXArchive) exXDocs).isSome ∧ frontCountXlsx exXArchive exXDocs exXGrid = some 2 ∧
    (frontDocXlsx exXArchive exXDocs exXGrid).isSome := by decide

/-- non-vacuity of `xlsx_own_page_only` / `xlsx_text_own_segment_only`: two parse tables
that differ on member 11 only -/
example : ∀ c', c' ≠ 11 → exXGrid c' = (fun c => if c = 11 then [] else exXGrid c) c' := by
  intro c' h
  simp [h]

/-! ## PPTX end to end -/

/-- the reader's slide for a presented part -/
def mkSlide (body : Nat → SlideBody) (nt : Nat → Str) (p : SlideN) : Slide :=
  ⟨p.1, p.2.1, body p.2.1, p.2.2, match p.2.2 with
    | none => []
    | some n => nt n⟩

/-- **pptx_reader_follows_declaration** — `r.slides` after `Open` is the slide list, in its
own order, unreadable entries dropped; slide `k` holds what ITS member parses to and the
notes text of the notes part ITS relationship part leads to. -/
theorem pptx_reader_follows_declaration (a : Archive) (x : Docs) (body : Nat → SlideBody) (nt : Nat → Str)
    (declared : List Str) (h : pptxDeclared (lookup a) x = some declared) (hne : declared ≠ []) :
    pptxReader a x body nt =
      (let parts := declared.zipIdx.filterMap (pptxSpecPartN a x)
       if parts = [] then none else some (parts.map (mkSlide body nt))) := by
  unfold pptxReader
  rw [notes_follow_own_relationships a x declared h hne]
  simp only
  split <;> rfl

theorem front_page_count_pptx (a : Archive) (x : Docs) (body : Nat → SlideBody) (nt : Nat → Str)
    (declared : List Str) (n : Nat) (h : pptxDeclared (lookup a) x = some declared) (hne : declared ≠ [])
    (hc : frontCountPptx a x body nt = some n) :
    n = declared.zipIdx.countP (fun e => (pptxSpecPart a x e).isSome) := by
  unfold frontCountPptx at hc
  rw [pptx_reader_follows_declaration a x body nt declared h hne] at hc
  simp only at hc
  split at hc
  · cases hc
  · simp only [Option.map_some, List.length_map, Option.some.injEq] at hc
    rw [← hc, length_filterMap_eq_countP]
    congr 1
    funext e
    unfold pptxSpecPartN
    cases pptxSpecPart a x e <;> rfl

/-- the options `Extractor.Text()` hands to the PPTX reader -/
def frontPOpts (o : FrontOpts) : POpts :=
  { notes := true, titles := true, exHeaders := o.exHeaders, exFooters := o.exFooters }

/-- **front_text_pptx** — `tabula.Open(f).Text()` is, for the declared readable slides in
slide-list order, title, blocks, tables and that slide's own notes, separated by blank
lines; nothing else. -/
theorem front_text_pptx (a : Archive) (x : Docs) (body : Nat → SlideBody) (nt : Nat → Str) (o : FrontOpts)
    (declared : List Str) (t : Str)
    (h : pptxDeclared (lookup a) x = some declared) (hne : declared ≠ [])
    (ht : frontTextPptx a x body nt o = some t) :
    t = joinWith sNL2 ((declared.zipIdx.filterMap (pptxSpecPartN a x)).map fun p =>
          slideText (frontPOpts o) (mkSlide body nt p)) := by
  unfold frontTextPptx at ht
  rw [pptx_reader_follows_declaration a x body nt declared h hne] at ht
  simp only at ht
  split at ht
  · cases ht
  · simp only [Option.map_some, Option.some.injEq] at ht
    rw [← ht]
    simp only [pptxText, selectParts, if_true, List.map_map]
    rfl

theorem front_document_pptx (a : Archive) (x : Docs) (body : Nat → SlideBody) (nt : Nat → Str)
    (declared : List Str) (pages : List PPage)
    (h : pptxDeclared (lookup a) x = some declared) (hne : declared ≠ [])
    (hd : frontDocPptx a x body nt = some pages) :
    pages = (declared.zipIdx.filterMap (pptxSpecPartN a x)).map fun p => ⟨p.1 + 1, p.2.1, body p.2.1⟩ := by
  unfold frontDocPptx at hd
  rw [pptx_reader_follows_declaration a x body nt declared h hne] at hd
  simp only at hd
  split at hd
  · cases hd
  · simp only [Option.map_some, Option.some.injEq] at hd
    rw [← hd]
    simp only [pptxDocument, List.map_map]
    rfl

/-- **pptx_notes_in_own_segment_only** — the notes text of a notes part influences only
the segments of the slides that carry that notes part: if two notes-text tables agree on
every notes part but `c`, the `k`-th segments of `Text()` are equal for every slide `k`
whose notes part is not `c` (in particular for slides without notes). -/
theorem pptx_notes_in_own_segment_only (a : Archive) (x : Docs) (body : Nat → SlideBody) (nt nt' : Nat → Str)
    (c : Nat) (o : FrontOpts) (hn : ∀ c', c' ≠ c → nt c' = nt' c') (ps : List SlideN)
    (h : pptxOpenN a x = some ps) :
    ∃ seg seg' : List Str,
      frontTextPptx a x body nt o = some (joinWith sNL2 seg) ∧ frontTextPptx a x body nt' o = some (joinWith sNL2 seg') ∧
      seg.length = ps.length ∧ seg'.length = ps.length ∧
      ∀ (k : Nat) (p : SlideN), ps[k]? = some p → p.2.2 ≠ some c → seg[k]? = seg'[k]? := by
  refine ⟨ps.map fun p => slideText (frontPOpts o) (mkSlide body nt p),
    ps.map fun p => slideText (frontPOpts o) (mkSlide body nt' p), ?_, ?_, by simp, by simp, ?_⟩
  · unfold frontTextPptx pptxReader
    rw [h]
    simp only [Option.map_some, pptxText, selectParts, if_true, List.map_map]
    rfl
  · unfold frontTextPptx pptxReader
    rw [h]
    simp only [Option.map_some, pptxText, selectParts, if_true, List.map_map]
    rfl
  · intro k p hk hne
    simp only [List.getElem?_map, hk, Option.map_some, Option.some.injEq]
    congr 1
    unfold mkSlide
    cases hp : p.2.2 with
    | none => rfl
    | some n =>
      have : n ≠ c := by
        intro e
        subst e
        exact hne hp
      simp only [hn _ this]

/-- a slide's notes are written inside its own segment, after its blocks and tables -/
theorem slide_segment_shape (o : POpts) (s : Slide) :
    slideText o s =
      (if o.titles && s.body.title ≠ [] then s.body.title ++ sNL2 else []) ++
      (s.body.blocks.map (blockText o)).flatten ++ (s.body.tables.map tableText).flatten ++
      (if o.notes && s.notes ≠ [] then sNotesL ++ s.notes ++ sNotesR else []) := rfl

/-- **pptx_selection_text** -/
theorem pptx_selection_text (r : PReader) (o : POpts) (h : o.slides ≠ []) :
    pptxText r o = joinWith sNL2 ((o.slides.filterMap (pick r)).map (slideText o)) := by
  unfold pptxText
  rw [selection_in_order_asked]
  simp only [h, if_false]

/-- the hypotheses of the PPTX front-door theorems are satisfiable -/
example : (pptxDeclared (lookup exArchiveN) exDocsN).isSome ∧
    frontCountPptx exArchiveN exDocsN (fun _ => ⟨[], [], []⟩) (fun _ => []) = some 2 := by decide

/-- concrete: the deck of `pptx_notes_example`; slide2 first, then slide1 with ITS notes -/
theorem pptx_front_text_example :
    frontTextPptx exArchiveN exDocsN
      (fun c => ⟨[], [⟨false, [], [⟨[48 + c % 10], 0, false, false⟩]⟩], []⟩)
      (fun c => [110, 48 + c % 10]) {}
      = some ([50, 10] ++ sNL2 ++ [49, 10] ++ sNotesL ++ [110, 55] ++ sNotesR) := by decide

/-! ## EPUB end to end -/

def mkChapter (p : ChapterPart) : Chapter := ⟨p.1, p.2.1, p.2.2.1, p.2.2.2⟩

/-- the reader's chapter list is the spine with later repetitions of an already listed
resource removed (`spineFirsts`, restated after c53b79e: see `Props/C18.lean`), resolved and
looked up -/
theorem epub_reader_follows_declaration (a : Archive) (x : Docs) (base : Str) (manifest : List (Str × Str))
    (spine : List Str) (h : epubDeclared (lookup a) x = some (base, manifest, spine)) :
    epubReader a x =
      (let parts := (spineFirsts base manifest spine).filterMap (epubSpecPart a base manifest)
       if parts = [] then none else some (parts.map mkChapter)) := by
  unfold epubReader
  rw [parts_follow_declaration_epub a x base manifest spine h]
  simp only
  split <;> rfl

theorem front_page_count_epub (a : Archive) (x : Docs) (base : Str) (manifest : List (Str × Str))
    (spine : List Str) (n : Nat) (h : epubDeclared (lookup a) x = some (base, manifest, spine))
    (hc : frontCountEpub a x = some n) :
    n = (spineFirsts base manifest spine).countP (fun e => (epubSpecPart a base manifest e).isSome) := by
  unfold frontCountEpub at hc
  rw [epub_reader_follows_declaration a x base manifest spine h] at hc
  simp only at hc
  split at hc
  · cases hc
  · simp only [Option.map_some, List.length_map, Option.some.injEq] at hc
    rw [← hc, length_filterMap_eq_countP]

/-- what a chapter contributes to `Text()`: its trimmed text when htmldoc can read it and
the text is not empty -/
def chapterSegment (h : HtmlViews) (mode : Int) (c : Chapter) : Option Str :=
  match h.text c.cid mode with
  | none => none
  | some t => if t = [] then none else some t

/-- **front_text_epub** — `tabula.Open(f).Text()` is the text of the chapters in spine order,
each listed resource once at its first position (`spineFirsts`; restated after c53b79e)
(hrefs resolved against the package document and percent-decoded, unreadable entries
dropped), blank-line separated; chapters without text contribute nothing. -/
theorem front_text_epub (hv : HtmlViews) (a : Archive) (x : Docs) (o : FrontOpts) (base : Str)
    (manifest : List (Str × Str)) (spine : List Str) (t : Str)
    (h : epubDeclared (lookup a) x = some (base, manifest, spine)) (ht : frontTextEpub hv a x o = some t) :
    t = joinWith sNL2 ((((spineFirsts base manifest spine).filterMap (epubSpecPart a base manifest)).map mkChapter).filterMap
          (chapterSegment hv 0)) := by
  unfold frontTextEpub at ht
  rw [epub_reader_follows_declaration a x base manifest spine h] at ht
  simp only at ht
  split at ht
  · cases ht
  · simp only [Option.map_some, Option.some.injEq] at ht
    rw [← ht]
    simp only [epubText, keepTexts_eq_filterMap]
    rfl

/-- **front_document_epub** — every page of `Document()` stems from one chapter of the
loaded list, carries that chapter's position (+1) as its number, and the numbers never
decrease: pages appear in spine order and no page mixes chapters. -/
theorem front_document_epub (hv : HtmlViews) (a : Archive) (x : Docs) (r : EReader) (pages : List EPage)
    (hr : epubReader a x = some r) (hd : frontDocEpub hv a x = some pages) :
    pages.Pairwise (fun p q => p.number ≤ q.number) ∧
    ∀ pg ∈ pages, ∃ k c, r[k]? = some c ∧ pg.number = k + 1 ∧ pg.cid = c.cid := by
  unfold frontDocEpub at hd
  rw [hr] at hd
  simp only [Option.map_some, Option.some.injEq] at hd
  subst hd
  refine ⟨(epubDocLoop_sorted hv 0 r).1, ?_⟩
  intro pg hpg
  obtain ⟨k, c, hk, hn, hc⟩ := epubDocLoop_page hv 0 r pg hpg
  exact ⟨k, c, hk, by omega, hc⟩

/-- when every chapter's own document has exactly one page, `Document()` has one page per
loaded chapter, in order -/
theorem epub_document_one_page_each (hv : HtmlViews) (r : EReader) (i : Nat)
    (h1 : ∀ c ∈ r, hv.pages c.cid = some 1) :
    epubDocLoop hv i r = r.zipIdx.map fun e => ⟨i + e.2 + 1, e.1.cid⟩ := by
  induction r generalizing i with
  | nil => rfl
  | cons c rest ih =>
    simp only [epubDocLoop, h1 c List.mem_cons_self, List.replicate_one, List.zipIdx_cons, List.map_cons,
      List.singleton_append, Nat.add_zero, Nat.zero_add]
    rw [ih (i + 1) (fun c' hc' => h1 c' (List.mem_cons_of_mem _ hc'))]
    congr 1
    rw [List.zipIdx_succ]
    simp only [List.map_map]
    apply List.map_congr_left
    intro e _
    simp only [Function.comp]
    congr 1
    omega

/-- the package of `epub_declared_order_example` -/
def exEArchive : Archive :=
  [([79, 69, 66, 80, 83, 47, 99, 49], 11), (sContainer, 1),
   ([79, 69, 66, 80, 83, 47, 99, 104, 47, 99, 43, 49, 46, 120, 104, 116, 109, 108], 12),
   ([79, 69, 66, 80, 83, 47, 99, 50], 13),
   ([79, 69, 66, 80, 83, 47, 99, 111, 110, 116, 101, 110, 116, 46, 111, 112, 102], 2)]

def exEDocs : Docs := fun c =>
  if c = 1 then .container [([79, 69, 66, 80, 83, 47, 99, 111, 110, 116, 101, 110, 116, 46, 111, 112, 102], sOebps)]
  else if c = 2 then .opf [([105, 49], [99, 49]), ([105, 50], [99, 104, 47, 99, 43, 49, 46, 120, 104, 116, 109, 108]),
      ([105, 51], [99, 50])] [[105, 50], [105, 49]]
  else .opaque

/-- every member reads as one digit (its content id mod 10), one page each -/
def exEViews : HtmlViews := ⟨fun c _ => some [48 + c % 10], fun _ _ => none, fun _ => some 1⟩

/-- concrete: chapter `ch/c+1.xhtml` (member 12) first, then `c1` (member 11) -/
theorem epub_front_text_example : frontTextEpub exEViews exEArchive exEDocs {} = some [50, 10, 10, 49] := by decide

theorem epub_front_document_example :
    frontDocEpub exEViews exEArchive exEDocs = some [⟨1, 12⟩, ⟨2, 11⟩] := by decide

/-- the hypotheses of the EPUB front-door theorems are satisfiable -/
example : (epubDeclared (lookup exEArchive) exEDocs).isSome ∧ frontCountEpub exEArchive exEDocs = some 2 ∧
    (epubReader exEArchive exEDocs).isSome := by decide
example : ∀ c ∈ ([⟨0, 12, [], []⟩, ⟨1, 11, [], []⟩] : EReader), exEViews.pages c.cid = some 1 := by decide

end Tabula.C18Api
