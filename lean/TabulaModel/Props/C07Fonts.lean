import TabulaModel.Props.C07
import TabulaModel.Props.C07CMap
import TabulaModel.Lemmas.FormFonts
import TabulaModel.Lemmas.PdfCS
/-!
# C07 — which font decodes a shown string (histories of `q Q Tf Tj TJ ' " Do`)

Theorems about `Model/FormFonts.lean`, the model of `text.Extractor`'s font table over a
whole content stream including Form XObjects (tied to the Go code by op `c07.ext`):

* `bindings_stable_*` — over EVERY operation history (any operators, any forms drawn to any
  depth, whatever those forms register or select), a resource name that was bound keeps its
  font. This is fix 613ae5d (a form's `/F1` no longer replaces the page's `/F1`) as a theorem.
* `show_after_history_page` / `show_after_history_form` — after any history, `/N sz Tf` followed
  by a show decodes the string by the font that was bound to `N` when the history began, with
  `Font.DecodeString`'s priority; `form_entry_binding` / `form_inherits_binding` say what is
  bound when a form begins (its own `/Resources` first, else the caller's binding);
  `page_initial_binding` the same for the page.
* `register_order_free` — `RegisterFontsFromResources` leaves the same table whatever order the
  Go map is ranged over.
* `inherited_font` / `inherited_font_do` / `inherited_font_after_history` — a form that shows text
  without a `Tf` of its own decodes it by the font its caller selected, whatever its own
  `/Resources` bind (fix fa0c44f); `inherited_font_pinned_counterexample` keeps the old
  lookup by name (`showOneOld`) and its wrong answer.
* `parseFont_simple_tounicode` — a TrueType/Type1 font dictionary with a `/ToUnicode` stream
  becomes `⟨some (parseCMapData program), encoding⟩`, whatever its `/Encoding` says.
* `extract_never_unsupported` — the model never fails to interpret `GetEncoding`.
* `page_tounicode_end_to_end` — font dictionary + any program of the independent CMap writer +
  any content-stream history: the fragment text is NFC of the specified texts.
* `extract_utf8` — every fragment text of every extraction is a list of Unicode scalar values
  (valid UTF-8), for byte inputs and a normaliser that keeps scalar lists scalar.
-/
namespace Tabula.C07Fonts
open Tabula.Pdf (Obj)
open Tabula.Reader (Str Dict Err dget)
open Tabula.FormFonts Tabula.FontDecode

/-! ## 1. bindings are stable over every history -/

/-- a Form XObject — whatever fonts its `/Resources` bind under whatever names, whatever it
selects or draws inside, to any depth — leaves every binding of its caller as it was -/
theorem bindings_stable_do (nfc : List Nat → List Nat) (res : FRes) (fuel : Nat) (st : St) (form : Str)
    (name : Str) (f : Font) (h : st.fonts name = some f) :
    (invoke nfc res fuel st form).fonts name = some f :=
  (keeps_all nfc res fuel).1 st form name f h

/-- … and so does any sequence of operations inside a form … -/
theorem bindings_stable_form (nfc : List Nat → List Nat) (res : FRes) (fuel : Nat) (st : St)
    (ops : List Pdf.CS.Operation) (name : Str) (f : Font) (h : st.fonts name = some f) :
    (runForm nfc res fuel st ops).fonts name = some f :=
  (keeps_all nfc res fuel).2.2 st ops name f h

/-- … and any sequence of operations of the page -/
theorem bindings_stable_page (nfc : List Nat → List Nat) (res : FRes) (st st' : St)
    (ops : List Pdf.CS.Operation) (hrun : runPage nfc res st ops = .ok st')
    (name : Str) (f : Font) (h : st.fonts name = some f) : st'.fonts name = some f := by
  induction ops generalizing st with
  | nil => simp only [runPage, Except.ok.injEq] at hrun; subst hrun; exact h
  | cons op ops ih =>
    simp only [runPage] at hrun
    split at hrun
    · rename_i st1 hst
      apply ih st1 hrun
      have := (keeps_all nfc res maxXObjectDepth).2.1 st op name f h
      rw [hst] at this
      exact this
    · simp at hrun

/-- a TrueType font dictionary with the given `/Encoding` name -/
def exFont (enc : Str) : Obj := .dict [(Reader.kSubtype, .name Reader.kTrueType), (Reader.kEncoding, .name enc)]
/-- a form whose own resources bind `/F1` to a StandardEncoding font -/
def exFormDict : Dict :=
  [(Reader.kSubtype, .name kForm), (Reader.kResources, .dict [(Reader.kFont, .dict [([70, 49], exFont Reader.kStandardEncoding)])])]
def exRes : FRes := fun n => if n = 5 then .ok (.stream exFormDict (some [66, 84])) else .error .err
/-- the page binds `/F1` to a WinAnsiEncoding font and can draw the form as `/X1` -/
def exPageRd : Dict :=
  [(Reader.kFont, .dict [([70, 49], exFont Reader.kWinAnsiEncoding)]), (Reader.kXObject, .dict [([88, 49], .ref 5 0)])]

/-- the hypothesis is satisfiable, and the theorem is about a real rebinding: a page binds
`/F1` and can draw (`/X1 Do`) a form whose own resources bind `/F1` to another font, which is
what `/F1` means while the form runs -/
example :
    ((initial exRes (some exPageRd)).fonts [47, 70, 49]).map (·.encoding) = some Reader.kWinAnsiEncoding ∧
    ((enterForm exRes (initial exRes (some exPageRd)) exPageRd exFormDict [66, 84]).fonts [47, 70, 49]).map (·.encoding)
      = some Reader.kStandardEncoding ∧
    (findForm exRes exPageRd [88, 49]).isSome = true := by
  decide

/-! ## 2. what is bound where -/

/-- the page: a name is bound to what `RegisterFontsFromResources` makes of the page's `/Font`
dictionary (the key itself, or the `/`-prefixed alias of a key) -/
theorem page_initial_binding (res : FRes) (rd fd : Dict) (h : Reader.fontsOf (toRes res) (some rd) = some fd) (name : Str) :
    (initial res (some rd)).fonts name = registered (toRes res) fd name := by
  unfold initial registerFonts
  simp only [h]
  cases registered (toRes res) fd name <;> rfl

/-- inside a form, a name its own `/Resources` bind is the FORM's font, whatever the caller
bound under that name -/
theorem form_entry_binding (res : FRes) (st : St) (rd sd d fd : Dict) (data name : Str) (f : Font)
    (hr : formResources res sd = some d) (hf : Reader.fontsOf (toRes res) (some d) = some fd)
    (hreg : registered (toRes res) fd name = some f) :
    (enterForm res st rd sd data).fonts name = some f := by
  unfold enterForm formFonts registerFonts
  simp only [hr, hf, hreg]

/-- … and a name they do not bind keeps the caller's binding (a form without `/Resources`, or
with resources that do not mention the name, uses the caller's fonts) -/
theorem form_inherits_binding (res : FRes) (st : St) (rd sd : Dict) (data name : Str)
    (h : formResources res sd = none ∨ ∃ d, formResources res sd = some d ∧
      (Reader.fontsOf (toRes res) (some d) = none ∨
        ∃ fd, Reader.fontsOf (toRes res) (some d) = some fd ∧ registered (toRes res) fd name = none)) :
    (enterForm res st rd sd data).fonts name = st.fonts name := by
  unfold enterForm formFonts registerFonts
  rcases h with h | ⟨d, hd, h | ⟨fd, hfd, hn⟩⟩
  · simp only [h]
  · simp only [hd, h]
  · simp only [hd, hfd, hn]

/-! ## 2b. `RegisterFontsFromResources` does not depend on the map iteration order -/

/-- Go ranges over the `/Font` dictionary (a map) in an unspecified order. For a dictionary
with distinct keys, the loop run over the entries in ANY order (`order` is any list with the
same members, repetitions allowed) produces exactly the table `registerFonts` is defined by —
so the font a name is bound to is a function of the dictionary alone. (Before the fix that
added the `explicit` check, a key `F1` and a key `/F1` raced for the name `/F1`.) -/
theorem register_order_free (res : Reader.Res) (rd fd : Dict) (hf : Reader.fontsOf res (some rd) = some fd)
    (hnd : (fd.map (·.1)).Nodup) (order : List (Str × Obj)) (hmem : ∀ kv, kv ∈ order ↔ kv ∈ fd) (m : FontMap) :
    registerLoop res fd order m = registerFonts res rd m := by
  funext name
  rw [registerLoop_eq res fd hnd order hmem m name]
  unfold registerFonts
  simp only [hf]
  cases registered res fd name <;> rfl

/-- the racing pair: keys `F1` and `/F1` in one dictionary; both orders give `/F1` the font of
the key `/F1` -/
example :
    let fd : Dict := [([70, 49], exFont Reader.kWinAnsiEncoding), ([47, 70, 49], exFont Reader.kStandardEncoding)]
    ((fd.map (·.1)).Nodup) ∧
    ((registerLoop (toRes exRes) fd fd FontMap.empty [47, 70, 49]).map (·.encoding)) = some Reader.kStandardEncoding ∧
    ((registerLoop (toRes exRes) fd fd.reverse FontMap.empty [47, 70, 49]).map (·.encoding)) = some Reader.kStandardEncoding := by
  decide

/-! ## 3. a show decodes by the font its `Tf` selects -/

/-- the name `Tf` selects: the operand, `/`-prefixed unless it already starts with `/` -/
def tfKey (n : Str) : Str := if n.head? = some 47 then n else 47 :: n

def opTfOf (n : Str) (sz : Obj) : Pdf.CS.Operation := ⟨Reader.opTf, [.name n, sz]⟩
def opTjOf (data : Str) : Pdf.CS.Operation := ⟨Reader.opTj, [.str data]⟩

theorem step_tf (nfc : List Nat → List Nat) (res : FRes) (fuel : Nat) (st : St) (n : Str) (sz : Obj)
    (hsz : Reader.isNum sz = true) (f : Font) (hb : st.fonts (tfKey n) = some f) :
    step nfc res fuel st (opTfOf n sz) = ({ st with cur := tfKey n, sel := some f }, false) := by
  rw [step.eq_1]
  simp only [opTfOf]
  have h1 : Reader.opTf ≠ Reader.opq := by decide
  have h2 : Reader.opTf ≠ Reader.opQ := by decide
  simp only [h1, h2, if_false, if_true, hsz]
  unfold setFont
  unfold tfKey at hb
  simp only [hb]
  rfl

theorem step_tj (nfc : List Nat → List Nat) (res : FRes) (fuel : Nat) (st : St) (data : Str) :
    step nfc res fuel st (opTjOf data) = (showOne nfc st data, false) := by
  rw [step.eq_1]
  simp only [opTjOf]
  have h1 : Reader.opTj ≠ Reader.opq := by decide
  have h2 : Reader.opTj ≠ Reader.opQ := by decide
  have h3 : Reader.opTj ≠ Reader.opTf := by decide
  simp only [h1, h2, h3, if_false, true_or, if_true]

theorem showOne_bound (nfc : List Nat → List Nat) (st : St) (data : Str) (f : Font) (s : List Nat)
    (hb : st.sel = some f) (hs : decodeString nfc f data = some s) :
    showOne nfc st data = { st with out := st.out ++ [s] } := by
  unfold showOne
  simp only [hb, hs]

theorem runForm_append (nfc : List Nat → List Nat) (res : FRes) (fuel : Nat) (st : St) (a b : List Pdf.CS.Operation) :
    runForm nfc res fuel st (a ++ b) = runForm nfc res fuel (runForm nfc res fuel st a) b := by
  induction a generalizing st with
  | nil => rw [runForm.eq_1]; rfl
  | cons op a ih => simp only [List.cons_append, runForm.eq_2, ih]

theorem runPage_append (nfc : List Nat → List Nat) (res : FRes) (st st' : St) (a b : List Pdf.CS.Operation)
    (h : runPage nfc res st a = .ok st') : runPage nfc res st (a ++ b) = runPage nfc res st' b := by
  induction a generalizing st with
  | nil => simp only [runPage, Except.ok.injEq] at h; subst h; rfl
  | cons op a ih =>
    simp only [runPage, List.cons_append] at h ⊢
    split at h
    · rename_i st1 hst; exact ih st1 h
    · simp at h

/-- **inside a form**: after ANY history of operations (other fonts selected, forms drawn
that rebind the name, `q`/`Q`), `/N sz Tf` followed by a show appends exactly the string
decoded by the font that was bound to `N` when the history began — by `Font.DecodeString`:
its ToUnicode CMap, else a byte-order mark, else its encoding, NFC last (`C07.decode_priority`) -/
theorem show_after_history_form (nfc : List Nat → List Nat) (res : FRes) (fuel : Nat) (st : St)
    (pre : List Pdf.CS.Operation) (n : Str) (sz : Obj) (hsz : Reader.isNum sz = true) (data : Str)
    (f : Font) (hb : st.fonts (tfKey n) = some f) (s : List Nat) (hs : decodeString nfc f data = some s) :
    (runForm nfc res fuel st (pre ++ [opTfOf n sz, opTjOf data])).out =
      (runForm nfc res fuel st pre).out ++ [s] := by
  rw [runForm_append]
  have hb' := bindings_stable_form nfc res fuel st pre (tfKey n) f hb
  generalize runForm nfc res fuel st pre = st1 at hb' ⊢
  rw [runForm.eq_2, step_tf nfc res fuel st1 n sz hsz f hb', runForm.eq_2, step_tj, runForm.eq_1]
  simp only
  rw [showOne_bound nfc _ data f s rfl hs]

/-- **on the page**: the same, for the page's content stream -/
theorem show_after_history_page (nfc : List Nat → List Nat) (res : FRes) (st st1 : St)
    (pre : List Pdf.CS.Operation) (hpre : runPage nfc res st pre = .ok st1)
    (n : Str) (sz : Obj) (hsz : Reader.isNum sz = true) (data : Str)
    (f : Font) (hb : st.fonts (tfKey n) = some f) (s : List Nat) (hs : decodeString nfc f data = some s) :
    ∃ st2, runPage nfc res st (pre ++ [opTfOf n sz, opTjOf data]) = .ok st2 ∧ st2.out = st1.out ++ [s] := by
  rw [runPage_append nfc res st st1 pre _ hpre]
  have hb' := bindings_stable_page nfc res st st1 pre hpre (tfKey n) f hb
  simp only [runPage, step_tf nfc res maxXObjectDepth st1 n sz hsz f hb', step_tj]
  refine ⟨_, rfl, ?_⟩
  rw [showOne_bound nfc _ data f s rfl hs]

example : Reader.isNum (.int 12) = true ∧ tfKey [70, 49] = [47, 70, 49] ∧ tfKey [47, 70, 49] = [47, 70, 49] := by decide

/-! ## 3b. a form that inherits its caller's font (fix fa0c44f; was finding `C07/ext-inherited-font-name-rebound`)

What ISO 32000-1 8.10.1 / 9.3.1 specify: a string that a form shows without a `Tf` of its own
is decoded by the font its caller had selected — the text state is part of the graphics state
the form inherits. `Tf` now records the font the name is bound to at that moment
(`gs.Text.Font`), the graphics state carries it through `q`/`Q` and `Do`, and `showText`
decodes by it, so the statement holds whatever the form's own `/Resources` bind
(`inherited_font`, `inherited_font_do`, `inherited_font_after_history`). Before the fix the
extractor kept the selection as a resource *name* and looked it up in `e.fonts` at every show
(`showOneOld`): right as long as the name still meant the selected font
(`show_old_agrees_unless_rebound`, the former `inherited_font_partial`), wrong when the form's
resources bind the name to another font (`inherited_font_pinned_counterexample`). -/

/-- **inherited_font**: a show inside a form that has not selected a font of its own appends
the string decoded by the font the caller had selected — for EVERY form dictionary, whatever
fonts its `/Resources` bind under whatever names (no hypothesis on them) -/
theorem inherited_font (nfc : List Nat → List Nat) (res : FRes) (st : St) (rd sd : Dict) (content d : Str)
    (f : Font) (hsel : st.sel = some f) (s : List Nat) (hs : decodeString nfc f d = some s) :
    (showOne nfc (enterForm res st rd sd content) d).out = st.out ++ [s] := by
  have hb : (enterForm res st rd sd content).sel = some f := hsel
  rw [showOne_bound nfc _ d f s hb hs]
  rfl

def opDoOf (x : Str) : Pdf.CS.Operation := ⟨Reader.opDo, [.name x]⟩

theorem step_do (nfc : List Nat → List Nat) (res : FRes) (fuel : Nat) (st : St) (x : Str) :
    step nfc res fuel st (opDoOf x) = (invoke nfc res fuel st x, false) := by
  rw [step.eq_1]
  simp only [opDoOf]
  have h1 : Reader.opDo ≠ Reader.opq := by decide
  have h2 : Reader.opDo ≠ Reader.opQ := by decide
  have h3 : Reader.opDo ≠ Reader.opTf := by decide
  have h4 : Reader.opDo ≠ Reader.opTj := by decide
  have h5 : Reader.opDo ≠ Reader.opQuote := by decide
  have h6 : Reader.opDo ≠ Reader.opTJ := by decide
  have h7 : Reader.opDo ≠ Reader.opDQuote := by decide
  simp only [h1, h2, h3, h4, h5, h6, h7, if_false, or_self, if_true]

/-- **the whole `Do`**: drawing (below the nesting limit, within the byte budget) a form whose
content is one show without a `Tf` appends the string decoded by the font the caller had
selected, whatever the form's `/Resources` bind, and gives the caller its selection, its
saved graphics states and its bindings back -/
theorem inherited_font_do (nfc : List Nat → List Nat) (res : FRes) (fuel : Nat) (st : St) (rd sd : Dict)
    (x content d : Str) (hrd : st.resources = some rd) (hfind : findForm res rd x = some (sd, content))
    (hbudget : charge st content ≤ maxXObjectBytes) (hparse : Pdf.CS.csParse content = some [opTjOf d])
    (f : Font) (hsel : st.sel = some f) (s : List Nat) (hs : decodeString nfc f d = some s) :
    (invoke nfc res (fuel + 1) st x).out = st.out ++ [s] ∧
    (invoke nfc res (fuel + 1) st x).sel = st.sel ∧ (invoke nfc res (fuel + 1) st x).cur = st.cur ∧
    (invoke nfc res (fuel + 1) st x).stack = st.stack ∧
    ∀ name g, st.fonts name = some g → (invoke nfc res (fuel + 1) st x).fonts name = some g := by
  refine ⟨?_, ?_, ?_, ?_, fun name g hg => bindings_stable_do nfc res (fuel + 1) st x name g hg⟩ <;>
  · rw [invoke.eq_2]
    have hb : ¬ charge st content > maxXObjectBytes := by omega
    have hsel' : (enterForm res st rd sd content).sel = some f := hsel
    simp only [hrd, hfind, hb, if_false, hparse]
    rw [runForm.eq_2, step_tj, runForm.eq_1]
    simp only
    rw [showOne_bound nfc _ d f s hsel' hs]
    rfl

/-- **after any history of the page**: `/N sz Tf /X Do`, the form `X` showing one string
without a `Tf` — the fragment text is the string decoded by the font that was bound to `N` on
the page when the history began, whatever the form's own `/Resources` call `N` -/
theorem inherited_font_after_history (nfc : List Nat → List Nat) (res : FRes) (st st1 : St)
    (pre : List Pdf.CS.Operation) (hpre : runPage nfc res st pre = .ok st1)
    (n : Str) (sz : Obj) (hsz : Reader.isNum sz = true) (f : Font) (hb : st.fonts (tfKey n) = some f)
    (rd sd : Dict) (x content d : Str) (hrd : st1.resources = some rd)
    (hfind : findForm res rd x = some (sd, content)) (hbudget : charge st1 content ≤ maxXObjectBytes)
    (hparse : Pdf.CS.csParse content = some [opTjOf d]) (s : List Nat) (hs : decodeString nfc f d = some s) :
    ∃ st2, runPage nfc res st (pre ++ [opTfOf n sz, opDoOf x]) = .ok st2 ∧ st2.out = st1.out ++ [s] := by
  rw [runPage_append nfc res st st1 pre _ hpre]
  have hb' := bindings_stable_page nfc res st st1 pre hpre (tfKey n) f hb
  simp only [runPage, step_tf nfc res maxXObjectDepth st1 n sz hsz f hb', step_do]
  refine ⟨_, rfl, ?_⟩
  exact (inherited_font_do nfc res 9 { st1 with cur := tfKey n, sel := some f } rd sd x content d hrd hfind
    hbudget hparse f rfl s hs).1

/-- the form of `exFormDict` (its resources bind `/F1` to a StandardEncoding font) with the
content `(¤)Tj` (the byte A4 in a literal string) -/
def exRes4 : FRes := fun n => if n = 5 then .ok (.stream exFormDict (some [40, 0xA4, 41, 84, 106])) else .error .err

/-- `(¤)Tj` parses to one `Tj` of the byte A4 (by the content-stream round trip of C06) -/
theorem exShow_parse : Pdf.CS.csParse [40, 0xA4, 41, 84, 106] = some [opTjOf [0xA4]] := by
  have h := Tabula.Pdf.cs_roundtrip [⟨[Pdf.SObj.lit [] [.raw 0xA4]], [], [84, 106]⟩] [] (by
      simp [Pdf.ValidOps, Pdf.ValidList, Pdf.noRefList, Pdf.SepOk, Pdf.lastEndsRegular, Pdf.OpName, Pdf.SObj.Valid,
        Pdf.SObj.noRef, Pdf.ValidStr, Pdf.SObj.endsRegular]
      refine ⟨⟨84, [106], ⟨rfl, rfl⟩, by decide, by decide⟩, by decide⟩) (by intro u hu; cases hu) (by
      intro o ho
      simp only [List.mem_singleton] at ho
      subst ho
      decide)
  simpa [Pdf.renderOps, Pdf.SOp.render, Pdf.renderList, Pdf.SObj.render, Pdf.renderSep, Pdf.renderStr, Pdf.renderStrBody,
    Pdf.SPiece.render, Pdf.valueList, Pdf.SObj.value, Pdf.strBytes, Pdf.SPiece.bytes, opTjOf, Reader.opTj] using h

/-- the hypotheses of `inherited_font_after_history` are satisfiable on a form that DOES rebind
the selected name — the former witness of the finding: the page's `/F1` is WinAnsiEncoding
(byte A4 is U+00A4), the form's own `/F1` is StandardEncoding (byte A4 is U+2044); the page
runs `/F1 12 Tf /X1 Do`, the form `(¤)Tj`; the fragment text is U+00A4 -/
theorem inherited_font_witness :
    ((enterForm exRes4 (initial exRes4 (some exPageRd)) exPageRd exFormDict []).fonts [47, 70, 49]).map (·.encoding)
      = some Reader.kStandardEncoding ∧
    ∃ st2, runPage id exRes4 (initial exRes4 (some exPageRd)) [opTfOf [70, 49] (.int 12), opDoOf [88, 49]] = .ok st2 ∧
      st2.out = [[0xA4]] := by
  refine ⟨by decide, ?_⟩
  exact inherited_font_after_history id exRes4 (initial exRes4 (some exPageRd)) (initial exRes4 (some exPageRd)) [] rfl
    [70, 49] (.int 12) (by decide) ⟨none, Reader.kWinAnsiEncoding, []⟩ (by rfl) exPageRd exFormDict [88, 49]
    [40, 0xA4, 41, 84, 106] [0xA4] rfl (by rfl) (by decide) exShow_parse [0xA4] (by decide +kernel)

/-- the old lookup by name agrees with the selection as long as the current name is still
bound to the selected font (the former `inherited_font_partial`: the form's resources do not
rebind the name) -/
theorem show_old_agrees_unless_rebound (nfc : List Nat → List Nat) (st : St) (d : Str)
    (h : st.fonts st.cur = st.sel) : showOneOld nfc st d = showOne nfc st d := by
  unfold showOneOld showOne
  rw [h]

/-- the page of `exPageRd` has selected `/F1` (WinAnsiEncoding: byte A4 is U+00A4); the form
`exFormDict` binds `/F1` to a StandardEncoding font (byte A4 is U+2044). Before fa0c44f
(`showOneOld`: the name looked up again at the show) the string `<A4>` shown by the form
without a `Tf` came out as U+2044; now it is the U+00A4 of the selected font, as on the page -/
theorem inherited_font_pinned_counterexample :
    (showOneOld id (enterForm exRes (setFont (initial exRes (some exPageRd)) [70, 49]) exPageRd exFormDict [66, 84]) [0xA4]).out
      = [[0x2044]] ∧
    (showOne id (enterForm exRes (setFont (initial exRes (some exPageRd)) [70, 49]) exPageRd exFormDict [66, 84]) [0xA4]).out
      = [[0xA4]] ∧
    (showOne id (setFont (initial exRes (some exPageRd)) [70, 49]) [0xA4]).out = [[0xA4]] := by
  decide +kernel

/-! ## 4. the model never fails -/

theorem decodeString_isSome (nfc : List Nat → List Nat) (f : Font) (d : List Nat) :
    (decodeString nfc f d).isSome = true := by
  unfold decodeString preNFC
  cases f.toUnicode with
  | some cm => rfl
  | none =>
    simp only
    split
    · rfl
    · rfl
    · split
      · have := C07.getencoding_total f.encoding
        cases hg : Encoding.getEncoding f.encoding with
        | none => rw [hg] at this; simp at this
        | some e => rfl
      · rfl

/-- `extract` answers with the texts or with tabula's error, never with "outside the model" -/
theorem extract_never_unsupported (nfc : List Nat → List Nat) (res : FRes) (pageRes : Option Dict) (content : Str) :
    extract nfc res pageRes content ≠ .error .unsupported := by
  unfold extract
  split
  · simp
  · rename_i ops _
    have hgood : ∀ (ops : List Pdf.CS.Operation) (st st' : St), st.bad = false →
        runPage nfc res st ops = .ok st' → st'.bad = false := by
      intro ops
      induction ops with
      | nil => intro st st' hb h; simp only [runPage, Except.ok.injEq] at h; subst h; exact hb
      | cons op ops ih =>
        intro st st' hb h
        simp only [runPage] at h
        split at h
        · rename_i st1 hst
          apply ih st1 st' _ h
          have := (staysGood_all nfc (decodeString_isSome nfc) res maxXObjectDepth).2.1 st op hb
          rw [hst] at this
          exact this
        · simp at h
    split
    · rename_i st hst
      have : st.bad = false := hgood ops _ st rfl hst
      simp [this]
    · rename_i e hst
      -- `runPage` fails only with `.err`
      have herr : ∀ (ops : List Pdf.CS.Operation) (st : St) e, runPage nfc res st ops = .error e → e = .err := by
        intro ops
        induction ops with
        | nil => intro st e h; simp [runPage] at h
        | cons op ops ih =>
          intro st e h
          simp only [runPage] at h
          split at h
          · exact ih _ _ h
          · simp only [Except.error.injEq] at h; exact h.symm
      have := herr ops _ e hst
      subst this
      simp

/-! ## 5. font dictionaries -/

/-- A simple-font dictionary (`/Subtype /TrueType` or `/Type1`) whose `/Encoding` and `/Widths`
are acceptable and whose `/ToUnicode` is a reference to a stream that decodes to `prog`
registers as the font `⟨ToUnicode = parseCMapData prog, Encoding = enc, Differences = ds⟩`
(`NewTrueTypeFont` / `NewType1Font` + `ParseToUnicodeCMap`; with the CMap present neither
`enc` nor `ds` is consulted, `C07.differences_tounicode_precedence`). -/
theorem parseFont_simple_tounicode (res : Reader.Res) (fd : Dict) (st std : Str) (diffs : Bool)
    (hst : dget fd Reader.kSubtype = some (.name st))
    (hkind : (st = Reader.kType1 ∧ std = Reader.kStandardEncoding ∧ diffs = true) ∨
             (st = Reader.kTrueType ∧ std = Reader.kWinAnsiEncoding ∧ diffs = false))
    (enc : Str) (ds : Diffs) (henc : Reader.simpleEncoding res fd std diffs = some (enc, ds))
    (hw : Reader.widthsOk res fd = true)
    (n g : Int) (htu : dget fd Reader.kToUnicode = some (.ref n g)) (hn : 0 ≤ n)
    (prog : Str) (hres : res n.toNat = .ok (.stream (some prog))) :
    parseFont res (.dict fd) = some ⟨some (CMap.parseCMapData prog), enc, ds⟩ := by
  have htu' : Reader.toUnicodeOf res fd = some (CMap.parseCMapData prog) := by
    unfold Reader.toUnicodeOf
    simp only [htu]
    unfold Reader.resolve
    have : ¬ n < 0 := by omega
    simp only [this, if_false, hres]
  have hR : Reader.parseFont res (.dict fd) = some ⟨some (CMap.parseCMapData prog), enc, ds⟩ := by
    unfold Reader.parseFont
    simp only [Reader.resolve, hst]
    rcases hkind with ⟨h1, h2, h3⟩ | ⟨h1, h2, h3⟩
    · subst h1 h2 h3
      simp only [if_true, henc, hw, htu']
    · subst h1 h2 h3
      have hne : Reader.kTrueType ≠ Reader.kType1 := by decide
      simp only [hne, if_false, if_true, henc, hw, htu']
  have h0 : isType0 res (.dict fd) = false := by
    unfold isType0
    simp only [Reader.resolve, hst]
    rcases hkind with ⟨h1, _, _⟩ | ⟨h1, _, _⟩ <;> subst h1 <;> decide
  unfold parseFont
  rw [hR, h0]
  rfl

def exFd : Dict :=
  [(Reader.kSubtype, .name Reader.kTrueType), (Reader.kEncoding, .name [77, 97, 99]), (Reader.kToUnicode, .ref 7 0)]
def exRes2 : Reader.Res := fun n => if n = 7 then .ok (.stream (some [60, 62])) else .error .err

/-- the hypotheses are satisfiable: a TrueType dictionary with `/Encoding /Mac` and
`/ToUnicode 7 0 R`, object 7 being a stream -/
example :
    Reader.simpleEncoding exRes2 exFd Reader.kWinAnsiEncoding false = some ([77, 97, 99], []) ∧ Reader.widthsOk exRes2 exFd = true ∧
      (match exRes2 (7 : Int).toNat with | .ok (.stream (some d)) => d == [60, 62] | _ => false) = true ∧
      ((parseFont exRes2 (.dict exFd)).map (·.encoding)) = some [77, 97, 99] := by
  decide

/-- **simple_font_differences** (`parseEncoding` of `NewType1Font` and of `NewTrueTypeFont`
after b3a0e07): an `/Encoding` dictionary with a `/Differences` array of runs leaves the base
encoding's name in `Font.Encoding` and in `Font.Differences` exactly what the array specifies
for every byte (`Differences.specRune`: the glyph of the last run naming the byte, as far as
the glyph list knows its name) - for Type1 and TrueType alike, for every list of runs. -/
theorem simple_font_differences (res : Reader.Res) (fd ed : Dict) (std : Str) (strict : Bool)
    (rs : List Differences.Run)
    (he : dget fd Reader.kEncoding = some (.dict ed))
    (hd : dget ed Reader.kDifferences = some (.arr (Differences.renderRuns rs))) :
    ∃ ds, Reader.simpleEncoding res fd std strict = some (Reader.baseEncoding ed std, ds) ∧
      ∀ b, b ≤ 255 → diffLookup ds b = Differences.specRune rs b := by
  exact Differences.simpleEncoding_differences res fd ed std strict rs he hd

/-- … and the font that is registered for such a dictionary without `/ToUnicode` -/
theorem parseFont_simple_differences (res : Reader.Res) (fd ed : Dict) (st std : Str)
    (hst : dget fd Reader.kSubtype = some (.name st))
    (hkind : (st = Reader.kType1 ∧ std = Reader.kStandardEncoding) ∨ (st = Reader.kTrueType ∧ std = Reader.kWinAnsiEncoding))
    (rs : List Differences.Run)
    (he : dget fd Reader.kEncoding = some (.dict ed))
    (hd : dget ed Reader.kDifferences = some (.arr (Differences.renderRuns rs)))
    (hw : Reader.widthsOk res fd = true) (htu : dget fd Reader.kToUnicode = none) :
    ∃ ds, parseFont res (.dict fd) = some ⟨none, Reader.baseEncoding ed std, ds⟩ ∧
      ∀ b, b ≤ 255 → diffLookup ds b = Differences.specRune rs b := by
  have h0 : isType0 res (.dict fd) = false := by
    unfold isType0
    simp only [Reader.resolve, hst]
    rcases hkind with ⟨h1, _⟩ | ⟨h1, _⟩ <;> subst h1 <;> decide
  obtain ⟨ds, hR, hl⟩ := Differences.parseFont_differences res fd ed st std hst hkind rs he hd hw htu
  refine ⟨ds, ?_, hl⟩
  unfold parseFont
  rw [hR, h0]
  rfl

/-- the witness of finding C01/font-text-differences as a font dictionary -/
def exDiffFd : Dict :=
  [(Reader.kType, .name Reader.kFont), (Reader.kSubtype, .name Reader.kType1),
   (Reader.kEncoding, .dict [(Reader.kBaseEncoding, .name Reader.kWinAnsiEncoding),
      (Reader.kDifferences, .arr (Differences.renderRuns C07.exDiffRuns))])]

/-- the hypotheses are satisfiable: the witness dictionary registers with the two overrides -/
example :
    ((parseFont (fun _ => .error .err) (.dict exDiffFd)).map fun f => (f.toUnicode.isSome, f.encoding, f.differences)) =
      some (false, Reader.kWinAnsiEncoding, [(66, some 0xE9), (65, some 0x20AC)]) ∧
    Reader.widthsOk (fun _ => .error .err) exDiffFd = true ∧ (dget exDiffFd Reader.kToUnicode).isNone = true := by
  decide +kernel

/-! ## 6. end to end: font dictionary + ToUnicode program + content-stream history

The property's statement over the model of the public path
(`RegisterFontsFromResources` → `ExtractFromBytes` → `showText` → `Font.DecodeString` →
`CMap.LookupString` over `parseCMapData` of the stream): a page whose resources bind a name
to a font whose `/ToUnicode` stream holds ANY program of the independent writer (any policy,
form, width 1–4, code→text map) shows, after ANY content-stream history, a string of
specified codes in that font — the fragment text is the NFC of the specified texts, whatever
the font's `/Encoding` says (name, base encoding or `/Differences`) and whether or not the code
string looks like a byte-order mark. -/

theorem registered_alias (res : Reader.Res) (fontsD : Dict) (n : Str) (o : Obj)
    (hn : n.head? ≠ some 47) (hno : dget fontsD (47 :: n) = none) (hb : dget fontsD n = some o) :
    registered res fontsD (tfKey n) = parseFont res o := by
  unfold tfKey registered
  simp only [hn, if_false, hno, hb, Option.bind_some]

theorem page_tounicode_end_to_end (nfc : List Nat → List Nat) (res : FRes) (pageRd fontsD : Dict)
    (n : Str) (o : Obj) (enc : Str) (ds : Diffs)
    (p : CMap.Policy) (f : CMap.Form) (w : Nat) (hw1 : 1 ≤ w) (hw4 : w ≤ 4) (runs : List CMap.Run)
    (hm : CMapCompose.MapOK w runs) (hoff : f = .bfchar ∨ f = .array ∨ ∀ r ∈ runs, CMap.RunOffsetOK r)
    -- the page's `/Font` dictionary binds `n` to a font dictionary with that ToUnicode program
    (hfonts : Reader.fontsOf (toRes res) (some pageRd) = some fontsD)
    (hn : n.head? ≠ some 47) (hno : dget fontsD (47 :: n) = none) (hb : dget fontsD n = some o)
    (hfont : parseFont (toRes res) o = some ⟨some (CMap.parseCMapData (CMap.renderMap p f w runs)), enc, ds⟩)
    -- any history, then `/n sz Tf <codes> Tj`
    (pre : List Pdf.CS.Operation) (st1 : St) (hpre : runPage nfc res (initial res (some pageRd)) pre = .ok st1)
    (sz : Obj) (hsz : Reader.isNum sz = true)
    (sel : List (Nat × List Nat)) (hsel : ∀ e ∈ sel, e ∈ CMap.entriesFor f runs) :
    ∃ st2, runPage nfc res (initial res (some pageRd))
        (pre ++ [opTfOf n sz, opTjOf ((sel.map (·.1)).flatMap (CMap.codeBytes w))]) = .ok st2 ∧
      st2.out = st1.out ++ [nfc (sel.flatMap (·.2))] := by
  have hbind : (initial res (some pageRd)).fonts (tfKey n) =
      some ⟨some (CMap.parseCMapData (CMap.renderMap p f w runs)), enc, ds⟩ := by
    rw [page_initial_binding res pageRd fontsD hfonts, registered_alias _ _ n o hn hno hb, hfont]
  apply show_after_history_page nfc res _ st1 pre hpre n sz hsz _ _ hbind
  rw [(C07.tounicode_precedence nfc _ enc enc ds ds _).2,
    C07CMap.cmap_roundtrip p f w hw1 hw4 runs hm hoff sel hsel]

/-- **page_differences_end_to_end**: the same public path for a simple font whose text comes
from its `/Encoding` dictionary: a page whose resources bind a name to a Type1 or TrueType
font dictionary without `/ToUnicode`, with `/Encoding << /BaseEncoding … /Differences [runs] >>`
(ANY list of runs), shows, after ANY content-stream history, ANY byte string that does not
start with a byte-order mark - the fragment text is, code by code, the character the
differences specify where they name the code and the base encoding's character elsewhere, NFC
last. (Before b3a0e07 the differences were dropped: `C07.differences_pinned_counterexample`.) -/
theorem page_differences_end_to_end (nfc : List Nat → List Nat) (res : FRes) (pageRd fontsD : Dict)
    (n : Str) (fd ed : Dict) (st std : Str)
    (hst : dget fd Reader.kSubtype = some (.name st))
    (hkind : (st = Reader.kType1 ∧ std = Reader.kStandardEncoding) ∨ (st = Reader.kTrueType ∧ std = Reader.kWinAnsiEncoding))
    (rs : List Differences.Run)
    (he : dget fd Reader.kEncoding = some (.dict ed))
    (hd : dget ed Reader.kDifferences = some (.arr (Differences.renderRuns rs)))
    (hw : Reader.widthsOk (toRes res) fd = true) (htu : dget fd Reader.kToUnicode = none)
    (e : Encoding.Enc) (hbase : Reader.baseEncoding ed std ≠ [])
    (hge : Encoding.getEncoding (Reader.baseEncoding ed std) = some e)
    -- the page's `/Font` dictionary binds `n` to that font dictionary
    (hfonts : Reader.fontsOf (toRes res) (some pageRd) = some fontsD)
    (hn : n.head? ≠ some 47) (hno : dget fontsD (47 :: n) = none) (hb : dget fontsD n = some (.dict fd))
    -- any history, then `/n sz Tf <data> Tj`
    (pre : List Pdf.CS.Operation) (st1 : St) (hpre : runPage nfc res (initial res (some pageRd)) pre = .ok st1)
    (sz : Obj) (hsz : Reader.isNum sz = true)
    (data : Str) (hbytes : UTF16.AllBytes data) (hnb : C07.NoBOM data) :
    ∃ st2, runPage nfc res (initial res (some pageRd)) (pre ++ [opTfOf n sz, opTjOf data]) = .ok st2 ∧
      st2.out = st1.out ++ [nfc (data.filterMap fun b =>
        match C07.specByte rs e.table b with
        | some r => if r ≠ 0 then some (UTF16.toRune r) else none
        | none => none)] := by
  obtain ⟨ds, hfont, hl⟩ := parseFont_simple_differences (toRes res) fd ed st std hst hkind rs he hd hw htu
  have hbind : (initial res (some pageRd)).fonts (tfKey n) = some ⟨none, Reader.baseEncoding ed std, ds⟩ := by
    rw [page_initial_binding res pageRd fontsD hfonts, registered_alias _ _ n (.dict fd) hn hno hb, hfont]
  apply show_after_history_page nfc res _ st1 pre hpre n sz hsz _ _ hbind
  exact C07.differences_override nfc _ hbase e hge rs ds hl data hbytes hnb

/-- the hypotheses are satisfiable: the page binds `F1` to the witness dictionary (written
directly in the `/Font` dictionary) -/
example :
    (Reader.fontsOf (toRes (fun _ => .error .err)) (some [(Reader.kFont, .dict [([70, 49], .dict exDiffFd)])])).isSome = true ∧
    Reader.baseEncoding [(Reader.kBaseEncoding, .name Reader.kWinAnsiEncoding)] Reader.kStandardEncoding = Reader.kWinAnsiEncoding ∧
    (Encoding.getEncoding Reader.kWinAnsiEncoding).isSome = true ∧ UTF16.AllBytes [65, 66] ∧ C07.NoBOM [65, 66] := by
  refine ⟨by decide, by decide, C07.getencoding_total _, ?_, ⟨fun r h => by simp at h, fun r h => by simp at h⟩⟩
  intro b hb
  simp only [List.mem_cons, List.mem_nil_iff, or_false] at hb
  omega

/-- a page whose `/Font` dictionary binds `F1` to object 3, a TrueType font with
`/Encoding /MacRomanEncoding` and `/ToUnicode 7 0 R`; object 7 is a stream holding a rendered program -/
def exProg : Str := CMap.renderMap { crlf := true, upper := false } .offset 1 [⟨0x41, [[0x66, 0x61], [0x66, 0x62]]⟩]
def exRes3 : FRes := fun k =>
  if k = 3 then .ok (.obj (.dict [(Reader.kSubtype, .name Reader.kTrueType), (Reader.kEncoding, .name [77, 97, 99]), (Reader.kToUnicode, .ref 7 0)]))
  else if k = 7 then .ok (.stream [] (some exProg)) else .error .err
def exPageRd3 : Dict := [(Reader.kFont, .dict [([70, 49], .ref 3 0)])]

/-- the hypotheses of `page_tounicode_end_to_end` are satisfiable -/
example :
    (Reader.fontsOf (toRes exRes3) (some exPageRd3)).isSome = true ∧
    dget [(([70, 49] : Str), Obj.ref 3 0)] [47, 70, 49] = none ∧
    (dget [(([70, 49] : Str), Obj.ref 3 0)] [70, 49]).isSome = true ∧
    ((parseFont (toRes exRes3) (.ref 3 0)).map fun f => (f.toUnicode.isSome, f.encoding)) = some (true, [77, 97, 99]) ∧
    Reader.isNum (.int 12) = true := by
  decide +kernel

/-! ## 7. every fragment text is valid UTF-8, over whole histories

The second sentence of the property ("all text the library returns is valid UTF-8") for the
extractor model: `C07.decoded_utf8` speaks about one `DecodeString` call; here it is carried
through every operation history including forms. Byte strings in, scalar lists out: the
content and every stream the resolver hands out are byte strings, the normaliser maps scalar
lists to scalar lists (x/text NFC does; it is a parameter). NFC-ness itself is x/text's. -/

/-! `FontOK`, `Utf8Inv`, `ResBytes` and the lemmas about registration, entering and leaving a
form are in `Lemmas/FormFonts.lean`. -/

theorem utf8_show (nfc : List Nat → List Nat) (hnfc : ∀ l, CMap.AllScalar l → CMap.AllScalar (nfc l))
    (st : St) (d : Str) (hd : Pdf.CS.Bytes d) (hinv : Utf8Inv st) : Utf8Inv (showOne nfc st d) := by
  refine ⟨fun name f hf => hinv.1 name f (by rw [showOne_fonts] at hf; exact hf), ?_,
    by rw [showOne_sel]; exact hinv.2.2.1, by rw [showOne_stack]; exact hinv.2.2.2⟩
  unfold showOne
  split
  · rename_i f hf
    split
    · rename_i s hs
      intro t ht
      simp only [List.mem_append, List.mem_singleton] at ht
      rcases ht with ht | ht
      · exact hinv.2.1 t ht
      · subst ht
        exact C07.decoded_utf8 nfc hnfc f (hinv.2.2.1 f hf) d hd t hs
    · exact hinv.2.1
  · intro t ht
    simp only [List.mem_append, List.mem_singleton] at ht
    rcases ht with ht | ht
    · exact hinv.2.1 t ht
    · subst ht
      exact C07.nofont_utf8 nfc hnfc d hd

/-- the invariant holds across every operation history whose strings are byte strings -/
theorem utf8_all (nfc : List Nat → List Nat) (hnfc : ∀ l, CMap.AllScalar l → CMap.AllScalar (nfc l))
    (res : FRes) (hres : ResBytes res) (fuel : Nat) :
    (∀ st n, Utf8Inv st → Utf8Inv (invoke nfc res fuel st n)) ∧
    (∀ st op, OpBytes op → Utf8Inv st → Utf8Inv (step nfc res fuel st op).1) ∧
    (∀ st ops, OpsBytes ops → Utf8Inv st → Utf8Inv (runForm nfc res fuel st ops)) := by
  apply run_induction_bytes nfc res (fun a b => Utf8Inv a → Utf8Inv b)
  · intro st h; exact h
  · intro a b c hab hbc h; exact hbc (hab h)
  · intro st h; exact push_utf8 st h
  · intro st st' hr h; exact restore_utf8 hr h
  · intro st n h; exact setFont_utf8 st n h
  · exact fun st d hd => utf8_show nfc hnfc st d hd
  · intro fuel ih st n hinv
    rw [invoke.eq_2]
    cases hr : st.resources with
    | none => exact hinv
    | some rd =>
      simp only
      cases hfind : findForm res rd n with
      | none => exact hinv
      | some p =>
        obtain ⟨sd, data⟩ := p
        simp only
        split
        · exact hinv
        · have hent := enterForm_utf8 res st rd sd data hinv
          apply leaveForm_utf8 res sd rd st.fonts _ hinv.1
          split
          · exact hent
          · rename_i ops hops
            exact ih _ ops (Pdf.CS.csParse_showBytes data (findForm_bytes res hres rd n sd data hfind) ops hops) hent

/-- **every fragment text is a list of Unicode scalar values (valid UTF-8)**: for every
resolver that hands out byte strings, every page resources dictionary, every content byte
string and every normaliser that keeps scalar lists scalar, whatever fonts, CMaps, encodings,
forms and operators are involved -/
theorem extract_utf8 (nfc : List Nat → List Nat) (hnfc : ∀ l, CMap.AllScalar l → CMap.AllScalar (nfc l))
    (res : FRes) (hres : ResBytes res) (pageRes : Option Dict) (content : Str) (hc : Pdf.CS.Bytes content)
    (texts : List Str) (h : extract nfc res pageRes content = .ok texts) :
    ∀ t ∈ texts, CMap.AllScalar t := by
  unfold extract at h
  split at h
  · simp at h
  · rename_i ops hops
    have hob := Pdf.CS.csParse_showBytes content hc ops hops
    have hinit : Utf8Inv (initial res pageRes) := by
      refine ⟨?_, by intro s hs; simp [initial] at hs, by intro f hf; simp [initial] at hf,
        by intro p hp; simp [initial] at hp⟩
      intro name f hf
      unfold initial at hf
      simp only at hf
      split at hf
      · exact registerFonts_ok _ _ _ (fun n g hg => by simp [FontMap.empty] at hg) name f hf
      · simp [FontMap.empty] at hf
    have hrun : ∀ (ops : List Pdf.CS.Operation) (st st' : St), OpsBytes ops → Utf8Inv st →
        runPage nfc res st ops = .ok st' → Utf8Inv st' := by
      intro ops
      induction ops with
      | nil => intro st st' _ hi hr; simp only [runPage, Except.ok.injEq] at hr; subst hr; exact hi
      | cons op ops ih =>
        intro st st' hb hi hr
        simp only [runPage] at hr
        split at hr
        · rename_i st1 hst
          apply ih st1 st' (fun o ho => hb o (by simp [ho])) _ hr
          have := (utf8_all nfc hnfc res hres maxXObjectDepth).2.1 st op (hb op (by simp)) hi
          rw [hst] at this
          exact this
        · simp at hr
    split at h
    · rename_i st hst
      have hfin := hrun ops _ st hob hinit hst
      split at h
      · simp at h
      · simp only [Except.ok.injEq] at h; subst h; exact hfin.2.1
    · simp at h

/-- the hypotheses are satisfiable: a resolver with one byte-string stream, a byte content,
the identity as normaliser -/
example : ResBytes exRes ∧ Pdf.CS.Bytes [66, 84, 32, 69, 84] ∧ (∀ l, CMap.AllScalar l → CMap.AllScalar (id l)) := by
  refine ⟨?_, by intro b hb; simp at hb; omega, fun l h => h⟩
  intro n d dec h
  unfold exRes at h
  split at h
  · simp only [Except.ok.injEq, FVal.stream.injEq, Option.some.injEq] at h
    intro b hb
    rw [← h.2] at hb
    simp at hb; omega
  · simp at h

end Tabula.C07Fonts
